import Zc.Model.SurviveClosed
import Zc.Proofs.SurviveApi
/-! **The clock hypothesis of the timer blocks is an invariant** (C15).  `C15_browser_timer_total` / `C15_lookup_query_total` assumed
"the clock does not read earlier than a cached record's creation".  Records are stamped with the `now` of the block that stores
them (`DNSIncoming.now`, `reset_ttl` from the new record, the cache-flush marking at `now`), no block moves a creation time forward
otherwise, so for every history whose clock readings do not decrease (`Mono`) every cached record was created at or before the
latest reading (`ClockInv`).  With it, every block of the closed composite is total (`hstep_ok`) and so is every history (`hrun_ok`). -/
namespace Zc.Survive.Closed
open Zc Zc.Wire Zc.Survive Zc.Survive.Comp Zc.Survive.Route Zc.Survive.User Zc.Survive.Api
open Zc.Listener (Addr alGet alErase alSet TcTimer)

/-- created at or before `t` -/
def Before (t : Ms) (r : Rec) : Prop := r.created ≤ t

/-- **no cached record object is younger than the clock reading `t`** (both indexes of the cache) -/
def ClockInv (t : Ms) (c : Cache) : Prop := CacheAll (Before t) c

theorem ClockInv.mono {c : Cache} {t t' : Ms} (h : ClockInv t c) (ht : t ≤ t') : ClockInv t' c :=
  ⟨fun kb hkb r hr => Int.le_trans (h.1 kb hkb r hr) ht, fun kb hkb r hr => Int.le_trans (h.2 kb hkb r hr) ht⟩

theorem ClockInv.allRecs {c : Cache} {t : Ms} (h : ClockInv t c) : ∀ r ∈ c.allRecs, r.created ≤ t := by
  intro r hr
  obtain ⟨kb, hkb, hr'⟩ := allRecs_mem hr
  exact h.1 kb hkb r hr'

theorem ClockInv.empty (t : Ms) : ClockInv t {} :=
  ⟨by intro kb hkb; simp at hkb, by intro kb hkb; simp at hkb⟩

section ingest
variable {lower : String → String}

theorem floorPtr_created (r : Rec) : (floorPtr r).created = r.created := by
  unfold floorPtr
  split <;> rfl

theorem ingestStep_before (now : Ms) {a : IngestAcc Cache} (h : AccAll (Before now) a) {r0 : Rec} (hr : Before now r0) :
    AccAll (Before now) (ingestStep lower (Cache.ops lower) now a r0) := by
  have hf : Before now (floorPtr r0) := by unfold Before; rw [floorPtr_created]; exact hr
  unfold ingestStep
  dsimp only
  split
  · refine ⟨?_, h.addr, h.other⟩
    exact cache_mapRecs_all h.cache _ (fun e he => by split; exact hf; exact he)
  · split
    · exact ⟨h.cache, by intro x hx; simp only [List.mem_append, List.mem_singleton] at hx; rcases hx with hx | rfl; exact h.addr x hx; exact hf, h.other⟩
    · exact ⟨h.cache, h.addr, by intro x hx; simp only [List.mem_append, List.mem_singleton] at hx; rcases hx with hx | rfl; exact h.other x hx; exact hf⟩
  · exact ⟨h.cache, h.addr, h.other⟩
  · exact ⟨h.cache, h.addr, h.other⟩

theorem ingestFold_before (now : Ms) : ∀ (rs : List Rec) (a : IngestAcc Cache), AccAll (Before now) a → (∀ r ∈ rs, Before now r) →
    AccAll (Before now) (rs.foldl (ingestStep lower (Cache.ops lower) now) a) := by
  intro rs
  induction rs with
  | nil => intro a h _; exact h
  | cons r t ih =>
    intro a h hr
    simp only [List.foldl_cons]
    exact ih _ (ingestStep_before now h (hr r List.mem_cons_self)) (fun x hx => hr x (List.mem_cons_of_mem _ hx))

/-- **ingestion stamps with the datagram's arrival time**: whatever the records are, if nothing cached is younger than `now`, nothing is afterwards -/
theorem ingest_before {c : Cache} {now : Ms} (hc : ClockInv now c) {recs : List Rec} {out : IngestOut Cache}
    (h : Zc.ingest lower (Cache.ops lower) c now recs = .ok out) : ClockInv now out.cache := by
  have hstamp : ∀ r ∈ stamp now recs, Before now r := by
    intro r hr'
    unfold stamp at hr'
    obtain ⟨r0, _, rfl⟩ := List.mem_map.mp hr'
    exact Int.le_refl _
  have hpre : AccAll (Before now) (ingestPre lower (Cache.ops lower) c now recs) := by
    unfold ingestPre
    dsimp only
    have hf := ingestFold_before (lower := lower) now (stamp now recs) { cache := c } ⟨hc, by simp, by simp⟩ hstamp
    refine ⟨?_, hf.addr, hf.other⟩
    dsimp only
    split
    · exact hf.cache
    · exact cache_mapRecs_all hf.cache _ (fun e he => by split; exact Int.le_refl _; exact he)
  unfold Zc.ingest at h
  dsimp only at h
  have h2 := addAll_all (lower := lower) _ _ false hpre.cache hpre.addr
  have h3 := addAll_all (lower := lower) _ _ false h2 hpre.other
  cases h4 : Zc.removeAll (Cache.ops lower)
      (Zc.addAll (Cache.ops lower) (Zc.addAll (Cache.ops lower) (ingestPre lower (Cache.ops lower) c now recs).cache
        (ingestPre lower (Cache.ops lower) c now recs).addrAdds).1 (ingestPre lower (Cache.ops lower) c now recs).otherAdds).1
      (Zc.keptRemoves (Cache.ops lower)
        (Zc.addAll (Cache.ops lower) (Zc.addAll (Cache.ops lower) (ingestPre lower (Cache.ops lower) c now recs).cache
          (ingestPre lower (Cache.ops lower) c now recs).addrAdds).1 (ingestPre lower (Cache.ops lower) c now recs).otherAdds).1
        (ingestPre lower (Cache.ops lower) c now recs).removes) with
  | error e => rw [h4] at h; simp [bind, Except.bind] at h
  | ok c4 =>
    rw [h4] at h
    simp only [bind, Except.bind, pure, Except.pure, Except.ok.injEq] at h
    subst h
    exact removeAll_all _ _ _ h3 h4

end ingest

/-! ### what a datagram block does to the downstream state, for any downstream -/

section frame
variable {σ ω : Type}

/-- a reflexive, transitive relation kept by the three downstream operations -/
structure Frame (D : Down σ ω) (R : σ → σ → Prop) : Prop where
  refl : ∀ d, R d d
  trans : ∀ a b c, R a b → R b c → R a c
  answer : ∀ d ks u d' qa, D.answer d ks u = .ok (d', qa) → R d d'
  enqueue : ∀ d t q, R d (D.enqueue d t q).1

theorem handleAssembled_frame {D : Down σ ω} {R : σ → σ → Prop} (hR : Frame D R) {d d' : σ} {ks : List Pkt} {addr : Addr} {port : Nat}
    {out : List (Out ω)} (h : handleAssembled D d ks addr port = .ok (d', out)) : R d d' := by
  unfold handleAssembled at h
  split at h
  · cases h
  · rename_i first rest
    dsimp only at h
    split at h
    · cases h
    · rename_i d1 ha
      simp only [Except.ok.injEq, Prod.mk.injEq] at h
      rw [← h.1]
      exact hR.answer _ _ _ _ _ ha
    · rename_i d1 qa ha
      split at h
      · cases h
      · split at h
        · cases h
        · simp only [Except.ok.injEq, Prod.mk.injEq] at h
          rw [← h.1]
          exact hR.trans _ _ _ (hR.answer _ _ _ _ _ ha) (hR.enqueue _ _ _)

theorem respond_frame {D : Down σ ω} {R : σ → σ → Prop} (hR : Frame D R) {s s' : State σ} {msg : Option Pkt} {addr : Addr} {port : Nat}
    {out : List (Out ω)} {tag : Tag} (h : respond D s msg addr port = .ok (s', out, tag)) : R s.down s'.down := by
  unfold respond at h
  dsimp only at h
  split at h
  · cases h
  · rename_i d o hh
    simp only [Except.ok.injEq, Prod.mk.injEq] at h
    rw [← h.1]
    exact handleAssembled_frame hR hh

theorem tcFire_frame {D : Down σ ω} {R : σ → σ → Prop} (hR : Frame D R) {s s' : State σ} {addr : Addr}
    {out : List (Out ω)} {tag : Tag} (h : tcFire D s addr = .ok (s', out, tag)) : R s.down s'.down := by
  unfold tcFire at h
  split at h
  · cases h
  · exact respond_frame hR h

theorem queryOrDefer_frame {D : Down σ ω} {R : σ → σ → Prop} (hR : Frame D R) {s s' : State σ} {k : Pkt} {addr : Addr} {port draw : Nat}
    {out : List (Out ω)} {tag : Tag} (h : queryOrDefer D s k addr port draw = .ok (s', out, tag)) : R s.down s'.down := by
  unfold queryOrDefer at h
  split at h
  · exact respond_frame hR h
  · dsimp only at h
    split at h
    · simp only [Except.ok.injEq, Prod.mk.injEq] at h; rw [← h.1]; exact hR.refl _
    · simp only [Except.ok.injEq, Prod.mk.injEq] at h; rw [← h.1]; exact hR.refl _

/-- `_process_datagram_at_time` behind the decoder, for the packet object `k` -/
def processK (D : Down σ ω) (s : State σ) (k : Pkt) (addr : Addr) (port : Nat) (draw : Nat) :
    Except PyExc (State σ × List (Out ω) × Tag) :=
  if !k.p.valid then .ok (s, [], .invalid)
  else if !k.isQuery then
    match k.lazyErr with
    | some e => .error e
    | none =>
      match D.ingest s.down k with
      | .error e => .error e
      | .ok (d, out) => .ok ({ s with down := d }, out.map Out.down, .response)
  else if !D.hasEntries s.down then .ok (s, [], .noEntries)
  else queryOrDefer D s k addr port draw

theorem process_eq (D : Down σ ω) (s : State σ) (data : Bytes) (addr : Addr) (port : Nat) (now : Ms) (draw : Nat) :
    process D s data addr port now draw =
      match (DecodeLib.parse data).out with
      | .escapedInit e => .error e
      | .escapedAnswers p e =>
        processK D { s with data := some data, lastTime := now,
                            lastMsg := some ((⟨data, now, p, some e⟩ : Pkt).isQuery, (⟨data, now, p, some e⟩ : Pkt).hasQU) }
          ⟨data, now, p, some e⟩ addr port draw
      | .ok p =>
        processK D { s with data := some data, lastTime := now,
                            lastMsg := some ((⟨data, now, p, none⟩ : Pkt).isQuery, (⟨data, now, p, none⟩ : Pkt).hasQU) }
          ⟨data, now, p, none⟩ addr port draw := by
  unfold process processK
  cases (DecodeLib.parse data).out <;> rfl

theorem processK_frame {D : Down σ ω} {R : σ → σ → Prop} (hR : Frame D R) {s s' : State σ} {k : Pkt} {addr : Addr} {port draw : Nat}
    (hing : ∀ d d' o, D.ingest d k = .ok (d', o) → R d d')
    {out : List (Out ω)} {tag : Tag} (h : processK D s k addr port draw = .ok (s', out, tag)) : R s.down s'.down := by
  unfold processK at h
  split at h
  · simp only [Except.ok.injEq, Prod.mk.injEq] at h; rw [← h.1]; exact hR.refl _
  · split at h
    · split at h
      · cases h
      · split at h
        · cases h
        · rename_i d o hi
          simp only [Except.ok.injEq, Prod.mk.injEq] at h
          rw [← h.1]
          exact hing _ _ _ hi
    · split at h
      · simp only [Except.ok.injEq, Prod.mk.injEq] at h; rw [← h.1]; exact hR.refl _
      · exact queryOrDefer_frame hR h

/-- `datagram_received` changes the downstream state only through `answer` / `enqueue`, or through one `ingest` of a packet stamped
with this block's clock reading -/
theorem recv_frame {D : Down σ ω} {R : σ → σ → Prop} (hR : Frame D R) {s s' : State σ} {data : Bytes} {addr : Addr} {port : Nat} {now : Ms}
    {draw : Nat} (hing : ∀ d k d' o, k.now = now → D.ingest d k = .ok (d', o) → R d d')
    {out : List (Out ω)} {tag : Tag} (h : recv D s data addr port now draw = .ok (s', out, tag)) : R s.down s'.down := by
  unfold recv at h
  split at h
  · simp only [Except.ok.injEq, Prod.mk.injEq] at h; rw [← h.1]; exact hR.refl _
  · split at h
    · simp only [Except.ok.injEq, Prod.mk.injEq] at h; rw [← h.1]; exact hR.refl _
    · rw [process_eq] at h
      split at h
      · cases h
      · have := processK_frame hR (fun d d' o hi => hing d _ d' o rfl hi) h
        exact this
      · have := processK_frame hR (fun d d' o hi => hing d _ d' o rfl hi) h
        exact this

end frame

/-! ### the composed downstream and the cache -/

section comp
variable (lower : String → String) (possible : String → List String) (ettl : Nat)
variable {ρ ω : Type} (R : Rest ρ ω)

theorem answer_cache {d d' : CState ρ} {ks : List Pkt} {u : Bool} {qa : Option QA}
    (h : Comp.answer lower ettl R d ks u = .ok (d', qa)) : d'.cache = d.cache := by
  unfold Comp.answer at h
  split at h
  · cases h
  · simp only [Except.ok.injEq, Prod.mk.injEq] at h; rw [← h.1]
  · split at h
    · cases h
    · simp only [Except.ok.injEq, Prod.mk.injEq] at h; rw [← h.1]

theorem enqueue_cache (d : CState ρ) (t : Ms) (q : QA) : (Comp.enqueue R d t q).1.cache = d.cache := by
  unfold Comp.enqueue
  split <;> rfl

theorem ingest_cache {d d' : CState ρ} {k : Pkt} {o : List (COut ω)} (h : Comp.ingest lower possible R d k = .ok (d', o)) :
    ∃ out, Zc.ingest lower (Cache.ops lower) d.cache k.now (recsOf k) = .ok out ∧ d'.cache = out.cache := by
  unfold Comp.ingest at h
  split at h
  · cases h
  · rename_i out ho
    refine ⟨out, ho, ?_⟩
    split at h
    · simp only [Except.ok.injEq, Prod.mk.injEq] at h; rw [← h.1]
    · split at h
      · cases h
      · split at h
        · cases h
        · simp only [Except.ok.injEq, Prod.mk.injEq] at h; rw [← h.1]

/-- the clock relation is a frame of the composed downstream -/
theorem clock_frame (t : Ms) :
    Frame (Comp.down lower possible ettl R) (fun d d' => ClockInv t d.cache → ClockInv t d'.cache) :=
  ⟨fun _ h => h, fun _ _ _ h1 h2 h => h2 (h1 h),
   fun d ks u d' qa h hc => by
     have : d'.cache = d.cache := answer_cache lower ettl R h
     rw [this]; exact hc,
   fun d t' q hc => by
     have : ((Comp.down lower possible ettl R).enqueue d t' q).1.cache = d.cache := enqueue_cache R d t' q
     rw [this]; exact hc⟩

theorem ingest_clock {d d' : CState ρ} {k : Pkt} {o : List (COut ω)} {t : Ms} (hk : k.now = t)
    (h : (Comp.down lower possible ettl R).ingest d k = .ok (d', o)) (hc : ClockInv t d.cache) : ClockInv t d'.cache := by
  obtain ⟨out, ho, hd'⟩ := ingest_cache lower possible R h
  rw [hd']
  rw [hk] at ho
  exact ingest_before hc ho

/-- every scheduler of `d'` has the configuration (browsed types …) of a scheduler of `d` -/
def CfgsFrom (d d' : CState ρ) : Prop := ∀ cs' ∈ d'.scheds, ∃ cs ∈ d.scheds, cs'.1 = cs.1

/-- **a datagram cannot change what is browsed**: the scheduler configurations are a frame of the composed downstream, ingestion included -/
theorem cfgs_frame : Frame (Comp.down lower possible ettl R) CfgsFrom :=
  ⟨fun _ cs hcs => ⟨cs, hcs, rfl⟩,
   fun _ _ _ h1 h2 cs hcs => by
     obtain ⟨cs1, hcs1, e1⟩ := h2 cs hcs
     obtain ⟨cs0, hcs0, e0⟩ := h1 cs1 hcs1
     exact ⟨cs0, hcs0, e1.trans e0⟩,
   fun d ks u d' qa h cs hcs => by
     have := (answer_fields lower ettl R h).1
     rw [this] at hcs
     exact ⟨cs, hcs, rfl⟩,
   fun d t' q cs hcs => by
     have : ((Comp.down lower possible ettl R).enqueue d t' q).1.scheds = d.scheds := (enqueue_fields R d t' q).1
     rw [this] at hcs
     exact ⟨cs, hcs, rfl⟩⟩

theorem ingest_cfgs {d d' : CState ρ} {k : Pkt} {o : List (COut ω)}
    (h : (Comp.down lower possible ettl R).ingest d k = .ok (d', o)) : CfgsFrom d d' := by
  have h' : Comp.ingest lower possible R d k = .ok (d', o) := h
  unfold Comp.ingest at h'
  split at h'
  · cases h'
  · split at h'
    · simp only [Except.ok.injEq, Prod.mk.injEq] at h'
      rw [← h'.1]
      exact fun cs hcs => ⟨cs, hcs, rfl⟩
    · split at h'
      · cases h'
      · rename_i ss' hss
        split at h'
        · cases h'
        · simp only [Except.ok.injEq, Prod.mk.injEq] at h'
          rw [← h'.1]
          intro cs hcs
          exact (schedsStep_heapP lower possible (fun _ => True) k.now _ (fun _ _ => trivial) (fun _ _ _ _ => trivial) hss cs hcs).2

end comp

/-! ### the timer blocks leave the cache alone -/

theorem browserFire_cache {ρ : Type} {lower : String → String} {sz : QueryGen.QOut → Nat} {d d' : CState ρ} {i : Nat} {done : Bool} {now : Ms}
    {pks : List (List Bytes)} (h : browserFire lower sz d i done now = .ok (d', pks)) : d'.cache = d.cache := by
  unfold browserFire at h
  split at h
  · simp only [Except.ok.injEq, Prod.mk.injEq] at h; rw [← h.1]
  · split at h
    · simp only [Except.ok.injEq, Prod.mk.injEq] at h; rw [← h.1]
    · cases h
    · dsimp only at h
      split at h
      · cases h
      · simp only [Except.ok.injEq, Prod.mk.injEq] at h; rw [← h.1]

/-! ### every block, every history -/

section closed
variable (lower : String → String) (possible : String → List String) (ettl : Nat)
variable (attrib : Question → Rec → Bool) (orc : Route.Oracle) (sz : QueryGen.QOut → Nat)
variable {υ ω : Type} (U : UserL υ ω) (upd : Ms → List (Rec × Option Rec) → Nat → Bool) (Iυ : υ → Prop)

/-- the invariant of the closed composite at clock reading `c` -/
structure HInv (c : Ms) (s : State (CS υ)) : Prop where
  full : Full lower ettl Iυ s.down
  linv : LInv s
  clock : ClockInv c s.down.cache

/-- the data hypotheses on the arguments of the API blocks of a history -/
def HSafe : HBlock υ → Prop
  | .api b => ApiSafe lower ettl Iυ b
  | _ => True

/-- what the closed composite needs of the listener's downstream: the three component obligations under the full invariant, and the
clock relation as a frame (with ingestion stamping at the packet's own time) -/
structure DownClosed (D : Down (CS υ) (COut ω)) : Prop where
  ok : DownOK D (Full lower ettl Iυ) QASafe
  frame : ∀ t : Ms, Frame D (fun d d' => ClockInv t d.cache → ClockInv t d'.cache)
  ingest : ∀ (d d' : CS υ) (k : Pkt) (o : List (COut ω)) (t : Ms), k.now = t → D.ingest d k = .ok (d', o) → ClockInv t d.cache → ClockInv t d'.cache

theorem down_ok (glue : TextGlue) (hU : UserOK U Iυ) :
    DownOK (down lower possible ettl attrib orc U upd) (Full lower ettl Iυ) QASafe :=
  comp_downOK_F lower possible ettl attrib orc (userBase U upd) (UInv Iυ) glue (userBase_ok U upd Iυ hU)

/-- the downstream with the merged routing is closed -/
theorem down_closed (glue : TextGlue) (hU : UserOK U Iυ) : DownClosed lower ettl Iυ (down lower possible ettl attrib orc U upd) :=
  ⟨down_ok lower possible ettl attrib orc U upd Iυ glue hU,
   fun t => clock_frame lower possible ettl (Route.rest lower attrib orc (userBase U upd)) t,
   fun _ _ _ _ _ hk hi hc => ingest_clock lower possible ettl _ hk hi hc⟩

/-- **one block of the closed composite**: under the invariant at clock `c`, a block that does not read the clock backwards and whose
API argument (if any) is safe returns normally and re-establishes the invariant at its own clock reading — or it is a deferred-query
timer for an address that has none armed -/
theorem hstep_ok (glue : TextGlue) (hU : UserOK U Iυ) {D : Down (CS υ) (COut ω)} (hDC : DownClosed lower ettl Iυ D)
    {c : Ms} {s : State (CS υ)} (hI : HInv lower ettl Iυ c s) (b : HBlock υ)
    (ht : ∀ t, b.time = some t → c ≤ t) (hb : HSafe lower ettl Iυ b) :
    (∃ s' out, hstepD lower possible sz U upd D s b = .ok (s', out) ∧ HInv lower ettl Iυ (b.time.getD c) s') ∨
      (∃ addr, b = .tcFire addr ∧ alGet addr s.timers = none) := by
  have hD := hDC.ok
  cases b with
  | recv data addr port now draw =>
    left
    have hcn : c ≤ now := ht now rfl
    obtain ⟨s', out, tag, h, hF', hL'⟩ := recv_ok hD sendOK_safe s data addr port now draw hI.full hI.linv
    refine ⟨s', out, by simp only [hstepD, h, Except.map], hF', hL', ?_⟩
    have hfr := recv_frame (hDC.frame now) (fun d k d' o hk hi hc => hDC.ingest d d' k o now hk hi hc) h
    exact hfr (hI.clock.mono hcn)
  | tcFire addr =>
    cases hta : alGet addr s.timers with
    | none => exact Or.inr ⟨addr, rfl, hta⟩
    | some t =>
      left
      obtain ⟨s', out, tag, h, hF', hL'⟩ := tcFire_ok hD sendOK_safe s addr t hta hI.full hI.linv
      refine ⟨s', out, by simp only [hstepD, h, Except.map], hF', hL', ?_⟩
      exact tcFire_frame (hDC.frame c) h hI.clock
  | browserFire i done now =>
    left
    have hcn : c ≤ now := ht now rfl
    have hclock : ∀ r ∈ s.down.cache.allRecs, r.created ≤ QueryGen.browserAnswerTime now := by
      intro r hr
      show r.created ≤ now
      exact Int.le_trans (hI.clock.allRecs r hr) hcn
    obtain ⟨d', pks, h, hC', hT'⟩ := browserFire_ok lower ettl _ sz glue hI.full.1.1 hI.full.1.2 i done now hclock
    obtain ⟨e1, e2⟩ := browserFire_rest lower sz h
    refine ⟨{ s with down := d' }, _, by simp only [hstepD, lift, h]; rfl, ⟨⟨hC', hT'⟩, ?_⟩, LInv.congr (s := s) rfl rfl hI.linv, ?_⟩
    · show FInv d'
      unfold FInv
      rw [e1, e2]
      exact hI.full.2
    · show ClockInv now d'.cache
      rw [browserFire_cache h]
      exact hI.clock.mono hcn
  | lookupQuery j now qu =>
    left
    have hcn : c ≤ now := ht now rfl
    have hclock : ∀ r ∈ s.down.cache.allRecs, r.created ≤ QueryGen.lookupAnswerTime now := by
      intro r hr
      show r.created ≤ now
      exact Int.le_trans (hI.clock.allRecs r hr) hcn
    obtain ⟨d', pks, h, _, _⟩ := lookupQuery_ok lower ettl _ glue hI.full.1.1 hI.full.1.2 j now qu hclock
    have hd : d' = s.down := lookupQuery_rest lower h
    subst hd
    exact ⟨{ s with down := s.down }, _, by simp only [hstepD, lift, h]; rfl, hI.full, LInv.congr (s := s) rfl rfl hI.linv, hI.clock.mono hcn⟩
  | flush delay now =>
    left
    have hcn : c ≤ now := ht now rfl
    obtain ⟨d', pks, h, hF'⟩ := flushStep_ok lower ettl (UInv Iυ) hI.full delay now
    refine ⟨{ s with down := d' }, _, by simp only [hstepD, lift, h]; rfl, hF', LInv.congr (s := s) rfl rfl hI.linv, ?_⟩
    show ClockInv now d'.cache
    have : d'.cache = s.down.cache := by
      unfold flushStep at h
      split at h
      · cases h
      · simp only [Except.ok.injEq, Prod.mk.injEq] at h; rw [← h.1]
    rw [this]
    exact hI.clock.mono hcn
  | api ab =>
    left
    obtain ⟨d', o, h, hF', hall⟩ := apiStep_ok lower possible ettl U upd Iυ glue hU hI.full ab hb
    refine ⟨{ s with down := d' }, _, by simp only [hstepD, h]; rfl, hF', LInv.congr (s := s) rfl rfl hI.linv, ?_⟩
    show ClockInv _ d'.cache
    have hc' : ClockInv c d'.cache := hall _ hI.clock
    cases hbt : (HBlock.api ab : HBlock υ).time with
    | none => simpa [hbt] using hc'
    | some t => simpa [hbt] using hc'.mono (ht t hbt)

/-- **every history of the closed composite** — datagram arrivals (any bytes, source, port), deferred-query timers, browser query
timers, lookup query transmissions, queue flushes, registration API calls, browser and lookup starts and stops, periodic purges,
listener and future bookkeeping, in any order — whose clock readings do not decrease and whose API arguments are safe runs to its
end with the invariant in force, or contains a deferred-query timer block for an address whose timer is not armed at that point. -/
theorem hrun_ok (glue : TextGlue) (hU : UserOK U Iυ) {D : Down (CS υ) (COut ω)} (hDC : DownClosed lower ettl Iυ D) :
    ∀ (bs : List (HBlock υ)) (c : Ms) (s : State (CS υ)),
    HInv lower ettl Iυ c s → Mono c bs → (∀ b ∈ bs, HSafe lower ettl Iυ b) →
    (∃ s' out, hrunD lower possible sz U upd D s bs = .ok (s', out) ∧ HInv lower ettl Iυ (lastTime c bs) s') ∨
    (∃ pre addr post s1 o1, bs = pre ++ HBlock.tcFire addr :: post ∧
      hrunD lower possible sz U upd D s pre = .ok (s1, o1) ∧ alGet addr s1.timers = none) := by
  intro bs
  induction bs with
  | nil => intro c s hI _ _; exact Or.inl ⟨s, [], rfl, hI⟩
  | cons b rest ih =>
    intro c s hI hm hs
    have ht : ∀ t, b.time = some t → c ≤ t := by
      intro t hbt
      simp only [Mono, hbt] at hm
      exact hm.1
    have hm' : Mono (b.time.getD c) rest := by
      cases hbt : b.time with
      | none => simp only [Mono, hbt] at hm; simpa using hm
      | some t => simp only [Mono, hbt] at hm; simpa using hm.2
    rcases hstep_ok lower possible ettl sz U upd Iυ glue hU hDC hI b ht (hs b List.mem_cons_self) with
      ⟨s1, o1, h1, hI1⟩ | ⟨addr, hb, hn⟩
    · rcases ih (b.time.getD c) s1 hI1 hm' (fun x hx => hs x (List.mem_cons_of_mem _ hx)) with
        ⟨s2, o2, h2, hI2⟩ | ⟨pre, addr, post, s2, o2, hbs, hpre, hn⟩
      · left
        refine ⟨s2, o1 ++ o2, ?_, hI2⟩
        simp only [hrunD, h1, h2]
      · right
        refine ⟨b :: pre, addr, post, s2, o1 ++ o2, by rw [hbs]; rfl, ?_, hn⟩
        simp only [hrunD, h1, hpre]
    · right
      exact ⟨[], addr, rest, s, [], by rw [hb]; rfl, rfl, hn⟩

theorem hrun_append (D : Down (CS υ) (COut ω)) : ∀ (a b : List (HBlock υ)) (s : State (CS υ)),
    hrunD lower possible sz U upd D s (a ++ b) =
      match hrunD lower possible sz U upd D s a with
      | .error e => .error e
      | .ok (s1, o1) =>
        match hrunD lower possible sz U upd D s1 b with
        | .error e => .error e
        | .ok (s2, o2) => .ok (s2, o1 ++ o2) := by
  intro a
  induction a with
  | nil =>
    intro b s
    simp only [List.nil_append, hrunD]
    cases hrunD lower possible sz U upd D s b with
    | error e => rfl
    | ok v => simp
  | cons x t ih =>
    intro b s
    simp only [List.cons_append, hrunD]
    cases hstepD lower possible sz U upd D s x with
    | error e => rfl
    | ok v =>
      obtain ⟨s1, o1⟩ := v
      dsimp only
      rw [ih b s1]
      cases hrunD lower possible sz U upd D s1 t with
      | error e => rfl
      | ok w =>
        obtain ⟨s2, o2⟩ := w
        dsimp only
        cases hrunD lower possible sz U upd D s2 b with
        | error e => rfl
        | ok z => simp [List.append_assoc]

/-- a history that ran to its end leaves the invariant in force at its last clock reading -/
theorem hrun_inv (glue : TextGlue) (hU : UserOK U Iυ) {D : Down (CS υ) (COut ω)} (hDC : DownClosed lower ettl Iυ D)
    (bs : List (HBlock υ)) (c : Ms) (s s' : State (CS υ)) (out : List (Out (COut ω)))
    (hI : HInv lower ettl Iυ c s) (hm : Mono c bs) (hs : ∀ b ∈ bs, HSafe lower ettl Iυ b)
    (h : hrunD lower possible sz U upd D s bs = .ok (s', out)) : HInv lower ettl Iυ (lastTime c bs) s' := by
  rcases hrun_ok lower possible ettl sz U upd Iυ glue hU hDC bs c s hI hm hs with ⟨s2, o2, h2, hI2⟩ | ⟨pre, addr, post, s1, o1, hbs, hpre, hn⟩
  · rw [h2] at h
    simp only [Except.ok.injEq, Prod.mk.injEq] at h
    rw [← h.1]
    exact hI2
  · exfalso
    rw [hbs, hrun_append lower possible sz U upd D, hpre] at h
    simp only [hrunD, hstepD, tcFire, hn, Except.map] at h
    cases h

end closed

end Zc.Survive.Closed
