import Zc.Proofs.DecodeAgree
/-! Agreement of the whole decoder model with the strict decoder: fixed-size fields, the rdata
layouts, the question and record loops, and the object (`C02_agrees_strict`). -/
namespace Zc.Wire.DecodeLib
open Zc Zc.Wire
open Zc.GenFacts.Incoming

/-! ### fixed-size fields -/

theorem u8At_byteAt {buf : Bytes} {o v : Nat} (h : u8At buf o = some v) : byteAt buf o = .ok v ∧ v < 256 := by
  unfold u8At at h
  unfold byteAt
  cases hb : buf[o]? with
  | none => rw [hb] at h; simp at h
  | some b =>
    rw [hb] at h
    simp at h
    subst h
    exact ⟨rfl, UInt8.toNat_lt b⟩

theorem u16At_parts {buf : Bytes} {o v : Nat} (h : u16At buf o = some v) :
    ∃ a b, byteAt buf o = .ok a ∧ byteAt buf (o + 1) = .ok b ∧ b < 256 ∧ a < 256 ∧ v = a * 256 + b := by
  unfold u16At at h
  cases ha : u8At buf o with
  | none => rw [ha] at h; simp at h
  | some a =>
    cases hb : u8At buf (o + 1) with
    | none => rw [ha, hb] at h; simp at h
    | some b =>
      rw [ha, hb] at h
      simp at h
      obtain ⟨h1, h2⟩ := u8At_byteAt ha
      obtain ⟨h3, h4⟩ := u8At_byteAt hb
      exact ⟨a, b, h1, h3, h4, h2, h.symm⟩

theorem two_of_u16At {buf : Bytes} {o v : Nat} {f : Nat → Nat → Nat} (hf : ∀ a b, b < 256 → f a b = a * 256 + b)
    (h : u16At buf o = some v) : two buf o (o + 1) f = .ok v := by
  obtain ⟨a, b, h1, h2, h3, _, h5⟩ := u16At_parts h
  unfold two
  rw [h1, h2]
  simp only [bind, Except.bind, pure, Except.pure]
  rw [hf a b h3, h5]

theorem slice_of_bytesAt {buf : Bytes} {o n : Nat} {s : Bytes} (h : bytesAt buf o n = some s) :
    slice buf o (o + n) = s ∧ o + n ≤ buf.length := by
  unfold bytesAt at h
  split at h
  · simp at h
    subst h
    unfold slice
    refine ⟨?_, by assumption⟩
    congr 1
    omega
  · simp at h

/-! ### questions -/

theorem decQuestion_parts {buf : Bytes} {off o' : Nat} {q : WQuestion} (h : Strict.decQuestion buf off = some (q, o')) :
    ∃ e, Strict.decName buf off = some (q.name, e) ∧ u16At buf e = some q.qtype ∧ u16At buf (e + 2) = some q.qclass
      ∧ o' = e + 4 := by
  unfold Strict.decQuestion at h
  cases hn : Strict.decName buf off with
  | none => rw [hn] at h; simp at h
  | some v =>
    obtain ⟨n, e⟩ := v
    rw [hn] at h
    cases ht : u16At buf e with
    | none => simp [ht] at h
    | some t =>
      cases hcl : u16At buf (e + 2) with
      | none => simp [ht, hcl] at h
      | some c =>
        simp [ht, hcl] at h
        obtain ⟨rfl, rfl⟩ := h
        exact ⟨e, rfl, ht, hcl, rfl⟩

theorem decMany_succ {α : Type} {p : Nat → Option (α × Nat)} {n off o' : Nat} {l : List α}
    (h : Strict.decMany p (n + 1) off = some (l, o')) :
    ∃ a o1 rest, p off = some (a, o1) ∧ Strict.decMany p n o1 = some (rest, o') ∧ l = a :: rest := by
  unfold Strict.decMany at h
  cases hp : p off with
  | none => simp [hp] at h
  | some v =>
    obtain ⟨a, o1⟩ := v
    cases hr : Strict.decMany p n o1 with
    | none => simp [hp, hr] at h
    | some w =>
      obtain ⟨rest, o2⟩ := w
      simp [hp, hr] at h
      obtain ⟨rfl, rfl⟩ := h
      exact ⟨a, o1, rest, rfl, hr, rfl⟩

theorem decMany_length {α : Type} {p : Nat → Option (α × Nat)} : ∀ (n off o' : Nat) (l : List α),
    Strict.decMany p n off = some (l, o') → l.length = n := by
  intro n
  induction n with
  | zero => intro off o' l h; unfold Strict.decMany at h; simp at h; simp [h.1.symm]
  | succ n ih =>
    intro off o' l h
    obtain ⟨a, o1, rest, _, hr, rfl⟩ := decMany_succ h
    simp [ih _ _ _ hr]

/-- every label of the name can be written back -/
def NameOK (lok : Label → Prop) (n : WName) : Prop := ∀ l ∈ n, lok l

theorem readQuestions_agrees {cfg : Cfg} {lok : Label → Prop} (hc : CfgOK cfg) (ha : CfgAgree cfg lok) (buf : Bytes) :
    ∀ (n : Nat) (st : St) (qs : List WQuestion) (o' : Nat),
      Strict.decMany (Strict.decQuestion buf) n st.off = some (qs, o') → (∀ q ∈ qs, NameOK lok q.name) →
      CacheOK buf st.cache →
      ∃ st', readQuestions cfg buf n st = (st', qs, none) ∧ st'.off = o' ∧ CacheOK buf st'.cache := by
  intro n
  induction n with
  | zero =>
    intro st qs o' h _ hcache
    unfold Strict.decMany at h
    simp at h
    obtain ⟨rfl, rfl⟩ := h
    exact ⟨st, by unfold readQuestions; rfl, rfl, hcache⟩
  | succ n ih =>
    intro st qs o' h hlab hcache
    obtain ⟨q, o1, rest, hq, hr, rfl⟩ := decMany_succ h
    obtain ⟨e, hn, ht, hcl, rfl⟩ := decQuestion_parts hq
    obtain ⟨st1, hrn, ho1, hc1⟩ := readName_agrees hc ha buf st q.name e hn (hlab q List.mem_cons_self) hcache
    have hfix : readQFixed buf st1.off = .ok (q.qtype, q.qclass) := by
      unfold readQFixed
      rw [ho1, two_of_u16At q_type_eq ht]
      have h3 : e + 3 = e + 2 + 1 := by omega
      rw [h3, two_of_u16At q_class_eq hcl]
      rfl
    obtain ⟨st', hrec, ho', hc'⟩ := ih { st1 with off := st1.off + Gen.Incoming.q_len } rest o'
      (by simp only; rw [ho1, q_len_eq]; exact hr) (fun q' hq' => hlab q' (List.mem_cons_of_mem _ hq')) hc1
    refine ⟨st', ?_, ho', hc'⟩
    conv => lhs; unfold readQuestions
    rw [hrn]
    dsimp only
    rw [hfix]
    dsimp only
    rw [hrec]

/-! ### rdata -/

theorem flatMap_congr_mem {α β : Type} {l : List α} {f g : α → List β} (h : ∀ x ∈ l, f x = g x) :
    l.flatMap f = l.flatMap g := by
  induction l with
  | nil => rfl
  | cons a tl ih =>
    simp only [List.flatMap_cons]
    rw [h a List.mem_cons_self, ih (fun x hx => h x (List.mem_cons_of_mem _ hx))]

theorem filterMap_congr_mem {α β : Type} {l : List α} {f g : α → Option β} (h : ∀ x ∈ l, f x = g x) :
    l.filterMap f = l.filterMap g := by
  induction l with
  | nil => rfl
  | cons a tl ih =>
    simp only [List.filterMap_cons]
    rw [h a List.mem_cons_self, ih (fun x hx => h x (List.mem_cons_of_mem _ hx))]

theorem bitmapTypesLib_eq (w : Nat) (bm : Bytes) : bitmapTypesLib w bm = bitmapTypes w bm := by
  unfold bitmapTypesLib bitmapTypes
  apply flatMap_congr_mem
  intro i _
  apply filterMap_congr_mem
  intro bit hbit
  have hb8 : bit < 8 := by simpa using hbit
  have hlt : (bm.getD i 0).toNat < 256 := UInt8.toNat_lt _
  have hiff := bitmap_bit_set_iff (bm.getD i 0).toNat bit hlt hb8
  rw [bitmap_rdtype_eq]
  by_cases h : (bm.getD i 0).toNat / 2 ^ (7 - bit) % 2 = 1
  · rw [if_pos h, if_pos (hiff.mpr h)]
  · rw [if_neg h, if_neg (fun h' => h (hiff.mp h'))]

theorem readBitmap_agrees (buf : Bytes) (end_ : Nat) : ∀ (fuelS off : Nat) (ts : List Nat),
    Strict.windows buf fuelS off end_ = some ts → off ≤ end_ →
    ∀ (fuel : Nat) (st : St), st.off = off → buf.length - off + 1 ≤ fuel →
      ∃ st', readBitmap buf end_ fuel st = (st', .ok ts) ∧ st'.off = end_ ∧ st'.cache = st.cache := by
  intro fuelS
  induction fuelS with
  | zero => intro off ts h; unfold Strict.windows at h; simp at h
  | succ fuelS ih =>
    intro off ts h hle fuel st hoff hfuel
    subst hoff
    obtain ⟨fuel, rfl⟩ : ∃ f, fuel = f + 1 := ⟨fuel - 1, by omega⟩
    unfold Strict.windows at h
    unfold readBitmap
    dsimp only
    by_cases heq : st.off = end_
    · rw [if_pos heq] at h
      simp at h; subst h
      rw [if_neg (by rw [bitmap_more_iff]; omega)]
      exact ⟨st, rfl, by omega, rfl⟩
    · rw [if_neg heq] at h
      rw [if_pos (by rw [bitmap_more_iff]; omega)]
      cases hw : u8At buf st.off with
      | none => simp [hw] at h
      | some w =>
        cases hl : u8At buf (st.off + 1) with
        | none => simp [hw, hl] at h
        | some len =>
          simp only [hw, hl, Option.bind_eq_bind, Option.bind_some] at h
          split at h
          · rename_i hcond
            cases hbm : bytesAt buf (st.off + 2) len with
            | none => simp [hbm] at h
            | some bm =>
              cases hrest : Strict.windows buf fuelS (st.off + 2 + len) end_ with
              | none => simp [hbm, hrest] at h
              | some rest =>
                simp [hbm, hrest] at h
                subst h
                obtain ⟨hw1, _⟩ := u8At_byteAt hw
                obtain ⟨hl1, _⟩ := u8At_byteAt hl
                have hlt := byteAt_ok_lt hw1
                obtain ⟨hsl, _⟩ := slice_of_bytesAt hbm
                rw [hw1]
                dsimp only
                rw [hl1]
                dsimp only
                obtain ⟨st', hrec, ho', hc'⟩ := ih (st.off + 2 + len) rest hrest (by omega) fuel
                  { st with off := st.off + Gen.Incoming.bitmap_advance len }
                  (by simp only; rw [bitmap_advance_eq]; omega) (by omega)
                rw [hrec]
                dsimp only
                rw [bitmap_end_eq, hsl, bitmapTypesLib_eq]
                exact ⟨st', rfl, ho', hc'⟩
          · simp at h

theorem charString_agrees {buf : Bytes} {st : St} {s : Bytes} {o' : Nat}
    (h : Strict.charString buf st.off = some (s, o')) :
    readCStr buf st = ({ st with off := o' }, .ok s) := by
  unfold Strict.charString at h
  cases hn : u8At buf st.off with
  | none => simp [hn] at h
  | some n =>
    cases hs : bytesAt buf (st.off + 1) n with
    | none => simp [hn, hs] at h
    | some s' =>
      simp [hn, hs] at h
      obtain ⟨rfl, rfl⟩ := h
      obtain ⟨hb, _⟩ := u8At_byteAt hn
      obtain ⟨hsl, _⟩ := slice_of_bytesAt hs
      unfold readCStr
      rw [hb]
      dsimp only
      rw [cstr_end_eq, hsl]

theorem readString_agrees {buf : Bytes} {st : St} {n : Nat} {s : Bytes} (h : bytesAt buf st.off n = some s) :
    readString buf n st = ({ st with off := st.off + n }, s) := by
  obtain ⟨hsl, _⟩ := slice_of_bytesAt h
  unfold readString
  rw [str_end_eq, hsl]

theorem readRData_agrees {cfg : Cfg} {lok : Label → Prop} (hc : CfgOK cfg) (ha : CfgAgree cfg lok) (buf : Bytes) (t rdlen : Nat) (st : St)
    (rd : WRData) (hdec : Strict.decRData buf t st.off rdlen = some rd) (hsup : ∀ raw, rd ≠ .other raw)
    (hnames : ∀ n ∈ DecodeSpec.rdataNames rd, NameOK lok n) (hcache : CacheOK buf st.cache) :
    ∃ st', readRData cfg buf t rdlen st = (st', .ok (some (DecodeSpec.canonRData rd))) ∧
      st'.off = st.off + rdlen ∧ CacheOK buf st'.cache := by
  unfold Strict.decRData at hdec
  dsimp only at hdec
  unfold readRData
  by_cases h1 : t = 1
  · -- A
    subst h1
    rw [if_pos rfl] at hdec
    rw [if_pos ((is_a_iff 1).mpr rfl)]
    split at hdec
    · rename_i h4; subst h4
      cases hb : bytesAt buf st.off 4 with
      | none => simp [hb] at hdec
      | some a =>
        simp [hb] at hdec; subst hdec
        rw [a_len_eq, readString_agrees hb]
        exact ⟨_, rfl, rfl, hcache⟩
    · simp at hdec
  rw [if_neg h1] at hdec
  rw [if_neg (mt (is_a_iff t).mp h1)]
  by_cases h28 : t = 28
  · -- AAAA
    subst h28
    rw [if_pos rfl] at hdec
    rw [if_neg (mt (is_ptr_iff 28).mp (by omega)), if_neg (mt (is_txt_iff 28).mp (by omega)),
      if_neg (mt (is_srv_iff 28).mp (by omega)), if_neg (mt (is_hinfo_iff 28).mp (by omega)),
      if_pos ((is_aaaa_iff 28).mpr rfl)]
    split at hdec
    · rename_i h16; subst h16
      cases hb : bytesAt buf st.off 16 with
      | none => simp [hb] at hdec
      | some a =>
        simp [hb] at hdec; subst hdec
        rw [aaaa_len_eq, readString_agrees hb]
        exact ⟨_, rfl, rfl, hcache⟩
    · simp at hdec
  rw [if_neg h28] at hdec
  by_cases hp : t = 12 ∨ t = 5
  · -- PTR / CNAME
    rw [if_pos hp] at hdec
    rw [if_pos ((is_ptr_iff t).mpr (by omega))]
    cases hn : Strict.decName buf st.off with
    | none => simp [hn] at hdec
    | some v =>
      obtain ⟨n, e⟩ := v
      simp only [hn] at hdec
      split at hdec
      · rename_i he
        simp at hdec; subst hdec
        obtain ⟨st', hrn, ho', hc'⟩ := readName_agrees hc ha buf st n e hn
          (hnames n (by simp [DecodeSpec.rdataNames])) hcache
        rw [hrn]
        exact ⟨st', rfl, by omega, hc'⟩
      · simp at hdec
  rw [if_neg hp] at hdec
  rw [if_neg (mt (is_ptr_iff t).mp (by omega))]
  by_cases h16 : t = 16
  · -- TXT
    subst h16
    rw [if_pos rfl] at hdec
    rw [if_pos ((is_txt_iff 16).mpr rfl)]
    cases hb : bytesAt buf st.off rdlen with
    | none => simp [hb] at hdec
    | some a =>
      simp [hb] at hdec; subst hdec
      rw [txt_len_eq, readString_agrees hb]
      exact ⟨_, rfl, rfl, hcache⟩
  rw [if_neg h16] at hdec
  rw [if_neg (mt (is_txt_iff t).mp h16)]
  by_cases h33 : t = 33
  · -- SRV
    subst h33
    rw [if_pos rfl] at hdec
    rw [if_pos ((is_srv_iff 33).mpr rfl)]
    dsimp only
    cases hp1 : u16At buf st.off with
    | none => simp [hp1] at hdec
    | some p =>
      cases hp2 : u16At buf (st.off + 2) with
      | none => simp [hp1, hp2] at hdec
      | some w =>
        cases hp3 : u16At buf (st.off + 4) with
        | none => simp [hp1, hp2, hp3] at hdec
        | some q =>
          cases hn : Strict.decName buf (st.off + 6) with
          | none => simp [hp1, hp2, hp3, hn] at hdec
          | some v =>
            obtain ⟨n, e⟩ := v
            simp only [hp1, hp2, hp3, hn, Option.bind_eq_bind, Option.bind_some] at hdec
            split at hdec
            · rename_i he
              simp at hdec; subst hdec
              have hfix : readSrvFixed buf st.off = .ok (p, w, q) := by
                unfold readSrvFixed
                rw [two_of_u16At srv_priority_eq hp1]
                have e3 : st.off + 3 = st.off + 2 + 1 := by omega
                have e5 : st.off + 5 = st.off + 4 + 1 := by omega
                rw [e3, two_of_u16At srv_weight_eq hp2, e5, two_of_u16At srv_port_eq hp3]
                rfl
              rw [hfix]
              dsimp only
              obtain ⟨st', hrn, ho', hc'⟩ := readName_agrees hc ha buf { st with off := st.off + Gen.Incoming.srv_len } n e
                (by simp only; rw [srv_len_eq]; exact hn) (hnames n (by simp [DecodeSpec.rdataNames])) hcache
              rw [hrn]
              exact ⟨st', rfl, by omega, hc'⟩
            · simp at hdec
  rw [if_neg h33] at hdec
  rw [if_neg (mt (is_srv_iff t).mp h33)]
  by_cases h13 : t = 13
  · -- HINFO
    subst h13
    rw [if_pos rfl] at hdec
    rw [if_pos ((is_hinfo_iff 13).mpr rfl)]
    cases hc1 : Strict.charString buf st.off with
    | none => simp [hc1] at hdec
    | some v1 =>
      obtain ⟨c, o1⟩ := v1
      cases hc2 : Strict.charString buf o1 with
      | none => simp [hc1, hc2] at hdec
      | some v2 =>
        obtain ⟨o, o2⟩ := v2
        simp only [hc1, hc2, Option.bind_eq_bind, Option.bind_some] at hdec
        split at hdec
        · rename_i he
          simp at hdec; subst hdec
          rw [charString_agrees hc1]
          dsimp only
          rw [charString_agrees (st := { st with off := o1 }) hc2]
          exact ⟨_, rfl, he, hcache⟩
        · simp at hdec
  rw [if_neg h13] at hdec
  rw [if_neg (mt (is_hinfo_iff t).mp h13), if_neg (mt (is_aaaa_iff t).mp h28)]
  by_cases h47 : t = 47
  · -- NSEC
    subst h47
    rw [if_pos rfl] at hdec
    rw [if_pos ((is_nsec_iff 47).mpr rfl)]
    dsimp only
    cases hn : Strict.decName buf st.off with
    | none => simp [hn] at hdec
    | some v =>
      obtain ⟨n, e⟩ := v
      simp only [hn] at hdec
      split at hdec
      · rename_i he
        cases hw : Strict.windows buf (rdlen + 1) e (st.off + rdlen) with
        | none => simp [hw] at hdec
        | some ts =>
          simp [hw] at hdec; subst hdec
          obtain ⟨st1, hrn, ho1, hc1⟩ := readName_agrees hc ha buf st n e hn
            (hnames n (by simp [DecodeSpec.rdataNames])) hcache
          rw [hrn]
          dsimp only
          have hs1 := (readName_spec hc buf st).2.2 n (by rw [hrn])
          rw [hrn] at hs1
          obtain ⟨st2, hbm, ho2, hc2⟩ := readBitmap_agrees buf (st.off + rdlen) (rdlen + 1) e ts hw he
            (buf.length + 1) st1 ho1 (by omega)
          rw [nsec_end_eq, hbm]
          exact ⟨st2, rfl, ho2, by rw [hc2]; exact hc1⟩
      · simp at hdec
  · -- unsupported type: excluded
    rw [if_neg h47] at hdec
    cases hb : bytesAt buf st.off rdlen with
    | none => simp [hb] at hdec
    | some a =>
      simp [hb] at hdec
      exact absurd hdec.symm (hsup a)

/-! ### records -/

theorem decRecord_parts {buf : Bytes} {off o' : Nat} {r : WRecord} (h : Strict.decRecord buf off = some (r, o')) :
    ∃ e rdlen, Strict.decName buf off = some (r.name, e) ∧ u16At buf e = some r.rtype ∧ u16At buf (e + 2) = some r.rclass
      ∧ u32At buf (e + 4) = some r.ttl ∧ u16At buf (e + 8) = some rdlen
      ∧ Strict.decRData buf r.rtype (e + 10) rdlen = some r.rdata ∧ o' = e + 10 + rdlen := by
  unfold Strict.decRecord at h
  cases hn : Strict.decName buf off with
  | none => rw [hn] at h; simp at h
  | some v =>
    obtain ⟨n, e⟩ := v
    rw [hn] at h
    cases ht : u16At buf e with
    | none => simp [ht] at h
    | some t =>
      cases hcl : u16At buf (e + 2) with
      | none => simp [ht, hcl] at h
      | some c =>
        cases httl : u32At buf (e + 4) with
        | none => simp [ht, hcl, httl] at h
        | some ttl =>
          cases hl : u16At buf (e + 8) with
          | none => simp [ht, hcl, httl, hl] at h
          | some rdlen =>
            simp only [ht, hcl, httl, hl, Option.bind_eq_bind, Option.bind_some] at h
            split at h
            · cases hrd : Strict.decRData buf t (e + 10) rdlen with
              | none => simp [hrd] at h
              | some rd =>
                simp [hrd] at h
                obtain ⟨rfl, rfl⟩ := h
                exact ⟨e, rdlen, rfl, ht, hcl, httl, hl, hrd, rfl⟩
            · simp at h

theorem readFixed_agrees {buf : Bytes} {e t c ttl rdlen : Nat} (ht : u16At buf e = some t) (hc : u16At buf (e + 2) = some c)
    (httl : u32At buf (e + 4) = some ttl) (hl : u16At buf (e + 8) = some rdlen) :
    readFixed buf e = .ok (t, c, ttl, rdlen) := by
  unfold u32At at httl
  cases h1 : u16At buf (e + 4) with
  | none => simp [h1] at httl
  | some hi =>
    cases h2 : u16At buf (e + 4 + 2) with
    | none => simp [h1, h2] at httl
    | some lo =>
      simp [h1, h2] at httl
      obtain ⟨b4, b5, hb4, hb5, l5, _, rfl⟩ := u16At_parts h1
      obtain ⟨b6, b7, hb6, hb7, l7, l6, rfl⟩ := u16At_parts h2
      unfold readFixed
      have e3 : e + 3 = e + 2 + 1 := by omega
      have e9 : e + 9 = e + 8 + 1 := by omega
      have e5 : e + 5 = e + 4 + 1 := by omega
      have e6 : e + 6 = e + 4 + 2 := by omega
      have e7 : e + 7 = e + 4 + 2 + 1 := by omega
      rw [two_of_u16At r_type_eq ht, e3, two_of_u16At r_class_eq hc, e5, e6, e7, hb4, hb5, hb6, hb7, e9,
        two_of_u16At r_rdlen_eq hl]
      simp only [bind, Except.bind, pure, Except.pure]
      rw [r_ttl_eq b4 b5 b6 b7 l5 l6 l7, httl]

/-- the record uses a supported type and all its names can be written back -/
def RecOK (lok : Label → Prop) (r : WRecord) : Prop :=
  (∀ raw, r.rdata ≠ .other raw) ∧ NameOK lok r.name ∧ ∀ n ∈ DecodeSpec.rdataNames r.rdata, NameOK lok n

theorem readRecords_step {cfg : Cfg} {lok : Label → Prop} (hc : CfgOK cfg) (ha : CfgAgree cfg lok) (buf : Bytes) (st : St) (r : WRecord) (o' : Nat)
    (hdec : Strict.decRecord buf st.off = some (r, o')) (hok : RecOK lok r) (hcache : CacheOK buf st.cache) :
    ∃ st1, st1.off = o' ∧ CacheOK buf st1.cache ∧ ∀ k, readRecords cfg buf (k + 1) st =
      ((readRecords cfg buf k st1).1, DecodeSpec.canonRec r :: (readRecords cfg buf k st1).2.1,
        (readRecords cfg buf k st1).2.2) := by
  obtain ⟨e, rdlen, hn, ht, hcl, httl, hl, hrd, rfl⟩ := decRecord_parts hdec
  obtain ⟨st1, hrn, ho1, hc1⟩ := readName_agrees hc ha buf st r.name e hn hok.2.1 hcache
  have hfix : readFixed buf st1.off = .ok (r.rtype, r.rclass, r.ttl, rdlen) := by
    rw [ho1]; exact readFixed_agrees ht hcl httl hl
  obtain ⟨st2, hrr, ho2, hc2⟩ := readRData_agrees hc ha buf r.rtype rdlen { st1 with off := st1.off + Gen.Incoming.r_len }
    r.rdata (by simp only; rw [ho1, r_len_eq]; exact hrd) hok.1 hok.2.2 hc1
  refine ⟨st2, by simp only at ho2; rw [ho2, ho1, r_len_eq], hc2, ?_⟩
  intro k
  conv => lhs; unfold readRecords
  rw [hrn]
  dsimp only
  rw [hfix]
  dsimp only
  rw [hrr]
  rfl

theorem readRecords_agrees {cfg : Cfg} {lok : Label → Prop} (hc : CfgOK cfg) (ha : CfgAgree cfg lok) (buf : Bytes) :
    ∀ (n : Nat) (st : St) (rs : List WRecord) (o' : Nat),
      Strict.decMany (Strict.decRecord buf) n st.off = some (rs, o') → (∀ r ∈ rs, RecOK lok r) → CacheOK buf st.cache →
      ∃ st', st'.off = o' ∧ CacheOK buf st'.cache ∧ ∀ m, readRecords cfg buf (n + m) st =
        ((readRecords cfg buf m st').1, rs.map DecodeSpec.canonRec ++ (readRecords cfg buf m st').2.1,
          (readRecords cfg buf m st').2.2) := by
  intro n
  induction n with
  | zero =>
    intro st rs o' h _ hcache
    unfold Strict.decMany at h
    simp at h
    obtain ⟨rfl, rfl⟩ := h
    exact ⟨st, rfl, hcache, by intro m; simp⟩
  | succ n ih =>
    intro st rs o' h hok hcache
    obtain ⟨r, o1, rest, hr, hrest, rfl⟩ := decMany_succ h
    obtain ⟨st1, ho1, hc1, hstep⟩ := readRecords_step hc ha buf st r o1 hr (hok r List.mem_cons_self) hcache
    obtain ⟨st', ho', hc', hrec⟩ := ih st1 rest o' (by rw [ho1]; exact hrest)
      (fun r' hr' => hok r' (List.mem_cons_of_mem _ hr')) hc1
    refine ⟨st', ho', hc', ?_⟩
    intro m
    have : n + 1 + m = (n + m) + 1 := by omega
    rw [this, hstep (n + m), hrec m]
    simp

/-! ### the object -/

theorem decode_parts {pkt : Bytes} {m : WMsg} (h : Strict.decode pkt = some m) :
    ∃ nq nan nau nad o1 o2 o3,
      u16At pkt 0 = some m.id ∧ u16At pkt 2 = some m.flags ∧ u16At pkt 4 = some nq ∧ u16At pkt 6 = some nan ∧
      u16At pkt 8 = some nau ∧ u16At pkt 10 = some nad ∧
      Strict.decMany (Strict.decQuestion pkt) nq 12 = some (m.questions, o1) ∧
      Strict.decMany (Strict.decRecord pkt) nan o1 = some (m.answers, o2) ∧
      Strict.decMany (Strict.decRecord pkt) nau o2 = some (m.authorities, o3) ∧
      Strict.decMany (Strict.decRecord pkt) nad o3 = some (m.additionals, pkt.length) := by
  unfold Strict.decode at h
  cases h0 : u16At pkt 0 with
  | none => simp [h0] at h
  | some id =>
  cases h2 : u16At pkt 2 with
  | none => simp [h0, h2] at h
  | some flags =>
  cases h4 : u16At pkt 4 with
  | none => simp [h0, h2, h4] at h
  | some nq =>
  cases h6 : u16At pkt 6 with
  | none => simp [h0, h2, h4, h6] at h
  | some nan =>
  cases h8 : u16At pkt 8 with
  | none => simp [h0, h2, h4, h6, h8] at h
  | some nau =>
  cases h10 : u16At pkt 10 with
  | none => simp [h0, h2, h4, h6, h8, h10] at h
  | some nad =>
  cases hq : Strict.decMany (Strict.decQuestion pkt) nq 12 with
  | none => simp [h0, h2, h4, h6, h8, h10, hq] at h
  | some vq =>
  obtain ⟨qs, o1⟩ := vq
  cases ha : Strict.decMany (Strict.decRecord pkt) nan o1 with
  | none => simp [h0, h2, h4, h6, h8, h10, hq, ha] at h
  | some va =>
  obtain ⟨an, o2⟩ := va
  cases hu : Strict.decMany (Strict.decRecord pkt) nau o2 with
  | none => simp [h0, h2, h4, h6, h8, h10, hq, ha, hu] at h
  | some vu =>
  obtain ⟨au, o3⟩ := vu
  cases hd : Strict.decMany (Strict.decRecord pkt) nad o3 with
  | none => simp [h0, h2, h4, h6, h8, h10, hq, ha, hu, hd] at h
  | some vd =>
  obtain ⟨ad, o4⟩ := vd
  simp only [h0, h2, h4, h6, h8, h10, hq, ha, hu, hd, Option.bind_eq_bind, Option.bind_some] at h
  split at h
  · rename_i hlen
    simp at h
    subst h
    subst hlen
    exact ⟨nq, nan, nau, nad, o1, o2, o3, rfl, rfl, rfl, rfl, rfl, rfl, hq, ha, hu, hd⟩
  · simp at h

theorem readHeader_agrees {pkt : Bytes} {id flags nq nan nau nad : Nat}
    (h0 : u16At pkt 0 = some id) (h2 : u16At pkt 2 = some flags) (h4 : u16At pkt 4 = some nq)
    (h6 : u16At pkt 6 = some nan) (h8 : u16At pkt 8 = some nau) (h10 : u16At pkt 10 = some nad) :
    readHeader pkt {} = ({ off := 12 }, ⟨id, flags, nq, nan, nau, nad⟩, none) := by
  unfold readHeader
  have t0 := two_of_u16At hdr_id_eq h0
  have t2 := two_of_u16At hdr_flags_eq h2
  have t4 := two_of_u16At hdr_nq_eq h4
  have t6 := two_of_u16At hdr_nan_eq h6
  have t8 := two_of_u16At hdr_nau_eq h8
  have t10 := two_of_u16At hdr_nad_eq h10
  simp only [Nat.zero_add] at t0 t2 t4 t6 t8 t10 ⊢
  rw [t0]
  dsimp only
  rw [t2]
  dsimp only
  rw [t4]
  dsimp only
  rw [t6]
  dsimp only
  rw [t8]
  dsimp only
  rw [t10]
  rfl

theorem parse_agrees_of {cfg : Cfg} {lok : Label → Prop} (hc : CfgOK cfg) (ha : CfgAgree cfg lok) (b : Bytes) (m : WMsg)
    (hdec : Strict.decode b = some m) (hsup : Strict.supportedOnly m = true)
    (hnames : ∀ n ∈ DecodeSpec.msgNames m, NameOK lok n) :
    ∃ p, (parseWith cfg b).out = .ok p ∧ DecodeSpec.agrees p m = true := by
  obtain ⟨nq, nan, nau, nad, o1, o2, o3, h0, h2, h4, h6, h8, h10, hq, han, hau, had⟩ := decode_parts hdec
  have hqok : ∀ q ∈ m.questions, NameOK lok q.name := by
    intro q hq
    apply hnames
    simp only [DecodeSpec.msgNames, List.mem_append, List.mem_map]
    exact Or.inl ⟨q, hq, rfl⟩
  have hrok : ∀ r ∈ m.answers ++ m.authorities ++ m.additionals, RecOK lok r := by
    intro r hr
    have hs : ∀ raw, r.rdata ≠ .other raw := by
      intro raw heq
      simp only [Strict.supportedOnly, List.all_eq_true] at hsup
      have := hsup r hr
      rw [heq] at this
      simp at this
    have hr' := hr
    simp only [List.mem_append] at hr'
    refine ⟨hs, ?_, ?_⟩
    · apply hnames
      simp only [DecodeSpec.msgNames, List.mem_append, List.mem_flatMap]
      exact Or.inr ⟨r, hr', List.mem_cons_self⟩
    · intro n hn
      apply hnames
      simp only [DecodeSpec.msgNames, List.mem_append, List.mem_flatMap]
      exact Or.inr ⟨r, hr', List.mem_cons_of_mem _ hn⟩
  -- header
  have hhdr := readHeader_agrees h0 h2 h4 h6 h8 h10
  -- questions
  obtain ⟨st2, hqs, ho2, hc2⟩ := readQuestions_agrees hc ha b nq { off := 12 } m.questions o1 hq hqok (CacheOK.nil b)
  -- the three record sections, one loop
  obtain ⟨st3, ho3, hc3, hr3⟩ := readRecords_agrees hc ha b nan st2 m.answers o2 (by rw [ho2]; exact han)
    (fun r hr => hrok r (by simp [hr])) hc2
  obtain ⟨st4, ho4, hc4, hr4⟩ := readRecords_agrees hc ha b nau st3 m.authorities o3 (by rw [ho3]; exact hau)
    (fun r hr => hrok r (by simp [hr])) hc3
  obtain ⟨st5, _, _, hr5⟩ := readRecords_agrees hc ha b nad st4 m.additionals b.length (by rw [ho4]; exact had)
    (fun r hr => hrok r (by simp [hr])) hc4
  have hall : readRecords cfg b (Gen.Incoming.r_loop_count (Gen.Incoming.others_count nan nau nad)) st2 =
      (st5, DecodeSpec.flat m, none) := by
    have e1 : Gen.Incoming.r_loop_count (Gen.Incoming.others_count nan nau nad) = nan + (nau + (nad + 0)) := by
      rw [r_loop_count_eq, others_count_eq]; omega
    rw [e1, hr3, hr4, hr5]
    unfold readRecords
    simp [DecodeSpec.flat]
  have hlq := decMany_length _ _ _ _ hq
  have hla := decMany_length _ _ _ _ han
  have hlu := decMany_length _ _ _ _ hau
  have hld := decMany_length _ _ _ _ had
  have hothers : ∀ v2 v3, others cfg b ⟨m.id, m.flags, nq, nan, nau, nad⟩ m.questions st2 true v2 v3 =
      ⟨.ok ⟨true, ⟨m.id, m.flags, nq, nan, nau, nad⟩, m.questions, DecodeSpec.flat m⟩, st5⟩ := by
    intro v2 v3
    unfold others readOthers
    dsimp only
    rw [hall]
  refine ⟨⟨true, ⟨m.id, m.flags, nq, nan, nau, nad⟩, m.questions, DecodeSpec.flat m⟩, ?_, ?_⟩
  · unfold parseWith
    dsimp only
    rw [hhdr]
    dsimp only
    rw [q_loop_count_eq, hqs]
    dsimp only
    split <;> rw [hothers]
  · simp [DecodeSpec.agrees, hlq, hla, hlu, hld]

/-- with the D8 test in place: agreement for messages whose labels can all be written back -/
theorem parse_agrees {cfg : Cfg} (hc : CfgOK cfg) (ha : CfgAgree cfg Reencodable) (b : Bytes) (m : WMsg)
    (hdec : Strict.decode b = some m) (hsup : Strict.supportedOnly m = true) (hre : DecodeSpec.reencodable m = true) :
    ∃ p, (parseWith cfg b).out = .ok p ∧ DecodeSpec.agrees p m = true := by
  apply parse_agrees_of hc ha b m hdec hsup
  intro n hn l hl
  simp only [DecodeSpec.reencodable, List.all_eq_true, decide_eq_true_eq] at hre
  exact hre n hn l hl

/-- the decoder with the hop bound (D2) but without the label re-encoding test (D8) -/
def noD8Cfg : Cfg := ⟨libCfg.hopLimit, fun _ _ => false, libCfg.recLimit⟩

theorem noD8Cfg_ok : CfgOK noD8Cfg := ⟨libCfg_ok.hop, libCfg_ok.recOk⟩

theorem noD8Cfg_agree : CfgAgree noD8Cfg (fun _ => True) := ⟨fun _ _ => rfl, libCfg_agree.hopOk⟩

/-- without the D8 test the agreement needs no proviso about labels -/
theorem parse_agrees_noD8 (b : Bytes) (m : WMsg) (hdec : Strict.decode b = some m)
    (hsup : Strict.supportedOnly m = true) :
    ∃ p, (parseWith noD8Cfg b).out = .ok p ∧ DecodeSpec.agrees p m = true :=
  parse_agrees_of noD8Cfg_ok noD8Cfg_agree b m hdec hsup (fun _ _ _ _ => trivial)

end Zc.Wire.DecodeLib
