import Zc.Proofs.LinkBridgeK3b
/-! K3b, the whole monitor, from C10's scheduler model (`RefreshRun`).

`LinkBridgeK3b.lean` proves the two refresh queries of a pointer update at scheduler level and K3b's windows from them.  This file
assembles the *monitor*: for every browser of a never-closed host, every PTR(`s`) of its type the host processes, and each of the two
windows that the monitor demands (the window ends inside the observation and the record is still the last PTR(`s`) the host has
processed: `Link.lastPtrIs`), a refresh opportunity (`Link.refreshOpp`).

What is assumed of a browser (`RefreshRun`) is stated about the same kind of history as `BrowserRun`:
* `names` — every pointer record of an instance of the browsed type (that the host is delivered) in the history names that type
  (`OneName`);
* `learned` — how a PTR the host processes reaches the scheduler (`Learned`): as a `ptr` block at the instant of the delivery (created
  then, lifetime the effective TTL) if the browser existed, or — the record of a warm cache — as a `ptr` block before `start` carrying
  the original creation time; **or the delivery is a duplicate the listener does not parse** (byte-identical to the datagram it
  parsed less than a second ago — the second and third announcement of a service are): then the block is the one of that earlier
  datagram, created up to 999 ms before the delivery; and later blocks that touch the instance come with a later PTR(`s`) delivery (in
  trace order) or are the expiry of the record, a full lifetime after it was created (`Superseded`);
* `wire` — C13's part: a query of the scheduler for the type after the first start-up query (which is a QU question), sent while the
  record is past half its life and no later PTR(`s`) has been processed, is on the wire as a QM question without listing `s`
  (`WireAskWithout`). -/
namespace Zc.Bridge
open Zc Zc.Sched Zc.C10

/-- the first block later than `H` splits a history that goes beyond `H` -/
theorem split_beyond (H : Int) : ∀ (evs : List (Int × Op)) (clk : Int), clk ≤ H → H < lastTime clk evs →
    ∃ A tn opn rest, evs = A ++ (tn, opn) :: rest ∧ (∀ e ∈ A, e.1 ≤ H) ∧ H < tn
  | [], clk, h1, h2 => by simp only [lastTime] at h2; omega
  | (t, op) :: es, clk, h1, h2 => by
    by_cases ht : t ≤ H
    · obtain ⟨A, tn, opn, rest, rfl, hA, htn⟩ := split_beyond H es t ht (by simpa only [lastTime] using h2)
      refine ⟨(t, op) :: A, tn, opn, rest, rfl, ?_, htn⟩
      intro e he
      rcases List.mem_cons.mp he with rfl | he
      · exact ht
      · exact hA e he
    · exact ⟨[], t, op, es, rfl, by simp, by omega⟩

/-- at `τ` the record of delivery `x` (lifetime `e` s) has been superseded — `h` has processed a PTR(`s`) delivered after `x`
(`l2`: the deliveries after `x` in trace order) — or has expired (the record was created at most 999 ms before `x.t`) -/
def Superseded (h : Nat) (s : Link.Svc) (l2 : List Link.DlvE) (x : Link.DlvE) (e : Nat) (τ : Int) : Prop :=
  (∃ y ∈ l2, y.h = h ∧ (Link.ptrOf s y.items).isSome = true ∧ y.t ≤ τ) ∨ x.t + 1000 * e ≤ τ + 999

/-- how the pointer record of delivery `x` (instance alias `a`, type name `n`, lifetime `e` s) reaches the scheduler whose history is
`pre0 ++ start :: evs`: a `ptr` block at the instant `cr` at which the listener parsed the record — the delivery itself, or a
byte-identical datagram at most 999 ms before it — or, warm cache, a `ptr` block before `start` with that creation time; blocks that
touch the instance afterwards come only at instants `later` allows -/
def Learned (a n : String) (e : Nat) (x : Link.DlvE) (later : Int → Prop) (pre0 evs : List (Int × Op)) : Prop :=
  ∃ cr : Int, x.t - 999 ≤ cr ∧ cr ≤ x.t ∧
  ((∃ pre post, evs = pre ++ (cr, .ptr a n e cr) :: post ∧ ∀ op ∈ post, op.2.touches a = true → later op.1)
   ∨ (∃ pre0a t' pre0b, pre0 = pre0a ++ (t', .ptr a n e cr) :: pre0b ∧ Untouched a pre0b ∧
      ∀ op ∈ evs, op.2.touches a = true → later op.1))

/-- the browser `b`, created at `tb` on a host that is not closed, as a run of C10's scheduler (default rate limit, 10 s) whose record
updates are the PTR records the host processes (header of this file) -/
structure RefreshRun (tr : Link.Trace) (endT : Int) (tb : Int) (b : Link.Br) : Prop where
  ex : ∃ (types : List String) (n : String) (tS : Int) (pre0 : List (Int × Op)) (d : Nat)
      (evs : List (Int × Op)) (s' : Sched2.S2) (outs : List Send) (aliasOf : Link.Svc → String),
    n ∈ types ∧ IdleOps pre0 ∧ Active evs ∧
    Sched2.exec2 (browserCfg types 10000 none) {} tS (pre0 ++ (tb, .start d) :: evs) = .ok (s', outs) ∧
    endT < lastTime tb evs ∧
    -- names
    (∀ s : Link.Svc, s.ty = b.ty → s ∈ Link.dlvSvcs tr → OneName (aliasOf s) n (pre0 ++ evs)) ∧
    -- learned
    (∀ (s : Link.Svc) (x : Link.DlvE) (l1 l2 : List Link.DlvE) (ttl : Nat) (full : Bool), s.ty = b.ty →
      Link.dlvs tr = l1 ++ x :: l2 → x.h = b.host → Link.ptrOf s x.items = some (ttl, full) → 0 < ttl →
      (∀ y ∈ l2, y.h = b.host → (Link.ptrOf s y.items).isSome = true → tb < y.t) → tb < x.t + 1000 * (max ttl 1125 : Nat) →
      Learned (aliasOf s) n (max ttl 1125) x (Superseded b.host s l2 x (max ttl 1125)) pre0 evs) ∧
    -- wire
    (∀ (s : Link.Svc) (x : Link.DlvE) (l1 l2 : List Link.DlvE) (ttl : Nat) (full : Bool), s.ty = b.ty →
      Link.dlvs tr = l1 ++ x :: l2 → x.h = b.host → Link.ptrOf s x.items = some (ttl, full) → 0 < ttl →
      ∀ o ∈ outs, n ∈ o.types → tb + 120 < o.t → x.t + 500 * (max ttl 1125 : Nat) ≤ o.t → o.t ≤ endT →
      (∀ y ∈ l2, y.h = b.host → (Link.ptrOf s y.items).isSome = true → o.t < y.t) → WireAskWithout tr b s o)

/-- the refresh queries of a learned record, for a history that leaves the instance alone up to `H` and goes beyond it: the first
block `tn` after `H`, and the conclusions of `refresh_sends_any` / `refresh_sends_before_start` for it -/
theorem learned_sends (types : List String) (n : String) (tS : Int) (pre0 : List (Int × Op)) (tb : Int) (d : Nat)
    (evs : List (Int × Op)) (s' : Sched2.S2) (outs : List Send) (a : String) (e : Nat) (x : Link.DlvE) (later : Int → Prop) (H : Int)
    (hidle : IdleOps pre0) (hact : Active evs)
    (hex : Sched2.exec2 (browserCfg types 10000 none) {} tS (pre0 ++ (tb, .start d) :: evs) = .ok (s', outs))
    (hname : OneName a n (pre0 ++ evs)) (hl : Learned a n e x later pre0 evs)
    (hd : d ≤ 120) (hearly : tb + 120 + 14000 + 10000 + 999 ≤ x.t + 750 * e) (he : 1125 ≤ e)
    (hxH : x.t ≤ H) (htbH : tb ≤ H) (hH : H < lastTime tb evs) (hno : ∀ τ, τ ≤ H → ¬ later τ) :
    ∃ tn : Int, H < tn ∧
      (x.t + 750 * e + 2 * (10000 : Nat) < tn →
        ∃ o1 ∈ outs, x.t - 999 + 750 * e - (10000 : Nat) ≤ o1.t ∧ o1.t ≤ x.t + 750 * e + 2 * (10000 : Nat) ∧ n ∈ o1.types) ∧
      (x.t + 850 * e + 3 * (10000 : Nat) < tn →
        ∃ o1 ∈ outs, x.t - 999 + 750 * e - (10000 : Nat) ≤ o1.t ∧ o1.t ≤ x.t + 750 * e + 2 * (10000 : Nat) ∧ n ∈ o1.types ∧
          ∃ o2 ∈ outs, o1.t + 100 * e ≤ o2.t ∧ o2.t ≤ o1.t + 100 * e + (10000 : Nat) ∧ n ∈ o2.types) := by
  have huntouched : ∀ (L : List (Int × Op)), (∀ op ∈ L, op.2.touches a = true → later op.1) →
      ∀ A : List (Int × Op), (∀ op ∈ A, op ∈ L) → (∀ op ∈ A, op.1 ≤ H) → Untouched a A := by
    intro L hL A hsub hA op hop
    cases htch : op.2.touches a with
    | false => rfl
    | true => exact absurd (hL op (hsub op hop) htch) (hno _ (hA op hop))
  obtain ⟨cr, hcr1, hcr2, hl⟩ := hl
  rcases hl with ⟨pre, post, hevs, hpost⟩ | ⟨pre0a, t', pre0b, hpre0, hunb, hall⟩
  · -- learned after `start`
    subst hevs
    have hlt : lastTime tb (pre ++ (cr, Op.ptr a n e cr) :: post) = lastTime cr post := lastTime_append _ _ _ _ _
    rw [hlt] at hH
    obtain ⟨A, tn, opn, rest, rfl, hA, htn⟩ := split_beyond H post cr (by omega) hH
    refine ⟨tn, htn, ?_⟩
    have hactpre : Active pre := fun op hop => hact op (List.mem_append_left _ hop)
    have hactA : Active A := fun op hop => hact op (List.mem_append_right _ (List.mem_cons_of_mem _ (List.mem_append_left _ hop)))
    have hunA : Untouched a A := huntouched _ hpost A (fun op hop => List.mem_append_left _ hop) hA
    have hname' : OneName a n (pre0 ++ pre) := by
      intro op hop
      apply hname op
      rcases List.mem_append.mp hop with h | h
      · exact List.mem_append_left _ h
      · exact List.mem_append_right _ (List.mem_append_left _ h)
    have := refresh_sends_any types 10000 tS pre0 tb d pre cr a n e cr A tn opn rest s' outs hidle hactpre hactA hunA hname'
      (by omega) (by omega) (by omega) hex
    refine ⟨fun hb => ?_, fun hb => ?_⟩
    · obtain ⟨o1, ho1, h1, h2, h3⟩ := this.1 (by omega)
      exact ⟨o1, ho1, by omega, by omega, h3⟩
    · obtain ⟨o1, ho1, h1, h2, h3, o2, ho2, g1, g2, g3⟩ := this.2 (by omega)
      exact ⟨o1, ho1, by omega, by omega, h3, o2, ho2, g1, g2, g3⟩
  · -- learned before `start` (warm cache)
    subst hpre0
    obtain ⟨A, tn, opn, rest, rfl, hA, htn⟩ := split_beyond H evs tb htbH hH
    refine ⟨tn, htn, ?_⟩
    have hidlea : IdleOps pre0a := fun op hop => hidle op (List.mem_append_left _ hop)
    have hidleb : IdleOps pre0b := fun op hop => hidle op (List.mem_append_right _ (List.mem_cons_of_mem _ hop))
    have hactA : Active A := fun op hop => hact op (List.mem_append_left _ hop)
    have hunA : Untouched a A := huntouched _ hall A (fun op hop => List.mem_append_left _ hop) hA
    have hname' : OneName a n pre0a := fun op hop => hname op (List.mem_append_left _ (List.mem_append_left _ hop))
    have hex' : Sched2.exec2 (browserCfg types 10000 none) {} tS
        (pre0a ++ (t', Op.ptr a n e cr) :: (pre0b ++ (tb, Op.start d) :: (A ++ (tn, opn) :: rest))) = .ok (s', outs) := by
      rw [← hex]; simp
    have := refresh_sends_before_start types 10000 tS pre0a t' a n e cr pre0b tb d A tn opn rest s' outs hidlea hidleb hunb hactA hunA
      hname' (by omega) (by omega) hex'
    refine ⟨fun hb => ?_, fun hb => ?_⟩
    · obtain ⟨o1, ho1, h1, h2, h3⟩ := this.1 (by omega)
      exact ⟨o1, ho1, by omega, by omega, h3⟩
    · obtain ⟨o1, ho1, h1, h2, h3, o2, ho2, g1, g2, g3⟩ := this.2 (by omega)
      exact ⟨o1, ho1, by omega, by omega, h3, o2, ho2, g1, g2, g3⟩

theorem effTtl_div (ttl : Nat) : Link.effTtl Link.Cfg.paper ttl / 1000 = ((max ttl 1125 : Nat) : Int) := by
  unfold Link.effTtl
  exact Int.mul_ediv_cancel _ (by decide)

/-- **one obligation of K3b** from the browser's `RefreshRun` -/
theorem k3bAt_of_refreshRun {tr : Link.Trace} {endT tb : Int} {b : Link.Br} (hrun : RefreshRun tr endT tb b)
    {x : Link.DlvE} {s : Link.Svc} {ttl : Nat} {full : Bool} (hxh : x.h = b.host)
    (hp : Link.ptrOf s x.items = some (ttl, full)) (httl : 0 < ttl) (hty : s.ty = b.ty) (second : Bool) :
    Link.k3bAt Link.Cfg.paper tr endT b.host b.ty tb x (Link.effTtl Link.Cfg.paper ttl / 1000) s second = true := by
  obtain ⟨types, n, tS, pre0, d, evs, s', outs, aliasOf, hn, hidle, hact, hex, hcov, hnames, hlearned, hwire⟩ := hrun.ex
  rw [effTtl_div]
  obtain ⟨e, hedef⟩ : ∃ e : Nat, e = max ttl 1125 := ⟨_, rfl⟩
  have he : 1125 ≤ e := by rw [hedef]; exact Nat.le_max_right _ _
  rw [← hedef]
  unfold Link.k3bAt
  suffices hmain : ((Link.refreshWindow Link.Cfg.paper x.t e tb second).2 ≤ endT
      ∧ Link.lastPtrIs tr b.host s (Link.refreshWindow Link.Cfg.paper x.t e tb second).2 x = true) →
      Link.refreshOpp tr b.host b.ty s (Link.refreshWindow Link.Cfg.paper x.t e tb second).1
        (Link.refreshWindow Link.Cfg.paper x.t e tb second).2 = true by
    by_cases hprem : ((Link.refreshWindow Link.Cfg.paper x.t e tb second).2 ≤ endT
        ∧ Link.lastPtrIs tr b.host s (Link.refreshWindow Link.Cfg.paper x.t e tb second).2 x = true)
    · rw [Bool.or_eq_true]; right; exact hmain hprem
    · rw [Bool.or_eq_true]; left
      simp only [Bool.not_eq_true', Bool.and_eq_false_iff, Link.dec_false]
      by_cases h1 : (Link.refreshWindow Link.Cfg.paper x.t e tb second).2 ≤ endT
      · right
        cases hl : Link.lastPtrIs tr b.host s (Link.refreshWindow Link.Cfg.paper x.t e tb second).2 x with
        | false => rfl
        | true => exact absurd ⟨h1, hl⟩ hprem
      · left; exact h1
  intro hprem
  obtain ⟨hend, hlast⟩ := hprem
  obtain ⟨l1, l2, hd, _, _, hl2⟩ := Link.lastPtrIs_split hlast
  have hsmem : s ∈ Link.dlvSvcs tr := by
    unfold Link.dlvSvcs
    rw [List.mem_flatMap]
    exact ⟨x, by rw [hd]; simp, Link.ptrOf_mem hp⟩
  have hd120 : tb + 120 + startupOffset 0 < lastTime tb evs → d ≤ 120 :=
    fun h => (startup_send_mem types 10000 tS pre0 tb d evs s' outs hidle hact hex 0 (by omega) h).2.1
  by_cases hcase : tb + 120 + 14000 + 10000 + 999 ≤ x.t + 750 * (e : Int)
  · -- the browser had finished its start-up phase: the scheduler's 75 % / 85 % queries
    rw [Link.refreshWindow_early hcase second] at hend hl2 ⊢
    simp only at hend hl2 ⊢
    have hd120' : d ≤ 120 := hd120 (by simp only [startupOffset]; cases second <;> simp only [if_true, if_false, Bool.false_eq_true] at hend <;> omega)
    have hlrn := hlearned s x l1 l2 ttl full hty hd hxh hp httl
      (fun y hy hyh hyp => by have := hl2 y hy hyh hyp; cases second <;> simp only [if_true, if_false, Bool.false_eq_true] at this <;> omega)
      (by rw [← hedef]; omega)
    rw [← hedef] at hlrn
    have hw := hwire s x l1 l2 ttl full hty hd hxh hp httl
    rw [← hedef] at hw
    cases second with
    | false =>
      simp only [if_false, Bool.false_eq_true] at hend hl2 ⊢
      obtain ⟨tn, htn, hs1, _⟩ := learned_sends types n tS pre0 tb d evs s' outs (aliasOf s) e x _ (x.t + 750 * e + 20000)
        hidle hact hex (hnames s hty hsmem) hlrn hd120' hcase he (by omega) (by omega) (by omega)
        (by
          intro τ hτ hsup
          rcases hsup with ⟨y, hy, hyh, hyp, hyt⟩ | hexp
          · have := hl2 y hy hyh hyp; omega
          · omega)
      obtain ⟨o1, ho1, h1, h2, h3⟩ := hs1 (by omega)
      have hwo := hw o1 ho1 h3 (by omega) (by omega) (by omega) (fun y hy hyh hyp => by have := hl2 y hy hyh hyp; omega)
      exact refreshOpp_of_wire tr b s o1 _ _ hwo (by omega) (by omega)
    | true =>
      simp only [if_true] at hend hl2 ⊢
      obtain ⟨tn, htn, _, hs2⟩ := learned_sends types n tS pre0 tb d evs s' outs (aliasOf s) e x _ (x.t + 850 * e + 30000)
        hidle hact hex (hnames s hty hsmem) hlrn hd120' hcase he (by omega) (by omega) (by omega)
        (by
          intro τ hτ hsup
          rcases hsup with ⟨y, hy, hyh, hyp, hyt⟩ | hexp
          · have := hl2 y hy hyh hyp; omega
          · omega)
      obtain ⟨o1, ho1, h1, h2, h3, o2, ho2, g1, g2, g3⟩ := hs2 (by omega)
      have hwo := hw o2 ho2 g3 (by omega) (by omega) (by omega) (fun y hy hyh hyp => by have := hl2 y hy hyh hyp; omega)
      exact refreshOpp_of_wire tr b s o2 _ _ hwo (by omega) (by omega)
  · -- the browser started later: its third / fourth start-up question
    rw [Link.refreshWindow_late hcase second] at hend hl2 ⊢
    simp only at hend hl2 ⊢
    have hw := hwire s x l1 l2 ttl full hty hd hxh hp httl
    rw [← hedef] at hw
    cases second with
    | false =>
      simp only [if_false, Bool.false_eq_true] at hend hl2 ⊢
      obtain ⟨h20, h120, hm⟩ := startup_send_mem types 10000 tS pre0 tb d evs s' outs hidle hact hex 2 (by omega)
        (by simp only [startupOffset]; omega)
      have hwo := hw _ hm (by simp [startupSend, browserCfg, hn]) (by simp only [startupSend, startupOffset]; omega)
        (by simp only [startupSend, startupOffset]; omega) (by simp only [startupSend, startupOffset]; omega)
        (fun y hy hyh hyp => by have := hl2 y hy hyh hyp; simp only [startupSend, startupOffset]; omega)
      exact refreshOpp_of_wire tr b s _ _ _ hwo (by simp only [startupSend, startupOffset]; omega)
        (by simp only [startupSend, startupOffset]; omega)
    | true =>
      simp only [if_true] at hend hl2 ⊢
      obtain ⟨h20, h120, hm⟩ := startup_send_mem types 10000 tS pre0 tb d evs s' outs hidle hact hex 3 (by omega)
        (by simp only [startupOffset]; omega)
      have hwo := hw _ hm (by simp [startupSend, browserCfg, hn]) (by simp only [startupSend, startupOffset]; omega)
        (by simp only [startupSend, startupOffset]; omega) (by simp only [startupSend, startupOffset]; omega)
        (fun y hy hyh hyp => by have := hl2 y hy hyh hyp; simp only [startupSend, startupOffset]; omega)
      exact refreshOpp_of_wire tr b s _ _ _ hwo (by simp only [startupSend, startupOffset]; omega)
        (by simp only [startupSend, startupOffset]; omega)

/-- **K3b from C10 / C13**: every browser of a never-closed host is a `RefreshRun` ⇒ the monitor K3b holds -/
theorem K3b_of_refreshRuns (tr : Link.Trace) (endT : Int)
    (hruns : ∀ tb b, (tb, b) ∈ Link.browses tr → Link.neverClosed tr b.host = true → RefreshRun tr endT tb b) :
    Link.K3b Link.Cfg.paper tr endT = true := by
  unfold Link.K3b
  rw [List.all_eq_true]
  rintro ⟨tb, b⟩ hb
  cases hopen : Link.neverClosed tr b.host with
  | false => rfl
  | true =>
    have hrun := hruns tb b hb hopen
    simp only [Bool.not_true, Bool.false_or]
    rw [List.all_eq_true]
    intro x hx
    by_cases hxh : x.h = b.host
    · have hbeq : (x.h == b.host) = true := by rw [hxh]; exact beq_self_eq_true _
      simp only [hbeq, Bool.not_true, Bool.false_or]
      rw [List.all_eq_true]
      intro s hs
      cases hc : (s.ty == b.ty && Link.pos s x.items) with
      | false => rfl
      | true =>
        simp only [Bool.not_true, Bool.false_or]
        simp only [Bool.and_eq_true, beq_iff_eq] at hc
        obtain ⟨ttl, full, hp, httl⟩ := Link.pos_iff.mp hc.2
        rw [hp]
        simp only [Bool.and_eq_true]
        exact ⟨k3bAt_of_refreshRun hrun hxh hp httl hc.1 false, k3bAt_of_refreshRun hrun hxh hp httl hc.1 true⟩
    · have hbeq : (x.h == b.host) = false := by simpa using hxh
      simp only [hbeq, Bool.not_false, Bool.true_or]

end Zc.Bridge
