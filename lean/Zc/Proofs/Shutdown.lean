import Zc.Model.Shutdown
import Zc.GenFacts.Shutdown
/-! Helper lemmas for C17: the send gate, what one block can do to the flags and to the list of close calls
(`step_summary`), the frame of blocks interleaved with a close, `run` over appended histories. -/
namespace Zc.Shutdown
open Zc.GenFacts.Shutdown

theorem gated_of_done (h : Host) (hd : h.done = true) (o : List Out) : gated h o = [] := by
  simp [gated, hd, send_blocked_of_done]

theorem gated_of_not_done (h : Host) (hd : h.done = false) (o : List Out) : gated h o = o := by
  simp [gated, hd, send_open_of_not_done]

/-- on the repaired tree a woken close never raises -/
theorem wakeRaises_suppressed (r d : Bool) : wakeRaises Gen.Shutdown.close_wait_suppresses_not_running r d = false := by
  simp [wakeRaises, close_wait_suppresses_not_running_holds]

theorem cleanupAfterClose_eq (a : Bool) : cleanupAfterClose a = false := by
  simp [cleanupAfterClose, engine_close_cancels_cleanup_holds]

theorem transportsAfterShutdown_eq (c : Bool) : transportsAfterShutdown c = true := by
  have h1 := shutdown_closes_transports_holds
  have h2 := engine_async_close_shuts_down_holds
  simp only [Bool.and_eq_true] at h1 h2
  have h3 : Gen.Shutdown.shutdown_aborts_transports = false := by simpa using h1.2
  simp [transportsAfterShutdown, h1.1, h2.1, h3]

theorem runningAfterShutdown_eq (r : Bool) : runningAfterShutdown r = false := by
  have h2 := engine_async_close_shuts_down_holds
  simp only [Bool.and_eq_true] at h2
  simp [runningAfterShutdown, h2.1, h2.2]

theorem tcsAfterConnectionLost_eq (l : List Nat) : tcsAfterConnectionLost l = l := by
  simp [tcsAfterConnectionLost, connection_lost_is_noop_holds]

theorem cancelJoins_eq : cancelJoins = true := by
  simpa [cancelJoins] using thread_cancel_joins_holds

theorem syncOrderOk_eq : syncOrderOk = true := by
  simpa [syncOrderOk] using sync_order_holds

theorem syncUnregisters_eq (r : Bool) : syncUnregisters r = r := by
  simp [syncUnregisters, sync_close_unregisters_iff, sync_close_unregisters_off_loop]

/-- `_async_cancel`: the scheduler timer is cancelled and the listener removed -/
theorem asyncCancel_eq (b : Browser) : asyncCancel b = { b with cancelled := true, timer := false, listening := false } := by
  simp [asyncCancel, browser_cancel_stops_scheduler_holds, scheduler_stop_cancels_timer_holds, browser_cancel_removes_listener_holds]

theorem cancelTracked_eq (bs : List Browser) :
    cancelTracked bs = bs.map (fun b => if b.tracked then { b with cancelled := true, timer := false, listening := false } else b) := by
  simp [cancelTracked, close_cancels_tracked_browsers_holds, asyncCancel_eq]

/-- `cancel()` from another thread: the queue is drained (join), the entry forgotten -/
theorem syncCancel_eq (b : Browser) :
    syncCancel b = { b with cancelled := true, timer := false, listening := false, queued := 0, zcTracked := false } := by
  simp [syncCancel, asyncCancel_eq, cancelJoins_eq, remove_listener_forgets_holds, thread_cancel_schedules_async_cancel_holds]

/-- the timeout handle of a wait and the notification both leave a finished future alone (`_set_future_none_if_not_done`) -/
theorem timerOnFinished_eq : timerOnFinished = [] := by
  simp [timerOnFinished, waiter_timer_guarded_holds, waiter_guard_skips_done]

theorem notifyOnFinished_eq : notifyOnFinished = [] := by
  simp [notifyOnFinished, resolve_all_guarded_holds, waiter_guard_skips_done]

theorem gated_sub (h : Host) (l : List Out) : gated h l = [] ∨ gated h l = l := by
  unfold gated
  split
  · exact Or.inl rfl
  · exact Or.inr rfl

/-! ### `Zeroconf._close()` -/

theorem zcClose_of_done (h : Host) (hd : h.done = true) : zcClose h = (h, []) := by
  simp [zcClose, close_skipped_iff, hd]

theorem zcClose_of_not_done (h : Host) (hd : h.done = false) :
    zcClose h = ({ h with browsers := h.browsers.map (fun b => if b.zcTracked then syncCancel b else b), done := true },
                 syncCancelOuts h.browsers) := by
  simp [zcClose, close_skipped_iff, hd, close_removes_service_listeners_holds, close_sets_done_holds]

/-- what `_close()` leaves alone, and that it ends with `done` -/
theorem zcClose_frame (h : Host) :
    (zcClose h).1.done = true ∧ (zcClose h).1.transportsClosed = h.transportsClosed ∧ (zcClose h).1.cleanupArmed = h.cleanupArmed ∧
    (zcClose h).1.closes = h.closes ∧ (zcClose h).1.registry = h.registry ∧ (zcClose h).1.tcs = h.tcs ∧
    (zcClose h).1.running = h.running ∧ (zcClose h).1.loopRunning = h.loopRunning ∧ (zcClose h).1.loopThread = h.loopThread := by
  cases hd : h.done with
  | true => rw [zcClose_of_done h hd]; simp [hd]
  | false => rw [zcClose_of_not_done h hd]; simp

theorem mem_syncCancelOuts {bs : List Browser} {x : Out} (hx : x ∈ syncCancelOuts bs) : x = .loopError ∨ x = .callback := by
  simp only [syncCancelOuts, List.mem_flatMap] at hx
  obtain ⟨b, _, hb⟩ := hx
  split at hb
  · split at hb
    · simp only [List.mem_singleton] at hb; exact Or.inl hb
    · exact Or.inr (List.eq_of_mem_replicate hb)
  · simp at hb

/-- `_close()` lets out callbacks of joined browser threads, and a loop error only when a browser of
`Zeroconf.browsers` had been cancelled before -/
theorem mem_zcClose_out {h : Host} {x : Out} (hx : x ∈ (zcClose h).2) : h.done = false ∧ (x = .loopError ∨ x = .callback) := by
  cases hd : h.done with
  | true => rw [zcClose_of_done h hd] at hx; simp at hx
  | false =>
    rw [zcClose_of_not_done h hd] at hx
    exact ⟨rfl, mem_syncCancelOuts hx⟩

theorem loopError_zcClose {h : Host} (hx : Out.loopError ∈ (zcClose h).2) :
    h.done = false ∧ ∃ b ∈ h.browsers, b.zcTracked = true ∧ b.cancelled = true := by
  cases hd : h.done with
  | true => rw [zcClose_of_done h hd] at hx; simp at hx
  | false =>
    rw [zcClose_of_not_done h hd] at hx
    refine ⟨rfl, ?_⟩
    simp only [syncCancelOuts, List.mem_flatMap] at hx
    obtain ⟨b, hb, hm⟩ := hx
    split at hm
    · rename_i hz
      split at hm
      · rename_i hc
        exact ⟨b, hb, hz, hc⟩
      · have := List.eq_of_mem_replicate hm
        cases this
    · simp at hm

def isRaised : Out → Bool
  | .raised _ => true
  | _ => false

theorem count_replicate_send (n : Nat) : count isGoodbye (List.replicate n Out.send) = 0 := by
  induction n with
  | zero => rfl
  | succ k ih => simp_all [count, List.replicate_succ, isGoodbye]

theorem count_replicate_callback (n : Nat) : count isGoodbye (List.replicate n Out.callback) = 0 := by
  induction n with
  | zero => rfl
  | succ k ih => simp_all [count, List.replicate_succ, isGoodbye]

theorem count_zero_of_forall (l : List Out) (hl : ∀ x ∈ l, isGoodbye x = false) : count isGoodbye l = 0 := by
  unfold count
  rw [List.filter_eq_nil_iff.mpr]
  · rfl
  · intro a ha; simp [hl a ha]

theorem count_zcClose (h : Host) : count isGoodbye (zcClose h).2 = 0 := by
  apply count_zero_of_forall
  intro x hx
  rcases (mem_zcClose_out hx).2 with rfl | rfl <;> rfl

theorem gated_no_goodbye (h : Host) (l : List Out) (hl : count isGoodbye l = 0) : count isGoodbye (gated h l) = 0 := by
  rcases gated_sub h l with e | e <;> rw [e]
  · rfl
  · exact hl

theorem count_notify (h : Host) (u : Bool) : count isGoodbye (notify h u) = 0 := by
  apply count_zero_of_forall
  intro a ha
  unfold notify at ha
  split at ha
  · simp only [List.mem_append, List.mem_map, List.mem_replicate] at ha
    rcases ha with ⟨_, _, rfl⟩ | ⟨_, rfl⟩ <;> rfl
  · simp at ha

theorem count_append (p : Out → Bool) (a b : List Out) : count p (a ++ b) = count p a + count p b := by
  simp [count, List.filter_append]

/-! ### the list of close calls -/

theorem mem_setStage {h : Host} {i : Nat} {s : Bool} {st : CStage} {c : Close}
    (hc : c ∈ (h.setStage i s st).closes) : c = ⟨s, st⟩ ∨ c ∈ h.closes := by
  simp only [Host.setStage] at hc
  rcases List.mem_or_eq_of_mem_set hc with hm | he
  · exact Or.inr hm
  · exact Or.inl he

theorem any_set_of_not : ∀ (l : List Close) (i : Nat) (c c' : Close), l[i]? = some c → c.isReturned = false →
    l.any Close.isReturned = true → (l.set i c').any Close.isReturned = true := by
  intro l
  induction l with
  | nil => intro i c c' hi; simp at hi
  | cons x xs ih =>
    intro i c c' hi hc ha
    cases i with
    | zero =>
      simp only [List.getElem?_cons_zero, Option.some.injEq] at hi
      subst hi
      simp only [List.any_cons, hc, Bool.false_or] at ha
      simp [List.set, ha]
    | succ j =>
      simp only [List.getElem?_cons_succ] at hi
      simp only [List.any_cons, Bool.or_eq_true] at ha
      simp only [List.set, List.any_cons, Bool.or_eq_true]
      rcases ha with ha | ha
      · exact Or.inl ha
      · exact Or.inr (ih j c c' hi hc ha)

theorem any_append_of (l : List Close) (x : Close) (h : l.any Close.isReturned = true) :
    (l ++ [x]).any Close.isReturned = true := by
  simp [List.any_append, h]

/-- the three implications of `WF`, for one close call -/
def WFc (h : Host) (c : Close) : Prop :=
  (c.stage = .doneSet ∨ c.stage = .submitted → h.done = true) ∧
  (c.stage = .shutdown → h.done = true ∧ h.transportsClosed = true) ∧
  (c.stage = .engineClosed ∨ c.stage = .stopping ∨ c.stage = .returned → Shut h)

theorem WF_iff (h : Host) : WF h ↔ (∀ c ∈ h.closes, WFc h c) ∧ (h.loopRunning = false → Shut h) := Iff.rfl

theorem Shut.mono {h h' : Host} (d : h.done = true → h'.done = true)
    (t : h.transportsClosed = true → h'.transportsClosed = true) (u : h.cleanupArmed = false → h'.cleanupArmed = false)
    (w : Shut h) : Shut h' := ⟨d w.1, t w.2.1, u w.2.2⟩

theorem WFc_mono {h h' : Host} {c : Close} (d : h.done = true → h'.done = true)
    (t : h.transportsClosed = true → h'.transportsClosed = true) (u : h.cleanupArmed = false → h'.cleanupArmed = false)
    (w : WFc h c) : WFc h' c :=
  ⟨fun e => d (w.1 e), fun e => ⟨d (w.2.1 e).1, t (w.2.1 e).2⟩, fun e => (w.2.2 e).mono d t u⟩

/-- what any single block can do to the flags and the close calls -/
structure Summary (h h' : Host) : Prop where
  done_mono : h.done = true → h'.done = true
  tc_mono : h.transportsClosed = true → h'.transportsClosed = true
  cu_mono : h.cleanupArmed = false → h'.cleanupArmed = false
  closes : ∀ c ∈ h'.closes, c ∈ h.closes ∨ WFc h' c
  ret_mono : h.closes.any Close.isReturned = true → h'.closes.any Close.isReturned = true
  loop : h'.loopRunning = false → h.loopRunning = false ∨ Shut h'

theorem Summary.same {h h' : Host} (e1 : h'.done = h.done) (e2 : h'.transportsClosed = h.transportsClosed)
    (e3 : h'.cleanupArmed = h.cleanupArmed) (e4 : h'.closes = h.closes) (e5 : h'.loopRunning = h.loopRunning) : Summary h h' :=
  ⟨fun x => e1 ▸ x, fun x => e2 ▸ x, fun x => e3 ▸ x, fun c hc => Or.inl (e4 ▸ hc), fun x => e4 ▸ x, fun x => Or.inl (e5 ▸ x)⟩

theorem closeBody_flags (h : Host) (s : Bool) :
    (closeBody h s).1.done = h.done ∧ (closeBody h s).1.transportsClosed = h.transportsClosed ∧
      (closeBody h s).1.cleanupArmed = h.cleanupArmed ∧ (closeBody h s).1.closes = h.closes ∧
      (closeBody h s).1.registry = 0 ∧ (closeBody h s).1.running = h.running ∧ (closeBody h s).1.loopRunning = h.loopRunning := by
  simp [closeBody]

theorem closeBody_stage (h : Host) (s : Bool) : ∃ k, (closeBody h s).2.2 = .unregistering k := by
  simp [closeBody]

theorem WFc_unreg (h : Host) (s : Bool) (k : Nat) : WFc h ⟨s, .unregistering k⟩ := by
  simp [WFc]

theorem WFc_waiting (h : Host) (s : Bool) : WFc h ⟨s, .waitingStart⟩ := by simp [WFc]
theorem WFc_aborted (h : Host) (s : Bool) : WFc h ⟨s, .aborted⟩ := by simp [WFc]

theorem step_summary (h : Host) (b : Block) (h' : Host) (o : List Out) (hw : WF h) (hs : step h b = some (h', o)) : Summary h h' := by
  cases b with
  | closeCall sync =>
    simp only [step] at hs
    split at hs
    · simp at hs
    · split at hs
      · simp only [Option.some.injEq, Prod.mk.injEq] at hs
        obtain ⟨rfl, _⟩ := hs
        refine ⟨id, id, id, ?_, fun x => any_append_of _ _ x, fun x => Or.inl x⟩
        intro c hc
        simp only [List.mem_append, List.mem_singleton] at hc
        rcases hc with hc | rfl
        · exact Or.inl hc
        · exact Or.inr (WFc_waiting _ _)
      · split at hs
        · simp only [Option.some.injEq, Prod.mk.injEq] at hs
          obtain ⟨rfl, _⟩ := hs
          refine ⟨id, id, id, ?_, fun x => any_append_of _ _ x, fun x => Or.inl x⟩
          intro c hc
          simp only [List.mem_append, List.mem_singleton] at hc
          rcases hc with hc | rfl
          · exact Or.inl hc
          · exact Or.inr (WFc_unreg _ _ _)
        · simp only [Option.some.injEq, Prod.mk.injEq] at hs
          obtain ⟨rfl, _⟩ := hs
          obtain ⟨f1, f2, f3, _, _, _, f7⟩ := closeBody_flags h sync
          obtain ⟨k, hk⟩ := closeBody_stage h sync
          refine ⟨fun x => by simpa [f1] using x, fun x => by simpa [f2] using x, fun x => by simpa [f3] using x, ?_,
            fun x => any_append_of _ _ x, fun x => Or.inl (by simpa [f7] using x)⟩
          intro c hc
          simp only [List.mem_append, List.mem_singleton] at hc
          rcases hc with hc | rfl
          · exact Or.inl hc
          · rw [hk]; exact Or.inr (WFc_unreg _ _ _)
  | closeWake i t =>
    simp only [step] at hs
    split at hs
    · rename_i hi
      have hnr : (⟨false, CStage.waitingStart⟩ : Close).isReturned = false := rfl
      have body : ∀ h2 o2, (let r := closeBody h false; some (r.1.setStage i false r.2.2, r.2.1)) = some (h2, o2) → Summary h h2 := by
        intro h2 o2 he
        simp only [Option.some.injEq, Prod.mk.injEq] at he
        obtain ⟨rfl, _⟩ := he
        obtain ⟨f1, f2, f3, f4, _, _, f7⟩ := closeBody_flags h false
        obtain ⟨k, hk⟩ := closeBody_stage h false
        refine ⟨fun x => by simpa [Host.setStage, f1] using x, fun x => by simpa [Host.setStage, f2] using x,
          fun x => by simpa [Host.setStage, f3] using x, ?_, ?_, fun x => Or.inl (by simpa [Host.setStage, f7] using x)⟩
        · intro c hc
          rcases mem_setStage hc with rfl | hm
          · rw [hk]; exact Or.inr (WFc_unreg _ _ _)
          · exact Or.inl (f4 ▸ hm)
        · intro x
          simp only [Host.setStage, f4]
          exact any_set_of_not _ i _ _ hi hnr x
      split at hs
      · exact body _ _ hs
      · split at hs
        · simp at hs
        · split at hs
          · simp only [Option.some.injEq, Prod.mk.injEq] at hs
            obtain ⟨rfl, _⟩ := hs
            refine ⟨id, id, id, ?_, fun x => any_set_of_not _ i _ _ hi hnr x, fun x => Or.inl x⟩
            intro c hc
            rcases mem_setStage hc with rfl | hm
            · exact Or.inr (WFc_aborted _ _)
            · exact Or.inl hm
          · exact body _ _ hs
    · simp at hs
  | closeGoodbye i =>
    simp only [step] at hs
    split at hs
    · rename_i sync k hi
      split at hs
      · simp at hs
      · simp only [Option.some.injEq, Prod.mk.injEq] at hs
        obtain ⟨rfl, _⟩ := hs
        refine ⟨id, id, id, ?_, fun x => any_set_of_not _ i _ _ hi rfl x, fun x => Or.inl x⟩
        intro c hc
        rcases mem_setStage hc with rfl | hm
        · exact Or.inr (WFc_unreg _ _ _)
        · exact Or.inl hm
    · simp at hs
  | closeBlocked i =>
    simp only [step] at hs
    split at hs
    · rename_i c0 hi
      split at hs
      · rename_i hwl
        have hnr : c0.isReturned = false := by
          obtain ⟨sy, st⟩ := c0
          cases st <;> simp_all [Close.waitsOnLoop, Close.isReturned]
        simp only [Option.some.injEq, Prod.mk.injEq] at hs
        obtain ⟨rfl, _⟩ := hs
        refine ⟨id, id, id, ?_, fun x => any_set_of_not _ i _ _ hi hnr x, fun x => Or.inl x⟩
        intro c hc
        rcases mem_setStage hc with rfl | hm
        · exact Or.inr (WFc_aborted _ _)
        · exact Or.inl hm
      · simp at hs
    · simp at hs
  | closeMarkDone i caller =>
    simp only [step] at hs
    split at hs
    · rename_i hi
      split at hs
      · simp only [Option.some.injEq, Prod.mk.injEq] at hs
        obtain ⟨rfl, _⟩ := hs
        refine ⟨id, id, id, ?_, fun x => any_set_of_not _ i _ _ hi rfl x, fun x => Or.inl x⟩
        intro c hc
        rcases mem_setStage hc with rfl | hm
        · exact Or.inr (WFc_aborted _ _)
        · exact Or.inl hm
      · simp only [Option.some.injEq, Prod.mk.injEq] at hs
        obtain ⟨rfl, _⟩ := hs
        obtain ⟨z1, z2, z3, z4, _, _, _, z8, _⟩ := zcClose_frame h
        refine ⟨fun _ => by simpa [Host.setStage] using z1, fun x => by simpa [Host.setStage, z2] using x,
          fun x => by simpa [Host.setStage, z3] using x, ?_, ?_, fun x => Or.inl (by simpa [Host.setStage, z8] using x)⟩
        · intro c hc
          rcases mem_setStage hc with rfl | hm
          · exact Or.inr ⟨fun _ => by simpa [Host.setStage] using z1, by simp, by simp⟩
          · exact Or.inl (z4 ▸ hm)
        · intro x
          simp only [Host.setStage, z4]
          exact any_set_of_not _ i _ _ hi rfl x
    · simp at hs
  | closeShutdown i =>
    simp only [step] at hs
    split at hs
    · rename_i hi
      simp only [Option.some.injEq, Prod.mk.injEq] at hs
      obtain ⟨rfl, _⟩ := hs
      obtain ⟨z1, _, z3, z4, _, _, _, z8, _⟩ := zcClose_frame h
      refine ⟨fun _ => by simpa [Host.setStage] using z1, fun _ => transportsAfterShutdown_eq h.transportsClosed,
        fun x => by simpa [Host.setStage, z3] using x, ?_, ?_, fun x => Or.inl (by simpa [Host.setStage, z8] using x)⟩
      · intro c hc
        rcases mem_setStage hc with rfl | hm
        · exact Or.inr ⟨by simp, fun _ => ⟨by simpa [Host.setStage] using z1, transportsAfterShutdown_eq h.transportsClosed⟩, by simp⟩
        · exact Or.inl (z4 ▸ hm)
      · intro x
        simp only [Host.setStage, z4]
        exact any_set_of_not _ i _ _ hi rfl x
    · rename_i hi
      have hd : h.done = true := (hw.1 _ (List.mem_of_getElem? hi)).1 (Or.inl rfl)
      split at hs
      · rename_i hown
        rw [engine_close_off_loop] at hown
        exact absurd hown (by decide)
      · split at hs
        · rename_i hsk
          rw [engine_close_skipped_iff] at hsk
          have hl : h.loopRunning = false := by simpa using hsk
          have hsh := hw.2 hl
          simp only [Option.some.injEq, Prod.mk.injEq] at hs
          obtain ⟨rfl, _⟩ := hs
          refine ⟨id, id, id, ?_, fun x => any_set_of_not _ i _ _ hi rfl x, fun x => Or.inl x⟩
          intro c hc
          rcases mem_setStage hc with rfl | hm
          · exact Or.inr ⟨by simp, by simp, fun _ => hsh⟩
          · exact Or.inl hm
        · split at hs
          · simp only [Option.some.injEq, Prod.mk.injEq] at hs
            obtain ⟨rfl, _⟩ := hs
            refine ⟨id, id, id, ?_, fun x => any_set_of_not _ i _ _ hi rfl x, fun x => Or.inl x⟩
            intro c hc
            rcases mem_setStage hc with rfl | hm
            · exact Or.inr ⟨fun _ => hd, by simp, by simp⟩
            · exact Or.inl hm
          · rename_i haw
            exact absurd engine_close_awaits_async_close_holds haw
    · rename_i hi
      have hd : h.done = true := (hw.1 _ (List.mem_of_getElem? hi)).1 (Or.inr rfl)
      split at hs
      · simp at hs
      · simp only [Option.some.injEq, Prod.mk.injEq] at hs
        obtain ⟨rfl, _⟩ := hs
        refine ⟨id, fun _ => transportsAfterShutdown_eq h.transportsClosed, id, ?_, fun x => any_set_of_not _ i _ _ hi rfl x, fun x => Or.inl x⟩
        intro c hc
        rcases mem_setStage hc with rfl | hm
        · exact Or.inr ⟨by simp, fun _ => ⟨hd, transportsAfterShutdown_eq h.transportsClosed⟩, by simp⟩
        · exact Or.inl hm
    · simp at hs
  | closeFinish i =>
    simp only [step] at hs
    split at hs
    · rename_i hi
      simp only [Option.some.injEq, Prod.mk.injEq] at hs
      obtain ⟨rfl, _⟩ := hs
      obtain ⟨hd, ht⟩ := (hw.1 _ (List.mem_of_getElem? hi)).2.1 rfl
      refine ⟨id, id, fun _ => cleanupAfterClose_eq h.cleanupArmed, ?_, fun x => any_set_of_not _ i _ _ hi rfl x, fun x => Or.inl x⟩
      intro c hc
      rcases mem_setStage hc with rfl | hm
      · exact Or.inr ⟨by simp, by simp, fun _ => ⟨hd, ht, cleanupAfterClose_eq h.cleanupArmed⟩⟩
      · exact Or.inl hm
    · rename_i hi
      split at hs
      · simp at hs
      · simp only [Option.some.injEq, Prod.mk.injEq] at hs
        obtain ⟨rfl, _⟩ := hs
        obtain ⟨hd, ht⟩ := (hw.1 _ (List.mem_of_getElem? hi)).2.1 rfl
        refine ⟨id, id, fun _ => cleanupAfterClose_eq h.cleanupArmed, ?_, fun x => any_set_of_not _ i _ _ hi rfl x, fun x => Or.inl x⟩
        intro c hc
        rcases mem_setStage hc with rfl | hm
        · exact Or.inr ⟨by simp, by simp, fun _ => ⟨hd, ht, cleanupAfterClose_eq h.cleanupArmed⟩⟩
        · exact Or.inl hm
    · simp at hs
  | closeThreadsCheck i =>
    simp only [step] at hs
    split at hs
    · rename_i hi
      simp only [Option.some.injEq, Prod.mk.injEq] at hs
      obtain ⟨rfl, _⟩ := hs
      have hsh : Shut h := (hw.1 _ (List.mem_of_getElem? hi)).2.2 (Or.inl rfl)
      refine ⟨id, id, id, ?_, fun x => any_set_of_not _ i _ _ hi rfl x, fun x => Or.inl x⟩
      intro c hc
      rcases mem_setStage hc with rfl | hm
      · exact Or.inr ⟨by split <;> simp, by split <;> simp, fun _ => hsh⟩
      · exact Or.inl hm
    · simp at hs
  | closeThreadsStop i =>
    simp only [step] at hs
    split at hs
    · rename_i hi
      have hsh : Shut h := (hw.1 _ (List.mem_of_getElem? hi)).2.2 (Or.inr (Or.inl rfl))
      split at hs
      · simp only [Option.some.injEq, Prod.mk.injEq] at hs
        obtain ⟨rfl, _⟩ := hs
        refine ⟨id, id, id, ?_, fun x => any_set_of_not _ i _ _ hi rfl x, fun x => Or.inl x⟩
        intro c hc
        rcases mem_setStage hc with rfl | hm
        · exact Or.inr (WFc_aborted _ _)
        · exact Or.inl hm
      · simp only [Option.some.injEq, Prod.mk.injEq] at hs
        obtain ⟨rfl, _⟩ := hs
        refine ⟨id, id, id, ?_, fun x => any_set_of_not _ i _ _ hi rfl x, fun _ => Or.inr hsh⟩
        intro c hc
        rcases mem_setStage hc with rfl | hm
        · exact Or.inr ⟨by simp, by simp, fun _ => hsh⟩
        · exact Or.inl hm
    · simp at hs
  | closeAbort i =>
    simp only [step] at hs
    split at hs
    all_goals first
      | (rename_i hi
         simp only [Option.some.injEq, Prod.mk.injEq] at hs
         obtain ⟨rfl, _⟩ := hs
         refine ⟨id, id, id, ?_, fun x => any_set_of_not _ i _ _ hi rfl x, fun x => Or.inl x⟩
         intro c hc
         rcases mem_setStage hc with rfl | hm
         · exact Or.inr (WFc_aborted _ _)
         · exact Or.inl hm)
      | simp at hs
  | _ =>
    simp only [step] at hs <;> (repeat' split at hs) <;>
      first
      | (simp at hs; done)
      | (simp only [Option.some.injEq, Prod.mk.injEq] at hs
         obtain ⟨rfl, _⟩ := hs
         first
         | exact Summary.same rfl rfl rfl rfl rfl
         | (split <;> exact Summary.same rfl rfl rfl rfl rfl))

/-- `WF` is an invariant of the machine -/
theorem WF_step (h : Host) (b : Block) (h' : Host) (o : List Out) (hw : WF h) (hs : step h b = some (h', o)) : WF h' := by
  have sm := step_summary h b h' o hw hs
  refine ⟨?_, ?_⟩
  · intro c hc
    rcases sm.closes c hc with hm | hn
    · exact WFc_mono sm.done_mono sm.tc_mono sm.cu_mono (hw.1 c hm)
    · exact hn
  · intro hl
    rcases sm.loop hl with h0 | hsh
    · exact (hw.2 h0).mono sm.done_mono sm.tc_mono sm.cu_mono
    · exact hsh

theorem run_cons (h : Host) (c : Block) (m : List Block) (h' : Host) (o : List Out)
    (hr : run h (c :: m) = some (h', o)) :
    ∃ h1 o1 o2, step h c = some (h1, o1) ∧ run h1 m = some (h', o2) ∧ o = o1 ++ o2 := by
  simp only [run, bind, Option.bind] at hr
  cases h1 : step h c with
  | none => simp [h1] at hr
  | some v1 =>
    obtain ⟨s1, o1⟩ := v1
    simp only [h1] at hr
    cases h2 : run s1 m with
    | none => simp [h2] at hr
    | some v2 =>
      obtain ⟨s2, o2⟩ := v2
      simp only [h2, pure, Option.some.injEq, Prod.mk.injEq] at hr
      obtain ⟨rfl, rfl⟩ := hr
      exact ⟨s1, o1, o2, rfl, h2, rfl⟩

theorem WF_run (bs : List Block) : ∀ (h h' : Host) (o : List Out), WF h → run h bs = some (h', o) → WF h' := by
  induction bs with
  | nil =>
    intro h h' o hw hr
    simp only [run, Option.some.injEq, Prod.mk.injEq] at hr
    obtain ⟨rfl, _⟩ := hr
    exact hw
  | cons b rest ih =>
    intro h h' o hw hr
    obtain ⟨s1, o1, o2, h1, h2, _⟩ := run_cons h b rest h' o hr
    exact ih s1 h' o2 (WF_step h b s1 o1 hw h1) h2

theorem run_append (a b : List Block) : ∀ h : Host,
    run h (a ++ b) = (run h a).bind (fun r => (run r.1 b).bind (fun r2 => some (r2.1, r.2 ++ r2.2))) := by
  induction a with
  | nil =>
    intro h
    simp only [List.nil_append, run, Option.bind]
    cases run h b <;> simp
  | cons x rest ih =>
    intro h
    simp only [List.cons_append, run, bind, Option.bind]
    cases step h x with
    | none => rfl
    | some v =>
      simp only [ih]
      cases run v.1 rest with
      | none => rfl
      | some w =>
        simp only [Option.bind, pure]
        cases run w.1 b with
        | none => rfl
        | some z => simp [List.append_assoc]

/-! ### the registry stays empty; the frame around close `0` -/

theorem zcClose_registry (h : Host) : (zcClose h).1.registry = h.registry := (zcClose_frame h).2.2.2.2.1
theorem zcClose_closes (h : Host) : (zcClose h).1.closes = h.closes := (zcClose_frame h).2.2.2.1
theorem zcClose_tcs (h : Host) : (zcClose h).1.tcs = h.tcs := (zcClose_frame h).2.2.2.2.2.1
theorem zcClose_tclosed (h : Host) : (zcClose h).1.transportsClosed = h.transportsClosed := (zcClose_frame h).2.1

theorem noCompletion_registry (h : Host) (b : Block) (hb : b.noCompletion = true) (h' : Host) (o : List Out)
    (hs : step h b = some (h', o)) (hr : h.registry = 0) : h'.registry = 0 := by
  cases b with
  | probeStep l =>
    cases l with
    | true => simp [Block.noCompletion] at hb
    | false =>
      simp only [step] at hs
      split at hs
      · simp at hs
      · simp only [Bool.false_eq_true, ↓reduceIte, Option.some.injEq, Prod.mk.injEq] at hs
        obtain ⟨rfl, _⟩ := hs
        exact hr
  | _ =>
    simp only [step] at hs <;> (repeat' split at hs) <;>
      first
      | (simp at hs; done)
      | (simp only [Option.some.injEq, Prod.mk.injEq] at hs
         obtain ⟨rfl, _⟩ := hs
         first
         | exact hr
         | (split <;> exact hr)
         | (simp [Host.setStage, closeBody, zcClose_registry, hr]; done))

theorem noCompletion_run (bs : List Block) (hb : ∀ b ∈ bs, b.noCompletion = true) :
    ∀ (h h' : Host) (o : List Out), run h bs = some (h', o) → h.registry = 0 → h'.registry = 0 := by
  induction bs with
  | nil =>
    intro h h' o hr h0
    simp only [run, Option.some.injEq, Prod.mk.injEq] at hr
    obtain ⟨rfl, _⟩ := hr
    exact h0
  | cons b rest ih =>
    intro h h' o hr h0
    obtain ⟨s1, o1, o2, h1, h2, _⟩ := run_cons h b rest h' o hr
    exact ih (fun x hx => hb x (by simp [hx])) s1 h' o2 h2 (noCompletion_registry h b (hb b (by simp)) s1 o1 h1 h0)

theorem getElem?_zero_set_ne (l : List Close) (i : Nat) (x : Close) (hi : i ≠ 0) : (l.set i x)[0]? = l[0]? := by
  cases l with
  | nil => simp
  | cons a r =>
    cases i with
    | zero => exact absurd rfl hi
    | succ j => simp [List.set]

theorem getElem?_zero_append (l : List Close) (x c : Close) (h0 : l[0]? = some c) : (l ++ [x])[0]? = some c := by
  cases l with
  | nil => simp at h0
  | cons a r => simpa using h0

/-- the frame of a `mid` block around close `0` -/
theorem mid_step (h : Host) (b : Block) (hb : b.mid = true) (nog : ∀ i, b ≠ .closeGoodbye i) (c0 : Close)
    (h0 : h.closes[0]? = some c0) (hreg : h.registry = 0) (h' : Host) (o : List Out) (hs : step h b = some (h', o)) :
    h'.done = h.done ∧ h'.transportsClosed = h.transportsClosed ∧ h'.registry = 0 ∧ h'.closes[0]? = some c0
      ∧ count isGoodbye o = 0 := by
  have hbody : ∀ s, count isGoodbye (closeBody h s).2.1 = 0 := by
    intro s; simp [closeBody, hreg, count]
  cases b with
  | recv s q d u da aa =>
    simp only [step] at hs
    split at hs
    · simp at hs
    · simp only [Option.some.injEq, Prod.mk.injEq] at hs
      obtain ⟨rfl, rfl⟩ := hs
      refine ⟨rfl, rfl, hreg, h0, ?_⟩
      rw [count_append, gated_no_goodbye h _ (count_replicate_send s), count_notify]
  | outqFire r =>
    simp only [step] at hs
    split at hs
    · simp at hs
    · simp only [Option.some.injEq, Prod.mk.injEq] at hs
      obtain ⟨rfl, rfl⟩ := hs
      refine ⟨rfl, rfl, hreg, h0, gated_no_goodbye h _ ?_⟩
      split <;> simp [count, isGoodbye]
  | tcFire s q ti =>
    simp only [step] at hs
    split at hs
    · simp at hs
    · simp only [Option.some.injEq, Prod.mk.injEq] at hs
      obtain ⟨rfl, rfl⟩ := hs
      exact ⟨rfl, rfl, hreg, h0, rfl⟩
    · simp only [Option.some.injEq, Prod.mk.injEq] at hs
      obtain ⟨rfl, rfl⟩ := hs
      exact ⟨rfl, rfl, hreg, h0, gated_no_goodbye h _ (count_replicate_send s)⟩
  | connectionLost =>
    simp only [step] at hs
    split at hs
    · simp at hs
    · simp only [Option.some.injEq, Prod.mk.injEq] at hs
      obtain ⟨rfl, rfl⟩ := hs
      exact ⟨rfl, rfl, hreg, h0, rfl⟩
  | schedFire i q =>
    simp only [step] at hs
    split at hs
    · simp at hs
    · split at hs
      · simp at hs
      · split at hs
        · simp only [Option.some.injEq, Prod.mk.injEq] at hs
          obtain ⟨rfl, rfl⟩ := hs
          exact ⟨rfl, rfl, hreg, h0, rfl⟩
        · simp only [Option.some.injEq, Prod.mk.injEq] at hs
          obtain ⟨rfl, rfl⟩ := hs
          exact ⟨rfl, rfl, hreg, h0, gated_no_goodbye h _ (count_replicate_send q)⟩
  | cleanupFire e =>
    simp only [step] at hs
    split at hs
    · simp at hs
    · simp only [Option.some.injEq, Prod.mk.injEq] at hs
      obtain ⟨rfl, rfl⟩ := hs
      exact ⟨rfl, rfl, hreg, h0, count_notify h e⟩
  | probeStep l =>
    cases l with
    | true => simp [Block.mid] at hb
    | false =>
      simp only [step] at hs
      split at hs
      · simp at hs
      · simp only [Bool.false_eq_true, ↓reduceIte, Option.some.injEq, Prod.mk.injEq] at hs
        obtain ⟨rfl, rfl⟩ := hs
        exact ⟨rfl, rfl, hreg, h0, gated_no_goodbye h _ (by simp [count, isGoodbye])⟩
  | announceStep l =>
    simp only [step] at hs
    split at hs
    · simp at hs
    · simp only [Option.some.injEq, Prod.mk.injEq] at hs
      obtain ⟨rfl, rfl⟩ := hs
      refine ⟨?_, ?_, ?_, ?_, gated_no_goodbye h _ (by simp [count, isGoodbye])⟩ <;> split <;> first | rfl | exact hreg | exact h0
  | lookupStep s f =>
    simp only [step] at hs
    split at hs
    · simp at hs
    · simp only [Option.some.injEq, Prod.mk.injEq] at hs
      obtain ⟨rfl, rfl⟩ := hs
      refine ⟨?_, ?_, ?_, ?_, gated_no_goodbye h _ (count_replicate_send s)⟩ <;> split <;> first | rfl | exact hreg | exact h0
  | startUp =>
    simp only [step] at hs
    (repeat' split at hs) <;>
      first
      | (simp at hs; done)
      | (simp only [Option.some.injEq, Prod.mk.injEq] at hs
         obtain ⟨rfl, rfl⟩ := hs
         exact ⟨rfl, rfl, hreg, h0, rfl⟩)
  | apiCall k =>
    simp only [step] at hs
    split at hs
    · simp only [Option.some.injEq, Prod.mk.injEq] at hs
      obtain ⟨rfl, rfl⟩ := hs
      exact ⟨rfl, rfl, hreg, h0, rfl⟩
    · split at hs
      · simp at hs
      · cases k <;>
        · simp only [Option.some.injEq, Prod.mk.injEq] at hs
          obtain ⟨rfl, rfl⟩ := hs
          exact ⟨rfl, rfl, hreg, h0, rfl⟩
  | apiBrowse tr rp th zt =>
    simp only [step, Option.some.injEq, Prod.mk.injEq] at hs
    obtain ⟨rfl, rfl⟩ := hs
    refine ⟨rfl, rfl, hreg, h0, ?_⟩
    split
    · rfl
    · exact count_replicate_callback rp
  | browserThread i =>
    simp only [step] at hs
    split at hs
    · simp at hs
    · split at hs
      · simp at hs
      · split at hs <;>
        · simp only [Option.some.injEq, Prod.mk.injEq] at hs
          obtain ⟨rfl, rfl⟩ := hs
          exact ⟨rfl, rfl, hreg, h0, rfl⟩
  | waitStart =>
    simp only [step, Option.some.injEq, Prod.mk.injEq] at hs
    obtain ⟨rfl, rfl⟩ := hs
    exact ⟨rfl, rfl, hreg, h0, rfl⟩
  | notifyAll =>
    simp only [step, Option.some.injEq, Prod.mk.injEq] at hs
    obtain ⟨rfl, rfl⟩ := hs
    refine ⟨rfl, rfl, hreg, h0, ?_⟩
    split
    · rw [notifyOnFinished_eq]; rfl
    · rfl
  | waitFire i =>
    simp only [step] at hs
    split at hs
    · simp only [Option.some.injEq, Prod.mk.injEq] at hs
      obtain ⟨rfl, rfl⟩ := hs
      exact ⟨rfl, rfl, hreg, h0, rfl⟩
    · simp only [Option.some.injEq, Prod.mk.injEq] at hs
      obtain ⟨rfl, rfl⟩ := hs
      refine ⟨rfl, rfl, hreg, h0, ?_⟩
      rw [timerOnFinished_eq]; rfl
    · simp at hs
  | waitResume i =>
    simp only [step] at hs
    split at hs
    · simp only [Option.some.injEq, Prod.mk.injEq] at hs
      obtain ⟨rfl, rfl⟩ := hs
      exact ⟨rfl, rfl, hreg, h0, rfl⟩
    · simp only [Option.some.injEq, Prod.mk.injEq] at hs
      obtain ⟨rfl, rfl⟩ := hs
      exact ⟨rfl, rfl, hreg, h0, rfl⟩
    · simp at hs
  | closeCall sync =>
    simp only [step] at hs
    split at hs
    · simp at hs
    · split at hs
      · simp only [Option.some.injEq, Prod.mk.injEq] at hs
        obtain ⟨rfl, rfl⟩ := hs
        exact ⟨rfl, rfl, hreg, getElem?_zero_append _ _ _ h0, rfl⟩
      · split at hs
        · simp only [Option.some.injEq, Prod.mk.injEq] at hs
          obtain ⟨rfl, rfl⟩ := hs
          exact ⟨rfl, rfl, hreg, getElem?_zero_append _ _ _ h0, rfl⟩
        · simp only [Option.some.injEq, Prod.mk.injEq] at hs
          obtain ⟨rfl, rfl⟩ := hs
          refine ⟨by simp [closeBody], by simp [closeBody], by simp [closeBody], ?_, hbody _⟩
          exact getElem?_zero_append _ _ _ h0
  | closeWake i t =>
    have hi : i ≠ 0 := by simpa [Block.mid] using hb
    simp only [step] at hs
    split at hs
    · split at hs
      · simp only [Option.some.injEq, Prod.mk.injEq] at hs
        obtain ⟨rfl, rfl⟩ := hs
        refine ⟨by simp [closeBody, Host.setStage], by simp [closeBody, Host.setStage], by simp [closeBody, Host.setStage], ?_, hbody _⟩
        simp only [Host.setStage, closeBody]
        rw [getElem?_zero_set_ne _ _ _ hi]; exact h0
      · split at hs
        · simp at hs
        · split at hs
          · simp only [Option.some.injEq, Prod.mk.injEq] at hs
            obtain ⟨rfl, rfl⟩ := hs
            refine ⟨rfl, rfl, hreg, ?_, rfl⟩
            simp only [Host.setStage]
            rw [getElem?_zero_set_ne _ _ _ hi]; exact h0
          · simp only [Option.some.injEq, Prod.mk.injEq] at hs
            obtain ⟨rfl, rfl⟩ := hs
            refine ⟨by simp [closeBody, Host.setStage], by simp [closeBody, Host.setStage], by simp [closeBody, Host.setStage], ?_, hbody _⟩
            simp only [Host.setStage, closeBody]
            rw [getElem?_zero_set_ne _ _ _ hi]; exact h0
    · simp at hs
  | closeGoodbye i => exact absurd rfl (nog i)
  | closeMarkDone i c => simp [Block.mid] at hb
  | closeShutdown i => simp [Block.mid] at hb
  | closeFinish i =>
    have hi : i ≠ 0 := by simpa [Block.mid] using hb
    simp only [step] at hs
    split at hs
    · simp only [Option.some.injEq, Prod.mk.injEq] at hs
      obtain ⟨rfl, rfl⟩ := hs
      refine ⟨rfl, rfl, hreg, ?_, rfl⟩
      simp only [Host.setStage]
      rw [getElem?_zero_set_ne _ _ _ hi]; exact h0
    · split at hs
      · simp at hs
      · simp only [Option.some.injEq, Prod.mk.injEq] at hs
        obtain ⟨rfl, rfl⟩ := hs
        refine ⟨rfl, rfl, hreg, ?_, rfl⟩
        simp only [Host.setStage]
        rw [getElem?_zero_set_ne _ _ _ hi]; exact h0
    · simp at hs
  | closeBlocked i =>
    have hi : i ≠ 0 := by simpa [Block.mid] using hb
    simp only [step] at hs
    split at hs
    · split at hs
      · simp only [Option.some.injEq, Prod.mk.injEq] at hs
        obtain ⟨rfl, rfl⟩ := hs
        refine ⟨rfl, rfl, hreg, ?_, by simp [count, isGoodbye]⟩
        simp only [Host.setStage]
        rw [getElem?_zero_set_ne _ _ _ hi]; exact h0
      · simp at hs
    · simp at hs
  | closeThreadsCheck i =>
    have hi : i ≠ 0 := by simpa [Block.mid] using hb
    simp only [step] at hs
    split at hs
    · simp only [Option.some.injEq, Prod.mk.injEq] at hs
      obtain ⟨rfl, rfl⟩ := hs
      refine ⟨rfl, rfl, hreg, ?_, rfl⟩
      simp only [Host.setStage]
      rw [getElem?_zero_set_ne _ _ _ hi]; exact h0
    · simp at hs
  | closeThreadsStop i => simp [Block.mid] at hb
  | closeAbort i =>
    have hi : i ≠ 0 := by simpa [Block.mid] using hb
    simp only [step] at hs
    split at hs
    all_goals first
      | (simp only [Option.some.injEq, Prod.mk.injEq] at hs
         obtain ⟨rfl, rfl⟩ := hs
         refine ⟨rfl, rfl, hreg, ?_, by simp [count, isGoodbye]⟩
         simp only [Host.setStage]
         rw [getElem?_zero_set_ne _ _ _ hi]; exact h0)
      | simp at hs

/-- a `mid` block does not stop the loop -/
theorem mid_loopRunning (h : Host) (b : Block) (hb : b.mid = true) (h' : Host) (o : List Out) (hs : step h b = some (h', o)) :
    h'.loopRunning = h.loopRunning := by
  cases b <;> simp only [step] at hs <;> (repeat' split at hs) <;>
    first
    | (simp at hs; done)
    | (simp [Block.mid] at hb; done)
    | (simp only [Option.some.injEq, Prod.mk.injEq] at hs
       obtain ⟨rfl, _⟩ := hs
       first
       | rfl
       | (split <;> rfl)
       | (simp [closeBody, Host.setStage, (zcClose_frame h).2.2.2.2.2.2.2.1]; done))

theorem mid_run_loopRunning (bs : List Block) (hb : ∀ b ∈ bs, b.mid3 = true) :
    ∀ (h h' : Host) (o : List Out), run h bs = some (h', o) → h'.loopRunning = h.loopRunning := by
  induction bs with
  | nil =>
    intro h h' o hr
    simp only [run, Option.some.injEq, Prod.mk.injEq] at hr
    obtain ⟨rfl, _⟩ := hr
    rfl
  | cons b rest ih =>
    intro h h' o hr
    obtain ⟨s1, o1, o2, h1, h2, _⟩ := run_cons h b rest h' o hr
    have hb1 := hb b (by simp)
    simp only [Block.mid3, Bool.and_eq_true] at hb1
    rw [ih (fun x hx => hb x (by simp [hx])) s1 h' o2 h2, mid_loopRunning h b hb1.1 s1 o1 h1]

theorem mid_run (bs : List Block) (hb : ∀ b ∈ bs, b.mid3 = true) (c0 : Close) :
    ∀ (h h' : Host) (o : List Out), run h bs = some (h', o) → h.closes[0]? = some c0 → h.registry = 0 →
      h'.done = h.done ∧ h'.transportsClosed = h.transportsClosed ∧ h'.registry = 0 ∧ h'.closes[0]? = some c0
        ∧ count isGoodbye o = 0 := by
  induction bs with
  | nil =>
    intro h h' o hr h0 hreg
    simp only [run, Option.some.injEq, Prod.mk.injEq] at hr
    obtain ⟨rfl, rfl⟩ := hr
    exact ⟨rfl, rfl, hreg, h0, rfl⟩
  | cons b rest ih =>
    intro h h' o hr h0 hreg
    obtain ⟨s1, o1, o2, h1, h2, rfl⟩ := run_cons h b rest h' o hr
    have hb1 := hb b (by simp)
    simp only [Block.mid3, Bool.and_eq_true] at hb1
    have nog : ∀ i, b ≠ .closeGoodbye i := by
      intro i e; rw [e] at hb1; simp at hb1
    obtain ⟨a1, a2, a3, a4, a5⟩ := mid_step h b hb1.1 nog c0 h0 hreg s1 o1 h1
    obtain ⟨b1, b2, b3, b4, b5⟩ := ih (fun x hx => hb x (by simp [hx])) s1 h' o2 h2 a4 a3
    exact ⟨b1.trans a1, b2.trans a2, b3, b4, by rw [count_append, a5, b5]⟩

/-! ### timers that outlive a close: the TC deferral timers -/

theorem tcs_step (h : Host) (b : Block) (h' : Host) (o : List Out) (hs : step h b = some (h', o)) :
    h'.tcs = h.tcs ∨ (∃ i, h'.tcs = deferOne h.tcs i) ∨ (∃ i, h'.tcs = h.tcs.eraseIdx i) := by
  cases b <;> simp only [step] at hs <;> (repeat' split at hs) <;>
    first
    | (simp at hs; done)
    | (simp only [Option.some.injEq, Prod.mk.injEq] at hs
       obtain ⟨rfl, _⟩ := hs
       first
       | exact Or.inl rfl
       | exact Or.inl (tcsAfterConnectionLost_eq _)
       | exact Or.inr (Or.inl ⟨_, rfl⟩)
       | exact Or.inr (Or.inr ⟨_, rfl⟩)
       | (simp only [closeBody, Host.setStage]; exact Or.inl rfl)
       | (simp only [Host.setStage]; exact Or.inl (zcClose_tcs h)))

theorem deferOne_pos (l : List Nat) (i : Nat) (hl : ∀ n ∈ l, 0 < n) : ∀ n ∈ deferOne l i, 0 < n := by
  intro n hn
  unfold deferOne at hn
  split at hn
  · rw [List.mem_iff_getElem?] at hn
    obtain ⟨j, hj⟩ := hn
    rw [List.getElem?_modify] at hj
    cases hlj : l[j]? with
    | none => simp [hlj] at hj
    | some v =>
      have hv := hl v (List.mem_of_getElem? hlj)
      simp [hlj] at hj
      rw [← hj]
      split <;> omega
  · simp only [List.mem_append, List.mem_singleton] at hn
    rcases hn with hn | rfl
    · exact hl n hn
    · omega

/-- `TcInv` is preserved by every block: arrivals only add packets, a firing timer removes its own entry, and
`connection_lost` touches nothing (translated leaf) -/
theorem TcInv_step (h : Host) (b : Block) (h' : Host) (o : List Out) (hi : TcInv h) (hs : step h b = some (h', o)) : TcInv h' := by
  rcases tcs_step h b h' o hs with e | ⟨i, e⟩ | ⟨i, e⟩
  · intro n hn; exact hi n (e ▸ hn)
  · intro n hn; rw [e] at hn; exact deferOne_pos _ _ hi n hn
  · intro n hn; rw [e] at hn; exact hi n (List.mem_of_mem_eraseIdx hn)

theorem TcInv_run (bs : List Block) : ∀ (h h' : Host) (o : List Out), TcInv h → run h bs = some (h', o) → TcInv h' := by
  induction bs with
  | nil =>
    intro h h' o hi hr
    simp only [run, Option.some.injEq, Prod.mk.injEq] at hr
    obtain ⟨rfl, _⟩ := hr
    exact hi
  | cons b rest ih =>
    intro h h' o hi hr
    obtain ⟨s1, o1, o2, h1, h2, _⟩ := run_cons h b rest h' o hr
    exact ih s1 h' o2 (TcInv_step h b s1 o1 hi h1) h2

theorem not_loopError_gated (h : Host) (l : List Out) (hl : Out.loopError ∉ l) : Out.loopError ∉ gated h l := by
  rcases gated_sub h l with g | g <;> rw [g]
  · simp
  · exact hl

theorem not_loopError_replicate (n : Nat) (x : Out) (hx : x ≠ .loopError) : Out.loopError ∉ List.replicate n x := by
  intro hm
  exact hx (List.eq_of_mem_replicate hm).symm

theorem not_loopError_notify (h : Host) (u : Bool) : Out.loopError ∉ notify h u := by
  intro hm
  unfold notify at hm
  split at hm
  · simp only [List.mem_append, List.mem_map, List.mem_replicate] at hm
    rcases hm with ⟨_, _, hh⟩ | ⟨_, hh⟩ <;> cases hh
  · simp at hm

/-- the two places where something can raise into the loop: a deferred-TC timer with nothing deferred, and `_close()`
cancelling a browser of `Zeroconf.browsers` a second time -/
theorem loopError_site (h : Host) (b : Block) (h' : Host) (o : List Out) (hs : step h b = some (h', o))
    (he : Out.loopError ∈ o) :
    (∃ s q i, b = .tcFire s q i ∧ h.tcs[i]? = some 0) ∨
    (((∃ i c, b = .closeMarkDone i c) ∨ (∃ i, b = .closeShutdown i)) ∧ h.done = false ∧
      ∃ br ∈ h.browsers, br.zcTracked = true ∧ br.cancelled = true) := by
  have hsend : ∀ n, Out.loopError ∉ gated h (List.replicate n Out.send) :=
    fun n => not_loopError_gated h _ (not_loopError_replicate n _ (by intro hh; cases hh))
  have hone : ∀ y : Out, y ≠ .loopError → Out.loopError ∉ gated h [y] := by
    intro y hy
    exact not_loopError_gated h _ (by simpa using Ne.symm hy)
  have hbody : ∀ s, Out.loopError ∉ (closeBody h s).2.1 := by
    intro s hm
    simp only [closeBody] at hm
    split at hm
    · simp at hm
    · exact hone .goodbye (by intro hh; cases hh) hm
  cases b with
  | closeMarkDone i c =>
    simp only [step] at hs
    split at hs
    · split at hs
      · simp only [Option.some.injEq, Prod.mk.injEq] at hs
        obtain ⟨_, rfl⟩ := hs
        simp at he
      · simp only [Option.some.injEq, Prod.mk.injEq] at hs
        obtain ⟨_, rfl⟩ := hs
        obtain ⟨hd, hb⟩ := loopError_zcClose he
        exact Or.inr ⟨Or.inl ⟨i, c, rfl⟩, hd, hb⟩
    · simp at hs
  | closeShutdown i =>
    simp only [step] at hs
    split at hs
    · simp only [Option.some.injEq, Prod.mk.injEq] at hs
      obtain ⟨_, rfl⟩ := hs
      obtain ⟨hd, hb⟩ := loopError_zcClose he
      exact Or.inr ⟨Or.inr ⟨i, rfl⟩, hd, hb⟩
    · (repeat' split at hs) <;>
      · simp only [Option.some.injEq, Prod.mk.injEq] at hs
        obtain ⟨_, rfl⟩ := hs
        simp at he
    · split at hs
      · simp at hs
      · simp only [Option.some.injEq, Prod.mk.injEq] at hs
        obtain ⟨_, rfl⟩ := hs
        simp at he
    · simp at hs
  | _ =>
    simp only [step] at hs <;> (repeat' split at hs) <;>
    first
    | (simp at hs; done)
    | (simp only [Option.some.injEq, Prod.mk.injEq] at hs
       obtain ⟨_, rfl⟩ := hs
       first
       | exact Or.inl ⟨_, _, _, rfl, by assumption⟩
       | (exfalso
          first
          | (simp at he; done)
          | exact hsend _ he
          | exact hbody _ he
          | exact not_loopError_notify _ _ he
          | exact hone _ (by intro hh; cases hh) he
          | (rcases List.mem_append.mp he with hm | hm
             · exact hsend _ hm
             · exact not_loopError_notify _ _ hm)
          | exact not_loopError_gated h _ (by simp) he
          | exact not_loopError_replicate _ _ (by intro hh; cases hh) he
          | (split at he
             · simp at he
             · exact not_loopError_replicate _ _ (by intro hh; cases hh) he)
          | (rw [timerOnFinished_eq] at he; simp at he; done)
          | (rw [notifyOnFinished_eq] at he; simp at he; done)))

/-! ### every close call makes progress, and nobody else moves its program counter -/

theorem closes_step (h : Host) (b : Block) (h' : Host) (o : List Out) (hs : step h b = some (h', o)) :
    h'.closes = h.closes ∨ (∃ c, h'.closes = h.closes ++ [c]) ∨ (∃ i c, b.closeIndex = some i ∧ h'.closes = h.closes.set i c) := by
  cases b <;> simp only [step] at hs <;> (repeat' split at hs) <;>
    first
    | (simp at hs; done)
    | (simp only [Option.some.injEq, Prod.mk.injEq] at hs
       obtain ⟨rfl, _⟩ := hs
       first
       | exact Or.inl rfl
       | exact Or.inr (Or.inl ⟨_, rfl⟩)
       | exact Or.inr (Or.inr ⟨_, _, rfl, rfl⟩)
       | (simp only [closeBody, Host.setStage, zcClose_closes]
          first
          | exact Or.inl rfl
          | exact Or.inr (Or.inl ⟨_, rfl⟩)
          | exact Or.inr (Or.inr ⟨_, _, rfl, rfl⟩)))

/-- blocks that are not steps of close `k` leave its program counter alone -/
theorem closes_frame (h : Host) (b : Block) (h' : Host) (o : List Out) (hs : step h b = some (h', o)) (k : Nat)
    (hb : b.closeIndex ≠ some k) (hk : k < h.closes.length) : h'.closes[k]? = h.closes[k]? := by
  rcases closes_step h b h' o hs with e | ⟨c, e⟩ | ⟨i, c, hi, e⟩
  · rw [e]
  · rw [e, List.getElem?_append_left hk]
  · rw [e]
    have : i ≠ k := fun hh => hb (hh ▸ hi)
    simp [this]

/-- **progress**: whatever the rest of the host is doing, the next block of a close call that has not ended is
enabled, and it moves that call strictly closer to its end (for a sync close blocked on a loop that has been stopped under it the
next block is the expiry of `run_coro_with_timeout`'s safeguard: it ends the call with `EventLoopBlocked`) -/
theorem close_progress (h : Host) (k : Nat) (c : Close) (b : Block) (hc : h.closes[k]? = some c) (hn : c.next k h.loopRunning = some b) :
    ∃ h' o c', step h b = some (h', o) ∧ h'.closes[k]? = some c' ∧ c'.rank < c.rank := by
  obtain ⟨hlt, hget⟩ := List.getElem?_eq_some_iff.mp hc
  by_cases hblk : (c.waitsOnLoop && !h.loopRunning) = true
  · simp only [Close.next, hblk, ↓reduceIte, Option.some.injEq] at hn
    subst hn
    refine ⟨h.setStage k true .aborted, [.raised .loopBlocked], ⟨true, .aborted⟩, by simp [step, hc, hblk], by simp [Host.setStage, hlt], ?_⟩
    obtain ⟨sy, st⟩ := c
    simp only [Bool.and_eq_true] at hblk
    cases st <;> simp_all [Close.waitsOnLoop, Close.rank]
  · simp only [Close.next, hblk, Bool.false_eq_true, ↓reduceIte] at hn
    have hrun : c.waitsOnLoop = true → h.loopRunning = true := by
      intro hw
      cases hl : h.loopRunning with
      | true => rfl
      | false => simp [hw, hl] at hblk
    obtain ⟨sync, st⟩ := c
    cases st with
    | waitingStart =>
      cases sync with
      | true => simp at hn
      | false =>
        simp only [Option.some.injEq] at hn
        subst hn
        refine ⟨(closeBody h false).1.setStage k false (closeBody h false).2.2, (closeBody h false).2.1,
          ⟨false, (closeBody h false).2.2⟩, by simp [step, hc], by simp [Host.setStage, closeBody, hlt], ?_⟩
        simp only [closeBody, Close.rank, moreGoodbyes, register_broadcasts]
        split <;> omega
    | unregistering n =>
      cases n with
      | zero =>
        cases sync with
        | true =>
          simp only [Option.some.injEq] at hn
          subst hn
          exact ⟨(zcClose h).1.setStage k true .doneSet, (zcClose h).2, ⟨true, .doneSet⟩, by simp [step, hc, selfJoin],
            by simp [Host.setStage, zcClose_closes, hlt], by simp [Close.rank]⟩
        | false =>
          simp only [Option.some.injEq] at hn
          subst hn
          simp only [step, hc]
          exact ⟨_, _, ⟨false, .shutdown⟩, rfl, by simp [Host.setStage, zcClose_closes, hlt], by simp [Close.rank]⟩
      | succ m =>
        simp only [Option.some.injEq] at hn
        subst hn
        have hlr : (sync && !h.loopRunning) = false := by
          cases sync with
          | false => rfl
          | true => simp [hrun (by simp [Close.waitsOnLoop])]
        exact ⟨h.setStage k sync (.unregistering m), gated h [.goodbye], ⟨sync, .unregistering m⟩, by simp [step, hc, hlr],
          by simp [Host.setStage, hlt], by simp [Close.rank]⟩
    | doneSet =>
      cases sync with
      | true =>
        simp only [Option.some.injEq] at hn
        subst hn
        simp only [step, hc, engine_close_off_loop, Bool.false_eq_true, ↓reduceIte]
        split
        · exact ⟨_, _, ⟨true, .engineClosed⟩, rfl, by simp [Host.setStage, hlt], by simp [Close.rank]⟩
        · split
          · exact ⟨_, _, ⟨true, .submitted⟩, rfl, by simp [Host.setStage, hlt], by simp [Close.rank]⟩
          · exact ⟨_, _, ⟨true, .engineClosed⟩, rfl, by simp [Host.setStage, hlt], by simp [Close.rank]⟩
      | false => simp at hn
    | submitted =>
      cases sync with
      | true =>
        simp only [Option.some.injEq] at hn
        subst hn
        have hlr := hrun (by simp [Close.waitsOnLoop])
        simp only [step, hc, hlr, Bool.not_true, Bool.false_eq_true, ↓reduceIte]
        exact ⟨_, _, ⟨true, .shutdown⟩, rfl, by simp [Host.setStage, hlt], by simp [Close.rank]⟩
      | false => simp at hn
    | shutdown =>
      cases sync with
      | true =>
        simp only [Option.some.injEq] at hn
        subst hn
        have hlr := hrun (by simp [Close.waitsOnLoop])
        simp only [step, hc, hlr, Bool.not_true, Bool.false_eq_true, ↓reduceIte]
        exact ⟨_, _, ⟨true, .engineClosed⟩, rfl, by simp [Host.setStage, hlt], by simp [Close.rank]⟩
      | false =>
        simp only [Option.some.injEq] at hn
        subst hn
        simp only [step, hc]
        exact ⟨_, _, ⟨false, .returned⟩, rfl, by simp [Host.setStage, hlt], by simp [Close.rank]⟩
    | engineClosed =>
      cases sync with
      | true =>
        simp only [Option.some.injEq] at hn
        subst hn
        simp only [step, hc]
        refine ⟨_, _, ⟨true, if Gen.Shutdown.shutdown_threads_skipped h.loopThread then .returned else .stopping⟩, rfl,
          by simp [Host.setStage, hlt], ?_⟩
        split <;> simp [Close.rank]
      | false => simp at hn
    | stopping =>
      cases sync with
      | true =>
        simp only [Option.some.injEq] at hn
        subst hn
        simp only [step, hc]
        split
        · exact ⟨_, _, ⟨true, .aborted⟩, rfl, by simp [Host.setStage, hlt], by simp [Close.rank]⟩
        · exact ⟨_, _, ⟨true, .returned⟩, rfl, by simp [Host.setStage, hlt], by simp [Close.rank]⟩
      | false => simp at hn
    | returned => cases sync <;> simp at hn
    | aborted => cases sync <;> simp at hn

/-! ### the browsers of `Zeroconf.browsers` are cancelled once (`ZcInv`) -/

/-- one browser's share of `ZcInv` -/
def okB (b : Browser) : Prop := b.zcTracked = true → b.cancelled = false ∧ b.tracked = false

theorem ZcInv_iff (h : Host) : ZcInv h ↔ ∀ b ∈ h.browsers, okB b := Iff.rfl

theorem forall_map {P : Browser → Prop} (f : Browser → Browser) (l : List Browser) (hl : ∀ b ∈ l, P b) (hf : ∀ b, P b → P (f b)) :
    ∀ b ∈ l.map f, P b := by
  intro b hb
  obtain ⟨a, ha, rfl⟩ := List.mem_map.mp hb
  exact hf a (hl a ha)

theorem forall_mapIdx {P : Browser → Prop} (f : Nat → Browser → Browser) (l : List Browser) (hl : ∀ b ∈ l, P b)
    (hf : ∀ i b, P b → P (f i b)) : ∀ b ∈ l.mapIdx f, P b := by
  intro b hb
  obtain ⟨i, hi, rfl⟩ := List.mem_mapIdx.mp hb
  exact hf i _ (hl _ (List.getElem_mem hi))

theorem forall_set {P : Browser → Prop} (l : List Browser) (i : Nat) (x : Browser) (hl : ∀ b ∈ l, P b) (hx : P x) :
    ∀ b ∈ l.set i x, P b := by
  intro b hb
  rcases List.mem_or_eq_of_mem_set hb with hm | rfl
  · exact hl b hm
  · exact hx

theorem forall_enqueue {P : Browser → Prop} (l : List Browser) (u : Bool) (hl : ∀ b ∈ l, P b)
    (hf : ∀ b, P b → P { b with queued := b.queued + 1 }) : ∀ b ∈ enqueue l u, P b := by
  unfold enqueue
  split
  · apply forall_map _ _ hl
    intro b hb
    split
    · exact hf b hb
    · exact hb
  · exact hl

theorem forall_cancelTracked {P : Browser → Prop} (l : List Browser) (hl : ∀ b ∈ l, P b)
    (hf : ∀ b, P b → b.tracked = true → P { b with cancelled := true, timer := false, listening := false }) :
    ∀ b ∈ cancelTracked l, P b := by
  rw [cancelTracked_eq]
  apply forall_map _ _ hl
  intro b hb
  split
  · rename_i ht
    exact hf b hb ht
  · exact hb

theorem forall_closeBody {P : Browser → Prop} (h : Host) (s : Bool) (hl : ∀ b ∈ h.browsers, P b)
    (hf : ∀ b, P b → b.tracked = true → P { b with cancelled := true, timer := false, listening := false }) :
    ∀ b ∈ (closeBody h s).1.browsers, P b := by
  simp only [closeBody]
  split
  · exact hl
  · exact forall_cancelTracked _ hl hf

theorem forall_zcClose {P : Browser → Prop} (h : Host) (hl : ∀ b ∈ h.browsers, P b)
    (hf : ∀ b, P b → b.zcTracked = true → P { b with cancelled := true, timer := false, listening := false, queued := 0, zcTracked := false }) :
    ∀ b ∈ (zcClose h).1.browsers, P b := by
  cases hd : h.done with
  | true => rw [zcClose_of_done h hd]; exact hl
  | false =>
    rw [zcClose_of_not_done h hd]
    apply forall_map _ _ hl
    intro b hb
    split
    · rename_i hz
      rw [syncCancel_eq]
      exact hf b hb hz
    · exact hb

/-- `ZcInv` is preserved by every block except the aborted `_close()` of finding D30 -/
theorem ZcInv_step (h : Host) (b : Block) (h' : Host) (o : List Out) (hz : ZcInv h) (hn : b.selfJoins h = false)
    (hs : step h b = some (h', o)) : ZcInv h' := by
  have hq : ∀ b : Browser, okB b → okB { b with queued := b.queued + 1 } := fun b hb => hb
  have hct : ∀ b : Browser, okB b → b.tracked = true → okB { b with cancelled := true, timer := false, listening := false } := by
    intro b hb ht hzt
    have := (hb hzt).2
    rw [ht] at this
    cases this
  have hzc : ∀ b : Browser, okB b → b.zcTracked = true →
      okB { b with cancelled := true, timer := false, listening := false, queued := 0, zcTracked := false } := by
    intro b _ _ hzt
    cases hzt
  cases b with
  | recv s q d u da aa =>
    simp only [step] at hs
    split at hs
    · simp at hs
    · simp only [Option.some.injEq, Prod.mk.injEq] at hs
      obtain ⟨rfl, _⟩ := hs
      exact forall_enqueue _ _ hz hq
  | cleanupFire e =>
    simp only [step] at hs
    split at hs
    · simp at hs
    · simp only [Option.some.injEq, Prod.mk.injEq] at hs
      obtain ⟨rfl, _⟩ := hs
      exact forall_enqueue _ _ hz hq
  | schedFire i q =>
    simp only [step] at hs
    split at hs
    · simp at hs
    · split at hs
      · simp at hs
      · split at hs
        · simp only [Option.some.injEq, Prod.mk.injEq] at hs
          obtain ⟨rfl, _⟩ := hs
          apply forall_mapIdx _ _ hz
          intro j b hb
          split
          · exact hb
          · exact hb
        · simp only [Option.some.injEq, Prod.mk.injEq] at hs
          obtain ⟨rfl, _⟩ := hs
          exact hz
  | apiBrowse tr rp th zt =>
    simp only [step, Option.some.injEq, Prod.mk.injEq] at hs
    obtain ⟨rfl, _⟩ := hs
    intro b hb
    simp only [List.mem_append, List.mem_singleton] at hb
    rcases hb with hb | rfl
    · exact hz b hb
    · intro hzt
      simp only at hzt
      simp [hzt]
  | browserThread i =>
    simp only [step] at hs
    split at hs
    · simp at hs
    · rename_i b0 hb0
      have hb0' : okB b0 := hz b0 (List.mem_of_getElem? hb0)
      split at hs
      · simp at hs
      · split at hs <;>
        · simp only [Option.some.injEq, Prod.mk.injEq] at hs
          obtain ⟨rfl, _⟩ := hs
          exact forall_set _ _ _ hz hb0'
  | closeCall sync =>
    simp only [step] at hs
    split at hs
    · simp at hs
    · split at hs
      · simp only [Option.some.injEq, Prod.mk.injEq] at hs
        obtain ⟨rfl, _⟩ := hs
        exact hz
      · split at hs
        · simp only [Option.some.injEq, Prod.mk.injEq] at hs
          obtain ⟨rfl, _⟩ := hs
          exact hz
        · simp only [Option.some.injEq, Prod.mk.injEq] at hs
          obtain ⟨rfl, _⟩ := hs
          exact forall_closeBody h sync hz hct
  | closeWake i t =>
    simp only [step] at hs
    split at hs
    · split at hs
      · simp only [Option.some.injEq, Prod.mk.injEq] at hs
        obtain ⟨rfl, _⟩ := hs
        exact forall_closeBody h false hz hct
      · split at hs
        · simp at hs
        · split at hs
          · simp only [Option.some.injEq, Prod.mk.injEq] at hs
            obtain ⟨rfl, _⟩ := hs
            exact hz
          · simp only [Option.some.injEq, Prod.mk.injEq] at hs
            obtain ⟨rfl, _⟩ := hs
            exact forall_closeBody h false hz hct
    · simp at hs
  | closeMarkDone i c =>
    simp only [step] at hs
    split at hs
    · split at hs
      · rename_i hsj
        simp only [Block.selfJoins] at hn
        rw [hn] at hsj
        exact absurd hsj (by decide)
      · simp only [Option.some.injEq, Prod.mk.injEq] at hs
        obtain ⟨rfl, _⟩ := hs
        exact forall_zcClose h hz hzc
    · simp at hs
  | closeShutdown i =>
    simp only [step] at hs
    split at hs
    · simp only [Option.some.injEq, Prod.mk.injEq] at hs
      obtain ⟨rfl, _⟩ := hs
      exact forall_zcClose h hz hzc
    · (repeat' split at hs) <;>
      · simp only [Option.some.injEq, Prod.mk.injEq] at hs
        obtain ⟨rfl, _⟩ := hs
        exact hz
    · split at hs
      · simp at hs
      · simp only [Option.some.injEq, Prod.mk.injEq] at hs
        obtain ⟨rfl, _⟩ := hs
        exact hz
    · simp at hs
  | _ =>
    simp only [step] at hs <;> (repeat' split at hs) <;>
      first
      | (simp at hs; done)
      | (simp only [Option.some.injEq, Prod.mk.injEq] at hs
         obtain ⟨rfl, _⟩ := hs
         first
         | exact hz
         | (split <;> exact hz))

/-! ### queues of thread-based browsers -/

/-- one browser's share of `QueuesEmpty` -/
def emptyB (b : Browser) : Prop := b.threaded = true → b.queued = 0

/-- in a shut host nothing is added to a browser thread's queue by any block that is not the creation of a browser:
nothing arrives and the cleanup timer cannot fire -/
theorem QueuesEmpty_step (h : Host) (b : Block) (h' : Host) (o : List Out) (hq : QueuesEmpty h) (hsh : Shut h)
    (hls : h.lateSockets = false) (hnb : b.isBrowse = false) (hs : step h b = some (h', o)) : QueuesEmpty h' := by
  obtain ⟨hd, ht, hcl⟩ := hsh
  have hct : ∀ b : Browser, emptyB b → b.tracked = true → emptyB { b with cancelled := true, timer := false, listening := false } :=
    fun b hb _ => hb
  cases b with
  | recv s q d u da aa => simp [step, ht, hls] at hs
  | cleanupFire e => simp [step, hcl] at hs
  | apiBrowse tr rp th zt => simp [Block.isBrowse] at hnb
  | schedFire i q =>
    simp only [step] at hs
    split at hs
    · simp at hs
    · split at hs
      · simp at hs
      · split at hs
        · simp only [Option.some.injEq, Prod.mk.injEq] at hs
          obtain ⟨rfl, _⟩ := hs
          apply forall_mapIdx _ _ hq
          intro j b hb
          split
          · exact hb
          · exact hb
        · simp only [Option.some.injEq, Prod.mk.injEq] at hs
          obtain ⟨rfl, _⟩ := hs
          exact hq
  | browserThread i =>
    simp only [step] at hs
    split at hs
    · simp at hs
    · rename_i b0 hb0
      split at hs
      · simp at hs
      · split at hs
        · simp only [Option.some.injEq, Prod.mk.injEq] at hs
          obtain ⟨rfl, _⟩ := hs
          exact forall_set _ _ _ hq (fun _ => rfl)
        · simp only [Option.some.injEq, Prod.mk.injEq] at hs
          obtain ⟨rfl, _⟩ := hs
          apply forall_set _ _ _ hq
          intro hth
          have := hq b0 (List.mem_of_getElem? hb0) hth
          simp [this]
  | closeCall sync =>
    simp only [step] at hs
    split at hs
    · simp at hs
    · split at hs
      · simp only [Option.some.injEq, Prod.mk.injEq] at hs
        obtain ⟨rfl, _⟩ := hs
        exact hq
      · split at hs
        · simp only [Option.some.injEq, Prod.mk.injEq] at hs
          obtain ⟨rfl, _⟩ := hs
          exact hq
        · simp only [Option.some.injEq, Prod.mk.injEq] at hs
          obtain ⟨rfl, _⟩ := hs
          exact forall_closeBody h sync hq hct
  | closeWake i t =>
    simp only [step] at hs
    split at hs
    · split at hs
      · simp only [Option.some.injEq, Prod.mk.injEq] at hs
        obtain ⟨rfl, _⟩ := hs
        exact forall_closeBody h false hq hct
      · split at hs
        · simp at hs
        · split at hs
          · simp only [Option.some.injEq, Prod.mk.injEq] at hs
            obtain ⟨rfl, _⟩ := hs
            exact hq
          · simp only [Option.some.injEq, Prod.mk.injEq] at hs
            obtain ⟨rfl, _⟩ := hs
            exact forall_closeBody h false hq hct
    · simp at hs
  | closeMarkDone i c =>
    simp only [step] at hs
    split at hs
    · split at hs
      · rename_i hsj
        simp [close_skipped_iff, hd] at hsj
      · simp only [Option.some.injEq, Prod.mk.injEq] at hs
        obtain ⟨rfl, _⟩ := hs
        rw [zcClose_of_done h hd]
        exact hq
    · simp at hs
  | closeShutdown i =>
    simp only [step] at hs
    split at hs
    · simp only [Option.some.injEq, Prod.mk.injEq] at hs
      obtain ⟨rfl, _⟩ := hs
      rw [zcClose_of_done h hd]
      exact hq
    · (repeat' split at hs) <;>
      · simp only [Option.some.injEq, Prod.mk.injEq] at hs
        obtain ⟨rfl, _⟩ := hs
        exact hq
    · split at hs
      · simp at hs
      · simp only [Option.some.injEq, Prod.mk.injEq] at hs
        obtain ⟨rfl, _⟩ := hs
        exact hq
    · simp at hs
  | _ =>
    simp only [step] at hs <;> (repeat' split at hs) <;>
      first
      | (simp at hs; done)
      | (simp only [Option.some.injEq, Prod.mk.injEq] at hs
         obtain ⟨rfl, _⟩ := hs
         first
         | exact hq
         | (split <;> exact hq))

/-- `_close()` joins every browser of `Zeroconf.browsers`: afterwards the only thread-based browsers with something in
their queue are ones the instance does not track (and they had it before) -/
theorem zcClose_joins (h : Host) (hd : h.done = false) :
    ∀ b ∈ (zcClose h).1.browsers, b.threaded = true → b.queued ≠ 0 → b ∈ h.browsers ∧ b.zcTracked = false := by
  rw [zcClose_of_not_done h hd]
  intro b hb hth hq
  obtain ⟨a, ha, rfl⟩ := List.mem_map.mp hb
  split at hq
  · rw [syncCancel_eq] at hq
    simp at hq
  · rename_i hz
    simp only [hz] at hb ⊢
    exact ⟨ha, by simpa using hz⟩

/-! ### the loop thread is stopped once (`LoopInv`) -/

theorem LoopInv'_set (lt lr : Bool) (cl : List Close) (i : Nat) (c : Close) (hc : c.stage ≠ .stopping)
    (hwl : c.waitsOnLoop = true → lr = true) (hl : LoopInv' lt lr cl) : LoopInv' lt lr (cl.set i c) := by
  obtain ⟨l1, l0, l2, l3⟩ := hl
  refine ⟨l1, ?_, ?_, ?_⟩
  · intro j cj hj hw
    rw [List.getElem?_set] at hj
    split at hj
    · split at hj
      · simp only [Option.some.injEq] at hj; subst hj; exact hwl hw
      · simp at hj
    · exact l0 j cj hj hw
  · intro j cj hj hst
    rw [List.getElem?_set] at hj
    split at hj
    · split at hj
      · simp only [Option.some.injEq] at hj; subst hj; exact absurd hst hc
      · simp at hj
    · exact l2 j cj hj hst
  · intro a b ca cb ha hb sa sb
    rw [List.getElem?_set] at ha hb
    split at ha
    · split at ha
      · simp only [Option.some.injEq] at ha; subst ha; exact absurd sa hc
      · simp at ha
    · split at hb
      · split at hb
        · simp only [Option.some.injEq] at hb; subst hb; exact absurd sb hc
        · simp at hb
      · exact l3 a b ca cb ha hb sa sb

theorem LoopInv'_append (lt lr : Bool) (cl : List Close) (c : Close) (hc : c.stage ≠ .stopping)
    (hwl : c.waitsOnLoop = true → lr = true) (hl : LoopInv' lt lr cl) : LoopInv' lt lr (cl ++ [c]) := by
  obtain ⟨l1, l0, l2, l3⟩ := hl
  have key : ∀ (j : Nat) (cj : Close), (cl ++ [c])[j]? = some cj → cj = c ∨ cl[j]? = some cj := by
    intro j cj hj
    rw [List.getElem?_append] at hj
    split at hj
    · exact Or.inr hj
    · rw [List.getElem?_singleton] at hj
      split at hj
      · simp only [Option.some.injEq] at hj; exact Or.inl hj.symm
      · simp at hj
  refine ⟨l1, ?_, ?_, ?_⟩
  · intro j cj hj hw
    rcases key j cj hj with rfl | h0
    · exact hwl hw
    · exact l0 j cj h0 hw
  · intro j cj hj hst
    rcases key j cj hj with rfl | h0
    · exact absurd hst hc
    · exact l2 j cj h0 hst
  · intro a b ca cb ha hb sa sb
    rcases key a ca ha with rfl | ha0
    · exact absurd sa hc
    · rcases key b cb hb with rfl | hb0
      · exact absurd sb hc
      · exact l3 a b ca cb ha0 hb0 sa sb

theorem not_waits_async (st : CStage) : (⟨false, st⟩ : Close).waitsOnLoop = false := by simp [Close.waitsOnLoop]

/-- `LoopInv` is preserved by every block except a sync close entering `_shutdown_threads()` while another one is
about to stop the loop, or stopping the loop while another sync close is blocked on it (finding D34) -/
theorem LoopInv_step (h : Host) (b : Block) (h' : Host) (o : List Out) (hl : LoopInv h) (hn : b.overlapsStop h = false)
    (hs : step h b = some (h', o)) : LoopInv h' := by
  have hns : ∀ k, CStage.unregistering k ≠ .stopping := by intro k hh; cases hh
  cases b with
  | closeCall sync =>
    simp only [step] at hs
    split at hs
    · simp at hs
    · split at hs
      · simp only [Option.some.injEq, Prod.mk.injEq] at hs
        obtain ⟨rfl, _⟩ := hs
        exact LoopInv'_append _ _ _ _ (by intro hh; cases hh) (by simp [Close.waitsOnLoop]) hl
      · split at hs
        · simp only [Option.some.injEq, Prod.mk.injEq] at hs
          obtain ⟨rfl, _⟩ := hs
          exact LoopInv'_append _ _ _ _ (hns _) (by simp [Close.waitsOnLoop]) hl
        · rename_i hnw hsu
          simp only [Option.some.injEq, Prod.mk.injEq] at hs
          obtain ⟨rfl, _⟩ := hs
          obtain ⟨k, hk⟩ := closeBody_stage h sync
          simp only [LoopInv, closeBody] at hk ⊢
          refine LoopInv'_append _ _ _ _ (by rw [hk]; exact hns _) ?_ hl
          intro hw
          cases sync with
          | false => simp [Close.waitsOnLoop] at hw
          | true =>
            simp only [Bool.true_and, syncUnregisters_eq, Bool.not_eq_true', Bool.not_eq_false] at hsu
            exact hsu
  | closeWake i t =>
    simp only [step] at hs
    split at hs
    · have body : ∀ h2 o2, (let r := closeBody h false; some (r.1.setStage i false r.2.2, r.2.1)) = some (h2, o2) → LoopInv h2 := by
        intro h2 o2 he
        simp only [Option.some.injEq, Prod.mk.injEq] at he
        obtain ⟨rfl, _⟩ := he
        obtain ⟨k, hk⟩ := closeBody_stage h false
        simp only [LoopInv, closeBody, Host.setStage] at hk ⊢
        exact LoopInv'_set _ _ _ _ _ (by rw [hk]; exact hns _) (by simp [Close.waitsOnLoop]) hl
      split at hs
      · exact body _ _ hs
      · split at hs
        · simp at hs
        · split at hs
          · simp only [Option.some.injEq, Prod.mk.injEq] at hs
            obtain ⟨rfl, _⟩ := hs
            exact LoopInv'_set _ _ _ _ _ (by intro hh; cases hh) (by simp [Close.waitsOnLoop]) hl
          · exact body _ _ hs
    · simp at hs
  | closeGoodbye i =>
    simp only [step] at hs
    split at hs
    · rename_i sync k hi
      split at hs
      · simp at hs
      · rename_i hlr
        simp only [Option.some.injEq, Prod.mk.injEq] at hs
        obtain ⟨rfl, _⟩ := hs
        refine LoopInv'_set _ _ _ _ _ (hns _) ?_ hl
        intro hw
        cases sync with
        | false => simp [Close.waitsOnLoop] at hw
        | true => simpa [Host.setStage] using hlr
    · simp at hs
  | closeBlocked i =>
    simp only [step] at hs
    split at hs
    · split at hs
      · simp only [Option.some.injEq, Prod.mk.injEq] at hs
        obtain ⟨rfl, _⟩ := hs
        exact LoopInv'_set _ _ _ _ _ (by intro hh; cases hh) (by simp [Close.waitsOnLoop]) hl
      · simp at hs
    · simp at hs
  | closeMarkDone i c =>
    simp only [step] at hs
    split at hs
    · split at hs
      · simp only [Option.some.injEq, Prod.mk.injEq] at hs
        obtain ⟨rfl, _⟩ := hs
        exact LoopInv'_set _ _ _ _ _ (by intro hh; cases hh) (by simp [Close.waitsOnLoop]) hl
      · simp only [Option.some.injEq, Prod.mk.injEq] at hs
        obtain ⟨rfl, _⟩ := hs
        obtain ⟨_, _, _, z4, _, _, _, z8, z9⟩ := zcClose_frame h
        simp only [LoopInv, Host.setStage, z4, z8, z9]
        exact LoopInv'_set _ _ _ _ _ (by intro hh; cases hh) (by simp [Close.waitsOnLoop]) hl
    · simp at hs
  | closeShutdown i =>
    simp only [step] at hs
    split at hs
    · simp only [Option.some.injEq, Prod.mk.injEq] at hs
      obtain ⟨rfl, _⟩ := hs
      obtain ⟨_, _, _, z4, _, _, _, z8, z9⟩ := zcClose_frame h
      simp only [LoopInv, Host.setStage, z4, z8, z9]
      exact LoopInv'_set _ _ _ _ _ (by intro hh; cases hh) (by simp [Close.waitsOnLoop]) hl
    · split at hs
      · simp only [Option.some.injEq, Prod.mk.injEq] at hs
        obtain ⟨rfl, _⟩ := hs
        exact LoopInv'_set _ _ _ _ _ (by intro hh; cases hh) (by simp [Close.waitsOnLoop]) hl
      · split at hs
        · simp only [Option.some.injEq, Prod.mk.injEq] at hs
          obtain ⟨rfl, _⟩ := hs
          exact LoopInv'_set _ _ _ _ _ (by intro hh; cases hh) (by simp [Close.waitsOnLoop]) hl
        · rename_i hsk
          split at hs
          · simp only [Option.some.injEq, Prod.mk.injEq] at hs
            obtain ⟨rfl, _⟩ := hs
            refine LoopInv'_set _ _ _ _ _ (by intro hh; cases hh) ?_ hl
            intro _
            rw [engine_close_skipped_iff] at hsk
            simpa [Host.setStage] using hsk
          · simp only [Option.some.injEq, Prod.mk.injEq] at hs
            obtain ⟨rfl, _⟩ := hs
            exact LoopInv'_set _ _ _ _ _ (by intro hh; cases hh) (by simp [Close.waitsOnLoop]) hl
    · split at hs
      · simp at hs
      · rename_i hlr
        simp only [Option.some.injEq, Prod.mk.injEq] at hs
        obtain ⟨rfl, _⟩ := hs
        exact LoopInv'_set _ _ _ _ _ (by intro hh; cases hh) (fun _ => by simpa [Host.setStage] using hlr) hl
    · simp at hs
  | closeFinish i =>
    simp only [step] at hs
    split at hs
    · simp only [Option.some.injEq, Prod.mk.injEq] at hs
      obtain ⟨rfl, _⟩ := hs
      exact LoopInv'_set _ _ _ _ _ (by intro hh; cases hh) (by simp [Close.waitsOnLoop]) hl
    · split at hs
      · simp at hs
      · simp only [Option.some.injEq, Prod.mk.injEq] at hs
        obtain ⟨rfl, _⟩ := hs
        exact LoopInv'_set _ _ _ _ _ (by intro hh; cases hh) (by simp [Close.waitsOnLoop]) hl
    · simp at hs
  | closeThreadsCheck i =>
    simp only [step] at hs
    split at hs
    · rename_i hi
      simp only [Option.some.injEq, Prod.mk.injEq] at hs
      obtain ⟨rfl, _⟩ := hs
      simp only [Block.overlapsStop] at hn
      rw [shutdown_threads_skipped_iff]
      cases hlt : h.loopThread with
      | false => exact LoopInv'_set _ _ _ _ _ (by simp) (by simp [Close.waitsOnLoop]) (hlt ▸ hl)
      | true =>
        obtain ⟨l1, l0, l2, l3⟩ := hl
        have hnone : ∀ (j : Nat) (cj : Close), h.closes[j]? = some cj → cj.stage ≠ .stopping := by
          intro j cj hj hst
          have : h.closes.any Close.isStopping = true :=
            List.any_eq_true.mpr ⟨cj, List.mem_of_getElem? hj, by simp [Close.isStopping, hst]⟩
          rw [hn] at this
          cases this
        have hlen : i < h.closes.length := (List.getElem?_eq_some_iff.mp hi).1
        have hlr : h.loopRunning = true := l1 hlt
        simp only [LoopInv, Host.setStage, LoopInv', Bool.not_true, Bool.false_eq_true, ↓reduceIte]
        refine ⟨l1, fun _ _ _ _ => hlr, fun _ _ _ _ => hlr, ?_⟩
        intro a b ca cb ha hb sa sb
        rw [List.getElem?_set] at ha hb
        split at ha
        · rename_i hia
          split at hb
          · rename_i hib
            omega
          · exact absurd sb (hnone b cb hb)
        · exact absurd sa (hnone a ca ha)
    · simp at hs
  | closeThreadsStop i =>
    simp only [step] at hs
    split at hs
    · rename_i hi
      split at hs
      · simp only [Option.some.injEq, Prod.mk.injEq] at hs
        obtain ⟨rfl, _⟩ := hs
        exact LoopInv'_set _ _ _ _ _ (by intro hh; cases hh) (by simp [Close.waitsOnLoop]) hl
      · simp only [Option.some.injEq, Prod.mk.injEq] at hs
        obtain ⟨rfl, _⟩ := hs
        obtain ⟨l1, l0, l2, l3⟩ := hl
        simp only [Block.overlapsStop] at hn
        simp only [LoopInv, Host.setStage, LoopInv', shutdown_threads_stops_loop_holds, shutdown_threads_forgets_thread_holds, ↓reduceIte]
        have hlen : i < h.closes.length := (List.getElem?_eq_some_iff.mp hi).1
        have hnone : ∀ (j : Nat) (cj : Close), (h.closes.set i ⟨true, .returned⟩)[j]? = some cj → cj.stage ≠ .stopping := by
          intro j cj hj hst
          by_cases hij : i = j
          · subst hij
            rw [List.getElem?_set_self hlen] at hj
            simp only [Option.some.injEq] at hj
            subst hj
            cases hst
          · rw [List.getElem?_set_ne hij] at hj
            exact hij (l3 i j _ cj hi hj rfl hst)
        -- nobody is blocked on the loop when it is stopped (the complement of D34's common form)
        have hnow : ∀ (j : Nat) (cj : Close), (h.closes.set i ⟨true, .returned⟩)[j]? = some cj → cj.waitsOnLoop = false := by
          intro j cj hj
          by_cases hij : i = j
          · subst hij
            rw [List.getElem?_set_self hlen] at hj
            simp only [Option.some.injEq] at hj
            subst hj
            simp [Close.waitsOnLoop]
          · rw [List.getElem?_set_ne hij] at hj
            cases hw : cj.waitsOnLoop with
            | false => rfl
            | true =>
              have : h.closes.any Close.waitsOnLoop = true := List.any_eq_true.mpr ⟨cj, List.mem_of_getElem? hj, hw⟩
              rw [hn] at this
              cases this
        refine ⟨by simp, fun j cj hj hw => ?_, fun j cj hj hst => absurd hst (hnone j cj hj), fun a b ca cb ha _ sa _ => absurd sa (hnone a ca ha)⟩
        rw [hnow j cj hj] at hw
        cases hw
    · simp at hs
  | closeAbort i =>
    simp only [step] at hs
    split at hs
    all_goals first
      | (simp only [Option.some.injEq, Prod.mk.injEq] at hs
         obtain ⟨rfl, _⟩ := hs
         exact LoopInv'_set _ _ _ _ _ (by intro hh; cases hh) (by simp [Close.waitsOnLoop]) hl)
      | simp at hs
  | _ =>
    simp only [step] at hs <;> (repeat' split at hs) <;>
      first
      | (simp at hs; done)
      | (simp only [Option.some.injEq, Prod.mk.injEq] at hs
         obtain ⟨rfl, _⟩ := hs
         first
         | exact hl
         | (split <;> exact hl))

/-- **no socket is ever opened behind a shutdown** on a tree whose `_async_setup` looks at `done` (`hfix`: the repair of R3-C17-a):
`lateSockets = false` is preserved by every block -- the start-up block of an instance closed meanwhile shuts its endpoints down -/
theorem lateSockets_step (hfix : Gen.Shutdown.startup_closes_when_done true = true) (h : Host) (b : Block) (h' : Host) (o : List Out)
    (hl : h.lateSockets = false) (hs : step h b = some (h', o)) : h'.lateSockets = false := by
  cases b <;> simp only [step] at hs <;> (repeat' split at hs) <;>
    first
    | (simp at hs; done)
    | (simp only [Option.some.injEq, Prod.mk.injEq] at hs
       obtain ⟨rfl, _⟩ := hs
       first
       | exact hl
       | (split <;> exact hl)
       | (simp only [closeBody, Host.setStage]; exact hl)
       | (cases hd : h.done
          · rw [zcClose_of_not_done h hd]; exact hl
          · rw [zcClose_of_done h hd]; exact hl))
    | (simp_all; done)

theorem lateSockets_run (hfix : Gen.Shutdown.startup_closes_when_done true = true) (bs : List Block) : ∀ (h h' : Host) (o : List Out),
    h.lateSockets = false → run h bs = some (h', o) → h'.lateSockets = false := by
  induction bs with
  | nil =>
    intro h h' o hl hr
    simp only [run, Option.some.injEq, Prod.mk.injEq] at hr
    obtain ⟨rfl, _⟩ := hr
    exact hl
  | cons b rest ih =>
    intro h h' o hl hr
    obtain ⟨s1, o1, o2, h1, h2, _⟩ := run_cons h b rest h' o hr
    exact ih s1 h' o2 (lateSockets_step hfix h b s1 o1 hl h1) h2

/-- `NoLateStart` is preserved by every block: `startPending` never comes back, and only a pending start-up opens late sockets -/
theorem NoLateStart_step (h : Host) (b : Block) (h' : Host) (o : List Out) (hn : NoLateStart h) (hs : step h b = some (h', o)) :
    NoLateStart h' := by
  obtain ⟨h1, h2⟩ := hn
  cases b <;> simp only [step] at hs <;> (repeat' split at hs) <;>
    first
    | (simp at hs; done)
    | (simp_all; done)
    | (simp only [Option.some.injEq, Prod.mk.injEq] at hs
       obtain ⟨rfl, _⟩ := hs
       first
       | exact ⟨h1, h2⟩
       | (split <;> exact ⟨h1, h2⟩)
       | (simp only [NoLateStart, closeBody, Host.setStage]; exact ⟨h1, h2⟩)
       | (cases hd : h.done
          · rw [zcClose_of_not_done h hd]; exact ⟨h1, h2⟩
          · rw [zcClose_of_done h hd]; exact ⟨h1, h2⟩))

end Zc.Shutdown
