import Zc.Model.Shutdown
import Zc.GenFacts.Shutdown
/-! Helper lemmas for C17: the send gate, what one block can do to the flags and to the list of close calls
(`step_summary`), the frame of blocks interleaved with a close, `run` over appended histories. -/
namespace Zc.Shutdown
open Zc.GenFacts.Shutdown

theorem gated_of_done (h : Host) (hd : h.done = true) (o : List Out) : gated h o = [] := by
  simp [gated, hd, send_blocked_of_done]

theorem gated_of_not_done (h : Host) (hd : h.done = false) (o : List Out) : gated h o = o := by
  simp [gated, hd, send_open_of_not_done]

/-- on the repaired tree a woken close never raises -/
theorem wakeRaises_suppressed (r d : Bool) : wakeRaises Gen.Shutdown.close_wait_suppresses_not_running r d = false := by
  simp [wakeRaises, close_wait_suppresses_not_running_holds]

theorem cleanupAfterClose_eq (a : Bool) : cleanupAfterClose a = false := by
  simp [cleanupAfterClose, engine_close_cancels_cleanup_holds]

theorem transportsAfterShutdown_eq (c : Bool) : transportsAfterShutdown c = true := by
  simp only [transportsAfterShutdown, shutdown_closes_transports_holds, ↓reduceIte]

theorem tcsAfterConnectionLost_eq (l : List Nat) : tcsAfterConnectionLost l = l := by
  simp [tcsAfterConnectionLost, connection_lost_is_noop_holds]

theorem gated_sub (h : Host) (l : List Out) : gated h l = [] ∨ gated h l = l := by
  unfold gated
  split
  · exact Or.inl rfl
  · exact Or.inr rfl

theorem gated_no_goodbye (h : Host) (l : List Out) (hl : count isGoodbye l = 0) : count isGoodbye (gated h l) = 0 := by
  rcases gated_sub h l with e | e <;> rw [e]
  · rfl
  · exact hl

theorem count_replicate_send (n : Nat) : count isGoodbye (List.replicate n Out.send) = 0 := by
  induction n with
  | zero => rfl
  | succ k ih => simp_all [count, List.replicate_succ, isGoodbye]

theorem count_notify (h : Host) (u : Bool) : count isGoodbye (notify h u) = 0 := by
  unfold notify count
  split
  · rw [List.filter_eq_nil_iff.mpr]
    · rfl
    · intro a ha
      simp only [List.mem_append, List.mem_map, List.mem_replicate] at ha
      rcases ha with ⟨_, _, rfl⟩ | ⟨_, rfl⟩ <;> simp [isGoodbye]
  · rfl

theorem count_append (p : Out → Bool) (a b : List Out) : count p (a ++ b) = count p a + count p b := by
  simp [count, List.filter_append]

/-! ### the list of close calls -/

theorem mem_setStage {h : Host} {i : Nat} {s : Bool} {st : CStage} {c : Close}
    (hc : c ∈ (h.setStage i s st).closes) : c = ⟨s, st⟩ ∨ c ∈ h.closes := by
  simp only [Host.setStage] at hc
  rcases List.mem_or_eq_of_mem_set hc with hm | he
  · exact Or.inr hm
  · exact Or.inl he

theorem any_set_of_not : ∀ (l : List Close) (i : Nat) (c c' : Close), l[i]? = some c → c.isReturned = false →
    l.any Close.isReturned = true → (l.set i c').any Close.isReturned = true := by
  intro l
  induction l with
  | nil => intro i c c' hi; simp at hi
  | cons x xs ih =>
    intro i c c' hi hc ha
    cases i with
    | zero =>
      simp only [List.getElem?_cons_zero, Option.some.injEq] at hi
      subst hi
      simp only [List.any_cons, hc, Bool.false_or] at ha
      simp [List.set, ha]
    | succ j =>
      simp only [List.getElem?_cons_succ] at hi
      simp only [List.any_cons, Bool.or_eq_true] at ha
      simp only [List.set, List.any_cons, Bool.or_eq_true]
      rcases ha with ha | ha
      · exact Or.inl ha
      · exact Or.inr (ih j c c' hi hc ha)

theorem any_append_of (l : List Close) (x : Close) (h : l.any Close.isReturned = true) :
    (l ++ [x]).any Close.isReturned = true := by
  simp [List.any_append, h]

/-- the three implications of `WF`, for one close call -/
def WFc (h : Host) (c : Close) : Prop :=
  (c.stage = .doneSet → h.done = true) ∧
  (c.stage = .shutdown → h.done = true ∧ h.transportsClosed = true) ∧
  (c.stage = .returned → h.done = true ∧ h.transportsClosed = true ∧ h.cleanupArmed = false)

theorem WF_iff (h : Host) : WF h ↔ ∀ c ∈ h.closes, WFc h c := Iff.rfl

theorem WFc_mono {h h' : Host} {c : Close} (d : h.done = true → h'.done = true)
    (t : h.transportsClosed = true → h'.transportsClosed = true) (u : h.cleanupArmed = false → h'.cleanupArmed = false)
    (w : WFc h c) : WFc h' c :=
  ⟨fun e => d (w.1 e), fun e => ⟨d (w.2.1 e).1, t (w.2.1 e).2⟩,
   fun e => ⟨d (w.2.2 e).1, t (w.2.2 e).2.1, u (w.2.2 e).2.2⟩⟩

/-- what any single block can do to the flags and the close calls -/
structure Summary (h h' : Host) : Prop where
  done_mono : h.done = true → h'.done = true
  tc_mono : h.transportsClosed = true → h'.transportsClosed = true
  cu_mono : h.cleanupArmed = false → h'.cleanupArmed = false
  closes : ∀ c ∈ h'.closes, c ∈ h.closes ∨ WFc h' c
  ret_mono : h.closes.any Close.isReturned = true → h'.closes.any Close.isReturned = true

theorem Summary.same {h h' : Host} (e1 : h'.done = h.done) (e2 : h'.transportsClosed = h.transportsClosed)
    (e3 : h'.cleanupArmed = h.cleanupArmed) (e4 : h'.closes = h.closes) : Summary h h' :=
  ⟨fun x => e1 ▸ x, fun x => e2 ▸ x, fun x => e3 ▸ x, fun c hc => Or.inl (e4 ▸ hc), fun x => e4 ▸ x⟩

theorem closeBody_flags (h : Host) (s : Bool) :
    (closeBody h s).1.done = h.done ∧ (closeBody h s).1.transportsClosed = h.transportsClosed ∧
      (closeBody h s).1.cleanupArmed = h.cleanupArmed ∧ (closeBody h s).1.closes = h.closes ∧
      (closeBody h s).1.registry = 0 ∧ (closeBody h s).1.running = h.running := by
  simp [closeBody]

theorem closeBody_stage (h : Host) (s : Bool) : ∃ k, (closeBody h s).2.2 = .unregistering k := by
  simp [closeBody]

theorem WFc_unreg (h : Host) (s : Bool) (k : Nat) : WFc h ⟨s, .unregistering k⟩ := by
  simp [WFc]

theorem WFc_waiting (h : Host) (s : Bool) : WFc h ⟨s, .waitingStart⟩ := by simp [WFc]
theorem WFc_aborted (h : Host) (s : Bool) : WFc h ⟨s, .aborted⟩ := by simp [WFc]

theorem step_summary (h : Host) (b : Block) (h' : Host) (o : List Out) (hw : WF h) (hs : step h b = some (h', o)) : Summary h h' := by
  cases b with
  | recv s q d u da =>
    simp only [step] at hs
    split at hs
    · simp at hs
    · simp only [Option.some.injEq, Prod.mk.injEq] at hs
      obtain ⟨rfl, _⟩ := hs
      exact Summary.same rfl rfl rfl rfl
  | outqFire r =>
    simp only [step] at hs
    split at hs
    · simp at hs
    · simp only [Option.some.injEq, Prod.mk.injEq] at hs
      obtain ⟨rfl, _⟩ := hs
      exact Summary.same rfl rfl rfl rfl
  | tcFire s q ti =>
    simp only [step] at hs
    split at hs
    · simp at hs
    · simp only [Option.some.injEq, Prod.mk.injEq] at hs
      obtain ⟨rfl, _⟩ := hs
      exact Summary.same rfl rfl rfl rfl
    · simp only [Option.some.injEq, Prod.mk.injEq] at hs
      obtain ⟨rfl, _⟩ := hs
      exact Summary.same rfl rfl rfl rfl
  | connectionLost =>
    simp only [step] at hs
    split at hs
    · simp at hs
    · simp only [Option.some.injEq, Prod.mk.injEq] at hs
      obtain ⟨rfl, _⟩ := hs
      exact Summary.same rfl rfl rfl rfl
  | schedFire i q =>
    simp only [step] at hs
    split at hs
    · simp at hs
    · split at hs
      · simp at hs
      · split at hs <;>
        · simp only [Option.some.injEq, Prod.mk.injEq] at hs
          obtain ⟨rfl, _⟩ := hs
          exact Summary.same rfl rfl rfl rfl
  | cleanupFire e =>
    simp only [step] at hs
    split at hs
    · simp at hs
    · simp only [Option.some.injEq, Prod.mk.injEq] at hs
      obtain ⟨rfl, _⟩ := hs
      exact Summary.same rfl rfl rfl rfl
  | probeStep l =>
    simp only [step] at hs
    split at hs
    · simp at hs
    · simp only [Option.some.injEq, Prod.mk.injEq] at hs
      obtain ⟨rfl, _⟩ := hs
      split <;> exact Summary.same rfl rfl rfl rfl
  | announceStep l =>
    simp only [step] at hs
    split at hs
    · simp at hs
    · simp only [Option.some.injEq, Prod.mk.injEq] at hs
      obtain ⟨rfl, _⟩ := hs
      split <;> exact Summary.same rfl rfl rfl rfl
  | lookupStep s f =>
    simp only [step] at hs
    split at hs
    · simp at hs
    · simp only [Option.some.injEq, Prod.mk.injEq] at hs
      obtain ⟨rfl, _⟩ := hs
      split <;> exact Summary.same rfl rfl rfl rfl
  | startUp =>
    simp only [step] at hs
    split at hs
    · simp at hs
    · simp only [Option.some.injEq, Prod.mk.injEq] at hs
      obtain ⟨rfl, _⟩ := hs
      exact Summary.same rfl rfl rfl rfl
  | apiCall k =>
    simp only [step] at hs
    split at hs
    · simp only [Option.some.injEq, Prod.mk.injEq] at hs
      obtain ⟨rfl, _⟩ := hs
      exact Summary.same rfl rfl rfl rfl
    · split at hs
      · simp at hs
      · cases k <;>
        · simp only [Option.some.injEq, Prod.mk.injEq] at hs
          obtain ⟨rfl, _⟩ := hs
          exact Summary.same rfl rfl rfl rfl
  | apiBrowse tr rp =>
    simp only [step, Option.some.injEq, Prod.mk.injEq] at hs
    obtain ⟨rfl, _⟩ := hs
    exact Summary.same rfl rfl rfl rfl
  | closeCall sync =>
    simp only [step] at hs
    split at hs
    · simp only [Option.some.injEq, Prod.mk.injEq] at hs
      obtain ⟨rfl, _⟩ := hs
      refine ⟨id, id, id, ?_, fun x => any_append_of _ _ x⟩
      intro c hc
      simp only [List.mem_append, List.mem_singleton] at hc
      rcases hc with hc | rfl
      · exact Or.inl hc
      · exact Or.inr (WFc_waiting _ _)
    · simp only [Option.some.injEq, Prod.mk.injEq] at hs
      obtain ⟨rfl, _⟩ := hs
      obtain ⟨f1, f2, f3, _, _, _⟩ := closeBody_flags h sync
      obtain ⟨k, hk⟩ := closeBody_stage h sync
      refine ⟨fun x => by simpa [f1] using x, fun x => by simpa [f2] using x, fun x => by simpa [f3] using x, ?_,
        fun x => any_append_of _ _ x⟩
      intro c hc
      simp only [List.mem_append, List.mem_singleton] at hc
      rcases hc with hc | rfl
      · exact Or.inl hc
      · rw [hk]; exact Or.inr (WFc_unreg _ _ _)
  | closeWake i t =>
    simp only [step] at hs
    split at hs
    · rename_i hi
      have hnr : (⟨false, CStage.waitingStart⟩ : Close).isReturned = false := rfl
      have body : ∀ h2 o2, (let r := closeBody h false; some (r.1.setStage i false r.2.2, r.2.1)) = some (h2, o2) → Summary h h2 := by
        intro h2 o2 he
        simp only [Option.some.injEq, Prod.mk.injEq] at he
        obtain ⟨rfl, _⟩ := he
        obtain ⟨f1, f2, f3, f4, _, _⟩ := closeBody_flags h false
        obtain ⟨k, hk⟩ := closeBody_stage h false
        refine ⟨fun x => by simpa [Host.setStage, f1] using x, fun x => by simpa [Host.setStage, f2] using x,
          fun x => by simpa [Host.setStage, f3] using x, ?_, ?_⟩
        · intro c hc
          rcases mem_setStage hc with rfl | hm
          · rw [hk]; exact Or.inr (WFc_unreg _ _ _)
          · exact Or.inl (f4 ▸ hm)
        · intro x
          simp only [Host.setStage, f4]
          exact any_set_of_not _ i _ _ hi hnr x
      split at hs
      · exact body _ _ hs
      · split at hs
        · simp at hs
        · split at hs
          · simp only [Option.some.injEq, Prod.mk.injEq] at hs
            obtain ⟨rfl, _⟩ := hs
            refine ⟨id, id, id, ?_, fun x => any_set_of_not _ i _ _ hi hnr x⟩
            intro c hc
            rcases mem_setStage hc with rfl | hm
            · exact Or.inr (WFc_aborted _ _)
            · exact Or.inl hm
          · exact body _ _ hs
    · simp at hs
  | closeGoodbye i =>
    simp only [step] at hs
    split at hs
    · rename_i sync k hi
      simp only [Option.some.injEq, Prod.mk.injEq] at hs
      obtain ⟨rfl, _⟩ := hs
      refine ⟨id, id, id, ?_, fun x => any_set_of_not _ i _ _ hi rfl x⟩
      intro c hc
      rcases mem_setStage hc with rfl | hm
      · exact Or.inr (WFc_unreg _ _ _)
      · exact Or.inl hm
    · simp at hs
  | closeMarkDone i =>
    simp only [step] at hs
    split at hs
    · rename_i hi
      simp only [Option.some.injEq, Prod.mk.injEq] at hs
      obtain ⟨rfl, _⟩ := hs
      refine ⟨fun _ => rfl, id, id, ?_, fun x => any_set_of_not _ i _ _ hi rfl x⟩
      intro c hc
      rcases mem_setStage hc with rfl | hm
      · exact Or.inr (by simp [WFc])
      · exact Or.inl hm
    · simp at hs
  | closeShutdown i =>
    simp only [step] at hs
    split at hs
    · rename_i hi
      simp only [Option.some.injEq, Prod.mk.injEq] at hs
      obtain ⟨rfl, _⟩ := hs
      refine ⟨fun _ => rfl, fun _ => transportsAfterShutdown_eq h.transportsClosed, id, ?_, fun x => any_set_of_not _ i _ _ hi rfl x⟩
      intro c hc
      rcases mem_setStage hc with rfl | hm
      · exact Or.inr (by simp [WFc, transportsAfterShutdown_eq])
      · exact Or.inl hm
    · rename_i hi
      simp only [Option.some.injEq, Prod.mk.injEq] at hs
      obtain ⟨rfl, _⟩ := hs
      have hd : h.done = true := (hw _ (List.mem_of_getElem? hi)).1 rfl
      refine ⟨id, fun _ => transportsAfterShutdown_eq h.transportsClosed, id, ?_, fun x => any_set_of_not _ i _ _ hi rfl x⟩
      intro c hc
      rcases mem_setStage hc with rfl | hm
      · exact Or.inr ⟨by simp, fun _ => ⟨hd, transportsAfterShutdown_eq h.transportsClosed⟩, by simp⟩
      · exact Or.inl hm
    · simp at hs
  | closeFinish i =>
    simp only [step] at hs
    split at hs
    · rename_i sync hi
      simp only [Option.some.injEq, Prod.mk.injEq] at hs
      obtain ⟨rfl, _⟩ := hs
      obtain ⟨hd, ht⟩ := (hw _ (List.mem_of_getElem? hi)).2.1 rfl
      refine ⟨id, id, fun _ => cleanupAfterClose_eq h.cleanupArmed, ?_, fun x => any_set_of_not _ i _ _ hi rfl x⟩
      intro c hc
      rcases mem_setStage hc with rfl | hm
      · exact Or.inr ⟨by simp, by simp, fun _ => ⟨hd, ht, cleanupAfterClose_eq h.cleanupArmed⟩⟩
      · exact Or.inl hm
    · simp at hs
  | closeAbort i =>
    simp only [step] at hs
    split at hs
    all_goals first
      | (rename_i hi
         simp only [Option.some.injEq, Prod.mk.injEq] at hs
         obtain ⟨rfl, _⟩ := hs
         refine ⟨id, id, id, ?_, fun x => any_set_of_not _ i _ _ hi rfl x⟩
         intro c hc
         rcases mem_setStage hc with rfl | hm
         · exact Or.inr (WFc_aborted _ _)
         · exact Or.inl hm)
      | simp at hs

/-- `WF` is an invariant of the machine -/
theorem WF_step (h : Host) (b : Block) (h' : Host) (o : List Out) (hw : WF h) (hs : step h b = some (h', o)) : WF h' := by
  have sm := step_summary h b h' o hw hs
  intro c hc
  rcases sm.closes c hc with hm | hn
  · exact WFc_mono sm.done_mono sm.tc_mono sm.cu_mono (hw c hm)
  · exact hn

theorem WF_run (bs : List Block) : ∀ (h h' : Host) (o : List Out), WF h → run h bs = some (h', o) → WF h' := by
  induction bs with
  | nil =>
    intro h h' o hw hr
    simp only [run, Option.some.injEq, Prod.mk.injEq] at hr
    obtain ⟨rfl, _⟩ := hr
    exact hw
  | cons b rest ih =>
    intro h h' o hw hr
    simp only [run, bind, Option.bind] at hr
    cases h1 : step h b with
    | none => simp [h1] at hr
    | some v1 =>
      obtain ⟨s1, o1⟩ := v1
      simp only [h1] at hr
      cases h2 : run s1 rest with
      | none => simp [h2] at hr
      | some v2 =>
        obtain ⟨s2, o2⟩ := v2
        simp only [h2, pure, Option.some.injEq, Prod.mk.injEq] at hr
        obtain ⟨rfl, _⟩ := hr
        exact ih s1 s2 o2 (WF_step h b s1 o1 hw h1) h2

theorem run_append (a b : List Block) : ∀ h : Host,
    run h (a ++ b) = (run h a).bind (fun r => (run r.1 b).bind (fun r2 => some (r2.1, r.2 ++ r2.2))) := by
  induction a with
  | nil =>
    intro h
    simp only [List.nil_append, run, Option.bind]
    cases run h b <;> simp
  | cons x rest ih =>
    intro h
    simp only [List.cons_append, run, bind, Option.bind]
    cases step h x with
    | none => rfl
    | some v =>
      simp only [ih]
      cases run v.1 rest with
      | none => rfl
      | some w =>
        simp only [Option.bind, pure]
        cases run w.1 b with
        | none => rfl
        | some z => simp [List.append_assoc]

/-- one block followed by more -/
theorem run_cons (h : Host) (c : Block) (m : List Block) (h' : Host) (o : List Out)
    (hr : run h (c :: m) = some (h', o)) :
    ∃ h1 o1 o2, step h c = some (h1, o1) ∧ run h1 m = some (h', o2) ∧ o = o1 ++ o2 := by
  simp only [run, bind, Option.bind] at hr
  cases h1 : step h c with
  | none => simp [h1] at hr
  | some v1 =>
    obtain ⟨s1, o1⟩ := v1
    simp only [h1] at hr
    cases h2 : run s1 m with
    | none => simp [h2] at hr
    | some v2 =>
      obtain ⟨s2, o2⟩ := v2
      simp only [h2, pure, Option.some.injEq, Prod.mk.injEq] at hr
      obtain ⟨rfl, rfl⟩ := hr
      exact ⟨s1, o1, o2, rfl, h2, rfl⟩

/-! ### the registry stays empty; the frame around close `0` -/

theorem noCompletion_registry (h : Host) (b : Block) (hb : b.noCompletion = true) (h' : Host) (o : List Out)
    (hs : step h b = some (h', o)) (hr : h.registry = 0) : h'.registry = 0 := by
  cases b with
  | probeStep l =>
    cases l with
    | true => simp [Block.noCompletion] at hb
    | false =>
      simp only [step] at hs
      split at hs
      · simp at hs
      · simp only [Bool.false_eq_true, ↓reduceIte, Option.some.injEq, Prod.mk.injEq] at hs
        obtain ⟨rfl, _⟩ := hs
        exact hr
  | apiBrowse tr rp =>
    simp only [step, Option.some.injEq, Prod.mk.injEq] at hs
    obtain ⟨rfl, _⟩ := hs
    exact hr
  | closeCall sync =>
    simp only [step] at hs
    split at hs
    · simp only [Option.some.injEq, Prod.mk.injEq] at hs
      obtain ⟨rfl, _⟩ := hs
      exact hr
    · simp only [Option.some.injEq, Prod.mk.injEq] at hs
      obtain ⟨rfl, _⟩ := hs
      simp [closeBody]
  | closeWake i t =>
    simp only [step] at hs
    split at hs
    · split at hs
      · simp only [Option.some.injEq, Prod.mk.injEq] at hs
        obtain ⟨rfl, _⟩ := hs
        simp [closeBody, Host.setStage]
      · split at hs
        · simp at hs
        · split at hs
          · simp only [Option.some.injEq, Prod.mk.injEq] at hs
            obtain ⟨rfl, _⟩ := hs
            simpa [Host.setStage] using hr
          · simp only [Option.some.injEq, Prod.mk.injEq] at hs
            obtain ⟨rfl, _⟩ := hs
            simp [closeBody, Host.setStage]
    · simp at hs
  | recv s q d u da =>
    simp only [step] at hs
    split at hs
    · simp at hs
    · simp only [Option.some.injEq, Prod.mk.injEq] at hs
      obtain ⟨rfl, _⟩ := hs
      exact hr
  | outqFire r =>
    simp only [step] at hs
    split at hs
    · simp at hs
    · simp only [Option.some.injEq, Prod.mk.injEq] at hs
      obtain ⟨rfl, _⟩ := hs
      exact hr
  | tcFire s q ti =>
    simp only [step] at hs
    split at hs
    · simp at hs
    · simp only [Option.some.injEq, Prod.mk.injEq] at hs
      obtain ⟨rfl, _⟩ := hs
      exact hr
    · simp only [Option.some.injEq, Prod.mk.injEq] at hs
      obtain ⟨rfl, _⟩ := hs
      exact hr
  | connectionLost =>
    simp only [step] at hs
    split at hs
    · simp at hs
    · simp only [Option.some.injEq, Prod.mk.injEq] at hs
      obtain ⟨rfl, _⟩ := hs
      exact hr
  | schedFire i q =>
    simp only [step] at hs
    split at hs
    · simp at hs
    · split at hs
      · simp at hs
      · split at hs <;>
        · simp only [Option.some.injEq, Prod.mk.injEq] at hs
          obtain ⟨rfl, _⟩ := hs
          exact hr
  | cleanupFire e =>
    simp only [step] at hs
    split at hs
    · simp at hs
    · simp only [Option.some.injEq, Prod.mk.injEq] at hs
      obtain ⟨rfl, _⟩ := hs
      exact hr
  | announceStep l =>
    simp only [step] at hs
    split at hs
    · simp at hs
    · simp only [Option.some.injEq, Prod.mk.injEq] at hs
      obtain ⟨rfl, _⟩ := hs
      split <;> exact hr
  | lookupStep s f =>
    simp only [step] at hs
    split at hs
    · simp at hs
    · simp only [Option.some.injEq, Prod.mk.injEq] at hs
      obtain ⟨rfl, _⟩ := hs
      split <;> exact hr
  | startUp =>
    simp only [step] at hs
    split at hs
    · simp at hs
    · simp only [Option.some.injEq, Prod.mk.injEq] at hs
      obtain ⟨rfl, _⟩ := hs
      exact hr
  | apiCall k =>
    simp only [step] at hs
    split at hs
    · simp only [Option.some.injEq, Prod.mk.injEq] at hs
      obtain ⟨rfl, _⟩ := hs
      exact hr
    · split at hs
      · simp at hs
      · cases k <;>
        · simp only [Option.some.injEq, Prod.mk.injEq] at hs
          obtain ⟨rfl, _⟩ := hs
          exact hr
  | closeGoodbye i =>
    simp only [step] at hs
    split at hs
    · simp only [Option.some.injEq, Prod.mk.injEq] at hs
      obtain ⟨rfl, _⟩ := hs
      simpa [Host.setStage] using hr
    · simp at hs
  | closeMarkDone i =>
    simp only [step] at hs
    split at hs
    · simp only [Option.some.injEq, Prod.mk.injEq] at hs
      obtain ⟨rfl, _⟩ := hs
      simpa [Host.setStage] using hr
    · simp at hs
  | closeShutdown i =>
    simp only [step] at hs
    split at hs
    · simp only [Option.some.injEq, Prod.mk.injEq] at hs
      obtain ⟨rfl, _⟩ := hs
      simpa [Host.setStage] using hr
    · simp only [Option.some.injEq, Prod.mk.injEq] at hs
      obtain ⟨rfl, _⟩ := hs
      simpa [Host.setStage] using hr
    · simp at hs
  | closeFinish i =>
    simp only [step] at hs
    split at hs
    · simp only [Option.some.injEq, Prod.mk.injEq] at hs
      obtain ⟨rfl, _⟩ := hs
      simpa [Host.setStage] using hr
    · simp at hs
  | closeAbort i =>
    simp only [step] at hs
    split at hs
    all_goals first
      | (simp only [Option.some.injEq, Prod.mk.injEq] at hs
         obtain ⟨rfl, _⟩ := hs
         simpa [Host.setStage] using hr)
      | simp at hs

theorem noCompletion_run (bs : List Block) (hb : ∀ b ∈ bs, b.noCompletion = true) :
    ∀ (h h' : Host) (o : List Out), run h bs = some (h', o) → h.registry = 0 → h'.registry = 0 := by
  induction bs with
  | nil =>
    intro h h' o hr h0
    simp only [run, Option.some.injEq, Prod.mk.injEq] at hr
    obtain ⟨rfl, _⟩ := hr
    exact h0
  | cons b rest ih =>
    intro h h' o hr h0
    obtain ⟨s1, o1, o2, h1, h2, _⟩ := run_cons h b rest h' o hr
    exact ih (fun x hx => hb x (by simp [hx])) s1 h' o2 h2 (noCompletion_registry h b (hb b (by simp)) s1 o1 h1 h0)

theorem getElem?_zero_set_ne (l : List Close) (i : Nat) (x : Close) (hi : i ≠ 0) : (l.set i x)[0]? = l[0]? := by
  cases l with
  | nil => simp
  | cons a r =>
    cases i with
    | zero => exact absurd rfl hi
    | succ j => simp [List.set]

theorem getElem?_zero_append (l : List Close) (x c : Close) (h0 : l[0]? = some c) : (l ++ [x])[0]? = some c := by
  cases l with
  | nil => simp at h0
  | cons a r => simpa using h0

/-- the frame of a `mid` block around close `0` -/
theorem mid_step (h : Host) (b : Block) (hb : b.mid = true) (nog : ∀ i, b ≠ .closeGoodbye i) (c0 : Close)
    (h0 : h.closes[0]? = some c0) (hreg : h.registry = 0) (h' : Host) (o : List Out) (hs : step h b = some (h', o)) :
    h'.done = h.done ∧ h'.transportsClosed = h.transportsClosed ∧ h'.registry = 0 ∧ h'.closes[0]? = some c0
      ∧ count isGoodbye o = 0 := by
  have hbody : ∀ s, count isGoodbye (closeBody h s).2.1 = 0 := by
    intro s; simp [closeBody, hreg, count]
  cases b with
  | recv s q d u da =>
    simp only [step] at hs
    split at hs
    · simp at hs
    · simp only [Option.some.injEq, Prod.mk.injEq] at hs
      obtain ⟨rfl, rfl⟩ := hs
      refine ⟨rfl, rfl, hreg, h0, ?_⟩
      rw [count_append, gated_no_goodbye h _ (count_replicate_send s), count_notify]
  | outqFire r =>
    simp only [step] at hs
    split at hs
    · simp at hs
    · simp only [Option.some.injEq, Prod.mk.injEq] at hs
      obtain ⟨rfl, rfl⟩ := hs
      refine ⟨rfl, rfl, hreg, h0, gated_no_goodbye h _ ?_⟩
      split <;> simp [count, isGoodbye]
  | tcFire s q ti =>
    simp only [step] at hs
    split at hs
    · simp at hs
    · simp only [Option.some.injEq, Prod.mk.injEq] at hs
      obtain ⟨rfl, rfl⟩ := hs
      exact ⟨rfl, rfl, hreg, h0, rfl⟩
    · simp only [Option.some.injEq, Prod.mk.injEq] at hs
      obtain ⟨rfl, rfl⟩ := hs
      exact ⟨rfl, rfl, hreg, h0, gated_no_goodbye h _ (count_replicate_send s)⟩
  | connectionLost =>
    simp only [step] at hs
    split at hs
    · simp at hs
    · simp only [Option.some.injEq, Prod.mk.injEq] at hs
      obtain ⟨rfl, rfl⟩ := hs
      exact ⟨rfl, rfl, hreg, h0, rfl⟩
  | schedFire i q =>
    simp only [step] at hs
    split at hs
    · simp at hs
    · split at hs
      · simp at hs
      · split at hs
        · simp only [Option.some.injEq, Prod.mk.injEq] at hs
          obtain ⟨rfl, rfl⟩ := hs
          exact ⟨rfl, rfl, hreg, h0, rfl⟩
        · simp only [Option.some.injEq, Prod.mk.injEq] at hs
          obtain ⟨rfl, rfl⟩ := hs
          exact ⟨rfl, rfl, hreg, h0, gated_no_goodbye h _ (count_replicate_send q)⟩
  | cleanupFire e =>
    simp only [step] at hs
    split at hs
    · simp at hs
    · simp only [Option.some.injEq, Prod.mk.injEq] at hs
      obtain ⟨rfl, rfl⟩ := hs
      exact ⟨rfl, rfl, hreg, h0, count_notify h e⟩
  | probeStep l =>
    cases l with
    | true => simp [Block.mid] at hb
    | false =>
      simp only [step] at hs
      split at hs
      · simp at hs
      · simp only [Bool.false_eq_true, ↓reduceIte, Option.some.injEq, Prod.mk.injEq] at hs
        obtain ⟨rfl, rfl⟩ := hs
        exact ⟨rfl, rfl, hreg, h0, gated_no_goodbye h _ (by simp [count, isGoodbye])⟩
  | announceStep l =>
    simp only [step] at hs
    split at hs
    · simp at hs
    · simp only [Option.some.injEq, Prod.mk.injEq] at hs
      obtain ⟨rfl, rfl⟩ := hs
      refine ⟨?_, ?_, ?_, ?_, gated_no_goodbye h _ (by simp [count, isGoodbye])⟩ <;> split <;> first | rfl | exact hreg | exact h0
  | lookupStep s f =>
    simp only [step] at hs
    split at hs
    · simp at hs
    · simp only [Option.some.injEq, Prod.mk.injEq] at hs
      obtain ⟨rfl, rfl⟩ := hs
      refine ⟨?_, ?_, ?_, ?_, gated_no_goodbye h _ (count_replicate_send s)⟩ <;> split <;> first | rfl | exact hreg | exact h0
  | startUp =>
    simp only [step] at hs
    split at hs
    · simp at hs
    · simp only [Option.some.injEq, Prod.mk.injEq] at hs
      obtain ⟨rfl, rfl⟩ := hs
      exact ⟨rfl, rfl, hreg, h0, rfl⟩
  | apiCall k =>
    simp only [step] at hs
    split at hs
    · simp only [Option.some.injEq, Prod.mk.injEq] at hs
      obtain ⟨rfl, rfl⟩ := hs
      exact ⟨rfl, rfl, hreg, h0, rfl⟩
    · split at hs
      · simp at hs
      · cases k <;>
        · simp only [Option.some.injEq, Prod.mk.injEq] at hs
          obtain ⟨rfl, rfl⟩ := hs
          exact ⟨rfl, rfl, hreg, h0, rfl⟩
  | apiBrowse tr rp =>
    simp only [step, Option.some.injEq, Prod.mk.injEq] at hs
    obtain ⟨rfl, rfl⟩ := hs
    refine ⟨rfl, rfl, hreg, h0, ?_⟩
    induction rp with
    | zero => rfl
    | succ k ih => simp_all [count, List.replicate_succ, isGoodbye]
  | closeCall sync =>
    simp only [step] at hs
    split at hs
    · simp only [Option.some.injEq, Prod.mk.injEq] at hs
      obtain ⟨rfl, rfl⟩ := hs
      exact ⟨rfl, rfl, hreg, getElem?_zero_append _ _ _ h0, rfl⟩
    · simp only [Option.some.injEq, Prod.mk.injEq] at hs
      obtain ⟨rfl, rfl⟩ := hs
      refine ⟨by simp [closeBody], by simp [closeBody], by simp [closeBody], ?_, hbody _⟩
      exact getElem?_zero_append _ _ _ h0
  | closeWake i t =>
    have hi : i ≠ 0 := by simpa [Block.mid] using hb
    simp only [step] at hs
    split at hs
    · split at hs
      · simp only [Option.some.injEq, Prod.mk.injEq] at hs
        obtain ⟨rfl, rfl⟩ := hs
        refine ⟨by simp [closeBody, Host.setStage], by simp [closeBody, Host.setStage], by simp [closeBody, Host.setStage], ?_, hbody _⟩
        simp only [Host.setStage, closeBody]
        rw [getElem?_zero_set_ne _ _ _ hi]; exact h0
      · split at hs
        · simp at hs
        · split at hs
          · simp only [Option.some.injEq, Prod.mk.injEq] at hs
            obtain ⟨rfl, rfl⟩ := hs
            refine ⟨rfl, rfl, hreg, ?_, rfl⟩
            simp only [Host.setStage]
            rw [getElem?_zero_set_ne _ _ _ hi]; exact h0
          · simp only [Option.some.injEq, Prod.mk.injEq] at hs
            obtain ⟨rfl, rfl⟩ := hs
            refine ⟨by simp [closeBody, Host.setStage], by simp [closeBody, Host.setStage], by simp [closeBody, Host.setStage], ?_, hbody _⟩
            simp only [Host.setStage, closeBody]
            rw [getElem?_zero_set_ne _ _ _ hi]; exact h0
    · simp at hs
  | closeGoodbye i => exact absurd rfl (nog i)
  | closeMarkDone i => simp [Block.mid] at hb
  | closeShutdown i => simp [Block.mid] at hb
  | closeFinish i =>
    have hi : i ≠ 0 := by simpa [Block.mid] using hb
    simp only [step] at hs
    split at hs
    · simp only [Option.some.injEq, Prod.mk.injEq] at hs
      obtain ⟨rfl, rfl⟩ := hs
      refine ⟨rfl, rfl, hreg, ?_, rfl⟩
      simp only [Host.setStage]
      rw [getElem?_zero_set_ne _ _ _ hi]; exact h0
    · simp at hs
  | closeAbort i =>
    have hi : i ≠ 0 := by simpa [Block.mid] using hb
    simp only [step] at hs
    split at hs
    all_goals first
      | (simp only [Option.some.injEq, Prod.mk.injEq] at hs
         obtain ⟨rfl, rfl⟩ := hs
         refine ⟨rfl, rfl, hreg, ?_, by simp [count, isGoodbye]⟩
         simp only [Host.setStage]
         rw [getElem?_zero_set_ne _ _ _ hi]; exact h0)
      | simp at hs

theorem mid_run (bs : List Block) (hb : ∀ b ∈ bs, b.mid3 = true) (c0 : Close) :
    ∀ (h h' : Host) (o : List Out), run h bs = some (h', o) → h.closes[0]? = some c0 → h.registry = 0 →
      h'.done = h.done ∧ h'.transportsClosed = h.transportsClosed ∧ h'.registry = 0 ∧ h'.closes[0]? = some c0
        ∧ count isGoodbye o = 0 := by
  induction bs with
  | nil =>
    intro h h' o hr h0 hreg
    simp only [run, Option.some.injEq, Prod.mk.injEq] at hr
    obtain ⟨rfl, rfl⟩ := hr
    exact ⟨rfl, rfl, hreg, h0, rfl⟩
  | cons b rest ih =>
    intro h h' o hr h0 hreg
    obtain ⟨s1, o1, o2, h1, h2, rfl⟩ := run_cons h b rest h' o hr
    have hb1 := hb b (by simp)
    simp only [Block.mid3, Bool.and_eq_true] at hb1
    have nog : ∀ i, b ≠ .closeGoodbye i := by
      intro i e; rw [e] at hb1; simp at hb1
    obtain ⟨a1, a2, a3, a4, a5⟩ := mid_step h b hb1.1 nog c0 h0 hreg s1 o1 h1
    obtain ⟨b1, b2, b3, b4, b5⟩ := ih (fun x hx => hb x (by simp [hx])) s1 h' o2 h2 a4 a3
    exact ⟨b1.trans a1, b2.trans a2, b3, b4, by rw [count_append, a5, b5]⟩

/-! ### timers that outlive a close: the TC deferral timers -/

theorem tcs_step (h : Host) (b : Block) (h' : Host) (o : List Out) (hs : step h b = some (h', o)) :
    h'.tcs = h.tcs ∨ (∃ i, h'.tcs = deferOne h.tcs i) ∨ (∃ i, h'.tcs = h.tcs.eraseIdx i) := by
  cases b <;> simp only [step] at hs <;> (repeat' split at hs) <;>
    first
    | (simp at hs; done)
    | (simp only [Option.some.injEq, Prod.mk.injEq] at hs
       obtain ⟨rfl, _⟩ := hs
       first
       | exact Or.inl rfl
       | exact Or.inl (tcsAfterConnectionLost_eq _)
       | exact Or.inr (Or.inl ⟨_, rfl⟩)
       | exact Or.inr (Or.inr ⟨_, rfl⟩)
       | (simp only [closeBody, Host.setStage]; exact Or.inl rfl))

theorem deferOne_pos (l : List Nat) (i : Nat) (hl : ∀ n ∈ l, 0 < n) : ∀ n ∈ deferOne l i, 0 < n := by
  intro n hn
  unfold deferOne at hn
  split at hn
  · rw [List.mem_iff_getElem?] at hn
    obtain ⟨j, hj⟩ := hn
    rw [List.getElem?_modify] at hj
    cases hlj : l[j]? with
    | none => simp [hlj] at hj
    | some v =>
      have hv := hl v (List.mem_of_getElem? hlj)
      simp [hlj] at hj
      rw [← hj]
      split <;> omega
  · simp only [List.mem_append, List.mem_singleton] at hn
    rcases hn with hn | rfl
    · exact hl n hn
    · omega

/-- `TcInv` is preserved by every block: arrivals only add packets, a firing timer removes its own entry, and
`connection_lost` touches nothing (translated leaf) -/
theorem TcInv_step (h : Host) (b : Block) (h' : Host) (o : List Out) (hi : TcInv h) (hs : step h b = some (h', o)) : TcInv h' := by
  rcases tcs_step h b h' o hs with e | ⟨i, e⟩ | ⟨i, e⟩
  · intro n hn; exact hi n (e ▸ hn)
  · intro n hn; rw [e] at hn; exact deferOne_pos _ _ hi n hn
  · intro n hn; rw [e] at hn; exact hi n (List.mem_of_mem_eraseIdx hn)

theorem TcInv_run (bs : List Block) : ∀ (h h' : Host) (o : List Out), TcInv h → run h bs = some (h', o) → TcInv h' := by
  induction bs with
  | nil =>
    intro h h' o hi hr
    simp only [run, Option.some.injEq, Prod.mk.injEq] at hr
    obtain ⟨rfl, _⟩ := hr
    exact hi
  | cons b rest ih =>
    intro h h' o hi hr
    obtain ⟨s1, o1, o2, h1, h2, _⟩ := run_cons h b rest h' o hr
    exact ih s1 h' o2 (TcInv_step h b s1 o1 hi h1) h2

theorem not_loopError_gated (h : Host) (l : List Out) (hl : Out.loopError ∉ l) : Out.loopError ∉ gated h l := by
  rcases gated_sub h l with g | g <;> rw [g]
  · simp
  · exact hl

theorem not_loopError_replicate (n : Nat) (x : Out) (hx : x ≠ .loopError) : Out.loopError ∉ List.replicate n x := by
  intro hm
  exact hx (List.eq_of_mem_replicate hm).symm

theorem not_loopError_notify (h : Host) (u : Bool) : Out.loopError ∉ notify h u := by
  intro hm
  unfold notify at hm
  split at hm
  · simp only [List.mem_append, List.mem_map, List.mem_replicate] at hm
    rcases hm with ⟨_, _, hh⟩ | ⟨_, hh⟩ <;> cases hh
  · simp at hm

theorem loopError_site (h : Host) (b : Block) (h' : Host) (o : List Out) (hs : step h b = some (h', o))
    (he : Out.loopError ∈ o) : ∃ s q i, b = .tcFire s q i ∧ h.tcs[i]? = some 0 := by
  have hsend : ∀ n, Out.loopError ∉ gated h (List.replicate n Out.send) :=
    fun n => not_loopError_gated h _ (not_loopError_replicate n _ (by intro hh; cases hh))
  have hone : ∀ y : Out, y ≠ .loopError → Out.loopError ∉ gated h [y] := by
    intro y hy
    exact not_loopError_gated h _ (by simpa using Ne.symm hy)
  have hbody : ∀ s, Out.loopError ∉ (closeBody h s).2.1 := by
    intro s hm
    simp only [closeBody] at hm
    split at hm
    · simp at hm
    · exact hone .goodbye (by intro hh; cases hh) hm
  cases b <;> simp only [step] at hs <;> (repeat' split at hs) <;>
    first
    | (simp at hs; done)
    | (simp only [Option.some.injEq, Prod.mk.injEq] at hs
       obtain ⟨_, rfl⟩ := hs
       first
       | exact ⟨_, _, _, rfl, by assumption⟩
       | (exfalso
          first
          | (simp at he; done)
          | exact hsend _ he
          | exact hbody _ he
          | exact not_loopError_notify _ _ he
          | exact hone _ (by intro hh; cases hh) he
          | (rcases List.mem_append.mp he with hm | hm
             · exact hsend _ hm
             · exact not_loopError_notify _ _ hm)
          | exact not_loopError_gated h _ (by simp) he
          | exact not_loopError_replicate _ _ (by intro hh; cases hh) he))

/-! ### every close call makes progress, and nobody else moves its program counter -/

theorem closes_step (h : Host) (b : Block) (h' : Host) (o : List Out) (hs : step h b = some (h', o)) :
    h'.closes = h.closes ∨ (∃ c, h'.closes = h.closes ++ [c]) ∨ (∃ i c, b.closeIndex = some i ∧ h'.closes = h.closes.set i c) := by
  cases b <;> simp only [step] at hs <;> (repeat' split at hs) <;>
    first
    | (simp at hs; done)
    | (simp only [Option.some.injEq, Prod.mk.injEq] at hs
       obtain ⟨rfl, _⟩ := hs
       first
       | exact Or.inl rfl
       | exact Or.inr (Or.inl ⟨_, rfl⟩)
       | exact Or.inr (Or.inr ⟨_, _, rfl, rfl⟩)
       | (simp only [closeBody, Host.setStage]
          first
          | exact Or.inl rfl
          | exact Or.inr (Or.inl ⟨_, rfl⟩)
          | exact Or.inr (Or.inr ⟨_, _, rfl, rfl⟩)))

/-- blocks that are not steps of close `k` leave its program counter alone -/
theorem closes_frame (h : Host) (b : Block) (h' : Host) (o : List Out) (hs : step h b = some (h', o)) (k : Nat)
    (hb : b.closeIndex ≠ some k) (hk : k < h.closes.length) : h'.closes[k]? = h.closes[k]? := by
  rcases closes_step h b h' o hs with e | ⟨c, e⟩ | ⟨i, c, hi, e⟩
  · rw [e]
  · rw [e, List.getElem?_append_left hk]
  · rw [e]
    have : i ≠ k := fun hh => hb (hh ▸ hi)
    simp [this]

/-- **progress**: whatever the rest of the host is doing, the next block of a close call that has not ended is
enabled, and it moves that call strictly closer to its end -/
theorem close_progress (h : Host) (k : Nat) (c : Close) (b : Block) (hc : h.closes[k]? = some c) (hn : c.next k = some b) :
    ∃ h' o c', step h b = some (h', o) ∧ h'.closes[k]? = some c' ∧ c'.rank < c.rank := by
  obtain ⟨hlt, hget⟩ := List.getElem?_eq_some_iff.mp hc
  obtain ⟨sync, st⟩ := c
  cases st with
  | waitingStart =>
    cases sync with
    | true => simp [Close.next] at hn
    | false =>
      simp only [Close.next, Option.some.injEq] at hn
      subst hn
      refine ⟨(closeBody h false).1.setStage k false (closeBody h false).2.2, (closeBody h false).2.1,
        ⟨false, (closeBody h false).2.2⟩, by simp [step, hc], by simp [Host.setStage, closeBody, hlt], ?_⟩
      simp only [closeBody, Close.rank, moreGoodbyes, register_broadcasts]
      split <;> omega
  | unregistering n =>
    cases n with
    | zero =>
      cases sync with
      | true =>
        simp only [Close.next, Option.some.injEq] at hn
        subst hn
        exact ⟨{ h.setStage k true .doneSet with done := true }, [], ⟨true, .doneSet⟩, by simp [step, hc],
          by simp [Host.setStage, hlt], by simp [Close.rank]⟩
      | false =>
        simp only [Close.next, Option.some.injEq] at hn
        subst hn
        exact ⟨{ h.setStage k false .shutdown with done := true, running := false, transportsClosed := transportsAfterShutdown h.transportsClosed },
          [], ⟨false, .shutdown⟩,
          by simp [step, hc], by simp [Host.setStage, hlt], by simp [Close.rank]⟩
    | succ m =>
      simp only [Close.next, Option.some.injEq] at hn
      subst hn
      exact ⟨h.setStage k sync (.unregistering m), gated h [.goodbye], ⟨sync, .unregistering m⟩, by simp [step, hc],
        by simp [Host.setStage, hlt], by simp [Close.rank]⟩
  | doneSet =>
    cases sync with
    | true =>
      simp only [Close.next, Option.some.injEq] at hn
      subst hn
      exact ⟨{ h.setStage k true .shutdown with running := false, transportsClosed := transportsAfterShutdown h.transportsClosed },
        [], ⟨true, .shutdown⟩, by simp [step, hc], by simp [Host.setStage, hlt], by simp [Close.rank]⟩
    | false => simp [Close.next] at hn
  | shutdown =>
    have hn' : b = .closeFinish k := by cases sync <;> simpa [Close.next] using hn.symm
    subst hn'
    exact ⟨{ h.setStage k sync .returned with cleanupArmed := cleanupAfterClose h.cleanupArmed }, [], ⟨sync, .returned⟩,
      by simp [step, hc], by simp [Host.setStage, hlt], by simp [Close.rank]⟩
  | returned => cases sync <;> simp [Close.next] at hn
  | aborted => cases sync <;> simp [Close.next] at hn

end Zc.Shutdown
