import Zc.Model.Shutdown
import Zc.GenFacts.Shutdown
/-! Helper lemmas for C17: the send gate, the frame of interleaved blocks, `run` over appended histories. -/
namespace Zc.Shutdown
open Zc.GenFacts.Shutdown

theorem gated_of_done (h : Host) (hd : h.done = true) (o : List Out) : gated h o = [] := by
  simp [gated, hd, send_blocked_of_done]

theorem gated_of_not_done (h : Host) (hd : h.done = false) (o : List Out) : gated h o = o := by
  simp [gated, hd, send_open_of_not_done]

theorem gated_no_goodbye (h : Host) (l : List Out) (hl : count isGoodbye l = 0) : count isGoodbye (gated h l) = 0 := by
  unfold gated
  split
  · rfl
  · exact hl

theorem count_replicate_send (n : Nat) : count isGoodbye (List.replicate n Out.send) = 0 := by
  induction n with
  | zero => rfl
  | succ k ih => simp_all [count, List.replicate_succ, isGoodbye]

theorem count_notify (h : Host) (u : Bool) : count isGoodbye (notify h u) = 0 := by
  unfold notify count
  split
  · rw [List.filter_eq_nil_iff.mpr]
    · rfl
    · intro a ha
      simp only [List.mem_append, List.mem_map, List.mem_replicate] at ha
      rcases ha with ⟨_, _, rfl⟩ | ⟨_, rfl⟩ <;> simp [isGoodbye]
  · rfl

theorem count_append (p : Out → Bool) (a b : List Out) : count p (a ++ b) = count p a + count p b := by
  simp [count, List.filter_append]

/-- the frame of a mid block: it cannot touch the flags the close depends on, nor the registry, nor emit a goodbye -/
theorem mid_step (h : Host) (b : Block) (hb : b.mid = true) (h' : Host) (o : List Out) (hs : step h b = some (h', o)) :
    h'.done = h.done ∧ h'.stage = h.stage ∧ h'.registry = h.registry ∧ h'.transportsClosed = h.transportsClosed
      ∧ count isGoodbye o = 0 := by
  cases b with
  | recv s q d u =>
    simp only [step] at hs
    split at hs
    · simp at hs
    · simp only [Option.some.injEq, Prod.mk.injEq] at hs
      obtain ⟨rfl, rfl⟩ := hs
      refine ⟨rfl, rfl, rfl, rfl, ?_⟩
      rw [count_append, gated_no_goodbye h _ (count_replicate_send s), count_notify]
  | outqFire r =>
    simp only [step] at hs
    split at hs
    · simp at hs
    · simp only [Option.some.injEq, Prod.mk.injEq] at hs
      obtain ⟨rfl, rfl⟩ := hs
      refine ⟨rfl, rfl, rfl, rfl, gated_no_goodbye h _ ?_⟩
      split <;> simp [count, isGoodbye]
  | tcFire s q =>
    simp only [step] at hs
    split at hs
    · simp at hs
    · simp only [Option.some.injEq, Prod.mk.injEq] at hs
      obtain ⟨rfl, rfl⟩ := hs
      exact ⟨rfl, rfl, rfl, rfl, gated_no_goodbye h _ (count_replicate_send s)⟩
  | schedFire i q =>
    simp only [step] at hs
    split at hs
    · simp at hs
    · split at hs
      · simp at hs
      · split at hs
        · simp only [Option.some.injEq, Prod.mk.injEq] at hs
          obtain ⟨rfl, rfl⟩ := hs
          exact ⟨rfl, rfl, rfl, rfl, rfl⟩
        · simp only [Option.some.injEq, Prod.mk.injEq] at hs
          obtain ⟨rfl, rfl⟩ := hs
          exact ⟨rfl, rfl, rfl, rfl, gated_no_goodbye h _ (count_replicate_send q)⟩
  | cleanupFire e =>
    simp only [step] at hs
    split at hs
    · simp at hs
    · simp only [Option.some.injEq, Prod.mk.injEq] at hs
      obtain ⟨rfl, rfl⟩ := hs
      exact ⟨rfl, rfl, rfl, rfl, count_notify h e⟩
  | probeStep l =>
    cases l with
    | true => simp [Block.mid] at hb
    | false =>
      simp only [step] at hs
      split at hs
      · simp at hs
      · simp only [Bool.false_eq_true, ↓reduceIte, Option.some.injEq, Prod.mk.injEq] at hs
        obtain ⟨rfl, rfl⟩ := hs
        exact ⟨rfl, rfl, rfl, rfl, gated_no_goodbye h _ (by simp [count, isGoodbye])⟩
  | announceStep l =>
    simp only [step] at hs
    split at hs
    · simp at hs
    · simp only [Option.some.injEq, Prod.mk.injEq] at hs
      obtain ⟨rfl, rfl⟩ := hs
      refine ⟨?_, ?_, ?_, ?_, gated_no_goodbye h _ (by simp [count, isGoodbye])⟩ <;> split <;> rfl
  | lookupStep s f =>
    simp only [step] at hs
    split at hs
    · simp at hs
    · simp only [Option.some.injEq, Prod.mk.injEq] at hs
      obtain ⟨rfl, rfl⟩ := hs
      refine ⟨?_, ?_, ?_, ?_, gated_no_goodbye h _ (count_replicate_send s)⟩ <;> split <;> rfl
  | closeCall => simp [Block.mid] at hb
  | closeGoodbye => simp [Block.mid] at hb
  | closeShutdown => simp [Block.mid] at hb
  | closeFinish => simp [Block.mid] at hb

theorem mid_run (bs : List Block) (hb : ∀ b ∈ bs, b.mid = true) :
    ∀ (h h' : Host) (o : List Out), run h bs = some (h', o) →
      h'.done = h.done ∧ h'.stage = h.stage ∧ h'.registry = h.registry ∧ h'.transportsClosed = h.transportsClosed
        ∧ count isGoodbye o = 0 := by
  induction bs with
  | nil =>
    intro h h' o hr
    simp only [run, Option.some.injEq, Prod.mk.injEq] at hr
    obtain ⟨rfl, rfl⟩ := hr
    exact ⟨rfl, rfl, rfl, rfl, rfl⟩
  | cons b rest ih =>
    intro h h' o hr
    simp only [run, bind, Option.bind] at hr
    cases h1 : step h b with
    | none => simp [h1] at hr
    | some v1 =>
      obtain ⟨s1, o1⟩ := v1
      simp only [h1] at hr
      cases h2 : run s1 rest with
      | none => simp [h2] at hr
      | some v2 =>
        obtain ⟨s2, o2⟩ := v2
        simp only [h2, pure, Option.some.injEq, Prod.mk.injEq] at hr
        obtain ⟨rfl, rfl⟩ := hr
        obtain ⟨a1, a2, a3, a4, a5⟩ := mid_step h b (hb b (by simp)) s1 o1 h1
        obtain ⟨b1, b2, b3, b4, b5⟩ := ih (fun x hx => hb x (by simp [hx])) s1 s2 o2 h2
        exact ⟨b1.trans a1, b2.trans a2, b3.trans a3, b4.trans a4, by rw [count_append, a5, b5]⟩

theorem run_append (a b : List Block) : ∀ h : Host,
    run h (a ++ b) = (run h a).bind (fun r => (run r.1 b).bind (fun r2 => some (r2.1, r.2 ++ r2.2))) := by
  induction a with
  | nil =>
    intro h
    simp only [List.nil_append, run, Option.bind]
    cases run h b <;> simp
  | cons x rest ih =>
    intro h
    simp only [List.cons_append, run, bind, Option.bind]
    cases step h x with
    | none => rfl
    | some v =>
      simp only [ih]
      cases run v.1 rest with
      | none => rfl
      | some w =>
        simp only [Option.bind, pure]
        cases run w.1 b with
        | none => rfl
        | some z => simp [List.append_assoc]

/-- one close block followed by mid blocks -/
theorem run_cons_mid (h : Host) (c : Block) (m : List Block) (h' : Host) (o : List Out)
    (hr : run h (c :: m) = some (h', o)) :
    ∃ h1 o1 o2, step h c = some (h1, o1) ∧ run h1 m = some (h', o2) ∧ o = o1 ++ o2 := by
  simp only [run, bind, Option.bind] at hr
  cases h1 : step h c with
  | none => simp [h1] at hr
  | some v1 =>
    obtain ⟨s1, o1⟩ := v1
    simp only [h1] at hr
    cases h2 : run s1 m with
    | none => simp [h2] at hr
    | some v2 =>
      obtain ⟨s2, o2⟩ := v2
      simp only [h2, pure, Option.some.injEq, Prod.mk.injEq] at hr
      obtain ⟨rfl, rfl⟩ := hr
      exact ⟨s1, o1, o2, rfl, h2, rfl⟩

end Zc.Shutdown
