import Zc.Model.Shutdown
import Zc.GenFacts.Shutdown
/-! Helper lemmas for C17: the send gate, what one block can do to the flags and to the list of close calls
(`step_summary`), the frame of blocks interleaved with a close, `run` over appended histories. -/
namespace Zc.Shutdown
open Zc.GenFacts.Shutdown

theorem gated_of_done (h : Host) (hd : h.done = true) (o : List Out) : gated h o = [] := by
  simp [gated, hd, send_blocked_of_done]

theorem gated_of_not_done (h : Host) (hd : h.done = false) (o : List Out) : gated h o = o := by
  simp [gated, hd, send_open_of_not_done]

/-- on the repaired tree a woken close never raises -/
theorem wakeRaises_suppressed (r d : Bool) : wakeRaises Gen.Shutdown.close_wait_suppresses_not_running r d = false := by
  simp [wakeRaises, close_wait_suppresses_not_running_holds]

theorem gated_sub (h : Host) (l : List Out) : gated h l = [] ∨ gated h l = l := by
  unfold gated
  split
  · exact Or.inl rfl
  · exact Or.inr rfl

theorem gated_no_goodbye (h : Host) (l : List Out) (hl : count isGoodbye l = 0) : count isGoodbye (gated h l) = 0 := by
  rcases gated_sub h l with e | e <;> rw [e]
  · rfl
  · exact hl

theorem count_replicate_send (n : Nat) : count isGoodbye (List.replicate n Out.send) = 0 := by
  induction n with
  | zero => rfl
  | succ k ih => simp_all [count, List.replicate_succ, isGoodbye]

theorem count_notify (h : Host) (u : Bool) : count isGoodbye (notify h u) = 0 := by
  unfold notify count
  split
  · rw [List.filter_eq_nil_iff.mpr]
    · rfl
    · intro a ha
      simp only [List.mem_append, List.mem_map, List.mem_replicate] at ha
      rcases ha with ⟨_, _, rfl⟩ | ⟨_, rfl⟩ <;> simp [isGoodbye]
  · rfl

theorem count_append (p : Out → Bool) (a b : List Out) : count p (a ++ b) = count p a + count p b := by
  simp [count, List.filter_append]

/-! ### the list of close calls -/

theorem mem_setStage {h : Host} {i : Nat} {s : Bool} {st : CStage} {c : Close}
    (hc : c ∈ (h.setStage i s st).closes) : c = ⟨s, st⟩ ∨ c ∈ h.closes := by
  simp only [Host.setStage] at hc
  rcases List.mem_or_eq_of_mem_set hc with hm | he
  · exact Or.inr hm
  · exact Or.inl he

theorem any_set_of_not : ∀ (l : List Close) (i : Nat) (c c' : Close), l[i]? = some c → c.isReturned = false →
    l.any Close.isReturned = true → (l.set i c').any Close.isReturned = true := by
  intro l
  induction l with
  | nil => intro i c c' hi; simp at hi
  | cons x xs ih =>
    intro i c c' hi hc ha
    cases i with
    | zero =>
      simp only [List.getElem?_cons_zero, Option.some.injEq] at hi
      subst hi
      simp only [List.any_cons, hc, Bool.false_or] at ha
      simp [List.set, ha]
    | succ j =>
      simp only [List.getElem?_cons_succ] at hi
      simp only [List.any_cons, Bool.or_eq_true] at ha
      simp only [List.set, List.any_cons, Bool.or_eq_true]
      rcases ha with ha | ha
      · exact Or.inl ha
      · exact Or.inr (ih j c c' hi hc ha)

theorem any_append_of (l : List Close) (x : Close) (h : l.any Close.isReturned = true) :
    (l ++ [x]).any Close.isReturned = true := by
  simp [List.any_append, h]

/-- the three implications of `WF`, for one close call -/
def WFc (h : Host) (c : Close) : Prop :=
  (c.stage = .doneSet → h.done = true) ∧
  (c.stage = .shutdown → h.done = true ∧ h.transportsClosed = true) ∧
  (c.stage = .returned → h.done = true ∧ h.transportsClosed = true ∧ h.cleanupArmed = false)

theorem WF_iff (h : Host) : WF h ↔ ∀ c ∈ h.closes, WFc h c := Iff.rfl

theorem WFc_mono {h h' : Host} {c : Close} (d : h.done = true → h'.done = true)
    (t : h.transportsClosed = true → h'.transportsClosed = true) (u : h.cleanupArmed = false → h'.cleanupArmed = false)
    (w : WFc h c) : WFc h' c :=
  ⟨fun e => d (w.1 e), fun e => ⟨d (w.2.1 e).1, t (w.2.1 e).2⟩,
   fun e => ⟨d (w.2.2 e).1, t (w.2.2 e).2.1, u (w.2.2 e).2.2⟩⟩

/-- what any single block can do to the flags and the close calls -/
structure Summary (h h' : Host) : Prop where
  done_mono : h.done = true → h'.done = true
  tc_mono : h.transportsClosed = true → h'.transportsClosed = true
  cu_mono : h.cleanupArmed = false → h'.cleanupArmed = false
  closes : ∀ c ∈ h'.closes, c ∈ h.closes ∨ WFc h' c
  ret_mono : h.closes.any Close.isReturned = true → h'.closes.any Close.isReturned = true

theorem Summary.same {h h' : Host} (e1 : h'.done = h.done) (e2 : h'.transportsClosed = h.transportsClosed)
    (e3 : h'.cleanupArmed = h.cleanupArmed) (e4 : h'.closes = h.closes) : Summary h h' :=
  ⟨fun x => e1 ▸ x, fun x => e2 ▸ x, fun x => e3 ▸ x, fun c hc => Or.inl (e4 ▸ hc), fun x => e4 ▸ x⟩

theorem closeBody_flags (h : Host) (s : Bool) :
    (closeBody h s).1.done = h.done ∧ (closeBody h s).1.transportsClosed = h.transportsClosed ∧
      (closeBody h s).1.cleanupArmed = h.cleanupArmed ∧ (closeBody h s).1.closes = h.closes ∧
      (closeBody h s).1.registry = 0 ∧ (closeBody h s).1.running = h.running := by
  simp [closeBody]

theorem closeBody_stage (h : Host) (s : Bool) : ∃ k, (closeBody h s).2.2 = .unregistering k := by
  simp [closeBody]

theorem WFc_unreg (h : Host) (s : Bool) (k : Nat) : WFc h ⟨s, .unregistering k⟩ := by
  simp [WFc]

theorem WFc_waiting (h : Host) (s : Bool) : WFc h ⟨s, .waitingStart⟩ := by simp [WFc]
theorem WFc_aborted (h : Host) (s : Bool) : WFc h ⟨s, .aborted⟩ := by simp [WFc]

theorem step_summary (h : Host) (b : Block) (h' : Host) (o : List Out) (hw : WF h) (hs : step h b = some (h', o)) : Summary h h' := by
  cases b with
  | recv s q d u =>
    simp only [step] at hs
    split at hs
    · simp at hs
    · simp only [Option.some.injEq, Prod.mk.injEq] at hs
      obtain ⟨rfl, _⟩ := hs
      exact Summary.same rfl rfl rfl rfl
  | outqFire r =>
    simp only [step] at hs
    split at hs
    · simp at hs
    · simp only [Option.some.injEq, Prod.mk.injEq] at hs
      obtain ⟨rfl, _⟩ := hs
      exact Summary.same rfl rfl rfl rfl
  | tcFire s q =>
    simp only [step] at hs
    split at hs
    · simp at hs
    · simp only [Option.some.injEq, Prod.mk.injEq] at hs
      obtain ⟨rfl, _⟩ := hs
      exact Summary.same rfl rfl rfl rfl
  | schedFire i q =>
    simp only [step] at hs
    split at hs
    · simp at hs
    · split at hs
      · simp at hs
      · split at hs <;>
        · simp only [Option.some.injEq, Prod.mk.injEq] at hs
          obtain ⟨rfl, _⟩ := hs
          exact Summary.same rfl rfl rfl rfl
  | cleanupFire e =>
    simp only [step] at hs
    split at hs
    · simp at hs
    · simp only [Option.some.injEq, Prod.mk.injEq] at hs
      obtain ⟨rfl, _⟩ := hs
      exact Summary.same rfl rfl rfl rfl
  | probeStep l =>
    simp only [step] at hs
    split at hs
    · simp at hs
    · simp only [Option.some.injEq, Prod.mk.injEq] at hs
      obtain ⟨rfl, _⟩ := hs
      split <;> exact Summary.same rfl rfl rfl rfl
  | announceStep l =>
    simp only [step] at hs
    split at hs
    · simp at hs
    · simp only [Option.some.injEq, Prod.mk.injEq] at hs
      obtain ⟨rfl, _⟩ := hs
      split <;> exact Summary.same rfl rfl rfl rfl
  | lookupStep s f =>
    simp only [step] at hs
    split at hs
    · simp at hs
    · simp only [Option.some.injEq, Prod.mk.injEq] at hs
      obtain ⟨rfl, _⟩ := hs
      split <;> exact Summary.same rfl rfl rfl rfl
  | startUp =>
    simp only [step] at hs
    split at hs
    · simp at hs
    · simp only [Option.some.injEq, Prod.mk.injEq] at hs
      obtain ⟨rfl, _⟩ := hs
      exact Summary.same rfl rfl rfl rfl
  | apiCall k =>
    simp only [step] at hs
    split at hs
    · simp only [Option.some.injEq, Prod.mk.injEq] at hs
      obtain ⟨rfl, _⟩ := hs
      exact Summary.same rfl rfl rfl rfl
    · split at hs
      · simp at hs
      · cases k <;>
        · simp only [Option.some.injEq, Prod.mk.injEq] at hs
          obtain ⟨rfl, _⟩ := hs
          exact Summary.same rfl rfl rfl rfl
  | closeCall sync =>
    simp only [step] at hs
    split at hs
    · simp only [Option.some.injEq, Prod.mk.injEq] at hs
      obtain ⟨rfl, _⟩ := hs
      refine ⟨id, id, id, ?_, fun x => any_append_of _ _ x⟩
      intro c hc
      simp only [List.mem_append, List.mem_singleton] at hc
      rcases hc with hc | rfl
      · exact Or.inl hc
      · exact Or.inr (WFc_waiting _ _)
    · simp only [Option.some.injEq, Prod.mk.injEq] at hs
      obtain ⟨rfl, _⟩ := hs
      obtain ⟨f1, f2, f3, _, _, _⟩ := closeBody_flags h sync
      obtain ⟨k, hk⟩ := closeBody_stage h sync
      refine ⟨fun x => by simpa [f1] using x, fun x => by simpa [f2] using x, fun x => by simpa [f3] using x, ?_,
        fun x => any_append_of _ _ x⟩
      intro c hc
      simp only [List.mem_append, List.mem_singleton] at hc
      rcases hc with hc | rfl
      · exact Or.inl hc
      · rw [hk]; exact Or.inr (WFc_unreg _ _ _)
  | closeWake i t =>
    simp only [step] at hs
    split at hs
    · rename_i hi
      have hnr : (⟨false, CStage.waitingStart⟩ : Close).isReturned = false := rfl
      have body : ∀ h2 o2, (let r := closeBody h false; some (r.1.setStage i false r.2.2, r.2.1)) = some (h2, o2) → Summary h h2 := by
        intro h2 o2 he
        simp only [Option.some.injEq, Prod.mk.injEq] at he
        obtain ⟨rfl, _⟩ := he
        obtain ⟨f1, f2, f3, f4, _, _⟩ := closeBody_flags h false
        obtain ⟨k, hk⟩ := closeBody_stage h false
        refine ⟨fun x => by simpa [Host.setStage, f1] using x, fun x => by simpa [Host.setStage, f2] using x,
          fun x => by simpa [Host.setStage, f3] using x, ?_, ?_⟩
        · intro c hc
          rcases mem_setStage hc with rfl | hm
          · rw [hk]; exact Or.inr (WFc_unreg _ _ _)
          · exact Or.inl (f4 ▸ hm)
        · intro x
          simp only [Host.setStage, f4]
          exact any_set_of_not _ i _ _ hi hnr x
      split at hs
      · exact body _ _ hs
      · split at hs
        · simp at hs
        · split at hs
          · simp only [Option.some.injEq, Prod.mk.injEq] at hs
            obtain ⟨rfl, _⟩ := hs
            refine ⟨id, id, id, ?_, fun x => any_set_of_not _ i _ _ hi hnr x⟩
            intro c hc
            rcases mem_setStage hc with rfl | hm
            · exact Or.inr (WFc_aborted _ _)
            · exact Or.inl hm
          · exact body _ _ hs
    · simp at hs
  | closeGoodbye i =>
    simp only [step] at hs
    split at hs
    · rename_i sync k hi
      simp only [Option.some.injEq, Prod.mk.injEq] at hs
      obtain ⟨rfl, _⟩ := hs
      refine ⟨id, id, id, ?_, fun x => any_set_of_not _ i _ _ hi rfl x⟩
      intro c hc
      rcases mem_setStage hc with rfl | hm
      · exact Or.inr (WFc_unreg _ _ _)
      · exact Or.inl hm
    · simp at hs
  | closeMarkDone i =>
    simp only [step] at hs
    split at hs
    · rename_i hi
      simp only [Option.some.injEq, Prod.mk.injEq] at hs
      obtain ⟨rfl, _⟩ := hs
      refine ⟨fun _ => rfl, id, id, ?_, fun x => any_set_of_not _ i _ _ hi rfl x⟩
      intro c hc
      rcases mem_setStage hc with rfl | hm
      · exact Or.inr (by simp [WFc])
      · exact Or.inl hm
    · simp at hs
  | closeShutdown i =>
    simp only [step] at hs
    split at hs
    · rename_i hi
      simp only [Option.some.injEq, Prod.mk.injEq] at hs
      obtain ⟨rfl, _⟩ := hs
      refine ⟨fun _ => rfl, fun _ => rfl, id, ?_, fun x => any_set_of_not _ i _ _ hi rfl x⟩
      intro c hc
      rcases mem_setStage hc with rfl | hm
      · exact Or.inr (by simp [WFc])
      · exact Or.inl hm
    · rename_i hi
      simp only [Option.some.injEq, Prod.mk.injEq] at hs
      obtain ⟨rfl, _⟩ := hs
      have hd : h.done = true := (hw _ (List.mem_of_getElem? hi)).1 rfl
      refine ⟨id, fun _ => rfl, id, ?_, fun x => any_set_of_not _ i _ _ hi rfl x⟩
      intro c hc
      rcases mem_setStage hc with rfl | hm
      · exact Or.inr ⟨by simp, fun _ => ⟨hd, rfl⟩, by simp⟩
      · exact Or.inl hm
    · simp at hs
  | closeFinish i =>
    simp only [step] at hs
    split at hs
    · rename_i sync hi
      simp only [Option.some.injEq, Prod.mk.injEq] at hs
      obtain ⟨rfl, _⟩ := hs
      obtain ⟨hd, ht⟩ := (hw _ (List.mem_of_getElem? hi)).2.1 rfl
      refine ⟨id, id, fun _ => rfl, ?_, fun x => any_set_of_not _ i _ _ hi rfl x⟩
      intro c hc
      rcases mem_setStage hc with rfl | hm
      · exact Or.inr ⟨by simp, by simp, fun _ => ⟨hd, ht, rfl⟩⟩
      · exact Or.inl hm
    · simp at hs
  | closeAbort i =>
    simp only [step] at hs
    split at hs
    all_goals first
      | (rename_i hi
         simp only [Option.some.injEq, Prod.mk.injEq] at hs
         obtain ⟨rfl, _⟩ := hs
         refine ⟨id, id, id, ?_, fun x => any_set_of_not _ i _ _ hi rfl x⟩
         intro c hc
         rcases mem_setStage hc with rfl | hm
         · exact Or.inr (WFc_aborted _ _)
         · exact Or.inl hm)
      | simp at hs

/-- `WF` is an invariant of the machine -/
theorem WF_step (h : Host) (b : Block) (h' : Host) (o : List Out) (hw : WF h) (hs : step h b = some (h', o)) : WF h' := by
  have sm := step_summary h b h' o hw hs
  intro c hc
  rcases sm.closes c hc with hm | hn
  · exact WFc_mono sm.done_mono sm.tc_mono sm.cu_mono (hw c hm)
  · exact hn

theorem WF_run (bs : List Block) : ∀ (h h' : Host) (o : List Out), WF h → run h bs = some (h', o) → WF h' := by
  induction bs with
  | nil =>
    intro h h' o hw hr
    simp only [run, Option.some.injEq, Prod.mk.injEq] at hr
    obtain ⟨rfl, _⟩ := hr
    exact hw
  | cons b rest ih =>
    intro h h' o hw hr
    simp only [run, bind, Option.bind] at hr
    cases h1 : step h b with
    | none => simp [h1] at hr
    | some v1 =>
      obtain ⟨s1, o1⟩ := v1
      simp only [h1] at hr
      cases h2 : run s1 rest with
      | none => simp [h2] at hr
      | some v2 =>
        obtain ⟨s2, o2⟩ := v2
        simp only [h2, pure, Option.some.injEq, Prod.mk.injEq] at hr
        obtain ⟨rfl, _⟩ := hr
        exact ih s1 s2 o2 (WF_step h b s1 o1 hw h1) h2

theorem run_append (a b : List Block) : ∀ h : Host,
    run h (a ++ b) = (run h a).bind (fun r => (run r.1 b).bind (fun r2 => some (r2.1, r.2 ++ r2.2))) := by
  induction a with
  | nil =>
    intro h
    simp only [List.nil_append, run, Option.bind]
    cases run h b <;> simp
  | cons x rest ih =>
    intro h
    simp only [List.cons_append, run, bind, Option.bind]
    cases step h x with
    | none => rfl
    | some v =>
      simp only [ih]
      cases run v.1 rest with
      | none => rfl
      | some w =>
        simp only [Option.bind, pure]
        cases run w.1 b with
        | none => rfl
        | some z => simp [List.append_assoc]

/-- one block followed by more -/
theorem run_cons (h : Host) (c : Block) (m : List Block) (h' : Host) (o : List Out)
    (hr : run h (c :: m) = some (h', o)) :
    ∃ h1 o1 o2, step h c = some (h1, o1) ∧ run h1 m = some (h', o2) ∧ o = o1 ++ o2 := by
  simp only [run, bind, Option.bind] at hr
  cases h1 : step h c with
  | none => simp [h1] at hr
  | some v1 =>
    obtain ⟨s1, o1⟩ := v1
    simp only [h1] at hr
    cases h2 : run s1 m with
    | none => simp [h2] at hr
    | some v2 =>
      obtain ⟨s2, o2⟩ := v2
      simp only [h2, pure, Option.some.injEq, Prod.mk.injEq] at hr
      obtain ⟨rfl, rfl⟩ := hr
      exact ⟨s1, o1, o2, rfl, h2, rfl⟩

/-! ### the registry stays empty; the frame around close `0` -/

theorem noCompletion_registry (h : Host) (b : Block) (hb : b.noCompletion = true) (h' : Host) (o : List Out)
    (hs : step h b = some (h', o)) (hr : h.registry = 0) : h'.registry = 0 := by
  cases b with
  | probeStep l =>
    cases l with
    | true => simp [Block.noCompletion] at hb
    | false =>
      simp only [step] at hs
      split at hs
      · simp at hs
      · simp only [Bool.false_eq_true, ↓reduceIte, Option.some.injEq, Prod.mk.injEq] at hs
        obtain ⟨rfl, _⟩ := hs
        exact hr
  | closeCall sync =>
    simp only [step] at hs
    split at hs
    · simp only [Option.some.injEq, Prod.mk.injEq] at hs
      obtain ⟨rfl, _⟩ := hs
      exact hr
    · simp only [Option.some.injEq, Prod.mk.injEq] at hs
      obtain ⟨rfl, _⟩ := hs
      simp [closeBody]
  | closeWake i t =>
    simp only [step] at hs
    split at hs
    · split at hs
      · simp only [Option.some.injEq, Prod.mk.injEq] at hs
        obtain ⟨rfl, _⟩ := hs
        simp [closeBody, Host.setStage]
      · split at hs
        · simp at hs
        · split at hs
          · simp only [Option.some.injEq, Prod.mk.injEq] at hs
            obtain ⟨rfl, _⟩ := hs
            simpa [Host.setStage] using hr
          · simp only [Option.some.injEq, Prod.mk.injEq] at hs
            obtain ⟨rfl, _⟩ := hs
            simp [closeBody, Host.setStage]
    · simp at hs
  | recv s q d u =>
    simp only [step] at hs
    split at hs
    · simp at hs
    · simp only [Option.some.injEq, Prod.mk.injEq] at hs
      obtain ⟨rfl, _⟩ := hs
      exact hr
  | outqFire r =>
    simp only [step] at hs
    split at hs
    · simp at hs
    · simp only [Option.some.injEq, Prod.mk.injEq] at hs
      obtain ⟨rfl, _⟩ := hs
      exact hr
  | tcFire s q =>
    simp only [step] at hs
    split at hs
    · simp at hs
    · simp only [Option.some.injEq, Prod.mk.injEq] at hs
      obtain ⟨rfl, _⟩ := hs
      exact hr
  | schedFire i q =>
    simp only [step] at hs
    split at hs
    · simp at hs
    · split at hs
      · simp at hs
      · split at hs <;>
        · simp only [Option.some.injEq, Prod.mk.injEq] at hs
          obtain ⟨rfl, _⟩ := hs
          exact hr
  | cleanupFire e =>
    simp only [step] at hs
    split at hs
    · simp at hs
    · simp only [Option.some.injEq, Prod.mk.injEq] at hs
      obtain ⟨rfl, _⟩ := hs
      exact hr
  | announceStep l =>
    simp only [step] at hs
    split at hs
    · simp at hs
    · simp only [Option.some.injEq, Prod.mk.injEq] at hs
      obtain ⟨rfl, _⟩ := hs
      split <;> exact hr
  | lookupStep s f =>
    simp only [step] at hs
    split at hs
    · simp at hs
    · simp only [Option.some.injEq, Prod.mk.injEq] at hs
      obtain ⟨rfl, _⟩ := hs
      split <;> exact hr
  | startUp =>
    simp only [step] at hs
    split at hs
    · simp at hs
    · simp only [Option.some.injEq, Prod.mk.injEq] at hs
      obtain ⟨rfl, _⟩ := hs
      exact hr
  | apiCall k =>
    simp only [step] at hs
    split at hs
    · simp only [Option.some.injEq, Prod.mk.injEq] at hs
      obtain ⟨rfl, _⟩ := hs
      exact hr
    · split at hs
      · simp at hs
      · cases k <;>
        · simp only [Option.some.injEq, Prod.mk.injEq] at hs
          obtain ⟨rfl, _⟩ := hs
          exact hr
  | closeGoodbye i =>
    simp only [step] at hs
    split at hs
    · simp only [Option.some.injEq, Prod.mk.injEq] at hs
      obtain ⟨rfl, _⟩ := hs
      simpa [Host.setStage] using hr
    · simp at hs
  | closeMarkDone i =>
    simp only [step] at hs
    split at hs
    · simp only [Option.some.injEq, Prod.mk.injEq] at hs
      obtain ⟨rfl, _⟩ := hs
      simpa [Host.setStage] using hr
    · simp at hs
  | closeShutdown i =>
    simp only [step] at hs
    split at hs
    · simp only [Option.some.injEq, Prod.mk.injEq] at hs
      obtain ⟨rfl, _⟩ := hs
      simpa [Host.setStage] using hr
    · simp only [Option.some.injEq, Prod.mk.injEq] at hs
      obtain ⟨rfl, _⟩ := hs
      simpa [Host.setStage] using hr
    · simp at hs
  | closeFinish i =>
    simp only [step] at hs
    split at hs
    · simp only [Option.some.injEq, Prod.mk.injEq] at hs
      obtain ⟨rfl, _⟩ := hs
      simpa [Host.setStage] using hr
    · simp at hs
  | closeAbort i =>
    simp only [step] at hs
    split at hs
    all_goals first
      | (simp only [Option.some.injEq, Prod.mk.injEq] at hs
         obtain ⟨rfl, _⟩ := hs
         simpa [Host.setStage] using hr)
      | simp at hs

theorem noCompletion_run (bs : List Block) (hb : ∀ b ∈ bs, b.noCompletion = true) :
    ∀ (h h' : Host) (o : List Out), run h bs = some (h', o) → h.registry = 0 → h'.registry = 0 := by
  induction bs with
  | nil =>
    intro h h' o hr h0
    simp only [run, Option.some.injEq, Prod.mk.injEq] at hr
    obtain ⟨rfl, _⟩ := hr
    exact h0
  | cons b rest ih =>
    intro h h' o hr h0
    obtain ⟨s1, o1, o2, h1, h2, _⟩ := run_cons h b rest h' o hr
    exact ih (fun x hx => hb x (by simp [hx])) s1 h' o2 h2 (noCompletion_registry h b (hb b (by simp)) s1 o1 h1 h0)

theorem getElem?_zero_set_ne (l : List Close) (i : Nat) (x : Close) (hi : i ≠ 0) : (l.set i x)[0]? = l[0]? := by
  cases l with
  | nil => simp
  | cons a r =>
    cases i with
    | zero => exact absurd rfl hi
    | succ j => simp [List.set]

theorem getElem?_zero_append (l : List Close) (x c : Close) (h0 : l[0]? = some c) : (l ++ [x])[0]? = some c := by
  cases l with
  | nil => simp at h0
  | cons a r => simpa using h0

/-- the frame of a `mid` block around close `0` -/
theorem mid_step (h : Host) (b : Block) (hb : b.mid = true) (nog : ∀ i, b ≠ .closeGoodbye i) (c0 : Close)
    (h0 : h.closes[0]? = some c0) (hreg : h.registry = 0) (h' : Host) (o : List Out) (hs : step h b = some (h', o)) :
    h'.done = h.done ∧ h'.transportsClosed = h.transportsClosed ∧ h'.registry = 0 ∧ h'.closes[0]? = some c0
      ∧ count isGoodbye o = 0 := by
  have hbody : ∀ s, count isGoodbye (closeBody h s).2.1 = 0 := by
    intro s; simp [closeBody, hreg, count]
  cases b with
  | recv s q d u =>
    simp only [step] at hs
    split at hs
    · simp at hs
    · simp only [Option.some.injEq, Prod.mk.injEq] at hs
      obtain ⟨rfl, rfl⟩ := hs
      refine ⟨rfl, rfl, hreg, h0, ?_⟩
      rw [count_append, gated_no_goodbye h _ (count_replicate_send s), count_notify]
  | outqFire r =>
    simp only [step] at hs
    split at hs
    · simp at hs
    · simp only [Option.some.injEq, Prod.mk.injEq] at hs
      obtain ⟨rfl, rfl⟩ := hs
      refine ⟨rfl, rfl, hreg, h0, gated_no_goodbye h _ ?_⟩
      split <;> simp [count, isGoodbye]
  | tcFire s q =>
    simp only [step] at hs
    split at hs
    · simp at hs
    · simp only [Option.some.injEq, Prod.mk.injEq] at hs
      obtain ⟨rfl, rfl⟩ := hs
      exact ⟨rfl, rfl, hreg, h0, gated_no_goodbye h _ (count_replicate_send s)⟩
  | schedFire i q =>
    simp only [step] at hs
    split at hs
    · simp at hs
    · split at hs
      · simp at hs
      · split at hs
        · simp only [Option.some.injEq, Prod.mk.injEq] at hs
          obtain ⟨rfl, rfl⟩ := hs
          exact ⟨rfl, rfl, hreg, h0, rfl⟩
        · simp only [Option.some.injEq, Prod.mk.injEq] at hs
          obtain ⟨rfl, rfl⟩ := hs
          exact ⟨rfl, rfl, hreg, h0, gated_no_goodbye h _ (count_replicate_send q)⟩
  | cleanupFire e =>
    simp only [step] at hs
    split at hs
    · simp at hs
    · simp only [Option.some.injEq, Prod.mk.injEq] at hs
      obtain ⟨rfl, rfl⟩ := hs
      exact ⟨rfl, rfl, hreg, h0, count_notify h e⟩
  | probeStep l =>
    cases l with
    | true => simp [Block.mid] at hb
    | false =>
      simp only [step] at hs
      split at hs
      · simp at hs
      · simp only [Bool.false_eq_true, ↓reduceIte, Option.some.injEq, Prod.mk.injEq] at hs
        obtain ⟨rfl, rfl⟩ := hs
        exact ⟨rfl, rfl, hreg, h0, gated_no_goodbye h _ (by simp [count, isGoodbye])⟩
  | announceStep l =>
    simp only [step] at hs
    split at hs
    · simp at hs
    · simp only [Option.some.injEq, Prod.mk.injEq] at hs
      obtain ⟨rfl, rfl⟩ := hs
      refine ⟨?_, ?_, ?_, ?_, gated_no_goodbye h _ (by simp [count, isGoodbye])⟩ <;> split <;> first | rfl | exact hreg | exact h0
  | lookupStep s f =>
    simp only [step] at hs
    split at hs
    · simp at hs
    · simp only [Option.some.injEq, Prod.mk.injEq] at hs
      obtain ⟨rfl, rfl⟩ := hs
      refine ⟨?_, ?_, ?_, ?_, gated_no_goodbye h _ (count_replicate_send s)⟩ <;> split <;> first | rfl | exact hreg | exact h0
  | startUp =>
    simp only [step] at hs
    split at hs
    · simp at hs
    · simp only [Option.some.injEq, Prod.mk.injEq] at hs
      obtain ⟨rfl, rfl⟩ := hs
      exact ⟨rfl, rfl, hreg, h0, rfl⟩
  | apiCall k =>
    simp only [step] at hs
    split at hs
    · simp only [Option.some.injEq, Prod.mk.injEq] at hs
      obtain ⟨rfl, rfl⟩ := hs
      exact ⟨rfl, rfl, hreg, h0, rfl⟩
    · split at hs
      · simp at hs
      · cases k <;>
        · simp only [Option.some.injEq, Prod.mk.injEq] at hs
          obtain ⟨rfl, rfl⟩ := hs
          exact ⟨rfl, rfl, hreg, h0, rfl⟩
  | closeCall sync =>
    simp only [step] at hs
    split at hs
    · simp only [Option.some.injEq, Prod.mk.injEq] at hs
      obtain ⟨rfl, rfl⟩ := hs
      exact ⟨rfl, rfl, hreg, getElem?_zero_append _ _ _ h0, rfl⟩
    · simp only [Option.some.injEq, Prod.mk.injEq] at hs
      obtain ⟨rfl, rfl⟩ := hs
      refine ⟨by simp [closeBody], by simp [closeBody], by simp [closeBody], ?_, hbody _⟩
      exact getElem?_zero_append _ _ _ h0
  | closeWake i t =>
    have hi : i ≠ 0 := by simpa [Block.mid] using hb
    simp only [step] at hs
    split at hs
    · split at hs
      · simp only [Option.some.injEq, Prod.mk.injEq] at hs
        obtain ⟨rfl, rfl⟩ := hs
        refine ⟨by simp [closeBody, Host.setStage], by simp [closeBody, Host.setStage], by simp [closeBody, Host.setStage], ?_, hbody _⟩
        simp only [Host.setStage, closeBody]
        rw [getElem?_zero_set_ne _ _ _ hi]; exact h0
      · split at hs
        · simp at hs
        · split at hs
          · simp only [Option.some.injEq, Prod.mk.injEq] at hs
            obtain ⟨rfl, rfl⟩ := hs
            refine ⟨rfl, rfl, hreg, ?_, rfl⟩
            simp only [Host.setStage]
            rw [getElem?_zero_set_ne _ _ _ hi]; exact h0
          · simp only [Option.some.injEq, Prod.mk.injEq] at hs
            obtain ⟨rfl, rfl⟩ := hs
            refine ⟨by simp [closeBody, Host.setStage], by simp [closeBody, Host.setStage], by simp [closeBody, Host.setStage], ?_, hbody _⟩
            simp only [Host.setStage, closeBody]
            rw [getElem?_zero_set_ne _ _ _ hi]; exact h0
    · simp at hs
  | closeGoodbye i => exact absurd rfl (nog i)
  | closeMarkDone i => simp [Block.mid] at hb
  | closeShutdown i => simp [Block.mid] at hb
  | closeFinish i =>
    have hi : i ≠ 0 := by simpa [Block.mid] using hb
    simp only [step] at hs
    split at hs
    · simp only [Option.some.injEq, Prod.mk.injEq] at hs
      obtain ⟨rfl, rfl⟩ := hs
      refine ⟨rfl, rfl, hreg, ?_, rfl⟩
      simp only [Host.setStage]
      rw [getElem?_zero_set_ne _ _ _ hi]; exact h0
    · simp at hs
  | closeAbort i =>
    have hi : i ≠ 0 := by simpa [Block.mid] using hb
    simp only [step] at hs
    split at hs
    all_goals first
      | (simp only [Option.some.injEq, Prod.mk.injEq] at hs
         obtain ⟨rfl, rfl⟩ := hs
         refine ⟨rfl, rfl, hreg, ?_, by simp [count, isGoodbye]⟩
         simp only [Host.setStage]
         rw [getElem?_zero_set_ne _ _ _ hi]; exact h0)
      | simp at hs

theorem mid_run (bs : List Block) (hb : ∀ b ∈ bs, b.mid3 = true) (c0 : Close) :
    ∀ (h h' : Host) (o : List Out), run h bs = some (h', o) → h.closes[0]? = some c0 → h.registry = 0 →
      h'.done = h.done ∧ h'.transportsClosed = h.transportsClosed ∧ h'.registry = 0 ∧ h'.closes[0]? = some c0
        ∧ count isGoodbye o = 0 := by
  induction bs with
  | nil =>
    intro h h' o hr h0 hreg
    simp only [run, Option.some.injEq, Prod.mk.injEq] at hr
    obtain ⟨rfl, rfl⟩ := hr
    exact ⟨rfl, rfl, hreg, h0, rfl⟩
  | cons b rest ih =>
    intro h h' o hr h0 hreg
    obtain ⟨s1, o1, o2, h1, h2, rfl⟩ := run_cons h b rest h' o hr
    have hb1 := hb b (by simp)
    simp only [Block.mid3, Bool.and_eq_true] at hb1
    have nog : ∀ i, b ≠ .closeGoodbye i := by
      intro i e; rw [e] at hb1; simp at hb1
    obtain ⟨a1, a2, a3, a4, a5⟩ := mid_step h b hb1.1 nog c0 h0 hreg s1 o1 h1
    obtain ⟨b1, b2, b3, b4, b5⟩ := ih (fun x hx => hb x (by simp [hx])) s1 h' o2 h2 a4 a3
    exact ⟨b1.trans a1, b2.trans a2, b3, b4, by rw [count_append, a5, b5]⟩

end Zc.Shutdown
