import Zc.Proofs.SurviveClock
import Zc.Proofs.SurviveRouteQ
/-! The downstream with **per-question routing** (`RouteQ.downQ`) is closed too (C15, review 2 finding 6: the two headline theorems were
about two different downstreams).  `downQ` differs from `Comp.down … (Route.rest …)` only in `answer`; what is new here is that
`answerQ` keeps `TInv` (it does not touch schedulers or lookups), `FInv` (the records it interns — the merged answer map's and every
strategy's — are own records of registered services, hence safe under `RegSafe`; the four routed sets are records of the merged
map) and the cache. -/
namespace Zc.Survive.Closed
open Zc Zc.Wire Zc.Survive Zc.Survive.Comp Zc.Survive.Route Zc.Survive.RouteQ Zc.Survive.User Zc.Survive.Api

section
variable (lower : String → String) (possible : String → List String) (ettl : Nat) (orc : Route.Oracle)

/-- every record of every strategy's answer map is an own record of a registered service (C03's soundness, per strategy) -/
theorem stratRecords_own {reg : Registry} (hi : IndexInv lower reg) (hm : AllFresh lower reg) (known : List Rec) (ks : List Survive.Pkt) :
    ∀ x ∈ stratRecords (ks.map (fun k => pureQ lower ettl reg known (msgOf k).questions)),
      ∃ s ∈ reg.services, x ∈ RespSpec.own lower ettl s := by
  intro x hx
  unfold stratRecords at hx
  rw [List.mem_flatMap] at hx
  obtain ⟨l, hl, hx⟩ := hx
  rw [List.mem_map] at hl
  obtain ⟨k, _, rfl⟩ := hl
  rw [List.mem_flatMap] at hx
  obtain ⟨sa, hsa, hx⟩ := hx
  unfold pureQ at hsa
  rw [List.mem_flatMap] at hsa
  obtain ⟨q, _, hsa⟩ := hsa
  rw [List.mem_map] at hsa
  obtain ⟨st, hst, rfl⟩ := hsa
  unfold dictRecords at hx
  rw [List.mem_flatMap] at hx
  obtain ⟨p, hp, hxp⟩ := hx
  simp only [List.mem_cons] at hxp
  rcases hxp with rfl | hxp
  · obtain ⟨s, hs, hc, _⟩ := strategy_key_sound lower ettl known hi hm hst (a := p.1) (List.mem_map_of_mem hp)
    exact ⟨s, hs, candidates_sub_own lower ettl s q _ hc⟩
  · rcases strategy_pair_ok lower ettl known hm hst p hp with h1 | ⟨s, hs, _, hall⟩
    · rw [h1] at hxp; cases hxp
    · exact ⟨s, hs, extras_sub_own lower ettl s x (hall x hxp)⟩

theorem routeQ_recs (st : RState) (c : Cache) (ks : List Survive.Pkt) (u : Bool) (dict : DictRS) (items : List (List StratAns)) :
    (routeQ lower st c ks u dict items).1.recs = internAll lower st.recs (dictRecords dict ++ stratRecords items) ∧
    ∀ x ∈ dictRecords (routeQ lower st c ks u dict items).2.ucast ++ dictRecords (routeQ lower st c ks u dict items).2.mcastNow ++
          dictRecords (routeQ lower st c ks u dict items).2.aggregate ++ dictRecords (routeQ lower st c ks u dict items).2.aggregateLast,
      x ∈ dictRecords dict := by
  unfold routeQ
  dsimp only
  split
  · exact ⟨rfl, by intro x hx; simp [emptyRouted, dictRecords] at hx⟩
  · refine ⟨rfl, ?_⟩
    intro x hx
    simp only [List.mem_append] at hx
    rcases hx with ((hx | hx) | hx) | hx <;> exact decode_sub lower _ _ _ x hx

variable {υ ω : Type} (U : UserL υ ω) (upd : Ms → List (Rec × Option Rec) → Nat → Bool) (Iυ : υ → Prop)

/-- what `answerQ` leaves alone -/
theorem answerQ_fields {d d' : CS υ} {ks : List Pkt} {u : Bool} {qa : Option QA}
    (h : answerQ lower ettl d ks u = .ok (d', qa)) :
    d'.scheds = d.scheds ∧ d'.lookups = d.lookups ∧ d'.cache = d.cache := by
  unfold answerQ at h
  split at h
  · cases h
  · simp only [Except.ok.injEq, Prod.mk.injEq] at h; rw [← h.1]; exact ⟨rfl, rfl, rfl⟩
  · split at h
    · cases h
    · simp only [Except.ok.injEq, Prod.mk.injEq] at h; rw [← h.1]; exact ⟨rfl, rfl, rfl⟩

theorem answerQ_finv {d d' : CS υ} {ks : List Pkt} {u : Bool} {qa : Option QA}
    (hI : CInv lower ettl (Route.Inv (UInv Iυ)) d) (hF : FInv d)
    (h : answerQ lower ettl d ks u = .ok (d', qa)) : FInv d' := by
  unfold answerQ at h
  rcases Zc.respond_ok lower ettl hI.reg (ks.map msgOf) with ⟨_, hr⟩ | ⟨_, hr⟩
  · rw [hr] at h
    simp only [Except.ok.injEq, Prod.mk.injEq] at h
    rw [← h.1]
    exact ⟨hF.1, by intro sel hs; cases hs⟩
  · have hown := respond_records_own lower ettl hI.reg hI.fresh (ks.map msgOf) hr
    have hdict : ∀ x ∈ dictRecords (answerMap lower ettl d.reg (ks.map msgOf)), RecSafe (wireOfRec x) 0 := by
      intro x hx
      obtain ⟨s, hs, hxs⟩ := hown x hx
      exact hI.safe s hs x hxs
    have hstrat : ∀ x ∈ stratRecords (ks.map (fun k => pureQ lower ettl d.reg (knownOf (ks.map msgOf)) (msgOf k).questions)),
        RecSafe (wireOfRec x) 0 := by
      intro x hx
      obtain ⟨s, hs, hxs⟩ := stratRecords_own lower ettl hI.reg hI.fresh _ ks x hx
      exact hI.safe s hs x hxs
    rw [hr] at h
    dsimp only at h
    rw [perPacket_ok lower ettl hI.reg] at h
    simp only [Except.ok.injEq, Prod.mk.injEq] at h
    rw [← h.1]
    obtain ⟨hrecs, hsub⟩ := routeQ_recs lower d.rest.2 d.cache ks u (answerMap lower ettl d.reg (ks.map msgOf))
      (ks.map (fun k => pureQ lower ettl d.reg (knownOf (ks.map msgOf)) (msgOf k).questions))
    refine ⟨?_, ?_⟩
    · show TblSafe (routeQ lower d.rest.2 d.cache ks u _ _).1.recs
      rw [hrecs]
      apply internAll_safe lower _ _ hF.1
      intro x hx
      rcases List.mem_append.mp hx with hx | hx
      · exact hdict x hx
      · exact hstrat x hx
    · intro sel hs
      simp only [Option.some.injEq] at hs
      subst hs
      intro x hx
      exact hdict x (hsub x hx)

/-- **`DownOK` of the per-question downstream under the full invariant** -/
theorem downQ_ok (glue : TextGlue) (hU : UserOK U Iυ) :
    DownOK (downQ lower possible ettl orc U upd) (Full lower ettl Iυ) QASafe := by
  have hB := userBase_ok U upd Iυ hU
  have hF := comp_downOK_F lower possible ettl (fun _ _ => true) orc (userBase U upd) (UInv Iυ) glue hB
  have hQ := RouteQ.downQ_downOK lower possible ettl orc (userBase U upd) (UInv Iυ) hB
  refine ⟨?_, ?_, ?_⟩
  · intro d k hI hk
    exact hF.ingest d k hI hk
  · intro d ks u hI hne hk
    obtain ⟨d', qa, h, hC', hS⟩ := hQ.answer d ks u hI.1.1 hne hk
    have h' : answerQ lower ettl d ks u = .ok (d', qa) := h
    obtain ⟨e1, e2, _⟩ := answerQ_fields lower ettl h'
    exact ⟨d', qa, h, ⟨⟨hC', hI.1.2.congr e1 e2⟩, answerQ_finv lower ettl Iυ hI.1.1 hI.2 h'⟩, hS⟩
  · intro d t q hI
    exact hF.enqueue d t q hI

/-- the per-question downstream is closed -/
theorem downQ_closed (glue : TextGlue) (hU : UserOK U Iυ) : DownClosed lower ettl Iυ (downQ lower possible ettl orc U upd) := by
  refine ⟨downQ_ok lower possible ettl orc U upd Iυ glue hU, ?_, ?_⟩
  · intro t
    have hfr := clock_frame lower possible ettl (Route.rest lower (fun _ _ => true) orc (userBase U upd)) t
    refine ⟨hfr.refl, hfr.trans, ?_, hfr.enqueue⟩
    intro d ks u d' qa h hc
    have h' : answerQ lower ettl d ks u = .ok (d', qa) := h
    rw [(answerQ_fields lower ettl h').2.2]
    exact hc
  · intro d d' k o t hk hi hc
    exact ingest_clock lower possible ettl (Route.rest lower (fun _ _ => true) orc (userBase U upd)) hk hi hc

end

end Zc.Survive.Closed
