import Zc.Model.Registry
/-! Invariants of the registry model (C03): the two indexes are exactly the non-empty classes of the
services under `type.lower()` / `server_key`, keys are unique, and every operation preserves this. -/
namespace Zc

/-! ### dict lemmas -/
section Dict
variable {β : Type}

theorem dget_dset (k : String) (v : β) (l : List (String × β)) (k' : String) :
    dget k' (dset k v l) = if k' = k then some v else dget k' l := by
  induction l with
  | nil => simp [dset, dget, eq_comm]
  | cons p r ih =>
    obtain ⟨a, b⟩ := p
    by_cases h : a = k
    · subst h; by_cases h2 : k' = a
      · subst h2; simp [dset, dget]
      · have : ¬ a = k' := fun e => h2 e.symm
        simp [dset, dget, h2, this]
    · by_cases h2 : a = k'
      · subst h2; simp [dset, dget, h]
      · simp [dset, dget, h, h2, ih]

theorem dget_ddel (k : String) (l : List (String × β)) (k' : String) :
    dget k' (ddel k l) = if k' = k then none else dget k' l := by
  induction l with
  | nil => simp [ddel, dget]
  | cons p r ih =>
    obtain ⟨a, b⟩ := p
    simp only [ddel] at ih ⊢
    by_cases h : a = k
    · subst h
      by_cases h2 : k' = a
      · subst h2; simpa [List.filter, dget] using ih
      · have : ¬ a = k' := fun e => h2 e.symm
        simpa [List.filter, dget, this, h2] using ih
    · by_cases h2 : a = k'
      · subst h2; simp [List.filter, dget, h]
      · simp [List.filter, dget, h, h2, ih]

theorem dget_isSome_of_mem (l : List (String × β)) (p : String × β) (h : p ∈ l) : (dget p.1 l).isSome := by
  induction l with
  | nil => simp at h
  | cons q r ih =>
    obtain ⟨a, b⟩ := q
    by_cases h2 : a = p.1
    · simp [dget, h2]
    · rcases List.mem_cons.mp h with h3 | h3
      · subst h3; simp at h2
      · simpa [dget, h2] using ih h3

end Dict

section
variable (lower : String → String)

/-- the keys of the services whose class under `f` is `k`, in registration order -/
def bucketSpec (f : Svc → String) (svcs : List Svc) (k : String) : List String :=
  (svcs.filter (fun s => f s = k)).map (fun s => lower s.name)

/-- an index is exactly the family of non-empty classes -/
def IdxOk (f : Svc → String) (svcs : List Svc) (idx : NameIndex) : Prop :=
  ∀ k, dget k idx = if bucketSpec lower f svcs k = [] then none else some (bucketSpec lower f svcs k)

/-- `_services` is a map: keys are pairwise different -/
def KeysDistinct (svcs : List Svc) : Prop := svcs.Pairwise (fun a b => lower a.name ≠ lower b.name)

/-- the registry invariant -/
structure IndexInv (reg : Registry) : Prop where
  distinct : KeysDistinct lower reg.services
  types : IdxOk lower (Svc.typeKey lower) reg.services reg.types
  servers : IdxOk lower (Svc.serverKey lower) reg.services reg.servers
  has : reg.hasEntries = !reg.services.isEmpty

theorem bucketSpec_append (f : Svc → String) (a b : List Svc) (k : String) :
    bucketSpec lower f (a ++ b) k = bucketSpec lower f a k ++ bucketSpec lower f b k := by
  simp [bucketSpec]

theorem bucketSpec_filter_key (f : Svc → String) (svcs : List Svc) (k key : String) :
    bucketSpec lower f (svcs.filter (fun s => !decide (lower s.name = key))) k = (bucketSpec lower f svcs k).filter (fun n => n != key) := by
  induction svcs with
  | nil => simp [bucketSpec]
  | cons s r ih =>
    simp only [bucketSpec] at ih ⊢
    by_cases h1 : lower s.name = key <;> by_cases h2 : f s = k <;>
      simp only [List.filter_cons, h1, h2, decide_true, decide_false, Bool.not_true, Bool.not_false, if_true, if_false,
        List.map_cons, bne_self_eq_false, Bool.false_eq_true] <;> first | exact ih | skip
    · have : (lower s.name != key) = true := by simp [h1]
      simp only [this, if_true, ih]

theorem bucketSpec_map (f : Svc → String) (g : Svc → Svc) (svcs : List Svc) (k : String)
    (hn : ∀ s, lower (g s).name = lower s.name) (hf : ∀ s, f (g s) = f s) :
    bucketSpec lower f (svcs.map g) k = bucketSpec lower f svcs k := by
  induction svcs with
  | nil => simp [bucketSpec]
  | cons s r ih =>
    simp only [bucketSpec] at ih ⊢
    by_cases h2 : f s = k <;> simp [List.filter, hf, hn, h2, ih]

theorem mem_bucketSpec (f : Svc → String) (svcs : List Svc) (k n : String) :
    n ∈ bucketSpec lower f svcs k ↔ ∃ s ∈ svcs, f s = k ∧ lower s.name = n := by
  simp [bucketSpec, and_assoc]

theorem bucketSpec_nodup (f : Svc → String) (svcs : List Svc) (k : String) (hd : KeysDistinct lower svcs) :
    (bucketSpec lower f svcs k).Nodup := by
  unfold bucketSpec KeysDistinct at *
  have h1 : (svcs.filter (fun s => f s = k)).Pairwise (fun a b => lower a.name ≠ lower b.name) := hd.filter _
  exact List.Pairwise.map _ (fun a b h => h) h1

/-! ### `sget` -/

theorem sget_some_mem {k : String} {svcs : List Svc} {s : Svc} (h : sget lower k svcs = some s) :
    s ∈ svcs ∧ lower s.name = k := by
  unfold sget at h
  exact ⟨List.mem_of_find?_eq_some h, by simpa using List.find?_some h⟩

theorem sget_none {k : String} {svcs : List Svc} (h : sget lower k svcs = none) : ∀ s ∈ svcs, lower s.name ≠ k := by
  unfold sget at h
  intro s hs
  have := List.find?_eq_none.mp h s hs
  simpa using this

theorem sget_of_mem {svcs : List Svc} (hd : KeysDistinct lower svcs) {s : Svc} (hs : s ∈ svcs) :
    sget lower (lower s.name) svcs = some s := by
  induction svcs with
  | nil => simp at hs
  | cons a r ih =>
    unfold KeysDistinct at hd
    rw [List.pairwise_cons] at hd
    rcases List.mem_cons.mp hs with h | h
    · subst h; simp [sget]
    · have hne : lower a.name ≠ lower s.name := hd.1 s h
      have := ih hd.2 h
      unfold sget at this ⊢
      simp [List.find?, hne, this]

/-! ### index operations preserve `IdxOk` -/

theorem NameIndex.dget_add (idx : NameIndex) (k x k' : String) :
    dget k' (idx.add k x) = if k' = k then some ((dget k idx).getD [] ++ [x]) else dget k' idx := by
  unfold NameIndex.add; exact dget_dset _ _ _ _

theorem IdxOk.add {f : Svc → String} {svcs : List Svc} {idx : NameIndex} (h : IdxOk lower f svcs idx) (s s' : Svc)
    (hn : lower s'.name = lower s.name) (hf : f s' = f s) :
    IdxOk lower f (svcs ++ [s']) (idx.add (f s) (lower s.name)) := by
  intro k
  rw [NameIndex.dget_add, bucketSpec_append]
  by_cases hk : k = f s
  · subst hk
    have hb : bucketSpec lower f [s'] (f s) = [lower s.name] := by simp [bucketSpec, hf, hn]
    rw [hb, h (f s)]
    by_cases he : bucketSpec lower f svcs (f s) = [] <;> simp [he]
  · have hb : bucketSpec lower f [s'] k = [] := by
      have : ¬ f s' = k := by rw [hf]; exact fun e => hk e.symm
      simp [bucketSpec, this]
    rw [hb, h k]; simp [hk]

theorem IdxOk.remove {f : Svc → String} {svcs : List Svc} {idx : NameIndex} (h : IdxOk lower f svcs idx)
    (hd : KeysDistinct lower svcs) (old : Svc) (ho : old ∈ svcs) :
    ∃ idx', idx.remove (f old) (lower old.name) = .ok idx'
      ∧ IdxOk lower f (svcs.filter (fun s => !decide (lower s.name = lower old.name))) idx' := by
  have hmem : lower old.name ∈ bucketSpec lower f svcs (f old) := (mem_bucketSpec lower f svcs _ _).mpr ⟨old, ho, rfl, rfl⟩
  have hne : bucketSpec lower f svcs (f old) ≠ [] := List.ne_nil_of_mem hmem
  have hg := h (f old)
  simp only [hne, if_false] at hg
  have herase : (bucketSpec lower f svcs (f old)).erase (lower old.name)
      = bucketSpec lower f (svcs.filter (fun s => !decide (lower s.name = lower old.name))) (f old) := by
    rw [bucketSpec_filter_key, (bucketSpec_nodup lower f svcs (f old) hd).erase_eq_filter]
  unfold NameIndex.remove
  rw [hg]
  simp only [hmem, if_true]
  refine ⟨_, rfl, ?_⟩
  intro k
  by_cases hk : k = f old
  · subst hk
    rw [herase]
    by_cases he : bucketSpec lower f (svcs.filter (fun s => !decide (lower s.name = lower old.name))) (f old) = []
    · simp [he, dget_ddel]
    · simp [he, dget_dset]
  · -- another class: the removed key was not in it
    have hsame : bucketSpec lower f (svcs.filter (fun s => !decide (lower s.name = lower old.name))) k = bucketSpec lower f svcs k := by
      rw [bucketSpec_filter_key]
      apply List.filter_eq_self.mpr
      intro n hn
      rcases (mem_bucketSpec lower f svcs k n).mp hn with ⟨s, hs, hfs, hns⟩
      have : n ≠ lower old.name := by
        intro e
        have h1 := sget_of_mem lower hd hs
        have h2 := sget_of_mem lower hd ho
        rw [hns, e] at h1
        rw [h2] at h1
        have : s = old := (Option.some.inj h1).symm
        subst this
        exact hk hfs.symm
      simpa using this
    rw [hsame, ← h k]
    by_cases he : ((bucketSpec lower f svcs (f old)).erase (lower old.name)).isEmpty
    · simp [he, dget_ddel, hk]
    · simp [he, dget_dset, hk]

theorem IdxOk.map {f : Svc → String} {svcs : List Svc} {idx : NameIndex} (h : IdxOk lower f svcs idx) (g : Svc → Svc)
    (hn : ∀ s, lower (g s).name = lower s.name) (hf : ∀ s, f (g s) = f s) : IdxOk lower f (svcs.map g) idx := by
  intro k; rw [bucketSpec_map lower f g svcs k hn hf]; exact h k

theorem KeysDistinct.map {svcs : List Svc} (hd : KeysDistinct lower svcs) (g : Svc → Svc)
    (hn : ∀ s, lower (g s).name = lower s.name) : KeysDistinct lower (svcs.map g) := by
  unfold KeysDistinct at *
  rw [List.pairwise_map]
  exact hd.imp (fun {a b} h => by rw [hn a, hn b]; exact h)

/-- every key of an index has a service behind it (no empty bucket is advertised — D3) -/
theorem IdxOk.backed {f : Svc → String} {svcs : List Svc} {idx : NameIndex} (h : IdxOk lower f svcs idx) {p : String × List String}
    (hp : p ∈ idx) : ∃ s ∈ svcs, f s = p.1 := by
  have h1 := dget_isSome_of_mem idx p hp
  rw [h p.1] at h1
  by_cases he : bucketSpec lower f svcs p.1 = []
  · simp [he] at h1
  · obtain ⟨n, hn⟩ := List.exists_mem_of_ne_nil _ he
    rcases (mem_bucketSpec lower f svcs p.1 n).mp hn with ⟨s, hs, hfs, _⟩
    exact ⟨s, hs, hfs⟩

/-! ### registry operations preserve `IndexInv` -/

theorem IndexInv.empty : IndexInv lower {} :=
  ⟨List.Pairwise.nil, fun k => by simp [dget, bucketSpec], fun k => by simp [dget, bucketSpec], rfl⟩

theorem Svc.clearMemo_name (s : Svc) : s.clearMemo.name = s.name := rfl
theorem Svc.clearMemo_type (s : Svc) : s.clearMemo.type = s.type := rfl
theorem Svc.clearMemo_server (s : Svc) : s.clearMemo.server = s.server := rfl

/-- `_add`: raises exactly when the key is present, otherwise appends and keeps the invariant -/
theorem Registry.add_spec (reg : Registry) (hi : IndexInv lower reg) (s : Svc) :
    ((sget lower (lower s.name) reg.services).isSome ∧ reg.add lower s = .error .alreadyRegistered)
    ∨ (sget lower (lower s.name) reg.services = none ∧ ∃ r, reg.add lower s = .ok r ∧ IndexInv lower r
        ∧ r.services = reg.services ++ [s.clearMemo]) := by
  cases hg : sget lower (lower s.name) reg.services with
  | some o => left; simp [Registry.add, Svc.key, hg]
  | none =>
    right
    refine ⟨rfl, { services := reg.services ++ [s.clearMemo], types := reg.types.add (s.typeKey lower) (lower s.name),
                   servers := reg.servers.add (s.serverKey lower) (lower s.name), hasEntries := true }, ?_, ?_, rfl⟩
    · simp [Registry.add, Svc.key, hg]
    refine ⟨?_, ?_, ?_, by simp⟩
    · unfold KeysDistinct
      rw [List.pairwise_append]
      refine ⟨hi.distinct, by simp, ?_⟩
      intro a ha b hb
      have : b = s.clearMemo := by simpa using hb
      subst this
      exact sget_none lower hg a ha
    · exact hi.types.add lower s s.clearMemo rfl rfl
    · exact hi.servers.add lower s s.clearMemo rfl rfl

/-- one iteration of `_remove` never raises and keeps the invariant (up to `has_entries`, set after the loop) -/
theorem Registry.removeOne_spec (reg : Registry) (hd : KeysDistinct lower reg.services)
    (ht : IdxOk lower (Svc.typeKey lower) reg.services reg.types)
    (hs : IdxOk lower (Svc.serverKey lower) reg.services reg.servers) (k : String) :
    ∃ r, reg.removeOne lower k = .ok r ∧ r.services = reg.services.filter (fun s => !decide (lower s.name = k))
      ∧ KeysDistinct lower r.services ∧ IdxOk lower (Svc.typeKey lower) r.services r.types
      ∧ IdxOk lower (Svc.serverKey lower) r.services r.servers := by
  unfold Registry.removeOne
  cases hg : sget lower k reg.services with
  | none =>
    have hall := sget_none lower hg
    have hf : reg.services.filter (fun s => !decide (lower s.name = k)) = reg.services :=
      List.filter_eq_self.mpr (fun s hs => by simpa using hall s hs)
    exact ⟨reg, rfl, hf.symm, hd, ht, hs⟩
  | some old =>
    obtain ⟨ho, hk⟩ := sget_some_mem lower hg
    subst hk
    obtain ⟨t', ht1, ht2⟩ := ht.remove lower hd old ho
    obtain ⟨s', hs1, hs2⟩ := hs.remove lower hd old ho
    simp only [Svc.typeKey, Svc.serverKey] at ht1 hs1 ⊢
    rw [ht1, hs1]
    exact ⟨_, rfl, rfl, hd.filter _, ht2, hs2⟩

theorem Registry.remove_spec (reg : Registry) (hd : KeysDistinct lower reg.services)
    (ht : IdxOk lower (Svc.typeKey lower) reg.services reg.types)
    (hs : IdxOk lower (Svc.serverKey lower) reg.services reg.servers) (ks : List String) :
    ∃ r, reg.remove lower ks = .ok r ∧ IndexInv lower r
      ∧ r.services = reg.services.filter (fun s => !(ks.contains (lower s.name))) := by
  induction ks generalizing reg with
  | nil =>
    refine ⟨_, rfl, ⟨hd, ht, hs, rfl⟩, ?_⟩
    exact (List.filter_eq_self.mpr (fun s _ => by simp)).symm
  | cons k ks ih =>
    obtain ⟨r1, h1, hsv, hd1, ht1, hs1⟩ := Registry.removeOne_spec lower reg hd ht hs k
    obtain ⟨r2, h2, hi2, hsv2⟩ := ih r1 hd1 ht1 hs1
    refine ⟨r2, ?_, hi2, ?_⟩
    · simp only [Registry.remove, h1]; exact h2
    · rw [hsv2, hsv, List.filter_filter]
      apply List.filter_congr
      intro s _
      by_cases e : lower s.name = k <;> simp [e]

/-- `async_update` never raises and keeps the invariant -/
theorem Registry.update_spec (reg : Registry) (hi : IndexInv lower reg) (s : Svc) :
    ∃ r, reg.update lower s = .ok r ∧ IndexInv lower r
      ∧ r.services = reg.services.filter (fun o => !decide (lower o.name = lower s.name)) ++ [s.clearMemo] := by
  obtain ⟨r1, h1, hi1, hsv1⟩ := Registry.remove_spec lower reg hi.distinct hi.types hi.servers [s.key lower]
  have hnone : sget lower (lower s.name) r1.services = none := by
    unfold sget
    rw [List.find?_eq_none]
    intro o ho
    rw [hsv1] at ho
    have := (List.mem_filter.mp ho).2
    simpa [Svc.key] using this
  rcases Registry.add_spec lower r1 hi1 s with ⟨hsome, _⟩ | ⟨_, r2, h2, hi2, hsv2⟩
  · rw [hnone] at hsome; simp at hsome
  · refine ⟨r2, ?_, hi2, ?_⟩
    · simp only [Registry.update, h1]; exact h2
    · rw [hsv2, hsv1]
      congr 1
      apply List.filter_congr
      intro o _
      simp [Svc.key, eq_comm]

theorem Svc.mutate_name (s : Svc) (m : Mut) : (s.mutate m).name = s.name := by cases m <;> rfl
theorem Svc.mutate_type (s : Svc) (m : Mut) : (s.mutate m).type = s.type := by cases m <;> rfl
theorem Svc.mutate_server (s : Svc) (m : Mut) : (s.mutate m).server = s.server := by cases m <;> rfl

/-- any per-object rewrite that leaves name, type and server alone keeps the invariant -/
theorem IndexInv.mapServices {reg : Registry} (hi : IndexInv lower reg) (g : Svc → Svc)
    (hn : ∀ s, (g s).name = s.name) (ht : ∀ s, (g s).type = s.type) (hs : ∀ s, (g s).server = s.server) :
    IndexInv lower { reg with services := reg.services.map g } := by
  refine ⟨hi.distinct.map lower g (fun s => by rw [hn]), ?_, ?_, ?_⟩
  · exact hi.types.map lower g (fun s => by rw [hn]) (fun s => by simp [Svc.typeKey, ht])
  · exact hi.servers.map lower g (fun s => by rw [hn]) (fun s => by simp [Svc.serverKey, hs])
  · simpa using hi.has

theorem Registry.mutate_spec (reg : Registry) (hi : IndexInv lower reg) (k : String) (m : Mut) :
    IndexInv lower (reg.mutate lower k m) := by
  unfold Registry.mutate
  apply hi.mapServices lower
  · intro s; by_cases h : lower s.name = k <;> simp [h, Svc.mutate_name]
  · intro s; by_cases h : lower s.name = k <;> simp [h, Svc.mutate_type]
  · intro s; by_cases h : lower s.name = k <;> simp [h, Svc.mutate_server]

/-! ### lookups under the invariant -/

theorem lookupAll_of_sub {svcs : List Svc} (hd : KeysDistinct lower svcs) (l : List Svc) (hl : ∀ s ∈ l, s ∈ svcs) :
    Registry.lookupAll lower svcs (l.map (fun s => lower s.name)) = .ok l := by
  induction l with
  | nil => rfl
  | cons a r ih =>
    have h1 := sget_of_mem lower hd (hl a (by simp))
    have h2 := ih (fun s hs => hl s (by simp [hs]))
    simp only [List.map_cons, Registry.lookupAll, h1, h2]

theorem Registry.byIndex_ok (reg : Registry) (f : Svc → String) (idx : NameIndex) (hd : KeysDistinct lower reg.services)
    (h : IdxOk lower f reg.services idx) (k : String) :
    reg.byIndex lower idx k = .ok (reg.services.filter (fun s => f s = k)) := by
  unfold Registry.byIndex
  rw [h k]
  by_cases he : bucketSpec lower f reg.services k = []
  · have : reg.services.filter (fun s => f s = k) = [] := by
      unfold bucketSpec at he; simpa using he
    simp [he, this]
  · simp only [he, if_false]
    exact lookupAll_of_sub lower hd _ (fun s hs => (List.mem_filter.mp hs).1)

end
end Zc
