import Zc.Proofs.CacheReaders
/-! Per-identity behaviour of the reference store's operations (`Zc.Flat`). -/
namespace Zc

section
variable (lower : String → String)

theorem beq_eq_decide (a b : Rec) : a.beq lower b = decide (a.ident lower = b.ident lower) := by
  rw [Bool.eq_iff_iff, beq_iff_ident]; simp

/-- is a record of `q`'s identity stored? -/
def Flat.pres (s : List Rec) (q : Rec) : Bool := s.any (fun e => e.beq lower q)

variable {lower}

theorem Flat.getUnique_isSome (s : List Rec) (q : Rec) : (Flat.getUnique lower s q).isSome = Flat.pres lower s q := by
  unfold Flat.getUnique Flat.pres
  rw [Bool.eq_iff_iff, List.find?_isSome, List.any_eq_true]

theorem Flat.getUnique_eq_none (s : List Rec) (q : Rec) : Flat.getUnique lower s q = none ↔ Flat.pres lower s q = false := by
  rw [← Flat.getUnique_isSome]; cases Flat.getUnique lower s q <;> simp

theorem Flat.pres_congr (s : List Rec) {q q' : Rec} (h : q.ident lower = q'.ident lower) : Flat.pres lower s q = Flat.pres lower s q' := by
  unfold Flat.pres
  congr 1; funext e
  rw [beq_eq_decide, beq_eq_decide, h]

theorem Flat.getUnique_congr (s : List Rec) {q q' : Rec} (h : q.ident lower = q'.ident lower) :
    Flat.getUnique lower s q = Flat.getUnique lower s q' := by
  unfold Flat.getUnique
  congr 1; funext e
  rw [beq_eq_decide, beq_eq_decide, h]

theorem Flat.getUnique_ident {s : List Rec} {q e : Rec} (h : Flat.getUnique lower s q = some e) : e.ident lower = q.ident lower :=
  (beq_iff_ident lower e q).1 (by
    unfold Flat.getUnique at h
    have := List.find?_some h
    simpa using this)

theorem Flat.getUnique_mem {s : List Rec} {q e : Rec} (h : Flat.getUnique lower s q = some e) : e ∈ s :=
  List.mem_of_find?_eq_some h

/-- mutation in place keeps identities -/
theorem Flat.getUnique_map (s : List Rec) (f : Rec → Rec) (hf : ∀ e, (f e).ident lower = e.ident lower) (q : Rec) :
    Flat.getUnique lower (s.map f) q = (Flat.getUnique lower s q).map f := by
  unfold Flat.getUnique
  rw [List.find?_map]
  congr 2; funext e
  simp only [Function.comp, beq_eq_decide, hf]

theorem Flat.pres_map (s : List Rec) (f : Rec → Rec) (hf : ∀ e, (f e).ident lower = e.ident lower) (q : Rec) :
    Flat.pres lower (s.map f) q = Flat.pres lower s q := by
  rw [← Flat.getUnique_isSome, ← Flat.getUnique_isSome, Flat.getUnique_map s f hf]
  cases Flat.getUnique lower s q <;> rfl

theorem Flat.getUnique_add (s : List Rec) (r q : Rec) :
    Flat.getUnique lower (Flat.add lower s r).1 q = if r.ident lower = q.ident lower then some r else Flat.getUnique lower s q := by
  unfold Flat.getUnique Flat.add
  simp only [List.find?_append, List.find?_filter]
  by_cases h : r.ident lower = q.ident lower
  · simp only [h, if_true]
    have : List.find? (fun a => decide ((!(a.beq lower r)) = true ∧ a.beq lower q = true)) s = none := by
      rw [List.find?_eq_none]
      intro e _
      simp only [beq_eq_decide, h, decide_eq_true_eq, Bool.not_eq_true', decide_eq_false_iff_not]
      intro hc; exact hc.1 hc.2
    rw [this]
    simp [beq_eq_decide, h]
  · simp only [h, if_false]
    have : List.find? (fun a => decide ((!(a.beq lower r)) = true ∧ a.beq lower q = true)) s = List.find? (fun e => e.beq lower q) s := by
      congr 1; funext e
      simp only [beq_eq_decide]
      by_cases h2 : e.ident lower = q.ident lower
      · have h4 : q.ident lower ≠ r.ident lower := fun h3 => h h3.symm
        simp [h2, h4]
      · simp [h2]
    rw [this]
    have : List.find? (fun e => e.beq lower q) [r] = none := by simp [beq_eq_decide, h]
    rw [this]; simp

theorem Flat.pres_add (s : List Rec) (r q : Rec) :
    Flat.pres lower (Flat.add lower s r).1 q = (decide (r.ident lower = q.ident lower) || Flat.pres lower s q) := by
  rw [← Flat.getUnique_isSome, ← Flat.getUnique_isSome, Flat.getUnique_add]
  by_cases h : r.ident lower = q.ident lower <;> simp [h]

/-- a filter that does not separate records of one identity -/
theorem Flat.getUnique_filter (s : List Rec) (p : Rec → Bool) (q : Rec) (pq : Bool)
    (hp : ∀ e, e.ident lower = q.ident lower → p e = pq) :
    Flat.getUnique lower (s.filter p) q = if pq then Flat.getUnique lower s q else none := by
  unfold Flat.getUnique
  rw [List.find?_filter]
  cases pq
  · simp only [Bool.false_eq_true, if_false, List.find?_eq_none]
    intro e _
    simp only [beq_eq_decide, decide_eq_true_eq, not_and]
    intro hpe hid
    rw [hp e hid] at hpe; cases hpe
  · simp only [if_true]
    congr 1; funext e
    simp only [beq_eq_decide]
    by_cases hid : e.ident lower = q.ident lower
    · simp [hid, hp e hid]
    · simp [hid]

/-- `async_add_records`: the last copy of an identity wins -/
theorem Flat.getUnique_addAll (s : List Rec) (l : List Rec) (q : Rec) :
    Flat.getUnique lower (addAll (Flat.ops lower) s l).1 q
      = match (l.filter (fun r => decide (r.ident lower = q.ident lower))).getLast? with
        | some r => some r
        | none => Flat.getUnique lower s q := by
  have gen : ∀ (b0 : Bool) (s : List Rec),
      Flat.getUnique lower (l.foldl (fun (acc : List Rec × Bool) r => (((Flat.ops lower).add acc.1 r).1, acc.2 || ((Flat.ops lower).add acc.1 r).2)) (s, b0)).1 q
      = match (l.filter (fun r => decide (r.ident lower = q.ident lower))).getLast? with
        | some r => some r
        | none => Flat.getUnique lower s q := by
    induction l with
    | nil => intro b0 s; rfl
    | cons r t ih =>
      intro b0 s
      simp only [List.foldl_cons]
      rw [ih]
      have hadd : Flat.getUnique lower ((Flat.ops lower).add s r).1 q = if r.ident lower = q.ident lower then some r else Flat.getUnique lower s q :=
        Flat.getUnique_add s r q
      rw [hadd, List.filter_cons]
      by_cases h : r.ident lower = q.ident lower
      · simp only [h, decide_true, if_true]
        cases hl : (t.filter (fun r => decide (r.ident lower = q.ident lower))).getLast? with
        | none =>
          have : t.filter (fun r => decide (r.ident lower = q.ident lower)) = [] := List.getLast?_eq_none_iff.1 hl
          simp [this]
        | some x =>
          rw [List.getLast?_cons_of_ne_nil (by intro hn; rw [hn] at hl; cases hl), hl]
      · simp only [h, decide_false, if_false, Bool.false_eq_true]
  exact gen false s

theorem Flat.pres_addAll (s : List Rec) (l : List Rec) (q : Rec) :
    Flat.pres lower (addAll (Flat.ops lower) s l).1 q = (l.any (fun r => decide (r.ident lower = q.ident lower)) || Flat.pres lower s q) := by
  rw [← Flat.getUnique_isSome, ← Flat.getUnique_isSome, Flat.getUnique_addAll]
  cases hl : (l.filter (fun r => decide (r.ident lower = q.ident lower))).getLast? with
  | none =>
    have h0 : l.filter (fun r => decide (r.ident lower = q.ident lower)) = [] := List.getLast?_eq_none_iff.1 hl
    have : l.any (fun r => decide (r.ident lower = q.ident lower)) = false := by
      rw [Bool.eq_false_iff]; intro hany
      obtain ⟨x, hx, hpx⟩ := List.any_eq_true.1 hany
      have : x ∈ l.filter (fun r => decide (r.ident lower = q.ident lower)) := List.mem_filter.2 ⟨hx, hpx⟩
      rw [h0] at this; cases this
    simp [this]
  | some x =>
    have hx : x ∈ l.filter (fun r => decide (r.ident lower = q.ident lower)) := List.mem_of_getLast? hl
    have : l.any (fun r => decide (r.ident lower = q.ident lower)) = true :=
      List.any_eq_true.2 ⟨x, (List.mem_filter.1 hx).1, (List.mem_filter.1 hx).2⟩
    simp [this]

end
end Zc
