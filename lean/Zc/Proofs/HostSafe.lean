import Zc.Proofs.HostInv
/-! The run-level invariant is preserved by every block of a run that satisfies the loop facts, and what that gives for the
datagrams a run emits. -/
namespace Zc.Reply
open GenFacts

theorem actAdds_not_answer (delayed : Bool) (t : Int) (seen : SeenMap) {a : Act}
    (h : ∀ lis pkts addr port, a ≠ .answer lis pkts addr port) : actAdds delayed t seen a = [] := by
  cases a with
  | answer lis pkts addr port => exact absurd rfl (h lis pkts addr port)
  | idle _ => rfl
  | defer _ _ => rfl
  | ready _ => rfl
  | remove _ _ => rfl

/-- one block: the invariant is re-established at the block's time, with the histories extended by the block's `add`s -/
theorem HInv.step {hO hD : List AddRec} {clock : Int} {h : Host} {e : Ev} {r : StepOut} {a : Act}
    (hI : HInv hO hD clock h) (hax : LoopAx h clock e) (hd : h.decide e = .ok a)
    (hp : h.perform e.time e.seen e.draws a = .ok r) :
    HInv (hO ++ actAdds false e.time e.seen a) (hD ++ actAdds true e.time e.seen a) e.time r.host := by
  have hc := hax.monotone
  obtain ⟨hdo, hdd, _⟩ := notOverdue_spec hax.noTimerPassed
  cases a with
  | idle lis =>
    obtain ⟨h1, h2⟩ := decide_idle hd
    obtain ⟨hr, _⟩ := perform_idle hp
    rw [hr]
    simp only [actAdds, List.append_nil]
    exact ⟨hI.outQ.mono hc hdo, hI.delayQ.mono hc hdd, hI.deferred.congr h1 hc, hI.timers.congr h1 h2⟩
  | defer lis d =>
    obtain ⟨t, addr, port, dataId, size, hasQu, p, seen, draws, lis1, rfl, hstamp, h1, h2, rfl, _, _⟩ := decide_defer hd
    obtain ⟨hr, _⟩ := perform_defer hp
    rw [hr]
    simp only [actAdds, List.append_nil, Ev.time] at hc ⊢
    refine ⟨hI.outQ.mono hc hdo, hI.delayQ.mono hc hdd, ?_, (hI.timers.congr h1 h2).defer t addr port p d⟩
    intro b q hq
    by_cases hb : b = addr
    · subst hb
      simp only [defer_deferredOf_same] at hq
      rcases List.mem_append.mp hq with hq | hq
      · have := hI.deferred.congr h1 hc b q hq; exact this
      · simp at hq; subst hq; omega
    · simp only [defer_deferredOf_other _ _ _ _ _ _ _ hb] at hq
      exact hI.deferred.congr h1 hc b q hq
  | ready d =>
    obtain ⟨t, rfl⟩ := decide_ready hd
    obtain ⟨hl, hf, ht⟩ := perform_ready hp
    have hdue := hax.firesWhenDue
    simp only [actAdds, List.append_nil, Ev.time, firesOK] at hc hdue ⊢
    have hlis : DefOK r.host.lis t ∧ TimerInv r.host.lis := by
      rw [hl]; exact ⟨hI.deferred.congr rfl hc, hI.timers⟩
    cases d
    · obtain ⟨e1, e2, _⟩ := hf rfl
      simp only [Bool.false_eq_true, if_false] at hdue
      exact ⟨by rw [e1]; exact (hI.outQ.ready hc hdue).1, by rw [e2]; exact hI.delayQ.mono hc hdd, hlis.1, hlis.2⟩
    · obtain ⟨e1, e2, _⟩ := ht rfl
      simp only [if_true] at hdue
      exact ⟨by rw [e2]; exact hI.outQ.mono hc hdo, by rw [e1]; exact (hI.delayQ.ready hc hdue).1, hlis.1, hlis.2⟩
  | remove d recs =>
    obtain ⟨t, rfl⟩ := decide_remove hd
    obtain ⟨_, hl, hf, ht⟩ := perform_remove hp
    simp only [actAdds, List.append_nil, Ev.time] at hc ⊢
    have hlis : DefOK r.host.lis t ∧ TimerInv r.host.lis := by
      rw [hl]; exact ⟨hI.deferred.congr rfl hc, hI.timers⟩
    cases d
    · obtain ⟨e1, e2⟩ := hf rfl
      exact ⟨by rw [e1]; exact hI.outQ.removeRecords hc hdo recs, by rw [e2]; exact hI.delayQ.mono hc hdd, hlis.1, hlis.2⟩
    · obtain ⟨e1, e2⟩ := ht rfl
      exact ⟨by rw [e2]; exact hI.outQ.mono hc hdo, by rw [e1]; exact hI.delayQ.removeRecords hc hdd recs, hlis.1, hlis.2⟩
  | answer lis pkts addr port =>
    obtain ⟨lis1, msg, h1, h2, rfl, rfl, hm⟩ := decide_answer hd
    obtain ⟨rest, hasm⟩ := perform_answer hp
    -- every packet handed on is stamped no later than now
    have hstamp : ∀ q ∈ (lis1.take msg addr).2, q.now ≤ e.time := by
      intro q hq
      rw [take_pkts] at hq
      rcases List.mem_append.mp hq with hq | hq
      · exact hI.deferred.congr h1 hc addr q hq
      · cases msg with
        | none => simp at hq
        | some m => simp at hq; subst hq; rw [hm q rfl]; exact Int.le_refl _
    have hlisD : DefOK (lis1.take msg addr).1 e.time := by
      intro b q hq
      by_cases hb : b = addr
      · subst hb; rw [take_deferredOf_same] at hq; cases hq
      · rw [take_deferredOf_other _ _ _ _ hb] at hq
        exact hI.deferred.congr h1 hc b q hq
    have hlisT : TimerInv (lis1.take msg addr).1 := (hI.timers.congr h1 h2).take msg addr
    cases hqa : asyncResponse (lis1.take msg addr).2 (Gen.Reply.ucast_source port) e.seen with
    | none =>
      obtain ⟨_, hr⟩ := assemble_none hasm hqa
      have e1 : actAdds false e.time e.seen (.answer (lis1.take msg addr).1 (lis1.take msg addr).2 addr port) = [] := by
        simp only [actAdds, hqa]; cases (lis1.take msg addr).2.head? <;> rfl
      have e2 : actAdds true e.time e.seen (.answer (lis1.take msg addr).1 (lis1.take msg addr).2 addr port) = [] := by
        simp only [actAdds, hqa]; cases (lis1.take msg addr).2.head? <;> rfl
      rw [e1, e2, hr, List.append_nil, List.append_nil]
      exact ⟨hI.outQ.mono hc hdo, hI.delayQ.mono hc hdd, hlisD, hlisT⟩
    | some qa =>
      obtain ⟨first, hf, _, hlis, hq1, hq2⟩ := assemble_spec hasm hqa
      have hfirst : first.now ≤ e.time := hstamp first (List.mem_of_mem_head? hf)
      have e1 : actAdds false e.time e.seen (.answer (lis1.take msg addr).1 (lis1.take msg addr).2 addr port) =
          if qa.mcastAgg.isEmpty then [] else [⟨e.time, first.now, qa.mcastAgg.keys⟩] := by
        simp only [actAdds, hqa, hf, Bool.false_eq_true, if_false]
      have e2 : actAdds true e.time e.seen (.answer (lis1.take msg addr).1 (lis1.take msg addr).2 addr port) =
          if qa.mcastLast.isEmpty then [] else [⟨e.time, first.now, qa.mcastLast.keys⟩] := by
        simp only [actAdds, hqa, hf, if_true]
      rw [e1, e2]
      refine ⟨?_, ?_, by rw [hlis]; exact hlisD, by rw [hlis]; exact hlisT⟩
      · by_cases hE : qa.mcastAgg.isEmpty = true
        · rw [if_pos hE, List.append_nil, hq1.1 hE]; exact hI.outQ.mono hc hdo
        · have hE' : qa.mcastAgg.isEmpty = false := by simpa using hE
          obtain ⟨d, hd1, hd2, heq⟩ := hq1.2 hE'
          rw [if_neg hE, heq]
          exact hI.outQ.add outQP_ok hc hfirst hd1 hd2 hdo
      · by_cases hE : qa.mcastLast.isEmpty = true
        · rw [if_pos hE, List.append_nil, hq2.1 hE]; exact hI.delayQ.mono hc hdd
        · have hE' : qa.mcastLast.isEmpty = false := by simpa using hE
          obtain ⟨d, hd1, hd2, heq⟩ := hq2.2 hE'
          rw [if_neg hE, heq]
          exact hI.delayQ.add delayQP_ok hc hfirst hd1 hd2 hdd

end Zc.Reply
