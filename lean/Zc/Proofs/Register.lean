import Zc.Proofs.RegisterFuel
/-! Helper lemmas for C09: what one block of `async_check_service` does, and the invariants of a run of blocks. -/
namespace Zc.Register
open Zc Zc.GenFacts.Register

/-- the possible results of one block entered with fewer than three probes sent and the clock not past the next probe instant -/
inductive BlockRes (env : Env) (st : PState) : PState × List Pkt × Outcome → Prop
  /-- woken early (notification), name still free: sleep for the remainder, nothing is sent -/
  | sleep : conflict env.bucket st.now st.svc.name = false → st.now < st.nextTime →
      BlockRes env st (st, [], .wait (st.nextTime - st.now))
  /-- name free, probe instant reached, not the last probe -/
  | probe : conflict env.bucket st.now st.svc.name = false → st.now = st.nextTime → st.i + 1 < 3 →
      BlockRes env st ({ st with i := st.i + 1, nextTime := st.nextTime + 175 }, [probePkt st.svc], .wait 175)
  /-- name free, third probe: the check is over -/
  | last : conflict env.bucket st.now st.svc.name = false → st.now = st.nextTime → st.i + 1 = 3 →
      BlockRes env st ({ st with i := st.i + 1, nextTime := st.nextTime + 175 }, [probePkt st.svc], .done)
  | nonUnique : conflict env.bucket st.now st.svc.name = true → env.allow = false →
      BlockRes env st (st, [], .raised .nonUnique)
  /-- conflict, renamed to the first free valid candidate `n`; probing restarts at once -/
  | renamed (n : Nat) : conflict env.bucket st.now st.svc.name = true → env.allow = true → st.nextInst ≤ n → Chain env st n →
      env.valid (mkName st.inst n st.svc.type) = true → conflict env.bucket st.now (mkName st.inst n st.svc.type) = false →
      BlockRes env st ({ renamedTo st n with i := 1, nextTime := st.now + 175 }, [probePkt (renamedTo st n).svc], .wait 175)
  | badType (n : Nat) (st' : PState) : conflict env.bucket st.now st.svc.name = true → env.allow = true → st.nextInst ≤ n → Chain env st n →
      env.valid (mkName st.inst n st.svc.type) = false → st'.svc.name = mkName st.inst n st.svc.type →
      BlockRes env st (st', [], .raised .badType)

theorem outer_succ (env : Env) (f : Nat) (st : PState) (out : List Pkt) :
    outer env (f + 1) st out =
      if Gen.Register.probe_continue st.i then
        match rename env (env.bucket.length + 2) st with
        | (st', some o) => (st', out, o)
        | (st', none) =>
          if Gen.Register.must_wait st'.now st'.nextTime then
            (st', out, .wait (Gen.Register.wait_timeout st'.now st'.nextTime))
          else
            outer env f { st' with i := Gen.Register.next_probe_count st'.i, nextTime := Gen.Register.next_probe_time st'.nextTime }
              (out ++ [probePkt st'.svc])
      else (st, out, .done) := by
  rfl

/-- a free name stays free for the rest of the block: the second pass of the loop neither renames nor fails -/
theorem outer_after_probe (env : Env) (f : Nat) (st : PState) (out : List Pkt)
    (hfree : conflict env.bucket st.now st.svc.name = false) (hlt : st.now < st.nextTime) :
    outer env (f + 1) st out = if st.i < 3 then (st, out, .wait (st.nextTime - st.now)) else (st, out, .done) := by
  rw [outer_succ]
  have hr : rename env (env.bucket.length + 2) st = (st, none) := by
    unfold rename; simp [hfree]
  by_cases hi : st.i < 3
  · have h1 : Gen.Register.probe_continue st.i = true := (probe_continue_iff _).2 hi
    have h2 : Gen.Register.must_wait st.now st.nextTime = true := (must_wait_iff _ _).2 hlt
    simp [h1, hr, h2, wait_timeout_eq, hi]
  · have h1 : Gen.Register.probe_continue st.i = false := by
      rw [Bool.eq_false_iff]; intro h; exact hi ((probe_continue_iff _).1 h)
    simp [h1, hi]

theorem outer_res (env : Env) (f : Nat) (st : PState) (hi : st.i < 3) (hnow : st.now ≤ st.nextTime) :
    BlockRes env st (outer env (f + 2) st []) := by
  rw [outer_succ]
  have h1 : Gen.Register.probe_continue st.i = true := (probe_continue_iff _).2 hi
  simp only [h1, if_true]
  by_cases hc : conflict env.bucket st.now st.svc.name = true
  · by_cases ha' : env.allow = false
    · -- without permission to rename the loop raises at once
      have : rename env (env.bucket.length + 2) st = (st, some (.raised .nonUnique)) := by
        unfold rename; simp [hc, ha']
      rw [this]
      exact .nonUnique hc ha'
    have ha : env.allow = true := by simpa using ha'
    have hr := rename_res env (env.bucket.length + 2) st
    have hns := rename_not_stuck env st
    generalize rename env (env.bucket.length + 2) st = r at hr hns
    cases hr with
    | free hfree => simp [hfree] at hc
    | nonUnique hc ha => exact .nonUnique hc ha
    | renamed n hc ha hle hch hv hf =>
      have h2 : Gen.Register.must_wait (renamedTo st n).now (renamedTo st n).nextTime = false := by
        rw [Bool.eq_false_iff]; intro h
        have := (must_wait_iff _ _).1 h
        simp [renamedTo] at this
      simp only [h2, Bool.false_eq_true, if_false, next_probe_count_eq, next_probe_time_eq, List.nil_append]
      rw [outer_after_probe env f _ _ (by simpa [renamedTo] using hf) (by simp [renamedTo]; omega)]
      have : st.now + 175 - st.now = 175 := by omega
      simp only [renamedTo, Nat.zero_add, this]
      exact .renamed n hc ha hle hch hv hf
    | badType n st' hc ha hle hch hv hn => exact .badType n st' hc ha hle hch hv hn
    | stuck st' => exact absurd rfl (hns st')
  · have hfree : conflict env.bucket st.now st.svc.name = false := by simpa using hc
    rw [rename_free env _ st hfree]
    by_cases hlt : st.now < st.nextTime
    · have h2 : Gen.Register.must_wait st.now st.nextTime = true := (must_wait_iff _ _).2 hlt
      simp only [h2, if_true, wait_timeout_eq]
      exact .sleep hfree hlt
    · have heq : st.now = st.nextTime := by omega
      have h2 : Gen.Register.must_wait st.now st.nextTime = false := by
        rw [Bool.eq_false_iff]; intro h; exact hlt ((must_wait_iff _ _).1 h)
      simp only [h2, Bool.false_eq_true, if_false, next_probe_count_eq, next_probe_time_eq, List.nil_append]
      rw [outer_after_probe env f _ _ (by simpa using hfree) (by simp; omega)]
      by_cases h3 : st.i + 1 < 3
      · simp only [h3, if_true]
        have : st.nextTime + 175 - st.now = 175 := by omega
        rw [this]
        exact .probe hfree heq h3
      · simp only [h3, if_false]
        exact .last hfree heq (by omega)

theorem outerFuel_eq : outerFuel = 3 + 2 := by simp [outerFuel, broadcast_count_eq]

theorem start_res (env : Env) (svc : Svc) (inst : String) (now : Int) :
    BlockRes env (PState.init svc inst now) (startBlock env svc inst now) := by
  unfold startBlock; rw [outerFuel_eq]
  exact outer_res env 3 _ (by simp [PState.init]) (by simp [PState.init])

theorem resume_res (env : Env) (st : PState) (now : Int) (hi : st.i < 3) (hnow : now ≤ st.nextTime) :
    BlockRes env { st with now := now } (resumeBlock env st now) := by
  unfold resumeBlock; rw [outerFuel_eq]
  exact outer_res env 3 _ hi hnow

/-- the configuration a block result leads to -/
def Cfg.after (c : Cfg) (now : Int) (r : PState × List Pkt × Outcome) : Cfg :=
  { st := r.1, phase := phaseOf now r.2.2, sent := c.sent ++ r.2.1.map (fun p => (now, p)) }

theorem start_eq (env : Env) (svc : Svc) (inst : String) (now : Int) :
    Cfg.start env svc inst now = Cfg.after { st := PState.init svc inst now, phase := .stuck, sent := [] } now (startBlock env svc inst now) := by
  simp [Cfg.start, Cfg.after]

theorem wake_some (env : Env) (c c' : Cfg) (now : Int) (h : c.wake env now = some c') :
    ∃ due, c.phase = .waiting due ∧ c.st.now ≤ now ∧ now ≤ due ∧ c' = c.after now (resumeBlock env c.st now) := by
  unfold Cfg.wake at h
  split at h
  · rename_i due hph
    split at h
    · rename_i hcond
      refine ⟨due, hph, hcond.1, hcond.2, ?_⟩
      simp only [Option.some.injEq] at h
      rw [← h]; rfl
    · simp at h
  · simp at h

/-! ### the probes of the current sequence -/

/-- `i` probes for `svc`, 175 ms apart, the first at `T` -/
def seqProbes (T : Int) (svc : Svc) (i : Nat) : List (Int × Pkt) :=
  (List.range i).map (fun (k : Nat) => (T + 175 * (k : Int), probePkt svc))

theorem seqProbes_succ (T : Int) (svc : Svc) (i : Nat) :
    seqProbes T svc (i + 1) = seqProbes T svc i ++ [(T + 175 * (i : Int), probePkt svc)] := by
  simp [seqProbes, List.range_succ]

/-- what was sent ends with the probes of the current sequence, and the next probe instant follows them -/
def Seq (sent : List (Int × Pkt)) (st : PState) : Prop :=
  ∃ T older, sent = older ++ seqProbes T st.svc st.i ∧ st.nextTime = T + 175 * (st.i : Int)

/-- invariant of every configuration reachable from `Cfg.start` -/
def Inv (c : Cfg) : Prop :=
  match c.phase with
  | .waiting due => Seq c.sent c.st ∧ due = c.st.nextTime ∧ c.st.now < c.st.nextTime ∧ c.st.i < 3
  | .done => Seq c.sent c.st ∧ c.st.i = 3 ∧ c.st.now + 175 = c.st.nextTime
  | _ => True

theorem block_inv (env : Env) (st₀ : PState) (sent : List (Int × Pkt)) (r : PState × List Pkt × Outcome)
    (hseq : Seq sent st₀) (hi : st₀.i < 3) (hr : BlockRes env st₀ r) :
    Inv { st := r.1, phase := phaseOf st₀.now r.2.2, sent := sent ++ r.2.1.map (fun p => (st₀.now, p)) } := by
  obtain ⟨T, older, hs, hn⟩ := hseq
  cases hr with
  | sleep hf hlt =>
    simp only [Inv, phaseOf, List.map_nil, List.append_nil]
    exact ⟨⟨T, older, hs, hn⟩, by omega, hlt, hi⟩
  | probe hf heq h3 =>
    simp only [Inv, phaseOf, List.map_cons, List.map_nil]
    refine ⟨⟨T, older, ?_, ?_⟩, by omega, by omega, h3⟩
    · rw [seqProbes_succ, hs, List.append_assoc, heq, hn]
    · simp only [hn]; push_cast; omega
  | last hf heq h3 =>
    simp only [Inv, phaseOf, List.map_cons, List.map_nil]
    refine ⟨⟨T, older, ?_, ?_⟩, h3, by omega⟩
    · rw [seqProbes_succ, hs, List.append_assoc, heq, hn]
    · simp only [hn]; push_cast; omega
  | nonUnique hc ha => simp [Inv, phaseOf]
  | renamed n hc ha hle hch hv hf =>
    simp only [Inv, phaseOf, List.map_cons, List.map_nil]
    refine ⟨⟨st₀.now, sent, ?_, ?_⟩, by simp [renamedTo], by simp [renamedTo]; omega, by simp [renamedTo]⟩
    · simp [seqProbes, renamedTo]
    · simp [renamedTo]
  | badType n st' hc ha hle hch hv hn => simp [Inv, phaseOf]

theorem start_inv (env : Env) (svc : Svc) (inst : String) (now : Int) : Inv (Cfg.start env svc inst now) := by
  rw [start_eq]
  have h := block_inv env (PState.init svc inst now) [] (startBlock env svc inst now)
    ⟨now, [], by simp [seqProbes, PState.init], by simp [PState.init]⟩ (by simp [PState.init]) (start_res env svc inst now)
  simpa [Cfg.after, PState.init] using h

theorem wake_inv (env : Env) (c c' : Cfg) (now : Int) (hinv : Inv c) (h : c.wake env now = some c') : Inv c' := by
  obtain ⟨due, hph, h1, h2, rfl⟩ := wake_some env c c' now h
  simp only [Inv, hph] at hinv
  obtain ⟨hseq, hdue, hlt, hi⟩ := hinv
  have hr := resume_res env c.st now hi (by omega)
  have := block_inv env { c.st with now := now } c.sent (resumeBlock env c.st now) hseq hi hr
  simpa [Cfg.after] using this

theorem run_inv (allow : Bool) (valid : String → Bool) : ∀ (ws : List Wake) (c c' : Cfg), Inv c → c.run allow valid ws = some c' → Inv c' := by
  intro ws
  induction ws with
  | nil => intro c c' hinv h; simp [Cfg.run] at h; rw [← h]; exact hinv
  | cons w ws ih =>
    intro c c' hinv h
    simp only [Cfg.run] at h
    split at h
    · rename_i c1 hw
      exact ih c1 c' (wake_inv _ c c1 w.now hinv hw) h
    · simp at h

/-! ### everything the check sends is a probe -/

def AllProbes (sent : List (Int × Pkt)) : Prop := ∀ x ∈ sent, ∃ s, x.2 = probePkt s

theorem blockres_probes (env : Env) (st : PState) (r : PState × List Pkt × Outcome) (hr : BlockRes env st r) :
    ∀ p ∈ r.2.1, ∃ s, p = probePkt s := by
  cases hr <;> simp

theorem after_probes (c : Cfg) (now : Int) (env : Env) (st : PState) (r : PState × List Pkt × Outcome) (hp : AllProbes c.sent)
    (hr : BlockRes env st r) : AllProbes (c.after now r).sent := by
  intro x hx
  simp only [Cfg.after, List.mem_append, List.mem_map] at hx
  rcases hx with hx | ⟨p, hp', rfl⟩
  · exact hp x hx
  · exact blockres_probes env st r hr p hp'

theorem run_inv_probes (allow : Bool) (valid : String → Bool) : ∀ (ws : List Wake) (c c' : Cfg), Inv c → AllProbes c.sent →
    c.run allow valid ws = some c' → Inv c' ∧ AllProbes c'.sent := by
  intro ws
  induction ws with
  | nil => intro c c' hinv hp h; simp [Cfg.run] at h; rw [← h]; exact ⟨hinv, hp⟩
  | cons w ws ih =>
    intro c c' hinv hp h
    simp only [Cfg.run] at h
    split at h
    · rename_i c1 hw
      have hinv1 := wake_inv _ c c1 w.now hinv hw
      obtain ⟨due, hph, h1, h2, rfl⟩ := wake_some _ c c1 w.now hw
      simp only [Inv, hph] at hinv
      obtain ⟨_, hdue, hlt, hi⟩ := hinv
      have hr := resume_res { allow, valid, bucket := w.bucket } c.st w.now hi (by omega)
      exact ih _ c' hinv1 (after_probes c w.now _ _ _ hp hr) h
    · simp at h

theorem start_probes (env : Env) (svc : Svc) (inst : String) (now : Int) : AllProbes (Cfg.start env svc inst now).sent := by
  rw [start_eq]
  exact after_probes _ now env _ _ (by intro x hx; simp at hx) (start_res env svc inst now)

/-! ### names only move forward: `base`, `-2`, `-3`, … -/

/-- the name the info carries when the next unused suffix is `k` -/
def nameOf (inst type base : String) (k : Nat) : String := if k = 2 then base else mkName inst (k - 1) type

theorem nameOf_inj (inst type : String) (a b : Nat) (ha : 2 ≤ a) (hb : 2 ≤ b)
    (h : nameOf inst type (inst ++ "." ++ type) a = nameOf inst type (inst ++ "." ++ type) b) : a = b := by
  unfold nameOf at h
  by_cases h2a : a = 2 <;> by_cases h2b : b = 2 <;> simp [h2a, h2b] at h
  · omega
  · exact absurd h.symm (mkName_ne_base inst type _)
  · exact absurd h (mkName_ne_base inst type _)
  · have := mkName_inj inst type _ _ h; omega

/-- while the check is alive the info's name is determined by the suffix counter, which never falls below `k` -/
def NInv (inst type base : String) (k : Nat) (c : Cfg) : Prop :=
  match c.phase with
  | .waiting _ | .done =>
      c.st.inst = inst ∧ c.st.svc.type = type ∧ k ≤ c.st.nextInst ∧ 2 ≤ c.st.nextInst ∧ c.st.svc.name = nameOf inst type base c.st.nextInst
  | _ => True

theorem block_ninv (env : Env) (inst type base : String) (k : Nat) (st₀ : PState) (sent : List (Int × Pkt)) (r : PState × List Pkt × Outcome)
    (h1 : st₀.inst = inst) (h2 : st₀.svc.type = type) (h3 : k ≤ st₀.nextInst) (h4 : 2 ≤ st₀.nextInst)
    (h5 : st₀.svc.name = nameOf inst type base st₀.nextInst) (hr : BlockRes env st₀ r) :
    NInv inst type base k { st := r.1, phase := phaseOf st₀.now r.2.2, sent := sent } := by
  cases hr with
  | sleep _ _ => exact ⟨h1, h2, h3, h4, h5⟩
  | probe _ _ _ => exact ⟨h1, h2, h3, h4, h5⟩
  | last _ _ _ => exact ⟨h1, h2, h3, h4, h5⟩
  | nonUnique _ _ => simp [NInv, phaseOf]
  | renamed n _ _ hle _ _ _ =>
    simp only [NInv, phaseOf, renamedTo]
    refine ⟨h1, h2, by omega, by omega, ?_⟩
    have : n + 1 ≠ 2 := by omega
    simp [nameOf, this, h1, h2]
  | badType _ _ _ _ _ _ _ _ => simp [NInv, phaseOf]

theorem start_ninv (env : Env) (svc : Svc) (inst : String) (now : Int) : NInv inst svc.type svc.name 2 (Cfg.start env svc inst now) := by
  rw [start_eq]
  have := block_ninv env inst svc.type svc.name 2 (PState.init svc inst now) ([] ++ (startBlock env svc inst now).2.1.map (fun p => (now, p)))
    (startBlock env svc inst now) rfl rfl (by simp [PState.init]) (by simp [PState.init]) (by simp [PState.init, nameOf])
    (start_res env svc inst now)
  simpa [Cfg.after, PState.init] using this

theorem wake_ninv (env : Env) (inst type base : String) (k : Nat) (c c' : Cfg) (now : Int) (hinv : Inv c) (hn : NInv inst type base k c)
    (h : c.wake env now = some c') : NInv inst type base k c' := by
  obtain ⟨due, hph, h1, h2, rfl⟩ := wake_some env c c' now h
  simp only [Inv, hph] at hinv
  obtain ⟨_, hdue, hlt, hi⟩ := hinv
  simp only [NInv, hph] at hn
  obtain ⟨a1, a2, a3, a4, a5⟩ := hn
  have hr := resume_res env c.st now hi (by omega)
  have := block_ninv env inst type base k { c.st with now := now } (c.sent ++ (resumeBlock env c.st now).2.1.map (fun p => (now, p)))
    (resumeBlock env c.st now) a1 a2 a3 a4 a5 hr
  simpa [Cfg.after] using this

theorem run_ninv (allow : Bool) (valid : String → Bool) (inst type base : String) (k : Nat) :
    ∀ (ws : List Wake) (c c' : Cfg), Inv c → NInv inst type base k c → c.run allow valid ws = some c' → NInv inst type base k c' := by
  intro ws
  induction ws with
  | nil => intro c c' _ hn h; simp [Cfg.run] at h; rw [← h]; exact hn
  | cons w ws ih =>
    intro c c' hinv hn h
    simp only [Cfg.run] at h
    split at h
    · rename_i c1 hw
      exact ih c1 c' (wake_inv _ c c1 w.now hinv hw) (wake_ninv _ inst type base k c c1 w.now hinv hn hw) h
    · simp at h

/-- a check that is not waiting takes no further block -/
theorem run_not_waiting (allow : Bool) (valid : String → Bool) (c c' : Cfg) (ws : List Wake) (hnw : ∀ due, c.phase ≠ .waiting due)
    (h : c.run allow valid ws = some c') : c' = c := by
  cases ws with
  | nil => simp [Cfg.run] at h; exact h.symm
  | cons w ws =>
    simp only [Cfg.run] at h
    split at h
    · rename_i c1 hw
      obtain ⟨due, hph, _⟩ := wake_some _ c c1 w.now hw
      exact absurd hph (hnw due)
    · simp at h

/-! ### the run without conflicts -/

/-- invariant of a run in which no check ever sees the name in the cache; `t0` is the start of the registration -/
def QInv (svc : Svc) (t0 : Int) (c : Cfg) : Prop :=
  c.st.svc = svc ∧ c.sent = seqProbes t0 svc c.st.i ∧ c.st.nextTime = t0 + 175 * (c.st.i : Int) ∧
  match c.phase with
  | .waiting due => due = c.st.nextTime ∧ c.st.now < c.st.nextTime ∧ c.st.i < 3 ∧ 0 < c.st.i
  | .done => c.st.i = 3 ∧ c.st.now + 175 = c.st.nextTime
  | _ => False

theorem block_qinv (env : Env) (svc : Svc) (t0 : Int) (st₀ : PState) (r : PState × List Pkt × Outcome)
    (hsvc : st₀.svc = svc) (hn : st₀.nextTime = t0 + 175 * (st₀.i : Int)) (hi : st₀.i < 3)
    (h0 : st₀.now < st₀.nextTime → 0 < st₀.i)
    (hq : conflict env.bucket st₀.now svc.name = false) (hr : BlockRes env st₀ r) :
    QInv svc t0 { st := r.1, phase := phaseOf st₀.now r.2.2, sent := seqProbes t0 svc st₀.i ++ r.2.1.map (fun p => (st₀.now, p)) } := by
  subst hsvc
  cases hr with
  | sleep hf hlt =>
    simp only [QInv, phaseOf, List.map_nil, List.append_nil]
    exact ⟨trivial, trivial, hn, by omega, hlt, hi, h0 hlt⟩
  | probe hf heq h3 =>
    simp only [QInv, phaseOf, List.map_cons, List.map_nil]
    refine ⟨trivial, ?_, ?_, by omega, by omega, h3, by omega⟩
    · rw [seqProbes_succ, heq, hn]
    · simp only [hn]; push_cast; omega
  | last hf heq h3 =>
    simp only [QInv, phaseOf, List.map_cons, List.map_nil]
    refine ⟨trivial, ?_, ?_, h3, by omega⟩
    · rw [seqProbes_succ, heq, hn]
    · simp only [hn]; push_cast; omega
  | nonUnique hc ha => simp [hq] at hc
  | renamed n hc ha hle hch hv hf => simp [hq] at hc
  | badType n st' hc ha hle hch hv hn => simp [hq] at hc

theorem start_qinv (env : Env) (svc : Svc) (inst : String) (now : Int)
    (hq : conflict env.bucket now svc.name = false) : QInv svc now (Cfg.start env svc inst now) := by
  rw [start_eq]
  have h := block_qinv env svc now (PState.init svc inst now) (startBlock env svc inst now) rfl
    (by simp [PState.init]) (by simp [PState.init]) (by simp [PState.init]) hq (start_res env svc inst now)
  simpa [Cfg.after, PState.init, seqProbes] using h

theorem wake_qinv (env : Env) (svc : Svc) (t0 : Int) (c c' : Cfg) (now : Int) (hinv : QInv svc t0 c)
    (hq : conflict env.bucket now svc.name = false) (h : c.wake env now = some c') : QInv svc t0 c' := by
  obtain ⟨due, hph, h1, h2, rfl⟩ := wake_some env c c' now h
  obtain ⟨hsvc, hsent, hn, hrest⟩ := hinv
  simp only [hph] at hrest
  obtain ⟨hdue, hlt, hi, hpos⟩ := hrest
  have hr := resume_res env c.st now hi (by omega)
  have := block_qinv env svc t0 { c.st with now := now } (resumeBlock env c.st now) hsvc hn hi (fun _ => hpos) hq hr
  simpa [Cfg.after, hsent] using this

theorem run_qinv (allow : Bool) (valid : String → Bool) (svc : Svc) (t0 : Int) :
    ∀ (ws : List Wake) (c c' : Cfg), QInv svc t0 c → (∀ w ∈ ws, conflict w.bucket w.now svc.name = false) →
      c.run allow valid ws = some c' → QInv svc t0 c' := by
  intro ws
  induction ws with
  | nil => intro c c' hinv _ h; simp [Cfg.run] at h; rw [← h]; exact hinv
  | cons w ws ih =>
    intro c c' hinv hq h
    simp only [Cfg.run] at h
    split at h
    · rename_i c1 hw
      exact ih c1 c' (wake_qinv _ svc t0 c c1 w.now hinv (hq w (by simp)) hw) (fun w' hw' => hq w' (by simp [hw'])) h
    · simp at h

end Zc.Register
