import Zc.Proofs.ResponseComplete
/-! `async_response` as a whole, both directions: which records end up in each of the four sets of the `QuestionAnswers`, exactly.
(`Proofs/ResponseComplete.lean` has the inclusion half; the second review of C11 asked for the exclusion half at query level.) -/
namespace Zc.Reply
open Zc.Reply.GenFacts

/-- one routing step, all four sets, both directions -/
theorem route_sets (us probe : Bool) (seen : SeenMap) (now : Int) (nq q0 : Nat) (qr : QR) (qu : Bool) (answers : Dict) (r : RecId) :
    (r ∈ (qr.route us probe seen now nq q0 qu answers).ucast ↔
      r ∈ qr.ucast ∨ (r ∈ answers.keys ∧ (if (!us && qu) = true then (probe = true ∨ withinQuarter (seen.get r) now = true) else us = true))) ∧
    (r ∈ (qr.route us probe seen now nq q0 qu answers).mcastNow ↔
      r ∈ qr.mcastNow ∨ (r ∈ answers.keys ∧ (if (!us && qu) = true then withinQuarter (seen.get r) now = false
                                              else mcRoute probe (inLastSecond (seen.get r) now) nq q0 = .now))) ∧
    (r ∈ (qr.route us probe seen now nq q0 qu answers).mcastAgg ↔
      r ∈ qr.mcastAgg ∨ (r ∈ answers.keys ∧ (!us && qu) = false ∧ mcRoute probe (inLastSecond (seen.get r) now) nq q0 = .aggregate)) ∧
    (r ∈ (qr.route us probe seen now nq q0 qu answers).mcastLast ↔
      r ∈ qr.mcastLast ∨ (r ∈ answers.keys ∧ (!us && qu) = false ∧ mcRoute probe (inLastSecond (seen.get r) now) nq q0 = .lastSecond)) := by
  simp only [QR.route, GenFacts.route_qu_only]
  by_cases hq : (!us && qu) = true
  · simp only [hq, if_true]
    obtain ⟨h1, h2, h3, h4⟩ := addQu_sets probe seen now answers qr r
    refine ⟨h1, h2, ?_, ?_⟩
    · rw [h3]; simp
    · rw [h4]; simp
  · have hq' : (!us && qu) = false := by simpa using hq
    simp only [hq', Bool.false_eq_true, if_false, true_and]
    cases us
    · simp only [Bool.false_eq_true, if_false]
      obtain ⟨m1, m2, m3, m4⟩ := addMcast_sets probe seen now nq q0 answers qr r
      refine ⟨?_, m1, m3, m2⟩
      rw [m4]; simp
    · simp only [if_true]
      obtain ⟨u1, u2, u3, u4⟩ := addUcast_sets answers qr r
      obtain ⟨m1, m2, m3, m4⟩ := addMcast_sets probe seen now nq q0 answers (qr.addUcast answers) r
      refine ⟨?_, ?_, ?_, ?_⟩
      · rw [m4, u1]; simp
      · rw [m1, u2]
      · rw [m3, u3]
      · rw [m2, u4]

/-- folding steps that each add "the answers of the item that satisfy `cond`" to a set -/
theorem foldl_sets {step : QR → QItem → QR} {π : QR → List RecId} {S : QItem → List RecId} {cond : QItem → RecId → Prop}
    (hstep : ∀ qr it r, r ∈ π (step qr it) ↔ r ∈ π qr ∨ (r ∈ S it ∧ cond it r)) :
    ∀ (items : List QItem) (qr : QR) (r : RecId),
      r ∈ π (items.foldl step qr) ↔ r ∈ π qr ∨ ∃ it ∈ items, r ∈ S it ∧ cond it r := by
  intro items
  induction items with
  | nil => intro qr r; simp
  | cons it items ih =>
    intro qr r
    simp only [List.foldl_cons]
    rw [ih, hstep]
    constructor
    · rintro ((h | h) | ⟨it', hit', h⟩)
      · exact Or.inl h
      · exact Or.inr ⟨it, by simp, h⟩
      · exact Or.inr ⟨it', by simp [hit'], h⟩
    · rintro (h | ⟨it', hit', h⟩)
      · exact Or.inl (Or.inl h)
      · rcases List.mem_cons.mp hit' with rfl | hm
        · exact Or.inl (Or.inr h)
        · exact Or.inr ⟨it', hm, h⟩

/-- **What `async_response` returns, exactly.**  A record is in the unicast set / multicast-at-once set / aggregation set /
last-second set of the `QuestionAnswers` iff it is an unsuppressed candidate answer of some question strategy `it` of some packet
that the routing rule sends there: for a strategy routed "QU from port 5353" (`!us && it.qu`) unicast iff probe or seen within a
quarter of the TTL, multicast at once iff not seen within a quarter, never queued; for every other strategy unicast iff the source
is a legacy one, and the multicast set the per-record cascade `mcRoute` names. -/
theorem asyncResponse_exact {pkts : List Pkt} {us : Bool} {seen : SeenMap} {qa : QA} (h : asyncResponse pkts us seen = some qa)
    {first last : Pkt} (hf : pkts.head? = some first) (hl : pkts.getLast? = some last) (r : RecId) :
    let probe := pkts.any (·.isProbe)
    let cand := fun (it : QItem) => r ∈ (answerSet (unionKnown pkts) it).keys
    let items := pkts.flatMap (·.items)
    (r ∈ qa.ucast.keys ↔ ∃ it ∈ items, cand it ∧
        (if (!us && it.qu) = true then (probe = true ∨ withinQuarter (seen.get r) last.now = true) else us = true)) ∧
    (r ∈ qa.mcastNow.keys ↔ ∃ it ∈ items, cand it ∧
        (if (!us && it.qu) = true then withinQuarter (seen.get r) last.now = false
         else mcRoute probe (inLastSecond (seen.get r) last.now) first.nq first.q0type = .now)) ∧
    (r ∈ qa.mcastAgg.keys ↔ ∃ it ∈ items, cand it ∧ (!us && it.qu) = false ∧
        mcRoute probe (inLastSecond (seen.get r) last.now) first.nq first.q0type = .aggregate) ∧
    (r ∈ qa.mcastLast.keys ↔ ∃ it ∈ items, cand it ∧ (!us && it.qu) = false ∧
        mcRoute probe (inLastSecond (seen.get r) last.now) first.nq first.q0type = .lastSecond) := by
  obtain ⟨first', last', hf', hl', rfl⟩ := asyncResponse_eq h
  rw [hf] at hf'; rw [hl] at hl'; cases hf'; cases hl'
  obtain ⟨k1, k2, k3, k4⟩ := answers_keys
    (List.foldl (fun (qr : QR) it => qr.route us (pkts.any (·.isProbe)) seen last.now first.nq first.q0type it.qu
      (answerSet (unionKnown pkts) it)) {} (pkts.flatMap (·.items)))
  intro probe cand items
  rw [k1, k2, k3, k4]
  refine ⟨?_, ?_, ?_, ?_⟩
  · rw [foldl_sets (π := QR.ucast) (S := fun it => (answerSet (unionKnown pkts) it).keys)
      (cond := fun it r => if (!us && it.qu) = true then (probe = true ∨ withinQuarter (seen.get r) last.now = true) else us = true)
      (fun qr it r => (route_sets us probe seen last.now first.nq first.q0type qr it.qu _ r).1)]
    simp [cand, items]
  · rw [foldl_sets (π := QR.mcastNow) (S := fun it => (answerSet (unionKnown pkts) it).keys)
      (cond := fun it r => if (!us && it.qu) = true then withinQuarter (seen.get r) last.now = false
        else mcRoute probe (inLastSecond (seen.get r) last.now) first.nq first.q0type = .now)
      (fun qr it r => (route_sets us probe seen last.now first.nq first.q0type qr it.qu _ r).2.1)]
    simp [cand, items]
  · rw [foldl_sets (π := QR.mcastAgg) (S := fun it => (answerSet (unionKnown pkts) it).keys)
      (cond := fun it r => (!us && it.qu) = false ∧ mcRoute probe (inLastSecond (seen.get r) last.now) first.nq first.q0type = .aggregate)
      (fun qr it r => (route_sets us probe seen last.now first.nq first.q0type qr it.qu _ r).2.2.1)]
    simp [cand, items]
  · rw [foldl_sets (π := QR.mcastLast) (S := fun it => (answerSet (unionKnown pkts) it).keys)
      (cond := fun it r => (!us && it.qu) = false ∧ mcRoute probe (inLastSecond (seen.get r) last.now) first.nq first.q0type = .lastSecond)
      (fun qr it r => (route_sets us probe seen last.now first.nq first.q0type qr it.qu _ r).2.2.2)]
    simp [cand, items]

end Zc.Reply
