import Zc.Model.QueryGen
import Zc.GenFacts.History
/-! Helper lemmas for C13 (question history, known answers, bucket grouping, request loop). -/
namespace Zc.QueryGen
open Zc Zc.GenFacts.History

variable (lower : String → String)

theorem question_beq_refl (q : Question) : q.beq lower q = true := by
  simp [Question.beq]

/-! ### history -/

theorem get_add (h : History) (q : Question) (now : Int) (known : List Rec) :
    (h.add lower q now known).get lower q = some { q, time := now, known } := by
  simp [History.add, History.get, List.find?_cons, question_beq_refl]

theorem suppresses_iff (h : History) (q : Question) (now : Int) (known : List Rec) :
    h.suppresses lower q now known = true ↔
      ∃ e, h.get lower q = some e ∧ now - e.time ≤ 999 ∧ ∀ r ∈ e.known, ∃ k ∈ known, r.beq lower k = true := by
  unfold History.suppresses
  cases hg : h.get lower q with
  | none => simp
  | some e =>
    simp only [Option.some.injEq, exists_eq_left']
    by_cases hold : Gen.History.too_old now e.time = true
    · have := (too_old_iff _ _).1 hold
      simp only [hold, if_true]
      constructor
      · intro hh; cases hh
      · rintro ⟨h1, _⟩; omega
    · have hn : ¬ (999 < now - e.time) := fun hh => hold ((too_old_iff _ _).2 hh)
      simp only [hold]
      by_cases hsub : subsetOf lower e.known known = true
      · simp only [hsub]
        simp only [Bool.not_true, Bool.false_eq_true, if_false, true_iff]
        refine ⟨by omega, ?_⟩
        simpa [subsetOf, List.all_eq_true, List.any_eq_true] using hsub
      · simp only [hsub]
        constructor
        · intro hh; simp at hh
        · rintro ⟨_, h2⟩
          exact absurd (by simpa [subsetOf, List.all_eq_true, List.any_eq_true] using h2) hsub

/-! ### known answers -/

theorem mem_knownAnswers (cache : List Rec) (name : String) (type cls : Nat) (now : Int) (r : Rec) :
    r ∈ knownAnswers lower cache name type cls now ↔
      r ∈ cache ∧ lower r.name = lower name ∧ r.type = type ∧ r.class_ = cls ∧ now < r.created + 500 * r.ttl := by
  have hst : (r.isStale now = true) ↔ ¬ (now < r.created + 500 * r.ttl) := by
    unfold Rec.isStale; rw [is_stale_iff]; omega
  simp only [knownAnswers, matching, List.mem_filter, Bool.and_eq_true, beq_iff_eq, Bool.not_eq_true']
  constructor
  · rintro ⟨⟨h1, ⟨h2, h3⟩, h4⟩, h5⟩
    refine ⟨h1, h2, h3, h4, ?_⟩
    by_cases hh : now < r.created + 500 * r.ttl
    · exact hh
    · rw [hst.2 hh] at h5; cases h5
  · rintro ⟨h1, h2, h3, h4, h5⟩
    refine ⟨⟨h1, ⟨h2, h3⟩, h4⟩, ?_⟩
    cases hb : r.isStale now
    · rfl
    · exact absurd h5 (hst.1 hb)

theorem wireAnswer_fresh (now : Int) (r : Rec) (h : now < r.created + 500 * r.ttl) :
    wireAnswer now r = some (r, ((r.created + 1000 * r.ttl - now) / 1000).toNat) := by
  have hne : r.isExpired now = false := by
    cases hb : r.isExpired now
    · rfl
    · have := (is_expired_iff _ _ _).1 (by unfold Rec.isExpired at hb; exact hb); omega
  have hrem : r.remainingTtl now = ((r.created + 1000 * r.ttl - now) / 1000).toNat := by
    unfold Rec.remainingTtl; rw [remaining_ttl_eq _ _ _ (by omega)]
  simp [wireAnswer, hne, hrem]

/-- with the query time handed over (`≠ 0`), the encoder's decision and TTL field are the specification's -/
theorem wireAnswerAt_eq (now : Int) (hn : now ≠ 0) (r : Rec) : wireAnswerAt now r = wireAnswer now r := by
  unfold wireAnswerAt wireAnswer
  rw [answer_accepted_iff now hn, ttl_field_nonzero _ _ _ hn]
  cases r.isExpired now <;> simp

theorem filterMap_eq_map_of_some {α β : Type} (f : α → Option β) (g : α → β) :
    ∀ (l : List α), (∀ x ∈ l, f x = some (g x)) → l.filterMap f = l.map g
  | [], _ => rfl
  | x :: t, h => by
    rw [List.filterMap_cons, h x (by simp)]
    simp only [List.map_cons]
    rw [filterMap_eq_map_of_some f g t (fun y hy => h y (List.mem_cons_of_mem _ hy))]

/-- what is emitted for the known answers of a question asked at `now ≠ 0`: every one of them, with its remaining TTL -/
theorem wire_of_known (cache : List Rec) (name : String) (type cls : Nat) (now t : Int) (ht : t = now) (hn : now ≠ 0) :
    (knownAnswers lower cache name type cls now).filterMap (wireAnswerAt t) =
      (knownAnswers lower cache name type cls now).map (fun r => (r, ((r.created + 1000 * r.ttl - now) / 1000).toNat)) := by
  subst ht
  apply filterMap_eq_map_of_some
  intro r hr
  rw [wireAnswerAt_eq t hn]
  exact wireAnswer_fresh t r ((mem_knownAnswers lower cache name type cls t r).1 hr).2.2.2.2

/-! ### bucket grouping -/

theorem place_perm (m : Nat) (it : Nat × QOut) (bs : List Bucket) :
    ((place m it bs).flatMap (·.items)).Perm (it :: bs.flatMap (·.items)) := by
  induction bs with
  | nil => simp [place]
  | cons b rest ih =>
    unfold place
    split
    · simp only [List.flatMap_cons, List.append_assoc, List.singleton_append]
      exact List.perm_middle
    · simp only [List.flatMap_cons]
      exact (List.Perm.append_left b.items ih).trans List.perm_middle

theorem foldl_place_perm (m : Nat) (items : List (Nat × QOut)) (bs : List Bucket) :
    ((items.foldl (fun bs it => place m it bs) bs).flatMap (·.items)).Perm (items.reverse ++ bs.flatMap (·.items)) := by
  induction items generalizing bs with
  | nil => simp
  | cons it rest ih =>
    simp only [List.foldl_cons, List.reverse_cons, List.append_assoc, List.singleton_append]
    exact (ih (place m it bs)).trans (List.Perm.append_left _ (place_perm m it bs))

/-! ### the request loop -/

/-- the requests generated over an arbitrary sequence of wake-ups `(now, jitter draw)` -/
def Loop.asks (forced : Option Bool) : Loop → List (Int × Nat) → List (Int × Bool)
  | _, [] => []
  | l, (now, d) :: es =>
    match l.iter forced now d with
    | (.timeout, _) => []
    | (.ask qu, l1) => (now, qu) :: Loop.asks forced l1 es
    | (.wait, l1) => Loop.asks forced l1 es

theorem iter_cases (l : Loop) (forced : Option Bool) (now : Int) (d : Nat) :
    (l.iter forced now d = (.timeout, l) ∧ l.last ≤ now) ∨
    (l.iter forced now d = (.wait, l) ∧ now < l.next) ∨
    (l.next ≤ now ∧ l.iter forced now d =
      (.ask (iterQu forced l.first),
       { l with first := false, next := now + l.delay + d,
                delay := if (iterQu forced l.first = false ∧ l.delay < 999) then 999 else l.delay })) := by
  unfold Loop.iter
  by_cases h1 : Gen.LookupLoop.timed_out l.last now = true
  · left; simp [h1, (timed_out_iff _ _).1 h1]
  · right
    by_cases h2 : Gen.LookupLoop.query_due l.next now = true
    · right
      refine ⟨(query_due_iff _ _).1 h2, ?_⟩
      simp only [h1, h2, if_true, Bool.false_eq_true, if_false, next_base_eq, duplicateQuestionInterval_eq]
      congr 2
      by_cases hb : Gen.LookupLoop.delay_bump (!iterQu forced l.first) l.delay = true
      · have := (delay_bump_iff _ _).1 hb
        have h3 : iterQu forced l.first = false := by simpa using this.1
        rw [if_pos hb, if_pos ⟨h3, this.2⟩]; rfl
      · have hn : ¬ (iterQu forced l.first = false ∧ l.delay < 999) := by
          intro hh; apply hb; exact (delay_bump_iff _ _).2 ⟨by simp [hh.1], hh.2⟩
        rw [if_neg hb, if_neg hn]
    · left
      have : ¬ l.next ≤ now := fun hh => h2 ((query_due_iff _ _).2 hh)
      simp [h1, h2]; omega

/-- all request times are at least `lo`, consecutive ones at least `gap` apart -/
def SpacedFrom (gap lo : Int) : List (Int × Bool) → Prop
  | [] => True
  | (t, _) :: rest => lo ≤ t ∧ SpacedFrom gap (t + gap) rest

theorem spacedFrom_mono {gap lo lo' : Int} (h : lo' ≤ lo) : ∀ {l : List (Int × Bool)}, SpacedFrom gap lo l → SpacedFrom gap lo' l
  | [], _ => trivial
  | (t, _) :: _, hs => ⟨by have := hs.1; omega, hs.2⟩

/-- once the loop is in its one-second regime (`first = false`, `delay = 999`), with every jitter draw ≥ 20,
every further request is QM, not before `next`, and at least 1019 ms after the previous one -/
theorem asks_regime (forced : Option Bool) : ∀ (es : List (Int × Nat)) (l : Loop),
    l.first = false → l.delay = 999 → (∀ e ∈ es, 20 ≤ e.2) →
    SpacedFrom 1019 l.next (Loop.asks forced l es) ∧ ∀ a ∈ Loop.asks forced l es, a.2 = false := by
  intro es
  induction es with
  | nil => intro l _ _ _; simp [Loop.asks, SpacedFrom]
  | cons e rest ih =>
    intro l hf hd hdr
    obtain ⟨now, d⟩ := e
    have hd20 : 20 ≤ d := hdr (now, d) (by simp)
    have hrest : ∀ e ∈ rest, 20 ≤ e.2 := fun e he => hdr e (List.mem_cons_of_mem _ he)
    unfold Loop.asks
    rcases iter_cases l forced now d with ⟨h1, _⟩ | ⟨h1, _⟩ | ⟨hdue, h1⟩
    · rw [h1]; simp [SpacedFrom]
    · rw [h1]; exact ih l hf hd hrest
    · have hq : iterQu forced l.first = false := by simp [iterQu, hf]
      rw [hq] at h1
      rw [h1]
      have hnb : ¬ ((false : Bool) = false ∧ l.delay < 999) := by omega
      have := ih { l with first := false, next := now + l.delay + d, delay := if ((false : Bool) = false ∧ l.delay < 999) then 999 else l.delay }
        rfl (by simp only; split <;> omega) hrest
      refine ⟨⟨hdue, spacedFrom_mono (by show now + 1019 ≤ now + l.delay + ↑d; omega) this.1⟩, ?_⟩
      intro a ha
      rcases List.mem_cons.1 ha with rfl | ha
      · rfl
      · exact this.2 a ha

/-! ### the periodic clean-up of the history (`async_expire`) never changes a suppression decision -/

theorem question_beq_iff (p q : Question) : p.beq lower q = true ↔ p.specIdent lower = q.specIdent lower := by
  simp [Question.beq, Gen.Ident.questionEq, Question.field, Question.specIdent]

/-- the history is a dict: at most one entry per question -/
def History.Keyed (h : History) : Prop := h.Pairwise (fun a b => a.q.beq lower b.q = false)

theorem keyed_add {h : History} (hk : History.Keyed lower h) (q : Question) (now : Int) (known : List Rec) :
    History.Keyed lower (h.add lower q now known) := by
  unfold History.add History.Keyed
  refine List.pairwise_cons.2 ⟨?_, List.Pairwise.sublist (List.filter_sublist) hk⟩
  intro e he
  have := (List.mem_filter.1 he).2
  cases hb : q.beq lower e.q
  · rfl
  · exfalso
    have h1 := (question_beq_iff lower q e.q).1 hb
    have h2 : e.q.beq lower q = true := (question_beq_iff lower e.q q).2 h1.symm
    simp [h2] at this

theorem keyed_expire {h : History} (hk : History.Keyed lower h) (t : Int) : History.Keyed lower (h.expire t) :=
  List.Pairwise.sublist (List.filter_sublist) hk

theorem get_none_of_keyed {x : HEntry} {rest : History} (hk : History.Keyed lower (x :: rest)) {q : Question}
    (hx : x.q.beq lower q = true) (l : History) (hl : ∀ e ∈ l, e ∈ rest) : History.get lower l q = none := by
  unfold History.get
  rw [List.find?_eq_none]
  intro e he hb
  have hxe := (List.pairwise_cons.1 hk).1 e (hl e he)
  have h1 := (question_beq_iff lower x.q q).1 hx
  have h2 := (question_beq_iff lower e.q q).1 (by simpa using hb)
  have : x.q.beq lower e.q = true := (question_beq_iff lower x.q e.q).2 (h1.trans h2.symm)
  rw [this] at hxe; cases hxe

/-- **clean-up is invisible**: for a well-formed history, expiring at `t` (entries older than 999 ms at `t` are deleted) leaves
every later suppression decision unchanged -/
theorem suppresses_expire {h : History} (hk : History.Keyed lower h) (t now : Int) (ht : t ≤ now) (q : Question) (known : List Rec) :
    (h.expire t).suppresses lower q now known = h.suppresses lower q now known := by
  induction h with
  | nil => rfl
  | cons x rest ih =>
    have hkr : History.Keyed lower rest := (List.pairwise_cons.1 hk).2
    by_cases hx : x.q.beq lower q = true
    · -- the entry of `q` is the head
      have hget : History.get lower (x :: rest) q = some x := by simp [History.get, List.find?_cons, hx]
      by_cases hold : Gen.History.expire_old t x.time = true
      · -- deleted: it was already too old to suppress anything at `now ≥ t`
        have h1 : History.expire (x :: rest) t = History.expire rest t := by simp [History.expire, List.filter_cons, hold]
        have h2 : History.get lower (History.expire rest t) q = none :=
          get_none_of_keyed lower hk hx _ (fun e he => (List.mem_filter.1 he).1)
        have h3 := (expire_old_iff _ _).1 hold
        have h4 : Gen.History.too_old now x.time = true := (too_old_iff _ _).2 (by omega)
        unfold History.suppresses
        rw [h1, h2, hget]
        simp [h4]
      · have h1 : History.expire (x :: rest) t = x :: History.expire rest t := by simp [History.expire, List.filter_cons, hold]
        have hget' : History.get lower (x :: History.expire rest t) q = some x := by simp [History.get, List.find?_cons, hx]
        unfold History.suppresses
        rw [h1, hget', hget]
    · have hx' : x.q.beq lower q = false := by simpa using hx
      have hget : History.get lower (x :: rest) q = History.get lower rest q := by simp [History.get, List.find?_cons, hx']
      have hsup : History.suppresses lower (x :: rest) q now known = History.suppresses lower rest q now known := by
        unfold History.suppresses; rw [hget]
      rw [hsup, ← ih hkr]
      by_cases hold : Gen.History.expire_old t x.time = true
      · have h1 : History.expire (x :: rest) t = History.expire rest t := by simp [History.expire, List.filter_cons, hold]
        rw [h1]
      · have h1 : History.expire (x :: rest) t = x :: History.expire rest t := by simp [History.expire, List.filter_cons, hold]
        have hget' : History.get lower (x :: History.expire rest t) q = History.get lower (History.expire rest t) q := by
          simp [History.get, List.find?_cons, hx']
        unfold History.suppresses
        rw [h1, hget']

end Zc.QueryGen
