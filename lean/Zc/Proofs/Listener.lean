import Zc.Model.Listener
import Zc.GenFacts.Listener
/-! Helper lemmas for C16: what `process` leaves in the guard fields, which blocks touch them, and the
association-list facts behind the deferral path. -/
namespace Zc.Listener
open Zc.GenFacts.Listener

variable {σ ω β : Type} (H : Handler σ ω β)

/-! ### association lists -/

theorem alGet_alSet {α} (k : Addr) (v : α) (l : List (Addr × α)) : alGet k (alSet k v l) = some v := by
  induction l with
  | nil => simp [alSet, alGet]
  | cons p r ih =>
    obtain ⟨k', v'⟩ := p
    by_cases h : k' = k
    · simp [alSet, alGet, h]
    · simp [alSet, alGet, h, ih]

theorem alGet_alErase_self {α} (k : Addr) (l : List (Addr × α)) : alGet k (alErase k l) = none := by
  induction l with
  | nil => simp [alErase, alGet]
  | cons p r ih =>
    obtain ⟨k', v'⟩ := p
    by_cases h : k' = k
    · simpa [alErase, List.filter, h] using ih
    · simp only [alErase, List.filter, ne_eq, h, not_false_eq_true, decide_true, alGet, ↓reduceIte]
      simpa [alErase] using ih

/-! ### the guard fields -/

/-- the three fields the duplicate guard reads -/
def sameGuard (s t : State σ) : Prop := s.data = t.data ∧ s.lastTime = t.lastTime ∧ s.lastMsg = t.lastMsg

theorem respondMsg_guard (s : State σ) (m : Packet) (a : Addr) (p : Nat) : sameGuard (respondMsg H s m a p).1 s := by
  simp [respondMsg, sameGuard]

theorem queryOrDefer_guard (s : State σ) (m : MsgInfo) (pk : Packet) (a : Addr) (p r : Nat) :
    sameGuard (queryOrDefer H s m pk a p r).1 s := by
  unfold queryOrDefer
  split
  · exact respondMsg_guard H s pk a p
  · simp only []
    split <;> simp [sameGuard]

/-- whatever `process` does, it leaves `(data, now, parse data)` in the guard fields -/
theorem process_fields (s : State σ) (d : Bytes) (a : Addr) (p : Nat) (now : Ms) (r : Nat) :
    (process H s d a p now r).1.data = some d ∧ (process H s d a p now r).1.lastTime = now ∧
      (process H s d a p now r).1.lastMsg = some (H.parse d) := by
  unfold process
  simp only []
  split
  · simp
  · split
    · simp
    · split
      · simp
      · have := queryOrDefer_guard H { s with data := some d, lastTime := now, lastMsg := some (H.parse d) }
          (H.parse d) ⟨d, now⟩ a p r
        simpa [sameGuard] using this

/-- the guard hits whenever the same bytes were the last thing processed less than 1000 ms ago and that
message was not a QU query -/
theorem guardHit_of_fields (s : State σ) (d : Bytes) (t0 now : Ms) (m : MsgInfo)
    (hd : s.data = some d) (ht : s.lastTime = t0) (hm : s.lastMsg = some m) (hw : now - 1000 < t0)
    (hq : ¬(m.isQuery = true ∧ m.hasQU = true)) : guardHit s d now = true := by
  unfold guardHit
  rw [dup_guard_iff]
  simp [hd, ht, hm, hw]
  simpa using hq

/-- after a QU query the guard is open for everything -/
theorem guardHit_false_of_qu_query (s : State σ) (d : Bytes) (now : Ms) (m : MsgInfo)
    (hm : s.lastMsg = some m) (hq : m.isQuery = true) (hu : m.hasQU = true) : guardHit s d now = false := by
  have : ¬ guardHit s d now = true := by
    unfold guardHit
    rw [dup_guard_iff]
    simp [hm, hq, hu]
  simpa using this

/-- the guard only reads the three fields -/
theorem guardHit_congr (s t : State σ) (h : sameGuard s t) (d : Bytes) (now : Ms) : guardHit s d now = guardHit t d now := by
  obtain ⟨h1, h2, h3⟩ := h
  simp [guardHit, h1, h2, h3]

/-- blocks other than datagram arrivals never touch the guard fields -/
def Block.isRecv : Block β → Bool
  | .recv .. => true
  | _ => false

theorem respond_guard (s s' : State σ) (msg : Option Packet) (a : Addr) (p : Nat) (o : List ω) (tag : Tag)
    (h : respond H s msg a p = .ok (s', o, tag)) : sameGuard s' s := by
  unfold respond at h
  simp only [] at h
  split at h
  · simp at h
  · simp only [Except.ok.injEq, Prod.mk.injEq] at h
    obtain ⟨rfl, _, _⟩ := h
    simp [sameGuard]

theorem step_nonrecv_guard (s s' : State σ) (b : Block β) (o : List ω) (hb : b.isRecv = false)
    (h : step H s b = .ok (s', o)) : sameGuard s' s := by
  cases b with
  | recv d a p n r => simp [Block.isRecv] at hb
  | tcFire a =>
    simp only [step, tcFire] at h
    split at h
    · simp [Except.map] at h
    · rename_i t ht
      cases hr : respond H s none a t.port with
      | error e => simp [hr, Except.map] at h
      | ok v =>
        obtain ⟨s1, o1, tg⟩ := v
        simp only [hr, Except.map, Except.ok.injEq, Prod.mk.injEq] at h
        obtain ⟨rfl, _⟩ := h
        exact respond_guard H s s1 none a t.port o1 tg hr
  | other x =>
    simp only [step, Except.ok.injEq, Prod.mk.injEq] at h
    obtain ⟨rfl, _⟩ := h
    simp [sameGuard]

theorem run_nonrecv_guard (bs : List (Block β)) (hbs : ∀ b ∈ bs, b.isRecv = false) :
    ∀ (s s' : State σ) (o : List ω), run H s bs = .ok (s', o) → sameGuard s' s := by
  induction bs with
  | nil =>
    intro s s' o h
    simp only [run, Except.ok.injEq, Prod.mk.injEq] at h
    obtain ⟨rfl, _⟩ := h
    simp [sameGuard]
  | cons b rest ih =>
    intro s s' o h
    simp only [run, bind, Except.bind] at h
    cases h1 : step H s b with
    | error e => simp [h1] at h
    | ok v1 =>
      obtain ⟨s1, o1⟩ := v1
      simp only [h1] at h
      cases h2 : run H s1 rest with
      | error e => simp [h2] at h
      | ok v2 =>
        obtain ⟨s2, o2⟩ := v2
        simp only [h2, pure, Except.pure, Except.ok.injEq, Prod.mk.injEq] at h
        obtain ⟨rfl, _⟩ := h
        have g1 := step_nonrecv_guard H s s1 b o1 (hbs b (by simp)) h1
        have g2 := ih (fun b hb => hbs b (by simp [hb])) s1 s2 o2 h2
        exact ⟨g2.1.trans g1.1, g2.2.1.trans g1.2.1, g2.2.2.trans g1.2.2⟩

/-! ### routing: all-recent QU answers never reach a multicast set -/

theorem addQU_recent (q : QueryIn) (r : Routed) (a : Ans) (h : a.recent q.now = true)
    (hr : r.mcastNow = [] ∧ r.mcastAgg = [] ∧ r.mcastAggLast = []) :
    (addQU q r a).mcastNow = [] ∧ (addQU q r a).mcastAgg = [] ∧ (addQU q r a).mcastAggLast = [] := by
  unfold addQU
  simp only [h, Bool.not_true, Bool.false_eq_true, ↓reduceIte]
  split <;> split <;> simp [hr]

theorem foldl_addQU_recent (q : QueryIn) (l : List Ans) :
    ∀ r : Routed, l.all (fun a => a.recent q.now) = true →
      (r.mcastNow = [] ∧ r.mcastAgg = [] ∧ r.mcastAggLast = []) →
      ((l.foldl (addQU q) r).mcastNow = [] ∧ (l.foldl (addQU q) r).mcastAgg = [] ∧ (l.foldl (addQU q) r).mcastAggLast = []) := by
  induction l with
  | nil => intro r _ hr; exact hr
  | cons a rest ih =>
    intro r hall hr
    simp only [List.all_cons, Bool.and_eq_true] at hall
    exact ih _ hall.2 (addQU_recent q r a hall.1 hr)

theorem route_recent (q : QueryIn) (hp : q.pureQU = true) (hr : q.allRecent = true) :
    (route q).mcastNow = [] ∧ (route q).mcastAgg = [] ∧ (route q).mcastAggLast = [] := by
  simp only [QueryIn.pureQU, Bool.and_eq_true, Bool.not_eq_true', List.all_eq_true] at hp
  simp only [QueryIn.allRecent, List.all_eq_true] at hr
  unfold route
  suffices h : ∀ (l : List Strat) (r : Routed), (∀ st ∈ l, st.unique = true) →
      (∀ st ∈ l, st.answers.all (fun a => a.recent q.now) = true) →
      (r.mcastNow = [] ∧ r.mcastAgg = [] ∧ r.mcastAggLast = []) →
      ((l.foldl (routeStrat q) r).mcastNow = [] ∧ (l.foldl (routeStrat q) r).mcastAgg = [] ∧
        (l.foldl (routeStrat q) r).mcastAggLast = []) by
    exact h q.strats {} hp.2 (fun st hst => by simpa [List.all_eq_true] using hr st hst) ⟨rfl, rfl, rfl⟩
  intro l
  induction l with
  | nil => intro r _ _ h; exact h
  | cons st rest ih =>
    intro r hu ha h0
    simp only [List.foldl_cons]
    apply ih _ (fun x hx => hu x (by simp [hx])) (fun x hx => ha x (by simp [hx]))
    have hst := hu st (by simp)
    simp only [routeStrat, hp.1, hst, Bool.not_false, Bool.and_self, ↓reduceIte]
    exact foldl_addQU_recent q st.answers r (ha st (by simp)) h0

/-! ### answered queries; outputs up to extras -/

theorem alErase_idem {α} (k : Addr) (l : List (Addr × α)) : alErase k (alErase k l) = alErase k l := by
  simp [alErase, List.filter_filter]

/-- the state the first copy of an answered (valid, untruncated, registry non-empty) query leaves behind -/
theorem process_answered (s : State σ) (d : Bytes) (a : Addr) (p : Nat) (now : Ms) (r : Nat)
    (hv : (H.parse d).valid = true) (hq : (H.parse d).isQuery = true) (htc : (H.parse d).truncated = false)
    (he : H.hasEntries s.down = true) :
    process H s d a p now r =
      ({ s with data := some d, lastTime := now, lastMsg := some (H.parse d), timers := alErase a s.timers,
                deferred := alErase a s.deferred,
                down := (H.onQuery s.down ((alGet a s.deferred).getD [] ++ [(⟨d, now⟩ : Packet)]) a p).1 },
       (H.onQuery s.down ((alGet a s.deferred).getD [] ++ [(⟨d, now⟩ : Packet)]) a p).2,
       .responded ((alGet a s.deferred).getD [] ++ [(⟨d, now⟩ : Packet)]).length) := by
  simp [process, hv, hq, he, queryOrDefer, htc, respondMsg]

theorem ExtraOf.refl (ok : ω → Bool) : ∀ l : List ω, ExtraOf ok l l
  | [] => .nil
  | x :: l => .both x (ExtraOf.refl ok l)

theorem ExtraOf.extras (ok : ω → Bool) : ∀ (e : List ω) {r d : List ω}, (∀ x ∈ e, ok x = true) → ExtraOf ok r d → ExtraOf ok r (e ++ d)
  | [], _, _, _, h => h
  | x :: e, _, _, he, h => .extra x (he x (by simp)) (ExtraOf.extras ok e (fun y hy => he y (by simp [hy])) h)

theorem ExtraOf.append (ok : ω → Bool) {r1 d1 r2 d2 : List ω} (h1 : ExtraOf ok r1 d1) (h2 : ExtraOf ok r2 d2) :
    ExtraOf ok (r1 ++ r2) (d1 ++ d2) := by
  induction h1 with
  | nil => exact h2
  | both x _ ih => exact .both x ih
  | extra x hx _ ih => exact .extra x hx ih

end Zc.Listener
