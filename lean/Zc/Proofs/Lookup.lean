import Zc.Model.Lookup
import Zc.GenFacts.Lookup
/-! Helper lemmas and invariants for C18 (the lookup block machine). -/
namespace Zc.Lookup
open Zc Zc.GenFacts.Lookup

variable (lower : String → String)

/-! ### one turn of the loop -/

theorem iter_info (s : Req) (now : Int) (c : Cache) (h : Hist) (d : Int) :
    (iter lower s now c h d).1.info = s.info ∧ (iter lower s now c h d).2.info = s.info := by
  unfold iter; split
  · exact ⟨rfl, rfl⟩
  · split
    · exact ⟨rfl, rfl⟩
    · split <;> exact ⟨rfl, rfl⟩

/-- whatever a turn returns is `_is_complete` of the info object at that moment, and the request is over -/
theorem iter_ret (s : Req) (now : Int) (c : Cache) (h : Hist) (d : Int) (r : Bool)
    (hr : (iter lower s now c h d).2.ret = some r) :
    r = s.info.complete ∧ (iter lower s now c h d).1.phase = .done r := by
  unfold iter at hr ⊢
  split
  · rename_i hc; simp_all
  · rename_i hc
    split
    · simp_all
    · split <;> simp_all

/-- a turn that does not return goes to sleep -/
theorem iter_noret (s : Req) (now : Int) (c : Cache) (h : Hist) (d : Int)
    (hr : (iter lower s now c h d).2.ret = none) :
    ∃ w, (iter lower s now c h d).2.wait = some w ∧ (iter lower s now c h d).1.phase = .waiting (now + w) false := by
  unfold iter at hr ⊢
  split
  · simp_all
  · split
    · simp_all
    · split <;> exact ⟨_, rfl, rfl⟩

/-! ### scheduling invariant (deadline) -/

theorem drawOk_bounds (d : Int) (h : drawOk d = true) : 20 ≤ d ∧ d ≤ 120 := by
  unfold drawOk at h; rw [draw_interval] at h; simp at h; omega

/-- what holds of a request once `async_request` has computed its deadline at `t0` -/
def Inv (t0 : Int) (s : Req) : Prop :=
  s.phase ≠ .idle ∧
  (∀ w k, s.phase = .waiting w k → s.last = t0 + s.timeout ∧ 0 < s.delay ∧ s.clock ≤ w ∧ w ≤ s.last ∧ s.first = false)

theorem iter_sched (s : Req) (now : Int) (c : Cache) (h : Hist) (d : Int) (hd : drawOk d = true)
    (hdel : 0 < s.delay) (_hnow : now ≤ s.last) (hfirst : s.first = false ∨ s.next ≤ now) :
    (iter lower s now c h d).1.last = s.last ∧ (iter lower s now c h d).1.timeout = s.timeout ∧
    (iter lower s now c h d).1.forced = s.forced ∧ (iter lower s now c h d).1.clock = now ∧
    0 < (iter lower s now c h d).1.delay ∧ (iter lower s now c h d).1.phase ≠ .idle ∧
    (∀ w k, (iter lower s now c h d).1.phase = .waiting w k →
        now < w ∧ w ≤ s.last ∧ (iter lower s now c h d).2.wait = some (w - now) ∧ (iter lower s now c h d).1.first = false) ∧
    (∀ w, (iter lower s now c h d).2.wait = some w → (iter lower s now c h d).1.phase = .waiting (now + w) false) ∧
    (s.last ≤ now → (iter lower s now c h d).2.ret ≠ none) := by
  have hb := drawOk_bounds d hd
  have hdp := dup_interval_pos
  unfold iter
  split
  · simp [hdel]
  · split
    · simp [hdel]
    · rename_i hnc hnd
      rw [deadline_passed_iff] at hnd
      split
      · simp only [wait_for_eq, next_base_eq]
        refine ⟨trivial, trivial, trivial, trivial, ?_, by simp, ?_, ?_, ?_⟩
        · split
          · exact Int.natCast_pos.mpr hdp
          · exact hdel
        · intro w k hw
          simp only [Phase.waiting.injEq] at hw
          obtain ⟨hw, -⟩ := hw
          subst hw
          refine ⟨by omega, by omega, by simp; omega, trivial⟩
        · intro w hw; simp at hw; subst hw; rfl
        · intro hl; omega
      · rename_i hq
        rw [query_due_iff] at hq
        simp only [wait_for_eq]
        refine ⟨trivial, trivial, trivial, trivial, hdel, by simp, ?_, ?_, ?_⟩
        · intro w k hw
          simp only [Phase.waiting.injEq] at hw
          obtain ⟨hw, -⟩ := hw
          subst hw
          refine ⟨by omega, by omega, by simp; omega, ?_⟩
          rcases hfirst with hf | hf
          · exact hf
          · omega
        · intro w hw; simp at hw; subst hw; rfl
        · intro hl; omega

/-- the per-block facts the deadline theorems are made of -/
def SchedOk (t0 timeout : Int) (b : Block) (o : Out) : Prop :=
  b.now ≤ t0 + timeout ∧
  (∀ w, o.wait = some w → 0 < w ∧ b.now + w ≤ t0 + timeout) ∧
  (∀ n c h d, b = .resume n c h d → t0 + timeout ≤ n → o.ret ≠ none)

theorem step_inv (t0 : Int) (s : Req) (b : Block) (s' : Req) (o : Out) (hI : Inv t0 s)
    (hs : step lower s b = some (s', o)) :
    Inv t0 s' ∧ s'.timeout = s.timeout ∧ s'.forced = s.forced ∧ SchedOk t0 s.timeout b o := by
  obtain ⟨hidle, hwait⟩ := hI
  cases b with
  | start now c h d =>
    simp only [step] at hs
    split at hs
    · exact absurd hs (by simp)
    · rename_i hc; simp at hc; exact absurd hc.1 hidle
  | update now recs c =>
    simp only [step] at hs
    split at hs
    · rename_i w woken hph
      obtain ⟨hlast, hdel, h1, h2, h3⟩ := hwait w woken hph
      split at hs
      · rename_i hc
        simp only [Bool.and_eq_true, decide_eq_true_eq] at hc
        simp only [Option.some.injEq, Prod.mk.injEq] at hs
        obtain ⟨hs1, hs2⟩ := hs
        subst hs1; subst hs2
        refine ⟨⟨by simp, ?_⟩, rfl, rfl, by simp [Block.now]; omega, by simp, by simp⟩
        intro w' k' hw'
        simp only [Phase.waiting.injEq] at hw'
        obtain ⟨hw', -⟩ := hw'
        subst hw'
        exact ⟨hlast, hdel, hc.2, h2, h3⟩
      · exact absurd hs (by simp)
    · exact absurd hs (by simp)
  | resume now c h d =>
    simp only [step] at hs
    split at hs
    · rename_i w woken hph
      obtain ⟨hlast, hdel, h1, h2, h3⟩ := hwait w woken hph
      split at hs
      · rename_i hc
        simp only [Bool.and_eq_true, decide_eq_true_eq] at hc
        obtain ⟨⟨⟨hc1, hc2⟩, hc3⟩, hc4⟩ := hc
        simp only [Option.some.injEq] at hs
        have hk := iter_sched lower s now c h d hc4 hdel (by omega) (Or.inl h3)
        rw [hs] at hk
        obtain ⟨k1, k2, k3, k4, k5, k6, k7, k8, k9⟩ := hk
        simp only at k1 k2 k3 k4 k5 k6 k7 k8 k9
        refine ⟨⟨k6, ?_⟩, k2, k3, by simp [Block.now]; omega, ?_, ?_⟩
        · intro w' k' hw'
          obtain ⟨a1, a2, a3, a4⟩ := k7 w' k' hw'
          exact ⟨by rw [k1, k2]; exact hlast, k5, by omega, by omega, a4⟩
        · intro w' hw'
          obtain ⟨a1, a2, a3, a4⟩ := k7 _ _ (k8 w' hw')
          simp only [Block.now]
          omega
        · intro n c' h' d' hb ht
          simp only [Block.resume.injEq] at hb
          obtain ⟨hb, -⟩ := hb
          subst hb
          exact k9 (by omega)
      · exact absurd hs (by simp)
    · exact absurd hs (by simp)

theorem start_inv (s : Req) (t0 : Int) (c : Cache) (h : Hist) (d : Int) (s' : Req) (o : Out) (h0 : 0 ≤ s.timeout)
    (hs : step lower s (.start t0 c h d) = some (s', o)) :
    Inv t0 s' ∧ s'.timeout = s.timeout ∧ s'.forced = s.forced ∧ SchedOk t0 s.timeout (.start t0 c h d) o := by
  simp only [step] at hs
  split at hs
  · exact absurd hs (by simp)
  · rename_i hc
    simp only [Bool.or_eq_true, bne_iff_ne, ne_eq, Bool.not_eq_true', not_or, Decidable.not_not, Bool.not_eq_false] at hc
    obtain ⟨hidle, hd⟩ := hc
    split at hs
    · simp only [Option.some.injEq, Prod.mk.injEq] at hs
      obtain ⟨hs1, hs2⟩ := hs
      subst hs1; subst hs2
      exact ⟨⟨by simp, by simp⟩, rfl, rfl, by simp [Block.now]; omega, by simp, by simp⟩
    · simp only [Option.some.injEq] at hs
      have hk := iter_sched lower (s.armed (loadFromCache lower c s.info t0).1 t0) t0 c h d hd (Int.natCast_pos.mpr initial_delay_pos)
        (by simp [Req.armed, deadline_of_eq]; omega) (Or.inr (by simp [Req.armed]))
      rw [hs] at hk
      obtain ⟨k1, k2, k3, k4, k5, k6, k7, k8, k9⟩ := hk
      simp only [Req.armed, deadline_of_eq] at k1 k2 k3 k4 k5 k6 k7 k8 k9
      refine ⟨⟨k6, ?_⟩, k2, k3, by simp [Block.now]; omega, ?_, by simp⟩
      · intro w' k' hw'
        obtain ⟨a1, a2, a3, a4⟩ := k7 w' k' hw'
        exact ⟨by rw [k1, k2], k5, by omega, by omega, a4⟩
      · intro w' hw'
        obtain ⟨a1, a2, a3, a4⟩ := k7 _ _ (k8 w' hw')
        simp only [Block.now]
        omega

/-! ### runs -/

theorem run_all {P : Req → Prop} {Q : Block → Out → Prop}
    (hstep : ∀ s b s' o, P s → step lower s b = some (s', o) → P s' ∧ Q b o) :
    ∀ (bs : List Block) (s s' : Req) (outs : List (Block × Out)), P s → run lower s bs = some (s', outs) →
      P s' ∧ ∀ p ∈ outs, Q p.1 p.2 := by
  intro bs
  induction bs with
  | nil =>
    intro s s' outs hp hr
    simp only [run, Option.some.injEq, Prod.mk.injEq] at hr
    obtain ⟨h1, h2⟩ := hr
    subst h1; subst h2
    exact ⟨hp, by simp⟩
  | cons b bs ih =>
    intro s s' outs hp hr
    simp only [run] at hr
    split at hr
    · exact absurd hr (by simp)
    · rename_i s1 o1 hs1
      split at hr
      · exact absurd hr (by simp)
      · rename_i s2 os hr2
        simp only [Option.some.injEq, Prod.mk.injEq] at hr
        obtain ⟨h1, h2⟩ := hr
        subst h1; subst h2
        obtain ⟨hp1, hq1⟩ := hstep s b s1 o1 hp hs1
        obtain ⟨hp2, hq2⟩ := ih s1 s2 os hp1 hr2
        refine ⟨hp2, ?_⟩
        intro p hpm
        simp only [List.mem_cons] at hpm
        rcases hpm with rfl | hpm
        · exact hq1
        · exact hq2 p hpm

/-- a run from an idle request starts with a `start` block -/
theorem run_idle_cases (s : Req) (hidle : s.phase = .idle) (bs : List Block) (s' : Req) (outs : List (Block × Out))
    (hr : run lower s bs = some (s', outs)) :
    (bs = [] ∧ outs = [] ∧ s' = s) ∨
    ∃ t0 c h d rest s1 o1 outs', bs = .start t0 c h d :: rest ∧ step lower s (.start t0 c h d) = some (s1, o1) ∧
      run lower s1 rest = some (s', outs') ∧ outs = (.start t0 c h d, o1) :: outs' := by
  cases bs with
  | nil => left; simp [run] at hr; exact ⟨rfl, hr.2, hr.1.symm⟩
  | cons b rest =>
    right
    simp only [run] at hr
    split at hr
    · exact absurd hr (by simp)
    · rename_i s1 o1 hs1
      split at hr
      · exact absurd hr (by simp)
      · rename_i s2 os hr2
        simp only [Option.some.injEq, Prod.mk.injEq] at hr
        obtain ⟨h1, h2⟩ := hr
        subst h1; subst h2
        cases b with
        | start t0 c h d => exact ⟨t0, c, h, d, rest, s1, o1, os, rfl, hs1, hr2, rfl⟩
        | update now recs c => simp [step, hidle] at hs1
        | resume now c h d => simp [step, hidle] at hs1

/-! ### returning -/

theorem loadFromCache_snd (c : Cache) (i : Info) (now : Int) :
    (loadFromCache lower c i now).2 = (loadFromCache lower c i now).1.complete := rfl

/-- the value a block returns is `_is_complete` of the info object, which is then final -/
theorem step_ret (s : Req) (b : Block) (s' : Req) (o : Out) (r : Bool)
    (hs : step lower s b = some (s', o)) (hr : o.ret = some r) :
    r = o.info.complete ∧ s'.info = o.info ∧ s'.phase = .done r := by
  cases b with
  | start now c h d =>
    simp only [step] at hs
    split at hs
    · exact absurd hs (by simp)
    · split at hs
      · rename_i hc
        simp only [Option.some.injEq, Prod.mk.injEq] at hs
        obtain ⟨hs1, hs2⟩ := hs
        subst hs1; subst hs2
        simp only [Option.some.injEq] at hr
        subst hr
        rw [loadFromCache_snd] at hc
        exact ⟨hc.symm, rfl, rfl⟩
      · simp only [Option.some.injEq] at hs
        have h1 := iter_info lower (s.armed (loadFromCache lower c s.info now).1 now) now c h d
        have h2 := iter_ret lower (s.armed (loadFromCache lower c s.info now).1 now) now c h d r
        rw [hs] at h1 h2
        simp only at h1 h2
        obtain ⟨h2a, h2b⟩ := h2 hr
        exact ⟨by rw [h1.2]; exact h2a, by rw [h1.1, h1.2], h2b⟩
  | update now recs c =>
    simp only [step] at hs
    split at hs
    · split at hs
      · simp only [Option.some.injEq, Prod.mk.injEq] at hs
        obtain ⟨hs1, hs2⟩ := hs
        subst hs2
        simp at hr
      · exact absurd hs (by simp)
    · exact absurd hs (by simp)
  | resume now c h d =>
    simp only [step] at hs
    split at hs
    · split at hs
      · simp only [Option.some.injEq] at hs
        have h1 := iter_info lower s now c h d
        have h2 := iter_ret lower s now c h d r
        rw [hs] at h1 h2
        simp only at h1 h2
        obtain ⟨h2a, h2b⟩ := h2 hr
        exact ⟨by rw [h1.2]; exact h2a, by rw [h1.1, h1.2], h2b⟩
      · exact absurd hs (by simp)
    · exact absurd hs (by simp)

theorem step_done (s : Req) (r : Bool) (hd : s.phase = .done r) (b : Block) : step lower s b = none := by
  cases b <;> simp [step, hd]

/-- nothing happens after the return: the returning block is the last one and its info is the final one -/
theorem run_ret_final : ∀ (bs : List Block) (s s' : Req) (outs : List (Block × Out)),
    run lower s bs = some (s', outs) → ∀ p ∈ outs, ∀ r, p.2.ret = some r →
      r = p.2.info.complete ∧ s'.info = p.2.info ∧ s'.phase = .done r := by
  intro bs
  induction bs with
  | nil =>
    intro s s' outs hr p hp
    simp only [run, Option.some.injEq, Prod.mk.injEq] at hr
    rw [← hr.2] at hp
    exact absurd hp (by simp)
  | cons b bs ih =>
    intro s s' outs hr p hp r hret
    simp only [run] at hr
    split at hr
    · exact absurd hr (by simp)
    · rename_i s1 o1 hs1
      split at hr
      · exact absurd hr (by simp)
      · rename_i s2 os hr2
        simp only [Option.some.injEq, Prod.mk.injEq] at hr
        obtain ⟨h1, h2⟩ := hr
        subst h1; subst h2
        simp only [List.mem_cons] at hp
        rcases hp with rfl | hp
        · obtain ⟨a1, a2, a3⟩ := step_ret lower s b s1 o1 r hs1 hret
          cases bs with
          | nil =>
            simp only [run, Option.some.injEq, Prod.mk.injEq] at hr2
            rw [← hr2.1]
            exact ⟨a1, a2, a3⟩
          | cons b2 bs2 =>
            simp only [run, step_done lower s1 r a3 b2] at hr2
            exact absurd hr2 (by simp)
        · exact ih s1 s2 os hr2 p hp r hret

/-! ### address lists -/

theorem mem_insertFront {a x : Bytes} {l : List Bytes} (h : x ∈ (insertFront a l).1) : x = a ∨ x ∈ l := by
  unfold insertFront at h
  split at h
  · simpa using h
  · split at h
    · simp only [List.mem_cons] at h
      rcases h with h | h
      · exact Or.inl h
      · exact Or.inr (List.mem_of_mem_erase h)
    · exact Or.inr h

theorem insertFront_mem_self (a : Bytes) (l : List Bytes) : a ∈ (insertFront a l).1 := by
  unfold insertFront
  split
  · simp
  · rename_i hc
    split
    · simp
    · simpa using hc

theorem insertFront_mono {a x : Bytes} {l : List Bytes} (h : x ∈ l) : x ∈ (insertFront a l).1 := by
  unfold insertFront
  split
  · simp [h]
  · split
    · by_cases hx : x = a
      · simp [hx]
      · simp only [List.mem_cons]
        right
        exact (List.mem_erase_of_ne hx).mpr h
    · exact h

theorem addrObj_some {r : Rec} {a : Bytes} (h : addrObj r = some a) : ∃ sc, r.rdata = .addr a sc ∧ (addrVersion a).isSome = true := by
  unfold addrObj at h
  split at h
  · rename_i a' sc hrd
    split at h
    · rename_i hv
      simp only [Option.some.injEq] at h
      subst h
      exact ⟨sc, hrd, hv⟩
    · exact absurd h (by simp)
  · exact absurd h (by simp)

theorem mem_foldl_lifo (now : Int) : ∀ (rs : List Rec) (acc : List Bytes) (a : Bytes),
    a ∈ rs.foldl (lifoStep now) acc → a ∈ acc ∨ ∃ x ∈ rs, x.isExpired now = false ∧ addrObj x = some a := by
  intro rs
  induction rs with
  | nil => intro acc a h; exact Or.inl h
  | cons r rs ih =>
    intro acc a h
    simp only [List.foldl_cons] at h
    rcases ih _ a h with h1 | ⟨x, hx, hx2⟩
    · unfold lifoStep at h1
      split at h1
      · exact Or.inl h1
      · rename_i hne
        split at h1
        · rename_i a' ha'
          split at h1
          · exact Or.inl h1
          · simp only [List.mem_cons] at h1
            rcases h1 with rfl | h1
            · exact Or.inr ⟨r, by simp, by simpa using hne, ha'⟩
            · exact Or.inl h1
        · exact Or.inl h1
    · exact Or.inr ⟨x, by simp [hx], hx2⟩

theorem foldl_lifo_mono (now : Int) : ∀ (rs : List Rec) (acc : List Bytes) (a : Bytes), a ∈ acc → a ∈ rs.foldl (lifoStep now) acc := by
  intro rs
  induction rs with
  | nil => intro acc a h; exact h
  | cons r rs ih =>
    intro acc a h
    simp only [List.foldl_cons]
    apply ih
    unfold lifoStep
    split
    · exact h
    · split
      · split
        · exact h
        · simp [h]
      · exact h

theorem foldl_lifo_complete (now : Int) : ∀ (rs : List Rec) (acc : List Bytes) (x : Rec) (a : Bytes),
    x ∈ rs → x.isExpired now = false → addrObj x = some a → a ∈ rs.foldl (lifoStep now) acc := by
  intro rs
  induction rs with
  | nil => intro acc x a h; exact absurd h (by simp)
  | cons r rs ih =>
    intro acc x a hx he ha
    simp only [List.foldl_cons]
    simp only [List.mem_cons] at hx
    rcases hx with rfl | hx
    · apply foldl_lifo_mono
      unfold lifoStep
      simp only [he, Bool.false_eq_true, ↓reduceIte, ha]
      split
      · rename_i hc; simpa using hc
      · simp
    · exact ih _ x a hx he ha

theorem mem_getAll {c : Cache} {name : String} {ty cl : Nat} {x : Rec} :
    x ∈ getAll lower c name ty cl ↔ x ∈ c ∧ lower x.name = lower name ∧ x.type = ty ∧ x.class_ = cl := by
  unfold getAll matchDetails
  simp only [List.mem_filter, Bool.and_eq_true, beq_iff_eq]
  constructor
  · rintro ⟨h1, ⟨h2, h3⟩, h4⟩; exact ⟨h1, h2, h3.symm, h4.symm⟩
  · rintro ⟨h1, h2, h3, h4⟩; exact ⟨h1, ⟨h2, h3.symm⟩, h4.symm⟩

theorem getByDetails_mem {c : Cache} {name : String} {ty cl : Nat} {x : Rec} (h : getByDetails lower c name ty cl = some x) :
    x ∈ c ∧ lower x.name = lower name ∧ x.type = ty ∧ x.class_ = cl := by
  unfold getByDetails at h
  exact (mem_getAll lower).mp (List.mem_of_getLast? h)

theorem newestLive_mem {c : Cache} {name : String} {ty : Nat} {now : Int} {x : Rec} (h : newestLive lower c name ty now = some x) :
    x ∈ c ∧ lower x.name = lower name ∧ x.type = ty ∧ x.class_ = Gen.classIn ∧ x.isExpired now = false := by
  unfold newestLive at h
  have hm := List.mem_of_find?_eq_some h
  have hp := List.find?_some h
  obtain ⟨m1, m2, m3, m4⟩ := (mem_getAll lower).mp (List.mem_reverse.mp hm)
  exact ⟨m1, m2, m3, m4, (load_takes_iff _).mp hp⟩

/-- if any unexpired record of that name and type is cached, the repaired loader finds one -/
theorem newestLive_isSome {c : Cache} {name : String} {ty : Nat} {now : Int} {x : Rec} (hx : x ∈ c)
    (hn : lower x.name = lower name) (ht : x.type = ty) (hc : x.class_ = Gen.classIn) (he : x.isExpired now = false) :
    ∃ r, newestLive lower c name ty now = some r := by
  unfold newestLive
  cases hf : (getAll lower c name ty Gen.classIn).reverse.find? (fun r => Gen.Lookup.load_takes (r.isExpired now)) with
  | some r => exact ⟨r, rfl⟩
  | none =>
    rw [List.find?_eq_none] at hf
    have := hf x (List.mem_reverse.mpr ((mem_getAll lower).mpr ⟨hx, hn, ht, hc⟩))
    exact absurd ((load_takes_iff _).mpr he) this

theorem mem_addrsLifo {c : Cache} {k : String} {now : Int} {ty : Nat} {a : Bytes} (h : a ∈ addrsLifo lower c (some k) now ty) :
    ∃ x ∈ c, x.isExpired now = false ∧ (∃ sc, x.rdata = .addr a sc) ∧ lower x.name = lower k ∧ x.type = ty ∧ x.class_ = Gen.classIn := by
  unfold addrsLifo at h
  simp only at h
  rcases mem_foldl_lifo now _ _ a h with h | ⟨x, hx, he, ha⟩
  · exact absurd h (by simp)
  · obtain ⟨hx1, hx2, hx3, hx4⟩ := (mem_getAll lower).mp hx
    obtain ⟨sc, hsc, -⟩ := addrObj_some ha
    exact ⟨x, hx1, he, ⟨sc, hsc⟩, hx2, hx3, hx4⟩

theorem addrsLifo_complete {c : Cache} {k : String} {now : Int} {ty : Nat} {x : Rec} {a : Bytes}
    (hx : x ∈ c) (hn : lower x.name = lower k) (ht : x.type = ty) (hc : x.class_ = Gen.classIn)
    (he : x.isExpired now = false) (ha : addrObj x = some a) : a ∈ addrsLifo lower c (some k) now ty := by
  unfold addrsLifo
  simp only
  exact foldl_lifo_complete now _ _ x a ((mem_getAll lower).mpr ⟨hx, hn, ht, hc⟩) he ha

/-! ### provenance: every field comes from a record that was unexpired when it was read -/

/-- host, port, priority and weight of `i` are those of the SRV record `r` of the instance -/
def SrvFrom (i : Info) (r : Rec) : Prop :=
  ∃ p w port srv, r.rdata = .srv p w port srv ∧ lower r.name = i.key ∧ i.server = some srv ∧ i.serverKey = some (lower srv) ∧
    i.port = some port ∧ i.weight = w ∧ i.priority = p

/-- `R r t`: the lookup read record `r` at time `t`.  `Prov R i`: each field of `i` is either still
the constructor's default or was assigned from a record read while unexpired — host/port/priority/weight
from an SRV of the instance, TXT from a TXT of the instance, every address from an address record
whose key is the SRV host's key (`get_all_by_details` lower-cases the already lower-cased key once
more, hence the second disjunct; the two coincide for an idempotent `lower`). -/
structure Prov (R : Rec → Int → Prop) (i : Info) : Prop where
  srv : (i.server = none ∧ i.serverKey = none ∧ i.port = none ∧ i.weight = 0 ∧ i.priority = 0) ∨
        ∃ r t, R r t ∧ r.isExpired t = false ∧ SrvFrom lower i r
  txt : i.text = [] ∨ ∃ r t, R r t ∧ r.isExpired t = false ∧ lower r.name = i.key ∧ r.rdata = .txt i.text
  addr : ∀ a ∈ i.v4 ++ i.v6, ∃ r t sc k, R r t ∧ r.isExpired t = false ∧ r.rdata = .addr a sc ∧ i.serverKey = some k ∧
        (lower r.name = k ∨ lower r.name = lower k)

theorem Prov.fresh (R : Rec → Int → Prop) (name : String) : Prov lower R (Info.fresh lower name) :=
  ⟨Or.inl ⟨rfl, rfl, rfl, rfl, rfl⟩, Or.inl rfl, by simp [Info.fresh]⟩

theorem processRecord_prov (R : Rec → Int → Prop) (c : Cache) (i : Info) (r : Rec) (now : Int)
    (hR : R r now) (hc : ∀ x ∈ c, R x now) (hp : Prov lower R i) : Prov lower R (processRecord lower c i r now).1 := by
  unfold processRecord
  split
  · exact hp
  · rename_i hne
    have hlive : r.isExpired now = false := by simpa using hne
    split
    · -- address
      rename_i a sc hrd
      split
      · rename_i hk
        have hk' : i.serverKey = some (lower r.name) := by
          have := (beq_iff_eq.mp hk); exact this.symm
        split
        · exact hp
        · rename_i v hv
          split
          · refine ⟨hp.srv, hp.txt, ?_⟩
            intro x hx
            simp only [List.mem_append] at hx
            rcases hx with hx | hx
            · rcases mem_insertFront hx with rfl | hx
              · exact ⟨r, now, sc, lower r.name, hR, hlive, hrd, hk', Or.inl rfl⟩
              · exact hp.addr x (by simp [hx])
            · exact hp.addr x (by simp [hx])
          · refine ⟨hp.srv, hp.txt, ?_⟩
            intro x hx
            simp only [List.mem_append] at hx
            rcases hx with hx | hx
            · exact hp.addr x (by simp [hx])
            · rcases mem_insertFront hx with rfl | hx
              · exact ⟨r, now, sc, lower r.name, hR, hlive, hrd, hk', Or.inl rfl⟩
              · exact hp.addr x (by simp [hx])
      · exact hp
    · -- txt
      rename_i t hrd
      split
      · exact hp
      · rename_i hk
        have hk' : lower r.name = i.key := by simpa using hk
        exact ⟨hp.srv, Or.inr ⟨r, now, hR, hlive, hk', hrd⟩, hp.addr⟩
    · -- srv
      rename_i prio weight port server hrd
      split
      · exact hp
      · rename_i hk
        have hk' : lower r.name = i.key := by simpa using hk
        have htxt : ∀ j : Info, j.text = i.text → j.key = lower r.name →
            (j.text = [] ∨ ∃ r2 t2, R r2 t2 ∧ r2.isExpired t2 = false ∧ lower r2.name = j.key ∧ r2.rdata = .txt j.text) := by
          intro j h1 h2
          rcases hp.txt with h | ⟨r2, t2, a1, a2, a3, a4⟩
          · exact Or.inl (by rw [h1]; exact h)
          · exact Or.inr ⟨r2, t2, a1, a2, by rw [h2, hk']; exact a3, by rw [h1]; exact a4⟩
        split
        · refine ⟨Or.inr ⟨r, now, hR, hlive, ⟨prio, weight, port, server, hrd, rfl, rfl, rfl, rfl, rfl, rfl⟩⟩, htxt _ rfl rfl, ?_⟩
          intro x hx
          simp only [Info.reloadAddrs, Info.setSrvHost, List.mem_append] at hx
          rcases hx with hx | hx
          · obtain ⟨y, hy, he, ⟨sc, hsc⟩, hn, -, -⟩ := mem_addrsLifo lower hx
            exact ⟨y, now, sc, lower server, hc y hy, he, hsc, rfl, Or.inr hn⟩
          · obtain ⟨y, hy, he, ⟨sc, hsc⟩, hn, -, -⟩ := mem_addrsLifo lower hx
            exact ⟨y, now, sc, lower server, hc y hy, he, hsc, rfl, Or.inr hn⟩
        · rename_i hsame
          have hsame' : i.serverKey = some (lower server) := by simpa using hsame
          refine ⟨Or.inr ⟨r, now, hR, hlive, ⟨prio, weight, port, server, hrd, rfl, rfl, rfl, rfl, rfl, rfl⟩⟩, htxt _ rfl rfl, ?_⟩
          intro x hx
          obtain ⟨y, t, sc, k, h1, h2, h3, h4, h5⟩ := hp.addr x hx
          rw [hsame'] at h4
          exact ⟨y, t, sc, k, h1, h2, h3, h4, h5⟩
    · exact hp

theorem processAll_prov (R : Rec → Int → Prop) (c : Cache) (now : Int) (hc : ∀ x ∈ c, R x now) :
    ∀ (rs : List Rec) (i : Info), (∀ x ∈ rs, R x now) → Prov lower R i → Prov lower R (processAll lower c now i rs).1 := by
  intro rs
  induction rs with
  | nil => intro i _ hp; exact hp
  | cons r rs ih =>
    intro i hrs hp
    simp only [processAll]
    exact ih _ (fun x hx => hrs x (by simp [hx])) (processRecord_prov lower R c i r now (hrs r (by simp)) hc hp)

theorem addrRecs_sub {c : Cache} {i : Info} {ty : Nat} {x : Rec} (h : x ∈ addrRecs lower c i ty) : x ∈ c := by
  unfold addrRecs at h
  split at h
  · exact absurd h (by simp)
  · exact ((mem_getAll lower).mp h).1

theorem loadSrv_prov (R : Rec → Int → Prop) (c : Cache) (i : Info) (now : Int)
    (hc : ∀ x ∈ c, R x now) (hp : Prov lower R i) : Prov lower R (loadSrv lower c i now) := by
  unfold loadSrv
  split
  · rename_i r hr
    exact processRecord_prov lower R c i r now (hc r (newestLive_mem lower hr).1) hc hp
  · exact hp

theorem loadTxt_prov (R : Rec → Int → Prop) (c : Cache) (i : Info) (now : Int)
    (hc : ∀ x ∈ c, R x now) (hp : Prov lower R i) : Prov lower R (loadTxt lower c i now) := by
  unfold loadTxt
  split
  · rename_i r hr
    exact processRecord_prov lower R c i r now (hc r (newestLive_mem lower hr).1) hc hp
  · exact hp

theorem loadAddrs_prov (R : Rec → Int → Prop) (c : Cache) (i : Info) (now : Int)
    (hc : ∀ x ∈ c, R x now) (hp : Prov lower R i) : Prov lower R (loadAddrs lower c i now) := by
  unfold loadAddrs
  apply processAll_prov lower R c now hc _ _ (fun x hx => hc x (addrRecs_sub lower hx))
  exact processAll_prov lower R c now hc _ _ (fun x hx => hc x (addrRecs_sub lower hx)) hp

theorem loadFromCache_prov (R : Rec → Int → Prop) (c : Cache) (i : Info) (now : Int)
    (hc : ∀ x ∈ c, R x now) (hp : Prov lower R i) : Prov lower R (loadFromCache lower c i now).1 := by
  simp only [loadFromCache, loadInfo]
  have h2 := loadTxt_prov lower R c _ now hc (loadSrv_prov lower R c i now hc hp)
  split
  · exact loadAddrs_prov lower R c _ now hc h2
  · exact h2

/-! ### provenance along a run -/

/-- the records a block hands to `_process_record_threadsafe` / the cache loaders -/
def Block.reads : Block → List Rec
  | .start _ c _ _ => c
  | .update _ recs c => recs ++ c
  | .resume .. => []

theorem step_prov (R : Rec → Int → Prop) (s : Req) (b : Block) (s' : Req) (o : Out)
    (hb : ∀ x ∈ b.reads, R x b.now) (hp : Prov lower R s.info) (hs : step lower s b = some (s', o)) :
    Prov lower R s'.info ∧ Prov lower R o.info := by
  cases b with
  | start now c h d =>
    simp only [step] at hs
    split at hs
    · exact absurd hs (by simp)
    · have hl := loadFromCache_prov lower R c s.info now (fun x hx => hb x hx) hp
      split at hs
      · simp only [Option.some.injEq, Prod.mk.injEq] at hs
        obtain ⟨hs1, hs2⟩ := hs
        subst hs1; subst hs2
        exact ⟨hl, hl⟩
      · simp only [Option.some.injEq] at hs
        have h1 := iter_info lower (s.armed (loadFromCache lower c s.info now).1 now) now c h d
        rw [hs] at h1
        simp only [Req.armed] at h1
        rw [h1.1, h1.2]
        exact ⟨hl, hl⟩
  | update now recs c =>
    simp only [step] at hs
    split at hs
    · split at hs
      · simp only [Option.some.injEq, Prod.mk.injEq] at hs
        obtain ⟨hs1, hs2⟩ := hs
        subst hs1; subst hs2
        have := processAll_prov lower R c now (fun x hx => hb x (by simp [Block.reads, hx])) recs s.info
          (fun x hx => hb x (by simp [Block.reads, hx])) hp
        exact ⟨this, this⟩
      · exact absurd hs (by simp)
    · exact absurd hs (by simp)
  | resume now c h d =>
    simp only [step] at hs
    split at hs
    · split at hs
      · simp only [Option.some.injEq] at hs
        have h1 := iter_info lower s now c h d
        rw [hs] at h1
        rw [h1.1, h1.2]
        exact ⟨hp, hp⟩
      · exact absurd hs (by simp)
    · exact absurd hs (by simp)

theorem run_prov (R : Rec → Int → Prop) : ∀ (bs : List Block) (s s' : Req) (outs : List (Block × Out)),
    (∀ b ∈ bs, ∀ x ∈ b.reads, R x b.now) → Prov lower R s.info → run lower s bs = some (s', outs) →
      Prov lower R s'.info ∧ ∀ p ∈ outs, Prov lower R p.2.info := by
  intro bs
  induction bs with
  | nil =>
    intro s s' outs _ hp hr
    simp only [run, Option.some.injEq, Prod.mk.injEq] at hr
    obtain ⟨h1, h2⟩ := hr
    subst h1; subst h2
    exact ⟨hp, by simp⟩
  | cons b bs ih =>
    intro s s' outs hR hp hr
    simp only [run] at hr
    split at hr
    · exact absurd hr (by simp)
    · rename_i s1 o1 hs1
      split at hr
      · exact absurd hr (by simp)
      · rename_i s2 os hr2
        simp only [Option.some.injEq, Prod.mk.injEq] at hr
        obtain ⟨h1, h2⟩ := hr
        subst h1; subst h2
        obtain ⟨hp1, hq1⟩ := step_prov lower R s b s1 o1 (hR b (by simp)) hp hs1
        obtain ⟨hp2, hq2⟩ := ih s1 s2 os (fun b' hb' => hR b' (by simp [hb'])) hp1 hr2
        refine ⟨hp2, ?_⟩
        intro p hpm
        simp only [List.mem_cons] at hpm
        rcases hpm with rfl | hpm
        · exact hq1
        · exact hq2 p hpm

/-! ### a cache load takes all unexpired addresses of the host -/

/-- every unexpired, well-formed address record of the current host in `c` is in the address lists -/
def AddrAll (c : Cache) (now : Int) (i : Info) : Prop :=
  ∀ k, i.serverKey = some k → ∀ x ∈ c, (x.type = Gen.typeA ∨ x.type = Gen.typeAaaa) → x.class_ = Gen.classIn →
    lower x.name = lower k → x.isExpired now = false → ∀ a, addrObj x = some a → a ∈ i.v4 ++ i.v6

theorem processRecord_addrAll (c : Cache) (i : Info) (r : Rec) (now : Int) (hp : AddrAll lower c now i) :
    AddrAll lower c now (processRecord lower c i r now).1 := by
  unfold processRecord
  split
  · exact hp
  · split
    · split
      · split
        · exact hp
        · split
          · intro k hk x hx ht hc hn he a ha
            have := hp k hk x hx ht hc hn he a ha
            simp only [List.mem_append] at this ⊢
            rcases this with h | h
            · exact Or.inl (insertFront_mono h)
            · exact Or.inr h
          · intro k hk x hx ht hc hn he a ha
            have := hp k hk x hx ht hc hn he a ha
            simp only [List.mem_append] at this ⊢
            rcases this with h | h
            · exact Or.inl h
            · exact Or.inr (insertFront_mono h)
      · exact hp
    · split
      · exact hp
      · exact hp
    · rename_i prio weight port server hrd
      split
      · exact hp
      · split
        · intro k hk x hx ht hc hn he a ha
          simp only [Info.reloadAddrs, Info.setSrvHost, Option.some.injEq] at hk ⊢
          subst hk
          simp only [List.mem_append]
          rcases ht with ht | ht
          · exact Or.inl (addrsLifo_complete lower hx hn ht hc he ha)
          · exact Or.inr (addrsLifo_complete lower hx hn ht hc he ha)
        · rename_i hsame
          have hsame' : i.serverKey = some (lower server) := by simpa using hsame
          intro k hk x hx ht hc hn he a ha
          simp only [Info.setSrvHost, Option.some.injEq] at hk
          subst hk
          exact hp _ hsame' x hx ht hc hn he a ha
    · exact hp

theorem processAll_addrAll (c : Cache) (now : Int) : ∀ (rs : List Rec) (i : Info), AddrAll lower c now i →
    AddrAll lower c now (processAll lower c now i rs).1 := by
  intro rs
  induction rs with
  | nil => intro i hp; exact hp
  | cons r rs ih => intro i hp; simp only [processAll]; exact ih _ (processRecord_addrAll lower c i r now hp)

theorem loadFromCache_addrAll (c : Cache) (i : Info) (now : Int) (hp : AddrAll lower c now i) :
    AddrAll lower c now (loadFromCache lower c i now).1 := by
  simp only [loadFromCache, loadInfo]
  have h1 : AddrAll lower c now (loadSrv lower c i now) := by
    unfold loadSrv; split
    · exact processRecord_addrAll lower c i _ now hp
    · exact hp
  have h2 : AddrAll lower c now (loadTxt lower c (loadSrv lower c i now) now) := by
    unfold loadTxt; split
    · exact processRecord_addrAll lower c _ _ now h1
    · exact h1
  split
  · unfold loadAddrs
    exact processAll_addrAll lower c now _ _ (processAll_addrAll lower c now _ _ h2)
  · exact h2

/-! ### cache first -/

/-- `r` is an unexpired SRV record (type 33, class IN) of instance `name` in the cache, naming `host` -/
def LiveSrvOf (c : Cache) (name : String) (now : Int) (r : Rec) (host : String) : Prop :=
  r ∈ c ∧ r.type = 33 ∧ r.class_ = 1 ∧ lower r.name = lower name ∧ r.isExpired now = false ∧ ∃ p w port, r.rdata = .srv p w port host

/-- the cache holds an unexpired, well-formed A or AAAA record (class IN) of `host` -/
def HostHasAddr (c : Cache) (now : Int) (host : String) : Prop :=
  ∃ x ∈ c, (x.type = 1 ∨ x.type = 28) ∧ x.class_ = 1 ∧ lower x.name = lower (lower host) ∧ x.isExpired now = false ∧
    ∃ a, addrObj x = some a

/-- "the cache already suffices": it holds an unexpired SRV of the instance, and whichever unexpired SRV
of the instance one takes, an unexpired address of its host -/
def CacheSuffices (c : Cache) (name : String) (now : Int) : Prop :=
  (∃ r host, LiveSrvOf lower c name now r host) ∧ ∀ r host, LiveSrvOf lower c name now r host → HostHasAddr lower c now host

/-- exactly the records of the `DNSService` class have type SRV (what the decoder builds) -/
def SrvTyped (c : Cache) : Prop := ∀ x ∈ c, (∃ p w q s, x.rdata = .srv p w q s) ↔ x.type = 33

theorem insertFront_ne_nil (a : Bytes) (l : List Bytes) : (insertFront a l).1 ≠ [] :=
  List.ne_nil_of_mem (insertFront_mem_self a l)

theorem processRecord_nonsrv (c : Cache) (i : Info) (r : Rec) (now : Int) (hns : ∀ p w q s, r.rdata ≠ .srv p w q s) :
    (processRecord lower c i r now).1.serverKey = i.serverKey ∧
    (i.v4 ≠ [] → (processRecord lower c i r now).1.v4 ≠ []) ∧ (i.v6 ≠ [] → (processRecord lower c i r now).1.v6 ≠ []) := by
  unfold processRecord
  split
  · exact ⟨rfl, id, id⟩
  · split
    · split
      · split
        · exact ⟨rfl, id, id⟩
        · split
          · exact ⟨rfl, fun _ => insertFront_ne_nil _ _, id⟩
          · exact ⟨rfl, id, fun _ => insertFront_ne_nil _ _⟩
      · exact ⟨rfl, id, id⟩
    · split
      · exact ⟨rfl, id, id⟩
      · exact ⟨rfl, id, id⟩
    · rename_i p w q s hrd
      exact absurd hrd (hns p w q s)
    · exact ⟨rfl, id, id⟩

theorem loadInfo_cachefirst (c : Cache) (name : String) (now : Int)
    (hsuf : CacheSuffices lower c name now) (hty : SrvTyped c) :
    (loadInfo lower c (Info.fresh lower name) now).complete = true := by
  obtain ⟨⟨r0, host0, l1, l2, l3, l4, l5, -⟩, hall⟩ := hsuf
  -- the repaired loader finds the newest unexpired SRV of the instance; it is a live SRV, so its host has an address
  obtain ⟨r, hget⟩ := newestLive_isSome lower (ty := Gen.typeSrv) l1 l4 l2 l3 l5
  obtain ⟨g1, g2, g3, g4, g5⟩ := newestLive_mem lower hget
  obtain ⟨p0, w0, port0, host, hrd0⟩ := (hty r g1).mpr g3
  have hlive : LiveSrvOf lower c name now r host := ⟨g1, g3, g4, g2, g5, p0, w0, port0, hrd0⟩
  have haddr := hall r host hlive
  obtain ⟨hrc, hrt, hrcl, hrn, hre, p, w, port, hrd⟩ := hlive
  obtain ⟨x, hx, hxt, hxc, hxn, hxe, a, hxa⟩ := haddr
  -- the SRV step
  have h1 : loadSrv lower c (Info.fresh lower name) now =
      ((({ (Info.fresh lower name) with name := r.name, key := lower r.name } : Info).setSrvHost host (lower host) p w port).reloadAddrs lower c now) := by
    unfold loadSrv
    have : newestLive lower c (Info.fresh lower name).name Gen.typeSrv now = some r := hget
    rw [this]
    simp only [processRecord, hre, hrd, Bool.false_eq_true, ↓reduceIte, Info.fresh, hrn, bne_self_eq_false]
    simp
  have h1k : (loadSrv lower c (Info.fresh lower name) now).serverKey = some (lower host) := by rw [h1]; rfl
  have h1a : (loadSrv lower c (Info.fresh lower name) now).v4 ≠ [] ∨ (loadSrv lower c (Info.fresh lower name) now).v6 ≠ [] := by
    rw [h1]
    simp only [Info.reloadAddrs, Info.setSrvHost]
    rcases hxt with ht | ht
    · exact Or.inl (List.ne_nil_of_mem (addrsLifo_complete lower hx hxn (by rw [ht]; rfl) (by rw [hxc]; rfl) hxe hxa))
    · exact Or.inr (List.ne_nil_of_mem (addrsLifo_complete lower hx hxn (by rw [ht]; rfl) (by rw [hxc]; rfl) hxe hxa))
  unfold loadInfo
  generalize loadSrv lower c (Info.fresh lower name) now = i1 at h1k h1a ⊢
  -- the TXT step keeps the server key and the addresses
  have h2 : (loadTxt lower c i1 now).serverKey = some (lower host) ∧ ((loadTxt lower c i1 now).v4 ≠ [] ∨ (loadTxt lower c i1 now).v6 ≠ []) := by
    unfold loadTxt
    split
    · rename_i r2 hr2
      obtain ⟨m1, -, m3, -, -⟩ := newestLive_mem lower hr2
      have hns : ∀ p w q s, r2.rdata ≠ .srv p w q s := by
        intro p w q s hh
        have := (hty r2 m1).mp ⟨p, w, q, s, hh⟩
        rw [m3] at this
        exact absurd this (by decide)
      obtain ⟨k1, k2, k3⟩ := processRecord_nonsrv lower c i1 r2 now hns
      exact ⟨by rw [k1]; exact h1k, h1a.imp k2 k3⟩
    · exact ⟨h1k, h1a⟩
  have hne : ((Info.fresh lower name).serverKey == (loadTxt lower c i1 now).serverKey) = false := by
    rw [h2.1]; rfl
  rw [if_neg (by rw [hne]; simp)]
  unfold Info.complete
  rw [is_complete_iff]
  rcases h2.2 with h | h
  · exact Or.inl (by simpa [List.length_eq_zero_iff] using h)
  · exact Or.inr (by simpa [List.length_eq_zero_iff] using h)

/-! ### queries -/

/-- the cache and history a block generates its query from -/
def Block.cache : Block → Cache
  | .start _ c _ _ => c | .update _ _ c => c | .resume _ c _ _ => c
def Block.hist : Block → Hist
  | .start _ _ h _ => h | .update .. => [] | .resume _ _ h _ => h

/-- how `asked` / `sent` of a block's output relate to `_generate_request_query` -/
def QueryOf (t : Nat) (b : Block) (o : Out) : Prop :=
  o.asked = some t ∧
  ((o.sent = none ∧ genQuery lower b.cache b.hist b.now o.info (t == quCode) = []) ∨
   (o.sent = some (genQuery lower b.cache b.hist b.now o.info (t == quCode)) ∧
    genQuery lower b.cache b.hist b.now o.info (t == quCode) ≠ []))

theorem iter_query (s : Req) (now : Int) (c : Cache) (h : Hist) (d : Int) :
    ((iter lower s now c h d).2.asked = none ∧ (iter lower s now c h d).2.sent = none) ∨
    ((iter lower s now c h d).2.asked = some (Gen.Lookup.this_question_type s.forced quCode qmCode s.first) ∧
      (((iter lower s now c h d).2.sent = none ∧
          genQuery lower c h now s.info (Gen.Lookup.this_question_type s.forced quCode qmCode s.first == quCode) = []) ∨
       ((iter lower s now c h d).2.sent =
            some (genQuery lower c h now s.info (Gen.Lookup.this_question_type s.forced quCode qmCode s.first == quCode)) ∧
          genQuery lower c h now s.info (Gen.Lookup.this_question_type s.forced quCode qmCode s.first == quCode) ≠ []))) := by
  unfold iter
  split
  · exact Or.inl ⟨rfl, rfl⟩
  · split
    · exact Or.inl ⟨rfl, rfl⟩
    · split
      · right
        refine ⟨rfl, ?_⟩
        simp only
        split
        · rename_i hs
          rw [send_if_iff] at hs
          exact Or.inr ⟨rfl, by intro hh; rw [hh] at hs; exact hs rfl⟩
        · rename_i hs
          rw [send_if_iff] at hs
          exact Or.inl ⟨rfl, by simpa [List.length_eq_zero_iff] using hs⟩
      · exact Or.inl ⟨rfl, rfl⟩

/-- per-block: no query, or the query `_generate_request_query` builds with type `t` — the forced type
(QU when none) in the `start` block, QM afterwards -/
def AskOk (first : Bool) (forced : Nat) (b : Block) (o : Out) : Prop :=
  (o.asked = none ∧ o.sent = none) ∨
  QueryOf lower (if first then (if forced = 0 then 1 else forced) else 2) b o

theorem step_ask_later (t0 : Int) (s : Req) (b : Block) (s' : Req) (o : Out) (hI : Inv t0 s)
    (hs : step lower s b = some (s', o)) : AskOk lower false s.forced b o := by
  obtain ⟨hidle, hwait⟩ := hI
  cases b with
  | start now c h d =>
    simp only [step] at hs
    split at hs
    · exact absurd hs (by simp)
    · rename_i hc; simp at hc; exact absurd hc.1 hidle
  | update now recs c =>
    simp only [step] at hs
    split at hs
    · split at hs
      · simp only [Option.some.injEq, Prod.mk.injEq] at hs
        obtain ⟨-, hs2⟩ := hs
        subst hs2
        exact Or.inl ⟨rfl, rfl⟩
      · exact absurd hs (by simp)
    · exact absurd hs (by simp)
  | resume now c h d =>
    simp only [step] at hs
    split at hs
    · rename_i w woken hph
      obtain ⟨-, -, -, -, hfirst⟩ := hwait w woken hph
      split at hs
      · simp only [Option.some.injEq] at hs
        have hq := iter_query lower s now c h d
        have hi := iter_info lower s now c h d
        rw [hs] at hq hi
        simp only at hq hi
        simp only [quCode, qmCode] at hq
        rw [hfirst, this_question_type_later] at hq
        rcases hq with hq | hq
        · exact Or.inl hq
        · right
          simp only [QueryOf, quCode, Block.cache, Block.hist, Block.now, Bool.false_eq_true, ↓reduceIte]
          rw [hi.2]
          exact hq
      · exact absurd hs (by simp)
    · exact absurd hs (by simp)

theorem step_ask_first (s : Req) (t0 : Int) (c : Cache) (h : Hist) (d : Int) (s' : Req) (o : Out)
    (hs : step lower s (.start t0 c h d) = some (s', o)) : AskOk lower true s.forced (.start t0 c h d) o := by
  simp only [step] at hs
  split at hs
  · exact absurd hs (by simp)
  · split at hs
    · simp only [Option.some.injEq, Prod.mk.injEq] at hs
      obtain ⟨-, hs2⟩ := hs
      subst hs2
      exact Or.inl ⟨rfl, rfl⟩
    · simp only [Option.some.injEq] at hs
      have hq := iter_query lower (s.armed (loadFromCache lower c s.info t0).1 t0) t0 c h d
      have hi := iter_info lower (s.armed (loadFromCache lower c s.info t0).1 t0) t0 c h d
      rw [hs] at hq hi
      simp only [Req.armed] at hq hi
      simp only [quCode, qmCode] at hq
      rw [this_question_type_first] at hq
      rcases hq with hq | hq
      · exact Or.inl hq
      · right
        simp only [QueryOf, quCode, Block.cache, Block.hist, Block.now, ↓reduceIte]
        rw [hi.2]
        exact hq

/-! ### what `_generate_request_query` asks -/

theorem addQuestion_some {c : Cache} {h : Hist} {now : Int} {name : String} {ty : Nat} {skip qu : Bool} {q : Question} {known : List Rec}
    (hq : addQuestion lower c h now name ty skip qu = some (q, known)) :
    q = { name := name, type := ty, class_ := Gen.classIn, unique := qu } ∧ known = knownAnswers lower c now name ty ∧
    (skip = true → known = []) ∧ (qu = false → histSuppresses lower h q now known = false) := by
  unfold addQuestion at hq
  simp only at hq
  split at hq
  · exact absurd hq (by simp)
  · rename_i hsk
    rw [skip_known_iff] at hsk
    have hskip : skip = true → knownAnswers lower c now name ty = [] := by
      intro hs
      by_cases hk : knownAnswers lower c now name ty = []
      · exact hk
      · exact absurd ⟨hs, by simpa [List.length_eq_zero_iff] using hk⟩ hsk
    split at hq
    · rename_i hqu
      simp only [Option.some.injEq, Prod.mk.injEq] at hq
      obtain ⟨h1, h2⟩ := hq
      subst h1; subst h2
      exact ⟨by rw [hqu], rfl, hskip, by intro hh; rw [hqu] at hh; exact absurd hh (by simp)⟩
    · split at hq
      · exact absurd hq (by simp)
      · rename_i hqu hsup
        simp only [Option.some.injEq, Prod.mk.injEq] at hq
        obtain ⟨h1, h2⟩ := hq
        subst h1; subst h2
        exact ⟨rfl, rfl, hskip, fun _ => by simpa using hsup⟩

/-- under QU a question is omitted only because an unstale answer is cached (and only SRV/TXT) -/
theorem addQuestion_qu (c : Cache) (h : Hist) (now : Int) (name : String) (ty : Nat) (skip : Bool) :
    addQuestion lower c h now name ty skip true =
      if skip = true ∧ knownAnswers lower c now name ty ≠ [] then none
      else some ({ name := name, type := ty, class_ := Gen.classIn, unique := true }, knownAnswers lower c now name ty) := by
  unfold addQuestion
  simp only [↓reduceIte]
  by_cases hk : Gen.Lookup.skip_known skip (knownAnswers lower c now name ty).length = true
  · rw [if_pos hk]
    rw [skip_known_iff] at hk
    rw [if_pos ⟨hk.1, by intro hh; rw [hh] at hk; exact hk.2 rfl⟩]
  · rw [if_neg hk]
    rw [skip_known_iff] at hk
    rw [if_neg (by rintro ⟨h1, h2⟩; exact hk ⟨h1, by simpa [List.length_eq_zero_iff] using h2⟩)]

theorem mem_genQuery {c : Cache} {h : Hist} {now : Int} {i : Info} {qu : Bool} {p : Question × List Rec} :
    p ∈ genQuery lower c h now i qu ↔
      addQuestion lower c h now i.name Gen.typeSrv true qu = some p ∨ addQuestion lower c h now i.name Gen.typeTxt true qu = some p ∨
      addQuestion lower c h now i.serverOrName Gen.typeA false qu = some p ∨ addQuestion lower c h now i.serverOrName Gen.typeAaaa false qu = some p := by
  unfold genQuery
  simp only [List.mem_filterMap, List.mem_cons, List.not_mem_nil, or_false, id]
  constructor
  · rintro ⟨a, ha, hp⟩
    rcases ha with rfl | rfl | rfl | rfl
    · exact Or.inl hp
    · exact Or.inr (Or.inl hp)
    · exact Or.inr (Or.inr (Or.inl hp))
    · exact Or.inr (Or.inr (Or.inr hp))
  · rintro (hp | hp | hp | hp)
    · exact ⟨_, Or.inl rfl, hp⟩
    · exact ⟨_, Or.inr (Or.inl rfl), hp⟩
    · exact ⟨_, Or.inr (Or.inr (Or.inl rfl)), hp⟩
    · exact ⟨_, Or.inr (Or.inr (Or.inr rfl)), hp⟩

theorem knownAnswers_nil_iff (c : Cache) (now : Int) (name : String) (ty : Nat) :
    knownAnswers lower c now name ty = [] ↔
      ∀ r ∈ c, lower r.name = lower name → r.type = ty → r.class_ = Gen.classIn → r.isStale now = true := by
  unfold knownAnswers
  rw [List.filter_eq_nil_iff]
  constructor
  · intro hh r hr h1 h2 h3
    have := hh r ((mem_getAll lower).mpr ⟨hr, h1, h2, h3⟩)
    simpa using this
  · intro hh r hr
    obtain ⟨m1, m2, m3, m4⟩ := (mem_getAll lower).mp hr
    simp [hh r m1 m2 m3 m4]

theorem mem_knownAnswers {c : Cache} {now : Int} {name : String} {ty : Nat} {r : Rec} (hr : r ∈ knownAnswers lower c now name ty) :
    r ∈ c ∧ lower r.name = lower name ∧ r.type = ty ∧ r.class_ = Gen.classIn ∧ r.isStale now = false := by
  unfold knownAnswers at hr
  rw [List.mem_filter] at hr
  obtain ⟨m1, m2, m3, m4⟩ := (mem_getAll lower).mp hr.1
  exact ⟨m1, m2, m3, m4, by simpa using hr.2⟩

/-! ### the start block -/

theorem start_info (s : Req) (now : Int) (c : Cache) (h : Hist) (d : Int) (s' : Req) (o : Out)
    (hs : step lower s (.start now c h d) = some (s', o)) : o.info = (loadFromCache lower c s.info now).1 := by
  simp only [step] at hs
  split at hs
  · exact absurd hs (by simp)
  · split at hs
    · simp only [Option.some.injEq, Prod.mk.injEq] at hs
      rw [← hs.2]
    · simp only [Option.some.injEq] at hs
      have h1 := iter_info lower (s.armed (loadFromCache lower c s.info now).1 now) now c h d
      rw [hs] at h1
      exact h1.2

theorem step_start_complete (s : Req) (now : Int) (c : Cache) (h : Hist) (d : Int) (hidle : s.phase = .idle)
    (hd : drawOk d = true) (hc : (loadFromCache lower c s.info now).2 = true) :
    step lower s (.start now c h d) =
      some ({ s with info := (loadFromCache lower c s.info now).1, clock := now, phase := .done true },
            { ret := some true, info := (loadFromCache lower c s.info now).1 }) := by
  simp [step, hidle, hd, hc]

/-! ### a QU query -/

theorem genQuery_qu_a (c : Cache) (h : Hist) (now : Int) (i : Info) :
    (({ name := i.serverOrName, type := Gen.typeA, class_ := Gen.classIn, unique := true } : Question),
      knownAnswers lower c now i.serverOrName Gen.typeA) ∈ genQuery lower c h now i true := by
  apply (mem_genQuery lower).mpr
  right; right; left
  rw [addQuestion_qu]
  simp

theorem genQuery_qu_aaaa (c : Cache) (h : Hist) (now : Int) (i : Info) :
    (({ name := i.serverOrName, type := Gen.typeAaaa, class_ := Gen.classIn, unique := true } : Question),
      knownAnswers lower c now i.serverOrName Gen.typeAaaa) ∈ genQuery lower c h now i true := by
  apply (mem_genQuery lower).mpr
  right; right; right
  rw [addQuestion_qu]
  simp

theorem genQuery_qu_srv (c : Cache) (h : Hist) (now : Int) (i : Info) (hnil : knownAnswers lower c now i.name Gen.typeSrv = []) :
    (({ name := i.name, type := Gen.typeSrv, class_ := Gen.classIn, unique := true } : Question), []) ∈ genQuery lower c h now i true := by
  apply (mem_genQuery lower).mpr
  left
  rw [addQuestion_qu, hnil]
  simp

theorem genQuery_qu_txt (c : Cache) (h : Hist) (now : Int) (i : Info) (hnil : knownAnswers lower c now i.name Gen.typeTxt = []) :
    (({ name := i.name, type := Gen.typeTxt, class_ := Gen.classIn, unique := true } : Question), []) ∈ genQuery lower c h now i true := by
  apply (mem_genQuery lower).mpr
  right; left
  rw [addQuestion_qu, hnil]
  simp

theorem addQuestion_of (c : Cache) (h : Hist) (now : Int) (name : String) (ty : Nat) (skip qu : Bool)
    (hk : ¬ (skip = true ∧ knownAnswers lower c now name ty ≠ []))
    (hs : qu = true ∨ histSuppresses lower h { name := name, type := ty, class_ := Gen.classIn, unique := qu } now (knownAnswers lower c now name ty) = false) :
    addQuestion lower c h now name ty skip qu =
      some ({ name := name, type := ty, class_ := Gen.classIn, unique := qu }, knownAnswers lower c now name ty) := by
  unfold addQuestion
  simp only
  have h1 : ¬ Gen.Lookup.skip_known skip (knownAnswers lower c now name ty).length = true := by
    rw [skip_known_iff]
    rintro ⟨a, b⟩
    exact hk ⟨a, by intro hh; rw [hh] at b; exact b rfl⟩
  rw [if_neg h1]
  rcases hs with hq | hsup
  · rw [if_pos hq]
  · by_cases hq : qu = true
    · rw [if_pos hq]
    · rw [if_neg hq, if_neg (by rw [hsup]; simp)]

/-! ### the obligation to ask -/

/-- a turn taken when a query is due, the deadline not passed and the info incomplete *does* generate the query -/
theorem iter_asks (s : Req) (now : Int) (c : Cache) (h : Hist) (d : Int)
    (hinc : s.info.complete = false) (hnl : now < s.last) (hdue : s.next ≤ now) :
    (iter lower s now c h d).2.asked = some (Gen.Lookup.this_question_type s.forced quCode qmCode s.first) := by
  unfold iter
  rw [if_neg (by rw [hinc]; simp)]
  rw [if_neg (by rw [deadline_passed_iff]; omega)]
  rw [if_pos ((query_due_iff _ _).mpr hdue)]

/-- the wake-up time a sleeping request has asked for is `min(next_, last)` -/
def WakeInv (s : Req) : Prop := ∀ w k, s.phase = .waiting w k → w = min s.next s.last

theorem iter_wake (s : Req) (now : Int) (c : Cache) (h : Hist) (d : Int) : WakeInv (iter lower s now c h d).1 := by
  intro w k hw
  unfold iter at hw ⊢
  split at hw
  · simp at hw
  · split at hw
    · simp at hw
    · split at hw
      · simp only [Phase.waiting.injEq, wait_for_eq, next_base_eq] at hw
        rw [if_neg (by assumption), if_neg (by assumption), if_pos (by assumption)]
        simp only [next_base_eq]
        omega
      · simp only [Phase.waiting.injEq, wait_for_eq] at hw
        rw [if_neg (by assumption), if_neg (by assumption), if_neg (by assumption)]
        simp only
        omega

theorem step_wake (s : Req) (b : Block) (s' : Req) (o : Out) (hI : WakeInv s) (hs : step lower s b = some (s', o)) : WakeInv s' := by
  cases b with
  | start now c h d =>
    simp only [step] at hs
    split at hs
    · exact absurd hs (by simp)
    · split at hs
      · simp only [Option.some.injEq, Prod.mk.injEq] at hs
        rw [← hs.1]
        intro w k hw
        simp at hw
      · simp only [Option.some.injEq] at hs
        have := iter_wake lower (s.armed (loadFromCache lower c s.info now).1 now) now c h d
        rw [hs] at this
        exact this
  | update now recs c =>
    simp only [step] at hs
    split at hs
    · rename_i w woken hph
      split at hs
      · simp only [Option.some.injEq, Prod.mk.injEq] at hs
        rw [← hs.1]
        intro w' k' hw'
        simp only [Phase.waiting.injEq] at hw'
        have := hI w woken hph
        simp only
        omega
      · exact absurd hs (by simp)
    · exact absurd hs (by simp)
  | resume now c h d =>
    simp only [step] at hs
    split at hs
    · split at hs
      · simp only [Option.some.injEq] at hs
        have := iter_wake lower s now c h d
        rw [hs] at this
        exact this
      · exact absurd hs (by simp)
    · exact absurd hs (by simp)

/-! ### a reload triggered by an SRV takes all unexpired addresses of the new host -/

theorem processRecord_key_or_all (c : Cache) (i : Info) (r : Rec) (now : Int) :
    (processRecord lower c i r now).1.serverKey = i.serverKey ∨ AddrAll lower c now (processRecord lower c i r now).1 := by
  unfold processRecord
  split
  · exact Or.inl rfl
  · split
    · split
      · split
        · exact Or.inl rfl
        · split <;> exact Or.inl rfl
      · exact Or.inl rfl
    · split <;> exact Or.inl rfl
    · rename_i prio weight port server hrd
      split
      · exact Or.inl rfl
      · split
        · right
          intro k hk x hx ht hc hn he a ha
          simp only [Info.reloadAddrs, Info.setSrvHost, Option.some.injEq] at hk ⊢
          subst hk
          simp only [List.mem_append]
          rcases ht with ht | ht
          · exact Or.inl (addrsLifo_complete lower hx hn ht hc he ha)
          · exact Or.inr (addrsLifo_complete lower hx hn ht hc he ha)
        · rename_i hsame
          left
          have hsame' : i.serverKey = some (lower server) := by simpa using hsame
          simp only [Info.setSrvHost]
          exact hsame'.symm
    · exact Or.inl rfl

theorem processAll_key_or_all (c : Cache) (now : Int) : ∀ (rs : List Rec) (i : Info),
    (processAll lower c now i rs).1.serverKey = i.serverKey ∨ AddrAll lower c now (processAll lower c now i rs).1 := by
  intro rs
  induction rs with
  | nil => intro i; exact Or.inl rfl
  | cons r rs ih =>
    intro i
    simp only [processAll]
    rcases processRecord_key_or_all lower c i r now with h1 | h1
    · rcases ih (processRecord lower c i r now).1 with h2 | h2
      · exact Or.inl (h2.trans h1)
      · exact Or.inr h2
    · exact Or.inr (processAll_addrAll lower c now rs _ h1)

end Zc.Lookup
