import Zc.Model.Lookup
import Zc.GenFacts.Lookup
/-! Helper lemmas and invariants for C18 (the lookup block machine). -/
namespace Zc.Lookup
open Zc Zc.GenFacts.Lookup

variable (lower : String → String)

/-! ### one turn of the loop -/

theorem iter_info (s : Req) (now : Int) (c : Cache) (h : Hist) (d : Int) :
    (iter lower s now c h d).1.info = s.info ∧ (iter lower s now c h d).2.info = s.info := by
  unfold iter; split
  · exact ⟨rfl, rfl⟩
  · split
    · exact ⟨rfl, rfl⟩
    · split <;> exact ⟨rfl, rfl⟩

/-- whatever a turn returns is `_is_complete` of the info object at that moment, and the request is over -/
theorem iter_ret (s : Req) (now : Int) (c : Cache) (h : Hist) (d : Int) (r : Bool)
    (hr : (iter lower s now c h d).2.ret = some r) :
    r = s.info.complete ∧ (iter lower s now c h d).1.phase = .done r := by
  unfold iter at hr ⊢
  split
  · rename_i hc; simp_all
  · rename_i hc
    split
    · simp_all
    · split <;> simp_all

/-- a turn that does not return goes to sleep -/
theorem iter_noret (s : Req) (now : Int) (c : Cache) (h : Hist) (d : Int)
    (hr : (iter lower s now c h d).2.ret = none) :
    ∃ w, (iter lower s now c h d).2.wait = some w ∧ (iter lower s now c h d).1.phase = .waiting (now + w) false := by
  unfold iter at hr ⊢
  split
  · simp_all
  · split
    · simp_all
    · split <;> exact ⟨_, rfl, rfl⟩

/-! ### scheduling invariant (deadline) -/

theorem drawOk_bounds (d : Int) (h : drawOk d = true) : 20 ≤ d ∧ d ≤ 120 := by
  unfold drawOk at h; rw [draw_interval] at h; simp at h; omega

/-- what holds of a request once `async_request` has computed its deadline at `t0` -/
def Inv (t0 : Int) (s : Req) : Prop :=
  s.phase ≠ .idle ∧
  (∀ w k, s.phase = .waiting w k → s.last = t0 + s.timeout ∧ 0 < s.delay ∧ s.clock ≤ w ∧ w ≤ s.last ∧ s.first = false)

theorem iter_sched (s : Req) (now : Int) (c : Cache) (h : Hist) (d : Int) (hd : drawOk d = true)
    (hdel : 0 < s.delay) (_hnow : now ≤ s.last) (hfirst : s.first = false ∨ s.next ≤ now) :
    (iter lower s now c h d).1.last = s.last ∧ (iter lower s now c h d).1.timeout = s.timeout ∧
    (iter lower s now c h d).1.forced = s.forced ∧ (iter lower s now c h d).1.clock = now ∧
    0 < (iter lower s now c h d).1.delay ∧ (iter lower s now c h d).1.phase ≠ .idle ∧
    (∀ w k, (iter lower s now c h d).1.phase = .waiting w k →
        now < w ∧ w ≤ s.last ∧ (iter lower s now c h d).2.wait = some (w - now) ∧ (iter lower s now c h d).1.first = false) ∧
    (∀ w, (iter lower s now c h d).2.wait = some w → (iter lower s now c h d).1.phase = .waiting (now + w) false) ∧
    (s.last ≤ now → (iter lower s now c h d).2.ret ≠ none) := by
  have hb := drawOk_bounds d hd
  have hdp := dup_interval_pos
  unfold iter
  split
  · simp [hdel]
  · split
    · simp [hdel]
    · rename_i hnc hnd
      rw [deadline_passed_iff] at hnd
      split
      · simp only [wait_for_eq, next_base_eq]
        refine ⟨trivial, trivial, trivial, trivial, ?_, by simp, ?_, ?_, ?_⟩
        · split
          · exact Int.natCast_pos.mpr hdp
          · exact hdel
        · intro w k hw
          simp only [Phase.waiting.injEq] at hw
          obtain ⟨hw, -⟩ := hw
          subst hw
          refine ⟨by omega, by omega, by simp; omega, trivial⟩
        · intro w hw; simp at hw; subst hw; rfl
        · intro hl; omega
      · rename_i hq
        rw [query_due_iff] at hq
        simp only [wait_for_eq]
        refine ⟨trivial, trivial, trivial, trivial, hdel, by simp, ?_, ?_, ?_⟩
        · intro w k hw
          simp only [Phase.waiting.injEq] at hw
          obtain ⟨hw, -⟩ := hw
          subst hw
          refine ⟨by omega, by omega, by simp; omega, ?_⟩
          rcases hfirst with hf | hf
          · exact hf
          · omega
        · intro w hw; simp at hw; subst hw; rfl
        · intro hl; omega

/-- the per-block facts the deadline theorems are made of -/
def SchedOk (t0 timeout : Int) (b : Block) (o : Out) : Prop :=
  b.now ≤ t0 + timeout ∧
  (∀ w, o.wait = some w → 0 < w ∧ b.now + w ≤ t0 + timeout) ∧
  (∀ n c h d, b = .resume n c h d → t0 + timeout ≤ n → o.ret ≠ none)

theorem step_inv (t0 : Int) (s : Req) (b : Block) (s' : Req) (o : Out) (hI : Inv t0 s)
    (hs : step lower s b = some (s', o)) :
    Inv t0 s' ∧ s'.timeout = s.timeout ∧ s'.forced = s.forced ∧ SchedOk t0 s.timeout b o := by
  obtain ⟨hidle, hwait⟩ := hI
  cases b with
  | start now c h d =>
    simp only [step] at hs
    split at hs
    · exact absurd hs (by simp)
    · rename_i hc; simp at hc; exact absurd hc.1 hidle
  | update now recs c =>
    simp only [step] at hs
    split at hs
    · rename_i w woken hph
      obtain ⟨hlast, hdel, h1, h2, h3⟩ := hwait w woken hph
      split at hs
      · rename_i hc
        simp only [Bool.and_eq_true, decide_eq_true_eq] at hc
        simp only [Option.some.injEq, Prod.mk.injEq] at hs
        obtain ⟨hs1, hs2⟩ := hs
        subst hs1; subst hs2
        refine ⟨⟨by simp, ?_⟩, rfl, rfl, by simp [Block.now]; omega, by simp, by simp⟩
        intro w' k' hw'
        simp only [Phase.waiting.injEq] at hw'
        obtain ⟨hw', -⟩ := hw'
        subst hw'
        exact ⟨hlast, hdel, hc.2, h2, h3⟩
      · exact absurd hs (by simp)
    · exact absurd hs (by simp)
  | resume now c h d =>
    simp only [step] at hs
    split at hs
    · rename_i w woken hph
      obtain ⟨hlast, hdel, h1, h2, h3⟩ := hwait w woken hph
      split at hs
      · rename_i hc
        simp only [Bool.and_eq_true, decide_eq_true_eq] at hc
        obtain ⟨⟨⟨hc1, hc2⟩, hc3⟩, hc4⟩ := hc
        simp only [Option.some.injEq] at hs
        have hk := iter_sched lower s now c h d hc4 hdel (by omega) (Or.inl h3)
        rw [hs] at hk
        obtain ⟨k1, k2, k3, k4, k5, k6, k7, k8, k9⟩ := hk
        simp only at k1 k2 k3 k4 k5 k6 k7 k8 k9
        refine ⟨⟨k6, ?_⟩, k2, k3, by simp [Block.now]; omega, ?_, ?_⟩
        · intro w' k' hw'
          obtain ⟨a1, a2, a3, a4⟩ := k7 w' k' hw'
          exact ⟨by rw [k1, k2]; exact hlast, k5, by omega, by omega, a4⟩
        · intro w' hw'
          obtain ⟨a1, a2, a3, a4⟩ := k7 _ _ (k8 w' hw')
          simp only [Block.now]
          omega
        · intro n c' h' d' hb ht
          simp only [Block.resume.injEq] at hb
          obtain ⟨hb, -⟩ := hb
          subst hb
          exact k9 (by omega)
      · exact absurd hs (by simp)
    · exact absurd hs (by simp)

theorem start_inv (s : Req) (t0 : Int) (c : Cache) (h : Hist) (d : Int) (s' : Req) (o : Out) (h0 : 0 ≤ s.timeout)
    (hs : step lower s (.start t0 c h d) = some (s', o)) :
    Inv t0 s' ∧ s'.timeout = s.timeout ∧ s'.forced = s.forced ∧ SchedOk t0 s.timeout (.start t0 c h d) o := by
  simp only [step] at hs
  split at hs
  · exact absurd hs (by simp)
  · rename_i hc
    simp only [Bool.or_eq_true, bne_iff_ne, ne_eq, Bool.not_eq_true', not_or, Decidable.not_not, Bool.not_eq_false] at hc
    obtain ⟨hidle, hd⟩ := hc
    split at hs
    · simp only [Option.some.injEq, Prod.mk.injEq] at hs
      obtain ⟨hs1, hs2⟩ := hs
      subst hs1; subst hs2
      exact ⟨⟨by simp, by simp⟩, rfl, rfl, by simp [Block.now]; omega, by simp, by simp⟩
    · simp only [Option.some.injEq] at hs
      have hk := iter_sched lower (s.armed (loadFromCache lower c s.info t0).1 t0) t0 c h d hd (Int.natCast_pos.mpr initial_delay_pos)
        (by simp [Req.armed, deadline_of_eq]; omega) (Or.inr (by simp [Req.armed]))
      rw [hs] at hk
      obtain ⟨k1, k2, k3, k4, k5, k6, k7, k8, k9⟩ := hk
      simp only [Req.armed, deadline_of_eq] at k1 k2 k3 k4 k5 k6 k7 k8 k9
      refine ⟨⟨k6, ?_⟩, k2, k3, by simp [Block.now]; omega, ?_, by simp⟩
      · intro w' k' hw'
        obtain ⟨a1, a2, a3, a4⟩ := k7 w' k' hw'
        exact ⟨by rw [k1, k2], k5, by omega, by omega, a4⟩
      · intro w' hw'
        obtain ⟨a1, a2, a3, a4⟩ := k7 _ _ (k8 w' hw')
        simp only [Block.now]
        omega

/-! ### runs -/

theorem run_all {P : Req → Prop} {Q : Block → Out → Prop}
    (hstep : ∀ s b s' o, P s → step lower s b = some (s', o) → P s' ∧ Q b o) :
    ∀ (bs : List Block) (s s' : Req) (outs : List (Block × Out)), P s → run lower s bs = some (s', outs) →
      P s' ∧ ∀ p ∈ outs, Q p.1 p.2 := by
  intro bs
  induction bs with
  | nil =>
    intro s s' outs hp hr
    simp only [run, Option.some.injEq, Prod.mk.injEq] at hr
    obtain ⟨h1, h2⟩ := hr
    subst h1; subst h2
    exact ⟨hp, by simp⟩
  | cons b bs ih =>
    intro s s' outs hp hr
    simp only [run] at hr
    split at hr
    · exact absurd hr (by simp)
    · rename_i s1 o1 hs1
      split at hr
      · exact absurd hr (by simp)
      · rename_i s2 os hr2
        simp only [Option.some.injEq, Prod.mk.injEq] at hr
        obtain ⟨h1, h2⟩ := hr
        subst h1; subst h2
        obtain ⟨hp1, hq1⟩ := hstep s b s1 o1 hp hs1
        obtain ⟨hp2, hq2⟩ := ih s1 s2 os hp1 hr2
        refine ⟨hp2, ?_⟩
        intro p hpm
        simp only [List.mem_cons] at hpm
        rcases hpm with rfl | hpm
        · exact hq1
        · exact hq2 p hpm

/-- a run from an idle request starts with a `start` block -/
theorem run_idle_cases (s : Req) (hidle : s.phase = .idle) (bs : List Block) (s' : Req) (outs : List (Block × Out))
    (hr : run lower s bs = some (s', outs)) :
    (bs = [] ∧ outs = [] ∧ s' = s) ∨
    ∃ t0 c h d rest s1 o1 outs', bs = .start t0 c h d :: rest ∧ step lower s (.start t0 c h d) = some (s1, o1) ∧
      run lower s1 rest = some (s', outs') ∧ outs = (.start t0 c h d, o1) :: outs' := by
  cases bs with
  | nil => left; simp [run] at hr; exact ⟨rfl, hr.2, hr.1.symm⟩
  | cons b rest =>
    right
    simp only [run] at hr
    split at hr
    · exact absurd hr (by simp)
    · rename_i s1 o1 hs1
      split at hr
      · exact absurd hr (by simp)
      · rename_i s2 os hr2
        simp only [Option.some.injEq, Prod.mk.injEq] at hr
        obtain ⟨h1, h2⟩ := hr
        subst h1; subst h2
        cases b with
        | start t0 c h d => exact ⟨t0, c, h, d, rest, s1, o1, os, rfl, hs1, hr2, rfl⟩
        | update now recs c => simp [step, hidle] at hs1
        | resume now c h d => simp [step, hidle] at hs1

/-! ### returning -/

theorem loadFromCache_snd (c : Cache) (i : Info) (now : Int) :
    (loadFromCache lower c i now).2 = (loadFromCache lower c i now).1.complete := rfl

/-- the value a block returns is `_is_complete` of the info object, which is then final -/
theorem step_ret (s : Req) (b : Block) (s' : Req) (o : Out) (r : Bool)
    (hs : step lower s b = some (s', o)) (hr : o.ret = some r) :
    r = o.info.complete ∧ s'.info = o.info ∧ s'.phase = .done r := by
  cases b with
  | start now c h d =>
    simp only [step] at hs
    split at hs
    · exact absurd hs (by simp)
    · split at hs
      · rename_i hc
        simp only [Option.some.injEq, Prod.mk.injEq] at hs
        obtain ⟨hs1, hs2⟩ := hs
        subst hs1; subst hs2
        simp only [Option.some.injEq] at hr
        subst hr
        rw [loadFromCache_snd] at hc
        exact ⟨hc.symm, rfl, rfl⟩
      · simp only [Option.some.injEq] at hs
        have h1 := iter_info lower (s.armed (loadFromCache lower c s.info now).1 now) now c h d
        have h2 := iter_ret lower (s.armed (loadFromCache lower c s.info now).1 now) now c h d r
        rw [hs] at h1 h2
        simp only at h1 h2
        obtain ⟨h2a, h2b⟩ := h2 hr
        exact ⟨by rw [h1.2]; exact h2a, by rw [h1.1, h1.2], h2b⟩
  | update now recs c =>
    simp only [step] at hs
    split at hs
    · split at hs
      · simp only [Option.some.injEq, Prod.mk.injEq] at hs
        obtain ⟨hs1, hs2⟩ := hs
        subst hs2
        simp at hr
      · exact absurd hs (by simp)
    · exact absurd hs (by simp)
  | resume now c h d =>
    simp only [step] at hs
    split at hs
    · split at hs
      · simp only [Option.some.injEq] at hs
        have h1 := iter_info lower s now c h d
        have h2 := iter_ret lower s now c h d r
        rw [hs] at h1 h2
        simp only at h1 h2
        obtain ⟨h2a, h2b⟩ := h2 hr
        exact ⟨by rw [h1.2]; exact h2a, by rw [h1.1, h1.2], h2b⟩
      · exact absurd hs (by simp)
    · exact absurd hs (by simp)

theorem step_done (s : Req) (r : Bool) (hd : s.phase = .done r) (b : Block) : step lower s b = none := by
  cases b <;> simp [step, hd]

/-- nothing happens after the return: the returning block is the last one and its info is the final one -/
theorem run_ret_final : ∀ (bs : List Block) (s s' : Req) (outs : List (Block × Out)),
    run lower s bs = some (s', outs) → ∀ p ∈ outs, ∀ r, p.2.ret = some r →
      r = p.2.info.complete ∧ s'.info = p.2.info ∧ s'.phase = .done r := by
  intro bs
  induction bs with
  | nil =>
    intro s s' outs hr p hp
    simp only [run, Option.some.injEq, Prod.mk.injEq] at hr
    rw [← hr.2] at hp
    exact absurd hp (by simp)
  | cons b bs ih =>
    intro s s' outs hr p hp r hret
    simp only [run] at hr
    split at hr
    · exact absurd hr (by simp)
    · rename_i s1 o1 hs1
      split at hr
      · exact absurd hr (by simp)
      · rename_i s2 os hr2
        simp only [Option.some.injEq, Prod.mk.injEq] at hr
        obtain ⟨h1, h2⟩ := hr
        subst h1; subst h2
        simp only [List.mem_cons] at hp
        rcases hp with rfl | hp
        · obtain ⟨a1, a2, a3⟩ := step_ret lower s b s1 o1 r hs1 hret
          cases bs with
          | nil =>
            simp only [run, Option.some.injEq, Prod.mk.injEq] at hr2
            rw [← hr2.1]
            exact ⟨a1, a2, a3⟩
          | cons b2 bs2 =>
            simp only [run, step_done lower s1 r a3 b2] at hr2
            exact absurd hr2 (by simp)
        · exact ih s1 s2 os hr2 p hp r hret

end Zc.Lookup
