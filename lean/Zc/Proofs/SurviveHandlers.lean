import Zc.Model.SurviveHandlers
import Zc.Proofs.BrowserCb
/-! `Browser.complete` (C04, used by the composite) is the code's `async_update_records_complete` exactly when the handlers return
(`completeE_eq_complete`).  Before the D24b repair (aa04e95), when a handler raised for a pending `Added` event the exception left the
method, the event stayed pending — nothing but the skipped `clear()` ever removes or overwrites a pending `Added` — and every later
call raised again (`raising_handler_wedged_before_fix`); since the repair it raises once (`raising_handler_raises_once`).  (C15, F-U2.) -/
namespace Zc.Survive.Handlers
open Zc

theorem fireAll_ok {h : Handler} (hok : ∀ cb, h cb = .ok ()) : ∀ p, fireAll h p = .ok (p.map cbOf) := by
  intro p
  induction p with
  | nil => rfl
  | cons kv t ih => simp only [fireAll, hok, ih, List.map_cons]

/-- **what the model assumes of browser handlers, named**: they return -/
def HandlersOK (h : Handler) : Prop := ∀ cb, h cb = .ok ()

/-- under `HandlersOK` the code's `async_update_records_complete` is C04's `Browser.complete`: the callbacks the composite emits as
`COut.callback` are the handler calls, all of which returned -/
theorem completeE_eq_complete {h : Handler} (hok : HandlersOK h) (b : Browser) :
    completeE h b = ((Browser.complete b).1, .ok (Browser.complete b).2) := by
  unfold completeE Browser.complete
  rw [fireAll_ok hok]
  rfl

/-- **since the D24b repair a raising handler cannot leave anything behind**: whatever the handlers do, the browser's pending dict is
empty after `async_update_records_complete` — the event that made a handler raise is not fired again -/
theorem completeE_clears (h : Handler) (b : Browser) : (completeE h b).1.pending = [] := rfl

theorem fireAll_raises {h : Handler} : ∀ (p : List ((String × String) × Change)) (kv : (String × String) × Change), kv ∈ p →
    (∃ e, h (cbOf kv) = .error e) → ∃ e, fireAll h p = .error e := by
  intro p
  induction p with
  | nil => intro kv hkv; cases hkv
  | cons x t ih =>
    intro kv hkv he
    unfold fireAll
    cases hx : h (cbOf x) with
    | error e => exact ⟨e, rfl⟩
    | ok u =>
      dsimp only
      have hkv' : kv ∈ t := by
        rcases List.mem_cons.mp hkv with rfl | hk
        · obtain ⟨e, he⟩ := he; rw [hx] at he; cases he
        · exact hk
      obtain ⟨e, hfe⟩ := ih kv hkv' he
      rw [hfe]
      exact ⟨e, rfl⟩

theorem pendingGet_mem' : ∀ (p : List ((String × String) × Change)) (k : String × String) (v : Change),
    pendingGet p k = some v → (k, v) ∈ p := by
  intro p
  induction p with
  | nil => intro k v h; simp [pendingGet] at h
  | cons x t ih =>
    intro k v h
    obtain ⟨k', v'⟩ := x
    unfold pendingGet at h
    split at h
    · rename_i hk
      simp only [Option.some.injEq] at h
      subst hk; subst h
      exact List.mem_cons_self
    · exact List.mem_cons_of_mem _ (ih k v h)

section
variable (lower : String → String) (possible : String → List String)

/-- a pending `Added` for `key` -/
def PendingAdded (key : String × String) (b : Browser) : Prop := pendingGet b.pending key = some .added

/-- **nothing overwrites a pending `Added`**: `_enqueue_callback` stores `Removed` only over a non-`Added`, `Updated` only for an absent key -/
theorem enqueue_keeps {key : String × String} {b : Browser} (h : PendingAdded key b) (ch : Change) (t n : String) :
    PendingAdded key (b.enqueue ch t n) := by
  unfold Browser.enqueue PendingAdded
  dsimp only
  by_cases hk : (n, t) = key
  · subst hk
    unfold PendingAdded at h
    rw [h]
    split
    · rename_i htest
      rw [enqueue_test_iff] at htest
      simp only [pendingGet_set_self]
      rcases htest with ha | ⟨_, hp⟩ | ⟨_, hk⟩
      · have : ch = .added := by simpa using ha
        rw [this]
      · simp at hp
      · simp at hk
    · exact h
  · split
    · rw [pendingGet_set_ne _ (Ne.symm hk)]
      exact h
    · exact h

theorem foldl_keeps {α : Type} {P : Browser → Prop} {f : Browser → α → Browser} (hf : ∀ b a, P b → P (f b a)) :
    ∀ (l : List α) (b : Browser), P b → P (l.foldl f b) := by
  intro l
  induction l with
  | nil => intro b h; exact h
  | cons a t ih => intro b h; exact ih _ (hf b a h)

theorem updateOne_keeps {key : String × String} (c : Cache) (now : Ms) {b : Browser} (h : PendingAdded key b) (u : Rec × Option Rec) :
    PendingAdded key (Browser.updateOne lower possible c now b u) := by
  unfold Browser.updateOne
  dsimp only
  split
  · split
    · apply foldl_keeps (P := PendingAdded key) _ _ _ h
      intro b0 t h0
      split
      · exact enqueue_keeps h0 _ _ _
      · split
        · exact enqueue_keeps h0 _ _ _
        · exact h0
    · exact h
  · split
    · exact h
    · split
      · apply foldl_keeps (P := PendingAdded key) _ _ _ h
        intro b0 name h0
        apply foldl_keeps (P := PendingAdded key) _ _ _ h0
        intro b1 t h1
        exact enqueue_keeps h1 _ _ _
      · apply foldl_keeps (P := PendingAdded key) _ _ _ h
        intro b0 t h0
        exact enqueue_keeps h0 _ _ _

theorem updateRecords_keeps {key : String × String} (c : Cache) (now : Ms) {b : Browser} (h : PendingAdded key b) (us : List (Rec × Option Rec)) :
    PendingAdded key (Browser.updateRecords lower possible c now b us) := by
  unfold Browser.updateRecords
  exact foldl_keeps (P := PendingAdded key) (fun b u hb => updateOne_keeps lower possible c now hb u) us b h

/-- **before the D24b repair a raising handler wedged its browser**: if the handlers raise for the event `Added(t, n)` and that event
is pending, the old `async_update_records_complete` raised and left the browser as it was — and so did every later call, whatever record
updates (`async_update_records`) arrived in between, from whatever cache, at whatever time: the event could never leave
`_pending_handlers`, and it was fired first-come on every call. -/
theorem raising_handler_wedged_before_fix {h : Handler} {t n : String} (hraise : ∃ e, h ⟨.added, t, n⟩ = .error e) {b : Browser}
    (hp : PendingAdded (n, t) b) :
    ((completeBeforeD24b h b).1 = b ∧ ∃ e, (completeBeforeD24b h b).2 = .error e) ∧
    ∀ (rounds : List (Cache × Ms × List (Rec × Option Rec))),
      ∃ e, (completeBeforeD24b h (rounds.foldl (fun b r => Browser.updateRecords lower possible r.1 r.2.1 b r.2.2) b)).2 = .error e := by
  have key : ∀ b' : Browser, PendingAdded (n, t) b' → (completeBeforeD24b h b').1 = b' ∧ ∃ e, (completeBeforeD24b h b').2 = .error e := by
    intro b' hb'
    have hmem := pendingGet_mem' b'.pending (n, t) .added hb'
    obtain ⟨e, he⟩ := fireAll_raises b'.pending ((n, t), .added) hmem hraise
    unfold completeBeforeD24b
    rw [he]
    exact ⟨rfl, e, rfl⟩
  refine ⟨key b hp, ?_⟩
  intro rounds
  exact (key _ (foldl_keeps (P := PendingAdded (n, t)) (fun b r hb => updateRecords_keeps lower possible r.1 r.2.1 hb r.2.2) rounds b hp)).2

/-- … and with the repair the same handler raises **once**: the call that fires the event raises, the event is gone afterwards -/
theorem raising_handler_raises_once {h : Handler} {t n : String} (hraise : ∃ e, h ⟨.added, t, n⟩ = .error e) {b : Browser}
    (hp : PendingAdded (n, t) b) :
    (∃ e, (completeE h b).2 = .error e) ∧ ¬ PendingAdded (n, t) (completeE h b).1 := by
  have hmem := pendingGet_mem' b.pending (n, t) .added hp
  obtain ⟨e, he⟩ := fireAll_raises b.pending ((n, t), .added) hmem hraise
  refine ⟨⟨e, he⟩, ?_⟩
  unfold PendingAdded
  rw [completeE_clears]
  simp [pendingGet]

end

end Zc.Survive.Handlers
