import Zc.Proofs.LinkContracts
import Zc.Props.C10
/-! K3 (the four start-up query opportunities of a browser) from C10's two-container scheduler model `Zc.Sched2`.

The scheduler model says *when the scheduler asks for which types* (`Sched.Send`: one call of `async_send_ready_queries`).  What
that call puts on the wire — the known answers taken from the cache, and the question left out because the host asked or heard it
less than a second ago — is `generate_service_query` and the question history (C13).  The projection therefore maps a scheduler
send to "the question is on the wire, or was suppressed by one that is" (`WireAsk`), which is exactly the shape of `Link.K3opp`;
that mapping is the residual hypothesis, the timing is proved from `C10_startup2`. -/
namespace Zc.Bridge
open Zc Zc.Sched Zc.C10

/-- C13's part, in link terms: the scheduler of browser `b` asks (send `o`, which names `b`'s type).  A QU question (the first
start-up query) is always multicast at that instant; a QM question is multicast at that instant unless the host multicast or heard
the same QM question at most `dupQ` earlier.  The known answers are instances the host has received (`Link.asks`). -/
def WireAsk (tr : Link.Trace) (b : Link.Br) (o : Send) : Prop :=
  if o.qtype = some true then
    ∃ sd ∈ Link.sends tr, sd.h = b.host ∧ sd.dst = none ∧ sd.t = o.t ∧ Link.asks tr b.host sd.t b.ty true sd.items = true
  else
    (∃ sd ∈ Link.sends tr, sd.h = b.host ∧ sd.dst = none ∧ o.t - 999 ≤ sd.t ∧ sd.t ≤ o.t ∧
        Link.asks tr b.host sd.t b.ty false sd.items = true)
    ∨ (∃ e ∈ Link.dlvs tr, e.h = b.host ∧ e.mc = true ∧ o.t - 999 ≤ e.t ∧ e.t ≤ o.t ∧
        Link.asks tr b.host e.t b.ty false e.items = true)

/-- the browser `b`, created at `tb` on a host that is not closed, is a run of C10's two-container scheduler: constructed with the
default question type, its type `n` among the browsed types; record updates may precede `start` (`pre0`), afterwards only record
updates and timer passes (`Active`: no `stop`, the host is not closed); the history goes beyond the end of the window (`covers` —
`exec2` accepts exactly the histories in which no due timer is passed, so this is the liveness half of the loop axiom, built into
C10's model); and every query of the scheduler for the type is on the wire as C13 describes (`wire`). -/
structure BrowserRun (tr : Link.Trace) (endT : Int) (tb : Int) (b : Link.Br) : Prop where
  ex : ∃ (types : List String) (n : String) (minDelay : Nat) (tS : Int) (pre0 : List (Int × Op)) (d : Nat)
      (evs : List (Int × Op)) (s' : Sched2.S2) (outs : List Send),
    n ∈ types ∧ IdleOps pre0 ∧ Active evs ∧
    Sched2.exec2 (browserCfg types minDelay none) {} tS (pre0 ++ (tb, .start d) :: evs) = .ok (s', outs) ∧
    endT < lastTime tb evs ∧
    ∀ o ∈ outs, n ∈ o.types → o.t ≤ endT → WireAsk tr b o

theorem lastTime_le (bound : Int) : ∀ (evs : List (Int × Op)) (clk : Int), clk ≤ bound → (∀ e ∈ evs, e.1 ≤ bound) →
    lastTime clk evs ≤ bound := by
  intro evs
  induction evs with
  | nil => intro clk h _; exact h
  | cons e rest ih =>
    intro clk _ h
    obtain ⟨t, op⟩ := e
    exact ih t (h (t, op) (by simp)) (fun e he => h e (by simp [he]))

theorem startupOffset_mono {i k : Nat} (h : k ≤ i) : startupOffset k ≤ startupOffset i := by
  have hk : k = 0 ∨ k = 1 ∨ k = 2 ∨ 3 ≤ k := by omega
  have hi : i = 0 ∨ i = 1 ∨ i = 2 ∨ 3 ≤ i := by omega
  have h3 : ∀ m : Nat, 3 ≤ m → startupOffset m = 14000 := by
    intro m hm
    match m, hm with
    | m + 3, _ => rfl
  rcases hk with rfl | rfl | rfl | hk <;> rcases hi with rfl | rfl | rfl | hi <;>
    first
    | omega
    | (simp only [startupOffset]; omega)
    | (rw [h3 _ hi]; simp only [startupOffset]; omega)
    | (rw [h3 _ hk, h3 _ hi]; omega)
    | (rw [h3 _ hk]; simp only [startupOffset]; omega)

theorem mem_startupSends (c : Cfg) (t1 : Int) : ∀ (m k i : Nat), k ≤ i → i < k + m → startupSend c t1 i ∈ startupSends c t1 k m := by
  intro m
  induction m with
  | zero => intro k i h1 h2; omega
  | succ m ih =>
    intro k i h1 h2
    simp only [startupSends]
    by_cases hik : i = k
    · subst hik; exact List.mem_cons_self
    · exact List.mem_cons_of_mem _ (ih (k + 1) i (by omega) (by omega))

/-- the `i`-th start-up query (`i < 4`) of a browser whose history goes beyond `tb + 120 + offset i` is among the sends -/
theorem startup_send_mem (types : List String) (minDelay : Nat) (tS : Int) (pre0 : List (Int × Op))
    (tb : Int) (d : Nat) (evs : List (Int × Op)) (s' : Sched2.S2) (outs : List Send) (hidle : IdleOps pre0) (hact : Active evs)
    (hex : Sched2.exec2 (browserCfg types minDelay none) {} tS (pre0 ++ (tb, .start d) :: evs) = .ok (s', outs))
    (i : Nat) (hi : i < 4) (hlast : tb + 120 + startupOffset i < lastTime tb evs) :
    20 ≤ d ∧ d ≤ 120 ∧ startupSend (browserCfg types minDelay none) (tb + d) i ∈ outs := by
  obtain ⟨h20, h120, hcase⟩ := C10_startup2 types minDelay none tS pre0 tb d evs s' outs hidle hact hex
  refine ⟨h20, h120, ?_⟩
  rcases hcase with ⟨hlt, ho, hev⟩ | ⟨_, post, ho, _, _⟩
  · by_cases hik : i < s'.startupSent
    · rw [ho]; exact mem_startupSends _ _ _ 0 i (by omega) (by omega)
    · exfalso
      have hmono := startupOffset_mono (i := i) (k := s'.startupSent) (by omega)
      have := lastTime_le (tb + d + startupOffset s'.startupSent) evs tb
        (by have : 0 ≤ startupOffset s'.startupSent := by
              have := startupOffset_mono (i := s'.startupSent) (k := 0) (by omega)
              simpa [startupOffset] using this
            omega) hev
      omega
  · rw [ho]
    exact List.mem_append_left _ (mem_startupSends _ _ _ 0 i (by omega) (by omega))

/-- **K3 from C10's two-container scheduler model.**  If every browser on a never-closed host is a `BrowserRun`, the four query
opportunities of K3 are there: the first start-up query `d ∈ [20, 120]` ms after the start as a multicast QU question, the next
three 1 s, 5 s and 14 s later as QM questions, each sent or suppressed by the same question at most 999 ms earlier. -/
theorem K3_of_browsers (tr : Link.Trace) (endT : Int)
    (hb : ∀ x ∈ Link.browses tr, Link.neverClosed tr x.2.host = true → BrowserRun tr endT x.1 x.2) :
    Link.K3 Link.Cfg.paper tr endT = true := by
  unfold Link.K3
  rw [List.all_eq_true]
  intro x hx
  cases hopen : Link.neverClosed tr x.2.host with
  | false => rfl
  | true =>
    obtain ⟨types, n, minDelay, tS, pre0, d, evs, s', outs, hn, hidle, hact, hex, hcov, hwire⟩ := (hb x hx hopen).ex
    simp only [Bool.not_true, Bool.false_or, Link.K3opps, Bool.and_true, Bool.and_eq_true, Bool.or_eq_true, Bool.not_eq_true',
      Link.dec_false]
    -- the i-th opportunity
    have opp : ∀ (i : Nat) (hi : i < 4), x.1 + 120 + startupOffset i ≤ endT →
        WireAsk tr x.2 (startupSend (browserCfg types minDelay none) (x.1 + d) i) ∧ 20 ≤ d ∧ d ≤ 120 := by
      intro i hi hend
      obtain ⟨h20, h120, hmem⟩ := startup_send_mem types minDelay tS pre0 x.1 d evs s' outs hidle hact hex i hi (by omega)
      refine ⟨hwire _ hmem (by simp [startupSend, browserCfg, hn]) ?_, h20, h120⟩
      simp only [startupSend]; omega
    refine ⟨?_, ?_, ?_, ?_⟩
    · by_cases hend : x.1 + 120 + 0 ≤ endT
      · right
        obtain ⟨hw, h20, h120⟩ := opp 0 (by omega) (by simpa [startupOffset] using hend)
        simp only [WireAsk, startupSend, sendQtype, browserCfg, startupOffset, Option.isNone_none, beq_self_eq_true, Bool.and_self,
          if_true] at hw
        obtain ⟨sd, hsd, h1, h2, h3, h4⟩ := hw
        simp only [Link.K3opp, if_true, List.any_eq_true, Bool.and_eq_true, beq_iff_eq, Link.dec_true]
        exact ⟨sd, hsd, ⟨⟨⟨⟨h1, by rw [h2]; rfl⟩, by omega⟩, by omega⟩, h4⟩⟩
      · left; exact hend
    · by_cases hend : x.1 + 120 + 1000 ≤ endT
      · right
        obtain ⟨hw, h20, h120⟩ := opp 1 (by omega) (by simpa [startupOffset] using hend)
        simp only [WireAsk, startupSend, sendQtype, browserCfg, startupOffset] at hw
        simp only [Link.K3opp, Bool.false_eq_true, if_false, Bool.or_eq_true, List.any_eq_true, Bool.and_eq_true, beq_iff_eq,
          Link.dec_true]
        rcases hw with ⟨sd, hsd, h1, h2, h3, h4, h5⟩ | ⟨e, he, h1, h2, h3, h4, h5⟩
        · exact Or.inl ⟨sd, hsd, ⟨⟨⟨⟨h1, by rw [h2]; rfl⟩, by omega⟩, by omega⟩, h5⟩⟩
        · exact Or.inr ⟨e, he, ⟨⟨⟨⟨h1, h2⟩, by omega⟩, by omega⟩, h5⟩⟩
      · left; exact hend
    · by_cases hend : x.1 + 120 + 5000 ≤ endT
      · right
        obtain ⟨hw, h20, h120⟩ := opp 2 (by omega) (by simpa [startupOffset] using hend)
        simp only [WireAsk, startupSend, sendQtype, browserCfg, startupOffset] at hw
        simp only [Link.K3opp, Bool.false_eq_true, if_false, Bool.or_eq_true, List.any_eq_true, Bool.and_eq_true, beq_iff_eq,
          Link.dec_true]
        rcases hw with ⟨sd, hsd, h1, h2, h3, h4, h5⟩ | ⟨e, he, h1, h2, h3, h4, h5⟩
        · exact Or.inl ⟨sd, hsd, ⟨⟨⟨⟨h1, by rw [h2]; rfl⟩, by omega⟩, by omega⟩, h5⟩⟩
        · exact Or.inr ⟨e, he, ⟨⟨⟨⟨h1, h2⟩, by omega⟩, by omega⟩, h5⟩⟩
      · left; exact hend
    · by_cases hend : x.1 + 120 + 14000 ≤ endT
      · right
        obtain ⟨hw, h20, h120⟩ := opp 3 (by omega) (by simpa [startupOffset] using hend)
        simp only [WireAsk, startupSend, sendQtype, browserCfg, startupOffset] at hw
        simp only [Link.K3opp, Bool.false_eq_true, if_false, Bool.or_eq_true, List.any_eq_true, Bool.and_eq_true, beq_iff_eq,
          Link.dec_true]
        rcases hw with ⟨sd, hsd, h1, h2, h3, h4, h5⟩ | ⟨e, he, h1, h2, h3, h4, h5⟩
        · exact Or.inl ⟨sd, hsd, ⟨⟨⟨⟨h1, by rw [h2]; rfl⟩, by omega⟩, by omega⟩, h5⟩⟩
        · exact Or.inr ⟨e, he, ⟨⟨⟨⟨h1, h2⟩, by omega⟩, by omega⟩, h5⟩⟩
      · left; exact hend

/-! ### K3b, the main case: a record new to the scheduler, learned after `start`, 75 % point after the start-up phase -/

theorem exec_append_intro (c : Cfg) : ∀ (e1 : List (Int × Op)) (s : S) (clk : Int) (e2 : List (Int × Op)) (s1 s' : S)
    (o1 o2 : List Send), exec c s clk e1 = some (s1, o1) → exec c s1 (lastTime clk e1) e2 = some (s', o2) →
    exec c s clk (e1 ++ e2) = some (s', o1 ++ o2) := by
  intro e1
  induction e1 with
  | nil =>
    intro s clk e2 s1 s' o1 o2 h1 h2
    simp only [exec, Option.some.injEq, Prod.mk.injEq] at h1
    obtain ⟨rfl, rfl⟩ := h1
    simpa [lastTime] using h2
  | cons e es ih =>
    intro s clk e2 s1 s' o1 o2 h1 h2
    obtain ⟨t, op⟩ := e
    obtain ⟨hen, sa, oa, ob, hst, hex, rfl⟩ := exec_cons h1
    have := ih sa t e2 s1 s' ob o2 hex (by simpa [lastTime] using h2)
    have h3 := exec_cons_intro hen hst this
    simpa [List.append_assoc] using h3

/-- cut a history in front of a block and put a withdrawal of some other instance in its place: the loop axioms accept the cut
history (the block's time is what they constrain), and its sends are a prefix of the sends -/
theorem exec_truncate (c : Cfg) (A : List (Int × Op)) (tn : Int) (opn : Op) (rest : List (Int × Op)) (s : S) (clk : Int)
    (s' : S) (outs : List Send) (a' : String) (hex : exec c s clk (A ++ (tn, opn) :: rest) = some (s', outs)) :
    ∃ s'' oA o2, exec c s clk (A ++ [(tn, .cancel a')]) = some (s'', oA) ∧ outs = oA ++ o2 := by
  obtain ⟨sA, oA, o2, h1, h2, rfl⟩ := exec_append c A s clk _ s' outs hex
  obtain ⟨hen, _⟩ := exec_cons h2
  have h3 : exec c sA (lastTime clk A) [(tn, .cancel a')] = some ({ sA with heap := cancelAlias a' sA.heap }, [] ++ []) :=
    exec_cons_intro hen rfl rfl
  have := exec_append_intro c A s clk _ sA _ oA _ h1 h3
  exact ⟨_, oA, o2, by simpa using this, rfl⟩

theorem append_x_ne (a : String) : a ++ "x" ≠ a := by
  intro h
  have := congrArg String.length h
  simp at this

/-- **the 75 % and the 85 % query of a learned record** (scheduler level, from `C10_refresh_chain2`): the browser learns, at `t`
after `start`, the pointer record of an instance it has not seen before (TTL `ttl` s); the record is neither refreshed nor
withdrawn in the blocks `evsA` that follow, up to a block at `tn` beyond the second refresh deadline; the 75 % point is not inside
the start-up phase.  Then the scheduler asks for the type in `[t + 75 %, … + minDelay]` and again 10 % of the TTL after that query,
at most `minDelay` late. -/
theorem refresh_two_sends (types : List String) (minDelay : Nat) (tS : Int) (pre0 : List (Int × Op)) (tb : Int) (d : Nat)
    (pre : List (Int × Op)) (t : Int) (a n : String) (ttl : Nat) (evsA : List (Int × Op)) (tn : Int) (opn : Op)
    (rest : List (Int × Op)) (s' : Sched2.S2) (outs : List Send)
    (hidle : IdleOps pre0) (hnew0 : Untouched a pre0) (hpre : Active pre) (hnew : Untouched a pre)
    (hact : Active evsA) (hun : Untouched a evsA)
    (hlate : tb + d + 14000 ≤ t + 750 * ttl) (httl : (minDelay : Int) < 150 * ttl)
    (hbeyond : t + 850 * ttl + 2 * minDelay < tn)
    (hex : Sched2.exec2 (browserCfg types minDelay none) {} tS
      (pre0 ++ (tb, .start d) :: (pre ++ (t, .ptr a n ttl t) :: (evsA ++ (tn, opn) :: rest))) = .ok (s', outs)) :
    ∃ o1 ∈ outs, t + 750 * ttl ≤ o1.t ∧ o1.t ≤ t + 750 * ttl + minDelay ∧ n ∈ o1.types ∧
      ∃ o2 ∈ outs, o1.t + 100 * ttl ≤ o2.t ∧ o2.t ≤ o1.t + 100 * ttl + minDelay ∧ n ∈ o2.types := by
  have hex1 := (Sched2.exec2_sound _ Sched2.inv2_init hex).1
  have hassoc : pre0 ++ (tb, Op.start d) :: (pre ++ (t, Op.ptr a n ttl t) :: (evsA ++ (tn, opn) :: rest)) =
      (pre0 ++ (tb, Op.start d) :: (pre ++ (t, Op.ptr a n ttl t) :: evsA)) ++ (tn, opn) :: rest := by simp
  rw [hassoc] at hex1
  obtain ⟨s'', oA, o2, hexT, rfl⟩ := exec_truncate _ _ tn opn rest _ tS _ outs (a ++ "x") hex1
  have hassoc2 : (pre0 ++ (tb, Op.start d) :: (pre ++ (t, Op.ptr a n ttl t) :: evsA)) ++ [(tn, Op.cancel (a ++ "x"))] =
      pre0 ++ (tb, Op.start d) :: (pre ++ (t, Op.ptr a n ttl t) :: (evsA ++ [(tn, Op.cancel (a ++ "x"))])) := by simp
  rw [hassoc2] at hexT
  have hact' : Active (evsA ++ [(tn, Op.cancel (a ++ "x"))]) := by
    intro e he
    rcases List.mem_append.mp he with he | he
    · exact hact e he
    · simp only [List.mem_singleton] at he; subst he; rfl
  have hun' : Untouched a (evsA ++ [(tn, Op.cancel (a ++ "x"))]) := by
    intro e he
    rcases List.mem_append.mp he with he | he
    · exact hun e he
    · simp only [List.mem_singleton] at he; subst he
      simp [Op.touches]
  have hch := C10_refresh_chain types minDelay none tS pre0 tb d pre t a n ttl t (evsA ++ [(tn, Op.cancel (a ++ "x"))]) s'' oA 2
    hidle hnew0 hpre hnew hact' hun' (by omega) hlate hexT
  have hlast : lastTime t (evsA ++ [(tn, Op.cancel (a ++ "x"))]) = tn := by
    rw [lastTime_append]; rfl
  rw [hlast] at hch
  simp only [Chain, browserCfg] at hch
  rcases hch with hch | ⟨o1, ho1, h1, h2, h3, hch⟩
  · omega
  · refine ⟨o1, List.mem_append_left _ ho1, h1, h2, h3, ?_⟩
    rcases hch with hch | hch | ⟨o2', ho2, h4, h5, h6, _⟩
    · omega
    · omega
    · exact ⟨o2', List.mem_append_left _ ho2, h4, h5, h6⟩

/-- C13's part for a refresh question: the scheduler asks for `b`'s type at `o.t` while the host's record of `s` is past half its
life (it is not a known answer any more): a QM question for the type that does not list `s` is multicast at that instant, unless
the host multicast or heard such a question at most 999 ms earlier -/
def WireAskWithout (tr : Link.Trace) (b : Link.Br) (s : Link.Svc) (o : Send) : Prop :=
  (∃ sd ∈ Link.sends tr, sd.h = b.host ∧ sd.dst = none ∧ o.t - 999 ≤ sd.t ∧ sd.t ≤ o.t ∧
      Link.asksWithout b.ty s sd.items = true)
  ∨ (∃ e ∈ Link.dlvs tr, e.h = b.host ∧ e.mc = true ∧ o.t - 999 ≤ e.t ∧ e.t ≤ o.t ∧ Link.asksWithout b.ty s e.items = true)

theorem refreshOpp_of_wire (tr : Link.Trace) (b : Link.Br) (s : Link.Svc) (o : Send) (lo hi : Int)
    (hw : WireAskWithout tr b s o) (h1 : lo + 999 ≤ o.t) (h2 : o.t ≤ hi) : Link.refreshOpp tr b.host b.ty s lo hi = true := by
  simp only [Link.refreshOpp, Bool.or_eq_true, List.any_eq_true, Bool.and_eq_true, beq_iff_eq, Link.dec_true]
  rcases hw with ⟨sd, hsd, g1, g2, g3, g4, g5⟩ | ⟨e, he, g1, g2, g3, g4, g5⟩
  · exact Or.inl ⟨sd, hsd, ⟨⟨⟨⟨g1, by rw [g2]; rfl⟩, by omega⟩, by omega⟩, g5⟩⟩
  · exact Or.inr ⟨e, he, ⟨⟨⟨⟨g1, g2⟩, by omega⟩, by omega⟩, g5⟩⟩

/-- **K3b's two windows in the main case**: the scheduler run of `refresh_two_sends` with the default rate limit (10 s), and the
two refresh questions on the wire as C13 describes ⇒ both refresh opportunities of K3b for a PTR processed at `t` with lifetime
`ttl` seconds by a browser created at `tb ≤ t + 75 %`. -/
theorem K3b_windows_main (tr : Link.Trace) (b : Link.Br) (s : Link.Svc) (types : List String) (tS : Int)
    (pre0 : List (Int × Op)) (tb : Int) (d : Nat)
    (pre : List (Int × Op)) (t : Int) (a n : String) (ttl : Nat) (evsA : List (Int × Op)) (tn : Int) (opn : Op)
    (rest : List (Int × Op)) (s' : Sched2.S2) (outs : List Send)
    (hidle : IdleOps pre0) (hnew0 : Untouched a pre0) (hpre : Active pre) (hnew : Untouched a pre)
    (hact : Active evsA) (hun : Untouched a evsA)
    (hlate : tb + d + 14000 ≤ t + 750 * ttl) (httl : 1125 ≤ ttl) (htb : tb + 120 + 14000 + 10000 ≤ t + 750 * ttl)
    (hbeyond : t + 850 * ttl + 20000 < tn)
    (hex : Sched2.exec2 (browserCfg types 10000 none) {} tS
      (pre0 ++ (tb, .start d) :: (pre ++ (t, .ptr a n ttl t) :: (evsA ++ (tn, opn) :: rest))) = .ok (s', outs))
    (hwire : ∀ o ∈ outs, n ∈ o.types → t + 750 * ttl ≤ o.t → WireAskWithout tr b s o) :
    Link.refreshOpp tr b.host b.ty s (Link.refreshWindow Link.Cfg.paper t ttl tb false).1
        (Link.refreshWindow Link.Cfg.paper t ttl tb false).2 = true
    ∧ Link.refreshOpp tr b.host b.ty s (Link.refreshWindow Link.Cfg.paper t ttl tb true).1
        (Link.refreshWindow Link.Cfg.paper t ttl tb true).2 = true := by
  obtain ⟨o1, ho1, h1, h2, h3, o2, ho2, h4, h5, h6⟩ := refresh_two_sends types 10000 tS pre0 tb d pre t a n ttl evsA tn opn rest
    s' outs hidle hnew0 hpre hnew hact hun hlate (by omega) (by omega) hex
  have hw1 := hwire o1 ho1 h3 h1
  have hw2 := hwire o2 ho2 h6 (by omega)
  rw [Link.refreshWindow_early htb false, Link.refreshWindow_early htb true]
  simp only [Bool.false_eq_true, if_false, if_true]
  constructor
  · exact refreshOpp_of_wire tr b s o1 _ _ hw1 (by omega) (by omega)
  · exact refreshOpp_of_wire tr b s o2 _ _ hw2 (by omega) (by omega)

end Zc.Bridge
