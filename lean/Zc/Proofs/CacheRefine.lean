import Zc.Proofs.CacheIndex
/-! The indexed cache refines the flat reference store: every operation of `DNSCache` preserves
"each bucket of each index is the flat store filtered by that index's key". -/
namespace Zc

/-! ### list helpers -/

theorem filter_filter_comm {α} (s : List α) (p q : α → Bool) : (s.filter p).filter q = (s.filter q).filter p := by
  rw [List.filter_filter, List.filter_filter]
  exact List.filter_congr (fun x _ => Bool.and_comm _ _)

theorem filter_append_singleton {α} (s : List α) (p q : α → Bool) (r : α) :
    (s.filter q ++ [r]).filter p = if p r then (s.filter p).filter q ++ [r] else (s.filter p).filter q := by
  rw [List.filter_append, filter_filter_comm s q p]
  by_cases h : p r = true <;> simp [h]

theorem filter_filter_of_imp {α} (s : List α) (p q : α → Bool) (h : ∀ e ∈ s, p e = true → q e = true) :
    (s.filter p).filter q = s.filter p := by
  rw [List.filter_eq_self]
  intro a ha
  rw [List.mem_filter] at ha
  exact h a ha.1 ha.2

section
variable (lower : String → String)

/-- `m` indexes the flat store `s` by `key` (records with `key = none` are not indexed) -/
structure IndexRefines (key : Rec → Option String) (m : Index) (s : List Rec) : Prop where
  get : ∀ k, m.get k = s.filter (fun r => decide (key r = some k))
  keys : m.keys.Nodup
  nonempty : ∀ k b, m.find? k = some b → b ≠ []

variable {lower}
variable {key : Rec → Option String} (hkey : ∀ a b : Rec, a.beq lower b = true → key a = key b)
include hkey

omit hkey in
theorem notbeq_of_key_ne (hkey : ∀ a b : Rec, a.beq lower b = true → key a = key b) {e r : Rec} (h : key e ≠ key r) :
    (!(e.beq lower r)) = true := by
  cases hb : e.beq lower r
  · rfl
  · exact absurd (hkey e r hb) h

theorem IndexRefines.has_iff {m : Index} {s : List Rec} (h : IndexRefines key m s) {r : Rec} {k0 : String} (hk : key r = some k0) :
    Bucket.has lower (m.get k0) r = s.any (fun e => e.beq lower r) := by
  rw [Bool.eq_iff_iff, Bucket.has, h.get, List.any_eq_true, List.any_eq_true]
  constructor
  · rintro ⟨e, he, hb⟩; exact ⟨e, (List.mem_filter.1 he).1, hb⟩
  · rintro ⟨e, he, hb⟩
    refine ⟨e, List.mem_filter.2 ⟨he, ?_⟩, hb⟩
    simp [hkey e r hb, hk]

theorem IndexRefines.put {m : Index} {s : List Rec} (h : IndexRefines key m s) {r : Rec} {k0 : String} (hk : key r = some k0) :
    IndexRefines key (m.set k0 (Bucket.put lower (m.get k0) r)) (s.filter (fun e => !(e.beq lower r)) ++ [r]) := by
  refine ⟨fun k => ?_, Index.nodup_keys_set _ _ _ h.keys, fun k b hb => ?_⟩
  · rw [filter_append_singleton]
    by_cases hkk : k = k0
    · subst hkk
      simp only [Index.get_set_self, Bucket.put, h.get, hk, decide_true, if_true]
    · rw [Index.get_set_ne _ _ hkk, h.get]
      have : decide (key r = some k) = false := by simp [hk, Ne.symm hkk]
      simp only [this, Bool.false_eq_true, if_false]
      symm
      apply filter_filter_of_imp
      intro e _ he
      apply notbeq_of_key_ne hkey
      simp only [decide_eq_true_eq] at he
      rw [he, hk]; simp [hkk]
  · by_cases hkk : k = k0
    · subst hkk
      rw [Index.find?_set_self] at hb
      cases hb
      simp [Bucket.put]
    · rw [Index.find?_set_ne _ _ hkk] at hb
      exact h.nonempty k b hb

theorem IndexRefines.put_none {m : Index} {s : List Rec} (h : IndexRefines key m s) {r : Rec} (hk : key r = none) :
    IndexRefines key m (s.filter (fun e => !(e.beq lower r)) ++ [r]) := by
  refine ⟨fun k => ?_, h.keys, h.nonempty⟩
  rw [filter_append_singleton, h.get]
  simp only [hk, reduceCtorEq, decide_false, Bool.false_eq_true, if_false]
  symm
  apply filter_filter_of_imp
  intro e _ he
  apply notbeq_of_key_ne hkey
  simp only [decide_eq_true_eq] at he
  rw [he, hk]; simp

theorem IndexRefines.del_none {m : Index} {s : List Rec} (h : IndexRefines key m s) {r : Rec} (hk : key r = none) :
    IndexRefines key m (s.filter (fun e => !(e.beq lower r))) := by
  refine ⟨fun k => ?_, h.keys, h.nonempty⟩
  rw [h.get, filter_filter_comm]
  symm
  apply filter_filter_of_imp
  intro e _ he
  apply notbeq_of_key_ne hkey
  simp only [decide_eq_true_eq] at he
  rw [he, hk]; simp

/-- `_remove_key` succeeds exactly when the flat store holds the record, and then refines its removal -/
theorem IndexRefines.removeKey {m : Index} {s : List Rec} (h : IndexRefines key m s) {r : Rec} {k0 : String} (hk : key r = some k0) :
    if s.any (fun e => e.beq lower r) then
      ∃ m', Cache.removeKey lower m k0 r = .ok m' ∧ IndexRefines key m' (s.filter (fun e => !(e.beq lower r)))
    else Cache.removeKey lower m k0 r = .error .keyError := by
  have hhas := h.has_iff hkey hk
  unfold Cache.removeKey
  cases hf : m.find? k0 with
  | none =>
    have hg : m.get k0 = [] := by simp [Index.get, hf]
    rw [hg] at hhas
    simp only [Bucket.has, List.any_nil] at hhas
    simp [← hhas]
  | some b =>
    have hg : m.get k0 = b := by simp [Index.get, hf]
    rw [hg] at hhas
    simp only [hhas]
    split
    · rename_i hany
      have hdel : Bucket.del lower b r = (s.filter (fun e => !(e.beq lower r))).filter (fun x => decide (key x = some k0)) := by
        rw [Bucket.del, ← hg, h.get, filter_filter_comm]
      refine ⟨_, rfl, ?_⟩
      split
      · rename_i hempty
        have hnil : Bucket.del lower b r = [] := by simpa using hempty
        refine ⟨fun k => ?_, Index.nodup_keys_erase _ _ h.keys, fun k b' hb' => ?_⟩
        · by_cases hkk : k = k0
          · subst hkk; rw [Index.get_erase_self, ← hdel, hnil]
          · rw [Index.get_erase_ne _ hkk, h.get, filter_filter_comm]
            symm
            apply filter_filter_of_imp
            intro e _ he
            apply notbeq_of_key_ne hkey
            simp only [decide_eq_true_eq] at he
            rw [he, hk]; simp [hkk]
        · by_cases hkk : k = k0
          · subst hkk; rw [Index.find?_erase_self] at hb'; cases hb'
          · rw [Index.find?_erase_ne _ hkk] at hb'; exact h.nonempty k b' hb'
      · rename_i hne
        refine ⟨fun k => ?_, Index.nodup_keys_set _ _ _ h.keys, fun k b' hb' => ?_⟩
        · by_cases hkk : k = k0
          · subst hkk; rw [Index.get_set_self, hdel]
          · rw [Index.get_set_ne _ _ hkk, h.get, filter_filter_comm]
            symm
            apply filter_filter_of_imp
            intro e _ he
            apply notbeq_of_key_ne hkey
            simp only [decide_eq_true_eq] at he
            rw [he, hk]; simp [hkk]
        · by_cases hkk : k = k0
          · subst hkk
            rw [Index.find?_set_self] at hb'
            cases hb'
            intro hnil; exact hne (by simp [hnil])
          · rw [Index.find?_set_ne _ _ hkk] at hb'; exact h.nonempty k b' hb'
    · rfl

omit hkey in
theorem IndexRefines.mapRecs {m : Index} {s : List Rec} (h : IndexRefines key m s) (f : Rec → Rec) (hf : ∀ e, key (f e) = key e) :
    IndexRefines key (m.mapRecs f) (s.map f) := by
  refine ⟨fun k => ?_, by rw [Index.keys_mapRecs]; exact h.keys, fun k b hb => ?_⟩
  · rw [Index.get_mapRecs, h.get, List.filter_map]
    congr 1
    exact List.filter_congr (fun x _ => by simp [hf])
  · rw [Index.find?_mapRecs] at hb
    cases hfk : m.find? k with
    | none => simp [hfk] at hb
    | some b0 =>
      simp only [hfk, Option.map_some, Option.some.injEq] at hb
      subst hb
      have := h.nonempty k b0 hfk
      simpa using this

end

/-! ### the two indexes of `DNSCache` -/

section
variable (lower : String → String)

def nameKey (r : Rec) : Option String := some (lower r.name)

theorem nameKey_congr (a b : Rec) (h : a.beq lower b = true) : nameKey lower a = nameKey lower b := by
  simp [nameKey, ident_name lower ((beq_iff_ident lower a b).1 h)]

theorem serverKey_congr (a b : Rec) (h : a.beq lower b = true) : a.serverKey lower = b.serverKey lower :=
  ident_serverKey lower ((beq_iff_ident lower a b).1 h)

/-- The indexed cache `c` and the flat reference store `s` hold the same records: each name bucket is
`s` filtered by lower-cased owner name, each SRV-host bucket is `s` filtered by lower-cased target host
(both in arrival order), no bucket is empty, no key occurs twice. -/
structure Refines (c : Cache) (s : List Rec) : Prop where
  byName : IndexRefines (nameKey lower) c.cache s
  byServer : IndexRefines (Rec.serverKey lower) c.svc s

theorem Refines.empty : Refines lower {} [] :=
  ⟨⟨fun _ => rfl, List.nodup_nil, fun _ _ h => by simp at h⟩, ⟨fun _ => rfl, List.nodup_nil, fun _ _ h => by simp at h⟩⟩

variable {lower}

theorem Refines.add {c : Cache} {s : List Rec} (h : Refines lower c s) (r : Rec) :
    Refines lower (Cache.add lower c r).1 (Flat.add lower s r).1 ∧ (Cache.add lower c r).2 = (Flat.add lower s r).2 := by
  refine ⟨⟨?_, ?_⟩, ?_⟩
  · exact h.byName.put (nameKey_congr lower) (r := r) rfl
  · simp only [Cache.add, Flat.add]
    cases hs : r.serverKey lower with
    | none => exact h.byServer.put_none (serverKey_congr lower) hs
    | some h0 => exact h.byServer.put (serverKey_congr lower) hs
  · simp only [Cache.add, Flat.add]
    rw [h.byName.has_iff (nameKey_congr lower) (r := r) rfl]

theorem Refines.remove {c : Cache} {s : List Rec} (h : Refines lower c s) (r : Rec) :
    match Cache.remove lower c r, Flat.remove lower s r with
    | .ok c', .ok s' => Refines lower c' s'
    | .error e, .error e' => e = e'
    | _, _ => False := by
  have h1 := h.byName.removeKey (nameKey_congr lower) (r := r) rfl
  unfold Cache.remove Flat.remove
  cases hs : r.serverKey lower with
  | none =>
    by_cases hany : s.any (fun e => e.beq lower r) = true
    · simp only [hany, if_true] at h1 ⊢
      obtain ⟨m', hm', hr⟩ := h1
      simp only [pure, Except.pure, bind, Except.bind, hm']
      exact ⟨hr, h.byServer.del_none (serverKey_congr lower) hs⟩
    · simp only [hany, Bool.false_eq_true, if_false] at h1 ⊢
      simp only [pure, Except.pure, bind, Except.bind, h1]
  | some h0 =>
    have h2 := h.byServer.removeKey (serverKey_congr lower) hs
    by_cases hany : s.any (fun e => e.beq lower r) = true
    · simp only [hany, if_true] at h1 h2 ⊢
      obtain ⟨m', hm', hr⟩ := h1
      obtain ⟨m2, hm2, hr2⟩ := h2
      simp only [bind, Except.bind, hm2, hm', pure, Except.pure]
      exact ⟨hr, hr2⟩
    · simp only [hany, Bool.false_eq_true, if_false] at h1 h2 ⊢
      simp only [bind, Except.bind, h2]

theorem Refines.mapRecs {c : Cache} {s : List Rec} (h : Refines lower c s) (f : Rec → Rec)
    (hn : ∀ e, (f e).name = e.name) (hs : ∀ e, (f e).serverKey lower = e.serverKey lower) :
    Refines lower (c.mapRecs f) (s.map f) :=
  ⟨h.byName.mapRecs f (fun e => by simp [nameKey, hn]), h.byServer.mapRecs f hs⟩

theorem Refines.resetTtl {c : Cache} {s : List Rec} (h : Refines lower c s) (r : Rec) :
    Refines lower (c.resetTtl lower r) (Flat.resetTtl lower s r) :=
  h.mapRecs _ (fun e => by split <;> simp) (fun e => by split <;> simp)

theorem Refines.markFlush {c : Cache} {s : List Rec} (h : Refines lower c s) (uts : List (String × Nat × Nat)) (ans : List Rec) (now : Ms) :
    Refines lower (c.markFlush lower uts ans now) (Flat.markFlush lower s uts ans now) :=
  h.mapRecs _ (fun e => by split <;> simp) (fun e => by split <;> simp)

end
end Zc
