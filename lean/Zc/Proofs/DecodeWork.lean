import Zc.Model.Wire.DecodeWork
import Zc.Model.Wire.BitmapIters
import Zc.Proofs.DecodeLib
/-! Bounds on the loop counters of `Zc.Wire.DecodeLib.parseWork` (C02, second review finding 1): **all of them are
linear in the length of the datagram**.

* a question takes at least 5 bytes, a record at least 11: `5·questions ≤ len + 5`, `11·records ≤ len + 11`;
* `_read_bitmap` is called at most once per record;
* the bitmap bytes scanned over *all* calls are disjoint pieces of the datagram and every completed `while` iteration
  consumes two more bytes: `bmBytes + 2·bmIters ≤ len + 2` (the `+ 2` is the one iteration that may end in `IndexError`);
* a bitmap byte names at most 8 rdtypes.

The argument is a potential: across one record the work is paid for by the advance of `self.offset`.  The only place
where the offset moves backwards is `self.offset = end` after a record failed; a record that fails *inside*
`_read_bitmap` did so at the end of the datagram with `end` beyond it, so the record loop stops at the next name. -/
namespace Zc.Wire.DecodeLib
open Zc Zc.Wire
open Zc.GenFacts.Incoming

/-! ### one `_read_bitmap` call -/

theorem slice_len' (buf : Bytes) (a b : Nat) : (slice buf a b).length ≤ b - a ∧ (slice buf a b).length ≤ buf.length - a := by
  unfold slice
  simp only [List.length_take, List.length_drop]
  omega

theorem filterMap_range8_le (f : Nat → Option Nat) : ((List.range 8).filterMap f).length ≤ 8 := by
  have := List.length_filterMap_le f (List.range 8)
  simpa using this

theorem flatMap_len_le {α β : Type} (f : α → List β) (k : Nat) (h : ∀ a, (f a).length ≤ k) :
    ∀ l : List α, (l.flatMap f).length ≤ k * l.length := by
  intro l
  induction l with
  | nil => simp
  | cons a l ih =>
    simp only [List.flatMap_cons, List.length_append, List.length_cons]
    have := h a
    rw [Nat.mul_succ]
    omega

/-- a bitmap byte names at most eight rdtypes -/
theorem bitmapTypesLib_len (w : Nat) (bm : Bytes) : (bitmapTypesLib w bm).length ≤ 8 * bm.length := by
  unfold bitmapTypesLib
  have := flatMap_len_le (fun i => (List.range 8).filterMap (fun bit =>
      if Gen.Incoming.bitmap_bit_set (bm.getD i 0).toNat bit then some (Gen.Incoming.bitmap_rdtype bit w i) else none)) 8
    (fun i => filterMap_range8_le _) (List.range bm.length)
  simpa using this

/-- the first two counters are C15's `readBitmapC` (`Model/Wire/BitmapIters.lean`, compared per call with the real loop by C15's
harness): the per-call bound `C15_bitmap_work` and the total bound below are about the same numbers -/
theorem readBitmapW_eq_C (buf : Bytes) (end_ : Nat) : ∀ (fuel : Nat) (st : St),
    ((readBitmapW buf end_ fuel st).iters, (readBitmapW buf end_ fuel st).bytes) = readBitmapC buf end_ fuel st := by
  intro fuel
  induction fuel with
  | zero => intro st; rfl
  | succ fuel ih =>
    intro st
    unfold readBitmapW readBitmapC
    split
    · cases byteAt buf st.off with
      | error e => rfl
      | ok w =>
        dsimp only
        cases byteAt buf (st.off + 1) with
        | error e => rfl
        | ok blen =>
          dsimp only
          rw [← ih]
    · rfl

/-- the potential a `_read_bitmap` call pays with: scanned bytes plus two per iteration -/
def BmWork.pot (w : BmWork) : Nat := w.bytes + 2 * w.iters

/-- what one `_read_bitmap(end)` call entered at `st.off` guarantees about its counters.
Success: the work is paid for by the advance of the offset, and stays inside the datagram unless the loop was not
entered.  Failure (`IndexError` on a window header): the failing iteration was entered at the end of the datagram with
`end` beyond it. -/
def BmOK (buf : Bytes) (end_ : Nat) (st : St) (r : St × Except PyExc (List Nat)) (w : BmWork) : Prop :=
  w.types ≤ 8 * w.bytes ∧
  (∀ ts, r.2 = .ok ts → w.pot + st.off ≤ r.1.off ∧ (w.pot = 0 ∨ w.pot + st.off ≤ buf.length)) ∧
  (∀ e, r.2 = .error e → (w.pot ≤ 2 ∨ w.pot + st.off ≤ buf.length + 2) ∧ buf.length ≤ end_)

theorem readBitmapW_spec (buf : Bytes) (end_ : Nat) : ∀ (fuel : Nat) (st : St), buf.length - st.off + 1 ≤ fuel →
    BmOK buf end_ st (readBitmap buf end_ fuel st) (readBitmapW buf end_ fuel st) := by
  intro fuel
  induction fuel with
  | zero => intro st h; omega
  | succ fuel ih =>
    intro st hf
    unfold BmOK readBitmap readBitmapW
    dsimp only
    by_cases hm : Gen.Incoming.bitmap_more st.off end_ = true
    · rw [if_pos hm, if_pos hm]
      have hlt := (bitmap_more_iff _ _).mp hm
      cases hb : byteAt buf st.off with
      | error e =>
        have hge : buf.length ≤ st.off := by
          unfold byteAt at hb
          split at hb
          · simp at hb
          · rename_i hnone
            exact List.getElem?_eq_none_iff.mp hnone
        refine ⟨by simp, by intro ts h; simp at h, ?_⟩
        intro e' _
        exact ⟨Or.inl (by simp [BmWork.pot]), by omega⟩
      | ok window =>
        dsimp only
        cases hb2 : byteAt buf (st.off + 1) with
        | error e =>
          have hge : buf.length ≤ st.off + 1 := by
            unfold byteAt at hb2
            split at hb2
            · simp at hb2
            · rename_i hnone
              exact List.getElem?_eq_none_iff.mp hnone
          refine ⟨by simp, by intro ts h; simp at h, ?_⟩
          intro e' _
          exact ⟨Or.inl (by simp [BmWork.pot]), by omega⟩
        | ok blen =>
          dsimp only
          have h1 := byteAt_ok_lt hb2
          have hadv := bitmap_advance_eq blen
          have hend := bitmap_end_eq (st.off + 2) blen
          obtain ⟨s1, s2⟩ := slice_len' buf (st.off + 2) (Gen.Incoming.bitmap_end (st.off + 2) blen)
          have htl := bitmapTypesLib_len window (slice buf (st.off + 2) (Gen.Incoming.bitmap_end (st.off + 2) blen))
          have := ih { st with off := st.off + Gen.Incoming.bitmap_advance blen } (by simp only; omega)
          unfold BmOK at this
          rw [hend] at s1 s2 htl ⊢
          generalize readBitmap buf end_ fuel { st with off := st.off + Gen.Incoming.bitmap_advance blen } = r at this ⊢
          generalize readBitmapW buf end_ fuel { st with off := st.off + Gen.Incoming.bitmap_advance blen } = w at this ⊢
          generalize (bitmapTypesLib window (slice buf (st.off + 2) (st.off + 2 + blen))).length = tl at htl ⊢
          generalize (slice buf (st.off + 2) (st.off + 2 + blen)).length = sl at s1 s2 htl ⊢
          obtain ⟨st', res⟩ := r
          obtain ⟨ht, hok, herr⟩ := this
          simp only [BmWork.pot, hadv] at ht hok herr s1 s2 ⊢
          cases res with
          | error e =>
            dsimp only
            refine ⟨by omega, by intro ts h; simp at h, ?_⟩
            intro e' _
            obtain ⟨hh, hl⟩ := herr e rfl
            refine ⟨?_, hl⟩
            rcases hh with hh | hh
            · right; omega
            · right; omega
          | ok rest =>
            dsimp only
            refine ⟨by omega, ?_, by intro e' h; simp at h⟩
            intro ts _
            obtain ⟨ha, hb'⟩ := hok rest rfl
            refine ⟨by omega, ?_⟩
            right
            rcases hb' with hb' | hb'
            · omega
            · omega
    · rw [if_neg hm, if_neg hm]
      refine ⟨by simp, ?_, by intro e h; simp at h⟩
      intro ts _
      exact ⟨by simp [BmWork.pot], Or.inl (by simp [BmWork.pot])⟩

/-! ### `_read_name` beyond the datagram -/

/-- entered at or behind the end of the datagram, `_read_name` raises at once -/
theorem readName_beyond {cfg : Cfg} (hc : CfgOK cfg) (buf : Bytes) (st : St) (h : buf.length ≤ st.off) :
    ∃ st' e, readName cfg buf st = (st', .error e) := by
  have hs := (readName_spec hc buf st).2.2
  cases hr : readName cfg buf st with
  | mk st' res =>
    cases res with
    | error e => exact ⟨st', e, rfl⟩
    | ok n =>
      have := (hs n (by rw [hr])).1
      omega

/-! ### the record loop -/

@[simp] theorem Work.add_records (a b : Work) : (a.add b).records = a.records + b.records := rfl
@[simp] theorem Work.add_bmCalls (a b : Work) : (a.add b).bmCalls = a.bmCalls + b.bmCalls := rfl
@[simp] theorem Work.add_bmIters (a b : Work) : (a.add b).bmIters = a.bmIters + b.bmIters := rfl
@[simp] theorem Work.add_bmBytes (a b : Work) : (a.add b).bmBytes = a.bmBytes + b.bmBytes := rfl
@[simp] theorem Work.add_bmTypes (a b : Work) : (a.add b).bmTypes = a.bmTypes + b.bmTypes := rfl
@[simp] theorem Work.add_questions (a b : Work) : (a.add b).questions = a.questions + b.questions := rfl
@[simp] theorem Work.rec1_records (a : Work) : a.rec1.records = a.records + 1 := rfl
@[simp] theorem Work.rec1_bmCalls (a : Work) : a.rec1.bmCalls = a.bmCalls := rfl
@[simp] theorem Work.rec1_bmIters (a : Work) : a.rec1.bmIters = a.bmIters := rfl
@[simp] theorem Work.rec1_bmBytes (a : Work) : a.rec1.bmBytes = a.bmBytes := rfl
@[simp] theorem Work.rec1_bmTypes (a : Work) : a.rec1.bmTypes = a.bmTypes := rfl
@[simp] theorem Work.rec1_questions (a : Work) : a.rec1.questions = a.questions := rfl

/-- the bitmap potential of a `Work` -/
def Work.pot (w : Work) : Nat := w.bmBytes + 2 * w.bmIters

/-- no bitmap work, no question -/
def Work.noBm (w : Work) : Prop := w.bmCalls = 0 ∧ w.bmIters = 0 ∧ w.bmBytes = 0 ∧ w.bmTypes = 0 ∧ w.questions = 0

/-- behind the end of the datagram the record loop enters at most one iteration and does no bitmap work -/
theorem recordsWork_beyond {cfg : Cfg} (hc : CfgOK cfg) (buf : Bytes) (n : Nat) (st : St) (h : buf.length ≤ st.off) :
    (recordsWork cfg buf n st).records ≤ 1 ∧ (recordsWork cfg buf n st).noBm := by
  cases n with
  | zero => unfold recordsWork; simp [Work.noBm]
  | succ n =>
    unfold recordsWork
    obtain ⟨st', e, hr⟩ := readName_beyond hc buf st h
    rw [hr]
    simp [Work.noBm]

/-- what one `_read_record` call guarantees about its bitmap work `w`, its result `r` and the record's `end` -/
def RdWorkOK (buf : Bytes) (end_ : Nat) (st : St) (r : St × Except PyExc (Option WRData)) (w : Work) : Prop :=
  w.bmCalls ≤ 1 ∧ w.records = 0 ∧ w.questions = 0 ∧ w.bmTypes ≤ 8 * w.bmBytes ∧
  (∀ rd, r.2 = .ok rd → st.off ≤ r.1.off ∧ w.pot + st.off ≤ r.1.off ∧ (w.pot = 0 ∨ w.pot + st.off ≤ buf.length)) ∧
  (∀ e, r.2 = .error e → w.pot = 0 ∨ ((w.pot ≤ 2 ∨ w.pot + st.off ≤ buf.length + 2) ∧ buf.length ≤ end_))

theorem rdataWork_zero {cfg : Cfg} {buf : Bytes} {t length : Nat} {st : St} (h : nsecBranch t = false) :
    rdataWork cfg buf t length st = {} := by
  unfold rdataWork
  rw [h]
  rfl

theorem RdWorkOK.zero {buf : Bytes} {end_ : Nat} {st : St} {r : St × Except PyExc (Option WRData)}
    (h : ∀ rd, r.2 = .ok rd → st.off ≤ r.1.off) : RdWorkOK buf end_ st r {} := by
  refine ⟨by simp, rfl, rfl, by simp, ?_, ?_⟩
  · intro rd hrd
    exact ⟨h rd hrd, by simpa [Work.pot] using h rd hrd, Or.inl (by simp [Work.pot])⟩
  · intro e _
    exact Or.inl (by simp [Work.pot])

theorem rdataWork_spec {cfg : Cfg} (hc : CfgOK cfg) (buf : Bytes) (t length : Nat) (st : St) :
    RdWorkOK buf (Gen.Incoming.r_end st.off length) st (readRData cfg buf t length st) (rdataWork cfg buf t length st) := by
  have hmono : ∀ rd, (readRData cfg buf t length st).2 = .ok rd → st.off ≤ (readRData cfg buf t length st).1.off :=
    fun rd h => ((readRData_spec hc buf t length st).2.2 rd h).1
  by_cases hb : nsecBranch t = true
  · -- the NSEC branch
    have hb' := hb
    simp only [nsecBranch, Bool.and_eq_true, Bool.not_eq_true'] at hb'
    obtain ⟨⟨⟨⟨⟨⟨h1, h2⟩, h3⟩, h4⟩, h5⟩, h6⟩, h7⟩ := hb'
    unfold readRData rdataWork
    rw [if_neg (by simp [h1]), if_neg (by simp [h2]), if_neg (by simp [h3]), if_neg (by simp [h4]),
      if_neg (by simp [h5]), if_neg (by simp [h6]), if_pos h7, if_pos hb]
    dsimp only
    have hn := readName_spec hc buf st
    generalize readName cfg buf st = rn at hn
    obtain ⟨st1, res⟩ := rn
    obtain ⟨_, _, hok⟩ := hn
    cases res with
    | error e =>
      dsimp only
      exact RdWorkOK.zero (by intro rd h; simp at h)
    | ok nm =>
      dsimp only
      obtain ⟨_, ho, _⟩ := hok nm rfl
      simp only at ho
      have hbm := readBitmapW_spec buf (Gen.Incoming.nsec_end st.off length) (buf.length + 1) st1 (by omega)
      generalize readBitmap buf (Gen.Incoming.nsec_end st.off length) (buf.length + 1) st1 = rb at hbm
      generalize readBitmapW buf (Gen.Incoming.nsec_end st.off length) (buf.length + 1) st1 = w at hbm
      obtain ⟨st2, res⟩ := rb
      obtain ⟨ht, hbok, hberr⟩ := hbm
      have hne := nsec_end_eq st.off length
      have hre := r_end_eq st.off length
      cases res with
      | error e =>
        dsimp only
        refine ⟨by simp [Work.ofBm], rfl, rfl, by simpa [Work.ofBm] using ht, by intro rd h; simp at h, ?_⟩
        intro e' _
        obtain ⟨hh, hl⟩ := hberr e rfl
        right
        simp only [Work.pot, Work.ofBm, BmWork.pot] at hh ⊢
        refine ⟨?_, by omega⟩
        rcases hh with hh | hh
        · left; exact hh
        · right; omega
      | ok ts =>
        dsimp only
        refine ⟨by simp [Work.ofBm], rfl, rfl, by simpa [Work.ofBm] using ht, ?_, by intro e h; simp at h⟩
        intro rd _
        obtain ⟨ha, hb2⟩ := hbok ts rfl
        simp only [Work.pot, Work.ofBm, BmWork.pot] at ha hb2 ⊢
        refine ⟨by omega, by omega, ?_⟩
        rcases hb2 with hb2 | hb2
        · left; exact hb2
        · right; omega
  · have hb' : nsecBranch t = false := by simpa using hb
    rw [rdataWork_zero hb']
    exact RdWorkOK.zero hmono

/-- the counters of the record loop started at `st` -/
def RecWorkOK (buf : Bytes) (st : St) (w : Work) : Prop :=
  w.bmCalls ≤ w.records ∧ w.questions = 0 ∧ w.bmTypes ≤ 8 * w.bmBytes ∧
  (st.off ≤ buf.length → 11 * w.records + st.off ≤ buf.length + 11 ∧ w.pot + st.off ≤ buf.length + 2)

theorem RecWorkOK.stop (buf : Bytes) (st : St) (k : Nat) (hk : k ≤ 1) : RecWorkOK buf st { records := k } := by
  refine ⟨Nat.zero_le _, rfl, Nat.zero_le _, ?_⟩
  intro h
  show 11 * k + st.off ≤ buf.length + 11 ∧ 0 + 2 * 0 + st.off ≤ buf.length + 2
  omega

theorem recordsWork_spec {cfg : Cfg} (hc : CfgOK cfg) (buf : Bytes) : ∀ (n : Nat) (st : St),
    RecWorkOK buf st (recordsWork cfg buf n st) := by
  intro n
  induction n with
  | zero =>
    intro st
    unfold recordsWork
    exact RecWorkOK.stop buf st 0 (by omega)
  | succ n ih =>
    intro st
    unfold recordsWork
    have hn := readName_spec hc buf st
    generalize readName cfg buf st = rn at hn
    obtain ⟨st1, res⟩ := rn
    obtain ⟨_, _, hok⟩ := hn
    cases res with
    | error e =>
      dsimp only
      exact RecWorkOK.stop buf st 1 (by omega)
    | ok domain =>
      dsimp only
      obtain ⟨ho1, ho2, _⟩ := hok domain rfl
      simp only at ho2
      cases hq : readFixed buf st1.off with
      | error e =>
        dsimp only
        exact RecWorkOK.stop buf st 1 (by omega)
      | ok v =>
        obtain ⟨t, c, ttl, length⟩ := v
        dsimp only
        -- the ten fixed bytes lie inside the datagram
        have hfix : st1.off + 10 ≤ buf.length := by
          unfold readFixed at hq
          cases h1 : two buf st1.off (st1.off + 1) Gen.Incoming.r_type with
          | error e => simp [h1, bind, Except.bind] at hq
          | ok a =>
          cases h2 : two buf (st1.off + 2) (st1.off + 3) Gen.Incoming.r_class with
          | error e => simp [h1, h2, bind, Except.bind] at hq
          | ok b =>
          cases h3 : byteAt buf (st1.off + 4) with
          | error e => simp [h1, h2, h3, bind, Except.bind] at hq
          | ok b4 =>
          cases h4 : byteAt buf (st1.off + 5) with
          | error e => simp [h1, h2, h3, h4, bind, Except.bind] at hq
          | ok b5 =>
          cases h5 : byteAt buf (st1.off + 6) with
          | error e => simp [h1, h2, h3, h4, h5, bind, Except.bind] at hq
          | ok b6 =>
          cases h6 : byteAt buf (st1.off + 7) with
          | error e => simp [h1, h2, h3, h4, h5, h6, bind, Except.bind] at hq
          | ok b7 =>
          cases h7 : two buf (st1.off + 8) (st1.off + 9) Gen.Incoming.r_rdlen with
          | error e => simp [h1, h2, h3, h4, h5, h6, h7, bind, Except.bind] at hq
          | ok l =>
            unfold two at h7
            cases h8 : byteAt buf (st1.off + 8) with
            | error e => simp [h8, bind, Except.bind] at h7
            | ok x =>
            cases h9 : byteAt buf (st1.off + 9) with
            | error e => simp [h8, h9, bind, Except.bind] at h7
            | ok y =>
              have := byteAt_ok_lt h9
              omega
        have hrl := r_len_eq
        have hrd := rdataWork_spec hc buf t length { st1 with off := st1.off + Gen.Incoming.r_len }
        have hre := r_end_eq (st1.off + Gen.Incoming.r_len) length
        generalize rdataWork cfg buf t length { st1 with off := st1.off + Gen.Incoming.r_len } = w at hrd
        generalize readRData cfg buf t length { st1 with off := st1.off + Gen.Incoming.r_len } = r at hrd
        obtain ⟨st3, res⟩ := r
        obtain ⟨hc1, hr0, hq0, hty, hrok, hrerr⟩ := hrd
        simp only at hrok hrerr
        -- the rest of the loop from a state whose offset is at or behind the fixed part
        have rest : ∀ (s : St), st1.off + 10 ≤ s.off →
            (w.pot = 0 ∨ (w.pot + (st1.off + 10) ≤ s.off ∧ w.pot + (st1.off + 10) ≤ buf.length)
              ∨ ((w.pot ≤ 2 ∨ w.pot + (st1.off + 10) ≤ buf.length + 2) ∧ buf.length ≤ s.off)) →
            RecWorkOK buf st (w.add (recordsWork cfg buf n s)).rec1 := by
          intro s hs hw
          obtain ⟨i1, i2, i3, i4⟩ := ih s
          refine ⟨by simp; omega, by simp [hq0, i2], by simp; omega, ?_⟩
          intro hle
          by_cases hsl : s.off ≤ buf.length
          · obtain ⟨j1, j2⟩ := i4 hsl
            simp only [Work.pot, Work.rec1_records, Work.add_records, Work.rec1_bmBytes, Work.add_bmBytes,
              Work.rec1_bmIters, Work.add_bmIters] at j1 j2 hw ⊢
            refine ⟨by omega, ?_⟩
            rcases hw with hw | ⟨hw, _⟩ | ⟨hw, hw'⟩
            · omega
            · omega
            · rcases hw with hw | hw <;> omega
          · obtain ⟨b1, b2, b3, b4, b5, b6⟩ := recordsWork_beyond hc buf n s (by omega)
            simp only [Work.pot, Work.rec1_records, Work.add_records, Work.rec1_bmBytes, Work.add_bmBytes,
              Work.rec1_bmIters, Work.add_bmIters] at hw ⊢
            refine ⟨by omega, ?_⟩
            rcases hw with hw | ⟨_, hw⟩ | ⟨hw, _⟩
            · omega
            · omega
            · rcases hw with hw | hw <;> omega
        cases res with
        | error e =>
          dsimp only
          split
          · refine rest _ (by simp only; omega) ?_
            rcases hrerr e rfl with h | ⟨h, hl⟩
            · exact Or.inl h
            · right; right
              simp only [hrl] at h
              exact ⟨h, hl⟩
          · -- an exception that is not caught ends the loop
            refine ⟨by simp; omega, by simp [hq0], by simpa using hty, ?_⟩
            intro hle
            simp only [Work.pot, Work.rec1_records, Work.rec1_bmBytes, Work.rec1_bmIters]
            rcases hrerr e rfl with h | ⟨h, hl⟩
            · simp only [Work.pot] at h; omega
            · simp only [Work.pot, hrl] at h; rcases h with h | h <;> omega
        | ok rdo =>
          dsimp only
          obtain ⟨hm, ha, hb⟩ := hrok rdo rfl
          simp only [hrl] at hm ha hb
          refine rest _ hm ?_
          rcases hb with hb | hb
          · exact Or.inl hb
          · exact Or.inr (Or.inl ⟨ha, hb⟩)

/-! ### the question loop -/

theorem questionsWork_spec {cfg : Cfg} (hc : CfgOK cfg) (buf : Bytes) : ∀ (n : Nat) (st : St),
    st.off ≤ buf.length → 5 * questionsWork cfg buf n st + st.off ≤ buf.length + 5 := by
  intro n
  induction n with
  | zero => intro st h; unfold questionsWork; omega
  | succ n ih =>
    intro st h
    unfold questionsWork
    have hn := readName_spec hc buf st
    generalize readName cfg buf st = rn at hn
    obtain ⟨st1, res⟩ := rn
    obtain ⟨_, _, hok⟩ := hn
    cases res with
    | error e => dsimp only; omega
    | ok nm =>
      dsimp only
      obtain ⟨_, ho, _⟩ := hok nm rfl
      simp only at ho
      cases hq : readQFixed buf st1.off with
      | error e => dsimp only; omega
      | ok tc =>
        dsimp only
        have hfix : st1.off + 4 ≤ buf.length := by
          unfold readQFixed at hq
          cases h1 : two buf st1.off (st1.off + 1) Gen.Incoming.q_type with
          | error e => simp [h1, bind, Except.bind] at hq
          | ok a =>
          cases h2 : two buf (st1.off + 2) (st1.off + 3) Gen.Incoming.q_class with
          | error e => simp [h1, h2, bind, Except.bind] at hq
          | ok b =>
            unfold two at h2
            cases h8 : byteAt buf (st1.off + 2) with
            | error e => simp [h8, bind, Except.bind] at h2
            | ok x =>
            cases h9 : byteAt buf (st1.off + 3) with
            | error e => simp [h8, h9, bind, Except.bind] at h2
            | ok y =>
              have := byteAt_ok_lt h9
              omega
        have hql := q_len_eq
        have := ih { st1 with off := st1.off + Gen.Incoming.q_len } (by simp only; omega)
        simp only at this
        omega

/-! ### the whole datagram -/

/-- **every loop counter is linear in the length of the datagram** -/
def WorkOK (len : Nat) (w : Work) : Prop :=
  5 * w.questions ≤ len + 5 ∧ 11 * w.records ≤ len + 11 ∧ w.bmCalls ≤ w.records ∧
  w.bmBytes + 2 * w.bmIters ≤ len + 2 ∧ w.bmTypes ≤ 8 * w.bmBytes

theorem WorkOK.zero (len : Nat) : WorkOK len {} := by
  refine ⟨?_, ?_, ?_, ?_, ?_⟩ <;> simp

theorem othersWork_spec {cfg : Cfg} (hc : CfgOK cfg) (buf : Bytes) (h : Hdr) (st : St) (q : Nat)
    (hq : 5 * q ≤ buf.length + 5) :
    WorkOK buf.length (({ questions := q } : Work).add (othersWork cfg buf h st)) := by
  unfold othersWork
  obtain ⟨i1, i2, i3, i4⟩ := recordsWork_spec hc buf (Gen.Incoming.r_loop_count (Gen.Incoming.others_count h.nan h.nau h.nad)) st
  have hb := recordsWork_beyond hc buf (Gen.Incoming.r_loop_count (Gen.Incoming.others_count h.nan h.nau h.nad)) st
  generalize recordsWork cfg buf (Gen.Incoming.r_loop_count (Gen.Incoming.others_count h.nan h.nau h.nad)) st = w at i1 i2 i3 i4 hb
  by_cases hle : st.off ≤ buf.length
  · obtain ⟨j1, j2⟩ := i4 hle
    simp only [Work.pot] at j2
    refine ⟨by simp [i2]; omega, by simp; omega, by simpa using i1, by simp; omega, by simpa using i3⟩
  · obtain ⟨b1, b2, b3, b4, b5, b6⟩ := hb (by omega)
    refine ⟨by simp [i2]; omega, by simp; omega, by simpa using i1, by simp; omega, by simpa using i3⟩

theorem parseWorkWith_spec {cfg : Cfg} (hc : CfgOK cfg) (buf : Bytes) : WorkOK buf.length (parseWorkWith cfg buf) := by
  unfold parseWorkWith
  dsimp only
  obtain ⟨hst, _⟩ := readHeader_spec buf {}
  generalize readHeader buf {} = hr at hst
  obtain ⟨st1, hd, e⟩ := hr
  simp only at hst
  have hoff1 : st1.off = 12 := by rw [hst]; simp [hdr_len_eq]
  have zero_add : ∀ w : Work, (({ questions := 0 } : Work).add w) = w := by
    intro w; cases w; simp [Work.add]
  cases e with
  | some e =>
    dsimp only
    split
    · have := othersWork_spec hc buf hd st1 0 (by omega)
      rwa [zero_add] at this
    · exact WorkOK.zero _
  | none =>
    dsimp only
    have hq : 5 * questionsWork cfg buf (Gen.Incoming.q_loop_count hd.nq) st1 ≤ buf.length + 5 := by
      by_cases hle : st1.off ≤ buf.length
      · have := questionsWork_spec hc buf (Gen.Incoming.q_loop_count hd.nq) st1 hle
        omega
      · -- a datagram shorter than its header has no question loop: the header read failed
        cases hn : Gen.Incoming.q_loop_count hd.nq with
        | zero => unfold questionsWork; omega
        | succ n =>
          unfold questionsWork
          obtain ⟨st', e, hr⟩ := readName_beyond hc buf st1 (by omega)
          rw [hr]
          dsimp only
          omega
    generalize readQuestions cfg buf (Gen.Incoming.q_loop_count hd.nq) st1 = qr
    obtain ⟨st2, qs, e⟩ := qr
    cases e with
    | some e =>
      dsimp only
      split
      · exact othersWork_spec hc buf hd st2 _ hq
      · refine ⟨by simpa using hq, ?_, ?_, ?_, ?_⟩ <;> simp
    | none =>
      dsimp only
      exact othersWork_spec hc buf hd st2 _ hq

/-- one NSEC record (owner `a.`, next name the root) whose rdata is `k` windows of one `0xFF` byte: `26 + 3k` bytes -/
def nsecWindowsPacket (k : Nat) : Bytes :=
  [0, 0, 0x84, 0, 0, 0, 0, 1, 0, 0, 0, 0] ++ [1, 97, 0] ++ [0, 47, 0, 1, 0, 0, 0, 120] ++ be16 (1 + 3 * k) ++ [0]
    ++ (List.range k).flatMap (fun w => [w.toUInt8, 1, 255])

end Zc.Wire.DecodeLib
