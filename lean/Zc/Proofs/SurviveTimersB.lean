import Zc.Proofs.SurviveTimersA
/-! The invariants the timer blocks need beyond `CInv` — the names kept in the schedulers' heaps and in the
lookups' `ServiceInfo` objects are names the encoder accepts — are preserved by every block, and under
them the two packet-building timer blocks are total (C15). -/
namespace Zc.Survive.Comp
open Zc Zc.Wire Zc.Survive

/-! ### names in a scheduler's heap -/

section heap
variable (P : String → Prop)

def HeapP (s : Sched2.S2) : Prop := ∀ o ∈ s.heap, P o.q.name

variable {P}

theorem setCancelled_names (i : Nat) (h : List Sched2.Obj) : ∀ o ∈ Sched2.setCancelled i h, ∃ o0 ∈ h, o.q.name = o0.q.name := by
  intro o ho
  unfold Sched2.setCancelled at ho
  obtain ⟨o0, h0, rfl⟩ := List.mem_map.mp ho
  refine ⟨o0, h0, ?_⟩
  split <;> rfl

theorem setLife_names (i ttl : Nat) (e : Int) (h : List Sched2.Obj) : ∀ o ∈ Sched2.setLife i ttl e h, ∃ o0 ∈ h, o.q.name = o0.q.name := by
  intro o ho
  unfold Sched2.setLife at ho
  obtain ⟨o0, h0, rfl⟩ := List.mem_map.mp ho
  refine ⟨o0, h0, ?_⟩
  split <;> rfl

theorem heapP_of_names {s s' : Sched2.S2} (h : HeapP P s) (hn : ∀ o ∈ s'.heap, ∃ o0 ∈ s.heap, o.q.name = o0.q.name) : HeapP P s' := by
  intro o ho
  obtain ⟨o0, h0, he⟩ := hn o ho
  rw [he]; exact h o0 h0

theorem rearm_heap (s : Sched2.S2) (w : Int) : (Sched2.rearmIfEarlier2 s w).heap = s.heap := by
  unfold Sched2.rearmIfEarlier2 Sched2.armReady2
  split
  · rfl
  · split <;> rfl

theorem schedule2_heapP {s : Sched2.S2} (h : HeapP P s) {q : Sched.Q} (hq : P q.name) : HeapP P (Sched2.schedule2 s q) := by
  intro o ho
  unfold Sched2.schedule2 at ho
  rw [rearm_heap] at ho
  rcases Sched2.mem_insert2.mp ho with rfl | ho
  · exact hq
  · exact h o ho

theorem cancel2_heapP {s : Sched2.S2} (h : HeapP P s) (a : String) : HeapP P (Sched2.cancel2 s a) := by
  unfold Sched2.cancel2
  split
  · exact h
  · exact heapP_of_names h (setCancelled_names _ _)

theorem reschedule2_heapP (c : Sched.Cfg) {s s' : Sched2.S2} (h : HeapP P s) {al n : String} (hn : P n) {ttl : Nat} {cr : Int}
    (hr : Sched2.reschedule2 c s al n ttl cr = .ok s') : HeapP P s' := by
  unfold Sched2.reschedule2 at hr
  split at hr
  · split at hr
    · cases hr
    · split at hr
      · simp only [Except.ok.injEq] at hr; subst hr
        exact heapP_of_names h (setLife_names _ _ _ _)
      · simp only [Except.ok.injEq] at hr; subst hr
        exact schedule2_heapP (heapP_of_names h (setCancelled_names _ _)) hn
  · simp only [Except.ok.injEq] at hr; subst hr
    exact schedule2_heapP h hn

end heap

/-- "if it returned, the invariant holds" for a monadic fold -/
theorem foldlM_inv {α β ε : Type} {P : α → Prop} {f : α → β → Except ε α}
    (hf : ∀ s x s', P s → f s x = .ok s' → P s') : ∀ (l : List β) (s s' : α), P s → l.foldlM f s = .ok s' → P s' := by
  intro l
  induction l with
  | nil => intro s s' h hr; simp [List.foldlM, pure, Except.pure] at hr; subst hr; exact h
  | cons x t ih =>
    intro s s' h hr
    simp only [List.foldlM, bind, Except.bind] at hr
    cases h1 : f s x with
    | error e => rw [h1] at hr; cases hr
    | ok s1 => rw [h1] at hr; exact ih s1 s' (hf s x s1 h h1) hr

theorem mapM_mem {α β ε : Type} {f : α → Except ε β} : ∀ (l : List α) (l' : List β), l.mapM f = .ok l' →
    ∀ b ∈ l', ∃ a ∈ l, f a = .ok b := by
  intro l
  induction l with
  | nil => intro l' h b hb; simp [List.mapM_nil, pure, Except.pure] at h; subst h; simp at hb
  | cons a t ih =>
    intro l' h b hb
    simp only [List.mapM_cons, bind, Except.bind] at h
    cases h1 : f a with
    | error e => rw [h1] at h; cases h
    | ok b1 =>
      rw [h1] at h
      cases h2 : t.mapM f with
      | error e => rw [h2] at h; cases h
      | ok t' =>
        rw [h2] at h
        simp only [pure, Except.pure, Except.ok.injEq] at h
        subst h
        simp only [List.mem_cons] at hb
        rcases hb with rfl | hb
        · exact ⟨a, List.mem_cons_self, h1⟩
        · obtain ⟨a', ha', hf'⟩ := ih t' h2 b hb
          exact ⟨a', List.mem_cons_of_mem _ ha', hf'⟩

section sched
variable (lower : String → String) (possible : String → List String) (P : String → Prop)

theorem schedOne_heapP (cfg : Sched.Cfg) (now : Ms) {s s' : Sched2.S2} (u : Rec × Option Rec) (h : HeapP P s) (hu : P u.1.name)
    (hr : schedOne lower possible cfg now s u = .ok s') : HeapP P s' := by
  unfold schedOne at hr
  split at hr
  · split at hr
    · refine foldlM_inv (P := HeapP P) ?_ _ s s' h hr
      intro s0 _ s1 h0 h1
      split at h1
      · exact reschedule2_heapP cfg h0 hu h1
      · split at h1
        · simp only [Except.ok.injEq] at h1; subst h1; exact cancel2_heapP h0 _
        · exact reschedule2_heapP cfg h0 hu h1
    · simp only [Except.ok.injEq] at hr; subst hr; exact h
  · simp only [Except.ok.injEq] at hr; subst hr; exact h

/-- after the bookkeeping of one datagram every scheduler keeps its configuration and only holds names of the datagram
or names it held before -/
theorem schedsStep_heapP (now : Ms) (pairs : List (Rec × Option Rec)) (hp : ∀ u ∈ pairs, P u.1.name)
    {ss ss' : List (Sched.Cfg × Sched2.S2)} (h : ∀ cs ∈ ss, HeapP P cs.2)
    (hr : schedsStep lower possible now pairs ss = .ok ss') :
    ∀ cs' ∈ ss', HeapP P cs'.2 ∧ ∃ cs ∈ ss, cs'.1 = cs.1 := by
  intro cs' hcs'
  unfold schedsStep at hr
  obtain ⟨cs, hcs, hf⟩ := mapM_mem _ _ hr cs' hcs'
  cases hfold : List.foldlM (schedOne lower possible cs.1 now) cs.2 pairs with
  | error e => rw [hfold] at hf; simp [Except.map] at hf
  | ok s1 =>
    rw [hfold] at hf
    simp only [Except.map, Except.ok.injEq] at hf
    subst hf
    refine ⟨?_, cs, hcs, rfl⟩
    have : ∀ (l : List (Rec × Option Rec)) (s s' : Sched2.S2), (∀ u ∈ l, P u.1.name) → HeapP P s →
        l.foldlM (schedOne lower possible cs.1 now) s = .ok s' → HeapP P s' := by
      intro l
      induction l with
      | nil => intro s s' _ h0 hr0; simp [List.foldlM, pure, Except.pure] at hr0; subst hr0; exact h0
      | cons u t ih =>
        intro s s' hl h0 hr0
        simp only [List.foldlM, bind, Except.bind] at hr0
        cases h1 : schedOne lower possible cs.1 now s u with
        | error e => rw [h1] at hr0; cases hr0
        | ok s2 =>
          rw [h1] at hr0
          exact ih s2 s' (fun x hx => hl x (List.mem_cons_of_mem _ hx))
            (schedOne_heapP lower possible P cs.1 now u h0 (hl u List.mem_cons_self) h1) hr0
    exact this pairs cs.2 s1 hp (h cs hcs) hfold

/-! ### a scheduler timer fires -/

theorem popReady2_sub (endT : Int) : ∀ (l : List Sched2.Obj) (d : Sched2.Dict) (r : List Sched2.Obj × List Sched2.Obj × Sched2.Dict),
    Sched2.popReady2 endT l d = .ok r → (∀ o ∈ r.1, o ∈ l) ∧ (∀ o ∈ r.2.1, o ∈ l) := by
  intro l
  induction l with
  | nil => intro d r h; simp [Sched2.popReady2] at h; subst h; simp
  | cons o rest ih =>
    intro d r h
    unfold Sched2.popReady2 at h
    split at h
    · obtain ⟨h1, h2⟩ := ih d r h
      exact ⟨fun x hx => List.mem_cons_of_mem _ (h1 x hx), fun x hx => List.mem_cons_of_mem _ (h2 x hx)⟩
    · split at h
      · simp only [Except.ok.injEq] at h; subst h
        exact ⟨by simp, fun x hx => hx⟩
      · split at h
        · cases h
        · split at h
          · rename_i r1 hr1
            simp only [Except.ok.injEq] at h; subst h
            obtain ⟨h1, h2⟩ := ih _ r1 hr1
            refine ⟨?_, fun x hx => List.mem_cons_of_mem _ (h2 x hx)⟩
            intro x hx
            simp only [List.mem_cons] at hx
            rcases hx with rfl | hx
            · exact List.mem_cons_self
            · exact List.mem_cons_of_mem _ (h1 x hx)
          · cases h

theorem rescueOf_name {now : Int} {q q' : Sched.Q} (h : Sched.rescueOf now q = some q') : q'.name = q.name := by
  unfold Sched.rescueOf at h
  dsimp only at h
  split at h
  · cases h
  · simp only [Option.some.injEq] at h; subst h; rfl

theorem foldl_schedule2_heapP : ∀ (qs : List Sched.Q) (s : Sched2.S2), HeapP P s → (∀ q ∈ qs, P q.name) →
    HeapP P (qs.foldl Sched2.schedule2 s) := by
  intro qs
  induction qs with
  | nil => intro s h _; exact h
  | cons q t ih =>
    intro s h hq
    simp only [List.foldl_cons]
    exact ih _ (schedule2_heapP h (hq q List.mem_cons_self)) (fun x hx => hq x (List.mem_cons_of_mem _ hx))

/-- a fired timer only sends the configured types or names from the heap, and keeps the heap's names -/
theorem fire_heapP (cfg : Sched.Cfg) {s s' : Sched2.S2} (now : Int) (done : Bool) {sends : List Sched.Send}
    (h : HeapP P s) (ht : ∀ t ∈ cfg.types, P t)
    (hr : Sched2.step2 cfg s now (.fire done) = .ok (s', sends)) :
    HeapP P s' ∧ ∀ snd ∈ sends, ∀ t ∈ snd.types, P t := by
  simp only [Sched2.step2] at hr
  split at hr
  · -- startup
    split at hr
    · simp only [Except.ok.injEq] at hr
      unfold Sched2.fireStartup2 at hr
      split at hr
      · simp only [Prod.mk.injEq] at hr
        obtain ⟨rfl, rfl⟩ := hr
        exact ⟨h, by simp⟩
      · dsimp only at hr
        split at hr
        · simp only [Prod.mk.injEq] at hr
          obtain ⟨rfl, rfl⟩ := hr
          refine ⟨h, ?_⟩
          intro snd hs t htt
          simp at hs; subst hs
          exact ht t htt
        · simp only [Prod.mk.injEq] at hr
          obtain ⟨rfl, rfl⟩ := hr
          refine ⟨h, ?_⟩
          intro snd hs t htt
          simp at hs; subst hs
          exact ht t htt
    · cases hr
  · -- ready
    split at hr
    · unfold Sched2.fireReady2 at hr
      split at hr
      · simp only [Except.ok.injEq, Prod.mk.injEq] at hr
        obtain ⟨rfl, rfl⟩ := hr
        exact ⟨h, by simp⟩
      · split at hr
        · cases hr
        · rename_i r hpop
          obtain ⟨hsub1, hsub2⟩ := popReady2_sub now s.heap s.dict r hpop
          simp only [Except.ok.injEq, Prod.mk.injEq] at hr
          obtain ⟨rfl, rfl⟩ := hr
          have hbase : HeapP P ({ s with heap := r.2.1, dict := r.2.2, armed := none } : Sched2.S2) :=
            fun o ho => h o (hsub2 o ho)
          have hres : ∀ q ∈ r.1.filterMap (fun o => Sched.rescueOf now o.q), P q.name := by
            intro q hq
            obtain ⟨o, ho, hoq⟩ := List.mem_filterMap.mp hq
            rw [rescueOf_name hoq]
            exact h o (hsub1 o ho)
          refine ⟨?_, ?_⟩
          · intro o ho
            exact foldl_schedule2_heapP P _ _ hbase hres o ho
          · intro snd hs t htt
            split at hs
            · simp at hs
            · simp at hs; subst hs
              simp only [List.mem_map] at htt
              obtain ⟨o, ho, rfl⟩ := htt
              exact h o (hsub1 o ho)
    · cases hr
  · cases hr

end sched

/-! ### names in a lookup's `ServiceInfo` -/

def LookOK (i : Lookup.Info) : Prop := NameTextSafe i.name ∧ NameTextSafe i.serverOrName

theorem serverOrName_cases (i : Lookup.Info) : i.serverOrName = i.name ∨ ∃ s, i.server = some s ∧ i.serverOrName = s := by
  unfold Lookup.Info.serverOrName
  cases hs : i.server with
  | none => left; rfl
  | some s =>
    simp only
    split
    · left; rfl
    · right; exact ⟨s, rfl, rfl⟩

theorem processRecord_lookOK (glue : TextGlue) (lower : String → String) (c : Lookup.Cache) (i : Lookup.Info) (r : Rec) (now : Int)
    (hi : LookOK i) (hr : RecNamesOK r) : LookOK (Lookup.processRecord lower c i r now).1 := by
  have same : ∀ i' : Lookup.Info, i'.name = i.name → i'.server = i.server → LookOK i' := by
    intro i' h1 h2
    unfold LookOK Lookup.Info.serverOrName
    rw [h1, h2]
    exact hi
  unfold Lookup.processRecord
  split
  · exact hi
  · split
    · -- address
      split
      · split
        · exact hi
        · split <;> exact same _ rfl rfl
      · exact hi
    · -- txt
      split
      · exact hi
      · exact same _ rfl rfl
    · -- srv
      rename_i priority weight port server hrd
      have hname : NameTextSafe r.name := fromWire_safe glue hr.1
      have hsrv : NameTextSafe server := by
        have := hr.2
        rw [hrd] at this
        exact fromWire_safe glue this
      have fin : ∀ i' : Lookup.Info, i'.name = r.name → i'.server = some server → LookOK i' := by
        intro i' h1 h2
        refine ⟨by rw [h1]; exact hname, ?_⟩
        unfold Lookup.Info.serverOrName
        rw [h2]
        simp only
        split
        · rw [h1]; exact hname
        · exact hsrv
      split
      · exact hi
      · split
        · exact fin _ rfl rfl
        · exact fin _ rfl rfl
    · exact hi

theorem processAll_lookOK (glue : TextGlue) (lower : String → String) (c : Lookup.Cache) (now : Int) :
    ∀ (rs : List Rec) (i : Lookup.Info), LookOK i → (∀ r ∈ rs, RecNamesOK r) → LookOK (Lookup.processAll lower c now i rs).1 := by
  intro rs
  induction rs with
  | nil => intro i hi _; exact hi
  | cons r t ih =>
    intro i hi hr
    unfold Lookup.processAll
    exact ih _ (processRecord_lookOK glue lower c i r now hi (hr r List.mem_cons_self)) (fun x hx => hr x (List.mem_cons_of_mem _ hx))

end Zc.Survive.Comp
