import Zc.Model.Survive
import Zc.GenFacts.Outgoing
/-! Text-layer lemmas for C15: UTF-8 re-encoding lengths, `split('.')` pieces, and what
`write_name` can raise on labels that are short enough. -/
namespace Zc.Survive
open Zc Zc.Wire

/-! ### UTF-8 -/

theorem encodeCp_length (c : Nat) : (Utf8.encodeCp c).length = Utf8.encLen c := by
  unfold Utf8.encodeCp Utf8.encLen
  split
  · rfl
  · split
    · rfl
    · split <;> rfl

theorem encode_length (cps : List Nat) : (Utf8.encode cps).length = (cps.map Utf8.encLen).sum := by
  induction cps with
  | nil => rfl
  | cons c rest ih =>
    simp only [Utf8.encode, List.flatMap_cons, List.length_append, List.map_cons, List.sum_cons] at ih ⊢
    rw [encodeCp_length, ih]

/-- on ASCII bytes the decoder stays idle and emits the byte itself -/
theorem go_idle_ascii : ∀ (l : List UInt8), Utf8.isAscii l = true →
    ((Utf8.go Utf8.idle l).map Utf8.encLen).sum = l.length := by
  intro l
  induction l with
  | nil => intro _; rfl
  | cons b rest ih =>
    intro h
    simp only [Utf8.isAscii, List.all_cons, Bool.and_eq_true, decide_eq_true_eq] at h
    obtain ⟨hb, hr⟩ := h
    have hr' : Utf8.isAscii rest = true := by simpa [Utf8.isAscii] using hr
    have hs : Utf8.start b.toNat = ([b.toNat], Utf8.idle) := by
      unfold Utf8.start; rw [if_pos hb]
    have hg : Utf8.go Utf8.idle (b :: rest) = b.toNat :: Utf8.go Utf8.idle rest := by
      rw [Utf8.go]
      simp [Utf8.idle, hs]
    rw [hg]
    simp only [List.map_cons, List.sum_cons, List.length_cons]
    rw [ih hr']
    have : Utf8.encLen b.toNat = 1 := by unfold Utf8.encLen; rw [if_pos hb]
    omega

/-- an ASCII label re-encodes to itself: same number of bytes -/
theorem reencodedLen_ascii (l : List UInt8) (h : Utf8.isAscii l = true) : Utf8.reencodedLen l = l.length :=
  go_idle_ascii l h

/-! ### `split('.')` -/

def cpLen (p : List Nat) : Nat := (p.map Utf8.encLen).sum

theorem splitDot_piece_le : ∀ (cps : List Nat) (p : List Nat), p ∈ splitDot cps → cpLen p ≤ cpLen cps := by
  intro cps
  induction cps with
  | nil => intro p hp; simp [splitDot] at hp; subst hp; exact Nat.le_refl _
  | cons c rest ih =>
    intro p hp
    unfold splitDot at hp
    by_cases hc : c = 0x2E
    · rw [if_pos hc] at hp
      simp only [List.mem_cons] at hp
      rcases hp with rfl | hp
      · simp [cpLen]
      · have := ih p hp
        simp only [cpLen, List.map_cons, List.sum_cons] at this ⊢
        omega
    · rw [if_neg hc] at hp
      cases hs : splitDot rest with
      | nil =>
        rw [hs] at hp
        simp at hp; subst hp
        simp [cpLen]
      | cons q qs =>
        rw [hs] at hp
        simp only [List.mem_cons] at hp
        rcases hp with rfl | hp
        · have := ih q (by rw [hs]; exact List.mem_cons_self)
          simp only [cpLen, List.map_cons, List.sum_cons] at this ⊢
          omega
        · have := ih p (by rw [hs]; exact List.mem_cons_of_mem _ hp)
          simp only [cpLen, List.map_cons, List.sum_cons] at this ⊢
          omega

/-- every label `write_name` writes for a decoded label is at most as long as the whole re-encoded label -/
theorem encPieces_le (l : Label) (x : Label) (hx : x ∈ encPieces l) : x.length ≤ Utf8.reencodedLen l := by
  unfold encPieces at hx
  simp only [List.mem_map] at hx
  obtain ⟨p, hp, rfl⟩ := hx
  rw [encode_length]
  exact splitDot_piece_le _ p hp

/-- the labels written for a name whose labels all re-encode to ≤ 63 bytes are ≤ 63 bytes -/
theorem reencName_short (n : WName) (h : nameOK n = true) : ∀ x ∈ reencName n, x.length ≤ 63 := by
  intro x hx
  unfold reencName at hx
  split at hx
  · simp at hx; subst hx; simp
  · simp only [List.mem_flatMap] at hx
    obtain ⟨l, hl, hx⟩ := hx
    have h1 := encPieces_le l x hx
    have h2 : Utf8.reencodedLen l ≤ 63 := by
      simp only [nameOK, List.all_eq_true] at h
      simpa [labelOK] using h l hl
    omega

/-! ### `write_name` on short labels -/

theorem byteOf_err {v : Nat} {e : PyExc} (h : Encode.byteOf v = .error e) : e = .indexError := by
  unfold Encode.byteOf at h
  split at h <;> simp_all

theorem utfOf_short {l : Label} (h : l.length ≤ 63) : ∃ b, Encode.utfOf l = .ok b := by
  unfold Encode.utfOf
  rw [GenFacts.Outgoing.label_short_accepted _ h]
  simp [Encode.byteOf, show l.length < 256 by omega, bind, Except.bind, pure, Except.pure]

theorem linkOf_err {idx : Nat} {e : PyExc} (h : Encode.linkOf idx = .error e) : e = .indexError := by
  unfold Encode.linkOf at h
  cases ha : Encode.byteOf (Gen.Outgoing.link_hi idx) with
  | error e' =>
    rw [ha] at h
    simp [bind, Except.bind] at h
    subst h
    exact byteOf_err ha
  | ok a =>
    rw [ha] at h
    cases hb : Encode.byteOf (Gen.Outgoing.link_lo idx) with
    | error e' =>
      rw [hb] at h
      simp [bind, Except.bind] at h
      subst h
      exact byteOf_err hb
    | ok b =>
      rw [hb] at h
      simp [bind, Except.bind, pure, Except.pure] at h

/-- **the encoder's label limit is the only source of `NamePartTooLongException` in `write_name`**:
on labels of at most 63 bytes the only exception it can raise is the `IndexError` of a
compression pointer beyond 0x3FFF -/
theorem writeName_err : ∀ (n : WName) (size : Nat) (names : Encode.Names) (e : PyExc),
    (∀ x ∈ n, x.length ≤ 63) → Encode.writeName size names n = .error e → e = .indexError := by
  intro n
  induction n with
  | nil =>
    intro size names e _ h
    simp [Encode.writeName, Encode.byteOf, bind, Except.bind, pure, Except.pure] at h
  | cons l rest ih =>
    intro size names e hs h
    unfold Encode.writeName at h
    split at h
    · rename_i idx _
      cases hl : Encode.linkOf idx with
      | error e' =>
        rw [hl] at h
        simp [bind, Except.bind] at h
        subst h
        exact linkOf_err hl
      | ok b =>
        rw [hl] at h
        simp [bind, Except.bind, pure, Except.pure] at h
    · obtain ⟨lb, hlb⟩ := utfOf_short (hs l List.mem_cons_self)
      rw [hlb] at h
      simp only [bind, Except.bind] at h
      cases hr : Encode.writeName (size + lb.length) ((l :: rest, size) :: names) rest with
      | error e' =>
        rw [hr] at h
        simp at h
        subst h
        exact ih _ _ _ (fun x hx => hs x (List.mem_cons_of_mem _ hx)) hr
      | ok v =>
        rw [hr] at h
        simp [pure, Except.pure] at h

end Zc.Survive
