import Zc.Proofs.SurviveComp
import Zc.Proofs.SurviveNpl
/-! "The instance keeps working", over the composed downstream (C15, third clause):

* `cached_names_writeback` — under `CInv` every name of every cached record can be written back
  (the cause of D8b, as an invariant of the cache after any history);
* `comp_answer_offers` — a query for a record of a registered service makes the answer computation
  hand the routing a map that contains that record (C03's completeness, composed);
* `comp_ingest_added` — a response announcing a pointer record that is not cached, under a browsed
  type, makes that browser fire `Added` inside the block (C06's update list + C04's outcome theorem,
  composed). -/
namespace Zc.Survive.Comp
open Zc Zc.Wire Zc.Survive

section
variable (lower : String → String) (possible : String → List String) (ettl : Nat)
variable {ρ ω : Type} (R : Rest ρ ω) (Iρ : ρ → Prop)

/-! ### cached names can be written back -/

/-- the names of a record -/
def recNames (r : Rec) : List String :=
  r.name :: (match r.rdata with | .ptr a => [a] | .srv _ _ _ t => [t] | .nsec n _ => [n] | _ => [])

theorem recNames_fromWire {r : Rec} (h : RecNamesOK r) : ∀ s ∈ recNames r, NameFromWire s := by
  intro s hs
  unfold recNames at hs
  obtain ⟨h1, h2⟩ := h
  simp only [List.mem_cons] at hs
  rcases hs with rfl | hs
  · exact h1
  · cases hrd : r.rdata <;> rw [hrd] at hs h2 <;> simp at hs <;> subst hs <;> exact h2

/-- **D8b's cause cannot be in the cache.**  Under the composite invariant, every name of every record
object held by the cache (either index) is the text of a wire name on which `write_name` cannot raise
`NamePartTooLongException`, at any position of any packet under construction. -/
theorem cached_names_writeback {d : CState ρ} (hI : CInv lower ettl Iρ d) :
    ∀ kb ∈ d.cache.cache ++ d.cache.svc, ∀ r ∈ kb.2, ∀ s ∈ recNames r,
      ∃ n : WName, s = textOfName n ∧ nameLen n ≤ 253 ∧
        ∀ (size : Nat) (names : Encode.Names) (e : PyExc), writeBack size names n = .error e → e = .indexError := by
  intro kb hkb r hr s hs
  have hrec : RecNamesOK r := by
    simp only [List.mem_append] at hkb
    rcases hkb with hkb | hkb
    · exact hI.names.1 kb hkb r hr
    · exact hI.names.2 kb hkb r hr
  obtain ⟨n, hok, hlen, rfl⟩ := recNames_fromWire hrec s hs
  exact ⟨n, rfl, hlen, fun size names e he => writeName_err _ size names e (reencName_short n hok) he⟩

/-! ### a query for a registered record is offered to the routing -/

/-- **The answer computation offers every owed record.**  Under `CInv`, if one of the questions of the
(assembled) query asks for a record `r` of a registered service — `r ∈ candidates s q` — and the known
answers do not suppress it, then `async_response`'s answer computation returns an answer map that
contains `r` (up to record identity), and `Comp.answer` is the routing applied to that map. -/
theorem comp_answer_offers {d : CState ρ} (hI : CInv lower ettl Iρ d) (ks : List Pkt) (u : Bool)
    {q : Question} (hq : q ∈ questionsOf (ks.map msgOf)) {s : Svc} (hs : s ∈ d.reg.services) {r : Rec}
    (hr : r ∈ RespSpec.candidates lower ettl s q)
    (hk : RespSpec.isNsec r = true ∨ suppresses lower (knownOf (ks.map msgOf)) r = false) :
    ∃ dict reg', Zc.respond lower ettl d.reg (ks.map msgOf) = .ok (some dict, reg') ∧
      (∃ a ∈ dict.map (·.1), a.beq lower r = true) ∧
      answer lower ettl R d ks u =
        match R.route d.rest d.cache ks u dict with
        | .error e => .error e
        | .ok (rest', sel) =>
          .ok ({ d with reg := reg', rest := rest', pending := some sel },
               some ⟨setOf lower sel.ucast, setOf lower sel.mcastNow, !sel.aggregate.isEmpty, !sel.aggregateLast.isEmpty⟩) := by
  have hc := answerMap_complete lower ettl hI.reg hI.fresh (ks.map msgOf) hq hs hr hk
  rcases Zc.respond_ok lower ettl hI.reg (ks.map msgOf) with ⟨hnil, _⟩ | ⟨_, hrsp⟩
  · exfalso
    obtain ⟨a, ha, _⟩ := hc
    unfold answerMap at ha
    rw [hnil] at ha
    simp [mergeAll, keysOf] at ha
  · refine ⟨_, _, hrsp, hc, ?_⟩
    unfold answer
    rw [hrsp]
    rfl

/-! ### an announcement of an uncached instance fires `Added` -/

theorem pendingGet_mem : ∀ (p : List ((String × String) × Change)) (k : String × String) (v : Change),
    pendingGet p k = some v → (k, v) ∈ p := by
  intro p
  induction p with
  | nil => intro k v h; simp [pendingGet] at h
  | cons kv t ih =>
    intro k v h
    obtain ⟨k', v'⟩ := kv
    unfold pendingGet at h
    split at h
    · rename_i hk
      simp at h
      subst h; subst hk
      exact List.mem_cons_self
    · exact List.mem_cons_of_mem _ (ih k v h)

/-- what `async_update_records` is called with, in terms of the state before the datagram -/
theorem ingest_call1 {c : Cache} {now : Ms} {recs : List Rec} {out : IngestOut Cache}
    (h : Zc.ingest lower (Cache.ops lower) c now recs = .ok out) :
    out.call1 =
      (if (ingestPre lower (Cache.ops lower) c now recs).updates.isEmpty then none
       else some (livePairs (Cache.ops lower) (ingestPre lower (Cache.ops lower) c now recs).cache
                    (ingestPre lower (Cache.ops lower) c now recs).updates,
                  (ingestPre lower (Cache.ops lower) c now recs).cache)) := by
  unfold Zc.ingest at h
  dsimp only at h
  cases h4 : Zc.removeAll (Cache.ops lower)
      (Zc.addAll (Cache.ops lower) (Zc.addAll (Cache.ops lower) (ingestPre lower (Cache.ops lower) c now recs).cache
        (ingestPre lower (Cache.ops lower) c now recs).addrAdds).1 (ingestPre lower (Cache.ops lower) c now recs).otherAdds).1
      (Zc.keptRemoves (Cache.ops lower)
        (Zc.addAll (Cache.ops lower) (Zc.addAll (Cache.ops lower) (ingestPre lower (Cache.ops lower) c now recs).cache
          (ingestPre lower (Cache.ops lower) c now recs).addrAdds).1 (ingestPre lower (Cache.ops lower) c now recs).otherAdds).1
        (ingestPre lower (Cache.ops lower) c now recs).removes) with
  | error e => rw [h4] at h; simp [bind, Except.bind] at h
  | ok c4 =>
    rw [h4] at h
    simp only [bind, Except.bind, pure, Except.pure, Except.ok.injEq] at h
    subst h
    rfl

/-- **An announcement sent afterwards still reaches its browsers** (composed).  Under `CInv` and
`ListenersOK`: if a response carries a pointer record `w` (`type = PTR`, rdata `alias`) that is still
alive after the PTR TTL floor, is not in the cache, and whose owner name matches a type `t` browsed by a
registered browser, then the record manager returns and that browser's `Added(t, alias)` callback is
among the block's outputs.  (Proved from C05/C06's closed form of the update list — `ingestPre_flat`,
`Refines.ingestPre` — and C04's `updateRecords_AR`.) -/
theorem comp_ingest_added (hL : ListenersOK R Iρ) {d : CState ρ} (hI : CInv lower ettl Iρ d) (k : Pkt) (hk : PktOK k)
    {w : Rec} (hw : w ∈ recsOf k) {alias t : String}
    (hty : w.type = Gen.typePtr) (hrd : w.rdata = .ptr alias)
    (hlive : (floorPtr (w.setLife k.now w.ttl)).isExpired k.now = false)
    (hnew : Cache.getUnique lower d.cache (floorPtr (w.setLife k.now w.ttl)) = none)
    {b : Browser} (hb : b ∈ d.browsers) (ht : t ∈ b.types) (hposs : (possible w.name).contains t = true) :
    ∃ d' out i, ingest lower possible R d k = .ok (d', out) ∧ COut.callback i ⟨.added, t, alias⟩ ∈ out := by
  obtain ⟨s, href, hwf⟩ := hI.cache
  obtain ⟨out0, ho, _⟩ := cache_ingest_ok lower hI.cache k.now (recsOf k)
  have hcall := ingest_call1 lower ho
  have hrel := href.ingestPre k.now (recsOf k)
  obtain ⟨_, hflatU, _, _, _⟩ := ingestPre_flat (lower := lower) s k.now (recsOf k)
  generalize hr0 : floorPtr (w.setLife k.now w.ttl) = r at hlive hnew
  have hrD : r ∈ effective k.now (recsOf k) := by
    unfold effective stamp
    rw [← hr0]
    exact List.mem_map_of_mem (List.mem_map_of_mem hw)
  have hpres : Flat.pres lower s r = false := by
    rw [href.getUnique] at hnew
    unfold Flat.getUnique at hnew
    unfold Flat.pres
    rw [Bool.eq_false_iff]
    intro hany
    obtain ⟨e, he, hbe⟩ := List.any_eq_true.mp hany
    have := List.find?_eq_none.mp hnew e he
    exact this hbe
  have hupd : (r, false) ∈ (ingestPre lower (Cache.ops lower) d.cache k.now (recsOf k)).updates := by
    rw [hrel.updates, hflatU, List.mem_flatMap]
    refine ⟨r, hrD, ?_⟩
    simp [updOf, hlive, hpres]
  have hne : (ingestPre lower (Cache.ops lower) d.cache k.now (recsOf k)).updates.isEmpty = false := by
    cases hl : (ingestPre lower (Cache.ops lower) d.cache k.now (recsOf k)).updates with
    | nil => rw [hl] at hupd; simp at hupd
    | cons a t => rfl
  rw [hne] at hcall
  simp only [Bool.false_eq_true, if_false] at hcall
  have hpair : (r, none) ∈ livePairs (Cache.ops lower) (ingestPre lower (Cache.ops lower) d.cache k.now (recsOf k)).cache
      (ingestPre lower (Cache.ops lower) d.cache k.now (recsOf k)).updates := by
    unfold livePairs
    exact List.mem_map.mpr ⟨(r, false), hupd, by simp⟩
  -- the record as the browser sees it
  have hrty : r.type = Gen.typePtr := by rw [← hr0]; unfold floorPtr; split <;> exact hty
  have hrrd : r.rdata = .ptr alias := by rw [← hr0]; unfold floorPtr; split <;> exact hrd
  have hrname : r.name = w.name := by rw [← hr0]; unfold floorPtr; split <;> rfl
  generalize hc1 : (ingestPre lower (Cache.ops lower) d.cache k.now (recsOf k)).cache = c1 at hpair hcall
  generalize hpairs : livePairs (Cache.ops lower) c1 (ingestPre lower (Cache.ops lower) d.cache k.now (recsOf k)).updates = pairs at hpair hcall
  -- the callback is among what the browsers fire
  have hAR := (Browser.updateRecords_AR lower possible (b := b) rfl c1 k.now pairs (alias, t)).1
  have hadd : Browser.A (Browser.updateRecords lower possible c1 k.now b pairs) (alias, t) := by
    rw [hAR]
    right
    refine ⟨(r, none), hpair, hrty, rfl, hrrd, ?_⟩
    simp only [List.mem_filter]
    exact ⟨ht, by rw [hrname]; exact hposs⟩
  have hmem := pendingGet_mem _ _ _ hadd
  have hcb : (⟨.added, t, alias⟩ : Callback) ∈ (Browser.complete (Browser.updateRecords lower possible c1 k.now b pairs)).2 := by
    unfold Browser.complete
    exact List.mem_map.mpr ⟨((alias, t), .added), hmem, rfl⟩
  have hl2 : (Browser.complete (Browser.updateRecords lower possible c1 k.now b pairs)).2 ∈ (browsersStep lower possible c1 k.now pairs d.browsers).2 := by
    unfold browsersStep
    simp only [List.map_map]
    exact List.mem_map.mpr ⟨b, hb, rfl⟩
  obtain ⟨i, hi⟩ := List.mem_iff_getElem?.mp hl2
  have hout : ∀ (o : List ω), COut.callback i ⟨.added, t, alias⟩ ∈
      callbacksOut (browsersStep lower possible c1 k.now pairs d.browsers).2 ++ o.map COut.other := by
    intro o
    rw [List.mem_append]
    left
    unfold callbacksOut
    rw [List.mem_flatMap]
    exact ⟨(_, i), List.mem_zipIdx_iff_getElem?.mpr hi, List.mem_map_of_mem hcb⟩
  obtain ⟨r1, o, hl, _⟩ := hL d.rest k.now pairs c1 out0.cache out0.notify hI.rest
  obtain ⟨ss', hss, _⟩ := schedsStep_ok lower possible k.now pairs d.scheds hI.scheds
  unfold ingest
  rw [ho]
  dsimp only
  rw [hcall]
  dsimp only
  rw [hss]
  dsimp only
  rw [hl]
  exact ⟨_, _, i, rfl, hout o⟩

/-! ### the query builders cannot raise `NamePartTooLongException` on cache content (D8b's site) -/

/-- the text-layer identity the whole check trusts (compared per datagram by `c15enc`): handing the text
of a decoded name to `write_name` makes it write the labels `reencName` computes from the wire name -/
def TextGlue : Prop := ∀ n : WName, labelsOfText (textOfName n) = reencName n

theorem fromWire_labels (glue : TextGlue) {s : String} (h : NameFromWire s) : ∀ x ∈ labelsOfText s, x.length ≤ 63 := by
  obtain ⟨n, hok, _, rfl⟩ := h
  rw [glue n]
  exact reencName_short n hok

/-- a cached record that is not an HINFO, converted for the encoder, has only short labels -/
theorem cached_recLabels (glue : TextGlue) {r : Rec} (h : RecNamesOK r) (hk : r.rdata.kind ≠ .hinfo) : RecLabels (wireOfRec r) := by
  obtain ⟨h1, h2⟩ := h
  refine ⟨fromWire_labels glue h1, ?_⟩
  unfold wireOfRec
  cases hrd : r.rdata with
  | addr a sc => simp [RDataLabels]
  | txt t => simp [RDataLabels]
  | hinfo c o => rw [hrd] at hk; exact absurd rfl hk
  | ptr a => rw [hrd] at h2; exact fromWire_labels glue h2
  | srv p w q t => rw [hrd] at h2; exact fromWire_labels glue h2
  | nsec n ts => rw [hrd] at h2; exact fromWire_labels glue h2

/-- **D8b's site, as a theorem.**  Under the composite invariant (and the text-layer identity), a
message whose questions have short labels and whose known-answer section consists of records *taken
from the cache* (any selection of PTR / SRV / TXT / address / NSEC record objects of either index, with any
`now` for the remaining-TTL computation) never makes `DNSOutgoing.packets()` raise
`NamePartTooLongException` — whatever the rest of the history was.  This is the query the browsers'
scheduler timer (`_process_startup_queries` / `_process_ready_types` → `generate_service_query`) and the
lookups' `_generate_request_query` build; before the D8 repair it is exactly what raised. -/
theorem known_answers_no_npl (glue : TextGlue) {d : CState ρ} (hI : CInv lower ettl Iρ d)
    (flags id : Nat) (mc : Bool) (qs : List Encode.EQuestion) (hq : ∀ q ∈ qs, ∀ x ∈ q.name, x.length ≤ 63)
    (known : List (Rec × Ms))
    (hk : ∀ x ∈ known, (∃ kb ∈ d.cache.cache ++ d.cache.svc, x.1 ∈ kb.2) ∧ x.1.rdata.kind ≠ .hinfo) :
    Encode.packets ⟨flags, id, mc, qs, known.map (fun x => (wireOfRec x.1, x.2)), [], []⟩ ≠ .error .namePartTooLong := by
  apply noNpl_packets
  refine ⟨hq, ?_, by intro r hr; simp at hr, by intro r hr; simp at hr⟩
  intro x hx
  obtain ⟨y, hy, rfl⟩ := List.mem_map.mp hx
  obtain ⟨⟨kb, hkb, hmem⟩, hkind⟩ := hk y hy
  have hrec : RecNamesOK y.1 := by
    simp only [List.mem_append] at hkb
    rcases hkb with hkb | hkb
    · exact hI.names.1 kb hkb _ hmem
    · exact hI.names.2 kb hkb _ hmem
  exact cached_recLabels glue hrec hkind

end

end Zc.Survive.Comp
