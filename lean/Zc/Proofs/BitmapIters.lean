import Zc.Model.Wire.BitmapIters
import Zc.Proofs.DecodeLib
/-! `_read_bitmap` does linear work per call: at most `(len − off)/2 + 1` iterations of its `while` loop and at
most `len − off` bitmap bytes in the inner loop, for a datagram of `len` bytes entered at offset `off`, whatever
`end` the rdlength field claims (C02 review F5).  Every completed iteration moves `self.offset` forward by at
least two bytes it has just read; the scanned slices are disjoint pieces of the datagram behind `off`.
`readBitmapC` has the control flow and the translated leaves of `DecodeLib.readBitmap`; stage C of C15 compares its two
counters with the real `_read_bitmap` on every call the fuzz streams provoke. -/
namespace Zc.Wire.DecodeLib
open Zc Zc.Wire
open Zc.GenFacts.Incoming

theorem slice_len (buf : Bytes) (a b : Nat) : (slice buf a b).length ≤ b - a ∧ (slice buf a b).length ≤ buf.length - a := by
  unfold slice
  simp only [List.length_take, List.length_drop]
  omega

/-- **linear work per call** -/
theorem readBitmapC_bound (buf : Bytes) (end_ : Nat) : ∀ (fuel : Nat) (st : St),
    (readBitmapC buf end_ fuel st).1 ≤ (buf.length - st.off) / 2 + 1 ∧ (readBitmapC buf end_ fuel st).2 ≤ buf.length - st.off := by
  intro fuel
  induction fuel with
  | zero => intro st; simp [readBitmapC]
  | succ fuel ih =>
    intro st
    unfold readBitmapC
    split
    · cases hb : byteAt buf st.off with
      | error e => simp
      | ok w =>
        dsimp only
        cases hb2 : byteAt buf (st.off + 1) with
        | error e => simp
        | ok blen =>
          dsimp only
          have h1 := byteAt_ok_lt hb2
          have hadv := bitmap_advance_eq blen
          have hend := bitmap_end_eq (st.off + 2) blen
          obtain ⟨i1, i2⟩ := ih { st with off := st.off + Gen.Incoming.bitmap_advance blen }
          obtain ⟨s1, s2⟩ := slice_len buf (st.off + 2) (Gen.Incoming.bitmap_end (st.off + 2) blen)
          simp only [hadv, hend] at i1 i2 s1 s2 ⊢
          constructor
          · omega
          · omega
    · simp

end Zc.Wire.DecodeLib
