import Zc.Proofs.Classify
import Zc.Proofs.Queue
/-! `handle_assembled_query`, `async_response` and the truncated-query bookkeeping of the listener:
structural lemmas used by C12 (truncated queries, immediate replies) and C11 (routing). -/
namespace Zc.Reply
open GenFacts

theorem takeDraw_ok {lo hi : Int} {ds : List Int} {d : Int} {rest : List Int}
    (h : takeDraw lo hi ds = .ok (d, rest)) : lo ≤ d ∧ d ≤ hi ∧ ds = d :: rest := by
  cases ds with
  | nil => simp [takeDraw] at h
  | cons x xs =>
    simp only [takeDraw] at h
    split at h
    · rename_i hc
      simp only [Except.ok.injEq, Prod.mk.injEq] at h
      obtain ⟨rfl, rfl⟩ := h
      exact ⟨hc.1, hc.2, rfl⟩
    · simp at h

/-! ### `handle_assembled_query` -/

/-- what `handle_assembled_query` does, given what `async_response` returned: the immediate datagrams
are exactly `immediateOuts`, the listener is untouched, and each queue is either untouched (nothing
to add) or receives one `async_add` stamped with the first packet's arrival -/
theorem assemble_spec {h : Host} {clock : Int} {pkts : List Pkt} {addr port : Nat} {seen : SeenMap} {draws : List Int}
    {r : StepOut} {rest : List Int} (hs : h.assemble clock pkts addr port seen draws = .ok (r, rest))
    {qa : QA} (hqa : asyncResponse pkts (Gen.Reply.ucast_source port) seen = some qa) :
    ∃ first, pkts.head? = some first ∧
      r.outs = immediateOuts qa addr port first.id first.nq (Gen.Reply.ucast_source port) ∧
      r.host.lis = h.lis ∧
      ((qa.mcastAgg.isEmpty = true → r.host.outQ = h.outQ) ∧
       (qa.mcastAgg.isEmpty = false → ∃ d, drawLo ≤ d ∧ d ≤ drawHi ∧ r.host.outQ = h.outQ.add outQP clock first.now d qa.mcastAgg)) ∧
      ((qa.mcastLast.isEmpty = true → r.host.delayQ = h.delayQ) ∧
       (qa.mcastLast.isEmpty = false → ∃ d, drawLo ≤ d ∧ d ≤ drawHi ∧ r.host.delayQ = h.delayQ.add delayQP clock first.now d qa.mcastLast)) := by
  unfold Host.assemble at hs
  cases hh : pkts.head? with
  | none => rw [hh] at hs; simp at hs
  | some first =>
    rw [hh] at hs
    simp only [hqa] at hs
    refine ⟨first, rfl, ?_⟩
    cases h1 : queueAdd outQP h.outQ clock first.now qa.mcastAgg draws with
    | error e => rw [h1] at hs; simp at hs
    | ok v1 =>
      obtain ⟨oq, dr1, draws1⟩ := v1
      rw [h1] at hs
      simp only at hs
      cases h2 : queueAdd delayQP h.delayQ clock first.now qa.mcastLast draws1 with
      | error e => rw [h2] at hs; simp at hs
      | ok v2 =>
        obtain ⟨dq, dr2, draws2⟩ := v2
        rw [h2] at hs
        simp only [Except.ok.injEq, Prod.mk.injEq] at hs
        obtain ⟨rfl, _⟩ := hs
        refine ⟨rfl, rfl, ?_, ?_⟩
        · unfold queueAdd at h1
          split at h1
          · rename_i he
            simp only [Except.ok.injEq, Prod.mk.injEq] at h1
            exact ⟨fun _ => h1.1.symm, fun hne => by rw [he] at hne; cases hne⟩
          · rename_i he
            cases ht : takeDraw drawLo drawHi draws with
            | error e => rw [ht] at h1; simp at h1
            | ok v =>
              obtain ⟨d, rs⟩ := v
              rw [ht] at h1
              simp only [Except.ok.injEq, Prod.mk.injEq] at h1
              obtain ⟨hd1, hd2, _⟩ := takeDraw_ok ht
              exact ⟨fun he' => absurd he' he, fun _ => ⟨d, hd1, hd2, h1.1.symm⟩⟩
        · unfold queueAdd at h2
          split at h2
          · rename_i he
            simp only [Except.ok.injEq, Prod.mk.injEq] at h2
            exact ⟨fun _ => h2.1.symm, fun hne => by rw [he] at hne; cases hne⟩
          · rename_i he
            cases ht : takeDraw drawLo drawHi draws1 with
            | error e => rw [ht] at h2; simp at h2
            | ok v =>
              obtain ⟨d, rs⟩ := v
              rw [ht] at h2
              simp only [Except.ok.injEq, Prod.mk.injEq] at h2
              obtain ⟨hd1, hd2, _⟩ := takeDraw_ok ht
              exact ⟨fun he' => absurd he' he, fun _ => ⟨d, hd1, hd2, h2.1.symm⟩⟩

/-- nothing to say: no datagram, no state change -/
theorem assemble_none {h : Host} {clock : Int} {pkts : List Pkt} {addr port : Nat} {seen : SeenMap} {draws : List Int}
    {r : StepOut} {rest : List Int} (hs : h.assemble clock pkts addr port seen draws = .ok (r, rest))
    (hqa : asyncResponse pkts (Gen.Reply.ucast_source port) seen = none) : r.outs = [] ∧ r.host = h := by
  unfold Host.assemble at hs
  cases hh : pkts.head? with
  | none => rw [hh] at hs; simp at hs
  | some first =>
    rw [hh] at hs
    simp only [hqa, Except.ok.injEq, Prod.mk.injEq] at hs
    obtain ⟨rfl, _⟩ := hs
    exact ⟨rfl, rfl⟩

/-! ### truncated queries: the listener's bookkeeping -/

theorem Listener.defer_timer (l : Listener) (t : Int) (addr port : Nat) (p : Pkt) (d : Int) :
    (l.defer t addr port p d).timers.filter (fun tm => tm.addr == addr) = [{ addr := addr, due := t + d, port := port }] := by
  simp [Listener.defer, Listener.cancelTimer, Listener.setDeferred, List.filter_append, List.filter_filter]

theorem Listener.defer_other (l : Listener) (t : Int) (addr port : Nat) (p : Pkt) (d : Int) (a : Nat) (ha : a ≠ addr) :
    (l.defer t addr port p d).timers.filter (fun tm => tm.addr == a) = l.timers.filter (fun tm => tm.addr == a) := by
  have hne : (addr == a) = false := by simpa using Ne.symm ha
  simp only [Listener.defer, Listener.cancelTimer, Listener.setDeferred]
  split <;>
  · simp only [List.filter_append, List.filter_filter, List.filter_cons, List.filter_nil, hne]
    simp only [Bool.false_eq_true, if_false, List.append_nil]
    apply List.filter_congr
    intro x _
    by_cases hx : (x.addr == a) = true
    · have : x.addr ≠ addr := by rw [beq_iff_eq.mp hx]; exact ha
      simp [hx, this]
    · simp [hx]

theorem Listener.popDeferred_deferredOf (l : Listener) (addr : Nat) : (l.popDeferred addr).deferredOf addr = [] := by
  unfold Listener.popDeferred Listener.deferredOf
  have : (l.deferred.filter (fun e => !(e.1 == addr))).find? (fun e => e.1 == addr) = none := by
    rw [List.find?_eq_none]
    intro x hx
    simp only [List.mem_filter, Bool.not_eq_true', beq_eq_false_iff_ne] at hx
    simpa using hx.2
  simp only [this]

theorem Listener.cancelTimer_none (l : Listener) (addr : Nat) :
    (l.cancelTimer addr).timers.filter (fun tm => tm.addr == addr) = [] := by
  simp [Listener.cancelTimer, List.filter_filter]

/-- `_respond_query`: the address's timer is cancelled, *all* its deferred packets (plus the packet at
hand, if any) are taken out and answered together by one `handle_assembled_query` -/
theorem respond_spec {h : Host} {clock : Int} {msg : Option Pkt} {addr port : Nat} {seen : SeenMap} {draws : List Int}
    {r : StepOut} {rest : List Int} (hs : h.respond clock msg addr port seen draws = .ok (r, rest)) :
    ({ h with lis := (h.lis.cancelTimer addr).popDeferred addr } : Host).assemble clock
        (h.lis.deferredOf addr ++ msg.toList) addr port seen draws = .ok (r, rest) := by
  unfold Host.respond at hs
  cases msg <;> simpa [Listener.cancelTimer, Listener.deferredOf, Listener.popDeferred] using hs

/-! ### `async_response`: where answers come from -/

theorem route_subset (us probe : Bool) (seen : SeenMap) (now : Int) (nq q0 : Nat) (qr : QR) (qu : Bool) (answers : Dict) (r : RecId) :
    let qr' := qr.route us probe seen now nq q0 qu answers
    (r ∈ qr'.ucast → r ∈ qr.ucast ∨ r ∈ answers.keys) ∧ (r ∈ qr'.mcastNow → r ∈ qr.mcastNow ∨ r ∈ answers.keys) ∧
    (r ∈ qr'.mcastAgg → r ∈ qr.mcastAgg ∨ r ∈ answers.keys) ∧ (r ∈ qr'.mcastLast → r ∈ qr.mcastLast ∨ r ∈ answers.keys) := by
  intro qr'
  simp only [qr', QR.route]
  split
  · obtain ⟨h1, h2, h3, h4⟩ := addQu_sets probe seen now answers qr r
    refine ⟨fun h => (h1.mp h).imp id (·.1), fun h => (h2.mp h).imp id (·.1), fun h => Or.inl (h3 ▸ h), fun h => Or.inl (h4 ▸ h)⟩
  · cases us
    · obtain ⟨h1, h2, h3, h4⟩ := addMcast_sets probe seen now nq q0 answers qr r
      simp only [Bool.false_eq_true, if_false]
      exact ⟨fun h => Or.inl (h4 ▸ h), fun h => (h1.mp h).imp id (·.1), fun h => (h3.mp h).imp id (·.1), fun h => (h2.mp h).imp id (·.1)⟩
    · obtain ⟨u1, u2, u3, u4⟩ := addUcast_sets answers qr r
      obtain ⟨h1, h2, h3, h4⟩ := addMcast_sets probe seen now nq q0 answers (qr.addUcast answers) r
      simp only [if_true]
      refine ⟨fun h => u1.mp (h4 ▸ h), fun h => ?_, fun h => ?_, fun h => ?_⟩
      · rcases h1.mp h with h | h; exact Or.inl (u2 ▸ h); exact Or.inr h.1
      · rcases h3.mp h with h | h; exact Or.inl (u3 ▸ h); exact Or.inr h.1
      · rcases h2.mp h with h | h; exact Or.inl (u4 ▸ h); exact Or.inr h.1

theorem answerSet_keys (known : List (RecId × Nat)) (it : QItem) (r : RecId) :
    r ∈ (answerSet known it).keys → ∃ c ∈ it.cands, c.id = r ∧ suppresses known c = false := by
  unfold answerSet
  have key : ∀ (l : List Cand) (d : Dict), r ∈ (l.foldl (fun d c => d.set c.id c.adds) d).keys → r ∈ d.keys ∨ ∃ c ∈ l, c.id = r := by
    intro l
    induction l with
    | nil => intro d h; exact Or.inl h
    | cons c l ih =>
      intro d h
      simp only [List.foldl_cons] at h
      rcases ih _ h with h | ⟨c', hc', e⟩
      · rcases (Dict.keys_set _ _ _ _).mp h with h | h
        · exact Or.inl h
        · exact Or.inr ⟨c, by simp, h.symm⟩
      · exact Or.inr ⟨c', by simp [hc'], e⟩
  intro h
  rcases key _ _ h with h | ⟨c, hc, e⟩
  · simp [Dict.keys] at h
  · simp only [List.mem_filter, Bool.not_eq_true'] at hc
    exact ⟨c, hc.1, e, hc.2⟩

end Zc.Reply
