import Zc.Proofs.LinkContracts
/-! The assume–guarantee argument of C07: from the contracts K1–K7 on a trace, the cache of every host that stays up
agrees with the registrations once the link has settled. -/
namespace Zc.Link

theorem dstOK_none (h : Nat) : dstOK none h = true := rfl

theorem reg_isRegEv {tr : Trace} {t : Int} {s : Svc} (h : (t, s) ∈ regs tr) : ∃ e ∈ tr, e.t = t ∧ IsRegEv s e :=
  ⟨_, mem_regs.mp h, rfl, Or.inl rfl⟩

theorem unreg_isRegEv {tr : Trace} {t : Int} {s : Svc} (h : (t, s) ∈ unregs tr) : ∃ e ∈ tr, e.t = t ∧ IsRegEv s e :=
  ⟨_, mem_unregs.mp h, rfl, Or.inr (Or.inr rfl)⟩

/-! ### withdrawn (or never registered) ⇒ not held -/

/-- **Removed direction.**  If the last call for `s` is an unregister (or `s` was never registered), then on every host
that is never closed the last PTR(`s`) processed is a goodbye (or there is none): at least one of the second and third
goodbyes arrives, after every PTR with TTL > 0 (K6: none is sent after the call; K7: ≤ 100 ms in flight, one loss). -/
theorem not_held_of_unregistered {tr : Trace} {endT : Int} (hwf : WFP tr endT)
    (h2 : K2 Cfg.paper tr endT = true) (h6 : K6 Cfg.paper tr = true) (h7 : K7 Cfg.paper tr endT = true)
    (hsettle : lastChange tr + 16000 ≤ endT) {h : Nat} (hopen : neverClosed tr h = true) {s : Svc}
    (hreg : registered Cfg.paper tr s = false) : held tr h s = false := by
  apply held_false hwf.sorted
  intro e he heh hpos
  obtain ⟨hup, sd, hsd, _, _, hitems, hle1, hle2, _, _⟩ := k7a_of h7 he
  have hpsd : pos s sd.items = true := by rw [hitems]; exact hpos
  obtain ⟨_, r, hr, hrs, hrt, hnoun⟩ := k6_of h6 hsd hpsd
  obtain ⟨rt, rs⟩ := r
  simp only at hrs hrt hnoun
  subst hrs
  rcases registered_false hwf.sorted hreg with hnone | ⟨a, ha, hae, hmax⟩
  · exfalso
    obtain ⟨x, hx, _, hxr⟩ := reg_isRegEv hr
    exact hnone x hx hxr
  · obtain ⟨tu, ev⟩ := a
    simp only at hae
    subst hae
    have hau : (tu, rs) ∈ unregs tr := mem_unregs.mpr ha
    have hrle : rt ≤ tu := by
      obtain ⟨x, hx, hxt, hxr⟩ := reg_isRegEv hr
      have := hmax x hx hxr
      simp only at this
      omega
    have hsdle : sd.t ≤ tu := by
      by_cases hlt : tu < sd.t
      · exact absurd hlt (fun hlt => hnoun (tu, rs) hau rfl hrle hlt)
      · omega
    have htu : tu ≤ lastChange tr := regEv_le_lastChange ha (Or.inr (Or.inr rfl))
    obtain ⟨g2, g3⟩ := k2l_of h2 hau (by simp only; omega)
    simp only at g2 g3
    obtain ⟨sd2, hsd2, _, h2t, h2d, h2b⟩ := mcastAt_iff.mp g2
    obtain ⟨sd3, hsd3, _, h3t, h3d, h3b⟩ := mcastAt_iff.mp g3
    have hup' : upAt tr h e.t = true := heh ▸ hup
    rcases k7b_reach (endT := endT) hsd2 (by rw [h2d]; rfl) (upBefore_of_upAt (t' := sd2.t) hup' (by omega)) hopen (by omega) with
      ⟨g, hg, hgh, hgi, hg1, _⟩ | ⟨o2, ho2, ho2t⟩
    · exact ⟨g, hg, hgh, by rw [hgi]; exact h2b, by omega⟩
    · rcases k7b_reach (endT := endT) hsd3 (by rw [h3d]; rfl) (upBefore_of_upAt (t' := sd3.t) hup' (by omega)) hopen (by omega) with
        ⟨g, hg, hgh, hgi, hg1, _⟩ | ⟨o3, ho3, ho3t⟩
      · exact ⟨g, hg, hgh, by rw [hgi]; exact h3b, by omega⟩
      · exfalso
        have := (k7b_same h7 ho2 ho3).2
        omega

/-! ### registered ⇒ held -/

/-- what the last register / update call for `s` guarantees: the second and third announcements (at `β+225`, `β+450`
where `β` is the time of the first), every goodbye for `s` processed anywhere before `β+225`, and `s` registered on a
host that stays up from `t1 + 350 ≤ β` on -/
structure Announced (tr : Trace) (s : Svc) (β t1 : Int) : Prop where
  ann2 : mcastAt tr s.owner (β + 225) (posFull s) = true
  ann3 : mcastAt tr s.owner (β + 450) (posFull s) = true
  byeEarly : ∀ g ∈ dlvs tr, bye s g.items = true → g.t < β + 225
  reg : (t1, s) ∈ regs tr
  regBase : t1 + 350 ≤ β
  noUnreg : ∀ u ∈ unregs tr, u.2 = s → u.1 ≤ t1
  ownerUp : upAt tr s.owner t1 = true
  ownerOpen : neverClosed tr s.owner = true
  baseLe : β ≤ lastChange tr + 350

theorem announced_mk {tr : Trace} {endT : Int} (hwf : WFP tr endT) (h2 : K2 Cfg.paper tr endT = true)
    (h7 : K7 Cfg.paper tr endT = true) {s : Svc} {β t1 : Int}
    (ann2 : mcastAt tr s.owner (β + 225) (posFull s) = true) (ann3 : mcastAt tr s.owner (β + 450) (posFull s) = true)
    (reg : (t1, s) ∈ regs tr) (regBase : t1 + 350 ≤ β)
    (hun : ∀ u ∈ unregs tr, u.2 = s → u.1 ≤ t1 ∧ u.1 + 350 < β + 225) (baseLe : β ≤ lastChange tr + 350) :
    Announced tr s β t1 := by
  refine ⟨ann2, ann3, ?_, reg, regBase, fun u hu hus => (hun u hu hus).1, hwf.reg_up _ reg, ?_, baseLe⟩
  · intro g hg hgb
    obtain ⟨_, sd, hsd, _, _, hitems, _, hle2, _, _⟩ := k7a_of h7 hg
    obtain ⟨u, hu, hus, _, hu2⟩ := k2s_of h2 hsd (by rw [hitems]; exact hgb)
    have := (hun u hu hus).2
    omega
  · rw [neverClosed_iff]
    intro c hc hco
    obtain ⟨_, u, hu, hus, hlt, _⟩ := hwf.reg_close _ reg c hc hco
    have := (hun u hu hus).1
    simp only at hlt
    omega

/-- the last call for a registered service is a register or an update, and its announcements are due -/
theorem announced_of_registered {tr : Trace} {endT : Int} (hwf : WFP tr endT)
    (h1 : K1 Cfg.paper tr endT = true) (h2 : K2 Cfg.paper tr endT = true) (h7 : K7 Cfg.paper tr endT = true)
    (hsettle : lastChange tr + 16000 ≤ endT) {s : Svc} (hreg : registered Cfg.paper tr s = true) :
    ∃ β t1, Announced tr s β t1 := by
  obtain ⟨a, ha, hae, hmax⟩ := registered_true hwf.sorted hreg
  obtain ⟨t0, ev⟩ := a
  have ht0 : t0 ≤ lastChange tr := by
    rcases hae with hae | hae
    · exact regEv_le_lastChange ha (Or.inl hae)
    · exact regEv_le_lastChange ha (Or.inr (Or.inl hae))
  have hunle : ∀ u ∈ unregs tr, u.2 = s → u.1 ≤ t0 := by
    intro u hu hus
    obtain ⟨ut, us⟩ := u
    simp only at hus
    subst hus
    obtain ⟨x, hx, hxt, hxr⟩ := unreg_isRegEv hu
    have := hmax x hx hxr
    simp only at this ⊢
    omega
  simp only at hmax
  rcases hae with hae | hae
  · -- register at t0: announcements at t0+350, +575, +800
    simp only at hae
    subst hae
    have hr : (t0, s) ∈ regs tr := mem_regs.mpr ha
    obtain ⟨a2, a3⟩ := k1_reg h1 hr (by omega) hmax
    refine ⟨t0 + 350, t0, announced_mk hwf h2 h7 ?_ ?_ hr (by omega) ?_ (by omega)⟩
    · have : t0 + 350 + 225 = t0 + 575 := by omega
      rw [this]; exact a2
    · have : t0 + 350 + 450 = t0 + 800 := by omega
      rw [this]; exact a3
    · intro u hu hus
      have := hunle u hu hus
      exact ⟨this, by omega⟩
  · -- update at t0: announcements at t0, +225, +450; registered since r.1 + 350 ≤ t0
    simp only at hae
    subst hae
    have hu0 : (t0, s) ∈ upds tr := mem_upds.mpr ha
    obtain ⟨a2, a3⟩ := k1_upd h1 hu0 (by omega) hmax
    obtain ⟨r, hr, hrs, hrt, hnoun⟩ := hwf.upd_reg _ hu0
    obtain ⟨rt, rs⟩ := r
    simp only at hrs hrt hnoun
    subst hrs
    refine ⟨t0, rt, announced_mk hwf h2 h7 a2 a3 hr hrt ?_ (by omega)⟩
    intro u hu hus
    have h1' := hunle u hu hus
    have h2' : u.1 < rt := by
      by_cases hlt : u.1 < rt
      · exact hlt
      · exact absurd (hnoun u hu hus (by omega) h1') id
    exact ⟨by omega, by omega⟩

/-- one query opportunity: a multicast QM question for type(`s`) that does not list `s`, sent while `s` is registered and
the browsing host `h` is up, brings PTR(`s`) to `h` — unless `h` never processes a PTR(`s`) with TTL > 0, in which case
one delivery of the exchange (question to the owner, or answer to `h`) is the missing one -/
theorem query_chain {tr : Trace} {endT : Int} (h4 : K4 Cfg.paper tr endT = true)
    {s : Svc} {β t1 : Int} (hA : Announced tr s β t1) {h : Nat} (hopen : neverClosed tr h = true)
    {X : Int} (hno : ∀ e ∈ dlvs tr, e.h = h → X < e.t → pos s e.items = false)
    {tb : Int} (hupb : upAt tr h tb = true)
    {sq : SendE} (hsq : sq ∈ sends tr) (hdst : sq.dst = none) {known : List Svc}
    (hq : Item.query s.ty known false ∈ sq.items) (hk : known.contains s = false)
    (hlo1 : t1 + 1350 ≤ sq.t) (hlo2 : tb + 1001 ≤ sq.t) (hX : X + 1001 ≤ sq.t) (hend : sq.t + 1400 ≤ endT) :
    ∃ o ∈ missing Cfg.paper tr endT, sq.t - 1000 ≤ o.t ∧ o.t ≤ sq.t + 1300 := by
  rcases k7b_reach (endT := endT) hsq (by rw [hdst]; rfl) (upBefore_of_upAt (t' := sq.t) hA.ownerUp (by omega)) hA.ownerOpen (by omega) with
    ⟨eq, heq, heqh, heqi, hq1, hq2⟩ | ⟨o, ho, hot⟩
  · obtain ⟨sr, hsr, _, hr1, hr2, hpf, hrd⟩ :=
      k4_of h4 heq (by omega) (by rw [heqi]; exact hq) hA.reg heqh.symm rfl hk (by omega) hA.noUnreg
    have hrdst : sr.dst = none := by
      rcases hrd with hrd | ⟨hf, _⟩
      · exact hrd
      · cases hf
    rcases k7b_reach (endT := endT) hsr (by rw [hrdst]; rfl) (upBefore_of_upAt (t' := sr.t) hupb (by omega)) hopen (by omega) with
      ⟨er, her, herh, heri, her1, _⟩ | ⟨o, ho, hot⟩
    · exfalso
      have := hno er her herh (by omega)
      rw [heri, posFull_pos hpf] at this
      cases this
    · exact ⟨o, ho, by omega, by omega⟩
  · exact ⟨o, ho, by omega, by omega⟩

/-- **Added direction.**  A registered service is held by every host that runs a browser of its type and is never
closed: either the host was up when the second announcement left (then it processes the second or the third), or it came
up later and its browser's third and fourth start-up opportunities each bring an answer unless a delivery is lost — and
only one is. -/
theorem pos_after_announce {tr : Trace} {endT : Int} (hwf : WFP tr endT)
    (h3 : K3 Cfg.paper tr endT = true) (h4 : K4 Cfg.paper tr endT = true) (h7 : K7 Cfg.paper tr endT = true)
    (hsettle : lastChange tr + 16000 ≤ endT) {s : Svc} {β t1 : Int} (hA : Announced tr s β t1)
    {tb : Int} {b : Br} (hb : (tb, b) ∈ browses tr) (hopen : neverClosed tr b.host = true) (hty : s.ty = b.ty) :
    ∃ e ∈ dlvs tr, e.h = b.host ∧ pos s e.items = true ∧ β + 225 ≤ e.t := by
    have hbase := hA.baseLe
    cases hup : upBefore tr b.host (β + 225) with
    | true =>
      obtain ⟨sd2, hsd2, _, h2t, h2d, h2p⟩ := mcastAt_iff.mp hA.ann2
      obtain ⟨sd3, hsd3, _, h3t, h3d, h3p⟩ := mcastAt_iff.mp hA.ann3
      rcases k7b_reach (endT := endT) hsd2 (by rw [h2d]; rfl) (by rw [h2t]; exact hup) hopen (by omega) with
        ⟨g, hg, hgh, hgi, hg1, _⟩ | ⟨o2, ho2, ho2t⟩
      · exact ⟨g, hg, hgh, by rw [hgi]; exact posFull_pos h2p, by omega⟩
      · rcases k7b_reach (endT := endT) hsd3 (by rw [h3d]; rfl) (upBefore_mono (t' := sd3.t) hup (by omega)) hopen (by omega) with
          ⟨g, hg, hgh, hgi, hg1, _⟩ | ⟨o3, ho3, ho3t⟩
        · exact ⟨g, hg, hgh, by rw [hgi]; exact posFull_pos h3p, by omega⟩
        · exfalso
          have := (k7b_same h7 ho2 ho3).2
          omega
    | false =>
      have late : ∀ t, upAt tr b.host t = true → β + 225 ≤ t := fun t ht => upAt_of_not_upBefore hup ht
      by_cases hex : ∃ e ∈ dlvs tr, e.h = b.host ∧ pos s e.items = true
      · obtain ⟨e, he, heh, hp⟩ := hex
        have := late e.t (heh ▸ (k7a_of h7 he).1)
        exact ⟨e, he, heh, hp, by omega⟩
      · exfalso
        have hno : ∀ e ∈ dlvs tr, e.h = b.host → pos s e.items = false := by
          intro e he heh
          cases hp : pos s e.items with
          | false => rfl
          | true => exact absurd ⟨e, he, heh, hp⟩ hex
        have hupb : upAt tr b.host tb = true := hwf.browse_up _ hb
        have htb1 := late tb hupb
        have htb2 : tb ≤ lastChange tr := le_lastChange (mem_browses.mp hb) rfl
        obtain ⟨o3, o4⟩ := k3_of h3 hb hopen (by omega)
        obtain ⟨q3, hq3, hq3d, hq3lo, hq3hi, kn3, hq3i, hq3k⟩ := k3opp_query h7 hno o3
        obtain ⟨q4, hq4, hq4d, hq4lo, hq4hi, kn4, hq4i, hq4k⟩ := k3opp_query h7 hno o4
        have hreg := hA.regBase
        obtain ⟨m3, hm3, hm3a, hm3b⟩ := query_chain h4 hA hopen (X := tb) (fun e he heh _ => hno e he heh) hupb hq3 hq3d
          (hty ▸ hq3i) hq3k (by omega) (by omega) (by omega) (by omega)
        obtain ⟨m4, hm4, hm4a, hm4b⟩ := query_chain h4 hA hopen (X := tb) (fun e he heh _ => hno e he heh) hupb hq4 hq4d
          (hty ▸ hq4i) hq4k (by omega) (by omega) (by omega) (by omega)
        have := (k7b_same h7 hm3 hm4).2
        omega

theorem held_of_announced {tr : Trace} {endT : Int} (hwf : WFP tr endT)
    (h3 : K3 Cfg.paper tr endT = true) (h4 : K4 Cfg.paper tr endT = true) (h7 : K7 Cfg.paper tr endT = true)
    (hsettle : lastChange tr + 16000 ≤ endT) {s : Svc} {β t1 : Int} (hA : Announced tr s β t1)
    {tb : Int} {b : Br} (hb : (tb, b) ∈ browses tr) (hopen : neverClosed tr b.host = true) (hty : s.ty = b.ty) :
    held tr b.host s = true := by
  obtain ⟨e, he, heh, hp, hlate⟩ := pos_after_announce hwf h3 h4 h7 hsettle hA hb hopen hty
  apply held_true hwf.sorted he heh hp
  intro g hg _ hgb
  have := hA.byeEarly g hg hgb
  omega

/-! ### stability: the PTR of a registered instance does not expire on a browsing host -/

theorem effTtl_paper (ttl : Nat) : ∃ e : Int, 1125 ≤ e ∧ effTtl Cfg.paper ttl = e * 1000 ∧ effTtl Cfg.paper ttl / 1000 = e := by
  refine ⟨((max ttl 1125 : Nat) : Int), ?_, rfl, ?_⟩
  · have : 1125 ≤ max ttl 1125 := Nat.le_max_right _ _
    omega
  · unfold effTtl
    exact Int.mul_ediv_cancel _ (by decide)

/-- **Freshness (KF) from the refresh contract.**  On a never-closed host with a browser of type(`s`), the last PTR(`s`)
processed while `s` is registered is younger than its TTL at the end of the window.  Otherwise that PTR `x` (positive, processed
no earlier than the second announcement) is still the last one a full TTL later; K3b then gives two questions for the type
not listing `s` — around 75 % and 85 % of `x`'s life, or, for a browser that started when `x` was already older, its third and
fourth start-up questions; each exchange (question to the owner, K4's answer back) brings a PTR(`s`) later than `x` — impossible —
or loses one delivery, and the two exchanges are more than 5 s apart: two different missing deliveries contradict K7. -/
theorem unexpired_of_refresh {tr : Trace} {endT : Int} (hwf : WFP tr endT)
    (h3 : K3 Cfg.paper tr endT = true) (h3b : K3b Cfg.paper tr endT = true) (h4 : K4 Cfg.paper tr endT = true)
    (h7 : K7 Cfg.paper tr endT = true)
    (hsettle : lastChange tr + 16000 ≤ endT) {s : Svc} {β t1 : Int} (hA : Announced tr s β t1)
    {tb : Int} {b : Br} (hb : (tb, b) ∈ browses tr) (hopen : neverClosed tr b.host = true) (hty : s.ty = b.ty) :
    unexpired Cfg.paper tr b.host s endT 0 = true := by
  unfold unexpired
  cases hl : lastSome (heldEv b.host s) tr with
  | none => rfl
  | some c =>
    obtain ⟨ttl, t0⟩ := c
    simp only [decide_eq_true_eq]
    by_cases hlt : endT < t0 + effTtl Cfg.paper ttl + 0
    · exact hlt
    exfalso
    obtain ⟨a, ha, hac, hmax⟩ := lastSome_sorted _ tr _ hwf.sorted hl
    obtain ⟨x, rfl, hxh, rfl, full, hpx⟩ := heldEv_some hac
    have hx : x ∈ dlvs tr := mem_dlvs.mpr ha
    simp only at hmax
    -- no PTR(s) is processed by the host after x
    have hnoP : ∀ y ∈ dlvs tr, y.h = b.host → x.t < y.t → ptrOf s y.items = none := by
      intro y hy hyh hlt'
      cases hp : ptrOf s y.items with
      | none => rfl
      | some v =>
        have := hmax _ (mem_dlvs.mp hy) (by rw [heldEv_dlv hyh, hp]; simp)
        simp only at this
        omega
    have hnoPos : ∀ y ∈ dlvs tr, y.h = b.host → x.t < y.t → pos s y.items = false := by
      intro y hy hyh hlt'
      unfold pos
      rw [hnoP y hy hyh hlt']
    -- x is at least as late as the announcement that reached the host
    obtain ⟨e0, he0, he0h, he0p, he0t⟩ := pos_after_announce hwf h3 h4 h7 hsettle hA hb hopen hty
    have hbase : β + 225 ≤ x.t := by
      obtain ⟨ttl0, full0, hp0, _⟩ := pos_iff.mp he0p
      have := hmax _ (mem_dlvs.mp he0) (by rw [heldEv_dlv he0h, hp0]; simp)
      simp only at this
      omega
    have httl : 0 < ttl := by
      rcases Nat.eq_zero_or_pos ttl with rfl | h
      · have := hA.byeEarly x hx (bye_iff.mpr ⟨full, hpx⟩)
        omega
      · exact h
    obtain ⟨e, he, hE, hdiv⟩ := effTtl_paper ttl
    rw [hE] at hlt
    obtain ⟨k1, k2⟩ := k3b_of h3b hb hopen hx hxh hpx httl hty
    rw [hdiv] at k1 k2
    have hupx : upAt tr b.host x.t = true := hxh ▸ (k7a_of h7 hx).1
    have hupb : upAt tr b.host tb = true := hwf.browse_up _ hb
    have htb : tb ≤ lastChange tr := le_lastChange (mem_browses.mp hb) rfl
    have hreg := hA.regBase
    by_cases hcase : tb + 120 + 14000 + 10000 ≤ x.t + 750 * e
    · -- the browser had finished its start-up phase when x reached 75 % of its life
      have w1 := refreshWindow_early hcase false
      have w2 := refreshWindow_early hcase true
      simp only [Bool.false_eq_true, if_false] at w1
      simp only [if_true] at w2
      have o1 := k3bAt_of k1 (by rw [w1]; simp only; omega) hnoP
      have o2 := k3bAt_of k2 (by rw [w2]; simp only; omega) hnoP
      rw [w1] at o1
      rw [w2] at o2
      simp only at o1 o2
      obtain ⟨q1, hq1, hq1d, hq1lo, hq1hi, kn1, hq1i, hq1k⟩ := refreshOpp_query h7 o1
      obtain ⟨q2, hq2, hq2d, hq2lo, hq2hi, kn2, hq2i, hq2k⟩ := refreshOpp_query h7 o2
      obtain ⟨m1, hm1, hm1a, hm1b⟩ := query_chain h4 hA hopen hnoPos hupx hq1 hq1d (hty ▸ hq1i) hq1k
        (by omega) (by omega) (by omega) (by omega)
      obtain ⟨m2, hm2, hm2a, hm2b⟩ := query_chain h4 hA hopen hnoPos hupx hq2 hq2d (hty ▸ hq2i) hq2k
        (by omega) (by omega) (by omega) (by omega)
      have := (k7b_same h7 hm1 hm2).2
      omega
    · -- the browser started when x was already older (or less than a start-up phase before): its third and fourth start-up questions
      have w1 := refreshWindow_late hcase false
      have w2 := refreshWindow_late hcase true
      simp only [Bool.false_eq_true, if_false] at w1
      simp only [if_true] at w2
      have o1 := k3bAt_of k1 (by rw [w1]; simp only; omega) hnoP
      have o2 := k3bAt_of k2 (by rw [w2]; simp only; omega) hnoP
      rw [w1] at o1
      rw [w2] at o2
      simp only at o1 o2
      obtain ⟨q1, hq1, hq1d, hq1lo, hq1hi, kn1, hq1i, hq1k⟩ := refreshOpp_query h7 o1
      obtain ⟨q2, hq2, hq2d, hq2lo, hq2hi, kn2, hq2i, hq2k⟩ := refreshOpp_query h7 o2
      obtain ⟨m1, hm1, hm1a, hm1b⟩ := query_chain h4 hA hopen hnoPos hupb hq1 hq1d (hty ▸ hq1i) hq1k
        (by omega) (by omega) (by omega) (by omega)
      obtain ⟨m2, hm2, hm2a, hm2b⟩ := query_chain h4 hA hopen hnoPos hupb hq2 hq2d (hty ▸ hq2i) hq2k
        (by omega) (by omega) (by omega) (by omega)
      have := (k7b_same h7 hm1 hm2).2
      omega

end Zc.Link
