import Zc.GenFacts.ReplyNet
import Zc.Proofs.HostInv
/-! Helper lemmas for the socket-level model `Model/ReplyNet.lean` (C11): closed forms of `sendWith`, `asyncSend`,
`multicast`, `unicast`, and the refinement "the physical datagrams of a block project onto the logical `Out`s of `Host.step`". -/
namespace Zc.Reply.Net
open Zc.Gen Zc.Reply

/-- the listener hands the source sockaddr on unchanged: host, port, and `()` / `(flowinfo, scope_id)` -/
theorem splitAddrs_eq (a : SockAddr) : splitAddrs a = (a.ip, a.port, a.fs) := by
  unfold splitAddrs
  split
  · rename_i h
    rw [GenFacts.l_two_tuple] at h
    unfold SockAddr.len at h
    cases hfs : a.fs with
    | none => rfl
    | some x => rw [hfs] at h; simp at h
  · rfl

/-- no address given: the group address of the socket's own family; never skipped -/
theorem sendWith_group (s : Sock) (port : Nat) (fs : FlowScope) :
    sendWith s none port fs =
      some { ip := if s.v6 then .group6 else .group4, port := if port = 0 then 5353 else port,
             fs := if s.v6 && !fs.isSome then some (s.flow, s.scope) else fs } := by
  simp only [sendWith, Option.isNone_none, GenFacts.send_addr_none, GenFacts.send_group_v6, GenFacts.send_fill_flow_scope, GenFacts.send_port, if_true]
  rfl

/-- an address given: skipped unless the socket's family is the address's -/
theorem sendWith_peer (s : Sock) (ip : Ip) (port : Nat) (fs : FlowScope) :
    sendWith s (some ip) port fs =
      if s.v6 = ip.hasColon then
        some { ip := ip, port := if port = 0 then 5353 else port, fs := if s.v6 && !fs.isSome then some (s.flow, s.scope) else fs }
      else none := by
  have hc := Zc.Reply.GenFacts.can_send_to s.v6 ip.hasColon
  simp only [sendWith, Option.isNone_some, GenFacts.send_addr_none, Bool.false_eq_true, if_false, Option.getD_some, GenFacts.send_skip,
    GenFacts.send_fill_flow_scope, GenFacts.send_port]
  by_cases h : s.v6 = ip.hasColon
  · rw [hc.mpr h]; simp [h]
  · have : Gen.Reply.can_send_to s.v6 ip.hasColon = false := by
      cases hh : Gen.Reply.can_send_to s.v6 ip.hasColon
      · rfl
      · exact absurd (hc.mp hh) h
    rw [this]; simp [h]
/-- no packet over the absolute limit: every packet goes to every chosen socket, packet by packet -/
theorem sendLoop_fits {α : Type} (size : α → Nat) (ts : List Sock) (addr : Option Ip) (port : Nat) (fs : FlowScope) :
    ∀ (pks : List α), (∀ p ∈ pks, size p ≤ 8966) → sendLoop size ts addr port fs pks = pks.flatMap (sendAll ts addr port fs)
  | [], _ => rfl
  | p :: ps, h => by
    have hp : Gen.ReplyNet.send_oversize (size p) = false := by
      cases hh : Gen.ReplyNet.send_oversize (size p)
      · rfl
      · have := (GenFacts.send_oversize _).mp hh
        have := h p (by simp)
        omega
    simp only [sendLoop, hp, Bool.false_eq_true, if_false, List.flatMap_cons]
    rw [sendLoop_fits size ts addr port fs ps (fun q hq => h q (by simp [hq]))]

theorem asyncSend_all {α : Type} (senders : List Sock) (size : α → Nat) (pks : List α) (addr : Option Ip) (port : Nat) (fs : FlowScope) :
    asyncSend senders size pks addr port fs none = sendLoop size senders addr port fs pks := by
  simp [asyncSend, GenFacts.send_one_transport]

theorem asyncSend_one {α : Type} (senders : List Sock) (size : α → Nat) (pks : List α) (addr : Option Ip) (port : Nat) (fs : FlowScope)
    (t : Sock) : asyncSend senders size pks addr port fs (some t) = sendLoop size [t] addr port fs pks := by
  simp [asyncSend, GenFacts.send_one_transport]

/-- `sendAll` without an address: one datagram per socket, in socket order -/
theorem sendAll_group {α : Type} (ts : List Sock) (port : Nat) (fs : FlowScope) (p : α) :
    sendAll ts none port fs p = ts.map (fun s =>
      { sock := s.id, dest := { ip := if s.v6 then .group6 else .group4, port := if port = 0 then 5353 else port,
                                fs := if s.v6 && !fs.isSome then some (s.flow, s.scope) else fs }, packet := p }) := by
  unfold sendAll
  induction ts with
  | nil => rfl
  | cons t ts _ => simp [sendWith_group]

/-- the destination of a multicast on socket `s`: group address of its family, port 5353, the socket's own flowinfo / scope id on IPv6 -/
def groupDest (s : Sock) : SockAddr :=
  { ip := if s.v6 then .group6 else .group4, port := 5353, fs := if s.v6 then some (s.flow, s.scope) else none }

/-- closed form of the multicast send site -/
theorem multicast_eq (w : World) (d : Dict) :
    multicast w d = w.senders.map (fun s => { sock := s.id, dest := groupDest s, packet := mcastContent d.keys (additionalsOf d) }) := by
  unfold multicast
  rw [asyncSend_all, sendLoop_fits _ _ _ _ _ _ (by intro p _; simp)]
  simp only [List.flatMap_cons, List.flatMap_nil, List.append_nil, sendAll_group, GenFacts.mdnsPort_eq]
  apply List.map_congr_left
  intro s _
  simp [groupDest]

/-- the destination of the unicast reply: the source's host and port (5353 for port 0) and its flowinfo / scope id; the receiving
socket's own when the source sockaddr carried none and the socket is IPv6 -/
def replyDest (w : World) (addr port : Nat) : SockAddr :=
  { ip := (w.peer addr).1, port := if port = 0 then 5353 else port,
    fs := if w.rx.v6 && !(w.peer addr).2.isSome then some (w.rx.flow, w.rx.scope) else (w.peer addr).2 }

/-- closed form of the unicast send site -/
theorem unicast_eq (w : World) (first : Pkt) (addr port : Nat) (us : Bool) (d : Dict) :
    unicast w first addr port us d =
      if w.rx.v6 = (w.peer addr).1.hasColon then
        [{ sock := w.rx.id, dest := replyDest w addr port,
           packet := ucastContent (w.questions first.dataId) us first.id d.keys (additionalsOf d) }]
      else [] := by
  unfold unicast
  rw [splitAddrs_eq]
  simp only [World.src]
  rw [asyncSend_one, sendLoop_fits _ _ _ _ _ _ (by intro p _; simp)]
  simp only [List.flatMap_cons, List.flatMap_nil, List.append_nil, sendAll, List.filterMap_cons, List.filterMap_nil, sendWith_peer]
  by_cases h : w.rx.v6 = (w.peer addr).1.hasColon
  · simp [h, replyDest]
  · simp [h]


/-! ### membership forms -/

theorem ucastContent_multicast (qs : List Wire.Encode.EQuestion) (us : Bool) (id : Nat) (a b : List RecId) :
    (ucastContent qs us id a b).multicast = false := Zc.Reply.GenFacts.ans_unicast_multicast_arg (id : Int) us

theorem mcastContent_multicast (a b : List RecId) : (mcastContent a b).multicast = true :=
  Zc.Reply.GenFacts.ans_multicast_multicast_arg

theorem mem_unicast {w : World} {first : Pkt} {addr port : Nat} {us : Bool} {d : Dict} {x : Sent Content}
    (h : x ∈ unicast w first addr port us d) :
    w.rx.v6 = (w.peer addr).1.hasColon ∧ x.sock = w.rx.id ∧ x.dest = replyDest w addr port ∧
    x.packet = ucastContent (w.questions first.dataId) us first.id d.keys (additionalsOf d) := by
  rw [unicast_eq] at h
  split at h
  · rename_i hf
    simp only [List.mem_singleton] at h
    rw [h]; exact ⟨hf, rfl, rfl, rfl⟩
  · cases h

theorem mem_multicast {w : World} {d : Dict} {x : Sent Content} (h : x ∈ multicast w d) :
    ∃ s ∈ w.senders, x.sock = s.id ∧ x.dest = groupDest s ∧ x.packet = mcastContent d.keys (additionalsOf d) := by
  rw [multicast_eq, List.mem_map] at h
  obtain ⟨s, hs, rfl⟩ := h
  exact ⟨s, hs, rfl, rfl, rfl⟩

/-- the two send sites of `handle_assembled_query`, once `async_response` has answered -/
theorem assemble_eq (w : World) {pkts : List Pkt} {addr port : Nat} {seen : SeenMap} {first : Pkt} {qa : QA}
    (hf : pkts.head? = some first) (hqa : asyncResponse pkts (Gen.Reply.ucast_source port) seen = some qa) :
    assemble w pkts addr port seen =
      (if qa.ucast.isEmpty then [] else unicast w first addr port (Gen.Reply.ucast_source port) qa.ucast)
      ++ (if qa.mcastNow.isEmpty then [] else multicast w qa.mcastNow) := by
  simp only [assemble, hf, hqa]

/-- nothing is written unless there is a first packet and `async_response` returns answers -/
theorem assemble_cases (w : World) (pkts : List Pkt) (addr port : Nat) (seen : SeenMap) :
    assemble w pkts addr port seen = [] ∨
    ∃ first qa, pkts.head? = some first ∧ asyncResponse pkts (Gen.Reply.ucast_source port) seen = some qa := by
  cases hf : pkts.head? with
  | none => left; simp only [assemble, hf]
  | some first =>
    cases hqa : asyncResponse pkts (Gen.Reply.ucast_source port) seen with
    | none => left; simp only [assemble, hf, hqa]
    | some qa => right; exact ⟨first, qa, rfl, rfl⟩

theorem mem_assemble {w : World} {pkts : List Pkt} {addr port : Nat} {seen : SeenMap} {x : Sent Content}
    (h : x ∈ assemble w pkts addr port seen) :
    ∃ first qa, pkts.head? = some first ∧ asyncResponse pkts (Gen.Reply.ucast_source port) seen = some qa ∧
      ((qa.ucast.isEmpty = false ∧ x ∈ unicast w first addr port (Gen.Reply.ucast_source port) qa.ucast) ∨
       (qa.mcastNow.isEmpty = false ∧ x ∈ multicast w qa.mcastNow)) := by
  rcases assemble_cases w pkts addr port seen with h0 | ⟨first, qa, hf, hqa⟩
  · rw [h0] at h; cases h
  · refine ⟨first, qa, hf, hqa, ?_⟩
    rw [assemble_eq w hf hqa, List.mem_append] at h
    rcases h with h | h
    · left
      cases he : qa.ucast.isEmpty
      · rw [he] at h; exact ⟨rfl, by simpa using h⟩
      · rw [he] at h; simp at h
    · right
      cases he : qa.mcastNow.isEmpty
      · rw [he] at h; exact ⟨rfl, by simpa using h⟩
      · rw [he] at h; simp at h

/-! ### the physical datagrams project onto the logical ones -/

theorem logical_mcast (addr port : Nat) (a b : List RecId) : logical addr port (mcastContent a b) = .mcast a b := by
  simp [logical, mcastContent, mcastReplyMulticast, Zc.Reply.GenFacts.ans_multicast_multicast_arg]

theorem logical_ucast (addr port : Nat) (qs : List Wire.Encode.EQuestion) (us : Bool) (id : Nat) (a b : List RecId) :
    logical addr port (ucastContent qs us id a b) = .ucast addr port id (if us then qs.length else 0) a b := by
  have h1 : ucastReplyMulticast id us = false := Zc.Reply.GenFacts.ans_unicast_multicast_arg _ _
  simp only [logical, ucastContent, h1, Bool.false_eq_true, if_false, GenFacts.ans_unicast_id, Zc.Reply.GenFacts.ans_echo_questions]
  cases us <;> simp

/-! ### one block of the host: physical datagrams = the logical ones, realised on the sockets -/

theorem mcastContent_eq (a b : List RecId) :
    mcastContent a b = { flags := 0x8400, multicast := true, id := 0, questions := [], answers := a, adds := b } := by
  simp only [mcastContent, GenFacts.ans_multicast_flags, GenFacts.ans_no_add_question, Bool.false_eq_true, if_false,
    mcastReplyMulticast, Zc.Reply.GenFacts.ans_multicast_multicast_arg]

theorem ucastContent_eq (qs : List Wire.Encode.EQuestion) (us : Bool) (id : Nat) (a b : List RecId) :
    ucastContent qs us id a b =
      { flags := 0x8400, multicast := false, id := id, questions := if us then qs else [], answers := a, adds := b } := by
  simp only [ucastContent, GenFacts.ans_unicast_flags, GenFacts.ans_unicast_id, ucastReplyMulticast,
    Zc.Reply.GenFacts.ans_unicast_multicast_arg, Zc.Reply.GenFacts.ans_echo_questions]
  rfl

/-- the first packet of the query the block answers, if it answers one -/
def blockFirst (h : Host) (e : Ev) : Option Pkt :=
  match h.decide e with
  | .ok (.answer _ pkts _ _) => pkts.head?
  | _ => none

/-- `len(msg._questions)` of a packet is the length of the question section the world holds for its datagram -/
def World.QsOK (w : World) (p : Pkt) : Prop := p.nq = (w.questions p.dataId).length

instance (w : World) (p : Pkt) : Decidable (w.QsOK p) := by unfold World.QsOK; infer_instance

/-- one logical datagram on the sockets -/
def realize (w : World) (first : Option Pkt) : Out → List (Sent Content)
  | .mcast a b =>
    w.senders.map (fun s => { sock := s.id, dest := groupDest s,
                              packet := { flags := 0x8400, multicast := true, id := 0, questions := [], answers := a, adds := b } })
  | .ucast addr port id nq a b =>
    if w.rx.v6 = (w.peer addr).1.hasColon then
      [{ sock := w.rx.id, dest := replyDest w addr port,
         packet := { flags := 0x8400, multicast := false, id := id,
                     questions := if nq = 0 then [] else (first.map (fun p => w.questions p.dataId)).getD [],
                     answers := a, adds := b } }]
    else []

theorem realize_mcast (w : World) (first : Option Pkt) (d : Dict) : realize w first (Out.ofMcast d) = multicast w d := by
  rw [multicast_eq, mcastContent_eq]; rfl

theorem realize_ucast (w : World) (first : Pkt) (addr port : Nat) (us : Bool) (d : Dict) (hq : w.QsOK first) :
    realize w (some first) (Out.ucast addr port first.id (if Gen.Reply.ans_echo_questions us then first.nq else 0) d.keys (additionalsOf d)) =
      unicast w first addr port us d := by
  rw [unicast_eq, ucastContent_eq, Zc.Reply.GenFacts.ans_echo_questions]
  simp only [realize, Option.map_some, Option.getD_some]
  unfold World.QsOK at hq
  cases us
  · simp
  · simp only [if_true]
    by_cases h0 : first.nq = 0
    · have : w.questions first.dataId = [] := by
        rw [h0] at hq; exact List.eq_nil_of_length_eq_zero hq.symm
      simp [h0, this]
    · simp [h0]

theorem step_physical (w : World) {h : Host} {e : Ev} {r : StepOut} {ds : List (Sent Content)}
    (hs : step w h e = .ok (r, ds)) (hq : ∀ p, blockFirst h e = some p → w.QsOK p) :
    h.step e = .ok r ∧ ds = r.outs.flatMap (realize w (blockFirst h e)) := by
  unfold step at hs
  cases hstep : h.step e with
  | error m => rw [hstep] at hs; cases hs
  | ok r' =>
    rw [hstep] at hs
    obtain ⟨a, hd, hp⟩ := step_decide hstep
    simp only [hd] at hs
    cases a with
    | idle lis =>
      simp only [Except.ok.injEq, Prod.mk.injEq] at hs
      obtain ⟨rfl, rfl⟩ := hs
      exact ⟨rfl, by rw [(perform_idle hp).2]; rfl⟩
    | defer lis d =>
      simp only [Except.ok.injEq, Prod.mk.injEq] at hs
      obtain ⟨rfl, rfl⟩ := hs
      exact ⟨rfl, by rw [(perform_defer hp).2]; rfl⟩
    | remove d recs =>
      simp only [Except.ok.injEq, Prod.mk.injEq] at hs
      obtain ⟨rfl, rfl⟩ := hs
      exact ⟨rfl, by rw [(perform_remove hp).1]; rfl⟩
    | ready d =>
      simp only [Except.ok.injEq, Prod.mk.injEq] at hs
      obtain ⟨rfl, rfl⟩ := hs
      refine ⟨rfl, ?_⟩
      obtain ⟨_, h0, h1⟩ := perform_ready hp
      cases d
      · rw [(h0 rfl).2.2]
        simp only [Bool.false_eq_true, if_false]
        cases (h.outQ.ready e.time).2 with
        | none => rfl
        | some b => simp [realize_mcast]
      · rw [(h1 rfl).2.2]
        simp only [if_true]
        cases (h.delayQ.ready e.time).2 with
        | none => rfl
        | some b => simp [realize_mcast]
    | answer lis pkts addr port =>
      simp only [Except.ok.injEq, Prod.mk.injEq] at hs
      obtain ⟨rfl, rfl⟩ := hs
      refine ⟨rfl, ?_⟩
      have hbf : blockFirst h e = pkts.head? := by simp only [blockFirst, hd]
      obtain ⟨rest, ha⟩ := perform_answer hp
      cases hf : pkts.head? with
      | none => simp [Host.assemble, hf] at ha
      | some first =>
        cases hqa : asyncResponse pkts (Gen.Reply.ucast_source port) e.seen with
        | none =>
          simp only [Host.assemble, hf, hqa, Except.ok.injEq, Prod.mk.injEq] at ha
          rw [← ha.1]
          simp only [assemble, hf, hqa, List.flatMap_nil]
        | some qa =>
          obtain ⟨first', hf', ho, _⟩ := assemble_spec ha hqa
          rw [hf] at hf'; cases hf'
          rw [ho, assemble_eq w hf hqa, hbf, hf]
          have hqf : w.QsOK first := hq first (by rw [hbf, hf])
          simp only [immediateOuts, List.flatMap_append]
          congr 1
          · cases qa.ucast.isEmpty
            · simp only [Bool.false_eq_true, if_false, List.flatMap_cons, List.flatMap_nil, List.append_nil]
              exact (realize_ucast w first addr port _ qa.ucast hqf).symm
            · rfl
          · cases qa.mcastNow.isEmpty
            · simp only [Bool.false_eq_true, if_false, List.flatMap_cons, List.flatMap_nil, List.append_nil]
              exact (realize_mcast w _ qa.mcastNow).symm
            · rfl

end Zc.Reply.Net
