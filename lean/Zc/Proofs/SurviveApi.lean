import Zc.Model.SurviveApi
import Zc.Proofs.SurviveFlush
import Zc.Proofs.SurviveUser
import Zc.Proofs.CacheExpire
import Zc.Proofs.History
/-! Every block of `Model/SurviveApi` — registration API, browser and lookup start/stop, the periodic purge, listener and future
bookkeeping — returns normally from a state satisfying the full invariant `CFInv` and re-establishes it (C15), given

* `UserOK`: the application's `RecordUpdateListener` callbacks return (purge and browser start call them), and
* `ApiSafe b`: the *argument* of the block is encodable (`SvcSafe` of a service handed to `register`/`update`, `TypesSafe` of the
  types handed to a browser, `NameTextSafe` of the name handed to a lookup) — statements about what the application passes in,
  no longer about the states the host moves through. -/
namespace Zc.Survive.Api
open Zc Zc.Wire Zc.Survive Zc.Survive.Comp Zc.Survive.Route Zc.Survive.User

section
variable (lower : String → String) (possible : String → List String) (ettl : Nat)
variable {υ ω : Type} (U : UserL υ ω) (upd : Ms → List (Rec × Option Rec) → Nat → Bool) (Iυ : υ → Prop)

/-- the full invariant over the fully interpreted residue -/
abbrev Full (d : CS υ) : Prop := CFInv lower ettl (UInv Iυ) d

/-! ### the listener fan-out -/

theorem fanout_ok (glue : TextGlue) (hU : UserOK U Iυ) {d : CS υ} (hI : Full lower ettl Iυ d) (now : Ms)
    (pairs : List (Rec × Option Rec)) (hp : ∀ u ∈ pairs, RecNamesOK u.1) (c1 c2 : Cache) (n : Bool) :
    ∃ d' o, fanout lower possible U upd d now pairs c1 c2 n = .ok (d', o) ∧ Full lower ettl Iυ d' ∧
      d'.cache = d.cache ∧ d'.reg = d.reg := by
  obtain ⟨⟨hC, hT⟩, hF⟩ := hI
  obtain ⟨ss', hss, hinv⟩ := schedsStep_ok lower possible now pairs d.scheds hC.scheds
  obtain ⟨u', o, hl, hu'⟩ := userBase_ok U upd Iυ hU d.rest.1 now pairs c1 c2 n hC.rest.1
  have hl' : User.listeners U upd d.rest.1 now pairs c1 c2 n = .ok (u', o) := hl
  have hsched := schedsStep_heapP lower possible NameTextSafe now pairs
    (fun u hu => fromWire_safe glue (hp u hu).1) hT.heap hss
  unfold fanout
  simp only [hss, hl']
  refine ⟨_, _, rfl, ⟨⟨?_, ?_⟩, ?_⟩, rfl, rfl⟩
  · refine ⟨hC.cache, hC.reg, hC.names, hC.fields, hC.fresh, hC.safe, hinv, ?_, ⟨hu', hC.rest.2⟩⟩
    intro b hb
    simp only [browsersStep, List.map_map, List.mem_map] at hb
    obtain ⟨b0, _, rfl⟩ := hb
    rfl
  · refine ⟨?_, fun cs hcs => (hsched cs hcs).1, ?_⟩
    · intro cs hcs
      obtain ⟨cs0, hcs0, heq⟩ := (hsched cs hcs).2
      show TypesSafe cs.1.types
      rw [heq]
      exact hT.types cs0 hcs0
    · intro i hi
      simp only [List.mem_map] at hi
      obtain ⟨i0, hi0, rfl⟩ := hi
      apply processAll_lookOK glue lower _ _ _ _ (hT.lookups i0 hi0)
      intro r hr
      obtain ⟨u, hu, rfl⟩ := List.mem_map.mp hr
      exact hp u hu
  · exact hF

/-! ### registration API -/

/-- **data hypothesis on a service handed to `register` / `update`**: its own records are accepted by the encoder.  (For the instance
name in strict mode this follows from the validator: `Proofs/SurviveNames`; for the server name, a type prefix, TXT and the numeric
fields nothing in the library checks it — findings F-R1..F-R3 in `notes/agents/C15.md`.) -/
def SvcSafe (s : Svc) : Prop := ∀ r ∈ RespSpec.own lower ettl s, RecSafe (wireOfRec r) 0

theorem Full.setReg {d : CS υ} (hI : Full lower ettl Iυ d) {reg' : Registry} (hi : IndexInv lower reg') (hf : AllFresh lower reg')
    (hs : RegSafe lower ettl reg') : Full lower ettl Iυ { d with reg := reg' } := by
  obtain ⟨⟨hC, hT⟩, hF⟩ := hI
  exact ⟨⟨⟨hC.cache, hi, hC.names, hC.fields, hf, hs, hC.scheds, hC.browsers, hC.rest⟩, ⟨hT.types, hT.heap, hT.lookups⟩⟩, hF⟩

theorem regSafe_append {svcs : List Svc} {reg reg' : Registry} {s : Svc} (hsv : reg'.services = svcs ++ [s.clearMemo])
    (hsub : ∀ x ∈ svcs, x ∈ reg.services) (hr : RegSafe lower ettl reg) (hs : SvcSafe lower ettl s) : RegSafe lower ettl reg' := by
  intro x hx r hr'
  rw [hsv] at hx
  rcases List.mem_append.mp hx with h | h
  · exact hr x (hsub x h) r hr'
  · have : x = s.clearMemo := by simpa using h
    subst this
    exact hs r hr'

theorem allFresh_append {svcs : List Svc} {reg reg' : Registry} {s : Svc} (hsv : reg'.services = svcs ++ [s.clearMemo])
    (hsub : ∀ x ∈ svcs, x ∈ reg.services) (hf : AllFresh lower reg) : AllFresh lower reg' := by
  intro x hx
  rw [hsv] at hx
  rcases List.mem_append.mp hx with h | h
  · exact hf x (hsub x h)
  · have : x = s.clearMemo := by simpa using h
    subst this
    exact MemoOk.clear lower s

/-- `register`: whatever the validator and `_add` decide, the block returns and the invariant holds afterwards -/
theorem register_ok {d : CS υ} (hI : Full lower ettl Iυ d) (s : Svc) (strict : Bool) (hs : SvcSafe lower ettl s) :
    ∃ d', apiStep lower possible U upd d (.register s strict) = .ok (d', []) ∧ Full lower ettl Iυ d' := by
  simp only [apiStep]
  cases hr : registerE lower d s strict with
  | error e => exact ⟨d, rfl, hI⟩
  | ok d' =>
    refine ⟨d', rfl, ?_⟩
    unfold registerE at hr
    split at hr
    · cases hr
    · rcases Registry.add_spec lower d.reg hI.1.1.reg s with ⟨_, herr⟩ | ⟨_, r, hok, hir, hsv⟩
      · rw [herr] at hr; cases hr
      · rw [hok] at hr
        simp only [Except.ok.injEq] at hr
        subst hr
        exact hI.setReg lower ettl Iυ hir
          (allFresh_append lower hsv (fun x hx => hx) hI.1.1.fresh)
          (regSafe_append lower ettl hsv (fun x hx => hx) hI.1.1.safe hs)

/-- `update` -/
theorem update_ok {d : CS υ} (hI : Full lower ettl Iυ d) (s : Svc) (hs : SvcSafe lower ettl s) :
    ∃ d', apiStep lower possible U upd d (.update s) = .ok (d', []) ∧ Full lower ettl Iυ d' := by
  simp only [apiStep]
  obtain ⟨r, hok, hir, hsv⟩ := Registry.update_spec lower d.reg hI.1.1.reg s
  rw [hok]
  refine ⟨_, rfl, ?_⟩
  exact hI.setReg lower ettl Iυ hir
    (allFresh_append lower hsv (fun x hx => (List.mem_filter.mp hx).1) hI.1.1.fresh)
    (regSafe_append lower ettl hsv (fun x hx => (List.mem_filter.mp hx).1) hI.1.1.safe hs)

theorem QShape.purge {q : Reply.Queue} (h : QShape q) (W : List Nat) : QShape (purgeQueue W q) := by
  obtain ⟨h1, h2⟩ := h
  unfold purgeQueue
  refine ⟨?_, ?_⟩
  · simp only [List.map_eq_nil_iff]; exact h1
  · exact List.Pairwise.map _ (fun a b hab => hab) h2

/-- `unregister`: `_remove` never raises under the index invariant, `async_get_infos_server` neither; the queues keep their shape -/
theorem unregister_ok {d : CS υ} (hI : Full lower ettl Iυ d) (s : Svc) :
    ∃ d', apiStep lower possible U upd d (.unregister s) = .ok (d', []) ∧ Full lower ettl Iυ d' := by
  simp only [apiStep]
  cases hr : unregisterE lower d s with
  | error e => exact ⟨d, rfl, hI⟩
  | ok d' =>
    refine ⟨d', rfl, ?_⟩
    unfold unregisterE at hr
    obtain ⟨r, hok, hir, hsv⟩ := Registry.remove_spec lower d.reg hI.1.1.reg.distinct hI.1.1.reg.types hI.1.1.reg.servers [s.key lower]
    rw [hok] at hr
    dsimp only at hr
    rw [Registry.byIndex_ok lower r (Svc.serverKey lower) r.servers hir.distinct hir.servers] at hr
    simp only [Except.ok.injEq] at hr
    subst hr
    obtain ⟨⟨hC, hT⟩, hF⟩ := hI
    have hsub : ∀ x ∈ r.services, x ∈ d.reg.services := by
      intro x hx; rw [hsv] at hx; exact (List.mem_filter.mp hx).1
    refine ⟨⟨⟨hC.cache, hir, hC.names, hC.fields, fun x hx => hC.fresh x (hsub x hx),
      fun x hx => hC.safe x (hsub x hx), hC.scheds, hC.browsers, ⟨hC.rest.1, QShape.purge hC.rest.2.1 _, QShape.purge hC.rest.2.2 _⟩⟩,
      ⟨hT.types, hT.heap, hT.lookups⟩⟩, ⟨hF.1, hF.2⟩⟩

/-- a task step that transmits a registered service's records: the state is untouched -/
theorem serviceSend_ok {d : CS υ} (hI : Full lower ettl Iυ d) (key : String) :
    ∃ o, apiStep lower possible U upd d (.serviceSend key) = .ok (d, o) ∧ Full lower ettl Iυ d := by
  simp only [apiStep]
  cases serviceSendE lower d key with
  | error e => exact ⟨[], rfl, hI⟩
  | ok pks => exact ⟨_, rfl, hI⟩

theorem broadcastRecs_sub_own (s : Svc) : ∀ r ∈ broadcastRecs s, r ∈ RespSpec.own lower ettl s := by
  intro r hr
  unfold broadcastRecs at hr
  unfold RespSpec.own
  simp only [List.mem_append, List.mem_cons, List.not_mem_nil, or_false] at hr ⊢
  rcases hr with (hr | hr | hr) | hr
  · exact Or.inl (Or.inl (Or.inr (Or.inl hr)))
  · exact Or.inl (Or.inl (Or.inr (Or.inr (Or.inl hr))))
  · exact Or.inl (Or.inl (Or.inr (Or.inr (Or.inr hr))))
  · exact Or.inl (Or.inr hr)

/-- … and under `RegSafe` a registration / goodbye transmission never fails to encode: the broadcast task cannot die of an encoder exception -/
theorem serviceSend_encodes {d : CS υ} (hI : Full lower ettl Iυ d) (key : String) : ∃ pks, serviceSendE lower d key = .ok pks := by
  unfold serviceSendE
  cases hg : sget lower key d.reg.services with
  | none => exact ⟨[], rfl⟩
  | some s =>
    dsimp only
    have hs : s ∈ d.reg.services := (sget_some_mem lower hg).1
    have hsafe : SetSafe ⟨(broadcastRecs s).map wireOfRec, []⟩ := by
      refine ⟨?_, by intro r hr; cases hr⟩
      intro r hr
      obtain ⟨x, hx, rfl⟩ := List.mem_map.mp hr
      exact hI.1.1.safe s hs x (broadcastRecs_sub_own lower ettl s x hx)
    obtain ⟨pk, hpk⟩ := packets_total _ (multicastMsg_safe _ hsafe)
    rw [hpk]
    exact ⟨[pk], rfl⟩

end

end Zc.Survive.Api
