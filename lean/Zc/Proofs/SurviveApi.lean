import Zc.Model.SurviveApi
import Zc.Proofs.SurviveFlush
import Zc.Proofs.SurviveUser
import Zc.Proofs.CacheExpire
import Zc.Proofs.History
import Zc.Proofs.Wire.Reject
/-! Every block of `Model/SurviveApi` — registration API, browser and lookup start/stop, the periodic purge, listener and future
bookkeeping — returns normally from a state satisfying the full invariant `CFInv` and re-establishes it (C15), given

* `UserOK`: the application's `RecordUpdateListener` callbacks return (purge and browser start call them), and
* `ApiSafe b`: the *argument* of the block is encodable (`SvcSafe` of a service handed to `register`/`update`, `TypesSafe` of the
  types handed to a browser, `NameTextSafe` of the name handed to a lookup) — statements about what the application passes in,
  no longer about the states the host moves through. -/
namespace Zc.Survive.Api
open Zc Zc.Wire Zc.Survive Zc.Survive.Comp Zc.Survive.Route Zc.Survive.User

section
variable (lower : String → String) (possible : String → List String) (ettl : Nat)
variable {υ ω : Type} (U : UserL υ ω) (upd : Ms → List (Rec × Option Rec) → Nat → Bool) (Iυ : υ → Prop)

/-- the full invariant over the fully interpreted residue -/
abbrev Full (d : CS υ) : Prop := CFInv lower ettl (UInv Iυ) d

/-! ### the listener fan-out -/

theorem fanout_ok (glue : TextGlue) (hU : UserOK U Iυ) {d : CS υ} (hI : Full lower ettl Iυ d) (now : Ms)
    (pairs : List (Rec × Option Rec)) (hp : ∀ u ∈ pairs, RecNamesOK u.1) (c1 c2 : Cache) (n : Bool) :
    ∃ d' o, fanout lower possible U upd d now pairs c1 c2 n = .ok (d', o) ∧ Full lower ettl Iυ d' ∧
      d'.cache = d.cache ∧ d'.reg = d.reg := by
  obtain ⟨⟨hC, hT⟩, hF⟩ := hI
  obtain ⟨ss', hss, hinv⟩ := schedsStep_ok lower possible now pairs d.scheds hC.scheds
  obtain ⟨u', o, hl, hu'⟩ := userBase_ok U upd Iυ hU d.rest.1 now pairs c1 c2 n hC.rest.1
  have hl' : User.listeners U upd d.rest.1 now pairs c1 c2 n = .ok (u', o) := hl
  have hsched := schedsStep_heapP lower possible NameTextSafe now pairs
    (fun u hu => fromWire_safe glue (hp u hu).1) hT.heap hss
  unfold fanout
  simp only [hss, hl']
  refine ⟨_, _, rfl, ⟨⟨?_, ?_⟩, ?_⟩, rfl, rfl⟩
  · refine ⟨hC.cache, hC.reg, hC.names, hC.fields, hC.fresh, hC.safe, hinv, ?_, ⟨hu', hC.rest.2⟩⟩
    intro b hb
    simp only [browsersStep, List.map_map, List.mem_map] at hb
    obtain ⟨b0, _, rfl⟩ := hb
    rfl
  · refine ⟨?_, fun cs hcs => (hsched cs hcs).1, ?_⟩
    · intro cs hcs
      obtain ⟨cs0, hcs0, heq⟩ := (hsched cs hcs).2
      show TypesSafe cs.1.types
      rw [heq]
      exact hT.types cs0 hcs0
    · intro i hi
      simp only [List.mem_map] at hi
      obtain ⟨i0, hi0, rfl⟩ := hi
      apply processAll_lookOK glue lower _ _ _ _ (hT.lookups i0 hi0)
      intro r hr
      obtain ⟨u, hu, rfl⟩ := List.mem_map.mp hr
      exact hp u hu
  · exact hF

/-! ### registration API -/

/-- **data hypothesis on a service handed to `register` / `update`**: its own records are accepted by the encoder.  (For the instance
name in strict mode this follows from the validator: `Proofs/SurviveNames`; for the server name, a type prefix, TXT and the numeric
fields nothing in the library checks it — findings F-R1..F-R3 in `notes/agents/C15.md`.) -/
def SvcSafe (s : Svc) : Prop := ∀ r ∈ RespSpec.own lower ettl s, RecSafe (wireOfRec r) 0

/-- the dry-run encode of the D28 repair accepts `s`: `generate_service_broadcast(info, None).packets()` returns -/
def DryRun (s : Svc) : Prop := encodesFirst true s = .ok ()

/-- "a service that passes the dry-run encode has encodable own records".  A service the dry run refuses never reaches the registry
(`registerE_dryRun`, `updateE_dryRun`: by the translated leaves `register_encodes_first` / `update_encodes_first`, which are `true` on the
repaired tree — `register_leaf_on`, `update_leaf_on` are `rfl` and stop building when D28 is reverted).  The implication is **not a theorem
for every service** (`dryRunSound_refuted_lower`, `dryRunSound_refuted_ettl`; on the code: a record that alone exceeds 8 966 bytes ends
`packets()` without raising and shields the records behind it); it is one for arguments in range: `dryRun_sound` below. -/
def DryRunSound (s : Svc) : Prop := DryRun s → SvcSafe lower ettl s

/-- the message the dry run encodes: `generate_service_broadcast(info, None)` — PTR, SRV, TXT and the address records as answers -/
def dryMsg (s : Svc) : Encode.Msg := multicastMsg ⟨(broadcastRecs s).map wireOfRec, []⟩

/-- **what the dry run does NOT establish** (`DryRunSound` is false as stated: `dryRunSound_refuted_*` in `Props/C15Names`, and on the
real code `notes/fixes/C15RES-FR4-dry-run-shielded.py`).  The dry run is one `packets()` call on the announcement, so it proves exactly
one thing about every record it gets to: no label is longer than 63 bytes.  It says nothing when
* `mixed` fails — a numeric field is out of range (port / weight / priority ≥ 65536, a TTL ≥ 2³², TXT or an address longer than 60 000
  bytes, a name whose wire form exceeds 1 100 bytes): for these `RecSafe` is only a *sufficient* bound of the encoder, not what it accepts;
* `fits` fails — some record of the announcement alone exceeds 8 966 bytes: `packets()` then stops ("no progress") **without raising** and
  the records behind it are never encoded (a 9 kB `server` shields a 70 kB TXT: the service registers, and the first TXT query raises
  `struct.error` out of `datagram_received`);
* `enum` fails — the case folding `lower` of the model lengthens a label of the type (the enumeration pointer is not part of the
  announcement; no such `lower` is ever used: `asciiLower` maps bytes to bytes). -/
structure ArgsInRange (s : Svc) : Prop where
  mixed : ∀ r ∈ RespSpec.own lower ettl s, RecSafe (wireOfRec r) 0 ∨ Encode.RecLong (wireOfRec r) 0
  fits : Encode.FitAll (dryMsg s)
  enum : ¬ Encode.RecLong (wireOfRec (RespSpec.enumPtr ettl (lower s.type))) 0

/-- **the dry run is sound for arguments in range**: a service whose fields are in range (`ArgsInRange`) and that passes D28's dry-run
encode has encodable own records — every label of every name (instance, type, `server`) is at most 63 bytes.  From the rejection half of
C01's dichotomy (`Encode.packets_rejects`: a message with an over-long label among otherwise acceptable entries that each fit a datagram
is refused with `NamePartTooLongException`). -/
theorem dryRun_sound {s : Svc} (h : ArgsInRange lower ettl s) : DryRunSound lower ettl s := by
  intro hdry
  have hsub : ∀ r ∈ broadcastRecs s, r ∈ RespSpec.own lower ettl s := by
    intro r hr
    simp only [broadcastRecs, List.cons_append, List.nil_append, List.mem_cons] at hr
    simp only [RespSpec.own, List.cons_append, List.nil_append, List.mem_cons, List.mem_append]
    rcases hr with h1 | h1 | h1 | h1
    · exact Or.inr (Or.inl h1)
    · exact Or.inr (Or.inr (Or.inl h1))
    · exact Or.inr (Or.inr (Or.inr (Or.inl h1)))
    · exact Or.inr (Or.inr (Or.inr (Or.inr (Or.inl h1))))
  have hmixed : Encode.MsgMixed (dryMsg s) := by
    refine ⟨by show Gen.flagsQrResponseAa < 65536; decide, by show (0 : Nat) < 65536; decide,
      by intro q hq; simp [dryMsg, multicastMsg] at hq, ?_, by intro r hr; simp [dryMsg, multicastMsg] at hr,
      by intro r hr; simp [dryMsg, multicastMsg] at hr⟩
    intro x hx
    simp only [dryMsg, multicastMsg, List.mem_map] at hx
    obtain ⟨e, ⟨r, hr, rfl⟩, rfl⟩ := hx
    exact h.mixed r (hsub r hr)
  have hnl : ∀ r ∈ broadcastRecs s, ¬ Encode.RecLong (wireOfRec r) 0 := by
    intro r hr hlong
    have hbad : Encode.HasLongEntry (dryMsg s) := by
      refine Or.inr (Or.inl ⟨(wireOfRec r, 0), ?_, hlong⟩)
      simp only [dryMsg, multicastMsg, List.drop_zero, List.mem_map]
      exact ⟨wireOfRec r, ⟨r, hr, rfl⟩, rfl⟩
    have hrej := Encode.packets_rejects (dryMsg s) hmixed h.fits hbad
    unfold DryRun encodesFirst at hdry
    simp only [if_true] at hdry
    unfold dryMsg at hrej
    rw [hrej] at hdry
    cases hdry
  intro r hr
  rcases h.mixed r hr with hs | hl
  · exact hs
  · exfalso
    simp only [RespSpec.own, List.cons_append, List.nil_append, List.mem_cons, List.mem_append] at hr
    rcases hr with h1 | h1 | h1 | h1 | h1 | h1
    · rw [h1] at hl; exact h.enum hl
    · exact hnl r (by simp [broadcastRecs, h1]) hl
    · exact hnl r (by simp [broadcastRecs, h1]) hl
    · exact hnl r (by simp [broadcastRecs, h1]) hl
    · exact hnl r (by simp [broadcastRecs, h1]) hl
    · -- the NSEC record: owner and next name are the instance name, whose labels the SRV record has shown to be short
      have hsrv : RecSafe (wireOfRec (RespSpec.srvOf s)) 0 := by
        have hm : RespSpec.srvOf s ∈ broadcastRecs s := by simp [broadcastRecs]
        rcases h.mixed _ (hsub _ hm) with h2 | h2
        · exact h2
        · exact absurd h2 (hnl _ hm)
      have hname : ∀ l ∈ labelsOfText s.name, l.length ≤ 63 := hsrv.1.1
      unfold RespSpec.nsecOf at h1
      split at h1
      · simp at h1
      · simp only [List.mem_singleton] at h1
        rw [h1] at hl
        rcases hl with ⟨l, hl1, hl2⟩ | ⟨_, _, _, _, _, l, hl1, hl2⟩
        · have := hname l hl1; omega
        · have := hname l hl1; omega

/-- a service with encodable own records whose announcement records each fit a datagram has its arguments in range -/
theorem ArgsInRange.of_safe {s : Svc} (hs : SvcSafe lower ettl s) (hf : Encode.FitAll (dryMsg s)) : ArgsInRange lower ettl s :=
  ⟨fun r hr => Or.inl (hs r hr), hf, Encode.not_long_of_safe_r (hs _ (by simp [RespSpec.own]))⟩

theorem register_leaf_on : Gen.SurviveApi.register_encodes_first = true := rfl
theorem update_leaf_on : Gen.SurviveApi.update_encodes_first = true := rfl

theorem SvcSafe.sound {s : Svc} (h : SvcSafe lower ettl s) : DryRunSound lower ettl s := fun _ => h

theorem Full.setReg {d : CS υ} (hI : Full lower ettl Iυ d) {reg' : Registry} (hi : IndexInv lower reg') (hf : AllFresh lower reg')
    (hs : RegSafe lower ettl reg') : Full lower ettl Iυ { d with reg := reg' } := by
  obtain ⟨⟨hC, hT⟩, hF⟩ := hI
  exact ⟨⟨⟨hC.cache, hi, hC.names, hC.fields, hf, hs, hC.scheds, hC.browsers, hC.rest⟩, ⟨hT.types, hT.heap, hT.lookups⟩⟩, hF⟩

theorem regSafe_append {svcs : List Svc} {reg reg' : Registry} {s : Svc} (hsv : reg'.services = svcs ++ [s.clearMemo])
    (hsub : ∀ x ∈ svcs, x ∈ reg.services) (hr : RegSafe lower ettl reg) (hs : SvcSafe lower ettl s) : RegSafe lower ettl reg' := by
  intro x hx r hr'
  rw [hsv] at hx
  rcases List.mem_append.mp hx with h | h
  · exact hr x (hsub x h) r hr'
  · have : x = s.clearMemo := by simpa using h
    subst this
    exact hs r hr'

theorem allFresh_append {svcs : List Svc} {reg reg' : Registry} {s : Svc} (hsv : reg'.services = svcs ++ [s.clearMemo])
    (hsub : ∀ x ∈ svcs, x ∈ reg.services) (hf : AllFresh lower reg) : AllFresh lower reg' := by
  intro x hx
  rw [hsv] at hx
  rcases List.mem_append.mp hx with h | h
  · exact hf x (hsub x h)
  · have : x = s.clearMemo := by simpa using h
    subst this
    exact MemoOk.clear lower s

theorem registerE_spec {d d' : CS υ} {s : Svc} {strict : Bool} (h : registerE lower d s strict = .ok d') :
    ∃ reg', d.reg.add lower s = .ok reg' ∧ d' = { d with reg := reg' } := by
  unfold registerE at h
  split at h
  · cases h
  · split at h
    · cases h
    · split at h
      · cases h
      · rename_i reg' hadd
        simp only [Except.ok.injEq] at h
        exact ⟨reg', hadd, h.symm⟩

theorem updateE_spec {d d' : CS υ} {s : Svc} (h : updateE lower d s = .ok d') :
    ∃ reg', d.reg.update lower s = .ok reg' ∧ d' = { d with reg := reg' } := by
  unfold updateE at h
  split at h
  · cases h
  · split at h
    · cases h
    · rename_i reg' hupd
      simp only [Except.ok.injEq] at h
      exact ⟨reg', hupd, h.symm⟩

/-- a registration that reached the registry passed the dry-run encode (D28; false on a tree without it: `register_leaf_on`) -/
theorem registerE_dryRun {d d' : CS υ} {s : Svc} {strict : Bool} (h : registerE lower d s strict = .ok d') : DryRun s := by
  unfold registerE at h
  split at h
  · cases h
  · split at h
    · cases h
    · rename_i hdry
      unfold DryRun
      rw [← register_leaf_on]
      exact hdry

theorem updateE_dryRun {d d' : CS υ} {s : Svc} (h : updateE lower d s = .ok d') : DryRun s := by
  unfold updateE at h
  split at h
  · cases h
  · rename_i hdry
    unfold DryRun
    rw [← update_leaf_on]
    exact hdry

/-- `register`: whatever the validator, the dry-run encode (D28) and `_add` decide, the block returns and the invariant holds
afterwards; `RegSafe` of the new registry comes from the dry run the service has passed, not from an assumption on every argument -/
theorem register_ok {d : CS υ} (hI : Full lower ettl Iυ d) (s : Svc) (strict : Bool) (hs : DryRunSound lower ettl s) :
    ∃ d', apiStep lower possible U upd d (.register s strict) = .ok (d', []) ∧ Full lower ettl Iυ d' ∧ d'.cache = d.cache := by
  simp only [apiStep]
  cases hr : registerE lower d s strict with
  | error e => exact ⟨d, rfl, hI, rfl⟩
  | ok d' =>
    refine ⟨d', rfl, ?_⟩
    obtain ⟨reg', hadd, rfl⟩ := registerE_spec lower hr
    rcases Registry.add_spec lower d.reg hI.1.1.reg s with ⟨_, herr⟩ | ⟨_, r, hok, hir, hsv⟩
    · rw [herr] at hadd; cases hadd
    · rw [hok] at hadd
      simp only [Except.ok.injEq] at hadd
      subst hadd
      exact ⟨hI.setReg lower ettl Iυ hir
        (allFresh_append lower hsv (fun x hx => hx) hI.1.1.fresh)
        (regSafe_append lower ettl hsv (fun x hx => hx) hI.1.1.safe (hs (registerE_dryRun lower hr))), rfl⟩

/-- `update` -/
theorem update_ok {d : CS υ} (hI : Full lower ettl Iυ d) (s : Svc) (hs : DryRunSound lower ettl s) :
    ∃ d', apiStep lower possible U upd d (.update s) = .ok (d', []) ∧ Full lower ettl Iυ d' ∧ d'.cache = d.cache := by
  simp only [apiStep]
  cases hr : updateE lower d s with
  | error e => exact ⟨d, rfl, hI, rfl⟩
  | ok d' =>
    refine ⟨d', rfl, ?_⟩
    obtain ⟨reg', hupd, rfl⟩ := updateE_spec lower hr
    obtain ⟨r, hok, hir, hsv⟩ := Registry.update_spec lower d.reg hI.1.1.reg s
    rw [hok] at hupd
    simp only [Except.ok.injEq] at hupd
    subst hupd
    exact ⟨hI.setReg lower ettl Iυ hir
      (allFresh_append lower hsv (fun x hx => (List.mem_filter.mp hx).1) hI.1.1.fresh)
      (regSafe_append lower ettl hsv (fun x hx => (List.mem_filter.mp hx).1) hI.1.1.safe (hs (updateE_dryRun lower hr))), rfl⟩

theorem QShape.purge {q : Reply.Queue} (h : QShape q) (W : List Nat) : QShape (purgeQueue W q) := by
  obtain ⟨h1, h2⟩ := h
  unfold purgeQueue Reply.Queue.removeRecords
  refine ⟨?_, ?_⟩
  · simp only [List.map_eq_nil_iff]; exact h1
  · exact List.Pairwise.map _ (fun a b hab => hab) h2

/-- `unregister`: `_remove` never raises under the index invariant, `async_get_infos_server` neither; the queues keep their shape -/
theorem unregister_ok {d : CS υ} (hI : Full lower ettl Iυ d) (s : Svc) :
    ∃ d', apiStep lower possible U upd d (.unregister s) = .ok (d', []) ∧ Full lower ettl Iυ d' := by
  simp only [apiStep]
  cases hr : unregisterE lower d s with
  | error e => exact ⟨d, rfl, hI⟩
  | ok d' =>
    refine ⟨d', rfl, ?_⟩
    unfold unregisterE at hr
    obtain ⟨r, hok, hir, hsv⟩ := Registry.remove_spec lower d.reg hI.1.1.reg.distinct hI.1.1.reg.types hI.1.1.reg.servers [s.key lower]
    rw [hok] at hr
    dsimp only at hr
    rw [Registry.byIndex_ok lower r (Svc.serverKey lower) r.servers hir.distinct hir.servers] at hr
    simp only [Except.ok.injEq] at hr
    subst hr
    obtain ⟨⟨hC, hT⟩, hF⟩ := hI
    have hsub : ∀ x ∈ r.services, x ∈ d.reg.services := by
      intro x hx; rw [hsv] at hx; exact (List.mem_filter.mp hx).1
    refine ⟨⟨⟨hC.cache, hir, hC.names, hC.fields, fun x hx => hC.fresh x (hsub x hx),
      fun x hx => hC.safe x (hsub x hx), hC.scheds, hC.browsers, ⟨hC.rest.1, QShape.purge hC.rest.2.1 _, QShape.purge hC.rest.2.2 _⟩⟩,
      ⟨hT.types, hT.heap, hT.lookups⟩⟩, ⟨hF.1, hF.2⟩⟩

/-- a task step that transmits a registered service's records: the state is untouched -/
theorem serviceSend_ok {d : CS υ} (hI : Full lower ettl Iυ d) (key : String) :
    ∃ o, apiStep lower possible U upd d (.serviceSend key) = .ok (d, o) ∧ Full lower ettl Iυ d := by
  simp only [apiStep]
  cases serviceSendE lower d key with
  | error e => exact ⟨[], rfl, hI⟩
  | ok pks => exact ⟨_, rfl, hI⟩

theorem broadcastRecs_sub_own (s : Svc) : ∀ r ∈ broadcastRecs s, r ∈ RespSpec.own lower ettl s := by
  intro r hr
  unfold broadcastRecs at hr
  unfold RespSpec.own
  simp only [List.mem_append, List.mem_cons, List.not_mem_nil, or_false] at hr ⊢
  rcases hr with (hr | hr | hr) | hr
  · exact Or.inl (Or.inl (Or.inr (Or.inl hr)))
  · exact Or.inl (Or.inl (Or.inr (Or.inr (Or.inl hr))))
  · exact Or.inl (Or.inl (Or.inr (Or.inr (Or.inr hr))))
  · exact Or.inl (Or.inr hr)

/-- … and under `RegSafe` a registration / goodbye transmission never fails to encode: the broadcast task cannot die of an encoder exception -/
theorem serviceSend_encodes {d : CS υ} (hI : Full lower ettl Iυ d) (key : String) : ∃ pks, serviceSendE lower d key = .ok pks := by
  unfold serviceSendE
  cases hg : sget lower key d.reg.services with
  | none => exact ⟨[], rfl⟩
  | some s =>
    dsimp only
    have hs : s ∈ d.reg.services := (sget_some_mem lower hg).1
    have hsafe : SetSafe ⟨(broadcastRecs s).map wireOfRec, []⟩ := by
      refine ⟨?_, by intro r hr; cases hr⟩
      intro r hr
      obtain ⟨x, hx, rfl⟩ := List.mem_map.mp hr
      exact hI.1.1.safe s hs x (broadcastRecs_sub_own lower ettl s x hx)
    obtain ⟨pk, hpk⟩ := packets_total _ (multicastMsg_safe _ hsafe)
    rw [hpk]
    exact ⟨[pk], rfl⟩

/-! ### `DNSCache.async_expire` on the composite's cache -/

theorem expire_eq {c c' : Cache} {now : Ms} {l : List Rec} (h : expire (Cache.ops lower) c now = .ok (c', l)) :
    l = c.allRecs.filter (fun r => r.isExpired now) ∧ Zc.removeAll (Cache.ops lower) c l = .ok c' := by
  unfold expire at h
  simp only [bind, Except.bind, pure, Except.pure] at h
  split at h
  · cases h
  · rename_i c1 hc1
    simp only [Except.ok.injEq, Prod.mk.injEq] at h
    obtain ⟨rfl, rfl⟩ := h
    exact ⟨rfl, hc1⟩

/-- the purge never raises on a cache that refines a duplicate-free store (C05), keeps that and every per-record property, and reports only cached records -/
theorem expire_ok {c : Cache} (h : ∃ s, Refines lower c s ∧ Flat.WF lower s) (now : Ms) :
    ∃ c' l, expire (Cache.ops lower) c now = .ok (c', l) ∧ (∃ s', Refines lower c' s' ∧ Flat.WF lower s') ∧
      (∀ r ∈ l, r ∈ c.allRecs) ∧ (∀ r ∈ c'.allRecs, r ∈ c.allRecs) ∧ ∀ P : Rec → Prop, CacheAll P c → CacheAll P c' := by
  obtain ⟨s, href, hwf⟩ := h
  obtain ⟨c', l, he, _, href'⟩ := href.expire hwf now
  obtain ⟨hl, hrm⟩ := expire_eq lower he
  refine ⟨c', l, he, ⟨_, href', List.Pairwise.filter _ hwf⟩, ?_, ?_, ?_⟩
  · intro r hr; rw [hl] at hr; exact (List.mem_filter.mp hr).1
  · intro r hr
    have h1 := (href'.allRecs_perm.mem_iff).mp hr
    exact (href.allRecs_perm.mem_iff).mpr (List.mem_filter.mp h1).1
  · intro P hP
    exact removeAll_all _ _ _ hP hrm

theorem Full.setCache {d : CS υ} (hI : Full lower ettl Iυ d) {c' : Cache} (h1 : ∃ s', Refines lower c' s' ∧ Flat.WF lower s')
    (h2 : ∀ P : Rec → Prop, CacheAll P d.cache → CacheAll P c') (hist : QueryGen.History) (rh : QueryGen.History) :
    Full lower ettl Iυ { d with cache := c', hist := hist, rest := (d.rest.1, { d.rest.2 with history := rh }) } := by
  obtain ⟨⟨hC, hT⟩, hF⟩ := hI
  exact ⟨⟨⟨h1, hC.reg, h2 _ hC.names, h2 _ hC.fields, hC.fresh, hC.safe, hC.scheds, hC.browsers, ⟨hC.rest.1, hC.rest.2.1, hC.rest.2.2⟩⟩,
    ⟨hT.types, hT.heap, hT.lookups⟩⟩, ⟨hF.1, hF.2⟩⟩

/-- **the periodic purge never raises into the loop** (given `UserOK`: it calls the user listeners) and keeps the invariant -/
theorem purge_ok (glue : TextGlue) (hU : UserOK U Iυ) {d : CS υ} (hI : Full lower ettl Iυ d) (now : Ms) :
    ∃ d' o, purge lower possible U upd d now = .ok (d', o) ∧ Full lower ettl Iυ d' ∧ ∀ P : Rec → Prop, CacheAll P d.cache → CacheAll P d'.cache := by
  obtain ⟨c', l, he, hc', hl, hsub, hall⟩ := expire_ok lower hI.1.1.cache (Gen.Cache.purge_expire_now now)
  unfold purge
  rw [he]
  dsimp only
  have hI' := hI.setCache lower ettl Iυ hc' hall (d.hist.cleanupTick now) (d.rest.2.history.cleanupTick now)
  have hp : ∀ u ∈ l.map (fun r => (r, some r)), RecNamesOK u.1 := by
    intro u hu
    obtain ⟨r, hr, rfl⟩ := List.mem_map.mp hu
    exact (cached_ok hI.1.1 (hl r hr)).1
  obtain ⟨d', o, hf, hI'', hcache, _⟩ := fanout_ok lower possible ettl U upd Iυ glue hU hI' (Gen.Cache.purge_updates_now now) _ hp c' c' false
  refine ⟨d', o, hf, hI'', ?_⟩
  intro P hP
  rw [hcache]
  exact hall P hP

/-! ### browsers -/

theorem start_pending (c : Cache) (now : Ms) (types : List String) : (Browser.start lower possible c now types).1.pending = [] := by
  unfold Browser.start
  dsimp only
  split <;> rfl

theorem create_ok {c : Cache} (h : ∃ s, Refines lower c s ∧ Flat.WF lower s) (now : Ms) (types : List String) :
    ∃ cr, Browser.create lower possible c now types = .ok cr ∧ (∃ s', Refines lower cr.cache s' ∧ Flat.WF lower s') ∧
      (∀ r ∈ cr.purged, r ∈ c.allRecs) ∧ (∀ r ∈ cr.cache.allRecs, r ∈ c.allRecs) ∧ (∀ P : Rec → Prop, CacheAll P c → CacheAll P cr.cache) ∧
      cr.browser.pending = [] := by
  obtain ⟨c', l, he, hc', hl, hsub, hall⟩ := expire_ok lower h (Gen.Cache.add_listener_purge_expire_now now)
  refine ⟨⟨c', l, (Browser.start lower possible c' (Gen.Cache.add_listener_replay_now now) types).1,
    (Browser.start lower possible c' (Gen.Cache.add_listener_replay_now now) types).2⟩, ?_, hc', hl, hsub, hall, start_pending lower possible _ _ _⟩
  unfold Browser.create Browser.createWith
  simp only [add_listener_purges_first_eq, if_true, he, bind, Except.bind, pure, Except.pure]

theorem replay_names {c : Cache} {P : Rec → Prop} (hc : CacheAll P c) (now : Ms) (types : List String) :
    ∀ u ∈ Browser.replayList lower c now types, P u.1 := by
  intro u hu
  unfold Browser.replayList at hu
  rw [List.mem_flatMap] at hu
  obtain ⟨t, _, hu⟩ := hu
  obtain ⟨r, hr, rfl⟩ := List.mem_map.mp hu
  exact get_all hc.1 _ r (List.mem_filter.mp hr).1

theorem foldlM_schedOne_heapP (P : String → Prop) (cfg : Sched.Cfg) (now : Ms) :
    ∀ (l : List (Rec × Option Rec)) (s s' : Sched2.S2), (∀ u ∈ l, P u.1.name) → HeapP P s →
      l.foldlM (schedOne lower possible cfg now) s = .ok s' → HeapP P s' := by
  intro l
  induction l with
  | nil => intro s s' _ h0 hr0; simp [List.foldlM, pure, Except.pure] at hr0; subst hr0; exact h0
  | cons u t ih =>
    intro s s' hl h0 hr0
    simp only [List.foldlM, bind, Except.bind] at hr0
    cases h1 : schedOne lower possible cfg now s u with
    | error e => rw [h1] at hr0; cases hr0
    | ok s2 =>
      rw [h1] at hr0
      exact ih s2 s' (fun x hx => hl x (List.mem_cons_of_mem _ hx))
        (schedOne_heapP lower possible P cfg now u h0 (hl u List.mem_cons_self) h1) hr0

/-- **starting a browser never raises into the loop** (given `UserOK`: the purge that precedes the registration tells the user
listeners) and keeps the invariant; the browsed types are the block's data hypothesis -/
theorem browserStart_ok (glue : TextGlue) (hU : UserOK U Iυ) {d : CS υ} (hI : Full lower ettl Iυ d) (cfg : Sched.Cfg) (now : Ms)
    (hty : TypesSafe cfg.types) :
    ∃ d' o, browserStart lower possible U upd d cfg now = .ok (d', o) ∧ Full lower ettl Iυ d' ∧
      ∀ P : Rec → Prop, CacheAll P d.cache → CacheAll P d'.cache := by
  obtain ⟨cr, hcr, hc', hl, hsub, hall, hpend⟩ := create_ok lower possible hI.1.1.cache now cfg.types
  have hI1 : Full lower ettl Iυ { d with cache := cr.cache } := by
    have := hI.setCache lower ettl Iυ hc' hall d.hist d.rest.2.history
    exact this
  -- the purge notification
  have htold : ∃ d1 o1, (if cr.purged.isEmpty then (.ok ({ d with cache := cr.cache }, []) : Except PyExc (CS υ × List (COut ω)))
      else fanout lower possible U upd { d with cache := cr.cache } (Gen.Cache.add_listener_purge_updates_now now)
             (cr.purged.map (fun r => (r, some r))) cr.cache cr.cache false) = .ok (d1, o1) ∧ Full lower ettl Iυ d1 ∧ d1.cache = cr.cache := by
    split
    · exact ⟨_, _, rfl, hI1, rfl⟩
    · have hp : ∀ u ∈ cr.purged.map (fun r => (r, some r)), RecNamesOK u.1 := by
        intro u hu
        obtain ⟨r, hr, rfl⟩ := List.mem_map.mp hu
        exact (cached_ok hI.1.1 (hl r hr)).1
      obtain ⟨d1, o1, hf, hI', hcache, _⟩ := fanout_ok lower possible ettl U upd Iυ glue hU hI1
        (Gen.Cache.add_listener_purge_updates_now now) _ hp cr.cache cr.cache false
      exact ⟨d1, o1, hf, hI', hcache⟩
  obtain ⟨d1, o1, htold, hI1', hcache1⟩ := htold
  -- the scheduler bookkeeping of the replay, on a fresh scheduler
  have hnames : ∀ u ∈ Browser.replayList lower cr.cache (Gen.Cache.add_listener_replay_now now) cfg.types, RecNamesOK u.1 :=
    replay_names lower (hall _ hI.1.1.names) _ _
  obtain ⟨s2, hs2, hinv2⟩ := foldlM_ok (P := Sched2.Inv2)
    (fun s u hs => schedOne_ok lower possible cfg (Gen.Cache.add_listener_replay_now now) s u hs)
    (Browser.replayList lower cr.cache (Gen.Cache.add_listener_replay_now now) cfg.types) ({} : Sched2.S2) Sched2.inv2_init
  have hheap2 : HeapP NameTextSafe s2 :=
    foldlM_schedOne_heapP lower possible NameTextSafe cfg _ _ _ _ (fun u hu => fromWire_safe glue (hnames u hu).1)
      (by intro o ho; simp at ho) hs2
  obtain ⟨nf, hnf⟩ := wake_ok (!(Browser.replayList lower cr.cache (Gen.Cache.add_listener_replay_now now) cfg.types).isEmpty) d1.rest.1.notify
  unfold browserStart
  rw [hcr]
  dsimp only
  rw [htold]
  dsimp only
  rw [hs2]
  dsimp only
  rw [hnf]
  obtain ⟨⟨hC, hT⟩, hF⟩ := hI1'
  refine ⟨_, _, rfl, ⟨⟨⟨hC.cache, hC.reg, hC.names, hC.fields, hC.fresh, hC.safe, ?_, ?_, ⟨hC.rest.1, hC.rest.2.1, hC.rest.2.2⟩⟩, ⟨?_, ?_, hT.lookups⟩⟩, ⟨hF.1, hF.2⟩⟩, ?_⟩
  · intro cs hcs
    rcases List.mem_append.mp hcs with h | h
    · exact hC.scheds cs h
    · have : cs = (cfg, s2) := by simpa using h
      rw [this]; exact hinv2
  · intro b hb
    rcases List.mem_append.mp hb with h | h
    · exact hC.browsers b h
    · have : b = cr.browser := by simpa using h
      rw [this]; exact hpend
  · intro cs hcs
    rcases List.mem_append.mp hcs with h | h
    · exact hT.types cs h
    · have : cs = (cfg, s2) := by simpa using h
      rw [this]; exact hty
  · intro cs hcs
    rcases List.mem_append.mp hcs with h | h
    · exact hT.heap cs h
    · have : cs = (cfg, s2) := by simpa using h
      rw [this]; exact hheap2
  · show ∀ P : Rec → Prop, CacheAll P d.cache → CacheAll P d1.cache
    rw [hcache1]
    exact hall

theorem schedStart_ok {d : CS υ} (hI : Full lower ettl Iυ d) (i draw : Nat) (now : Ms) :
    Full lower ettl Iυ (schedStart d i draw now) ∧ (schedStart d i draw now).cache = d.cache := by
  unfold schedStart
  cases hget : d.scheds[i]? with
  | none => exact ⟨hI, rfl⟩
  | some cs =>
    dsimp only
    have hmem : cs ∈ d.scheds := List.mem_of_getElem? hget
    cases hstep : Sched2.step2 cs.1 cs.2 now (.start draw) with
    | error e => exact ⟨hI, rfl⟩
    | ok v =>
      obtain ⟨s', outs⟩ := v
      dsimp only
      have hs' : s' = { cs.2 with started := true, armed := some (.startup, now + draw) } := by
        simp only [Sched2.step2] at hstep
        split at hstep
        · simp only [Except.ok.injEq, Prod.mk.injEq] at hstep; exact hstep.1.symm
        · cases hstep
      obtain ⟨⟨hC, hT⟩, hF⟩ := hI
      refine ⟨⟨⟨⟨hC.cache, hC.reg, hC.names, hC.fields, hC.fresh, hC.safe, ?_, hC.browsers, hC.rest⟩, ⟨?_, ?_, hT.lookups⟩⟩, hF⟩, rfl⟩
      · intro cs' hcs'
        rcases List.mem_or_eq_of_mem_set hcs' with h | h
        · exact hC.scheds cs' h
        · rw [h, hs']; exact hC.scheds cs hmem
      · intro cs' hcs'
        rcases List.mem_or_eq_of_mem_set hcs' with h | h
        · exact hT.types cs' h
        · rw [h]; exact hT.types cs hmem
      · intro cs' hcs'
        rcases List.mem_or_eq_of_mem_set hcs' with h | h
        · exact hT.heap cs' h
        · rw [h, hs']; exact hT.heap cs hmem

theorem browserCancel_ok {d : CS υ} (hI : Full lower ettl Iυ d) (i : Nat) : Full lower ettl Iυ (browserCancel d i) := by
  obtain ⟨⟨hC, hT⟩, hF⟩ := hI
  unfold browserCancel
  exact ⟨⟨⟨hC.cache, hC.reg, hC.names, hC.fields, hC.fresh, hC.safe, fun cs h => hC.scheds cs (List.mem_of_mem_eraseIdx h),
    fun b h => hC.browsers b (List.mem_of_mem_eraseIdx h), hC.rest⟩,
    ⟨fun cs h => hT.types cs (List.mem_of_mem_eraseIdx h), fun cs h => hT.heap cs (List.mem_of_mem_eraseIdx h), hT.lookups⟩⟩, hF⟩

/-! ### lookups -/

theorem newestLive_mem {c : Lookup.Cache} {name : String} {ty : Nat} {now : Int} {r : Rec}
    (h : Lookup.newestLive lower c name ty now = some r) : r ∈ c := by
  unfold Lookup.newestLive at h
  have := List.mem_of_find?_eq_some h
  rw [List.mem_reverse] at this
  unfold Lookup.getAll at this
  exact (List.mem_filter.mp this).1

theorem addrRecs_sub (c : Lookup.Cache) (i : Lookup.Info) (ty : Nat) : ∀ r ∈ Lookup.addrRecs lower c i ty, r ∈ c := by
  intro r hr
  unfold Lookup.addrRecs at hr
  split at hr
  · cases hr
  · unfold Lookup.getAll at hr
    exact (List.mem_filter.mp hr).1

/-- `_load_from_cache` only copies names of cached records into the `ServiceInfo` -/
theorem loadInfo_lookOK (glue : TextGlue) {c : Lookup.Cache} (hc : ∀ r ∈ c, RecNamesOK r) (i : Lookup.Info) (now : Int) (hi : LookOK i) :
    LookOK (Lookup.loadInfo lower c i now) := by
  have hsrv : LookOK (Lookup.loadSrv lower c i now) := by
    unfold Lookup.loadSrv
    split
    · rename_i r hr
      exact processRecord_lookOK glue lower c i r now hi (hc r (newestLive_mem lower hr))
    · exact hi
  have htxt : LookOK (Lookup.loadTxt lower c (Lookup.loadSrv lower c i now) now) := by
    unfold Lookup.loadTxt
    split
    · rename_i r hr
      exact processRecord_lookOK glue lower c _ r now hsrv (hc r (newestLive_mem lower hr))
    · exact hsrv
  unfold Lookup.loadInfo
  split
  · unfold Lookup.loadAddrs
    apply processAll_lookOK glue lower c now _ _ _ (fun r hr => hc r (addrRecs_sub lower c _ _ r hr))
    exact processAll_lookOK glue lower c now _ _ htxt (fun r hr => hc r (addrRecs_sub lower c _ _ r hr))
  · exact htxt

theorem lookupStart_ok (glue : TextGlue) {d : CS υ} (hI : Full lower ettl Iυ d) (name : String) (now : Ms) (hn : NameTextSafe name) :
    Full lower ettl Iυ (lookupStart lower d name now) := by
  unfold lookupStart
  dsimp only
  split
  · exact hI
  · obtain ⟨⟨hC, hT⟩, hF⟩ := hI
    refine ⟨⟨⟨hC.cache, hC.reg, hC.names, hC.fields, hC.fresh, hC.safe, hC.scheds, hC.browsers, ⟨hC.rest.1, hC.rest.2.1, hC.rest.2.2⟩⟩,
      ⟨hT.types, hT.heap, ?_⟩⟩, ⟨hF.1, hF.2⟩⟩
    intro i hi
    rcases List.mem_append.mp hi with h | h
    · exact hT.lookups i h
    · have : i = (Lookup.loadFromCache lower d.cache.allRecs (Lookup.Info.fresh lower name) now).1 := by simpa using h
      rw [this]
      apply loadInfo_lookOK lower glue (fun r hr => (cached_ok hC hr).1)
      exact ⟨hn, hn⟩

theorem lookupFinish_ok {d : CS υ} (hI : Full lower ettl Iυ d) (j : Nat) : Full lower ettl Iυ (lookupFinish d j) := by
  obtain ⟨⟨hC, hT⟩, hF⟩ := hI
  unfold lookupFinish
  exact ⟨⟨⟨hC.cache, hC.reg, hC.names, hC.fields, hC.fresh, hC.safe, hC.scheds, hC.browsers, ⟨hC.rest.1, hC.rest.2.1, hC.rest.2.2⟩⟩,
    ⟨hT.types, hT.heap, fun i h => hT.lookups i (List.mem_of_mem_eraseIdx h)⟩⟩, ⟨hF.1, hF.2⟩⟩

/-! ### users and futures -/

theorem Full.setUsers {d : CS υ} (hI : Full lower ettl Iυ d) (u' : UState υ) (hu : UInv Iυ u') :
    Full lower ettl Iυ { d with rest := (u', d.rest.2) } := by
  obtain ⟨⟨hC, hT⟩, hF⟩ := hI
  exact ⟨⟨⟨hC.cache, hC.reg, hC.names, hC.fields, hC.fresh, hC.safe, hC.scheds, hC.browsers, ⟨hu, hC.rest.2.1, hC.rest.2.2⟩⟩,
    ⟨hT.types, hT.heap, hT.lookups⟩⟩, ⟨hF.1, hF.2⟩⟩

theorem timeoutFut_ok (id : Nat) (fs : List Fut) : ∃ r, timeoutFut id fs = .ok r := by
  unfold timeoutFut
  obtain ⟨l', hl', _⟩ := mapM_ok (P := fun _ : Fut => True) (Q := fun _ : Fut => True)
    (f := fun f : Fut => if f.id = id then setNoneIfNotDone f else .ok f)
    (fun f _ => by
      by_cases h : f.id = id
      · obtain ⟨f', hf', _⟩ := setNoneIfNotDone_ok f
        exact ⟨f', by simp only [h, if_true, hf'], trivial⟩
      · exact ⟨f, by simp only [h, if_false], trivial⟩) fs (fun _ _ => trivial)
  exact ⟨l', hl'⟩

theorem waitTimeout_ok {d : CS υ} (hI : Full lower ettl Iυ d) (id : Nat) :
    ∃ d', waitTimeout d id = .ok d' ∧ Full lower ettl Iυ d' ∧ d'.cache = d.cache := by
  obtain ⟨nf, hnf⟩ := timeoutFut_ok id d.rest.1.notify
  obtain ⟨lf, hlf, _⟩ := mapM_ok (P := fun _ : List Fut => True) (Q := fun _ : List Fut => True) (f := timeoutFut id)
    (fun fs _ => by obtain ⟨r, hr⟩ := timeoutFut_ok id fs; exact ⟨r, hr, trivial⟩) d.rest.1.lfuts (fun _ _ => trivial)
  unfold waitTimeout
  rw [hnf]
  dsimp only
  rw [hlf]
  exact ⟨_, rfl, hI.setUsers lower ettl Iυ _ hI.1.1.rest.1, rfl⟩

/-! ### every API block -/

/-- **what is assumed of the arguments the application passes to the API** (no hypothesis on states) -/
def ApiSafe : ApiBlock υ → Prop
  | .register s _ => ArgsInRange lower ettl s
  | .update s => ArgsInRange lower ettl s
  | .browserStart cfg _ => TypesSafe cfg.types
  | .lookupStart name _ => NameTextSafe name
  | .addUser u => Iυ u
  | _ => True

/-- **every residual block preserves the invariant without raising** — the hypothesis `hO` of `C15_history_all_timers_partial`, proved -/
theorem apiStep_ok (glue : TextGlue) (hU : UserOK U Iυ) {d : CS υ} (hI : Full lower ettl Iυ d) (b : ApiBlock υ)
    (hb : ApiSafe lower ettl Iυ b) :
    ∃ d' o, apiStep lower possible U upd d b = .ok (d', o) ∧ Full lower ettl Iυ d' ∧ ∀ P : Rec → Prop, CacheAll P d.cache → CacheAll P d'.cache := by
  cases b with
  | register s strict =>
    obtain ⟨d', h, hI', hc⟩ := register_ok lower possible ettl U upd Iυ hI s strict (dryRun_sound lower ettl hb)
    exact ⟨d', [], h, hI', by rw [hc]; exact fun P hP => hP⟩
  | update s =>
    obtain ⟨d', h, hI', hc⟩ := update_ok lower possible ettl U upd Iυ hI s (dryRun_sound lower ettl hb)
    exact ⟨d', [], h, hI', by rw [hc]; exact fun P hP => hP⟩
  | unregister s =>
    obtain ⟨d', h, hI'⟩ := unregister_ok lower possible ettl U upd Iυ hI s
    refine ⟨d', [], h, hI', ?_⟩
    simp only [apiStep] at h
    split at h
    · rename_i d'' hr
      simp only [Except.ok.injEq, Prod.mk.injEq] at h
      rw [← h.1]
      unfold unregisterE at hr
      split at hr
      · cases hr
      · split at hr
        · cases hr
        · simp only [Except.ok.injEq] at hr; rw [← hr]; exact fun P hP => hP
    · simp only [Except.ok.injEq, Prod.mk.injEq] at h; rw [← h.1]; exact fun P hP => hP
  | serviceSend key =>
    obtain ⟨o, h, hI'⟩ := serviceSend_ok lower possible ettl U upd Iυ hI key
    exact ⟨d, o, h, hI', fun P hP => hP⟩
  | browserStart cfg now => exact browserStart_ok lower possible ettl U upd Iυ glue hU hI cfg now hb
  | schedStart i draw now =>
    obtain ⟨h1, h2⟩ := schedStart_ok lower ettl Iυ hI i draw now
    exact ⟨_, [], rfl, h1, by rw [h2]; exact fun P hP => hP⟩
  | browserCancel i => exact ⟨_, [], rfl, browserCancel_ok lower ettl Iυ hI i, fun P hP => hP⟩
  | lookupStart name now =>
    refine ⟨_, [], rfl, lookupStart_ok lower ettl Iυ glue hI name now hb, ?_⟩
    unfold lookupStart
    dsimp only
    split <;> exact fun P hP => hP
  | lookupFinish j => exact ⟨_, [], rfl, lookupFinish_ok lower ettl Iυ hI j, fun P hP => hP⟩
  | purge now => exact purge_ok lower possible ettl U upd Iυ glue hU hI now
  | addUser u =>
    refine ⟨_, [], rfl, hI.setUsers lower ettl Iυ _ ?_, fun P hP => hP⟩
    intro x hx
    rcases List.mem_append.mp hx with h | h
    · exact hI.1.1.rest.1 x h
    · have : x = u := by simpa using h
      rw [this]; exact hb
  | removeUser i =>
    exact ⟨_, [], rfl, hI.setUsers lower ettl Iυ _ (fun x hx => hI.1.1.rest.1 x (List.mem_of_mem_eraseIdx hx)), fun P hP => hP⟩
  | waitNotify id => exact ⟨_, [], rfl, hI.setUsers lower ettl Iυ _ hI.1.1.rest.1, fun P hP => hP⟩
  | waitRecords j id => exact ⟨_, [], rfl, hI.setUsers lower ettl Iυ _ hI.1.1.rest.1, fun P hP => hP⟩
  | waitTimeout id =>
    obtain ⟨d', h, hI', hc⟩ := waitTimeout_ok lower ettl Iυ hI id
    refine ⟨d', [], by simp only [apiStep, h], hI', by rw [hc]; exact fun P hP => hP⟩

end

end Zc.Survive.Api
