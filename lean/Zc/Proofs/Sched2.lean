import Zc.Model.Sched2
import Zc.Proofs.Sched
/-! The dict/heap invariant of the two-container scheduler model and its refinement to `Zc.Sched` (C10). -/
namespace Zc.Sched2
open Zc Zc.Sched

/-! ### the dict -/

theorem dget_cons (a : String) (e : String × Nat) (d : Dict) :
    dget a (e :: d) = if e.1 == a then some e.2 else dget a d := by
  unfold dget
  rw [List.find?_cons]
  cases h : e.1 == a <;> simp

theorem dget_ddel_same (a : String) (d : Dict) : dget a (ddel a d) = none := by
  induction d with
  | nil => rfl
  | cons e t ih =>
    unfold ddel at ih ⊢
    rw [List.filter_cons]
    cases h : e.1 == a
    · simp only [Bool.not_false, if_true]; rw [dget_cons, h]; simpa using ih
    · simpa [h] using ih

theorem dget_ddel_other {a b : String} (hne : a ≠ b) (d : Dict) : dget b (ddel a d) = dget b d := by
  induction d with
  | nil => rfl
  | cons e t ih =>
    unfold ddel at ih ⊢
    rw [List.filter_cons]
    cases h : e.1 == a
    · simp only [Bool.not_false, if_true]; rw [dget_cons, dget_cons, ih]
    · have hea : e.1 = a := by simpa using h
      have : (e.1 == b) = false := by simp [hea, hne]
      simp only [Bool.not_true, Bool.false_eq_true, if_false]
      rw [dget_cons, this]; simpa using ih

theorem dget_ddel_none {a b : String} {d : Dict} (h : dget b d = none) : dget b (ddel a d) = none := by
  by_cases hab : a = b
  · subst hab; exact dget_ddel_same _ _
  · rw [dget_ddel_other hab]; exact h

theorem dget_dset_same (a : String) (i : Nat) (d : Dict) : dget a (dset a i d) = some i := by
  unfold dset; rw [dget_cons]; simp

theorem dget_dset_other {a b : String} (hne : a ≠ b) (i : Nat) (d : Dict) : dget b (dset a i d) = dget b d := by
  unfold dset; rw [dget_cons]
  have : ((a, i).1 == b) = false := by simp [hne]
  rw [this]; simpa using dget_ddel_other hne d

/-! ### the heap -/

theorem mem_insert2 {o x : Obj} {l : List Obj} : x ∈ insert2 o l ↔ x = o ∨ x ∈ l := by
  induction l with
  | nil => simp [insert2]
  | cons h t ih =>
    unfold insert2
    split
    · simp
    · simp only [List.mem_cons, ih]
      constructor
      · rintro (h1 | h1 | h1)
        · exact Or.inr (Or.inl h1)
        · exact Or.inl h1
        · exact Or.inr (Or.inr h1)
      · rintro (h1 | h1 | h1)
        · exact Or.inr (Or.inl h1)
        · exact Or.inl h1
        · exact Or.inr (Or.inr h1)

theorem map_q_insert2 (o : Obj) (l : List Obj) : (insert2 o l).map (·.q) = Sched.insert o.q (l.map (·.q)) := by
  induction l with
  | nil => rfl
  | cons h t ih =>
    unfold insert2 Sched.insert
    simp only [List.map_cons]
    split
    · rfl
    · simp only [List.map_cons, ih]

def IdsDistinct (l : List Obj) : Prop := l.Pairwise (fun x y => x.id ≠ y.id)

theorem idsDistinct_insert2 {o : Obj} {l : List Obj} (hd : IdsDistinct l) (hf : ∀ x ∈ l, x.id ≠ o.id) :
    IdsDistinct (insert2 o l) := by
  induction l with
  | nil => simp [insert2, IdsDistinct]
  | cons h t ih =>
    unfold insert2
    unfold IdsDistinct at hd ⊢
    rw [List.pairwise_cons] at hd
    split
    · refine List.pairwise_cons.2 ⟨?_, List.pairwise_cons.2 hd⟩
      intro x hx
      exact fun e => hf x hx e.symm
    · refine List.pairwise_cons.2 ⟨?_, ih hd.2 (fun x hx => hf x (List.mem_cons_of_mem _ hx))⟩
      intro x hx
      rcases mem_insert2.1 hx with rfl | hx
      · exact hf h (by simp)
      · exact hd.1 x hx

theorem eq_of_id_eq {l : List Obj} (hd : IdsDistinct l) {x y : Obj} (hx : x ∈ l) (hy : y ∈ l) (h : x.id = y.id) : x = y := by
  induction l with
  | nil => simp at hx
  | cons a t ih =>
    unfold IdsDistinct at hd
    rw [List.pairwise_cons] at hd
    rcases List.mem_cons.1 hx with hxa | hxt
    · rcases List.mem_cons.1 hy with hya | hyt
      · rw [hxa, hya]
      · exact absurd h (by rw [hxa]; exact hd.1 y hyt)
    · rcases List.mem_cons.1 hy with hya | hyt
      · exact absurd h.symm (by rw [hya]; exact hd.1 x hxt)
      · exact ih hd.2 hxt hyt

theorem idsDistinct_map {f : Obj → Obj} (hf : ∀ o, (f o).id = o.id) {l : List Obj} (hd : IdsDistinct l) : IdsDistinct (l.map f) := by
  unfold IdsDistinct at *
  rw [List.pairwise_map]
  exact hd.imp (by intro a b h; rw [hf, hf]; exact h)

/-! ### the invariant: dict values = live heap members, one per alias -/

/-- (a) every dict value is a heap member that is not cancelled (and carries the key as its alias);
(b) every non-cancelled heap member is the dict value of its alias; object identities in the heap are distinct and
below the allocation counter.  (c) "at most one live entry per alias" follows: `HD.one_per_alias`. -/
structure HD (h : List Obj) (d : Dict) (n : Nat) : Prop where
  a : ∀ al i, dget al d = some i → ∃ o ∈ h, o.id = i ∧ o.q.cancelled = false ∧ o.q.alias = al
  b : ∀ o ∈ h, o.q.cancelled = false → dget o.q.alias d = some o.id
  u : IdsDistinct h
  f : ∀ o ∈ h, o.id < n

def Inv2 (s : S2) : Prop := HD s.heap s.dict s.nextId

theorem HD.one_per_alias {h : List Obj} {d : Dict} {n : Nat} (hd : HD h d n) {x y : Obj} (hx : x ∈ h) (hy : y ∈ h)
    (lx : x.q.cancelled = false) (ly : y.q.cancelled = false) (ha : x.q.alias = y.q.alias) : x = y := by
  have h1 := hd.b x hx lx
  have h2 := hd.b y hy ly
  rw [ha, h2] at h1
  exact eq_of_id_eq hd.u hx hy (by simpa using h1.symm)

theorem HD.no_live_of_none {h : List Obj} {d : Dict} {n : Nat} (hd : HD h d n) {al : String} (hn : dget al d = none) :
    ∀ o ∈ h, o.q.cancelled = false → o.q.alias ≠ al := by
  intro o ho hl he
  have := hd.b o ho hl
  rw [he, hn] at this; cases this

theorem hd_nil (n : Nat) : HD [] [] n :=
  ⟨by intro al i h; simp [dget] at h, by intro o ho; simp at ho, by simp [IdsDistinct], by intro o ho; simp at ho⟩

theorem hd_push {h : List Obj} {d : Dict} {n : Nat} (hd : HD h d n) {q : Q} (hl : q.cancelled = false)
    (hfree : ∀ o ∈ h, o.q.cancelled = false → o.q.alias ≠ q.alias) :
    HD (insert2 ⟨n, q⟩ h) (dset q.alias n d) (n + 1) := by
  refine ⟨?_, ?_, ?_, ?_⟩
  · intro al i hg
    by_cases hal : q.alias = al
    · subst hal
      rw [dget_dset_same] at hg
      refine ⟨⟨n, q⟩, mem_insert2.2 (Or.inl rfl), by simpa using hg, hl, rfl⟩
    · rw [dget_dset_other hal] at hg
      obtain ⟨o, ho, h1, h2, h3⟩ := hd.a al i hg
      exact ⟨o, mem_insert2.2 (Or.inr ho), h1, h2, h3⟩
  · intro o ho hlo
    rcases mem_insert2.1 ho with rfl | ho
    · exact dget_dset_same _ _ _
    · have hne := hfree o ho hlo
      rw [dget_dset_other (fun e => hne e.symm)]
      exact hd.b o ho hlo
  · exact idsDistinct_insert2 hd.u (fun x hx => by have := hd.f x hx; simp; omega)
  · intro o ho
    rcases mem_insert2.1 ho with rfl | ho
    · simp
    · have := hd.f o ho; omega

theorem mem_map_of_fix {f : Obj → Obj} {o : Obj} {l : List Obj} (ho : o ∈ l) (hf : f o = o) : o ∈ l.map f :=
  List.mem_map.2 ⟨o, ho, hf⟩

theorem hd_cancel {h : List Obj} {d : Dict} {n : Nat} (hd : HD h d n) {al : String} {i : Nat} (hg : dget al d = some i) :
    HD (setCancelled i h) (ddel al d) n := by
  obtain ⟨oa, hoa, hia, _, haa⟩ := hd.a al i hg
  refine ⟨?_, ?_, ?_, ?_⟩
  · intro b j hj
    by_cases hab : al = b
    · subst hab; rw [dget_ddel_same] at hj; cases hj
    · rw [dget_ddel_other hab] at hj
      obtain ⟨o, ho, h1, h2, h3⟩ := hd.a b j hj
      refine ⟨o, mem_map_of_fix ho ?_, h1, h2, h3⟩
      have : (o.id == i) = false := by
        cases hb : o.id == i
        · rfl
        · exfalso
          have : o = oa := eq_of_id_eq hd.u ho hoa (by rw [hia]; simpa using hb)
          rw [this, haa] at h3; exact hab h3
      simp [this]
  · intro o' ho' hl'
    unfold setCancelled at ho'
    rcases List.mem_map.1 ho' with ⟨o, ho, rfl⟩
    by_cases hb : (o.id == i) = true
    · simp [hb] at hl'
    · simp only [hb] at hl' ⊢
      simp only [Bool.false_eq_true, if_false] at hl' ⊢
      have := hd.b o ho hl'
      have hne : al ≠ o.q.alias := by
        intro e
        rw [← e, hg] at this
        exact hb (by simpa using this.symm)
      rw [dget_ddel_other hne]; exact this
  · exact idsDistinct_map (by intro o; by_cases hb : (o.id == i) = true <;> simp [hb]) hd.u
  · intro o' ho'
    unfold setCancelled at ho'
    rcases List.mem_map.1 ho' with ⟨o, ho, rfl⟩
    have := hd.f o ho
    by_cases hb : (o.id == i) = true <;> simp [hb] <;> exact this

theorem hd_life {h : List Obj} {d : Dict} {n : Nat} (hd : HD h d n) (i ttl : Nat) (e : Int) : HD (setLife i ttl e h) d n := by
  have key : ∀ o : Obj, ((if (o.id == i) = true then ({ o with q := { o.q with ttl := ttl, expire := e } } : Obj) else o).id = o.id) ∧
      ((if (o.id == i) = true then ({ o with q := { o.q with ttl := ttl, expire := e } } : Obj) else o).q.cancelled = o.q.cancelled) ∧
      ((if (o.id == i) = true then ({ o with q := { o.q with ttl := ttl, expire := e } } : Obj) else o).q.alias = o.q.alias) := by
    intro o; by_cases hb : (o.id == i) = true <;> simp [hb]
  refine ⟨?_, ?_, ?_, ?_⟩
  · intro al j hj
    obtain ⟨o, ho, h1, h2, h3⟩ := hd.a al j hj
    refine ⟨_, List.mem_map.2 ⟨o, ho, rfl⟩, ?_, ?_, ?_⟩
    · rw [(key o).1]; exact h1
    · rw [(key o).2.1]; exact h2
    · rw [(key o).2.2]; exact h3
  · intro o' ho' hl'
    unfold setLife at ho'
    rcases List.mem_map.1 ho' with ⟨o, ho, rfl⟩
    rw [(key o).2.1] at hl'
    rw [(key o).2.2, (key o).1]
    exact hd.b o ho hl'
  · exact idsDistinct_map (fun o => (key o).1) hd.u
  · intro o' ho'
    unfold setLife at ho'
    rcases List.mem_map.1 ho' with ⟨o, ho, rfl⟩
    rw [(key o).1]; exact hd.f o ho

/-! ### the pop loop of `_process_ready_types` -/

/-- Under the invariant the loop never hits the `KeyError`; it pops exactly what the one-list model pops, leaves the
invariant intact for what remains, and the aliases of the popped objects are distinct and gone from the dict. -/
theorem hd_pop (e : Int) (n : Nat) : ∀ (l : List Obj) (d : Dict), HD l d n →
    ∃ p r d', popReady2 e l d = .ok (p, r, d') ∧ HD r d' n ∧
      p.map (·.q) = (popReady e (l.map (·.q))).1 ∧ r.map (·.q) = (popReady e (l.map (·.q))).2 ∧
      (∀ o ∈ p, o.q.cancelled = false ∧ dget o.q.alias d' = none) ∧
      p.Pairwise (fun x y => x.q.alias ≠ y.q.alias) ∧
      (∀ b, dget b d = none → dget b d' = none) ∧ (∀ o ∈ p, o ∈ l) := by
  intro l
  induction l with
  | nil =>
    intro d hd
    exact ⟨[], [], d, rfl, hd, rfl, rfl, by simp, by simp, fun _ h => h, by simp⟩
  | cons o rest ih =>
    intro d hd
    have hu := hd.u
    unfold IdsDistinct at hu
    rw [List.pairwise_cons] at hu
    by_cases hc : o.q.cancelled = true
    · -- a cancelled entry surfaces and is dropped
      have hd' : HD rest d n := by
        refine ⟨?_, fun x hx => hd.b x (List.mem_cons_of_mem _ hx), hu.2, fun x hx => hd.f x (List.mem_cons_of_mem _ hx)⟩
        intro al i hg
        obtain ⟨x, hx, h1, h2, h3⟩ := hd.a al i hg
        rcases List.mem_cons.1 hx with rfl | hx
        · rw [hc] at h2; cases h2
        · exact ⟨x, hx, h1, h2, h3⟩
      obtain ⟨p, r, d', h1, h2, h3, h4, h5, h6, h7, h8⟩ := ih d hd'
      refine ⟨p, r, d', ?_, h2, ?_, ?_, h5, h6, h7, fun x hx => List.mem_cons_of_mem _ (h8 x hx)⟩
      · simp only [popReady2, hc, if_true]; exact h1
      · simp only [List.map_cons, popReady, hc, if_true]; exact h3
      · simp only [List.map_cons, popReady, hc, if_true]; exact h4
    · have hl : o.q.cancelled = false := by simpa using hc
      by_cases hnd : Gen.Browser.ready_not_due o.q.when e = true
      · refine ⟨[], o :: rest, d, ?_, hd, ?_, ?_, by simp, by simp, fun _ h => h, by simp⟩
        · simp only [popReady2, hl, hnd, if_true, Bool.false_eq_true, if_false]
        · simp only [List.map_cons, popReady, hl, hnd, if_true, Bool.false_eq_true, if_false]; rfl
        · simp only [List.map_cons, popReady, hl, hnd, if_true, Bool.false_eq_true, if_false]
      · -- a due live entry: `del dict[alias]` finds its key
        have hg := hd.b o (by simp) hl
        have hd' : HD rest (ddel o.q.alias d) n := by
          refine ⟨?_, ?_, hu.2, fun x hx => hd.f x (List.mem_cons_of_mem _ hx)⟩
          · intro al i hgi
            by_cases hal : o.q.alias = al
            · subst hal; rw [dget_ddel_same] at hgi; cases hgi
            · rw [dget_ddel_other hal] at hgi
              obtain ⟨x, hx, h1, h2, h3⟩ := hd.a al i hgi
              rcases List.mem_cons.1 hx with rfl | hx
              · exact absurd h3 hal
              · exact ⟨x, hx, h1, h2, h3⟩
          · intro x hx hlx
            have hgx := hd.b x (List.mem_cons_of_mem _ hx) hlx
            have hne : o.q.alias ≠ x.q.alias := by
              intro ea
              rw [← ea, hg] at hgx
              exact hu.1 x hx (by simpa using hgx)
            rw [dget_ddel_other hne]; exact hgx
        obtain ⟨p, r, d', h1, h2, h3, h4, h5, h6, h7, h8⟩ := ih (ddel o.q.alias d) hd'
        refine ⟨o :: p, r, d', ?_, h2, ?_, ?_, ?_, ?_, ?_, ?_⟩
        · simp only [popReady2, hl, hnd, Bool.false_eq_true, if_false, hg, h1]
        · simp only [List.map_cons, popReady, hl, hnd, Bool.false_eq_true, if_false, h3]
        · simp only [List.map_cons, popReady, hl, hnd, Bool.false_eq_true, if_false, h4]
        · intro x hx
          rcases List.mem_cons.1 hx with rfl | hx
          · exact ⟨hl, h7 _ (dget_ddel_same _ _)⟩
          · exact h5 x hx
        · refine List.pairwise_cons.2 ⟨?_, h6⟩
          intro x hx ea
          have hxin : x ∈ rest := h8 x hx
          have hgx := hd'.b x hxin (h5 x hx).1
          rw [← ea, dget_ddel_same] at hgx; cases hgx
        · intro b hb
          exact h7 b (dget_ddel_none hb)
        · intro x hx
          rcases List.mem_cons.1 hx with rfl | hx
          · simp
          · exact List.mem_cons_of_mem _ (h8 x hx)

/-! ### components of `schedule2` -/

@[simp] theorem rearm2_heap (s : S2) (w : Int) : (rearmIfEarlier2 s w).heap = s.heap := by
  unfold rearmIfEarlier2 armReady2; split <;> (try split) <;> rfl
@[simp] theorem rearm2_dict (s : S2) (w : Int) : (rearmIfEarlier2 s w).dict = s.dict := by
  unfold rearmIfEarlier2 armReady2; split <;> (try split) <;> rfl
@[simp] theorem rearm2_nextId (s : S2) (w : Int) : (rearmIfEarlier2 s w).nextId = s.nextId := by
  unfold rearmIfEarlier2 armReady2; split <;> (try split) <;> rfl

theorem abs_rearm2 (s : S2) (w : Int) : abs (rearmIfEarlier2 s w) = rearmIfEarlier (abs s) w := by
  unfold rearmIfEarlier2 rearmIfEarlier armReady2 armReady abs
  simp only
  split <;> (try split) <;> rfl

theorem abs_schedule2 (s : S2) (q : Q) : abs (schedule2 s q) = schedule (abs s) q := by
  unfold schedule2 schedule
  rw [abs_rearm2]
  congr 1
  simp [abs, map_q_insert2]

theorem abs_foldl_schedule2 (qs : List Q) (s : S2) : abs (qs.foldl schedule2 s) = qs.foldl schedule (abs s) := by
  induction qs generalizing s with
  | nil => rfl
  | cons q t ih => simp only [List.foldl_cons]; rw [ih, abs_schedule2]

theorem inv2_schedule2 {s : S2} (h : Inv2 s) {q : Q} (hl : q.cancelled = false)
    (hfree : ∀ o ∈ s.heap, o.q.cancelled = false → o.q.alias ≠ q.alias) : Inv2 (schedule2 s q) := by
  unfold Inv2 schedule2
  simp only [rearm2_heap, rearm2_dict, rearm2_nextId]
  exact hd_push h hl hfree

@[simp] theorem schedule2_dict (s : S2) (q : Q) : (schedule2 s q).dict = dset q.alias s.nextId s.dict := by simp [schedule2]

/-- pushing the follow-ups of the popped objects keeps the invariant -/
theorem inv2_rescues (now : Int) : ∀ (p : List Obj) (s : S2), Inv2 s →
    (∀ o ∈ p, o.q.cancelled = false ∧ dget o.q.alias s.dict = none) →
    p.Pairwise (fun x y => x.q.alias ≠ y.q.alias) →
    Inv2 ((p.filterMap (fun o => rescueOf now o.q)).foldl schedule2 s) := by
  intro p
  induction p with
  | nil => intro s h _ _; exact h
  | cons o t ih =>
    intro s h hp hpw
    rw [List.pairwise_cons] at hpw
    rw [List.filterMap_cons]
    have ht : ∀ x ∈ t, x.q.cancelled = false ∧ dget x.q.alias s.dict = none := fun x hx => hp x (List.mem_cons_of_mem _ hx)
    cases hr : rescueOf now o.q with
    | none => exact ih s h ht hpw.2
    | some q' =>
      simp only [List.foldl_cons]
      have hq' : q'.alias = o.q.alias ∧ q'.cancelled = o.q.cancelled := by
        rw [rescueOf_eq] at hr
        split at hr
        · cases hr
        · simp only [Option.some.injEq] at hr; rw [← hr]; exact ⟨rfl, rfl⟩
      have ho := hp o (by simp)
      refine ih (schedule2 s q') (inv2_schedule2 h (by rw [hq'.2]; exact ho.1) ?_) ?_ hpw.2
      · rw [hq'.1]; exact HD.no_live_of_none h ho.2
      · intro x hx
        refine ⟨(ht x hx).1, ?_⟩
        rw [schedule2_dict, hq'.1, dget_dset_other (hpw.1 x hx)]
        exact (ht x hx).2

/-! ### refinement: the one-list model `Zc.Sched` is what remains when identities and the dict are forgotten -/

theorem entry_iff_id {h : List Obj} {d : Dict} {n : Nat} (hd : HD h d n) {al : String} {i : Nat} (hg : dget al d = some i)
    {o : Obj} (ho : o ∈ h) : (o.id == i) = (!o.q.cancelled && o.q.alias == al) := by
  obtain ⟨oa, hoa, hia, hla, haa⟩ := hd.a al i hg
  cases hb : o.id == i
  · -- not the designated object: then not a live entry of `al`
    cases hp : (!o.q.cancelled && o.q.alias == al)
    · rfl
    · exfalso
      simp only [Bool.and_eq_true, Bool.not_eq_true', beq_iff_eq] at hp
      have := hd.b o ho hp.1
      rw [hp.2, hg] at this
      have : o.id = i := by simpa using this.symm
      simp [this] at hb
  · have : o = oa := eq_of_id_eq hd.u ho hoa (by rw [hia]; simpa using hb)
    rw [this, hla, haa]; simp

theorem map_q_setCancelled {h : List Obj} {d : Dict} {n : Nat} (hd : HD h d n) {al : String} {i : Nat} (hg : dget al d = some i) :
    (setCancelled i h).map (·.q) = cancelAlias al (h.map (·.q)) := by
  unfold setCancelled cancelAlias
  rw [List.map_map, List.map_map]
  apply List.map_congr_left
  intro o ho
  simp only [Function.comp]
  rw [entry_iff_id hd hg ho]
  split <;> rfl

theorem map_q_setLife {h : List Obj} {d : Dict} {n : Nat} (hd : HD h d n) {al : String} {i : Nat} (hg : dget al d = some i)
    (ttl : Nat) (e : Int) : (setLife i ttl e h).map (·.q) = relife al ttl e (h.map (·.q)) := by
  unfold setLife relife
  rw [List.map_map, List.map_map]
  apply List.map_congr_left
  intro o ho
  simp only [Function.comp]
  rw [entry_iff_id hd hg ho]
  split <;> rfl

theorem cancelAlias_none {h : List Obj} {d : Dict} {n : Nat} (hd : HD h d n) {al : String} (hg : dget al d = none) :
    cancelAlias al (h.map (·.q)) = h.map (·.q) := by
  unfold cancelAlias
  rw [List.map_map]
  apply List.map_congr_left
  intro o ho
  simp only [Function.comp]
  have : (!o.q.cancelled && o.q.alias == al) = false := by
    cases hp : (!o.q.cancelled && o.q.alias == al)
    · rfl
    · exfalso
      simp only [Bool.and_eq_true, Bool.not_eq_true', beq_iff_eq] at hp
      exact HD.no_live_of_none hd hg o ho hp.1 hp.2
  simp [this]

theorem current_map (al : String) (h : List Obj) :
    current al (h.map (·.q)) = (h.find? (fun o => !o.q.cancelled && o.q.alias == al)).map (·.q) := by
  unfold current
  induction h with
  | nil => rfl
  | cons o t ih =>
    simp only [List.map_cons, List.find?_cons]
    cases (!o.q.cancelled && o.q.alias == al)
    · simpa using ih
    · rfl

theorem current_some {h : List Obj} {d : Dict} {n : Nat} (hd : HD h d n) {al : String} {i : Nat} (hg : dget al d = some i) :
    ∃ cur, getObj i h = some cur ∧ current al (h.map (·.q)) = some cur.q := by
  obtain ⟨oa, hoa, hia, hla, haa⟩ := hd.a al i hg
  refine ⟨oa, ?_, ?_⟩
  · unfold getObj
    cases hf : h.find? (fun o => o.id == i) with
    | none =>
      rw [List.find?_eq_none] at hf
      exact absurd (by simpa using hia) (hf oa hoa)
    | some o' =>
      have h1 := List.find?_some hf
      have h2 := List.mem_of_find?_eq_some hf
      rw [eq_of_id_eq hd.u h2 hoa (by rw [hia]; simpa using h1)]
  · rw [current_map]
    cases hf : h.find? (fun o => !o.q.cancelled && o.q.alias == al) with
    | none =>
      rw [List.find?_eq_none] at hf
      exact absurd (by simp [hla, haa]) (hf oa hoa)
    | some o' =>
      have h1 := List.find?_some hf
      have h2 := List.mem_of_find?_eq_some hf
      simp only [Bool.and_eq_true, Bool.not_eq_true', beq_iff_eq] at h1
      rw [HD.one_per_alias hd h2 hoa h1.1 hla (by rw [h1.2, haa])]
      rfl

theorem current_none {h : List Obj} {d : Dict} {n : Nat} (hd : HD h d n) {al : String} (hg : dget al d = none) :
    current al (h.map (·.q)) = none := by
  rw [current_map]
  cases hf : h.find? (fun o => !o.q.cancelled && o.q.alias == al) with
  | none => rfl
  | some o' =>
    have h1 := List.find?_some hf
    have h2 := List.mem_of_find?_eq_some hf
    simp only [Bool.and_eq_true, Bool.not_eq_true', beq_iff_eq] at h1
    exact absurd h1.2 (HD.no_live_of_none hd hg o' h2 h1.1)

theorem cancel2_refines {s : S2} (h : Inv2 s) (al : String) :
    abs (cancel2 s al) = { abs s with heap := cancelAlias al (abs s).heap } ∧ Inv2 (cancel2 s al) := by
  unfold cancel2
  cases hg : dget al s.dict with
  | none =>
    refine ⟨?_, h⟩
    show abs s = _
    have := cancelAlias_none h hg
    simp only [abs] at this ⊢
    rw [this]
  | some i =>
    refine ⟨?_, hd_cancel h hg⟩
    simp only [abs]
    rw [map_q_setCancelled h hg]

theorem reschedule2_refines (c : Cfg) {s : S2} (h : Inv2 s) (al n : String) (ttl : Nat) (cr : Int) :
    ∃ s', reschedule2 c s al n ttl cr = .ok s' ∧ abs s' = reschedule c (abs s) al n ttl cr ∧ Inv2 s' := by
  unfold reschedule2 reschedule
  cases hg : dget al s.dict with
  | none =>
    have hc : current al (abs s).heap = none := current_none h hg
    rw [hc]
    refine ⟨_, rfl, abs_schedule2 _ _, inv2_schedule2 h rfl ?_⟩
    exact HD.no_live_of_none h hg
  | some i =>
    obtain ⟨cur, hcur, hc⟩ := current_some h hg
    have hc' : current al (abs s).heap = some cur.q := hc
    rw [hc']
    simp only [hcur]
    by_cases hk : Gen.Browser.reschedule_keep (↑c.minDelay) (firstQuery al n ttl cr).when cur.q.when = true
    · simp only [hk, if_true]
      refine ⟨_, rfl, ?_, hd_life h _ _ _⟩
      simp only [abs]
      rw [map_q_setLife h hg]
    · simp only [hk]
      simp only [Bool.false_eq_true, if_false]
      have h0 : Inv2 { s with heap := setCancelled i s.heap, dict := ddel al s.dict } := hd_cancel h hg
      refine ⟨_, rfl, ?_, inv2_schedule2 h0 rfl ?_⟩
      · rw [abs_schedule2]
        congr 1
        simp only [abs]
        rw [map_q_setCancelled h hg]
      · exact HD.no_live_of_none h0 (dget_ddel_same _ _)

theorem fireStartup2_refines (c : Cfg) {s : S2} (h : Inv2 s) (now : Int) (done : Bool) :
    abs (fireStartup2 c s now done).1 = (fireStartup c (abs s) now done).1 ∧
    (fireStartup2 c s now done).2 = (fireStartup c (abs s) now done).2 ∧ Inv2 (fireStartup2 c s now done).1 := by
  unfold fireStartup2 fireStartup
  cases done
  · simp only [Bool.false_eq_true, if_false]
    have e : (abs s).startupSent = s.startupSent := rfl
    rw [e]
    split
    · exact ⟨rfl, rfl, h⟩
    · exact ⟨rfl, rfl, h⟩
  · exact ⟨rfl, rfl, h⟩

theorem fireReady2_refines (c : Cfg) {s : S2} (h : Inv2 s) (now : Int) (done : Bool) :
    ∃ s', fireReady2 c s now done = .ok (s', (fireReady c (abs s) now done).2) ∧
      abs s' = (fireReady c (abs s) now done).1 ∧ Inv2 s' := by
  cases done
  · obtain ⟨p, r, d', h1, h2, h3, h4, h5, h6, _, _⟩ := hd_pop now s.nextId s.heap s.dict h
    have hresc : p.filterMap (fun o => rescueOf now o.q) = ((popReady now (abs s).heap).1).filterMap (rescueOf now) := by
      show _ = ((popReady now (s.heap.map (·.q))).1).filterMap (rescueOf now)
      rw [← h3, List.filterMap_map]; rfl
    have hinv0 : Inv2 { s with heap := r, dict := d', armed := none } := h2
    have hinv1 := inv2_rescues now p { s with heap := r, dict := d', armed := none } hinv0 h5 h6
    have habs1 : abs ((p.filterMap (fun o => rescueOf now o.q)).foldl schedule2 { s with heap := r, dict := d', armed := none })
        = ((popReady now (abs s).heap).1.filterMap (rescueOf now)).foldl schedule
            { abs s with heap := (popReady now (abs s).heap).2, armed := none } := by
      rw [abs_foldl_schedule2, hresc]
      congr 1
      simp only [abs]
      rw [h4]
    generalize hs1 : (p.filterMap (fun o => rescueOf now o.q)).foldl schedule2 { s with heap := r, dict := d', armed := none } = s1
      at hinv1 habs1
    have hemp : p.isEmpty = (popReady now (abs s).heap).1.isEmpty := by
      show _ = (popReady now (s.heap.map (·.q))).1.isEmpty
      rw [← h3]; cases p <;> rfl
    have hnames : p.map (·.q.name) = (popReady now (abs s).heap).1.map (·.name) := by
      show _ = (popReady now (s.heap.map (·.q))).1.map (·.name)
      rw [← h3, List.map_map]; rfl
    refine ⟨armReady2 { s1 with earliest := Gen.Browser.next_time now c.minDelay } (nextWhen c (s1.heap.map (·.q)) now), ?_, ?_, hinv1⟩
    · simp only [fireReady2, Bool.false_eq_true, if_false, h1, hs1]
      congr 2
      simp only [fireReady, Bool.false_eq_true, if_false]
      rw [hemp, hnames]
    · simp only [fireReady, Bool.false_eq_true, if_false]
      rw [← habs1]
      rfl
  · exact ⟨_, rfl, rfl, h⟩

theorem step2_refines (c : Cfg) {s : S2} (h : Inv2 s) (t : Int) (op : Op) :
    (step c (abs s) t op = none → step2 c s t op = .error .notEnabled) ∧
    (∀ s' outs, step c (abs s) t op = some (s', outs) →
      ∃ s2', step2 c s t op = .ok (s2', outs) ∧ abs s2' = s' ∧ Inv2 s2') := by
  cases op with
  | start d =>
    simp only [step, step2]
    by_cases hd : c.lo ≤ d ∧ d ≤ c.hi
    · simp only [hd, and_self, if_true]
      refine ⟨(by intro hh; cases hh), ?_⟩
      intro s' outs hs
      simp only [Option.some.injEq, Prod.mk.injEq] at hs
      exact ⟨{ s with started := true, armed := some (.startup, t + d) }, by rw [← hs.2], by rw [← hs.1]; rfl, h⟩
    · simp only [hd, if_false]
      exact ⟨(by first | (intro _; rfl) | simp), (by first | (intro s' outs hs; cases hs) | simp)⟩
  | stop =>
    simp only [step, step2]
    refine ⟨(by intro hh; cases hh), ?_⟩
    intro s' outs hs
    simp only [Option.some.injEq, Prod.mk.injEq] at hs
    exact ⟨{ s with armed := none, started := false, heap := [], dict := [] }, by rw [← hs.2], by rw [← hs.1]; rfl,
      (hd_nil s.nextId : HD [] [] s.nextId)⟩
  | ptr a n ttl cr =>
    obtain ⟨s1, h1, h2, h3⟩ := reschedule2_refines c h a n ttl cr
    simp only [step, step2, h1]
    refine ⟨(by intro hh; cases hh), ?_⟩
    intro s' outs hs
    simp only [Option.some.injEq, Prod.mk.injEq] at hs
    exact ⟨s1, by rw [← hs.2], by rw [← hs.1]; exact h2, h3⟩
  | cancel a =>
    have hc := cancel2_refines h a
    simp only [step, step2]
    refine ⟨(by intro hh; cases hh), ?_⟩
    intro s' outs hs
    simp only [Option.some.injEq, Prod.mk.injEq] at hs
    exact ⟨_, by rw [← hs.2], by rw [← hs.1]; exact hc.1, hc.2⟩
  | fire d =>
    have ea : (abs s).armed = s.armed := rfl
    simp only [step, step2, ea]
    cases harm : s.armed with
    | none => exact ⟨(by first | (intro _; rfl) | simp), (by first | (intro s' outs hs; cases hs) | simp)⟩
    | some td =>
      obtain ⟨tk, due⟩ := td
      cases tk
      · -- startup
        simp only
        by_cases hdue : due = t
        · simp only [hdue, if_true]
          have hf := fireStartup2_refines c h t d
          refine ⟨(by intro hh; cases hh), ?_⟩
          intro s' outs hs
          simp only [Option.some.injEq] at hs
          have ho : outs = (fireStartup2 c s t d).2 := by rw [hf.2.1, hs]
          refine ⟨(fireStartup2 c s t d).1, ?_, ?_, hf.2.2⟩
          · rw [ho]
          · rw [hf.1, hs]
        · simp only [hdue, if_false]
          exact ⟨(by first | (intro _; rfl) | simp), (by first | (intro s' outs hs; cases hs) | simp)⟩
      · simp only
        by_cases hdue : due = t
        · simp only [hdue, if_true]
          obtain ⟨s1, h1, h2, h3⟩ := fireReady2_refines c h t d
          refine ⟨(by intro hh; cases hh), ?_⟩
          intro s' outs hs
          simp only [Option.some.injEq] at hs
          refine ⟨s1, ?_, ?_, h3⟩
          · rw [h1, hs]
          · rw [h2, hs]
        · simp only [hdue, if_false]
          exact ⟨(by first | (intro _; rfl) | simp), (by first | (intro s' outs hs; cases hs) | simp)⟩

/-- **refinement of histories**: under the invariant, `exec2` accepts exactly the histories `exec` accepts, produces the
same sends, ends in a state whose abstraction is `exec`'s state, never raises `KeyError`/`dangling`, and the invariant holds
at the end -/
theorem exec2_refines (c : Cfg) : ∀ (evs : List (Int × Op)) (s : S2) (clk : Int), Inv2 s →
    (exec c (abs s) clk evs = none → exec2 c s clk evs = .error .notEnabled) ∧
    (∀ s' outs, exec c (abs s) clk evs = some (s', outs) →
      ∃ s2', exec2 c s clk evs = .ok (s2', outs) ∧ abs s2' = s' ∧ Inv2 s2') := by
  intro evs
  induction evs with
  | nil =>
    intro s clk h
    simp only [exec, exec2]
    refine ⟨(by intro hh; cases hh), ?_⟩
    intro s' outs hs
    simp only [Option.some.injEq, Prod.mk.injEq] at hs
    exact ⟨s, by rw [← hs.2], hs.1, h⟩
  | cons e es ih =>
    intro s clk h
    obtain ⟨t, op⟩ := e
    have hen : enabledAt2 s clk t = enabledAt (abs s) clk t := rfl
    have hst := step2_refines c h t op
    unfold exec exec2
    rw [hen]
    by_cases he : enabledAt (abs s) clk t = true
    · simp only [he, if_true]
      cases hs : step c (abs s) t op with
      | none =>
        simp only [hst.1 hs]
        exact ⟨(by first | (intro _; rfl) | simp), (by first | (intro s' outs hh; cases hh) | simp)⟩
      | some r =>
        obtain ⟨s1, o1⟩ := r
        obtain ⟨s21, h1, h2, h3⟩ := hst.2 s1 o1 hs
        simp only [h1]
        have ih' := ih s21 t h3
        rw [h2] at ih'
        cases hx : exec c s1 t es with
        | none =>
          simp only [ih'.1 hx]
          exact ⟨(by first | (intro _; rfl) | simp), (by first | (intro s' outs hh; cases hh) | simp)⟩
        | some r2 =>
          obtain ⟨sf, o2⟩ := r2
          obtain ⟨s2f, g1, g2, g3⟩ := ih'.2 sf o2 hx
          simp only [g1]
          refine ⟨(by intro hh; cases hh), ?_⟩
          intro s' outs hh
          simp only [Option.some.injEq, Prod.mk.injEq] at hh
          exact ⟨s2f, by rw [← hh.2], by rw [← hh.1]; exact g2, g3⟩
    · simp only [he]
      exact ⟨(by first | (intro _; rfl) | simp), (by first | (intro s' outs hh; cases hh) | simp)⟩

theorem inv2_init : Inv2 ({} : S2) := hd_nil 0
theorem abs_init : abs ({} : S2) = ({} : S) := rfl

/-- soundness direction used to restate the theorems of `Zc.Sched`: a history accepted by the two-container model is
accepted by the one-list model with the same sends -/
theorem exec2_sound (c : Cfg) {s : S2} (h : Inv2 s) {clk : Int} {evs : List (Int × Op)} {s' : S2} {outs : List Send}
    (hex : exec2 c s clk evs = .ok (s', outs)) : exec c (abs s) clk evs = some (abs s', outs) ∧ Inv2 s' := by
  have hr := exec2_refines c evs s clk h
  cases hx : exec c (abs s) clk evs with
  | none => rw [hr.1 hx] at hex; cases hex
  | some r =>
    obtain ⟨sa, oa⟩ := r
    obtain ⟨s2', g1, g2, g3⟩ := hr.2 sa oa hx
    rw [g1] at hex
    simp only [Except.ok.injEq, Prod.mk.injEq] at hex
    rw [← hex.1, ← hex.2, g2]
    exact ⟨rfl, g3⟩

/-- the two error outcomes that would reveal a broken dict/heap pairing never occur -/
theorem exec2_no_keyError (c : Cfg) {s : S2} (h : Inv2 s) (clk : Int) (evs : List (Int × Op)) :
    exec2 c s clk evs ≠ .error .keyError ∧ exec2 c s clk evs ≠ .error .dangling := by
  have hr := exec2_refines c evs s clk h
  cases hx : exec c (abs s) clk evs with
  | none => rw [hr.1 hx]; exact ⟨(by intro hh; cases hh), (by intro hh; cases hh)⟩
  | some r =>
    obtain ⟨sa, oa⟩ := r
    obtain ⟨s2', g1, _, _⟩ := hr.2 sa oa hx
    rw [g1]; exact ⟨(by intro hh; cases hh), (by intro hh; cases hh)⟩

end Zc.Sched2
