import Zc.Model.Sched
import Zc.GenFacts.Browser
/-! Helper lemmas and invariants for the `QueryScheduler` model (C10). -/
namespace Zc.Sched
open Zc Zc.GenFacts.Browser

/-! ### the model's functions in closed form (all `Gen` unfolding happens here, through `GenFacts`) -/

theorem firstQuery_when (a n : String) (ttl : Nat) (cr : Int) : (firstQuery a n ttl cr).when = cr + 750 * ttl := by
  simp only [firstQuery, expiration_time, refreshPercent_eq]; omega

theorem firstQuery_expire (a n : String) (ttl : Nat) (cr : Int) : (firstQuery a n ttl cr).expire = cr + 1000 * ttl := by
  simp only [firstQuery, expiration_time]; omega

@[simp] theorem firstQuery_alias (a n : String) (ttl : Nat) (cr : Int) : (firstQuery a n ttl cr).alias = a := rfl
@[simp] theorem firstQuery_name (a n : String) (ttl : Nat) (cr : Int) : (firstQuery a n ttl cr).name = n := rfl
@[simp] theorem firstQuery_ttl (a n : String) (ttl : Nat) (cr : Int) : (firstQuery a n ttl cr).ttl = ttl := rfl
@[simp] theorem firstQuery_live (a n : String) (ttl : Nat) (cr : Int) : (firstQuery a n ttl cr).cancelled = false := rfl

theorem rescueOf_eq (now : Int) (q : Q) :
    rescueOf now q = if q.expire ≤ now + 100 * q.ttl then none else some { q with when := now + 100 * q.ttl } := by
  have h : Gen.Browser.rescue_next now
      (Gen.Browser.rescue_ttl_millis q.ttl * Gen.rescueRecordRetryTtlPercentagePerMille / 1000) = now + 100 * q.ttl := by
    rw [rescue_next_eq, rescue_ttl_millis_eq, rescuePerMille_eq]; omega
  unfold rescueOf
  simp only [h]
  by_cases hc : q.expire ≤ now + 100 * q.ttl
  · simp [hc, (rescue_stop_iff _ _).2 hc]
  · have : Gen.Browser.rescue_stop (now + 100 * ↑q.ttl) q.expire = false := by
      cases hb : Gen.Browser.rescue_stop (now + 100 * ↑q.ttl) q.expire
      · rfl
      · exact absurd ((rescue_stop_iff _ _).1 hb) hc
    simp [hc, this]

theorem nextWhen_eq (c : Cfg) (heap : List Q) (now : Int) :
    nextWhen c heap now = match heap.head? with
      | some h => if now + c.minDelay < h.when then h.when else now + c.minDelay
      | none => now + c.minDelay := by
  unfold nextWhen
  simp only [next_time_eq]
  cases heap.head? with
  | none =>
    have : Gen.Browser.next_is_scheduled false 0 (now + ↑c.minDelay) = false := by
      cases hb : Gen.Browser.next_is_scheduled false 0 (now + ↑c.minDelay)
      · rfl
      · exact absurd ((next_is_scheduled_iff _ _ _).1 hb).1 (by simp)
    simp [this]
  | some h =>
    by_cases hc : now + c.minDelay < h.when
    · simp [hc, (next_is_scheduled_iff true _ _).2 ⟨rfl, hc⟩]
    · have : Gen.Browser.next_is_scheduled true h.when (now + ↑c.minDelay) = false := by
        cases hb : Gen.Browser.next_is_scheduled true h.when (now + ↑c.minDelay)
        · rfl
        · exact absurd ((next_is_scheduled_iff _ _ _).1 hb).2 hc
      simp [hc, this]

/-! ### the ordered heap -/

def Sorted (h : List Q) : Prop := h.Pairwise (fun a b => a.when ≤ b.when)

theorem mem_insert {q x : Q} {l : List Q} : x ∈ insert q l ↔ x = q ∨ x ∈ l := by
  induction l with
  | nil => simp [insert]
  | cons h t ih =>
    unfold insert
    split
    · simp
    · simp only [List.mem_cons, ih]
      constructor
      · rintro (h1 | h1 | h1)
        · exact Or.inr (Or.inl h1)
        · exact Or.inl h1
        · exact Or.inr (Or.inr h1)
      · rintro (h1 | h1 | h1)
        · exact Or.inr (Or.inl h1)
        · exact Or.inl h1
        · exact Or.inr (Or.inr h1)

theorem sorted_insert {q : Q} {l : List Q} (hs : Sorted l) : Sorted (insert q l) := by
  induction l with
  | nil => simp [insert, Sorted]
  | cons h t ih =>
    unfold insert
    simp only [Sorted, List.pairwise_cons] at hs ⊢
    split
    · rename_i hlt
      refine List.pairwise_cons.2 ⟨?_, List.pairwise_cons.2 hs⟩
      intro x hx
      rcases List.mem_cons.1 hx with rfl | hx
      · omega
      · have := hs.1 x hx; omega
    · rename_i hge
      refine List.pairwise_cons.2 ⟨?_, ih hs.2⟩
      intro x hx
      rcases mem_insert.1 hx with rfl | hx
      · omega
      · exact hs.1 x hx

theorem filter_insert_length (p : Q → Bool) (q : Q) (l : List Q) :
    ((insert q l).filter p).length = ((q :: l).filter p).length := by
  induction l with
  | nil => simp [insert]
  | cons h t ih =>
    unfold insert
    split
    · rfl
    · simp only [List.filter_cons] at ih ⊢
      by_cases hh : p h = true <;> by_cases hq : p q = true <;> simp [hh, hq] at ih ⊢ <;> omega

/-- a map that leaves `when` alone keeps the order -/
theorem sorted_map {f : Q → Q} (hf : ∀ q, (f q).when = q.when) {l : List Q} (hs : Sorted l) : Sorted (l.map f) := by
  unfold Sorted at *
  rw [List.pairwise_map]
  exact hs.imp (by intro a b h; rw [hf, hf]; exact h)

theorem sorted_cancelAlias (a : String) {l : List Q} (hs : Sorted l) : Sorted (cancelAlias a l) :=
  sorted_map (by intro q; by_cases h : (!q.cancelled && q.alias == a) = true <;> simp [h]) hs

theorem sorted_relife (a : String) (ttl : Nat) (e : Int) {l : List Q} (hs : Sorted l) : Sorted (relife a ttl e l) :=
  sorted_map (by intro q; by_cases h : (!q.cancelled && q.alias == a) = true <;> simp [h]) hs

/-! ### `popReady` -/

theorem popReady_suffix (e : Int) (l : List Q) : (popReady e l).2 <:+ l := by
  induction l with
  | nil => simp [popReady]
  | cons h t ih =>
    unfold popReady
    split
    · exact ih.trans (List.suffix_cons h t)
    · split
      · exact List.suffix_refl _
      · exact ih.trans (List.suffix_cons h t)

theorem sorted_popReady_rest (e : Int) {l : List Q} (hs : Sorted l) : Sorted (popReady e l).2 :=
  List.Pairwise.sublist (popReady_suffix e l).sublist hs

theorem popReady_rest_gt (e : Int) {l : List Q} (hs : Sorted l) : ∀ q ∈ (popReady e l).2, e < q.when := by
  induction l with
  | nil => simp [popReady]
  | cons h t ih =>
    simp only [Sorted, List.pairwise_cons] at hs
    unfold popReady
    split
    · exact ih hs.2
    · split
      · rename_i hnd
        have hh := (ready_not_due_iff _ _).1 hnd
        intro q hq
        rcases List.mem_cons.1 hq with rfl | hq
        · exact hh
        · have := hs.1 q hq; omega
      · exact ih hs.2

/-- what the loop pops: exactly the live entries that are due -/
theorem mem_popReady_popped (e : Int) {l : List Q} (hs : Sorted l) (q : Q) :
    q ∈ (popReady e l).1 ↔ (q ∈ l ∧ q.cancelled = false ∧ q.when ≤ e) := by
  induction l with
  | nil => simp [popReady]
  | cons h t ih =>
    simp only [Sorted, List.pairwise_cons] at hs
    unfold popReady
    split
    · rename_i hc
      rw [ih hs.2]
      constructor
      · rintro ⟨h1, h2, h3⟩; exact ⟨List.mem_cons_of_mem _ h1, h2, h3⟩
      · rintro ⟨h1, h2, h3⟩
        rcases List.mem_cons.1 h1 with rfl | h1
        · simp [hc] at h2
        · exact ⟨h1, h2, h3⟩
    · rename_i hc
      split
      · rename_i hnd
        have hh := (ready_not_due_iff _ _).1 hnd
        constructor
        · intro hq; simp at hq
        · rintro ⟨h1, _, h3⟩
          rcases List.mem_cons.1 h1 with rfl | h1
          · omega
          · have := hs.1 q h1; omega
      · rename_i hnd
        have hh : h.when ≤ e := by
          by_cases hlt : e < h.when
          · exact absurd ((ready_not_due_iff _ _).2 hlt) hnd
          · omega
        simp only [List.mem_cons, ih hs.2]
        constructor
        · rintro (rfl | ⟨h1, h2, h3⟩)
          · exact ⟨Or.inl rfl, by simpa using hc, hh⟩
          · exact ⟨Or.inr h1, h2, h3⟩
        · rintro ⟨h1 | h1, h2, h3⟩
          · exact Or.inl h1
          · exact Or.inr ⟨h1, h2, h3⟩

/-- live entries that are not yet due stay in the heap -/
theorem mem_popReady_rest (e : Int) {l : List Q} (q : Q) (hq : q ∈ l) (hl : q.cancelled = false) (hw : e < q.when)
    (hs : Sorted l) : q ∈ (popReady e l).2 := by
  induction l with
  | nil => simp at hq
  | cons h t ih =>
    simp only [Sorted, List.pairwise_cons] at hs
    unfold popReady
    split
    · rename_i hc
      rcases List.mem_cons.1 hq with rfl | hq
      · simp [hl] at hc
      · exact ih hq hs.2
    · split
      · exact hq
      · rename_i hnd
        rcases List.mem_cons.1 hq with rfl | hq
        · exact absurd ((ready_not_due_iff _ _).2 hw) hnd
        · exact ih hq hs.2

theorem popReady_rest_mem (e : Int) {l : List Q} {q : Q} (hq : q ∈ (popReady e l).2) : q ∈ l :=
  (popReady_suffix e l).subset hq

/-- live entries are partitioned (counting, for the one-entry-per-instance invariant) -/
theorem popReady_count (e : Int) (p : Q → Bool) (l : List Q) :
    (((popReady e l).1.filter (fun q => !q.cancelled && p q)).length
      + ((popReady e l).2.filter (fun q => !q.cancelled && p q)).length)
      = (l.filter (fun q => !q.cancelled && p q)).length := by
  induction l with
  | nil => simp [popReady]
  | cons h t ih =>
    unfold popReady
    split
    · rename_i hc
      simp [hc, ih]
    · split
      · simp
      · rename_i hc _
        simp only [List.filter_cons]
        have hc' : h.cancelled = false := by simpa using hc
        cases hp : p h <;> simp [hc'] <;> omega

/-! ### components untouched by (re)arming -/

/-- `_rearm_if_earlier` in closed form (the three tests are translated leaves) -/
theorem rearmIfEarlier_eq (s : S) (w : Int) :
    rearmIfEarlier s w =
      if !s.started || decide (s.startupSent < Gen.startupQueries) then s
      else if max w s.earliest < s.nextRunMs then armReady s (max w s.earliest) else s := by
  unfold rearmIfEarlier
  rw [rearm_guard_eq, rearm_when_eq, rearm_lt_eq]
  simp only [decide_eq_true_eq]

@[simp] theorem rearm_heap (s : S) (w : Int) : (rearmIfEarlier s w).heap = s.heap := by
  unfold rearmIfEarlier armReady; split <;> (try split) <;> rfl
@[simp] theorem rearm_sent (s : S) (w : Int) : (rearmIfEarlier s w).startupSent = s.startupSent := by
  unfold rearmIfEarlier armReady; split <;> (try split) <;> rfl
@[simp] theorem rearm_earliest (s : S) (w : Int) : (rearmIfEarlier s w).earliest = s.earliest := by
  unfold rearmIfEarlier armReady; split <;> (try split) <;> rfl
@[simp] theorem rearm_started (s : S) (w : Int) : (rearmIfEarlier s w).started = s.started := by
  rw [rearmIfEarlier_eq]
  unfold armReady
  split
  · rfl
  · rename_i h
    split
    · cases hs : s.started <;> simp_all
    · rfl

@[simp] theorem schedule_heap (s : S) (q : Q) : (schedule s q).heap = insert q s.heap := by simp [schedule]
@[simp] theorem schedule_sent (s : S) (q : Q) : (schedule s q).startupSent = s.startupSent := by simp [schedule]
@[simp] theorem schedule_earliest (s : S) (q : Q) : (schedule s q).earliest = s.earliest := by simp [schedule]
@[simp] theorem schedule_started (s : S) (q : Q) : (schedule s q).started = s.started := by simp [schedule]

def insertAll (h : List Q) (qs : List Q) : List Q := qs.foldl (fun h q => insert q h) h

theorem foldl_schedule_heap (qs : List Q) (s : S) : (qs.foldl schedule s).heap = insertAll s.heap qs := by
  induction qs generalizing s with
  | nil => rfl
  | cons q t ih => simp [List.foldl_cons, ih, insertAll]
theorem foldl_schedule_sent (qs : List Q) (s : S) : (qs.foldl schedule s).startupSent = s.startupSent := by
  induction qs generalizing s with
  | nil => rfl
  | cons q t ih => simp [List.foldl_cons, ih]
theorem foldl_schedule_started (qs : List Q) (s : S) : (qs.foldl schedule s).started = s.started := by
  induction qs generalizing s with
  | nil => rfl
  | cons q t ih => simp [List.foldl_cons, ih]

theorem mem_insertAll {x : Q} {h qs : List Q} : x ∈ insertAll h qs ↔ x ∈ qs ∨ x ∈ h := by
  induction qs generalizing h with
  | nil => simp [insertAll]
  | cons q t ih =>
    have : insertAll h (q :: t) = insertAll (insert q h) t := rfl
    rw [this, ih, mem_insert]
    simp only [List.mem_cons]
    constructor
    · rintro (h1 | h1 | h1)
      · exact Or.inl (Or.inr h1)
      · exact Or.inl (Or.inl h1)
      · exact Or.inr h1
    · rintro ((h1 | h1) | h1)
      · exact Or.inr (Or.inl h1)
      · exact Or.inl h1
      · exact Or.inr (Or.inr h1)

theorem sorted_insertAll {h : List Q} (qs : List Q) (hs : Sorted h) : Sorted (insertAll h qs) := by
  induction qs generalizing h with
  | nil => exact hs
  | cons q t ih => exact ih (sorted_insert hs)

theorem filter_insertAll_length (p : Q → Bool) (h qs : List Q) :
    ((insertAll h qs).filter p).length = (qs.filter p).length + (h.filter p).length := by
  induction qs generalizing h with
  | nil => simp [insertAll]
  | cons q t ih =>
    have : insertAll h (q :: t) = insertAll (insert q h) t := rfl
    rw [this, ih, filter_insert_length]
    simp only [List.filter_cons]
    split <;> simp <;> omega

/-! ### the running-phase invariant -/

/-- after the start-up queries: exactly one `ready` wake-up is armed, not before the rate limit allows,
and not later than the first moment at which a live scheduled query is due and allowed -/
structure Post (s : S) : Prop where
  sent : 4 ≤ s.startupSent
  started : s.started = true
  armed : s.armed = some (.ready, s.nextRunMs)
  early : s.earliest ≤ s.nextRunMs
  sorted : Sorted s.heap
  bound : ∀ q ∈ s.heap, q.cancelled = false → s.nextRunMs ≤ max q.when s.earliest

theorem post_schedule {s : S} (h : Post s) (q : Q) : Post (schedule s q) := by
  have hs := sorted_insert (q := q) h.sorted
  unfold schedule
  rw [rearmIfEarlier_eq]
  have h1 : (!s.started || decide (s.startupSent < Gen.startupQueries)) = false := by
    have := h.sent
    rw [startupQueries_eq]; simp [h.started]; omega
  simp only [h1]
  by_cases hw : max q.when s.earliest < s.nextRunMs
  · simp only [hw, if_true, Bool.false_eq_true, if_false]
    refine ⟨h.sent, rfl, rfl, ?_, hs, ?_⟩
    · show s.earliest ≤ max q.when s.earliest; omega
    · intro x hx hl
      show max q.when s.earliest ≤ max x.when s.earliest
      rcases mem_insert.1 hx with rfl | hx
      · omega
      · have := h.bound x hx hl; omega
  · simp only [hw, if_false, Bool.false_eq_true]
    refine ⟨h.sent, h.started, h.armed, h.early, hs, ?_⟩
    intro x hx hl
    show s.nextRunMs ≤ max x.when s.earliest
    rcases mem_insert.1 hx with rfl | hx
    · omega
    · exact h.bound x hx hl

/-- maps that may only cancel entries or change their lifetime keep the invariant -/
theorem post_map {s : S} (h : Post s) (f : Q → Q) (hw : ∀ q, (f q).when = q.when)
    (hc : ∀ q, (f q).cancelled = false → q.cancelled = false) : Post { s with heap := s.heap.map f } := by
  refine ⟨h.sent, h.started, h.armed, h.early, sorted_map hw h.sorted, ?_⟩
  intro x hx hl
  rcases List.mem_map.1 hx with ⟨y, hy, rfl⟩
  have := h.bound y hy (hc y hl)
  show s.nextRunMs ≤ max (f y).when s.earliest
  rw [hw]; exact this

theorem post_cancel {s : S} (h : Post s) (a : String) : Post { s with heap := cancelAlias a s.heap } :=
  post_map h _ (by intro q; by_cases hq : (!q.cancelled && q.alias == a) = true <;> simp [hq])
    (by intro q; by_cases hq : (!q.cancelled && q.alias == a) = true <;> simp [hq])

theorem post_relife {s : S} (h : Post s) (a : String) (ttl : Nat) (e : Int) : Post { s with heap := relife a ttl e s.heap } :=
  post_map h _ (by intro q; by_cases hq : (!q.cancelled && q.alias == a) = true <;> simp [hq])
    (by intro q; by_cases hq : (!q.cancelled && q.alias == a) = true <;> simp [hq])

theorem post_reschedule (c : Cfg) {s : S} (h : Post s) (a n : String) (ttl : Nat) (cr : Int) :
    Post (reschedule c s a n ttl cr) := by
  unfold reschedule
  split
  · split
    · exact post_relife h _ _ _
    · exact post_schedule (post_cancel h a) _
  · exact post_schedule h _

theorem fireReady_false (c : Cfg) (s : S) (now : Int) :
    fireReady c s now false =
      (armReady { ((popReady now s.heap).1.filterMap (rescueOf now)).foldl schedule
                    { s with heap := (popReady now s.heap).2, armed := none } with earliest := now + c.minDelay }
          (nextWhen c (insertAll (popReady now s.heap).2 ((popReady now s.heap).1.filterMap (rescueOf now))) now),
       if (popReady now s.heap).1.isEmpty then []
       else [{ t := now, first := false, qtype := sendQtype c false, types := (popReady now s.heap).1.map (·.name) }]) := by
  simp [fireReady, next_time_eq, foldl_schedule_heap]

theorem fireReady_heap (c : Cfg) (s : S) (now : Int) :
    (fireReady c s now false).1.heap = insertAll (popReady now s.heap).2 ((popReady now s.heap).1.filterMap (rescueOf now)) := by
  rw [fireReady_false]; simp [armReady, foldl_schedule_heap]

theorem fireReady_earliest (c : Cfg) (s : S) (now : Int) : (fireReady c s now false).1.earliest = now + c.minDelay := by
  rw [fireReady_false]; simp [armReady]

theorem post_fireReady (c : Cfg) {s : S} (h : Post s) (now : Int) : Post (fireReady c s now false).1 := by
  have hsorted : Sorted (insertAll (popReady now s.heap).2 ((popReady now s.heap).1.filterMap (rescueOf now))) :=
    sorted_insertAll _ (sorted_popReady_rest now h.sorted)
  rw [fireReady_false]
  generalize hH : insertAll (popReady now s.heap).2 ((popReady now s.heap).1.filterMap (rescueOf now)) = H at hsorted
  refine ⟨?_, rfl, rfl, ?_, ?_, ?_⟩
  · simp [armReady, foldl_schedule_sent, h.sent]
  · show now + ↑c.minDelay ≤ nextWhen c H now
    rw [nextWhen_eq]; cases H.head? <;> simp <;> (try split) <;> omega
  · show Sorted (List.foldl schedule _ _).heap
    rw [foldl_schedule_heap]; simpa [hH] using hsorted
  · intro x hx hl
    have hx' : x ∈ H := by
      have : x ∈ (List.foldl schedule { s with heap := (popReady now s.heap).2, armed := none }
          ((popReady now s.heap).1.filterMap (rescueOf now))).heap := hx
      rw [foldl_schedule_heap] at this; simpa [hH] using this
    show nextWhen c H now ≤ max x.when (now + ↑c.minDelay)
    rw [nextWhen_eq]
    cases H with
    | nil => simp at hx'
    | cons hd tl =>
      simp only [List.head?_cons]
      have hle : hd.when ≤ x.when := by
        rcases List.mem_cons.1 hx' with rfl | hx'
        · omega
        · exact (List.pairwise_cons.1 hsorted).1 x hx'
      split <;> omega

/-! ### traces -/

/-- blocks of an active browser on a live instance: record updates and timer passes -/
def Op.active : Op → Bool
  | .ptr .. => true
  | .cancel _ => true
  | .fire d => !d
  | _ => false

/-- the block is a record update for instance `a` -/
def Op.touches (a : String) : Op → Bool
  | .ptr a' .. => a' == a
  | .cancel a' => a' == a
  | _ => false

theorem exec_cons {c : Cfg} {s : S} {clk t : Int} {op : Op} {es : List (Int × Op)} {s' : S} {outs : List Send}
    (h : exec c s clk ((t, op) :: es) = some (s', outs)) :
    enabledAt s clk t = true ∧ ∃ s1 o1 o2, step c s t op = some (s1, o1) ∧ exec c s1 t es = some (s', o2) ∧ outs = o1 ++ o2 := by
  unfold exec at h
  split at h
  · rename_i hen
    split at h
    · rename_i s1 o1 hst
      split at h
      · rename_i s2 o2 hex
        simp only [Option.some.injEq, Prod.mk.injEq] at h
        exact ⟨hen, s1, o1, o2, hst, by rw [hex, h.1], h.2.symm⟩
      · simp at h
    · simp at h
  · simp at h

theorem enabled_post {s : S} (h : Post s) {clk t : Int} (he : enabledAt s clk t = true) : clk ≤ t ∧ t ≤ s.nextRunMs := by
  simpa [enabledAt, h.armed] using he

theorem step_fire_post (c : Cfg) {s : S} (h : Post s) (t : Int) :
    step c s t (.fire false) = if s.nextRunMs = t then some (fireReady c s t false) else none := by
  simp [step, h.armed]

theorem fireReady_outs (c : Cfg) (s : S) (now : Int) :
    (fireReady c s now false).2 = [] ∨
    (fireReady c s now false).2 = [{ t := now, first := false, qtype := sendQtype c false, types := (popReady now s.heap).1.map (·.name) }] := by
  rw [fireReady_false]
  by_cases h : (popReady now s.heap).1.isEmpty = true
  · left; simp [h]
  · right; simp [h]

theorem fireReady_outs_t (c : Cfg) (s : S) (now : Int) : ∀ o ∈ (fireReady c s now false).2, o.t = now := by
  intro o ho
  rcases fireReady_outs c s now with h | h <;> rw [h] at ho
  · simp at ho
  · simp at ho; rw [ho]

@[simp] theorem reschedule_earliest (c : Cfg) (s : S) (a n : String) (ttl : Nat) (cr : Int) :
    (reschedule c s a n ttl cr).earliest = s.earliest := by
  unfold reschedule; split <;> (try split) <;> simp

theorem post_step (c : Cfg) {s : S} (h : Post s) {t : Int} {op : Op} {s1 : S} {o1 : List Send}
    (ha : op.active = true) (hst : step c s t op = some (s1, o1)) : Post s1 := by
  cases op with
  | start d => simp [Op.active] at ha
  | stop => simp [Op.active] at ha
  | ptr a n ttl cr =>
    simp only [step, Option.some.injEq, Prod.mk.injEq] at hst
    rw [← hst.1]; exact post_reschedule c h a n ttl cr
  | cancel a =>
    simp only [step, Option.some.injEq, Prod.mk.injEq] at hst
    rw [← hst.1]; exact post_cancel h a
  | fire d =>
    have hd : d = false := by simpa [Op.active] using ha
    subst hd
    rw [step_fire_post c h] at hst
    split at hst
    · simp only [Option.some.injEq] at hst
      have := post_fireReady c h t
      rw [hst] at this; exact this
    · simp at hst

/-! ### rate limit -/

/-- consecutive elements at least `d` apart -/
def Spaced (d : Int) : List Int → Prop
  | a :: b :: r => a + d ≤ b ∧ Spaced d (b :: r)
  | _ => True

theorem spaced_cons {d a : Int} {l : List Int} (h1 : ∀ x ∈ l, a + d ≤ x) (h2 : Spaced d l) : Spaced d (a :: l) := by
  cases l with
  | nil => simp [Spaced]
  | cons b r => exact ⟨h1 b (by simp), h2⟩

theorem rate_core (c : Cfg) : ∀ (evs : List (Int × Op)) (s : S) (clk : Int) (s' : S) (outs : List Send),
    Post s → (∀ e ∈ evs, e.2.active = true) → exec c s clk evs = some (s', outs) →
    Post s' ∧ (∀ o ∈ outs, s.earliest ≤ o.t) ∧ Spaced c.minDelay (outs.map (·.t)) ∧ s.earliest ≤ s'.earliest := by
  intro evs
  induction evs with
  | nil =>
    intro s clk s' outs h _ hex
    simp only [exec, Option.some.injEq, Prod.mk.injEq] at hex
    rw [← hex.1, ← hex.2]
    exact ⟨h, by simp, by simp [Spaced], Int.le_refl _⟩
  | cons e es ih =>
    intro s clk s' outs h hact hex
    obtain ⟨t, op⟩ := e
    obtain ⟨hen, s1, o1, o2, hst, hex2, rfl⟩ := exec_cons hex
    have ha : op.active = true := hact (t, op) (by simp)
    have hp1 : Post s1 := post_step c h ha hst
    have ⟨hp', hge, hsp, hle⟩ := ih s1 t s' o2 hp1 (fun e he => hact e (List.mem_cons_of_mem _ he)) hex2
    have hen' := enabled_post h hen
    cases op with
    | start d => simp [Op.active] at ha
    | stop => simp [Op.active] at ha
    | ptr a n ttl cr =>
      simp only [step, Option.some.injEq, Prod.mk.injEq] at hst
      have he : s1.earliest = s.earliest := by rw [← hst.1]; simp
      rw [← hst.2]; simp only [List.nil_append]
      exact ⟨hp', fun o ho => he ▸ hge o ho, hsp, he ▸ hle⟩
    | cancel a =>
      simp only [step, Option.some.injEq, Prod.mk.injEq] at hst
      have he : s1.earliest = s.earliest := by rw [← hst.1]
      rw [← hst.2]; simp only [List.nil_append]
      exact ⟨hp', fun o ho => he ▸ hge o ho, hsp, he ▸ hle⟩
    | fire d =>
      have hd : d = false := by simpa [Op.active] using ha
      subst hd
      rw [step_fire_post c h] at hst
      split at hst
      · rename_i hdue
        simp only [Option.some.injEq] at hst
        have he : s1.earliest = t + c.minDelay := by
          have := fireReady_earliest c s t; rw [hst] at this; exact this
        have ho1 : ∀ o ∈ o1, o.t = t := by
          have := fireReady_outs_t c s t; rw [hst] at this; exact this
        have ho1' : o1 = [] ∨ ∃ o, o1 = [o] := by
          rcases fireReady_outs c s t with h0 | h0 <;> rw [hst] at h0
          · exact Or.inl h0
          · exact Or.inr ⟨_, h0⟩
        have hearly := h.early
        refine ⟨hp', ?_, ?_, by omega⟩
        · intro o ho
          rcases List.mem_append.1 ho with ho | ho
          · rw [ho1 o ho]; omega
          · have := hge o ho; omega
        · rcases ho1' with rfl | ⟨o, rfl⟩
          · simpa using hsp
          · simp only [List.singleton_append, List.map_cons]
            refine spaced_cons ?_ hsp
            intro x hx
            rcases List.mem_map.1 hx with ⟨o', ho', rfl⟩
            have := hge o' ho'
            rw [ho1 o (by simp)]; omega
      · simp at hst

/-! ### liveness of the refresh queries -/

theorem mem_map_self_of_fix {f : Q → Q} {q : Q} {l : List Q} (hq : q ∈ l) (hf : f q = q) : q ∈ l.map f :=
  List.mem_map.2 ⟨q, hq, hf⟩

theorem mem_cancelAlias_other {a : String} {q : Q} {l : List Q} (hq : q ∈ l) (hne : (q.alias == a) = false) :
    q ∈ cancelAlias a l := mem_map_self_of_fix hq (by simp [hne])

theorem mem_relife_other {a : String} {ttl : Nat} {e : Int} {q : Q} {l : List Q} (hq : q ∈ l) (hne : (q.alias == a) = false) :
    q ∈ relife a ttl e l := mem_map_self_of_fix hq (by simp [hne])

theorem mem_reschedule_other (c : Cfg) {s : S} {q : Q} (hq : q ∈ s.heap) {a n : String} {ttl : Nat} {cr : Int}
    (hne : (q.alias == a) = false) : q ∈ (reschedule c s a n ttl cr).heap := by
  unfold reschedule
  split
  · split
    · exact mem_relife_other hq hne
    · simp only [schedule_heap]; exact mem_insert.2 (Or.inr (mem_cancelAlias_other hq hne))
  · simp only [schedule_heap]; exact mem_insert.2 (Or.inr hq)

theorem beq_comm_false {a b : String} (h : (a == b) = false) : (b == a) = false := by
  simp only [beq_eq_false_iff_ne, ne_eq] at h ⊢
  exact fun hh => h hh.symm

/-- a due live entry is popped by the pass: its type is asked and its follow-up is scheduled -/
theorem fireReady_due (c : Cfg) {s : S} (hs : Sorted s.heap) {q : Q} (hq : q ∈ s.heap) (hl : q.cancelled = false)
    {now : Int} (hw : q.when ≤ now) :
    (∃ o ∈ (fireReady c s now false).2, o.t = now ∧ q.name ∈ o.types) ∧
    (q.expire ≤ now + 100 * q.ttl ∨ { q with when := now + 100 * q.ttl } ∈ (fireReady c s now false).1.heap) := by
  have hpop : q ∈ (popReady now s.heap).1 := (mem_popReady_popped now hs q).2 ⟨hq, hl, hw⟩
  constructor
  · rcases fireReady_outs c s now with h0 | h0
    · rw [fireReady_false] at h0
      have hne : (popReady now s.heap).1.isEmpty = false := by
        cases hp : (popReady now s.heap).1 with
        | nil => rw [hp] at hpop; simp at hpop
        | cons _ _ => rfl
      simp [hne] at h0
    · rw [h0]
      exact ⟨{ t := now, first := false, qtype := sendQtype c false, types := (popReady now s.heap).1.map (·.name) },
        by simp, rfl, List.mem_map.2 ⟨q, hpop, rfl⟩⟩
  · by_cases he : q.expire ≤ now + 100 * q.ttl
    · exact Or.inl he
    · right
      rw [fireReady_heap, mem_insertAll]
      left
      exact List.mem_filterMap.2 ⟨q, hpop, by rw [rescueOf_eq]; simp [he]⟩

theorem fireReady_keeps (c : Cfg) {s : S} (hs : Sorted s.heap) {q : Q} (hq : q ∈ s.heap) (hl : q.cancelled = false)
    {now : Int} (hw : now < q.when) : q ∈ (fireReady c s now false).1.heap := by
  rw [fireReady_heap, mem_insertAll]
  exact Or.inr (mem_popReady_rest now q hq hl hw hs)

/-- **refresh liveness, trace form.**  A live scheduled query `q` is served by a pass in `[q.when, B]`
(its type is asked), where `B` is the later of `q.when + minDelay` and the rate-limit horizon of the
state; otherwise the trace has not yet gone beyond `B` and `q` is still scheduled with a wake-up armed. -/
theorem query_due (c : Cfg) (q : Q) (B : Int) (hB : q.when + c.minDelay ≤ B) :
    ∀ (evs : List (Int × Op)) (s : S) (clk : Int) (s' : S) (outs : List Send),
    Post s → q ∈ s.heap → q.cancelled = false → s.earliest ≤ B →
    (∀ e ∈ evs, e.2.active = true ∧ e.2.touches q.alias = false) →
    exec c s clk evs = some (s', outs) →
    (∃ o ∈ outs, q.when ≤ o.t ∧ o.t ≤ B ∧ q.name ∈ o.types)
    ∨ (q ∈ s'.heap ∧ Post s' ∧ s'.earliest ≤ B ∧ ∀ e ∈ evs, e.1 ≤ B) := by
  intro evs
  induction evs with
  | nil =>
    intro s clk s' outs h hq _ he _ hex
    simp only [exec, Option.some.injEq, Prod.mk.injEq] at hex
    rw [← hex.1]
    exact Or.inr ⟨hq, h, he, by simp⟩
  | cons e es ih =>
    intro s clk s' outs h hq hl he hact hex
    obtain ⟨t, op⟩ := e
    obtain ⟨hen, s1, o1, o2, hst, hex2, rfl⟩ := exec_cons hex
    have ⟨ha, hto⟩ := hact (t, op) (by simp)
    have hp1 : Post s1 := post_step c h ha hst
    have hen' := enabled_post h hen
    have hbound := h.bound q hq hl
    have htB : t ≤ B := by omega
    have hrest : ∀ e ∈ es, e.2.active = true ∧ e.2.touches q.alias = false := fun e he => hact e (List.mem_cons_of_mem _ he)
    -- the case where `q` survives the block untouched
    have cont : q ∈ s1.heap → s1.earliest ≤ B →
        (∃ o ∈ o1 ++ o2, q.when ≤ o.t ∧ o.t ≤ B ∧ q.name ∈ o.types)
        ∨ (q ∈ s'.heap ∧ Post s' ∧ s'.earliest ≤ B ∧ ∀ e ∈ (t, op) :: es, e.1 ≤ B) := by
      intro hq1 he1
      rcases ih s1 t s' o2 hp1 hq1 hl he1 hrest hex2 with ⟨o, ho, h1, h2, h3⟩ | ⟨h1, h2, h3, h4⟩
      · exact Or.inl ⟨o, List.mem_append.2 (Or.inr ho), h1, h2, h3⟩
      · refine Or.inr ⟨h1, h2, h3, ?_⟩
        intro e he
        rcases List.mem_cons.1 he with rfl | he
        · exact htB
        · exact h4 e he
    cases op with
    | start d => simp [Op.active] at ha
    | stop => simp [Op.active] at ha
    | ptr a n ttl cr =>
      simp only [step, Option.some.injEq, Prod.mk.injEq] at hst
      have hne : (q.alias == a) = false := beq_comm_false (by simpa [Op.touches] using hto)
      refine cont ?_ ?_
      · rw [← hst.1]; exact mem_reschedule_other c hq hne
      · rw [← hst.1]; simpa using he
    | cancel a =>
      simp only [step, Option.some.injEq, Prod.mk.injEq] at hst
      have hne : (q.alias == a) = false := beq_comm_false (by simpa [Op.touches] using hto)
      refine cont ?_ ?_
      · rw [← hst.1]; exact mem_cancelAlias_other hq hne
      · rw [← hst.1]; exact he
    | fire d =>
      have hd : d = false := by simpa [Op.active] using ha
      subst hd
      rw [step_fire_post c h] at hst
      split at hst
      · rename_i hdue
        simp only [Option.some.injEq] at hst
        by_cases hw : q.when ≤ t
        · obtain ⟨⟨o, ho, hot, hon⟩, _⟩ := fireReady_due c h.sorted hq hl hw
          rw [hst] at ho
          exact Or.inl ⟨o, List.mem_append.2 (Or.inl ho), by omega, by omega, hon⟩
        · have hk : q ∈ s1.heap := by
            have := fireReady_keeps c h.sorted hq hl (now := t) (by omega)
            rw [hst] at this; exact this
          have hearl : s1.earliest = t + c.minDelay := by
            have := fireReady_earliest c s t
            rw [hst] at this; exact this
          exact cont hk (by omega)
      · simp at hst

/-! ### start-up phase -/

/-- offsets of the four start-up queries after the first one: +1 s, +4 s, +9 s -/
def startupOffset : Nat → Int
  | 0 => 0
  | 1 => 1000
  | 2 => 5000
  | _ => 14000

/-- the `k`-th start-up query (counting from 0) when the first one is sent at `t1` -/
def startupSend (c : Cfg) (t1 : Int) (k : Nat) : Send :=
  { t := t1 + startupOffset k, first := k == 0, qtype := sendQtype c (k == 0), types := c.types }

/-- start-up queries number `k`, `k+1`, …, `k+m-1` -/
def startupSends (c : Cfg) (t1 : Int) : Nat → Nat → List Send
  | _, 0 => []
  | k, m + 1 => startupSend c t1 k :: startupSends c t1 (k + 1) m

structure Pre (t1 : Int) (s : S) : Prop where
  sent : s.startupSent < 4
  started : s.started = true
  armed : s.armed = some (.startup, t1 + startupOffset s.startupSent)
  sorted : Sorted s.heap

theorem schedule_pre {s : S} (h : s.startupSent < 4) (q : Q) : schedule s q = { s with heap := insert q s.heap } := by
  unfold schedule
  rw [rearmIfEarlier_eq]
  have : (!s.started || decide (s.startupSent < Gen.startupQueries)) = true := by
    rw [startupQueries_eq]; simp [h]
  simp [this]

theorem pre_reschedule (c : Cfg) {t1 : Int} {s : S} (h : Pre t1 s) (a n : String) (ttl : Nat) (cr : Int) :
    Pre t1 (reschedule c s a n ttl cr) := by
  unfold reschedule
  split
  · split
    · exact ⟨h.sent, h.started, h.armed, sorted_relife _ _ _ h.sorted⟩
    · rw [schedule_pre (by exact h.sent)]
      exact ⟨h.sent, h.started, h.armed, sorted_insert (sorted_cancelAlias _ h.sorted)⟩
  · rw [schedule_pre h.sent]
    exact ⟨h.sent, h.started, h.armed, sorted_insert h.sorted⟩

theorem startup_first_eq (k : Nat) : Gen.Browser.startup_first (k : Int) = (k == 0) := by
  cases hb : Gen.Browser.startup_first (k : Int)
  · have : ¬ ((k : Int) = 0) := fun h => by rw [(startup_first_iff _).2 h] at hb; cases hb
    have : k ≠ 0 := by omega
    simp [this]
  · have := (startup_first_iff _).1 hb
    have : k = 0 := by omega
    simp [this]

theorem startup_done_eq (n : Nat) : Gen.Browser.startup_done (n : Int) = decide (4 ≤ n) := by
  cases hb : Gen.Browser.startup_done (n : Int)
  · have : ¬ (4 ≤ (n : Int)) := fun h => by rw [(startup_done_iff _).2 h] at hb; cases hb
    have : ¬ 4 ≤ n := by omega
    simp [this]
  · have := (startup_done_iff _).1 hb
    have : 4 ≤ n := by omega
    simp [this]

theorem fireStartup_false (c : Cfg) (s : S) (now : Int) :
    fireStartup c s now false =
      if 4 ≤ s.startupSent + 1 then
        (armReady { s with startupSent := s.startupSent + 1, earliest := now + c.minDelay } (now + c.minDelay),
         [{ t := now, first := s.startupSent == 0, qtype := sendQtype c (s.startupSent == 0), types := c.types }])
      else
        ({ s with startupSent := s.startupSent + 1,
                  armed := some (.startup, now + ((s.startupSent : Int) + 1) * ((s.startupSent : Int) + 1) * 1000) },
         [{ t := now, first := s.startupSent == 0, qtype := sendQtype c (s.startupSent == 0), types := c.types }]) := by
  have h1 := startup_done_eq (s.startupSent + 1)
  have h2 := startup_first_eq s.startupSent
  simp only [Int.natCast_add, Int.natCast_one] at h1
  simp only [fireStartup, Bool.false_eq_true, if_false, h2, next_time_eq, startup_backoff_eq, Int.natCast_add, Int.natCast_one, h1,
    decide_eq_true_eq]

theorem startupOffset_succ {k : Nat} (h : k + 1 < 4) :
    startupOffset k + ((k : Int) + 1) * ((k : Int) + 1) * 1000 = startupOffset (k + 1) := by
  have : k = 0 ∨ k = 1 ∨ k = 2 := by omega
  rcases this with rfl | rfl | rfl <;> simp [startupOffset]

theorem startupSends_snoc_step (c : Cfg) (t1 : Int) (k m : Nat) :
    startupSends c t1 k (m + 1) = startupSend c t1 k :: startupSends c t1 (k + 1) m := rfl

/-- **start-up schedule, trace form** -/
theorem startup_core (c : Cfg) (t1 : Int) : ∀ (evs : List (Int × Op)) (s : S) (clk : Int) (s' : S) (outs : List Send),
    Pre t1 s → (∀ e ∈ evs, e.2.active = true) → exec c s clk evs = some (s', outs) →
    (Pre t1 s' ∧ s.startupSent ≤ s'.startupSent ∧ outs = startupSends c t1 s.startupSent (s'.startupSent - s.startupSent))
    ∨ (Post s' ∧ ∃ post, outs = startupSends c t1 s.startupSent (4 - s.startupSent) ++ post
        ∧ (∀ o ∈ post, t1 + 14000 + c.minDelay ≤ o.t) ∧ Spaced c.minDelay (post.map (·.t))) := by
  intro evs
  induction evs with
  | nil =>
    intro s clk s' outs h _ hex
    simp only [exec, Option.some.injEq, Prod.mk.injEq] at hex
    rw [← hex.1, ← hex.2]
    exact Or.inl ⟨h, Nat.le_refl _, by simp [startupSends]⟩
  | cons e es ih =>
    intro s clk s' outs h hact hex
    obtain ⟨t, op⟩ := e
    obtain ⟨hen, s1, o1, o2, hst, hex2, rfl⟩ := exec_cons hex
    have ha : op.active = true := hact (t, op) (by simp)
    have hrest : ∀ e ∈ es, e.2.active = true := fun e he => hact e (List.mem_cons_of_mem _ he)
    -- blocks that leave the start-up state alone
    have same : Pre t1 s1 → s1.startupSent = s.startupSent → o1 = [] →
        (Pre t1 s' ∧ s.startupSent ≤ s'.startupSent ∧ o1 ++ o2 = startupSends c t1 s.startupSent (s'.startupSent - s.startupSent))
        ∨ (Post s' ∧ ∃ post, o1 ++ o2 = startupSends c t1 s.startupSent (4 - s.startupSent) ++ post
            ∧ (∀ o ∈ post, t1 + 14000 + c.minDelay ≤ o.t) ∧ Spaced c.minDelay (post.map (·.t))) := by
      intro hp1 hk ho1
      have := ih s1 t s' o2 hp1 hrest hex2
      rw [hk] at this
      rw [ho1]; simpa using this
    cases op with
    | start d => simp [Op.active] at ha
    | stop => simp [Op.active] at ha
    | ptr a n ttl cr =>
      simp only [step, Option.some.injEq, Prod.mk.injEq] at hst
      refine same ?_ ?_ hst.2.symm
      · rw [← hst.1]; exact pre_reschedule c h a n ttl cr
      · rw [← hst.1]; unfold reschedule; split <;> (try split) <;> simp
    | cancel a =>
      simp only [step, Option.some.injEq, Prod.mk.injEq] at hst
      refine same ?_ ?_ hst.2.symm
      · rw [← hst.1]; exact ⟨h.sent, h.started, h.armed, sorted_cancelAlias _ h.sorted⟩
      · rw [← hst.1]
    | fire d =>
      have hd : d = false := by simpa [Op.active] using ha
      subst hd
      have hk := h.sent
      simp only [step, h.armed] at hst
      split at hst
      · rename_i hdue
        simp only [Option.some.injEq] at hst
        rw [fireStartup_false] at hst
        have hsend : ({ t := t, first := s.startupSent == 0, qtype := sendQtype c (s.startupSent == 0), types := c.types } : Send)
            = startupSend c t1 s.startupSent := by simp [startupSend, hdue]
        rw [hsend] at hst
        by_cases h4 : 4 ≤ s.startupSent + 1
        · -- the fourth start-up query: the running phase begins
          simp only [h4, if_true, Prod.mk.injEq] at hst
          have hk3 : s.startupSent = 3 := by omega
          have hp1 : Post s1 := by
            rw [← hst.1]
            refine ⟨by simp [armReady]; omega, rfl, rfl, by simp [armReady], h.sorted, ?_⟩
            intro x _ _
            show t + ↑c.minDelay ≤ max x.when (t + ↑c.minDelay)
            omega
          have he1 : s1.earliest = t + c.minDelay := by rw [← hst.1]; rfl
          obtain ⟨hp', hge, hsp, _⟩ := rate_core c es s1 t s' o2 hp1 hrest hex2
          right
          refine ⟨hp', o2, ?_, ?_, hsp⟩
          · rw [← hst.2, hk3]; rfl
          · intro o ho
            have := hge o ho
            have : t = t1 + 14000 := by rw [← hdue, hk3]; rfl
            omega
        · simp only [h4, if_false, Prod.mk.injEq] at hst
          have hp1 : Pre t1 s1 := by
            rw [← hst.1]
            refine ⟨by simp; omega, h.started, ?_, h.sorted⟩
            simp only
            rw [← hdue, Int.add_assoc, startupOffset_succ (by omega)]
          have hk1 : s1.startupSent = s.startupSent + 1 := by rw [← hst.1]
          rcases ih s1 t s' o2 hp1 hrest hex2 with ⟨hp', hle, ho2⟩ | ⟨hp', post, ho2, hge, hsp⟩
          · left
            refine ⟨hp', by omega, ?_⟩
            rw [← hst.2, ho2, hk1]
            have : s'.startupSent - s.startupSent = (s'.startupSent - (s.startupSent + 1)) + 1 := by omega
            rw [this]; rfl
          · right
            refine ⟨hp', post, ?_, hge, hsp⟩
            rw [← hst.2, ho2, hk1]
            have : 4 - s.startupSent = (4 - (s.startupSent + 1)) + 1 := by omega
            rw [this]; rfl
      · simp at hst

/-! ### one live entry per instance (the derived `_next_scheduled_for_alias`) -/

/-- the entry predicate: live and belonging to instance `a` -/
def isEntry (a : String) (q : Q) : Bool := !q.cancelled && q.alias == a

def cnt (a : String) (h : List Q) : Nat := (h.filter (isEntry a)).length

/-- at most one live entry per instance -/
def Uniq (h : List Q) : Prop := ∀ a, cnt a h ≤ 1

theorem cnt_cons (a : String) (q : Q) (h : List Q) : cnt a (q :: h) = (if isEntry a q then 1 else 0) + cnt a h := by
  unfold cnt; rw [List.filter_cons]; split <;> simp <;> omega

theorem cnt_insert (a : String) (q : Q) (h : List Q) : cnt a (insert q h) = (if isEntry a q then 1 else 0) + cnt a h := by
  rw [← cnt_cons]; exact filter_insert_length _ _ _

theorem cnt_pos_of_mem {a : String} {y : Q} {h : List Q} (hy : y ∈ h) (hp : isEntry a y = true) : 0 < cnt a h :=
  List.length_pos_of_mem (List.mem_filter.2 ⟨hy, hp⟩)

theorem cnt_cancel_same (a : String) (h : List Q) : cnt a (cancelAlias a h) = 0 := by
  induction h with
  | nil => rfl
  | cons x t ih =>
    have : cancelAlias a (x :: t) = (if !x.cancelled && x.alias == a then { x with cancelled := true } else x) :: cancelAlias a t := rfl
    rw [this, cnt_cons, ih]
    by_cases hx : (!x.cancelled && x.alias == a) = true
    · simp [hx, isEntry]
    · simp [hx, isEntry]

theorem cnt_cancel_le (a b : String) (h : List Q) : cnt b (cancelAlias a h) ≤ cnt b h := by
  induction h with
  | nil => exact Nat.le_refl _
  | cons x t ih =>
    have : cancelAlias a (x :: t) = (if !x.cancelled && x.alias == a then { x with cancelled := true } else x) :: cancelAlias a t := rfl
    rw [this, cnt_cons, cnt_cons]
    by_cases hx : (!x.cancelled && x.alias == a) = true
    · simp only [hx, if_true]
      have : isEntry b { x with cancelled := true } = false := by simp [isEntry]
      rw [this]; simp; omega
    · simp only [hx]; simp only [Bool.false_eq_true, if_false]; omega

theorem cnt_relife (a b : String) (ttl : Nat) (e : Int) (h : List Q) : cnt b (relife a ttl e h) = cnt b h := by
  induction h with
  | nil => rfl
  | cons x t ih =>
    have : relife a ttl e (x :: t) = (if !x.cancelled && x.alias == a then { x with ttl := ttl, expire := e } else x) :: relife a ttl e t := rfl
    rw [this, cnt_cons, cnt_cons, ih]
    by_cases hx : (!x.cancelled && x.alias == a) = true
    · simp only [hx, if_true]
      have : isEntry b { x with ttl := ttl, expire := e } = isEntry b x := rfl
      rw [this]
    · simp only [hx]; simp only [Bool.false_eq_true, if_false]

theorem cnt_zero_of_current_none {a : String} {h : List Q} (hc : current a h = none) : cnt a h = 0 := by
  unfold current at hc
  rw [List.find?_eq_none] at hc
  unfold cnt
  rw [List.length_eq_zero_iff, List.filter_eq_nil_iff]
  intro x hx
  have := hc x hx
  simpa [isEntry] using this

theorem uniq_current {a : String} {h : List Q} {cur y : Q} (hu : cnt a h ≤ 1) (hc : current a h = some cur)
    (hy : y ∈ h) (hp : isEntry a y = true) : y = cur := by
  induction h with
  | nil => simp at hy
  | cons x t ih =>
    rw [cnt_cons] at hu
    unfold current at hc
    rw [List.find?_cons] at hc
    by_cases hx : isEntry a x = true
    · have hx' : (!x.cancelled && x.alias == a) = true := hx
      simp only [hx', Option.some.injEq] at hc
      simp only [hx, if_true] at hu
      rcases List.mem_cons.1 hy with rfl | hy
      · exact hc
      · have := cnt_pos_of_mem hy hp; omega
    · have hx' : (!x.cancelled && x.alias == a) = false := by simpa [isEntry] using hx
      simp only [hx'] at hc
      simp only [hx, if_false, Bool.false_eq_true] at hu
      rcases List.mem_cons.1 hy with rfl | hy
      · exact absurd hp hx
      · exact ih (by omega) hc hy

theorem isEntry_firstQuery (a b n : String) (ttl : Nat) (cr : Int) : isEntry b (firstQuery a n ttl cr) = (a == b) := by
  simp [isEntry, firstQuery]

theorem uniq_reschedule (c : Cfg) {s : S} (hu : Uniq s.heap) (a n : String) (ttl : Nat) (cr : Int) :
    Uniq (reschedule c s a n ttl cr).heap := by
  intro b
  unfold reschedule
  split
  · split
    · show cnt b (relife _ _ _ _) ≤ 1
      rw [cnt_relife]; exact hu b
    · simp only [schedule_heap]
      rw [cnt_insert, isEntry_firstQuery]
      by_cases hab : (a == b) = true
      · have : b = a := (beq_iff_eq.1 hab).symm
        subst this
        simp [cnt_cancel_same]
      · have := cnt_cancel_le a b s.heap
        have := hu b
        simp [hab]; omega
  · rename_i hnone
    simp only [schedule_heap]
    rw [cnt_insert, isEntry_firstQuery]
    by_cases hab : (a == b) = true
    · have : b = a := (beq_iff_eq.1 hab).symm
      subst this
      simp [cnt_zero_of_current_none hnone]
    · have := hu b
      simp [hab]; omega

theorem cnt_rescues_le (b : String) (now : Int) (l : List Q) : cnt b (l.filterMap (rescueOf now)) ≤ cnt b l := by
  induction l with
  | nil => exact Nat.le_refl _
  | cons x t ih =>
    rw [List.filterMap_cons, rescueOf_eq]
    split
    · rename_i hn
      split at hn
      · rw [cnt_cons]; omega
      · simp at hn
    · rename_i y hy
      split at hy
      · simp at hy
      · simp only [Option.some.injEq] at hy
        rw [cnt_cons, cnt_cons]
        have : isEntry b y = isEntry b x := by rw [← hy]; rfl
        rw [this]; omega

theorem uniq_fireReady (c : Cfg) {s : S} (hu : Uniq s.heap) (now : Int) : Uniq (fireReady c s now false).1.heap := by
  intro b
  rw [fireReady_heap]
  unfold cnt
  rw [filter_insertAll_length]
  have h1 := cnt_rescues_le b now (popReady now s.heap).1
  have h2 := popReady_count now (fun q => q.alias == b) s.heap
  have h3 := hu b
  unfold cnt at h1 h3
  have e : (fun q : Q => !q.cancelled && q.alias == b) = isEntry b := rfl
  rw [e] at h2
  omega

theorem fireStartup_heap (c : Cfg) (s : S) (now : Int) (d : Bool) : (fireStartup c s now d).1.heap = s.heap := by
  unfold fireStartup armReady
  cases d
  · simp only [Bool.false_eq_true, if_false]; split <;> rfl
  · rfl

theorem uniq_step (c : Cfg) {s : S} (hu : Uniq s.heap) {t : Int} {op : Op} {s1 : S} {o1 : List Send}
    (hst : step c s t op = some (s1, o1)) : Uniq s1.heap := by
  cases op with
  | start d =>
    simp only [step] at hst
    split at hst
    · simp only [Option.some.injEq, Prod.mk.injEq] at hst; rw [← hst.1]; exact hu
    · simp at hst
  | stop =>
    simp only [step, Option.some.injEq, Prod.mk.injEq] at hst
    rw [← hst.1]; intro a; simp [cnt]
  | ptr a n ttl cr =>
    simp only [step, Option.some.injEq, Prod.mk.injEq] at hst
    rw [← hst.1]; exact uniq_reschedule c hu a n ttl cr
  | cancel a =>
    simp only [step, Option.some.injEq, Prod.mk.injEq] at hst
    rw [← hst.1]; intro b
    exact Nat.le_trans (cnt_cancel_le a b s.heap) (hu b)
  | fire d =>
    simp only [step] at hst
    split at hst
    · split at hst
      · simp only [Option.some.injEq] at hst
        have := fireStartup_heap c s t d
        rw [hst] at this
        show Uniq s1.heap
        have e : s1.heap = s.heap := this
        rw [e]; exact hu
      · simp at hst
    · split at hst
      · simp only [Option.some.injEq] at hst
        cases d
        · have := uniq_fireReady c hu t
          rw [hst] at this; exact this
        · simp only [fireReady, if_true, Prod.mk.injEq] at hst
          rw [← hst.1]; exact hu
      · simp at hst
    · simp at hst

theorem uniq_exec (c : Cfg) : ∀ (evs : List (Int × Op)) (s : S) (clk : Int) (s' : S) (outs : List Send),
    Uniq s.heap → exec c s clk evs = some (s', outs) → Uniq s'.heap := by
  intro evs
  induction evs with
  | nil =>
    intro s clk s' outs hu hex
    simp only [exec, Option.some.injEq, Prod.mk.injEq] at hex
    rw [← hex.1]; exact hu
  | cons e es ih =>
    intro s clk s' outs hu hex
    obtain ⟨t, op⟩ := e
    obtain ⟨_, s1, o1, o2, hst, hex2, _⟩ := exec_cons hex
    exact ih s1 t s' o2 (uniq_step c hu hst) hex2

/-- what a pointer update leaves behind for its instance: exactly one live entry, carrying the new
record's lifetime, scheduled within `minDelay` of 75 % of the new TTL -/
theorem reschedule_entry (c : Cfg) {s : S} (hu : Uniq s.heap) (a n : String) (ttl : Nat) (cr : Int) :
    cnt a (reschedule c s a n ttl cr).heap = 1 ∧
    ∀ q ∈ (reschedule c s a n ttl cr).heap, isEntry a q = true →
      q.ttl = ttl ∧ q.expire = cr + 1000 * ttl ∧
      -(c.minDelay : Int) ≤ cr + 750 * ttl - q.when ∧ cr + 750 * ttl - q.when ≤ c.minDelay := by
  have hfe := firstQuery_expire a n ttl cr
  have hfw := firstQuery_when a n ttl cr
  unfold reschedule
  split
  · rename_i cur hcur
    split
    · rename_i hkeep
      have hk := (reschedule_keep_iff _ _ _).1 hkeep
      rw [hfw] at hk
      constructor
      · show cnt a (relife _ _ _ _) = 1
        rw [cnt_relife]
        have hmem := List.mem_of_find?_eq_some hcur
        have hp : isEntry a cur = true := by have := List.find?_some hcur; exact this
        have := cnt_pos_of_mem hmem hp
        have := hu a
        omega
      · intro q hq hp
        have hq' : q ∈ relife a ttl (firstQuery a n ttl cr).expire s.heap := hq
        rcases List.mem_map.1 hq' with ⟨y, hy, rfl⟩
        by_cases hy' : (!y.cancelled && y.alias == a) = true
        · simp only [hy', if_true] at hp ⊢
          have : y = cur := uniq_current (hu a) hcur hy hy'
          subst this
          exact ⟨trivial, hfe, hk.1, hk.2⟩
        · simp only [hy'] at hp
          simp only [Bool.false_eq_true, if_false] at hp
          exact absurd hp hy'
    · simp only [schedule_heap]
      constructor
      · rw [cnt_insert, isEntry_firstQuery, cnt_cancel_same]; simp
      · intro q hq hp
        rcases mem_insert.1 hq with rfl | hq
        · exact ⟨rfl, hfe, by omega, by omega⟩
        · have := cnt_pos_of_mem hq hp
          rw [cnt_cancel_same] at this; omega
  · rename_i hnone
    simp only [schedule_heap]
    constructor
    · rw [cnt_insert, isEntry_firstQuery, cnt_zero_of_current_none hnone]; simp
    · intro q hq hp
      rcases mem_insert.1 hq with rfl | hq
      · exact ⟨rfl, hfe, by omega, by omega⟩
      · have := cnt_pos_of_mem hq hp
        rw [cnt_zero_of_current_none hnone] at this; omega

/-- when the instance had no entry, the new one is scheduled at exactly 75 % -/
theorem reschedule_fresh (c : Cfg) {s : S} (a n : String) (ttl : Nat) (cr : Int) (hnone : current a s.heap = none) :
    firstQuery a n ttl cr ∈ (reschedule c s a n ttl cr).heap := by
  unfold reschedule
  rw [hnone]
  simp only [schedule_heap]
  exact mem_insert.2 (Or.inl rfl)

/-- queries are caused only by live entries that are due -/
theorem fireReady_types (c : Cfg) {s : S} (hs : Sorted s.heap) (now : Int) :
    ∀ o ∈ (fireReady c s now false).2, ∀ n ∈ o.types, ∃ q ∈ s.heap, q.cancelled = false ∧ q.when ≤ now ∧ q.name = n := by
  intro o ho n hn
  rcases fireReady_outs c s now with h0 | h0 <;> rw [h0] at ho
  · simp at ho
  · simp only [List.mem_singleton] at ho
    rw [ho] at hn
    rcases List.mem_map.1 hn with ⟨q, hq, rfl⟩
    have := (mem_popReady_popped now hs q).1 hq
    exact ⟨q, this.1, this.2.1, this.2.2, rfl⟩

/-! ### the start-up phase never outlives its schedule; the rate-limit horizon never lies beyond `now + minDelay` -/

theorem startupOffset_ge3 : ∀ {k : Nat}, 3 ≤ k → startupOffset k = 14000
  | 0, h | 1, h | 2, h => by omega
  | _ + 3, _ => rfl

theorem startupOffset_mono {k k' : Nat} (h : k ≤ k') : startupOffset k ≤ startupOffset k' := by
  have hk : k = 0 ∨ k = 1 ∨ k = 2 ∨ 3 ≤ k := by omega
  have hk' : k' = 0 ∨ k' = 1 ∨ k' = 2 ∨ 3 ≤ k' := by omega
  rcases hk with rfl | rfl | rfl | h3 <;> rcases hk' with rfl | rfl | rfl | h3' <;>
    first
    | omega
    | (rw [startupOffset_ge3 h3, startupOffset_ge3 h3']; omega)
    | (rw [startupOffset_ge3 h3']; simp [startupOffset]; done)
    | (simp [startupOffset]; done)

/-- while the start-up phase lasts, the trace has not gone beyond the due time of the next start-up query -/
theorem startup_progress (c : Cfg) (t1 : Int) : ∀ (evs : List (Int × Op)) (s : S) (clk : Int) (s' : S) (outs : List Send),
    Pre t1 s → (∀ e ∈ evs, e.2.active = true) → exec c s clk evs = some (s', outs) → s'.startupSent < 4 →
    ∀ e ∈ evs, e.1 ≤ t1 + startupOffset s'.startupSent := by
  intro evs
  induction evs with
  | nil => intro s clk s' outs _ _ _ _ e he; simp at he
  | cons e es ih =>
    intro s clk s' outs h hact hex hlt
    obtain ⟨t, op⟩ := e
    obtain ⟨hen, s1, o1, o2, hst, hex2, rfl⟩ := exec_cons hex
    have ha : op.active = true := hact (t, op) (by simp)
    have hrest : ∀ e ∈ es, e.2.active = true := fun e he => hact e (List.mem_cons_of_mem _ he)
    have htd : t ≤ t1 + startupOffset s.startupSent := by
      have := hen; simp [enabledAt, h.armed] at this; exact this.2
    -- the state after this block is still in start-up (else the counter could not end below 4)
    have key : Pre t1 s1 ∧ s.startupSent ≤ s1.startupSent := by
      cases op with
      | start d => simp [Op.active] at ha
      | stop => simp [Op.active] at ha
      | ptr a n ttl cr =>
        simp only [step, Option.some.injEq, Prod.mk.injEq] at hst
        rw [← hst.1]
        refine ⟨pre_reschedule c h a n ttl cr, ?_⟩
        have : (reschedule c s a n ttl cr).startupSent = s.startupSent := by
          unfold reschedule; split <;> (try split) <;> simp
        omega
      | cancel a =>
        simp only [step, Option.some.injEq, Prod.mk.injEq] at hst
        rw [← hst.1]
        exact ⟨⟨h.sent, h.started, h.armed, sorted_cancelAlias _ h.sorted⟩, Nat.le_refl _⟩
      | fire d =>
        have hd : d = false := by simpa [Op.active] using ha
        subst hd
        simp only [step, h.armed] at hst
        split at hst
        · rename_i hdue
          simp only [Option.some.injEq] at hst
          rw [fireStartup_false] at hst
          by_cases h4 : 4 ≤ s.startupSent + 1
          · exfalso
            simp only [h4, if_true, Prod.mk.injEq] at hst
            have hp1 : Post s1 := by
              rw [← hst.1]
              refine ⟨by simp [armReady]; omega, rfl, rfl, by simp [armReady], h.sorted, ?_⟩
              intro x _ _
              show t + ↑c.minDelay ≤ max x.when (t + ↑c.minDelay)
              omega
            have := (rate_core c es s1 t s' o2 hp1 hrest hex2).1.sent
            omega
          · simp only [h4, if_false, Prod.mk.injEq] at hst
            rw [← hst.1]
            refine ⟨⟨by simp; omega, h.started, ?_, h.sorted⟩, by simp⟩
            simp only
            rw [← hdue, Int.add_assoc, startupOffset_succ (by omega)]
        · simp at hst
    have hmono : s1.startupSent ≤ s'.startupSent := by
      rcases startup_core c t1 es s1 t s' o2 key.1 hrest hex2 with ⟨_, hle, _⟩ | ⟨hp, _⟩
      · exact hle
      · have := hp.sent; omega
    intro e he
    rcases List.mem_cons.1 he with rfl | he
    · have := startupOffset_mono (Nat.le_trans key.2 hmono)
      show t ≤ _
      omega
    · exact ih s1 t s' o2 key.1 hrest hex2 hlt e he

/-- the rate-limit horizon is never further away than one delay from the current time -/
theorem earliest_le_clock (c : Cfg) {s : S} (h : Post s) {clk t : Int} {op : Op} {s1 : S} {o1 : List Send}
    (hc : s.earliest ≤ clk + c.minDelay) (hen : enabledAt s clk t = true) (ha : op.active = true)
    (hst : step c s t op = some (s1, o1)) : s1.earliest ≤ t + c.minDelay := by
  have hen' := enabled_post h hen
  cases op with
  | start d => simp [Op.active] at ha
  | stop => simp [Op.active] at ha
  | ptr a n ttl cr =>
    simp only [step, Option.some.injEq, Prod.mk.injEq] at hst
    rw [← hst.1]; simp; omega
  | cancel a =>
    simp only [step, Option.some.injEq, Prod.mk.injEq] at hst
    rw [← hst.1]; show s.earliest ≤ _; omega
  | fire d =>
    have hd : d = false := by simpa [Op.active] using ha
    subst hd
    rw [step_fire_post c h] at hst
    split at hst
    · simp only [Option.some.injEq] at hst
      have := fireReady_earliest c s t
      rw [hst] at this
      have e : s1.earliest = t + c.minDelay := this
      omega
    · simp at hst

/-! ### the whole refresh chain of an untouched record (75 %, then +10 % steps until expiry) -/

/-- time of the last block of a history that starts at clock `clk` -/
def lastTime : Int → List (Int × Op) → Int
  | clk, [] => clk
  | _, (t, _) :: es => lastTime t es

theorem lastTime_append (clk : Int) (e1 : List (Int × Op)) (t : Int) (op : Op) (e2 : List (Int × Op)) :
    lastTime clk (e1 ++ (t, op) :: e2) = lastTime t e2 := by
  induction e1 generalizing clk with
  | nil => rfl
  | cons x xs ih => obtain ⟨t', op'⟩ := x; exact ih t'

/-- `Chain … H outs n w`: the query scheduled for `w` is served by a send in `[w, w + minDelay]` asking `name`, and
(unless the follow-up would not precede the expiry) so is the follow-up scheduled 10 % of the TTL after that send, and so on
for `n` links — or the history (last block at `H`) has not yet gone beyond the deadline of the link in question. -/
def Chain (c : Cfg) (name : String) (ttl : Nat) (expire : Int) (H : Int) (outs : List Send) : Nat → Int → Prop
  | 0, _ => True
  | n + 1, w =>
    H ≤ w + c.minDelay ∨
    ∃ o ∈ outs, w ≤ o.t ∧ o.t ≤ w + c.minDelay ∧ name ∈ o.types ∧
      (expire ≤ o.t + 100 * ttl ∨ Chain c name ttl expire H outs n (o.t + 100 * ttl))

theorem chain_mono_outs {c : Cfg} {name : String} {ttl : Nat} {expire H : Int} {o1 o2 : List Send} :
    ∀ {n : Nat} {w : Int}, Chain c name ttl expire H o2 n w → Chain c name ttl expire H (o1 ++ o2) n w
  | 0, _, _ => trivial
  | n + 1, w, h => by
    rcases h with h | ⟨o, ho, h1, h2, h3, h4⟩
    · exact Or.inl h
    · refine Or.inr ⟨o, List.mem_append.2 (Or.inr ho), h1, h2, h3, ?_⟩
      rcases h4 with h4 | h4
      · exact Or.inl h4
      · exact Or.inr (chain_mono_outs h4)

theorem chain_core (c : Cfg) (name : String) (ttl : Nat) (expire : Int) :
    ∀ (evs : List (Int × Op)) (n : Nat) (s : S) (clk : Int) (s' : S) (outs : List Send) (q : Q),
    Post s → q ∈ s.heap → q.cancelled = false → q.name = name → q.ttl = ttl → q.expire = expire →
    s.earliest ≤ q.when + c.minDelay → clk ≤ q.when + c.minDelay →
    (∀ e ∈ evs, e.2.active = true ∧ e.2.touches q.alias = false) →
    exec c s clk evs = some (s', outs) →
    Chain c name ttl expire (lastTime clk evs) outs n q.when := by
  intro evs
  induction evs with
  | nil =>
    intro n s clk s' outs q _ _ _ _ _ _ _ hclk _ _
    cases n with
    | zero => trivial
    | succ n => exact Or.inl hclk
  | cons e es ih =>
    intro n s clk s' outs q h hq hl hname httl hexp he hclk hact hex
    cases n with
    | zero => trivial
    | succ n =>
    obtain ⟨t, op⟩ := e
    obtain ⟨hen, s1, o1, o2, hst, hex2, rfl⟩ := exec_cons hex
    have ⟨ha, hto⟩ := hact (t, op) (by simp)
    have hp1 : Post s1 := post_step c h ha hst
    have hen' := enabled_post h hen
    have hbound := h.bound q hq hl
    have htB : t ≤ q.when + c.minDelay := by omega
    have hrest : ∀ e ∈ es, e.2.active = true ∧ e.2.touches q.alias = false := fun e he => hact e (List.mem_cons_of_mem _ he)
    show Chain c name ttl expire (lastTime t es) (o1 ++ o2) (n + 1) q.when
    have cont : q ∈ s1.heap → s1.earliest ≤ q.when + c.minDelay →
        Chain c name ttl expire (lastTime t es) (o1 ++ o2) (n + 1) q.when := fun hq1 he1 =>
      chain_mono_outs (ih (n + 1) s1 t s' o2 q hp1 hq1 hl hname httl hexp he1 htB hrest hex2)
    cases op with
    | start d => simp [Op.active] at ha
    | stop => simp [Op.active] at ha
    | ptr a n' ttl' cr =>
      simp only [step, Option.some.injEq, Prod.mk.injEq] at hst
      have hne : (q.alias == a) = false := beq_comm_false (by simpa [Op.touches] using hto)
      refine cont ?_ ?_
      · rw [← hst.1]; exact mem_reschedule_other c hq hne
      · rw [← hst.1]; simpa using he
    | cancel a =>
      simp only [step, Option.some.injEq, Prod.mk.injEq] at hst
      have hne : (q.alias == a) = false := beq_comm_false (by simpa [Op.touches] using hto)
      refine cont ?_ ?_
      · rw [← hst.1]; exact mem_cancelAlias_other hq hne
      · rw [← hst.1]; exact he
    | fire d =>
      have hd : d = false := by simpa [Op.active] using ha
      subst hd
      rw [step_fire_post c h] at hst
      split at hst
      · simp only [Option.some.injEq] at hst
        have hearl : s1.earliest = t + c.minDelay := by
          have := fireReady_earliest c s t
          rw [hst] at this; exact this
        by_cases hw : q.when ≤ t
        · obtain ⟨⟨o, ho, hot, hon⟩, hresc⟩ := fireReady_due c h.sorted hq hl hw
          rw [hst] at ho hresc
          refine Or.inr ⟨o, List.mem_append.2 (Or.inl ho), by omega, by omega, hname ▸ hon, ?_⟩
          rw [hot]
          rcases hresc with hstop | hmem
          · exact Or.inl (by rw [← hexp, ← httl]; exact hstop)
          · right
            have hq' : ({ q with when := t + 100 * q.ttl } : Q) ∈ s1.heap := hmem
            have := ih n s1 t s' o2 { q with when := t + 100 * q.ttl } hp1 hq' hl hname httl hexp
              (by show s1.earliest ≤ t + 100 * ↑q.ttl + ↑c.minDelay; omega)
              (by show t ≤ t + 100 * ↑q.ttl + ↑c.minDelay; omega) hrest hex2
            have hwhen : ({ q with when := t + 100 * q.ttl } : Q).when = t + 100 * ttl := by rw [← httl]
            rw [hwhen] at this
            exact chain_mono_outs this
        · have hk : q ∈ s1.heap := by
            have := fireReady_keeps c h.sorted hq hl (now := t) (by omega)
            rw [hst] at this; exact this
          exact cont hk (by omega)
      · simp at hst

/-! ### reaching the running phase; splitting a history -/

theorem exec_cons_intro {c : Cfg} {s s1 s' : S} {clk t : Int} {op : Op} {es : List (Int × Op)} {o1 o2 : List Send}
    (hen : enabledAt s clk t = true) (hst : step c s t op = some (s1, o1)) (hex : exec c s1 t es = some (s', o2)) :
    exec c s clk ((t, op) :: es) = some (s', o1 ++ o2) := by
  simp [exec, hen, hst, hex]

theorem exec_append (c : Cfg) : ∀ (e1 : List (Int × Op)) (s : S) (clk : Int) (e2 : List (Int × Op)) (s' : S) (outs : List Send),
    exec c s clk (e1 ++ e2) = some (s', outs) →
    ∃ s1 o1 o2, exec c s clk e1 = some (s1, o1) ∧ exec c s1 (lastTime clk e1) e2 = some (s', o2) ∧ outs = o1 ++ o2 := by
  intro e1
  induction e1 with
  | nil => intro s clk e2 s' outs h; exact ⟨s, [], outs, rfl, h, rfl⟩
  | cons e es ih =>
    intro s clk e2 s' outs h
    obtain ⟨t, op⟩ := e
    obtain ⟨hen, s1, o1, o2, hst, hex2, rfl⟩ := exec_cons h
    obtain ⟨s2, p1, p2, h1, h2, rfl⟩ := ih s1 t e2 s' o2 hex2
    exact ⟨s2, o1 ++ p1, p2, exec_cons_intro hen hst h1, h2, by simp⟩

/-- one active block from a start-up state: still start-up, or the running phase begins with the rate-limit horizon one
delay after now -/
theorem pre_step (c : Cfg) (t1 : Int) {s : S} (h : Pre t1 s) {t : Int} {op : Op} {s1 : S} {o1 : List Send}
    (ha : op.active = true) (hst : step c s t op = some (s1, o1)) :
    Pre t1 s1 ∨ (Post s1 ∧ s1.earliest ≤ t + c.minDelay) := by
  cases op with
  | start d => simp [Op.active] at ha
  | stop => simp [Op.active] at ha
  | ptr a n ttl cr =>
    simp only [step, Option.some.injEq, Prod.mk.injEq] at hst
    rw [← hst.1]; exact Or.inl (pre_reschedule c h a n ttl cr)
  | cancel a =>
    simp only [step, Option.some.injEq, Prod.mk.injEq] at hst
    rw [← hst.1]; exact Or.inl ⟨h.sent, h.started, h.armed, sorted_cancelAlias _ h.sorted⟩
  | fire d =>
    have hd : d = false := by simpa [Op.active] using ha
    subst hd
    have hk := h.sent
    simp only [step, h.armed] at hst
    split at hst
    · rename_i hdue
      simp only [Option.some.injEq] at hst
      rw [fireStartup_false] at hst
      by_cases h4 : 4 ≤ s.startupSent + 1
      · right
        simp only [h4, if_true, Prod.mk.injEq] at hst
        rw [← hst.1]
        refine ⟨⟨by simp [armReady]; omega, rfl, rfl, by simp [armReady], h.sorted, ?_⟩, by simp [armReady]⟩
        intro x _ _
        show t + ↑c.minDelay ≤ max x.when (t + ↑c.minDelay)
        omega
      · left
        simp only [h4, if_false, Prod.mk.injEq] at hst
        rw [← hst.1]
        refine ⟨by simp; omega, h.started, ?_, h.sorted⟩
        simp only
        rw [← hdue, Int.add_assoc, startupOffset_succ (by omega)]
    · simp at hst

/-- after any active history from a start-up state: still start-up, or running with the horizon at most one delay
after the last block -/
theorem inv_exec (c : Cfg) (t1 : Int) : ∀ (evs : List (Int × Op)) (s : S) (clk : Int) (s' : S) (outs : List Send),
    (Pre t1 s ∨ (Post s ∧ s.earliest ≤ clk + c.minDelay)) → (∀ e ∈ evs, e.2.active = true) →
    exec c s clk evs = some (s', outs) →
    Pre t1 s' ∨ (Post s' ∧ s'.earliest ≤ lastTime clk evs + c.minDelay) := by
  intro evs
  induction evs with
  | nil =>
    intro s clk s' outs h _ hex
    simp only [exec, Option.some.injEq, Prod.mk.injEq] at hex
    rw [← hex.1]; exact h
  | cons e es ih =>
    intro s clk s' outs h hact hex
    obtain ⟨t, op⟩ := e
    obtain ⟨hen, s1, o1, o2, hst, hex2, rfl⟩ := exec_cons hex
    have ha : op.active = true := hact (t, op) (by simp)
    have hrest : ∀ e ∈ es, e.2.active = true := fun e he => hact e (List.mem_cons_of_mem _ he)
    refine ih s1 t s' o2 ?_ hrest hex2
    rcases h with h | ⟨h, hc⟩
    · exact pre_step c t1 h ha hst
    · exact Or.inr ⟨post_step c h ha hst, earliest_le_clock c h hc hen ha hst⟩

/-! ### an instance never mentioned has no entry -/

theorem current_none_of_cnt_zero {a : String} {h : List Q} (hc : cnt a h = 0) : current a h = none := by
  unfold current
  rw [List.find?_eq_none]
  intro x hx hp
  have := cnt_pos_of_mem hx (show isEntry a x = true from hp)
  omega

theorem cnt_fireReady_le (c : Cfg) (s : S) (now : Int) (b : String) : cnt b (fireReady c s now false).1.heap ≤ cnt b s.heap := by
  rw [fireReady_heap]
  unfold cnt
  rw [filter_insertAll_length]
  have h1 := cnt_rescues_le b now (popReady now s.heap).1
  have h2 := popReady_count now (fun q => q.alias == b) s.heap
  unfold cnt at h1
  have e : (fun q : Q => !q.cancelled && q.alias == b) = isEntry b := rfl
  rw [e] at h2
  omega

theorem noentry_step (c : Cfg) {s : S} {a : String} (h0 : cnt a s.heap = 0) {t : Int} {op : Op} {s1 : S} {o1 : List Send}
    (ha : op.active = true) (hto : op.touches a = false) (hst : step c s t op = some (s1, o1)) : cnt a s1.heap = 0 := by
  cases op with
  | start d => simp [Op.active] at ha
  | stop => simp [Op.active] at ha
  | ptr a' n ttl cr =>
    simp only [step, Option.some.injEq, Prod.mk.injEq] at hst
    have hne : (a' == a) = false := by simpa [Op.touches] using hto
    rw [← hst.1]
    unfold reschedule
    split
    · split
      · show cnt a (relife _ _ _ _) = 0
        rw [cnt_relife]; exact h0
      · simp only [schedule_heap]
        rw [cnt_insert, isEntry_firstQuery, hne]
        have := cnt_cancel_le a' a s.heap
        simp; omega
    · simp only [schedule_heap]
      rw [cnt_insert, isEntry_firstQuery, hne]
      simp; exact h0
  | cancel a' =>
    simp only [step, Option.some.injEq, Prod.mk.injEq] at hst
    rw [← hst.1]
    have := cnt_cancel_le a' a s.heap
    show cnt a (cancelAlias a' s.heap) = 0
    omega
  | fire d =>
    have hd : d = false := by simpa [Op.active] using ha
    subst hd
    simp only [step] at hst
    split at hst
    · split at hst
      · simp only [Option.some.injEq] at hst
        have := fireStartup_heap c s t false
        rw [hst] at this
        have e : s1.heap = s.heap := this
        rw [e]; exact h0
      · simp at hst
    · split at hst
      · simp only [Option.some.injEq] at hst
        have := cnt_fireReady_le c s t a
        rw [hst] at this
        have e : cnt a s1.heap ≤ cnt a s.heap := this
        omega
      · simp at hst
    · simp at hst

theorem noentry_exec (c : Cfg) (a : String) : ∀ (evs : List (Int × Op)) (s : S) (clk : Int) (s' : S) (outs : List Send),
    cnt a s.heap = 0 → (∀ e ∈ evs, e.2.active = true ∧ e.2.touches a = false) → exec c s clk evs = some (s', outs) →
    cnt a s'.heap = 0 := by
  intro evs
  induction evs with
  | nil =>
    intro s clk s' outs h0 _ hex
    simp only [exec, Option.some.injEq, Prod.mk.injEq] at hex
    rw [← hex.1]; exact h0
  | cons e es ih =>
    intro s clk s' outs h0 hact hex
    obtain ⟨t, op⟩ := e
    obtain ⟨_, s1, o1, o2, hst, hex2, _⟩ := exec_cons hex
    have ⟨ha, hto⟩ := hact (t, op) (by simp)
    exact ih s1 t s' o2 (noentry_step c h0 ha hto hst) (fun e he => hact e (List.mem_cons_of_mem _ he)) hex2

/-! ### before `start`: the real browser installs its listener first, so pointer updates reach an unstarted scheduler -/

/-- the scheduler before `start` -/
structure Idle (s : S) : Prop where
  sent : s.startupSent = 0
  started : s.started = false
  armed : s.armed = none
  sorted : Sorted s.heap

/-- record updates: the only blocks that can reach a scheduler that has not been started -/
def Op.idle : Op → Bool
  | .ptr .. => true
  | .cancel _ => true
  | _ => false

theorem Op.active_of_idle {op : Op} (h : op.idle = true) : op.active = true := by
  cases op <;> simp_all [Op.idle, Op.active]

theorem idle_init : Idle ({} : S) := ⟨rfl, rfl, rfl, by simp [Sorted]⟩

theorem schedule_idle {s : S} (h : s.started = false) (q : Q) : schedule s q = { s with heap := insert q s.heap } := by
  unfold schedule
  rw [rearmIfEarlier_eq]
  simp [h]

theorem idle_step (c : Cfg) {s : S} (h : Idle s) {t : Int} {op : Op} {s1 : S} {o1 : List Send}
    (hop : op.idle = true) (hst : step c s t op = some (s1, o1)) : Idle s1 ∧ o1 = [] := by
  cases op with
  | start d => simp [Op.idle] at hop
  | stop => simp [Op.idle] at hop
  | fire d => simp [Op.idle] at hop
  | ptr a n ttl cr =>
    simp only [step, Option.some.injEq, Prod.mk.injEq] at hst
    refine ⟨?_, hst.2.symm⟩
    rw [← hst.1]
    unfold reschedule
    split
    · split
      · exact ⟨h.sent, h.started, h.armed, sorted_relife _ _ _ h.sorted⟩
      · rw [schedule_idle (by exact h.started)]
        exact ⟨h.sent, h.started, h.armed, sorted_insert (sorted_cancelAlias _ h.sorted)⟩
    · rw [schedule_idle h.started]
      exact ⟨h.sent, h.started, h.armed, sorted_insert h.sorted⟩
  | cancel a =>
    simp only [step, Option.some.injEq, Prod.mk.injEq] at hst
    refine ⟨?_, hst.2.symm⟩
    rw [← hst.1]
    exact ⟨h.sent, h.started, h.armed, sorted_cancelAlias _ h.sorted⟩

/-- a history of record updates on an unstarted scheduler: still unstarted, nothing sent, an untouched entry stays -/
theorem idle_exec (c : Cfg) : ∀ (evs : List (Int × Op)) (s : S) (clk : Int) (s' : S) (outs : List Send),
    Idle s → (∀ e ∈ evs, e.2.idle = true) → exec c s clk evs = some (s', outs) →
    Idle s' ∧ outs = [] ∧ ∀ q ∈ s.heap, (∀ e ∈ evs, e.2.touches q.alias = false) → q ∈ s'.heap := by
  intro evs
  induction evs with
  | nil =>
    intro s clk s' outs h _ hex
    simp only [exec, Option.some.injEq, Prod.mk.injEq] at hex
    rw [← hex.1, ← hex.2]; exact ⟨h, rfl, fun q hq _ => hq⟩
  | cons e es ih =>
    intro s clk s' outs h hop hex
    obtain ⟨t, op⟩ := e
    obtain ⟨_, s1, o1, o2, hst, hex2, rfl⟩ := exec_cons hex
    have hi := hop (t, op) (by simp)
    have ⟨h1, ho1⟩ := idle_step c h hi hst
    have ⟨h2, ho2, hk⟩ := ih s1 t s' o2 h1 (fun e he => hop e (List.mem_cons_of_mem _ he)) hex2
    refine ⟨h2, by rw [ho1, ho2]; rfl, ?_⟩
    intro q hq hun
    refine hk q ?_ (fun e he => hun e (List.mem_cons_of_mem _ he))
    have hto := hun (t, op) (by simp)
    cases op with
    | start d => simp [Op.idle] at hi
    | stop => simp [Op.idle] at hi
    | fire d => simp [Op.idle] at hi
    | ptr a n ttl cr =>
      simp only [step, Option.some.injEq, Prod.mk.injEq] at hst
      rw [← hst.1]
      exact mem_reschedule_other c hq (beq_comm_false (by simpa [Op.touches] using hto))
    | cancel a =>
      simp only [step, Option.some.injEq, Prod.mk.injEq] at hst
      rw [← hst.1]
      exact mem_cancelAlias_other hq (beq_comm_false (by simpa [Op.touches] using hto))

/-- `start` on an unstarted scheduler: the draw is in the interval, the start-up phase begins, the heap is kept -/
theorem start_from_idle (c : Cfg) {s : S} (h : Idle s) {t : Int} {d : Nat} {s1 : S} {o1 : List Send}
    (hst : step c s t (.start d) = some (s1, o1)) :
    (c.lo ≤ d ∧ d ≤ c.hi) ∧ Pre (t + d) s1 ∧ s1.startupSent = 0 ∧ s1.heap = s.heap ∧ o1 = [] := by
  simp only [step] at hst
  split at hst
  · rename_i hd
    simp only [Option.some.injEq, Prod.mk.injEq] at hst
    refine ⟨hd, ?_, ?_, ?_, hst.2.symm⟩
    · rw [← hst.1]
      exact ⟨by simp [h.sent], rfl, by simp [h.sent, startupOffset], h.sorted⟩
    · rw [← hst.1]; exact h.sent
    · rw [← hst.1]
  · simp at hst

/-! ### records learned before or during the start-up phase -/

theorem startupOffset_le14 (k : Nat) : startupOffset k ≤ 14000 := by
  have : k = 0 ∨ k = 1 ∨ k = 2 ∨ 3 ≤ k := by omega
  rcases this with rfl | rfl | rfl | h3
  · simp [startupOffset]
  · simp [startupOffset]
  · simp [startupOffset]
  · rw [startupOffset_ge3 h3]; omega


theorem pre_step_keeps (c : Cfg) {t1 : Int} {s : S} (h : Pre t1 s) {t : Int} {op : Op} {s1 : S} {o1 : List Send} {q : Q}
    (ha : op.active = true) (hto : op.touches q.alias = false) (hst : step c s t op = some (s1, o1)) (hq : q ∈ s.heap) :
    q ∈ s1.heap := by
  cases op with
  | start d => simp [Op.active] at ha
  | stop => simp [Op.active] at ha
  | ptr a n ttl cr =>
    simp only [step, Option.some.injEq, Prod.mk.injEq] at hst
    rw [← hst.1]
    exact mem_reschedule_other c hq (beq_comm_false (by simpa [Op.touches] using hto))
  | cancel a =>
    simp only [step, Option.some.injEq, Prod.mk.injEq] at hst
    rw [← hst.1]
    exact mem_cancelAlias_other hq (beq_comm_false (by simpa [Op.touches] using hto))
  | fire d =>
    simp only [step, h.armed] at hst
    split at hst
    · simp only [Option.some.injEq] at hst
      have := fireStartup_heap c s t d
      rw [hst] at this
      have e : s1.heap = s.heap := this
      rw [e]; exact hq
    · simp at hst

/-- the refresh chain of an entry that was scheduled before the running phase began: the start-up passes leave it alone, the
first running-phase wake-up is armed one delay after the fourth start-up query, and from there `chain_core` applies —
provided the entry's time is not before the end of the start-up phase (`t1 + 14000 ≤ q.when`) -/
theorem chain_pre (c : Cfg) (name : String) (ttl : Nat) (expire : Int) (t1 : Int) :
    ∀ (evs : List (Int × Op)) (n : Nat) (s : S) (clk : Int) (s' : S) (outs : List Send) (q : Q),
    Pre t1 s → q ∈ s.heap → q.cancelled = false → q.name = name → q.ttl = ttl → q.expire = expire →
    t1 + 14000 ≤ q.when → clk ≤ q.when + c.minDelay →
    (∀ e ∈ evs, e.2.active = true ∧ e.2.touches q.alias = false) →
    exec c s clk evs = some (s', outs) →
    Chain c name ttl expire (lastTime clk evs) outs n q.when := by
  intro evs
  induction evs with
  | nil =>
    intro n s clk s' outs q _ _ _ _ _ _ _ hclk _ _
    cases n with
    | zero => trivial
    | succ n => exact Or.inl hclk
  | cons e es ih =>
    intro n s clk s' outs q h hq hl hname httl hexp hlate hclk hact hex
    obtain ⟨t, op⟩ := e
    obtain ⟨hen, s1, o1, o2, hst, hex2, rfl⟩ := exec_cons hex
    have ⟨ha, hto⟩ := hact (t, op) (by simp)
    have hrest : ∀ e ∈ es, e.2.active = true ∧ e.2.touches q.alias = false := fun e he => hact e (List.mem_cons_of_mem _ he)
    have htd : t ≤ t1 + startupOffset s.startupSent := by
      have := hen; simp [enabledAt, h.armed] at this; exact this.2
    have hoff := startupOffset_le14 s.startupSent
    have htw : t ≤ q.when := by omega
    have hq1 : q ∈ s1.heap := pre_step_keeps c h ha hto hst hq
    show Chain c name ttl expire (lastTime t es) (o1 ++ o2) n q.when
    rcases pre_step c t1 h ha hst with hp1 | ⟨hp1, he1⟩
    · exact chain_mono_outs (ih n s1 t s' o2 q hp1 hq1 hl hname httl hexp hlate (by omega) hrest hex2)
    · exact chain_mono_outs (chain_core c name ttl expire es n s1 t s' o2 q hp1 hq1 hl hname httl hexp (by omega) (by omega) hrest hex2)

/-! ### a wake-up is never armed in the past (when no record is scheduled for a time already gone) -/

/-- the pointer update is not for a refresh time already in the past (`created + 75 % TTL ≥ now`; always true for a record
just received, `created = now`) -/
def Op.fresh (t : Int) : Op → Bool
  | .ptr _ _ ttl cr => decide (t ≤ cr + 750 * ttl)
  | _ => true

theorem rearm_armed_cases (s : S) (w : Int) :
    (rearmIfEarlier s w).armed = s.armed ∨ (rearmIfEarlier s w).armed = some (.ready, max w s.earliest) := by
  rw [rearmIfEarlier_eq]
  split
  · exact Or.inl rfl
  · split
    · exact Or.inr rfl
    · exact Or.inl rfl

/-- one block keeps "the armed wake-up is not before the clock" -/
theorem ahead_step (c : Cfg) {s : S} {clk t : Int} {op : Op} {s1 : S} {o1 : List Send}
    (hen : enabledAt s clk t = true) (hlive : op.active = true ∨ ∃ d, op = .start d) (hf : op.fresh t = true)
    (hst : step c s t op = some (s1, o1)) : ∀ k due, s1.armed = some (k, due) → t ≤ due := by
  have hold : ∀ k due, s.armed = some (k, due) → t ≤ due := by
    intro k due ha
    have := hen; simp [enabledAt, ha] at this; exact this.2
  cases op with
  | stop => rcases hlive with h | ⟨d, h⟩ <;> simp [Op.active] at h
  | start d =>
    simp only [step] at hst
    split at hst
    · simp only [Option.some.injEq, Prod.mk.injEq] at hst
      intro k due ha
      rw [← hst.1] at ha
      simp only [Option.some.injEq, Prod.mk.injEq] at ha
      omega
    · simp at hst
  | cancel a =>
    simp only [step, Option.some.injEq, Prod.mk.injEq] at hst
    intro k due ha; rw [← hst.1] at ha; exact hold k due ha
  | ptr a n ttl cr =>
    simp only [step, Option.some.injEq, Prod.mk.injEq] at hst
    have hfw : t ≤ (firstQuery a n ttl cr).when := by
      rw [firstQuery_when]; simpa [Op.fresh] using hf
    intro k due ha
    rw [← hst.1] at ha
    unfold reschedule at ha
    split at ha
    · split at ha
      · exact hold k due ha
      · unfold schedule at ha
        rcases rearm_armed_cases { s with heap := insert (firstQuery a n ttl cr) (cancelAlias a s.heap) } (firstQuery a n ttl cr).when with h1 | h1
        · rw [h1] at ha; exact hold k due ha
        · rw [h1] at ha
          simp only [Option.some.injEq, Prod.mk.injEq] at ha
          omega
    · unfold schedule at ha
      rcases rearm_armed_cases { s with heap := insert (firstQuery a n ttl cr) s.heap } (firstQuery a n ttl cr).when with h1 | h1
      · rw [h1] at ha; exact hold k due ha
      · rw [h1] at ha
        simp only [Option.some.injEq, Prod.mk.injEq] at ha
        omega
  | fire d =>
    have hd : d = false := by
      rcases hlive with h | ⟨d', h⟩
      · simpa [Op.active] using h
      · cases h
    subst hd
    simp only [step] at hst
    split at hst
    · split at hst
      · simp only [Option.some.injEq] at hst
        rw [fireStartup_false] at hst
        intro k due ha
        split at hst
        · simp only [Prod.mk.injEq] at hst
          rw [← hst.1] at ha
          simp only [armReady, Option.some.injEq, Prod.mk.injEq] at ha
          omega
        · simp only [Prod.mk.injEq] at hst
          rw [← hst.1] at ha
          simp only [Option.some.injEq, Prod.mk.injEq] at ha
          have : (0 : Int) ≤ ((s.startupSent : Int) + 1) * ((s.startupSent : Int) + 1) * 1000 := by
            have h0 : (0 : Int) ≤ (s.startupSent : Int) + 1 := by omega
            exact Int.mul_nonneg (Int.mul_nonneg h0 h0) (by omega)
          omega
      · simp at hst
    · split at hst
      · simp only [Option.some.injEq] at hst
        rw [fireReady_false] at hst
        simp only [Prod.mk.injEq] at hst
        intro k due ha
        rw [← hst.1] at ha
        simp only [armReady, Option.some.injEq, Prod.mk.injEq] at ha
        have hnw : t + (c.minDelay : Int) ≤ due := by
          rw [← ha.2, nextWhen_eq]
          split
          · split <;> omega
          · omega
        omega
      · simp at hst
    · simp at hst

/-- after every history of live blocks with fresh pointer updates, the armed wake-up (if any) is not before the last block -/
theorem ahead_exec (c : Cfg) : ∀ (evs : List (Int × Op)) (s : S) (clk : Int) (s' : S) (outs : List Send),
    (∀ k due, s.armed = some (k, due) → clk ≤ due) →
    (∀ e ∈ evs, (e.2.active = true ∨ ∃ d, e.2 = .start d) ∧ e.2.fresh e.1 = true) →
    exec c s clk evs = some (s', outs) →
    ∀ k due, s'.armed = some (k, due) → lastTime clk evs ≤ due := by
  intro evs
  induction evs with
  | nil =>
    intro s clk s' outs h _ hex
    simp only [exec, Option.some.injEq, Prod.mk.injEq] at hex
    rw [← hex.1]; exact h
  | cons e es ih =>
    intro s clk s' outs _ hev hex
    obtain ⟨t, op⟩ := e
    obtain ⟨hen, s1, o1, o2, hst, hex2, _⟩ := exec_cons hex
    have ⟨h1, h2⟩ := hev (t, op) (by simp)
    exact ih s1 t s' o2 (ahead_step c hen h1 h2 hst) (fun e he => hev e (List.mem_cons_of_mem _ he)) hex2

/-- during a pass the follow-ups pushed never re-arm: their time is after now, the armed time of the pass is not -/
theorem rescue_no_rearm {s : S} {q : Q} {now : Int} (hn : s.nextRunMs ≤ now) (hq : now < q.when) :
    (schedule s q).armed = s.armed := by
  unfold schedule
  rw [rearmIfEarlier_eq]
  split
  · rfl
  · split
    · rename_i hlt
      have : max q.when s.earliest < s.nextRunMs := hlt
      omega
    · rfl

end Zc.Sched
