import Zc.Proofs.CacheRefine
/-! Every lookup path of the indexed cache returns what the flat reference store returns. -/
namespace Zc

theorem find?_filter_of_imp {α} (s : List α) (p q : α → Bool) (h : ∀ e, q e = true → p e = true) :
    (s.filter p).find? q = s.find? q := by
  rw [List.find?_filter]
  congr 1
  funext a
  by_cases hq : q a = true
  · simp [hq, h a hq]
  · simp [hq]

section
variable (lower : String → String)

/-- the flat store holds at most one record per identity -/
def Flat.WF (s : List Rec) : Prop := s.Pairwise (fun a b => a.ident lower ≠ b.ident lower)

variable {lower}

theorem Flat.WF.eq_of_ident {s : List Rec} (h : Flat.WF lower s) {a b : Rec} (ha : a ∈ s) (hb : b ∈ s)
    (hab : a.ident lower = b.ident lower) : a = b := by
  induction s with
  | nil => cases ha
  | cons x t ih =>
    rw [Flat.WF, List.pairwise_cons] at h
    rcases List.mem_cons.1 ha with rfl | ha'
    · rcases List.mem_cons.1 hb with rfl | hb'
      · rfl
      · exact absurd hab (h.1 b hb')
    · rcases List.mem_cons.1 hb with rfl | hb'
      · exact absurd hab.symm (h.1 a ha')
      · exact ih h.2 ha' hb'

theorem Flat.WF.eq_of_beq {s : List Rec} (h : Flat.WF lower s) {a b : Rec} (ha : a ∈ s) (hb : b ∈ s)
    (hab : a.beq lower b = true) : a = b :=
  h.eq_of_ident ha hb ((beq_iff_ident lower a b).1 hab)

theorem Refines.getUnique {c : Cache} {s : List Rec} (h : Refines lower c s) (r : Rec) :
    c.getUnique lower r = Flat.getUnique lower s r := by
  unfold Cache.getUnique Flat.getUnique
  have hg := h.byName.get (lower r.name)
  have himp : ∀ e : Rec, e.beq lower r = true → decide (nameKey lower e = some (lower r.name)) = true := by
    intro e he
    simp [nameKey, ident_name lower ((beq_iff_ident lower e r).1 he)]
  cases hf : c.cache.find? (lower r.name) with
  | none =>
    simp only [Index.get, hf, Option.getD_none] at hg
    simp only [Option.bind_none]
    symm
    rw [List.find?_eq_none]
    intro e he hb
    have : e ∈ s.filter (fun x => decide (nameKey lower x = some (lower r.name))) := List.mem_filter.2 ⟨he, himp e hb⟩
    rw [← hg] at this
    cases this
  | some b =>
    simp only [Index.get, hf, Option.getD_some] at hg
    simp only [Option.bind_some, Bucket.lookup, hg]
    exact find?_filter_of_imp _ _ _ himp

theorem Refines.entriesWithName {c : Cache} {s : List Rec} (h : Refines lower c s) (name : String) :
    c.entriesWithName lower name = Flat.entriesWithName lower s name := by
  unfold Cache.entriesWithName Flat.entriesWithName
  rw [h.byName.get]
  exact List.filter_congr (fun x _ => by simp [nameKey])

theorem Refines.entriesWithServer {c : Cache} {s : List Rec} (h : Refines lower c s) (name : String) :
    c.entriesWithServer lower name = Flat.entriesWithServer lower s name := by
  unfold Cache.entriesWithServer Flat.entriesWithServer
  rw [h.byServer.get]

theorem Refines.getAllByDetails {c : Cache} {s : List Rec} (h : Refines lower c s) (name : String) (type class_ : Nat) :
    c.getAllByDetails lower name type class_ = Flat.getAllByDetails lower s name type class_ := by
  unfold Cache.getAllByDetails Flat.getAllByDetails
  rw [h.byName.get, List.filter_filter]
  exact List.filter_congr (fun x _ => by simp [nameKey, Bool.and_comm])

theorem Refines.getByDetails {c : Cache} {s : List Rec} (h : Refines lower c s) (name : String) (type class_ : Nat) :
    c.getByDetails lower name type class_ = Flat.getByDetails lower s name type class_ := by
  have := h.getAllByDetails name type class_
  unfold Cache.getAllByDetails at this
  unfold Cache.getByDetails Flat.getByDetails
  rw [← this, List.getLast?_filter]

/-- `names()` lists every lower-cased owner name that occurs in the store, each once -/
theorem Refines.names {c : Cache} {s : List Rec} (h : Refines lower c s) :
    (c.names).Nodup ∧ ∀ k, k ∈ c.names ↔ Flat.hasName lower s k := by
  refine ⟨h.byName.keys, fun k => ?_⟩
  unfold Cache.names Flat.hasName
  rw [Index.mem_keys_iff]
  have hg := h.byName.get k
  constructor
  · intro hs
    cases hf : c.cache.find? k with
    | none => simp [hf] at hs
    | some b =>
      have hne := h.byName.nonempty k b hf
      simp only [Index.get, hf, Option.getD_some] at hg
      cases b with
      | nil => exact absurd rfl hne
      | cons e t =>
        have : e ∈ s.filter (fun r => decide (nameKey lower r = some k)) := by rw [← hg]; simp
        rw [List.mem_filter] at this
        exact ⟨e, this.1, by simpa [nameKey] using this.2⟩
  · rintro ⟨e, he, hk⟩
    have : e ∈ c.cache.get k := by
      rw [hg, List.mem_filter]; exact ⟨he, by simp [nameKey, hk]⟩
    cases hf : c.cache.find? k with
    | none => simp [Index.get, hf] at this
    | some b => rfl

theorem Refines.get {c : Cache} {s : List Rec} (h : Refines lower c s) (hw : Flat.WF lower s) (r : Rec) :
    c.get lower r = Flat.get lower s r := by
  have hu := h.getUnique r
  unfold Cache.getUnique Flat.getUnique at hu
  unfold Cache.get Flat.get
  have hlook : Bucket.lookup lower (c.cache.get (lower r.name)) r = s.find? (fun e => e.beq lower r) := by
    rw [← hu]
    cases hf : c.cache.find? (lower r.name) <;> simp [Index.get, hf, Bucket.lookup]
  split
  · exact hlook
  · -- NSEC: `reversed(list(...))`, first `entry == cached_entry`; at most one record matches
    rw [← hlook, Bucket.lookup, ← List.getLast?_filter, ← List.head?_filter]
    have hcongr : (c.cache.get (lower r.name)).filter (fun e => r.beq lower e) = (c.cache.get (lower r.name)).filter (fun e => e.beq lower r) :=
      List.filter_congr (fun x _ => beq_comm lower r x)
    rw [hcongr]
    have hsub : ((c.cache.get (lower r.name)).filter (fun e => e.beq lower r)).Sublist s := by
      rw [h.byName.get]
      exact List.filter_sublist.trans List.filter_sublist
    have hall : ∀ a ∈ (c.cache.get (lower r.name)).filter (fun e => e.beq lower r), a.ident lower = r.ident lower :=
      fun a ha => (beq_iff_ident lower a r).1 (List.mem_filter.1 ha).2
    have hw' := List.Pairwise.sublist hsub hw
    generalize (c.cache.get (lower r.name)).filter (fun e => e.beq lower r) = l at hall hw'
    match l, hall, hw' with
    | [], _, _ => rfl
    | [a], _, _ => rfl
    | a :: b :: t, hall, hw' =>
      rw [List.pairwise_cons] at hw'
      exact absurd ((hall a (by simp)).trans (hall b (by simp)).symm) (hw'.1 b (by simp))

end
end Zc
