import Zc.Proofs.SurviveText
import Zc.Proofs.DecodeLib
import Zc.GenFacts.Survive
/-! The decoder only hands out labels that can be written back (C15, the D8 repair): every label
of every name on the object — and of every `_name_cache` entry, which is where later names get
their suffixes from — re-encodes to at most 63 bytes of UTF-8. -/
namespace Zc.Survive
open Zc Zc.Wire Zc.Wire.DecodeLib

/-- every label re-encodes to at most 63 bytes -/
def LabelsOK (n : WName) : Prop := ∀ l ∈ n, Utf8.reencodedLen l ≤ 63

/-- `_name_cache` only holds such names -/
def CacheLab (c : List (Nat × WName)) : Prop := ∀ p ∈ c, LabelsOK p.2

/-- the decoder rejects a label that is neither ASCII nor short after re-encoding (the D8 repair) -/
structure CfgEnc (cfg : Cfg) : Prop where
  lab : ∀ a n, cfg.labelBad a n = false → a = true ∨ n ≤ 63

theorem libCfg_enc : CfgEnc libCfg := ⟨GenFacts.Survive.label_encodable⟩

theorem LabelsOK.nil : LabelsOK [] := fun _ h => by simp at h

theorem LabelsOK.cons {l : Label} {n : WName} (h1 : Utf8.reencodedLen l ≤ 63) (h2 : LabelsOK n) : LabelsOK (l :: n) := by
  intro x hx
  simp only [List.mem_cons] at hx
  rcases hx with rfl | hx
  · exact h1
  · exact h2 x hx

theorem LabelsOK.append {a b : WName} (h1 : LabelsOK a) (h2 : LabelsOK b) : LabelsOK (a ++ b) := by
  intro x hx
  simp only [List.mem_append] at hx
  rcases hx with hx | hx
  · exact h1 x hx
  · exact h2 x hx

theorem CacheLab.cons {c : List (Nat × WName)} {k : Nat} {n : WName} (h1 : LabelsOK n) (h2 : CacheLab c) :
    CacheLab ((k, n) :: c) := by
  intro p hp
  simp only [List.mem_cons] at hp
  rcases hp with rfl | hp
  · exact h1
  · exact h2 p hp

theorem slice_length_le (buf : Bytes) (a b : Nat) : (slice buf a b).length ≤ b - a := by
  unfold slice
  simp only [List.length_take]
  omega

/-! ### the literal-label loop -/

def LitLab : Lit → Prop
  | .fin ls _ => LabelsOK ls
  | .ptr ls _ _ => LabelsOK ls
  | .err _ => True

theorem LitLab.cons {label : Label} {r : Lit × Nat} (h1 : Utf8.reencodedLen label ≤ 63) (h : LitLab r.1) :
    LitLab (Lit.cons label r).1 := by
  obtain ⟨l, n⟩ := r
  cases l <;> simp only [Lit.cons, LitLab] at h ⊢
  · exact LabelsOK.cons h1 h
  · exact LabelsOK.cons h1 h

theorem lit_lab {cfg : Cfg} (hc : CfgEnc cfg) (buf : Bytes) : ∀ (fuel off : Nat), LitLab (lit cfg buf fuel off).1 := by
  intro fuel
  induction fuel with
  | zero => intro off; simp [lit, LitLab]
  | succ fuel ih =>
    intro off
    unfold lit
    split
    · cases hb : byteAt buf off with
      | error e => simp [LitLab]
      | ok length =>
        simp only []
        split
        · simp only [LitLab]; exact LabelsOK.nil
        · split
          · rename_i hlab
            split
            · simp [LitLab]
            · rename_i hbad
              have hbad' := hc.lab _ _ (by simpa using hbad)
              have hlt := GenFacts.Survive.is_label_lt hlab
              have hlen := slice_length_le buf (Gen.Incoming.label_idx off)
                (Gen.Incoming.label_end (Gen.Incoming.label_idx off) length)
              rw [GenFacts.Survive.label_bounds] at hlen
              refine LitLab.cons ?_ (ih _)
              rcases hbad' with ha | hn
              · rw [reencodedLen_ascii _ ha]; omega
              · exact hn
          · split
            · simp [LitLab]
            · simp only [LitLab]; exact LabelsOK.nil
    · simp [LitLab]

/-! ### `_decode_labels_at_offset` -/

theorem cacheGet_lab {c : List (Nat × WName)} {k : Nat} {ll : WName} (hc : CacheLab c) (h : cacheGet c k = some ll) :
    LabelsOK ll := by
  unfold cacheGet at h
  split at h
  · rename_i ls hl
    split at h
    · simp at h
    · simp at h; subst h
      have := List.lookup_eq_some_iff.mp hl
      obtain ⟨l1, l2, h1, _⟩ := this
      exact hc (k, ls) (by rw [h1]; simp)
  · simp at h

/-- the cache stays clean and a returned label list is clean -/
def DecLab (r : St × Except PyExc (WName × Nat × List Nat)) : Prop :=
  CacheLab r.1.cache ∧ ∀ v, r.2 = .ok v → LabelsOK v.1

theorem finish_lab {ls ll : WName} {poff : Nat} {seen : List Nat} {st : St}
    (h1 : LabelsOK ls) (h2 : LabelsOK ll) (hc : CacheLab st.cache) : DecLab (finish ls ll poff seen st) := by
  unfold finish
  split
  · exact ⟨hc, by intro v h; simp at h⟩
  · exact ⟨hc, by intro v h; simp at h; subst h; exact h1.append h2⟩

theorem decodeAt_lab {cfg : Cfg} (hc : CfgEnc cfg) (buf : Bytes) :
    ∀ (fuel off depth : Nat) (seen : List Nat) (st : St), CacheLab st.cache →
      DecLab (decodeAt cfg buf fuel off depth seen st) := by
  intro fuel
  induction fuel with
  | zero => intro off depth seen st h; exact ⟨h, by intro v hv; simp [decodeAt] at hv⟩
  | succ fuel ih =>
    intro off depth seen st hcache
    unfold decodeAt
    split
    · exact ⟨hcache, by intro v hv; simp at hv⟩
    · have hl := lit_lab hc buf (buf.length + 1) off
      generalize lit cfg buf (buf.length + 1) off = lr at hl
      obtain ⟨l, r⟩ := lr
      cases l with
      | err e => exact ⟨hcache, by intro v hv; simp at hv⟩
      | fin ls e =>
        simp only [LitLab] at hl
        exact ⟨hcache, by intro v hv; simp at hv; subst hv; exact hl⟩
      | ptr ls poff b0 =>
        simp only [LitLab] at hl ⊢
        cases hb : byteAt buf (poff + 1) with
        | error e => exact ⟨hcache, by intro v hv; simp at hv⟩
        | ok b1 =>
          simp only []
          split
          · exact ⟨hcache, by intro v hv; simp at hv⟩
          · split
            · exact ⟨hcache, by intro v hv; simp at hv⟩
            · split
              · exact ⟨hcache, by intro v hv; simp at hv⟩
              · split
                · rename_i ll hget
                  exact finish_lab hl (cacheGet_lab hcache hget) hcache
                · split
                  · exact ⟨hcache, by intro v hv; simp at hv⟩
                  · have := ih (Gen.Incoming.link b0 b1) (depth + 1) (Gen.Incoming.link b0 b1 :: seen)
                      { st with acts := st.acts + 1, reads := st.reads + r, maxDepth := max st.maxDepth depth } hcache
                    obtain ⟨hc', hok⟩ := this
                    split
                    · rename_i st' e heq
                      rw [heq] at hc'
                      exact ⟨hc', by intro v hv; simp at hv⟩
                    · rename_i st' ll x seen' heq
                      rw [heq] at hc' hok
                      have hll := hok _ rfl
                      exact finish_lab hl hll (CacheLab.cons hll hc')

/-! ### `_read_name` and everything above it -/

theorem readName_lab {cfg : Cfg} (hc : CfgEnc cfg) (buf : Bytes) (st : St) (hcache : CacheLab st.cache) :
    CacheLab (readName cfg buf st).1.cache ∧ ∀ n, (readName cfg buf st).2 = .ok n → LabelsOK n := by
  unfold readName
  dsimp only
  have h := decodeAt_lab hc buf (nameFuel buf) st.off 1 [] { st with names := st.names + 1 } hcache
  generalize decodeAt cfg buf (nameFuel buf) st.off 1 [] { st with names := st.names + 1 } = r at h
  obtain ⟨st', res⟩ := r
  obtain ⟨hc', hok⟩ := h
  cases res with
  | error e => exact ⟨hc', by intro n hn; simp at hn⟩
  | ok v =>
    obtain ⟨labels, e, sn⟩ := v
    have hl := hok _ rfl
    simp only at hl ⊢
    split
    · exact ⟨CacheLab.cons hl hc', by intro n hn; simp at hn⟩
    · exact ⟨CacheLab.cons hl hc', by intro n hn; simp at hn; subst hn; exact hl⟩

def QLab (qs : List WQuestion) : Prop := ∀ q ∈ qs, LabelsOK q.name

theorem readQuestions_lab {cfg : Cfg} (hc : CfgEnc cfg) (buf : Bytes) : ∀ (n : Nat) (st : St), CacheLab st.cache →
    CacheLab (readQuestions cfg buf n st).1.cache ∧ QLab (readQuestions cfg buf n st).2.1 := by
  intro n
  induction n with
  | zero => intro st h; unfold readQuestions; exact ⟨h, by simp [QLab]⟩
  | succ n ih =>
    intro st hcache
    unfold readQuestions
    have h := readName_lab hc buf st hcache
    generalize readName cfg buf st = r at h
    obtain ⟨st1, res⟩ := r
    obtain ⟨hc1, hok⟩ := h
    cases res with
    | error e => exact ⟨hc1, by simp [QLab]⟩
    | ok name =>
      simp only []
      cases hq : readQFixed buf st1.off with
      | error e => exact ⟨hc1, by simp [QLab]⟩
      | ok tc =>
        obtain ⟨t, c⟩ := tc
        simp only []
        obtain ⟨i1, i2⟩ := ih { st1 with off := st1.off + Gen.Incoming.q_len } hc1
        refine ⟨i1, ?_⟩
        intro q hq'
        simp only [List.mem_cons] at hq'
        rcases hq' with rfl | hq'
        · exact hok _ rfl
        · exact i2 q hq'

theorem readCStr_cache (buf : Bytes) (st : St) : (readCStr buf st).1.cache = st.cache := by
  unfold readCStr
  split <;> rfl

theorem readBitmap_cache (buf : Bytes) (end_ : Nat) : ∀ (fuel : Nat) (st : St),
    (readBitmap buf end_ fuel st).1.cache = st.cache := by
  intro fuel
  induction fuel with
  | zero => intro st; rfl
  | succ fuel ih =>
    intro st
    unfold readBitmap
    dsimp only
    split
    · split
      · rfl
      · split
        · rfl
        · have := ih { st with off := st.off + Gen.Incoming.bitmap_advance ‹Nat› }
          split
          · rename_i heq; rw [heq] at this; exact this
          · rename_i heq; rw [heq] at this; exact this
    · rfl

def RdLab (rd : Option WRData) : Prop := ∀ rd', rd = some rd' → ∀ n ∈ DecodeSpec.rdataNames rd', LabelsOK n

def RDataLab (r : St × Except PyExc (Option WRData)) : Prop :=
  CacheLab r.1.cache ∧ ∀ rd, r.2 = .ok rd → RdLab rd

theorem RDataLab.plain {st : St} {rd : WRData} (hc : CacheLab st.cache) (hn : DecodeSpec.rdataNames rd = []) :
    RDataLab (st, .ok (some rd)) := by
  refine ⟨hc, ?_⟩
  intro rd' h
  simp at h; subst h
  intro rd'' h n hn'
  simp at h; subst h
  rw [hn] at hn'
  simp at hn'

theorem RDataLab.named {st : St} {rd : WRData} {n : WName} (hc : CacheLab st.cache) (hn : DecodeSpec.rdataNames rd = [n])
    (hl : LabelsOK n) : RDataLab (st, .ok (some rd)) := by
  refine ⟨hc, ?_⟩
  intro rd' h
  simp at h; subst h
  intro rd'' h n' hn'
  simp at h; subst h
  rw [hn] at hn'
  simp at hn'; subst hn'
  exact hl

theorem RDataLab.fail {st : St} {e : PyExc} (hc : CacheLab st.cache) : RDataLab (st, .error e) :=
  ⟨hc, by intro rd h; simp at h⟩

theorem readRData_lab {cfg : Cfg} (hc : CfgEnc cfg) (buf : Bytes) (t length : Nat) (st : St) (hcache : CacheLab st.cache) :
    RDataLab (readRData cfg buf t length st) := by
  unfold readRData
  split
  · exact RDataLab.plain (by simpa [readString] using hcache) rfl
  split
  · have h := readName_lab hc buf st hcache
    generalize readName cfg buf st = r at h
    obtain ⟨st1, res⟩ := r
    obtain ⟨hc1, hok⟩ := h
    cases res with
    | error e => exact RDataLab.fail hc1
    | ok n => exact RDataLab.named hc1 rfl (hok _ rfl)
  split
  · exact RDataLab.plain (by simpa [readString] using hcache) rfl
  split
  · dsimp only
    cases hq : readSrvFixed buf st.off with
    | error e => exact RDataLab.fail hcache
    | ok pwq =>
      obtain ⟨p, w, q⟩ := pwq
      simp only []
      have h := readName_lab hc buf { st with off := st.off + Gen.Incoming.srv_len } hcache
      generalize readName cfg buf { st with off := st.off + Gen.Incoming.srv_len } = r at h
      obtain ⟨st1, res⟩ := r
      obtain ⟨hc1, hok⟩ := h
      cases res with
      | error e => exact RDataLab.fail hc1
      | ok n => exact RDataLab.named hc1 rfl (hok _ rfl)
  split
  · have h1 := readCStr_cache buf st
    generalize readCStr buf st = r at h1
    obtain ⟨st1, res⟩ := r
    cases res with
    | error e => exact RDataLab.fail (by simp only at h1; rw [h1]; exact hcache)
    | ok cpu =>
      simp only []
      have h2 := readCStr_cache buf st1
      generalize readCStr buf st1 = r at h2
      obtain ⟨st2, res⟩ := r
      simp only at h1 h2
      cases res with
      | error e => exact RDataLab.fail (by rw [h2, h1]; exact hcache)
      | ok os => exact RDataLab.plain (by rw [h2, h1]; exact hcache) rfl
  split
  · exact RDataLab.plain (by simpa [readString] using hcache) rfl
  split
  · dsimp only
    have h := readName_lab hc buf st hcache
    generalize readName cfg buf st = r at h
    obtain ⟨st1, res⟩ := r
    obtain ⟨hc1, hok⟩ := h
    cases res with
    | error e => exact RDataLab.fail hc1
    | ok n =>
      simp only []
      have hb := readBitmap_cache buf (Gen.Incoming.nsec_end st.off length) (buf.length + 1) st1
      generalize readBitmap buf (Gen.Incoming.nsec_end st.off length) (buf.length + 1) st1 = r at hb
      obtain ⟨st2, res⟩ := r
      simp only at hb hc1
      cases res with
      | error e => exact RDataLab.fail (by rw [hb]; exact hc1)
      | ok ts => exact RDataLab.named (by rw [hb]; exact hc1) rfl (hok _ rfl)
  · exact ⟨hcache, by intro rd h; simp at h; subst h; intro rd' h; simp at h⟩

def RecLab (rs : List WRecord) : Prop :=
  ∀ r ∈ rs, LabelsOK r.name ∧ ∀ n ∈ DecodeSpec.rdataNames r.rdata, LabelsOK n

theorem readRecords_lab {cfg : Cfg} (hc : CfgEnc cfg) (buf : Bytes) : ∀ (n : Nat) (st : St), CacheLab st.cache →
    RecLab (readRecords cfg buf n st).2.1 := by
  intro n
  induction n with
  | zero => intro st _; unfold readRecords; simp [RecLab]
  | succ n ih =>
    intro st hcache
    unfold readRecords
    have h := readName_lab hc buf st hcache
    generalize readName cfg buf st = r at h
    obtain ⟨st1, res⟩ := r
    obtain ⟨hc1, hok⟩ := h
    cases res with
    | error e => simp [RecLab]
    | ok domain =>
      dsimp only
      cases hq : readFixed buf st1.off with
      | error e => simp [RecLab]
      | ok v =>
        obtain ⟨t, c, ttl, length⟩ := v
        dsimp only
        have hrd := readRData_lab hc buf t length { st1 with off := st1.off + Gen.Incoming.r_len } hc1
        generalize readRData cfg buf t length { st1 with off := st1.off + Gen.Incoming.r_len } = r at hrd
        obtain ⟨st3, res⟩ := r
        obtain ⟨hc3, hok3⟩ := hrd
        simp only at hc3 hok3
        cases res with
        | error e =>
          dsimp only
          split
          · exact ih _ hc3
          · simp [RecLab]
        | ok rdo =>
          cases rdo with
          | none => dsimp only; exact ih _ hc3
          | some rd =>
            dsimp only
            intro r hr
            simp only [List.mem_cons] at hr
            rcases hr with rfl | hr
            · exact ⟨hok _ rfl, hok3 _ rfl _ rfl⟩
            · exact ih _ hc3 r hr

theorem encodable_of {v : Bool} {h : Hdr} {qs : List WQuestion} {rs : List WRecord}
    (hq : QLab qs) (hr : RecLab rs) : encodable ⟨v, h, qs, rs⟩ = true := by
  simp only [encodable, DecodeSpec.namesOf, List.all_eq_true, List.mem_append, List.mem_map,
    List.mem_flatMap, List.mem_cons, nameOK, labelOK, decide_eq_true_eq]
  intro n hn
  rcases hn with ⟨q, hq', rfl⟩ | ⟨r, hr', hn⟩
  · exact hq q hq'
  · rcases hn with rfl | hn
    · exact (hr r hr').1
    · exact (hr r hr').2 n hn

theorem others_lab {cfg : Cfg} (hc : CfgEnc cfg) (buf : Bytes) (h : Hdr) (qs : List WQuestion) (st : St)
    (v1 v2 v3 : Bool) (hq : QLab qs) (hcache : CacheLab st.cache) :
    ∀ p, (others cfg buf h qs st v1 v2 v3).parsed? = some p → encodable p = true := by
  unfold others readOthers
  dsimp only
  have i3 := readRecords_lab hc buf (Gen.Incoming.r_loop_count (Gen.Incoming.others_count h.nan h.nau h.nad)) st hcache
  generalize readRecords cfg buf (Gen.Incoming.r_loop_count (Gen.Incoming.others_count h.nan h.nau h.nad)) st = r at i3
  obtain ⟨st', rs, e⟩ := r
  simp only at i3
  cases e with
  | none =>
    dsimp only
    intro p hp; simp [Run.parsed?] at hp; subst hp; exact encodable_of hq i3
  | some e =>
    dsimp only
    split
    · intro p hp; simp [Run.parsed?] at hp; subst hp; exact encodable_of hq i3
    · split
      · intro p hp; simp [Run.parsed?] at hp
      · intro p hp; simp [Run.parsed?] at hp; subst hp; exact encodable_of hq i3

/-- every name on the object `parseWith` returns — whatever the datagram — can be written back -/
theorem parseWith_encodable {cfg : Cfg} (hc : CfgEnc cfg) (buf : Bytes) :
    ∀ p, (parseWith cfg buf).parsed? = some p → encodable p = true := by
  unfold parseWith
  dsimp only
  have hst := (readHeader_spec buf {}).1
  generalize readHeader buf {} = hr at hst
  obtain ⟨st1, hd, e⟩ := hr
  simp only at hst
  have hc1 : CacheLab st1.cache := by rw [hst]; intro p hp; simp at hp
  cases e with
  | some e =>
    dsimp only
    split
    · exact others_lab hc buf hd [] st1 _ _ _ (by simp [QLab]) hc1
    · intro p hp; simp [Run.parsed?] at hp
  | none =>
    dsimp only
    obtain ⟨q1, q2⟩ := readQuestions_lab hc buf (Gen.Incoming.q_loop_count hd.nq) st1 hc1
    generalize readQuestions cfg buf (Gen.Incoming.q_loop_count hd.nq) st1 = qr at q1 q2
    obtain ⟨st2, qs, e⟩ := qr
    simp only at q1 q2
    cases e with
    | some e =>
      dsimp only
      split
      · exact others_lab hc buf hd qs st2 _ _ _ q2 q1
      · intro p hp; simp [Run.parsed?] at hp
    | none =>
      dsimp only
      split
      · exact others_lab hc buf hd qs st2 _ _ _ q2 q1
      · exact others_lab hc buf hd qs st2 _ _ _ q2 q1

end Zc.Survive
