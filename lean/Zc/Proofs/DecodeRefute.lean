import Zc.Model.Wire.DecodeSpec
/-! The D2 witness family, evaluated on the model: without the hop bound the nesting depth of
`_decode_labels_at_offset` is not bounded by 129 (it grows with the length of a pointer chain until
the interpreter's recursion limit is hit). -/
namespace Zc.Wire.DecodeLib
open Zc Zc.Wire

/-- the decoder of the unrepaired tree: no hop test (the optional leaf translates to `false`) -/
def noHopCfg : Cfg := ⟨fun _ => false, libCfg.labelBad, libCfg.recLimit⟩

/-- one question whose name is a chain of `d` forward compression pointers ending in the root label
(`harness/c02.py: chain_packet(d, True, b"\x00")`) -/
def chainPacket (d : Nat) : Bytes :=
  [0, 0, 0, 0, 0, 1, 0, 0, 0, 0, 0, 0] ++ be16 (0xC000 + 18) ++ [0, 12, 0, 1]
    ++ (List.range (d - 1)).flatMap (fun i => be16 (0xC000 + 18 + 2 * (i + 1))) ++ [0]

/-- 130 pointer hops: 277 bytes, nesting depth 131, and the object is reported valid -/
theorem chain_depth_without_hop_bound :
    (parseWith noHopCfg (chainPacket 130)).st.maxDepth = 131 ∧ (chainPacket 130).length = 277
      ∧ (parseWith noHopCfg (chainPacket 130)).escaped = none := by
  decide +kernel

/-- (the 1200-hop chain of D2 evaluates to `escaped = some .recursion` in the same way; that takes
the kernel three minutes, so it is left to the harness, which runs it on the real code) -/
theorem depth_unbounded_without_hop_bound : ¬ ∀ b : Bytes, (parseWith noHopCfg b).st.maxDepth ≤ 129 := by
  intro h
  have := h (chainPacket 130)
  rw [chain_depth_without_hop_bound.1] at this
  omega

/-- D8 witness: one PTR question whose single label is 40 × `0xFF` (valid for RFC 1035, not UTF-8;
decoded with 'replace' it re-encodes to 120 bytes) -/
def d8Witness : Bytes :=
  [0, 0, 0, 0, 0, 1, 0, 0, 0, 0, 0, 0] ++ [40] ++ List.replicate 40 255 ++ [0, 0, 12, 0, 1]

/-- one PTR question whose name is three 63-byte labels and one of `last` bytes, all `'a'`:
`193 + last` characters in presentation form, `194 + last` octets on the wire -/
def longNameQuestion (last : Nat) : Bytes :=
  [0, 0, 0, 0, 0, 1, 0, 0, 0, 0, 0, 0]
    ++ (63 :: List.replicate 63 97) ++ (63 :: List.replicate 63 97) ++ (63 :: List.replicate 63 97)
    ++ (last.toUInt8 :: List.replicate last 97) ++ [0, 0, 12, 0, 1]

end Zc.Wire.DecodeLib
