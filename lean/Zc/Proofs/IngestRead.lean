import Zc.Proofs.IngestPost
import Zc.Proofs.CacheRun
/-! Reading the closed forms of `Zc.Proofs.IngestPost` in the terms of the property: received TTLs,
goodbyes, the last copy of a record in the datagram. -/
namespace Zc

section
variable (lower : String → String)

/-- the TTL the cache stores for a received TTL: pointer records (type 12) with a non-zero TTL below 1125 s
are raised to 1125 s -/
def storedTtl (type ttl : Nat) : Nat := if ttl ≠ 0 ∧ type = 12 ∧ ttl < 1125 then 1125 else ttl

/-- a datagram record as it is stored: arrival time, floored TTL -/
def asStored (now : Ms) (r : Rec) : Rec := r.setLife now (storedTtl r.type r.ttl)

variable {lower}

theorem storedTtl_eq_zero (type ttl : Nat) : storedTtl type ttl = 0 ↔ ttl = 0 := by
  unfold storedTtl; split <;> omega

theorem floorPtr_stamp (now : Ms) (r : Rec) : floorPtr (r.setLife now r.ttl) = asStored now r := by
  by_cases h : r.ttl ≠ 0 ∧ r.type = 12 ∧ r.ttl < 1125
  · have h1 : Gen.Cache.ptr_floor_test r.ttl r.type = true := (ptr_floor_test_iff _ _).2 h
    have h2 : storedTtl r.type r.ttl = 1125 := by unfold storedTtl; rw [if_pos h]
    unfold floorPtr asStored
    rw [h2]
    show (if Gen.Cache.ptr_floor_test r.ttl r.type = true then _ else _) = _
    rw [if_pos h1, dnsPtrMinTtl_eq]; rfl
  · have h1 : ¬ Gen.Cache.ptr_floor_test r.ttl r.type = true := fun hc => h ((ptr_floor_test_iff _ _).1 hc)
    have h2 : storedTtl r.type r.ttl = r.ttl := by unfold storedTtl; rw [if_neg h]
    unfold floorPtr asStored
    rw [h2]
    show (if Gen.Cache.ptr_floor_test r.ttl r.type = true then _ else _) = _
    rw [if_neg h1]

theorem effective_eq (now : Ms) (recs : List Rec) : effective now recs = recs.map (asStored now) := by
  unfold effective stamp
  rw [List.map_map]
  apply List.map_congr_left
  intro r _
  exact floorPtr_stamp now r

@[simp] theorem ident_asStored (now : Ms) (r : Rec) : (asStored now r).ident lower = r.ident lower := rfl

theorem isExpired_asStored (now : Ms) (r : Rec) : (asStored now r).isExpired now = decide (r.ttl = 0) := by
  rw [Bool.eq_iff_iff, decide_eq_true_eq]
  have := isExpired_self_iff (asStored now r)
  simp only [asStored, created_setLife, ttl_setLife] at this
  rw [show (asStored now r).isExpired now = (r.setLife now (storedTtl r.type r.ttl)).isExpired now from rfl, this, storedTtl_eq_zero]

/-- copies of `q`'s record in the datagram, in order -/
def copiesOf (lower : String → String) (recs : List Rec) (q : Rec) : List Rec := recs.filter (fun r => decide (r.ident lower = q.ident lower))

/-- the last copy that is not a goodbye -/
def lastLive (lower : String → String) (recs : List Rec) (q : Rec) : Option Rec := ((copiesOf lower recs q).filter (fun r => decide (r.ttl ≠ 0))).getLast?

/-- is some copy a goodbye (TTL 0)? -/
def hasGoodbye (lower : String → String) (recs : List Rec) (q : Rec) : Bool := (copiesOf lower recs q).any (fun r => decide (r.ttl = 0))

theorem effective_any_goodbye (now : Ms) (recs : List Rec) (q : Rec) :
    (effective now recs).any (fun r => decide (r.ident lower = q.ident lower) && r.isExpired now) = hasGoodbye lower recs q := by
  rw [effective_eq, List.any_map, hasGoodbye, copiesOf, List.any_filter]
  congr 1; funext r
  show (decide ((asStored now r).ident lower = q.ident lower) && (asStored now r).isExpired now) = _
  rw [isExpired_asStored]; rfl

theorem effective_lastLive (now : Ms) (recs : List Rec) (q : Rec) :
    ((effective now recs).filter (fun r => decide (r.ident lower = q.ident lower) && !(r.isExpired now))).getLast?
      = (lastLive lower recs q).map (asStored now) := by
  rw [effective_eq, List.filter_map, List.getLast?_map, lastLive, copiesOf, List.filter_filter]
  congr 2
  apply List.filter_congr
  intro r _
  show (decide ((asStored now r).ident lower = q.ident lower) && !((asStored now r).isExpired now)) = _
  rw [isExpired_asStored, ident_asStored, Bool.and_comm]
  by_cases h : r.ttl = 0 <;> simp [h]

/-- what the datagram's copies of a cached record do to it before the flush: the last live copy refreshes it -/
theorem refresh_eq (now : Ms) (D : List Rec) (e : Rec) :
    refresh lower now D e
      = match (D.filter (fun r => decide (r.ident lower = e.ident lower) && !(r.isExpired now))).getLast? with
        | some r => e.setLife r.created r.ttl
        | none => e := by
  induction D generalizing e with
  | nil => rfl
  | cons r t ih =>
    rw [refresh_cons, ih, ident_refreshOne, List.filter_cons]
    by_cases hm : (decide (r.ident lower = e.ident lower) && !(r.isExpired now)) = true
    · simp only [hm, if_true]
      have hone : refreshOne lower now r e = e.setLife r.created r.ttl := by
        simp only [Bool.and_eq_true, decide_eq_true_eq] at hm
        have : e.beq lower r = true := (beq_iff_ident lower e r).2 hm.1.symm
        simp [refreshOne, this, hm.2]
      cases hl : (t.filter (fun r => decide (r.ident lower = e.ident lower) && !(r.isExpired now))).getLast? with
      | none =>
        have : t.filter (fun r => decide (r.ident lower = e.ident lower) && !(r.isExpired now)) = [] := List.getLast?_eq_none_iff.1 hl
        simp [this, hone]
      | some x =>
        rw [List.getLast?_cons_of_ne_nil (by intro hn; rw [hn] at hl; cases hl), hl]
        simp [hone]
    · simp only [hm, if_false, Bool.false_eq_true]
      have hone : refreshOne lower now r e = e := by
        simp only [Bool.and_eq_true, decide_eq_true_eq, not_and, Bool.not_eq_true', Bool.not_eq_false] at hm
        unfold refreshOne
        by_cases hb : e.beq lower r = true
        · have := hm ((beq_iff_ident lower e r).1 hb).symm
          simp [this]
        · simp [hb]
      rw [hone]

theorem refresh_effective (now : Ms) (recs : List Rec) (e : Rec) :
    refresh lower now (effective now recs) e
      = match lastLive lower recs e with
        | some r => e.setLife now (storedTtl r.type r.ttl)
        | none => e := by
  rw [refresh_eq, effective_lastLive]
  cases lastLive lower recs e <;> rfl

/-- the flush test on a cached record, in the property's words -/
def Flushed (lower : String → String) (now : Ms) (recs : List Rec) (e : Rec) : Prop :=
  (∃ u ∈ recs, u.unique = true ∧ lower u.name = lower e.name ∧ u.type = e.type ∧ u.class_ = e.class_)
  ∧ now - e.created > 1000
  ∧ ∀ r ∈ recs, r.ident lower ≠ e.ident lower

theorem flushHit_effective (now : Ms) (recs : List Rec) (e : Rec) :
    Cache.flushHit lower (uniqueTriples (effective now recs)) (effective now recs) now e = true ↔ Flushed lower now recs e := by
  unfold Cache.flushHit Flushed
  rw [Bool.and_eq_true, flush_test_iff, effective_eq]
  have h1 : (uniqueTriples (recs.map (asStored now))).any (fun u => decide (lower u.1 = lower e.name) && decide (u.2.1 = e.type) && decide (u.2.2 = e.class_)) = true
      ↔ ∃ u ∈ recs, u.unique = true ∧ lower u.name = lower e.name ∧ u.type = e.type ∧ u.class_ = e.class_ := by
    unfold uniqueTriples
    rw [List.any_map, List.any_filter, List.any_map, List.any_eq_true]
    constructor
    · rintro ⟨u, hu, h⟩
      simp only [Function.comp, asStored, unique_setLife, name_setLife, type_setLife, class_setLife, Bool.and_eq_true] at h
      exact ⟨u, hu, h.1, of_decide_eq_true h.2.1.1, of_decide_eq_true h.2.1.2, of_decide_eq_true h.2.2⟩
    · rintro ⟨u, hu, h⟩
      refine ⟨u, hu, ?_⟩
      simp only [Function.comp, asStored, unique_setLife, name_setLife, type_setLife, class_setLife, Bool.and_eq_true]
      exact ⟨h.1, ⟨decide_eq_true h.2.1, decide_eq_true h.2.2.1⟩, decide_eq_true h.2.2.2⟩
  have h2 : (!((recs.map (asStored now)).any (fun a => a.beq lower e))) = true ↔ ∀ r ∈ recs, r.ident lower ≠ e.ident lower := by
    rw [Bool.not_eq_true', List.any_map, List.any_eq_false]
    constructor
    · intro h r hr
      have := h r hr
      rw [Function.comp, beq_eq_decide, ident_asStored] at this
      exact fun hc => this (decide_eq_true hc)
    · intro h r hr
      rw [Function.comp, beq_eq_decide, ident_asStored]
      exact fun hc => h r hr (of_decide_eq_true hc)
  rw [h1, h2]

end
end Zc
