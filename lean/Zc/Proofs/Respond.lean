import Zc.Proofs.Responder
/-! C03: the answer map of `respond` characterised against `RespSpec` (soundness, completeness, additionals),
`packetize`, and preservation of the invariants by queries. -/
namespace Zc
open Zc.GenFacts.Responder

section
variable (lower : String → String) (ettl : Nat)

/-- the question is the type-enumeration meta-query -/
def IsEnumQ (q : Question) : Prop := q.type = 12 ∧ lower q.name = RespSpec.enumName

instance (q : Question) : Decidable (IsEnumQ lower q) := by unfold IsEnumQ; infer_instance

theorem mem_candidates (s : Svc) (q : Question) (r : Rec) :
    r ∈ RespSpec.candidates lower ettl s q ↔
      (IsEnumQ lower q ∧ r = RespSpec.enumPtr ettl (lower s.type)) ∨
      (¬ IsEnumQ lower q ∧
        (((q.type = 12 ∨ q.type = 255) ∧ lower q.name = lower s.type ∧ r = RespSpec.ptrOf s) ∨
         ((q.type = 1 ∨ q.type = 28) ∧ lower q.name = lower s.server ∧
            ((r ∈ RespSpec.addrsOf s ∧ r.type = q.type) ∨ (q.type ∈ RespSpec.missing s ∧ r ∈ RespSpec.nsecOf s))) ∨
         ((q.type = 33 ∨ q.type = 255) ∧ lower q.name = lower s.name ∧ r = RespSpec.srvOf s) ∨
         ((q.type = 16 ∨ q.type = 255) ∧ lower q.name = lower s.name ∧ r = RespSpec.txtOf s))) := by
  unfold RespSpec.candidates IsEnumQ
  by_cases he : q.type = 12 ∧ lower q.name = RespSpec.enumName
  · simp [he]
  · simp only [he, if_false, false_and, false_or, not_false_eq_true, true_and, List.mem_append]
    constructor
    · intro h
      rcases h with ((h | h) | h) | h
      · split at h
        · rename_i c; simp at h; exact Or.inl ⟨c.1, c.2, h⟩
        · simp at h
      · split at h
        · rename_i c
          simp only [List.mem_append, List.mem_filter, decide_eq_true_eq] at h
          rcases h with h | h
          · exact Or.inr (Or.inl ⟨c.1, c.2, Or.inl h⟩)
          · split at h
            · rename_i c2; exact Or.inr (Or.inl ⟨c.1, c.2, Or.inr ⟨c2, h⟩⟩)
            · simp at h
        · simp at h
      · split at h
        · rename_i c; simp at h; exact Or.inr (Or.inr (Or.inl ⟨c.1, c.2, h⟩))
        · simp at h
      · split at h
        · rename_i c; simp at h; exact Or.inr (Or.inr (Or.inr ⟨c.1, c.2, h⟩))
        · simp at h
    · intro h
      rcases h with ⟨c1, c2, h⟩ | ⟨c1, c2, h⟩ | ⟨c1, c2, h⟩ | ⟨c1, c2, h⟩
      · left; left; left; simp [c1, c2, h]
      · left; left; right
        rw [if_pos ⟨c1, c2⟩]
        rcases h with h | ⟨h1, h2⟩
        · simp [h.1, h.2]
        · simp [h1, h2]
      · left; right; simp [c1, c2, h]
      · right; simp [c1, c2, h]


/-! ### the strategies under the registry invariant -/

def typeBucket (reg : Registry) (q : Question) : List Svc := reg.services.filter (fun s => Svc.typeKey lower s = lower q.name)
def hostBucket (reg : Registry) (q : Question) : List Svc := reg.services.filter (fun s => Svc.serverKey lower s = lower q.name)

/-- `_get_answer_strategies` with the index lookups replaced by what they return under `IndexInv` -/
def pureStrategies (reg : Registry) (q : Question) : List Strategy :=
  if Gen.Responder.q_is_enum q.type (decide (lower q.name = Gen.serviceTypeEnumerationName)) then
    (if reg.getTypes.isEmpty then [] else [.enum reg.getTypes])
  else
    (if Gen.Responder.q_wants_pointer q.type then
      (if (typeBucket lower reg q).isEmpty then [] else [.pointer (typeBucket lower reg q)]) else [])
    ++ (if Gen.Responder.q_wants_address q.type then
      (if (hostBucket lower reg q).isEmpty then [] else [.address q.type (hostBucket lower reg q)]) else [])
    ++ instancePart lower reg q

theorem strategiesFor_ok {reg : Registry} (hi : IndexInv lower reg) (q : Question) :
    strategiesFor lower reg q = .ok (pureStrategies lower reg q) := by
  unfold strategiesFor pureStrategies pointerPart addressPart typeBucket hostBucket
  rw [Registry.byIndex_ok lower reg (Svc.typeKey lower) reg.types hi.distinct hi.types,
      Registry.byIndex_ok lower reg (Svc.serverKey lower) reg.servers hi.distinct hi.servers]
  by_cases h0 : Gen.Responder.q_is_enum q.type (decide (lower q.name = Gen.serviceTypeEnumerationName)) = true
  · simp [h0]
  · by_cases h1 : Gen.Responder.q_wants_pointer q.type = true <;>
      by_cases h2 : Gen.Responder.q_wants_address q.type = true <;> simp [h0, h1, h2]

theorem strategiesAll_ok {reg : Registry} (hi : IndexInv lower reg) (qs : List Question) :
    strategiesAll lower reg qs = .ok (qs.flatMap (pureStrategies lower reg)) := by
  induction qs with
  | nil => rfl
  | cons q r ih => simp [strategiesAll, strategiesFor_ok lower hi q, ih]

theorem isEnum_iff (q : Question) :
    Gen.Responder.q_is_enum q.type (decide (lower q.name = Gen.serviceTypeEnumerationName)) = true ↔ IsEnumQ lower q := by
  rw [q_is_enum_iff, enumName_eq]; simp [IsEnumQ, RespSpec.enumName]

/-- where a strategy comes from -/
theorem mem_pureStrategies {reg : Registry} {q : Question} {st : Strategy} (h : st ∈ pureStrategies lower reg q) :
    (IsEnumQ lower q ∧ st = .enum reg.getTypes) ∨
    (¬ IsEnumQ lower q ∧
      (((q.type = 12 ∨ q.type = 255) ∧ st = .pointer (typeBucket lower reg q)) ∨
       ((q.type = 1 ∨ q.type = 28 ∨ q.type = 255) ∧ st = .address q.type (hostBucket lower reg q)) ∨
       (∃ s, sget lower (lower q.name) reg.services = some s ∧
          (((q.type = 33 ∨ q.type = 255) ∧ st = .service s) ∨ ((q.type = 16 ∨ q.type = 255) ∧ st = .text s))))) := by
  unfold pureStrategies at h
  by_cases h0 : Gen.Responder.q_is_enum q.type (decide (lower q.name = Gen.serviceTypeEnumerationName)) = true
  · left
    rw [if_pos h0] at h
    refine ⟨(isEnum_iff lower q).mp h0, ?_⟩
    split at h <;> simp at h
    exact h
  · right
    rw [if_neg h0] at h
    refine ⟨fun e => h0 ((isEnum_iff lower q).mpr e), ?_⟩
    simp only [List.mem_append] at h
    rcases h with (h | h) | h
    · left
      split at h
      · rename_i c
        split at h <;> simp at h
        exact ⟨(q_wants_pointer_iff _).mp c, h⟩
      · simp at h
    · right; left
      split at h
      · rename_i c
        split at h <;> simp at h
        exact ⟨(q_wants_address_iff _).mp c, h⟩
      · simp at h
    · right; right
      unfold instancePart at h
      split at h
      · cases hs : sget lower (lower q.name) reg.services with
        | none => simp [hs] at h
        | some s =>
          simp only [hs, List.mem_append] at h
          refine ⟨s, rfl, ?_⟩
          rcases h with h | h
          · left; split at h
            · rename_i c; simp at h; exact ⟨(q_wants_service_iff _).mp c, h⟩
            · simp at h
          · right; split at h
            · rename_i c; simp at h; exact ⟨(q_wants_text_iff _).mp c, h⟩
            · simp at h
      · simp at h


/-! ### what each strategy contributes -/
variable (known : List Rec)

theorem keys_answerEnum {types : List String} {a : Rec} (h : a ∈ keysOf (answerEnum lower ettl known types)) :
    ∃ t ∈ types, a = enumPtr ettl t ∧ suppresses lower known a = false := by
  unfold answerEnum at h
  obtain ⟨e, he, ha⟩ := mergeAll_keys lower h
  rw [List.mem_map] at he
  obtain ⟨t, ht, rfl⟩ := he
  unfold enumEntry at ha
  cases hs : suppresses lower known (enumPtr ettl t) <;> simp [hs, keysOf] at ha
  exact ⟨t, ht, ha, by rw [ha]; exact hs⟩

theorem keys_answerPointer {svcs : List Svc} {a : Rec} (h : a ∈ keysOf (answerPointer lower known svcs)) :
    ∃ s ∈ svcs, a = s.ptr ∧ suppresses lower known a = false := by
  unfold answerPointer at h
  obtain ⟨e, he, ha⟩ := mergeAll_keys lower h
  rw [List.mem_map] at he
  obtain ⟨s, hs, rfl⟩ := he
  unfold pointerEntry at ha
  cases hsup : suppresses lower known s.ptr <;> simp [hsup, keysOf] at ha
  exact ⟨s, hs, ha, by rw [ha]; exact hsup⟩

theorem mem_addressEntries {qt : Nat} {s : Svc} {p : Rec × List Rec} (h : p ∈ addressEntries lower known qt s) :
    ((p.1 ∈ s.addrs ∧ p.1.type = qt ∧ suppresses lower known p.1 = false)
        ∧ ∀ x ∈ p.2, (x ∈ s.addrs ∨ (Svc.missingTypes s.addrs ≠ [] ∧ x = s.buildNsec (Svc.missingTypes s.addrs))))
    ∨ (p = (s.buildNsec (Svc.missingTypes s.addrs), []) ∧ qt ∈ Svc.missingTypes s.addrs) := by
  unfold addressEntries at h
  simp only at h
  split at h
  · left
    rw [List.mem_map] at h
    obtain ⟨a, ha, rfl⟩ := h
    rw [List.mem_filter] at ha
    obtain ⟨ha1, ha2⟩ := ha
    simp only [Bool.and_eq_true, Bool.not_eq_true', addr_is_other_type_iff_false] at ha2
    refine ⟨⟨ha1, ha2.1, ha2.2⟩, ?_⟩
    intro x hx
    simp only at hx
    split at hx
    · left; exact (List.mem_filter.mp (mem_recSet lower hx)).1
    · rename_i hm
      rcases mem_recInsert lower hx with h1 | h1
      · left; exact (List.mem_filter.mp (mem_recSet lower h1)).1
      · right; exact ⟨by simpa using hm, h1⟩
  · split at h
    · rename_i hc
      right
      simp only [List.mem_singleton] at h
      exact ⟨h, by simpa using hc⟩
    · simp at h

theorem keys_answerAddress {qt : Nat} {svcs : List Svc} {a : Rec} (h : a ∈ keysOf (answerAddress lower known qt svcs)) :
    ∃ s ∈ svcs, (a ∈ s.addrs ∧ a.type = qt ∧ suppresses lower known a = false)
      ∨ (a = s.buildNsec (Svc.missingTypes s.addrs) ∧ qt ∈ Svc.missingTypes s.addrs) := by
  unfold answerAddress at h
  obtain ⟨e, he, ha⟩ := mergeAll_keys lower h
  rw [List.mem_map] at he
  obtain ⟨s, hs, rfl⟩ := he
  simp only [keysOf, List.mem_map] at ha
  obtain ⟨p, hp, rfl⟩ := ha
  refine ⟨s, hs, ?_⟩
  rcases mem_addressEntries lower known hp with ⟨h1, _⟩ | ⟨h1, h2⟩
  · exact Or.inl h1
  · exact Or.inr ⟨by rw [h1], h2⟩


/-! ### soundness of the answer keys -/

/-- every registered object's memo is fresh -/
def AllFresh (reg : Registry) : Prop := ∀ s ∈ reg.services, MemoOk lower s

theorem RespSpec.missing_sub (s : Svc) (t : Nat) (h : t ∈ RespSpec.missing s) : t = 1 ∨ t = 28 := by
  unfold RespSpec.missing at h
  cases h4 : s.v4 <;> cases h6 : s.v6 <;> simp [h4, h6] at h <;> omega

theorem RespSpec.nsec_of_missing (s : Svc) (t : Nat) (h : t ∈ RespSpec.missing s) :
    s.buildNsec (RespSpec.missing s) ∈ RespSpec.nsecOf s ∧ RespSpec.isNsec (s.buildNsec (RespSpec.missing s)) = true := by
  have hne : RespSpec.missing s ≠ [] := List.ne_nil_of_mem h
  rw [Svc.buildNsec_eq s hne]
  exact ⟨by simp, by simp [RespSpec.isNsec, Svc.buildNsec, RData.kind]⟩

theorem strategy_key_sound {reg : Registry} {q : Question} {st : Strategy} {a : Rec}
    (hi : IndexInv lower reg) (hm : AllFresh lower reg)
    (hst : st ∈ pureStrategies lower reg q) (ha : a ∈ keysOf (st.answer lower ettl known)) :
    ∃ s ∈ reg.services, a ∈ RespSpec.candidates lower ettl s q
      ∧ (RespSpec.isNsec a = true ∨ suppresses lower known a = false) := by
  rcases mem_pureStrategies lower hst with ⟨he, rfl⟩ | ⟨hne, h⟩
  · -- enumeration
    obtain ⟨t, ht, rfl, hsup⟩ := keys_answerEnum lower ettl known ha
    unfold Registry.getTypes at ht
    rw [List.mem_map] at ht
    obtain ⟨p, hp, rfl⟩ := ht
    obtain ⟨s, hs, hst⟩ := hi.types.backed lower hp
    refine ⟨s, hs, (mem_candidates lower ettl s q _).mpr (Or.inl ⟨he, ?_⟩), Or.inr hsup⟩
    rw [enumPtr_eq, ← hst]; rfl
  · rcases h with ⟨hq, rfl⟩ | ⟨hq, rfl⟩ | ⟨s, hs, h⟩
    · -- pointer
      obtain ⟨s, hs, rfl, hsup⟩ := keys_answerPointer lower known ha
      obtain ⟨hs1, hs2⟩ := List.mem_filter.mp hs
      refine ⟨s, hs1, (mem_candidates lower ettl s q _).mpr (Or.inr ⟨hne, Or.inl ⟨hq, ?_, ?_⟩⟩), Or.inr hsup⟩
      · simpa [Svc.typeKey, eq_comm] using hs2
      · rw [(hm s hs1).ptr_eq, Svc.buildPtr_eq]
    · -- address
      obtain ⟨s, hs, h⟩ := keys_answerAddress lower known ha
      obtain ⟨hs1, hs2⟩ := List.mem_filter.mp hs
      have hn : lower q.name = lower s.server := by simpa [Svc.serverKey, eq_comm] using hs2
      have haddrs : s.addrs = RespSpec.addrsOf s := by rw [(hm s hs1).addrs_eq, Svc.buildAddrs_eq]
      rw [haddrs] at h
      refine ⟨s, hs1, ?_⟩
      rcases h with ⟨h1, h2, h3⟩ | ⟨h1, h2⟩
      · have hty : q.type = 1 ∨ q.type = 28 := by
          rcases RespSpec.addrsOf_type s a h1 with ⟨e, _⟩ | ⟨e, _⟩ <;> rw [← h2, e] <;> simp
        exact ⟨(mem_candidates lower ettl s q _).mpr (Or.inr ⟨hne, Or.inr (Or.inl ⟨hty, hn, Or.inl ⟨h1, h2⟩⟩)⟩), Or.inr h3⟩
      · rw [Svc.missingTypes_eq] at h1 h2
        obtain ⟨hn1, hn2⟩ := RespSpec.nsec_of_missing s q.type h2
        rw [h1]
        exact ⟨(mem_candidates lower ettl s q _).mpr
          (Or.inr ⟨hne, Or.inr (Or.inl ⟨RespSpec.missing_sub s q.type h2, hn, Or.inr ⟨h2, hn1⟩⟩)⟩), Or.inl hn2⟩
    · obtain ⟨hs1, hs2⟩ := sget_some_mem lower hs
      rcases h with ⟨hq, rfl⟩ | ⟨hq, rfl⟩
      · -- service
        simp only [Strategy.answer] at ha
        cases hsup : suppresses lower known s.srv <;> simp [hsup, keysOf] at ha
        subst ha
        refine ⟨s, hs1, (mem_candidates lower ettl s q _).mpr (Or.inr ⟨hne, Or.inr (Or.inr (Or.inl ⟨hq, hs2.symm, ?_⟩))⟩), Or.inr hsup⟩
        rw [(hm s hs1).srv_eq, Svc.buildSrv_eq]
      · -- text
        simp only [Strategy.answer] at ha
        cases hsup : suppresses lower known s.txt <;> simp [hsup, keysOf] at ha
        subst ha
        refine ⟨s, hs1, (mem_candidates lower ettl s q _).mpr (Or.inr ⟨hne, Or.inr (Or.inr (Or.inr ⟨hq, hs2.symm, ?_⟩))⟩), Or.inr hsup⟩
        rw [(hm s hs1).txt_eq, Svc.buildTxt_eq]


/-! ### additionals -/

/-- additionals of an entry: none, or all of them SRV/TXT/address/NSEC records of one service that owns the answer -/
def AddOk (svcs : List Svc) (p : Rec × List Rec) : Prop :=
  p.2 = [] ∨ ∃ s ∈ svcs, (∃ o ∈ RespSpec.own lower ettl s, o.beq lower p.1 = true) ∧ ∀ x ∈ p.2, x ∈ RespSpec.extras s

theorem AddOk.congr (svcs : List Svc) : KeyCongr lower (AddOk lower ettl svcs) := by
  intro a a' v hb h
  rcases h with h | ⟨s, hs, ⟨o, ho, hob⟩, hx⟩
  · exact Or.inl h
  · exact Or.inr ⟨s, hs, ⟨o, ho, beq_trans lower hob (beq_symm lower hb)⟩, hx⟩

theorem Svc.freshAN_sub (s : Svc) (x : Rec) (h : x ∈ s.freshAN lower) : x ∈ RespSpec.addrsOf s ∨ x ∈ RespSpec.nsecOf s := by
  rw [Svc.freshAN_eq] at h
  simp only at h
  rw [Svc.buildAddrs_eq, Svc.missingTypes_eq] at h
  split at h
  · left; exact mem_recSet lower h
  · rename_i hm
    rcases mem_recInsert lower h with h1 | h1
    · left; exact mem_recSet lower h1
    · right; rw [Svc.buildNsec_eq s (by simpa using hm), h1]; simp

theorem mem_extras (s : Svc) (x : Rec) :
    x ∈ RespSpec.extras s ↔ x = RespSpec.srvOf s ∨ x = RespSpec.txtOf s ∨ x ∈ RespSpec.addrsOf s ∨ x ∈ RespSpec.nsecOf s := by
  simp [RespSpec.extras, or_assoc]

theorem mem_own (s : Svc) (x : Rec) :
    x ∈ RespSpec.own lower ettl s ↔ x = RespSpec.enumPtr ettl (lower s.type) ∨ x = RespSpec.ptrOf s ∨ x = RespSpec.srvOf s
      ∨ x = RespSpec.txtOf s ∨ x ∈ RespSpec.addrsOf s ∨ x ∈ RespSpec.nsecOf s := by
  simp [RespSpec.own, or_assoc]

theorem strategy_pair_ok {reg : Registry} {q : Question} {st : Strategy}
    (hm : AllFresh lower reg) (hst : st ∈ pureStrategies lower reg q) :
    ∀ p ∈ st.answer lower ettl known, AddOk lower ettl reg.services p := by
  rcases mem_pureStrategies lower hst with ⟨he, rfl⟩ | ⟨hne, h⟩
  · -- enumeration: no additionals
    simp only [Strategy.answer, answerEnum]
    apply mergeAll_spec lower _ (AddOk.congr lower ettl _)
    intro e he p hp
    rw [List.mem_map] at he
    obtain ⟨t, _, rfl⟩ := he
    unfold enumEntry at hp
    split at hp <;> simp at hp
    left; rw [hp]
  · rcases h with ⟨hq, rfl⟩ | ⟨hq, rfl⟩ | ⟨s, hs, h⟩
    · simp only [Strategy.answer, answerPointer]
      apply mergeAll_spec lower _ (AddOk.congr lower ettl _)
      intro e he p hp
      rw [List.mem_map] at he
      obtain ⟨s, hs, rfl⟩ := he
      have hs1 := (List.mem_filter.mp hs).1
      have hf := hm s hs1
      unfold pointerEntry at hp
      split at hp <;> simp at hp
      right
      refine ⟨s, hs1, ⟨RespSpec.ptrOf s, (mem_own lower ettl s _).mpr (Or.inr (Or.inl rfl)), ?_⟩, ?_⟩
      · rw [hp, hf.ptr_eq, Svc.buildPtr_eq]; exact beq_refl lower _
      · intro x hx
        rw [hp] at hx
        have hx2 := mem_recSet lower hx
        rw [hf.srv_eq, hf.txt_eq, hf.an_eq, Svc.buildSrv_eq, Svc.buildTxt_eq] at hx2
        simp only [List.cons_append, List.nil_append, List.mem_cons] at hx2
        rw [mem_extras]
        rcases hx2 with h1 | h1 | h1
        · exact Or.inl h1
        · exact Or.inr (Or.inl h1)
        · exact Or.inr (Or.inr (Svc.freshAN_sub lower s x h1))
    · simp only [Strategy.answer, answerAddress]
      apply mergeAll_spec lower _ (AddOk.congr lower ettl _)
      intro e he p hp
      rw [List.mem_map] at he
      obtain ⟨s, hs, rfl⟩ := he
      have hs1 := (List.mem_filter.mp hs).1
      have hf := hm s hs1
      have haddrs : s.addrs = RespSpec.addrsOf s := by rw [hf.addrs_eq, Svc.buildAddrs_eq]
      rcases mem_addressEntries lower known hp with ⟨⟨h1, _, _⟩, h2⟩ | ⟨h1, _⟩
      · right
        rw [haddrs] at h1 h2
        refine ⟨s, hs1, ⟨p.1, (mem_own lower ettl s _).mpr (Or.inr (Or.inr (Or.inr (Or.inr (Or.inl h1))))), beq_refl lower _⟩, ?_⟩
        intro x hx
        rw [mem_extras]
        rcases h2 x hx with h3 | ⟨h3, h4⟩
        · exact Or.inr (Or.inr (Or.inl h3))
        · rw [Svc.missingTypes_eq] at h3 h4
          right; right; right
          rw [Svc.buildNsec_eq s h3, h4]; simp
      · left; rw [h1]
    · obtain ⟨hs1, _⟩ := sget_some_mem lower hs
      have hf := hm s hs1
      rcases h with ⟨_, rfl⟩ | ⟨_, rfl⟩
      · intro p hp
        simp only [Strategy.answer] at hp
        split at hp <;> simp at hp
        right
        refine ⟨s, hs1, ⟨RespSpec.srvOf s, (mem_own lower ettl s _).mpr (Or.inr (Or.inr (Or.inl rfl))), ?_⟩, ?_⟩
        · rw [hp, hf.srv_eq, Svc.buildSrv_eq]; exact beq_refl lower _
        · intro x hx
          rw [hp, hf.an_eq] at hx
          rw [mem_extras]
          exact Or.inr (Or.inr (Svc.freshAN_sub lower s x hx))
      · intro p hp
        simp only [Strategy.answer] at hp
        split at hp <;> simp at hp
        left; rw [hp]


/-! ### completeness -/

theorem dget_some_mem {β : Type} {k : String} {l : List (String × β)} {v : β} (h : dget k l = some v) : k ∈ l.map Prod.fst := by
  induction l with
  | nil => simp [dget] at h
  | cons p r ih =>
    obtain ⟨a, b⟩ := p
    by_cases e : a = k
    · simp [e]
    · simp only [dget, e, if_false] at h
      simp [ih h]

theorem enum_mem {reg : Registry} {q : Question} (he : IsEnumQ lower q) (hn : reg.getTypes ≠ []) :
    Strategy.enum reg.getTypes ∈ pureStrategies lower reg q := by
  unfold pureStrategies
  rw [if_pos ((isEnum_iff lower q).mpr he)]
  have : reg.getTypes.isEmpty = false := by simpa using hn
  simp [this]

theorem pointer_mem {reg : Registry} {q : Question} (he : ¬ IsEnumQ lower q) (hq : q.type = 12 ∨ q.type = 255)
    (hn : typeBucket lower reg q ≠ []) : Strategy.pointer (typeBucket lower reg q) ∈ pureStrategies lower reg q := by
  unfold pureStrategies
  rw [if_neg (fun e => he ((isEnum_iff lower q).mp e)), if_pos ((q_wants_pointer_iff _).mpr hq)]
  have : (typeBucket lower reg q).isEmpty = false := by simpa using hn
  simp [this]

theorem address_mem {reg : Registry} {q : Question} (he : ¬ IsEnumQ lower q) (hq : q.type = 1 ∨ q.type = 28)
    (hn : hostBucket lower reg q ≠ []) : Strategy.address q.type (hostBucket lower reg q) ∈ pureStrategies lower reg q := by
  unfold pureStrategies
  have hw : Gen.Responder.q_wants_address q.type = true := (q_wants_address_iff _).mpr (by omega)
  rw [if_neg (fun e => he ((isEnum_iff lower q).mp e))]
  have : (hostBucket lower reg q).isEmpty = false := by simpa using hn
  simp [this, hw]

theorem service_mem {reg : Registry} {q : Question} {s : Svc} (he : ¬ IsEnumQ lower q) (hq : q.type = 33 ∨ q.type = 255)
    (hs : sget lower (lower q.name) reg.services = some s) : Strategy.service s ∈ pureStrategies lower reg q := by
  unfold pureStrategies instancePart
  have hw : Gen.Responder.q_wants_instance q.type = true := (q_wants_instance_iff _).mpr (by omega)
  have hw2 : Gen.Responder.q_wants_service q.type = true := (q_wants_service_iff _).mpr hq
  rw [if_neg (fun e => he ((isEnum_iff lower q).mp e))]
  simp [hw, hw2, hs]

theorem text_mem {reg : Registry} {q : Question} {s : Svc} (he : ¬ IsEnumQ lower q) (hq : q.type = 16 ∨ q.type = 255)
    (hs : sget lower (lower q.name) reg.services = some s) : Strategy.text s ∈ pureStrategies lower reg q := by
  unfold pureStrategies instancePart
  have hw : Gen.Responder.q_wants_instance q.type = true := (q_wants_instance_iff _).mpr (by omega)
  have hw2 : Gen.Responder.q_wants_text q.type = true := (q_wants_text_iff _).mpr hq
  rw [if_neg (fun e => he ((isEnum_iff lower q).mp e))]
  simp [hw, hw2, hs]

theorem hasId_single (r : Rec) (v : List Rec) : hasId lower [(r, v)] r :=
  ⟨r, by simp [keysOf], beq_refl lower r⟩

theorem RespSpec.no_addr_of_missing (s : Svc) (t : Nat) (h : t ∈ RespSpec.missing s) : ∀ a ∈ RespSpec.addrsOf s, a.type ≠ t := by
  intro a ha e
  unfold RespSpec.missing at h
  rcases RespSpec.addrsOf_type s a ha with ⟨e1, e2⟩ | ⟨e1, e2⟩
  · cases h4 : s.v4 with
    | nil => exact e2 h4
    | cons x y => cases h6 : s.v6 <;> simp [h4, h6] at h <;> omega
  · cases h6 : s.v6 with
    | nil => exact e2 h6
    | cons x y => cases h4 : s.v4 <;> simp [h4, h6] at h <;> omega

/-- every candidate that is not suppressed (NSEC: regardless) is a key, up to identity, of some strategy's answer -/
theorem strategy_complete {reg : Registry} {q : Question} {s : Svc} {r : Rec}
    (hi : IndexInv lower reg) (hm : AllFresh lower reg) (hs : s ∈ reg.services)
    (hr : r ∈ RespSpec.candidates lower ettl s q)
    (hk : RespSpec.isNsec r = true ∨ suppresses lower known r = false) :
    ∃ st ∈ pureStrategies lower reg q, hasId lower (st.answer lower ettl known) r := by
  have hf := hm s hs
  rcases (mem_candidates lower ettl s q r).mp hr with ⟨he, rfl⟩ | ⟨hne, h⟩
  · -- enumeration
    have hsup : suppresses lower known (RespSpec.enumPtr ettl (lower s.type)) = false := by
      rcases hk with h | h
      · simp [RespSpec.isNsec, RespSpec.enumPtr, RData.kind] at h
      · exact h
    have hb : bucketSpec lower (Svc.typeKey lower) reg.services (lower s.type) ≠ [] :=
      List.ne_nil_of_mem ((mem_bucketSpec lower _ _ _ _).mpr ⟨s, hs, rfl, rfl⟩)
    have hg := hi.types (lower s.type)
    simp only [hb, if_false] at hg
    have hmem : lower s.type ∈ reg.getTypes := dget_some_mem hg
    refine ⟨.enum reg.getTypes, enum_mem lower he (List.ne_nil_of_mem hmem), ?_⟩
    simp only [Strategy.answer, answerEnum]
    have : enumEntry lower ettl known (lower s.type) = [(RespSpec.enumPtr ettl (lower s.type), [])] := by
      unfold enumEntry; rw [enumPtr_eq, hsup]; simp
    have hp : (RespSpec.enumPtr ettl (lower s.type), ([] : List Rec)) ∈ enumEntry lower ettl known (lower s.type) := by
      rw [this]; simp
    exact mergeAll_has lower (List.mem_map.mpr ⟨lower s.type, hmem, rfl⟩) hp
  · rcases h with ⟨hq, hn, rfl⟩ | ⟨hq, hn, h⟩ | ⟨hq, hn, rfl⟩ | ⟨hq, hn, rfl⟩
    · -- pointer
      have hsup : suppresses lower known s.ptr = false := by
        rw [hf.ptr_eq, Svc.buildPtr_eq]
        rcases hk with h | h
        · simp [RespSpec.isNsec, RespSpec.ptrOf, RData.kind] at h
        · exact h
      have hb : s ∈ typeBucket lower reg q := List.mem_filter.mpr ⟨hs, by simp [Svc.typeKey, hn]⟩
      refine ⟨.pointer (typeBucket lower reg q), pointer_mem lower hne hq (List.ne_nil_of_mem hb), ?_⟩
      simp only [Strategy.answer, answerPointer]
      have hp : (s.ptr, recSet lower ([s.srv, s.txt] ++ s.an lower)) ∈ pointerEntry lower known s := by
        unfold pointerEntry; rw [hsup]; simp
      have := mergeAll_has lower (List.mem_map.mpr ⟨s, hb, rfl⟩) hp
      rwa [hf.ptr_eq, Svc.buildPtr_eq] at this
    · -- address / NSEC
      have hb : s ∈ hostBucket lower reg q := List.mem_filter.mpr ⟨hs, by simp [Svc.serverKey, hn]⟩
      have haddrs : s.addrs = RespSpec.addrsOf s := by rw [hf.addrs_eq, Svc.buildAddrs_eq]
      refine ⟨.address q.type (hostBucket lower reg q), address_mem lower hne hq (List.ne_nil_of_mem hb), ?_⟩
      simp only [Strategy.answer, answerAddress]
      rcases h with ⟨h1, h2⟩ | ⟨h1, h2⟩
      · have hsup : suppresses lower known r = false := by
          rcases hk with h | h
          · have h3 := h1
            simp only [RespSpec.addrsOf, List.mem_append, List.mem_map] at h3
            rcases h3 with ⟨x, _, rfl⟩ | ⟨x, _, rfl⟩ <;> simp [RespSpec.isNsec, RData.kind] at h
          · exact h
        have hfil : r ∈ s.addrs.filter (fun a => !(Gen.Responder.addr_is_other_type a.type q.type) && !(suppresses lower known a)) := by
          rw [List.mem_filter, haddrs]
          refine ⟨h1, ?_⟩
          simp [hsup, (addr_is_other_type_iff_false r.type q.type).mpr h2]
        have hp : ∃ v, (r, v) ∈ addressEntries lower known q.type s := by
          unfold addressEntries
          simp only
          have hne2 : (s.addrs.filter (fun a => !(Gen.Responder.addr_is_other_type a.type q.type) && !(suppresses lower known a))).isEmpty = false := by
            simpa using List.ne_nil_of_mem hfil
          rw [hne2]
          simp only [Bool.not_false, if_true]
          exact ⟨_, List.mem_map.mpr ⟨r, hfil, rfl⟩⟩
        obtain ⟨v, hv⟩ := hp
        exact mergeAll_has lower (List.mem_map.mpr ⟨s, hb, rfl⟩) hv
      · have hmiss : Svc.missingTypes s.addrs = RespSpec.missing s := by rw [haddrs, Svc.missingTypes_eq]
        have hnone := RespSpec.no_addr_of_missing s q.type h1
        have hemp : (s.addrs.filter (fun a => !(Gen.Responder.addr_is_other_type a.type q.type) && !(suppresses lower known a))).isEmpty = true := by
          rw [List.isEmpty_iff, List.filter_eq_nil_iff, haddrs]
          intro a ha
          have := hnone a ha
          simp [(addr_is_other_type_iff a.type q.type).mpr this]
        have hr2 : r = s.buildNsec (RespSpec.missing s) := by
          rw [Svc.buildNsec_eq s (List.ne_nil_of_mem h1)] at h2
          simpa using h2
        have hp : (r, []) ∈ addressEntries lower known q.type s := by
          unfold addressEntries
          simp only
          rw [hemp, hmiss]
          have : (RespSpec.missing s).contains q.type = true := by simpa using h1
          simp [this, hr2, h1]
        exact mergeAll_has lower (List.mem_map.mpr ⟨s, hb, rfl⟩) hp
    · -- service
      have hg : sget lower (lower q.name) reg.services = some s := by rw [hn]; exact sget_of_mem lower hi.distinct hs
      have hsup : suppresses lower known s.srv = false := by
        rw [hf.srv_eq, Svc.buildSrv_eq]
        rcases hk with h | h
        · simp [RespSpec.isNsec, RespSpec.srvOf, RData.kind] at h
        · exact h
      refine ⟨.service s, service_mem lower hne hq hg, ?_⟩
      simp only [Strategy.answer, hsup]
      have := hasId_single lower s.srv (s.an lower)
      rw [hf.srv_eq, Svc.buildSrv_eq] at this
      simpa [hf.srv_eq, Svc.buildSrv_eq] using this
    · -- text
      have hg : sget lower (lower q.name) reg.services = some s := by rw [hn]; exact sget_of_mem lower hi.distinct hs
      have hsup : suppresses lower known s.txt = false := by
        rw [hf.txt_eq, Svc.buildTxt_eq]
        rcases hk with h | h
        · simp [RespSpec.isNsec, RespSpec.txtOf, RData.kind] at h
        · exact h
      refine ⟨.text s, text_mem lower hne hq hg, ?_⟩
      simp only [Strategy.answer, hsup]
      have := hasId_single lower s.txt []
      simpa [hf.txt_eq, Svc.buildTxt_eq] using this


/-! ### `respond` under the invariant; queries preserve the invariants -/

/-- the strategies of a whole query -/
def strategiesOf (reg : Registry) (msgs : List Msg) : List Strategy := (questionsOf msgs).flatMap (pureStrategies lower reg)

/-- the merged answer ↦ additionals map -/
def answerMap (reg : Registry) (msgs : List Msg) : DictRS :=
  mergeAll lower ((strategiesOf lower reg msgs).map (fun st => st.answer lower ettl (knownOf msgs)))

/-- the registry after the memo fills of a query -/
def warmed (reg : Registry) (msgs : List Msg) : Registry :=
  { reg with services := reg.services.map (fun s => (strategiesOf lower reg msgs).foldl (fun s st => st.warm lower (knownOf msgs) s) s) }

theorem respond_ok {reg : Registry} (hi : IndexInv lower reg) (msgs : List Msg) :
    (strategiesOf lower reg msgs = [] ∧ respond lower ettl reg msgs = .ok (none, reg))
    ∨ (strategiesOf lower reg msgs ≠ [] ∧
        respond lower ettl reg msgs = .ok (some (answerMap lower ettl reg msgs), warmed lower reg msgs)) := by
  unfold respond
  rw [strategiesAll_ok lower hi]
  unfold answerMap warmed strategiesOf
  cases h : (questionsOf msgs).flatMap (pureStrategies lower reg) with
  | nil => left; exact ⟨rfl, rfl⟩
  | cons a r => right; exact ⟨by simp, rfl⟩

theorem Svc.warmAN_fields (s : Svc) :
    (s.warmAN lower).name = s.name ∧ (s.warmAN lower).type = s.type ∧ (s.warmAN lower).server = s.server
    ∧ (s.warmAN lower).clearMemo = s.clearMemo := by
  unfold Svc.warmAN; split <;> simp [Svc.clearMemo]

theorem Strategy.warm_fields (st : Strategy) (s : Svc) :
    (st.warm lower known s).name = s.name ∧ (st.warm lower known s).type = s.type ∧ (st.warm lower known s).server = s.server
    ∧ (st.warm lower known s).clearMemo = s.clearMemo := by
  cases st with
  | enum t => simp [Strategy.warm]
  | pointer svcs =>
    simp only [Strategy.warm]
    split
    · split
      · simp [Svc.warmPtr, Svc.clearMemo]
      · have := Svc.warmAN_fields lower ((s.warmPtr).warmSrv.warmTxt)
        simp only [Svc.warmPtr, Svc.warmSrv, Svc.warmTxt, Svc.clearMemo] at this ⊢
        exact this
    · simp
  | address qt svcs => simp only [Strategy.warm]; split <;> simp [Svc.warmAddrs, Svc.clearMemo]
  | service o =>
    simp only [Strategy.warm]
    split
    · split
      · simp [Svc.warmSrv, Svc.clearMemo]
      · have := Svc.warmAN_fields lower s.warmSrv
        simp only [Svc.warmSrv, Svc.clearMemo] at this ⊢
        exact this
    · simp
  | text o => simp only [Strategy.warm]; split <;> simp [Svc.warmTxt, Svc.clearMemo]

theorem Strategy.warm_memoOk (st : Strategy) {s : Svc} (h : MemoOk lower s) : MemoOk lower (st.warm lower known s) := by
  cases st with
  | enum t => simpa [Strategy.warm] using h
  | pointer svcs =>
    simp only [Strategy.warm]
    split
    · split
      · exact h.warmPtr
      · exact h.warmPtr.warmSrv.warmTxt.warmAN
    · exact h
  | address qt svcs => simp only [Strategy.warm]; split; exact h.warmAddrs; exact h
  | service o =>
    simp only [Strategy.warm]
    split
    · split
      · exact h.warmSrv
      · exact h.warmSrv.warmAN
    · exact h
  | text o => simp only [Strategy.warm]; split; exact h.warmTxt; exact h

theorem warmFold_fields (sts : List Strategy) (s : Svc) :
    let s' := sts.foldl (fun s st => st.warm lower known s) s
    s'.name = s.name ∧ s'.type = s.type ∧ s'.server = s.server ∧ s'.clearMemo = s.clearMemo := by
  induction sts generalizing s with
  | nil => simp
  | cons st r ih =>
    simp only [List.foldl_cons]
    obtain ⟨a, b, c, d⟩ := ih (st.warm lower known s)
    obtain ⟨a', b', c', d'⟩ := Strategy.warm_fields lower known st s
    exact ⟨a.trans a', b.trans b', c.trans c', d.trans d'⟩

theorem warmFold_memoOk (sts : List Strategy) {s : Svc} (h : MemoOk lower s) :
    MemoOk lower (sts.foldl (fun s st => st.warm lower known s) s) := by
  induction sts generalizing s with
  | nil => exact h
  | cons st r ih => simp only [List.foldl_cons]; exact ih (Strategy.warm_memoOk lower known st h)

theorem warmed_inv {reg : Registry} (hi : IndexInv lower reg) (msgs : List Msg) : IndexInv lower (warmed lower reg msgs) := by
  unfold warmed
  apply hi.mapServices lower
  · intro s; exact (warmFold_fields lower _ _ s).1
  · intro s; exact (warmFold_fields lower _ _ s).2.1
  · intro s; exact (warmFold_fields lower _ _ s).2.2.1

/-- a query fills memos only with what the builders construct: every object that was fresh stays fresh -/
theorem warmed_memo {reg : Registry} (msgs : List Msg) (k : String)
    (h : ∀ s ∈ reg.services, lower s.name = k → MemoOk lower s) :
    ∀ s ∈ (warmed lower reg msgs).services, lower s.name = k → MemoOk lower s := by
  intro s hs hk
  unfold warmed at hs
  simp only [List.mem_map] at hs
  obtain ⟨o, ho, rfl⟩ := hs
  have hn := (warmFold_fields lower (knownOf msgs) (strategiesOf lower reg msgs) o).1
  exact warmFold_memoOk lower _ _ (h o ho (by rw [← hn]; exact hk))

theorem warmed_fields (reg : Registry) (msgs : List Msg) :
    (warmed lower reg msgs).services.map Svc.clearMemo = reg.services.map Svc.clearMemo := by
  unfold warmed
  simp only [List.map_map]
  apply List.map_congr_left
  intro s _
  exact (warmFold_fields lower (knownOf msgs) (strategiesOf lower reg msgs) s).2.2.2

/-! ### the answer map against the specification -/

theorem answerMap_sound {reg : Registry} (hi : IndexInv lower reg) (hm : AllFresh lower reg) (msgs : List Msg) {a : Rec}
    (ha : a ∈ keysOf (answerMap lower ettl reg msgs)) :
    ∃ q ∈ questionsOf msgs, ∃ s ∈ reg.services, a ∈ RespSpec.candidates lower ettl s q
      ∧ (RespSpec.isNsec a = true ∨ suppresses lower (knownOf msgs) a = false) := by
  unfold answerMap at ha
  obtain ⟨e, he, hae⟩ := mergeAll_keys lower ha
  rw [List.mem_map] at he
  obtain ⟨st, hst, rfl⟩ := he
  unfold strategiesOf at hst
  rw [List.mem_flatMap] at hst
  obtain ⟨q, hq, hst⟩ := hst
  obtain ⟨s, hs, h1, h2⟩ := strategy_key_sound lower ettl (knownOf msgs) hi hm hst hae
  exact ⟨q, hq, s, hs, h1, h2⟩

theorem answerMap_complete {reg : Registry} (hi : IndexInv lower reg) (hm : AllFresh lower reg) (msgs : List Msg)
    {q : Question} (hq : q ∈ questionsOf msgs) {s : Svc} (hs : s ∈ reg.services) {r : Rec}
    (hr : r ∈ RespSpec.candidates lower ettl s q)
    (hk : RespSpec.isNsec r = true ∨ suppresses lower (knownOf msgs) r = false) :
    hasId lower (answerMap lower ettl reg msgs) r := by
  obtain ⟨st, hst, hid⟩ := strategy_complete lower ettl (knownOf msgs) hi hm hs hr hk
  unfold answerMap
  refine mergeAll_hasId lower (List.mem_map.mpr ⟨st, ?_, rfl⟩) hid
  unfold strategiesOf
  exact List.mem_flatMap.mpr ⟨q, hq, hst⟩

theorem answerMap_additionals {reg : Registry} (hm : AllFresh lower reg) (msgs : List Msg) :
    ∀ p ∈ answerMap lower ettl reg msgs, AddOk lower ettl reg.services p := by
  unfold answerMap
  apply mergeAll_spec lower _ (AddOk.congr lower ettl _)
  intro e he p hp
  rw [List.mem_map] at he
  obtain ⟨st, hst, rfl⟩ := he
  unfold strategiesOf at hst
  rw [List.mem_flatMap] at hst
  obtain ⟨q, _, hst⟩ := hst
  exact strategy_pair_ok lower ettl (knownOf msgs) hm hst p hp

end
end Zc
