import Zc.Proofs.FlatOps
import Zc.GenFacts.Cache
/-! Closed forms for `RecordManager.async_updates_from_response` over the reference store: what the
`for record in answers` loop leaves in the cache and in the five work lists. -/
namespace Zc

theorem flatMap_ite_singleton {α} (l : List α) (p : α → Bool) : l.flatMap (fun r => if p r then [r] else []) = l.filter p := by
  induction l with
  | nil => rfl
  | cons a t ih => simp only [List.flatMap_cons, ih, List.filter_cons]; split <;> simp

section
variable (lower : String → String)

/-- what one datagram record does to one cached record: refresh it if it is the same record and not a goodbye -/
def refreshOne (now : Ms) (r e : Rec) : Rec :=
  if e.beq lower r && !(r.isExpired now) then e.setLife r.created r.ttl else e

/-- … and what the whole datagram does to it -/
def refresh (now : Ms) (D : List Rec) (e : Rec) : Rec := D.foldl (fun e r => refreshOne lower now r e) e

/-- the `RecordUpdate` a datagram record produces, given the cache before the datagram -/
def updOf (now : Ms) (c : List Rec) (r : Rec) : Option (Rec × Bool) :=
  if !(r.isExpired now) then some (r, Flat.pres lower c r)
  else if Flat.pres lower c r then some (r, true) else none

def isNewAdd (now : Ms) (c : List Rec) (r : Rec) : Bool := !(r.isExpired now) && !(Flat.pres lower c r)
def isGoodbye (now : Ms) (c : List Rec) (r : Rec) : Bool := r.isExpired now && Flat.pres lower c r

variable {lower}

@[simp] theorem ident_refreshOne (now : Ms) (r e : Rec) : (refreshOne lower now r e).ident lower = e.ident lower := by
  unfold refreshOne; split <;> simp

theorem ident_refresh (now : Ms) (D : List Rec) (e : Rec) : (refresh lower now D e).ident lower = e.ident lower := by
  induction D generalizing e with
  | nil => rfl
  | cons r t ih => simp only [refresh, List.foldl_cons] at ih ⊢; rw [ih]; simp

theorem refresh_cons (now : Ms) (r : Rec) (t : List Rec) (e : Rec) :
    refresh lower now (r :: t) e = refresh lower now t (refreshOne lower now r e) := rfl

/-- the loop body touches the cache by refreshing the record's cached copy, if any -/
theorem ingestStep_cache_flat (now : Ms) (a : IngestAcc (List Rec)) (r0 : Rec) :
    (ingestStep lower (Flat.ops lower) now a r0).cache = a.cache.map (refreshOne lower now (floorPtr r0)) := by
  unfold ingestStep
  dsimp only
  cases hg : (Flat.ops lower).getUnique a.cache (floorPtr r0) <;> cases hx : (floorPtr r0).isExpired now <;> dsimp only
  · have hnone : ∀ e ∈ a.cache, refreshOne lower now (floorPtr r0) e = e := by
      intro e he
      have := (List.find?_eq_none.1 hg) e he
      simp only [Bool.not_eq_true] at this
      simp [refreshOne, this]
    have : a.cache.map (refreshOne lower now (floorPtr r0)) = a.cache := by
      rw [List.map_congr_left hnone]; simp
    split <;> exact this.symm
  · have : refreshOne lower now (floorPtr r0) = id := by funext e; simp [refreshOne, hx]
    rw [this]; simp
  · show Flat.resetTtl lower a.cache (floorPtr r0) = _
    unfold Flat.resetTtl
    apply List.map_congr_left
    intro e _
    simp [refreshOne, hx]
  · have : refreshOne lower now (floorPtr r0) = id := by funext e; simp [refreshOne, hx]
    rw [this]; simp

theorem ingestStep_pres (now : Ms) (a : IngestAcc (List Rec)) (r0 q : Rec) :
    Flat.pres lower (ingestStep lower (Flat.ops lower) now a r0).cache q = Flat.pres lower a.cache q := by
  rw [ingestStep_cache_flat, Flat.pres_map _ _ (fun e => ident_refreshOne now _ e)]

/-- the other fields after one iteration -/
theorem ingestStep_fields (now : Ms) (a : IngestAcc (List Rec)) (r0 : Rec) :
    let r := floorPtr r0
    let s := ingestStep lower (Flat.ops lower) now a r0
    s.updates = a.updates ++ (updOf lower now a.cache r).toList
    ∧ s.addrAdds = a.addrAdds ++ (if isNewAdd lower now a.cache r && Gen.Cache.is_address_type r.type then [r] else [])
    ∧ s.otherAdds = a.otherAdds ++ (if isNewAdd lower now a.cache r && !(Gen.Cache.is_address_type r.type) then [r] else [])
    ∧ s.removes = (if isGoodbye lower now a.cache r then setInsert lower a.removes r else a.removes)
    ∧ s.uniqueTypes = a.uniqueTypes ++ (if r.unique then [(r.name, r.type, r.class_)] else []) := by
  intro r s
  have hp : ((Flat.ops lower).getUnique a.cache r).isSome = Flat.pres lower a.cache r := Flat.getUnique_isSome _ _
  have huts : ∀ (u : List (String × Nat × Nat)), (if r.unique = true then u ++ [(r.name, r.type, r.class_)] else u)
      = u ++ (if r.unique = true then [(r.name, r.type, r.class_)] else []) := by
    intro u; split <;> simp
  show (ingestStep lower (Flat.ops lower) now a r0).updates = _ ∧ (ingestStep lower (Flat.ops lower) now a r0).addrAdds = _
    ∧ (ingestStep lower (Flat.ops lower) now a r0).otherAdds = _ ∧ (ingestStep lower (Flat.ops lower) now a r0).removes = _
    ∧ (ingestStep lower (Flat.ops lower) now a r0).uniqueTypes = _
  unfold ingestStep
  dsimp only
  cases hg : (Flat.ops lower).getUnique a.cache (floorPtr r0) <;> cases hx : (floorPtr r0).isExpired now <;>
    (have hp' := hp; simp only [r, hg, Option.isSome_none, Option.isSome_some] at hp') <;> dsimp only
  · by_cases hat : Gen.Cache.is_address_type (floorPtr r0).type = true <;>
      simp [updOf, isNewAdd, isGoodbye, r, hx, ← hp', hat, huts]
  · simp [updOf, isNewAdd, isGoodbye, r, hx, ← hp', huts]
  · simp [updOf, isNewAdd, isGoodbye, r, hx, ← hp', huts]
  · simp [updOf, isNewAdd, isGoodbye, r, hx, ← hp', huts]

/-- closed form of the `for record in answers` loop over the reference store -/
theorem ingestLoop_closed (now : Ms) (a : IngestAcc (List Rec)) (D0 : List Rec) :
    let D := D0.map floorPtr
    let s := D0.foldl (ingestStep lower (Flat.ops lower) now) a
    s.cache = a.cache.map (refresh lower now D)
    ∧ s.updates = a.updates ++ D.flatMap (fun r => (updOf lower now a.cache r).toList)
    ∧ s.addrAdds = a.addrAdds ++ D.filter (fun r => isNewAdd lower now a.cache r && Gen.Cache.is_address_type r.type)
    ∧ s.otherAdds = a.otherAdds ++ D.filter (fun r => isNewAdd lower now a.cache r && !(Gen.Cache.is_address_type r.type))
    ∧ s.removes = D.foldl (fun l r => if isGoodbye lower now a.cache r then setInsert lower l r else l) a.removes
    ∧ s.uniqueTypes = a.uniqueTypes ++ (D.filter (fun r => r.unique)).map (fun r => (r.name, r.type, r.class_)) := by
  induction D0 generalizing a with
  | nil =>
    have hid : refresh lower now [] = id := by funext e; rfl
    refine ⟨?_, ?_, ?_, ?_, ?_, ?_⟩ <;> simp [hid]
  | cons r0 t ih =>
    have hf := ingestStep_fields (lower := lower) now a r0
    have hc := ingestStep_cache_flat (lower := lower) now a r0
    have hpres : ∀ q, Flat.pres lower (ingestStep lower (Flat.ops lower) now a r0).cache q = Flat.pres lower a.cache q :=
      ingestStep_pres now a r0
    have hupd : updOf lower now (ingestStep lower (Flat.ops lower) now a r0).cache = updOf lower now a.cache := by
      funext q; simp only [updOf, hpres]
    have hnew : isNewAdd lower now (ingestStep lower (Flat.ops lower) now a r0).cache = isNewAdd lower now a.cache := by
      funext q; simp only [isNewAdd, hpres]
    have hgb : isGoodbye lower now (ingestStep lower (Flat.ops lower) now a r0).cache = isGoodbye lower now a.cache := by
      funext q; simp only [isGoodbye, hpres]
    have ih' := ih (ingestStep lower (Flat.ops lower) now a r0)
    simp only [hupd, hnew, hgb] at ih'
    obtain ⟨i1, i2, i3, i4, i5, i6⟩ := ih'
    obtain ⟨f2, f3, f4, f5, f6⟩ := hf
    simp only [List.map_cons, List.foldl_cons]
    refine ⟨?_, ?_, ?_, ?_, ?_, ?_⟩
    · rw [i1, hc, List.map_map]; rfl
    · rw [i2, f2, List.flatMap_cons, List.append_assoc]
    · rw [i3, f3, List.filter_cons, List.append_assoc]; split <;> simp
    · rw [i4, f4, List.filter_cons, List.append_assoc]; split <;> simp
    · rw [i5, f5]
    · rw [i6, f6, List.filter_cons, List.append_assoc]; split <;> simp

end
end Zc
