import Zc.Model.RegPending
import Zc.Proofs.History
import Zc.Proofs.Packetize
/-! C03 at the wire: as long as no reply that is still pending holds a record of the service being changed,
every datagram is made of records of services registered when it is sent. -/
namespace Zc

section
variable (lower : String → String) (ettl : Nat)

/-- `r` is a record of some service of the abstract registry -/
def OwnedIn (spec : List Svc) (r : Rec) : Prop := ∃ s ∈ spec, r ∈ RespSpec.own lower ettl s

theorem RespSpec.own_clear (s : Svc) : RespSpec.own lower ettl s.clearMemo = RespSpec.own lower ettl s := rfl

theorem candidates_sub_own {s : Svc} {q : Question} {a : Rec} (h : a ∈ RespSpec.candidates lower ettl s q) :
    a ∈ RespSpec.own lower ettl s := by
  rw [mem_own]
  rcases (mem_candidates lower ettl s q a).mp h with ⟨_, h1⟩ | ⟨_, h1⟩
  · exact Or.inl h1
  · rcases h1 with ⟨_, _, h2⟩ | ⟨_, _, h2⟩ | ⟨_, _, h2⟩ | ⟨_, _, h2⟩
    · exact Or.inr (Or.inl h2)
    · rcases h2 with ⟨h3, _⟩ | ⟨_, h3⟩
      · exact Or.inr (Or.inr (Or.inr (Or.inr (Or.inl h3))))
      · exact Or.inr (Or.inr (Or.inr (Or.inr (Or.inr h3))))
    · exact Or.inr (Or.inr (Or.inl h2))
    · exact Or.inr (Or.inr (Or.inr (Or.inl h2)))

theorem extras_sub_own {s : Svc} {x : Rec} (h : x ∈ RespSpec.extras s) : x ∈ RespSpec.own lower ettl s := by
  rw [mem_own]
  rcases (mem_extras s x).mp h with h1 | h1 | h1 | h1
  · exact Or.inr (Or.inr (Or.inl h1))
  · exact Or.inr (Or.inr (Or.inr (Or.inl h1)))
  · exact Or.inr (Or.inr (Or.inr (Or.inr (Or.inl h1))))
  · exact Or.inr (Or.inr (Or.inr (Or.inr (Or.inr h1))))

theorem mem_recordsOf {d : DictRS} {r : Rec} : r ∈ recordsOf d ↔ ∃ p ∈ d, r = p.1 ∨ r ∈ p.2 := by
  simp [recordsOf]

theorem ownedIn_of_mem {svcs : List Svc} {s : Svc} (hs : s ∈ svcs) {r : Rec} (hr : r ∈ RespSpec.own lower ettl s) :
    OwnedIn lower ettl (svcs.map Svc.clearMemo) r :=
  ⟨s.clearMemo, List.mem_map.mpr ⟨s, hs, rfl⟩, by rw [RespSpec.own_clear]; exact hr⟩

/-- every record of a fresh reply map is a record of a registered service -/
theorem answerMap_owned {reg : Registry} (hi : IndexInv lower reg) (hm : AllFresh lower reg) (msgs : List Msg) :
    ∀ r ∈ recordsOf (answerMap lower ettl reg msgs), OwnedIn lower ettl (reg.services.map Svc.clearMemo) r := by
  intro r hr
  obtain ⟨p, hp, h⟩ := mem_recordsOf.mp hr
  rcases h with h | h
  · have hk : r ∈ keysOf (answerMap lower ettl reg msgs) := by
      rw [h]; exact List.mem_map.mpr ⟨p, hp, rfl⟩
    obtain ⟨q, _, s, hs, hc, _⟩ := answerMap_sound lower ettl hi hm msgs hk
    exact ownedIn_of_mem lower ettl hs (candidates_sub_own lower ettl hc)
  · rcases answerMap_additionals lower ettl hm msgs p hp with h1 | ⟨s, hs, _, hx⟩
    · rw [h1] at h; simp at h
    · exact ownedIn_of_mem lower ettl hs (extras_sub_own lower ettl (hx r h))

/-- what the pending-reply layer maintains -/
structure PendInv (h : RHost) : Prop where
  hist : HistInv lower h.reg (h.reg.services.map Svc.clearMemo) []
  owned : ∀ d ∈ h.pending, ∀ r ∈ recordsOf d, OwnedIn lower ettl (h.reg.services.map Svc.clearMemo) r

theorem PendInv.init : PendInv lower ettl {} :=
  ⟨⟨IndexInv.empty lower, rfl, fun s hs => by simp at hs⟩, fun d hd => by simp at hd⟩

/-- a registry step that is not an attribute write keeps the history invariant with an empty dirty set -/
theorem hist_step {reg : Registry} (hh : HistInv lower reg (reg.services.map Svc.clearMemo) []) (op : RegOp)
    (hop : dirtyStep lower [] op = []) :
    HistInv lower (reg.step lower ettl op) ((reg.step lower ettl op).services.map Svc.clearMemo) []
    ∧ (reg.step lower ettl op).services.map Svc.clearMemo = RegSpec.step lower (reg.services.map Svc.clearMemo) op := by
  have h := (step_spec lower ettl hh op).2
  rw [hop] at h
  exact ⟨⟨h.inv, rfl, h.fresh⟩, h.refines⟩

theorem recordsOf_purge {W : List Rec} {d : DictRS} {r : Rec} (h : r ∈ recordsOf (purgeMap lower W d)) : r ∈ recordsOf d := by
  obtain ⟨p, hp, hr⟩ := mem_recordsOf.mp h
  unfold purgeMap at hp
  rw [List.mem_filterMap] at hp
  obtain ⟨p0, hp0, he⟩ := hp
  split at he
  · simp at he
  · have : p = (p0.1, p0.2.filter (fun a => !(W.any (fun w => w.beq lower a)))) := by simpa using he.symm
    subst this
    refine mem_recordsOf.mpr ⟨p0, hp0, ?_⟩
    rcases hr with hr | hr
    · exact Or.inl hr
    · exact Or.inr (List.mem_filter.mp hr).1

/-- pending records owned by a service that is not in `ks` -/
def SafeFor (ks : List String) (h : RHost) : Prop :=
  ∀ d ∈ h.pending, ∀ r ∈ recordsOf d, ∃ o ∈ h.reg.services.map Svc.clearMemo, lower o.name ∉ ks ∧ r ∈ RespSpec.own lower ettl o

theorem unregisterOne_spec {h : RHost} (hp : PendInv lower ettl h) (ks : List String) (hs : SafeFor lower ettl ks h)
    (k : String) (hk : k ∈ ks) :
    PendInv lower ettl (h.unregisterOne lower ettl k) ∧ SafeFor lower ettl ks (h.unregisterOne lower ettl k) := by
  unfold RHost.unregisterOne
  cases hg : sget lower k h.reg.services with
  | none => exact ⟨hp, hs⟩
  | some old =>
    simp only
    obtain ⟨hh, href⟩ := hist_step lower ettl hp.hist (.unregister [k]) (by simp [dirtyStep])
    have hsafe : SafeFor lower ettl ks
        { reg := h.reg.step lower ettl (.unregister [k]),
          pending := h.pending.map (purgeMap lower ([old.ptr, old.srv, old.txt] ++
            (if (dget (old.serverKey lower) (h.reg.step lower ettl (.unregister [k])).servers).isSome then [] else old.an lower))) } := by
      intro d hd r hr
      simp only [List.mem_map] at hd
      obtain ⟨d0, hd0, rfl⟩ := hd
      obtain ⟨o, ho, hn, hown⟩ := hs d0 hd0 r (recordsOf_purge lower hr)
      refine ⟨o, ?_, hn, hown⟩
      simp only
      rw [href]
      simp only [RegSpec.step, List.mem_filter]
      refine ⟨ho, ?_⟩
      have : lower o.name ≠ k := fun e => hn (e ▸ hk)
      simp [this]
    refine ⟨⟨hh, ?_⟩, hsafe⟩
    intro d hd r hr
    obtain ⟨o, ho, _, hown⟩ := hsafe d hd r hr
    exact ⟨o, ho, hown⟩

theorem unregisterFold_spec (ks : List String) (l : List String) (hl : ∀ k ∈ l, k ∈ ks) {h : RHost} (hp : PendInv lower ettl h)
    (hs : SafeFor lower ettl ks h) : PendInv lower ettl (l.foldl (RHost.unregisterOne lower ettl) h) := by
  induction l generalizing h with
  | nil => exact hp
  | cons k r ih =>
    simp only [List.foldl_cons]
    obtain ⟨hp1, hs1⟩ := unregisterOne_spec lower ettl hp ks hs k (hl k (by simp))
    exact ih (fun x hx => hl x (by simp [hx])) hp1 hs1

/-- one host operation keeps the invariant (given the finding's signature does not apply) and sends only current records -/
theorem host_step_spec {h : RHost} (hp : PendInv lower ettl h) (op : HostOp) (hc : changeOk lower ettl h op = true) :
    PendInv lower ettl (h.step lower ettl op).1 ∧ ∀ o ∈ (h.step lower ettl op).2, Sent.current lower ettl o = true := by
  cases op with
  | transmit =>
    refine ⟨⟨hp.hist, fun d hd => by simp [RHost.step] at hd⟩, ?_⟩
    intro o ho
    simp only [RHost.step, List.mem_map, List.mem_filter] at ho
    obtain ⟨d, ⟨hd, _⟩, rfl⟩ := ho
    unfold Sent.current
    rw [List.all_eq_true]
    intro r hr
    have hrd : r ∈ recordsOf d := by
      simp only at hr
      rcases List.mem_append.mp hr with h1 | h1
      · have := (packetize_answers lower d).mem_iff.mp h1
        simp only [keysOf, List.mem_map] at this
        obtain ⟨p, hp1, rfl⟩ := this
        exact mem_recordsOf.mpr ⟨p, hp1, Or.inl rfl⟩
      · obtain ⟨p, hp1, hx⟩ := (packetize_inv lower d).src r h1
        exact mem_recordsOf.mpr ⟨p, hp1, Or.inr hx⟩
    obtain ⟨s, hs, hown⟩ := hp.owned d hd r hrd
    rw [List.any_eq_true]
    exact ⟨s, hs, List.contains_iff_mem.mpr hown⟩
  | api rop =>
    cases rop with
    | register s =>
      obtain ⟨hh, href⟩ := hist_step lower ettl hp.hist (.register s) rfl
      refine ⟨⟨hh, ?_⟩, by simp [RHost.step]⟩
      intro d hd r hr
      obtain ⟨o, ho, hown⟩ := hp.owned d hd r hr
      refine ⟨o, ?_, hown⟩
      simp only [RHost.step]
      rw [href]
      simp only [RegSpec.step]
      split
      · exact ho
      · exact List.mem_append.mpr (Or.inl ho)
    | update s =>
      obtain ⟨hh, href⟩ := hist_step lower ettl hp.hist (.update s) (by simp [dirtyStep])
      refine ⟨⟨hh, ?_⟩, by simp [RHost.step]⟩
      intro d hd r hr
      simp only [changeOk, List.all_eq_true, List.any_eq_true, Bool.and_eq_true, Bool.not_eq_true', decide_eq_false_iff_not] at hc
      obtain ⟨o, ho, hn, hown⟩ := hc d hd r hr
      refine ⟨o, ?_, List.contains_iff_mem.mp hown⟩
      simp only [RHost.step]
      rw [href]
      simp only [RegSpec.step]
      exact List.mem_append.mpr (Or.inl (List.mem_filter.mpr ⟨ho, by simp [hn]⟩))
    | unregister ks =>
      refine ⟨?_, by simp [RHost.step]⟩
      simp only [RHost.step]
      apply unregisterFold_spec lower ettl ks ks (fun k hk => hk) hp
      intro d hd r hr
      simp only [changeOk, List.all_eq_true, List.any_eq_true, Bool.and_eq_true, Bool.not_eq_true'] at hc
      obtain ⟨o, ho, hn, hown⟩ := hc d hd r hr
      exact ⟨o, ho, by simpa using hn, List.contains_iff_mem.mp hown⟩
    | mutate k m => simp [changeOk] at hc
    | query msgs =>
      rcases respond_ok lower ettl hp.hist.inv msgs with ⟨_, hr⟩ | ⟨_, hr⟩
      · simp only [RHost.step, hr]
        exact ⟨hp, by simp⟩
      · have hm : AllFresh lower h.reg := fun s hs => hp.hist.fresh s hs (by simp)
        obtain ⟨hh, _⟩ := hist_step lower ettl hp.hist (.query msgs) rfl
        have hstep : h.reg.step lower ettl (.query msgs) = warmed lower h.reg msgs := by
          simp [Registry.step, Registry.stepE, hr]
        rw [hstep] at hh
        simp only [RHost.step, hr]
        refine ⟨⟨hh, ?_⟩, by simp⟩
        intro d hd r hrd
        simp only
        rw [warmed_fields]
        rcases List.mem_append.mp hd with h1 | h1
        · exact hp.owned d h1 r hrd
        · have : d = answerMap lower ettl h.reg msgs := by simpa using h1
          subst this
          exact answerMap_owned lower ettl hp.hist.inv hm msgs r hrd

theorem runFrom_spec (ops : List HostOp) {h : RHost} (hp : PendInv lower ettl h)
    (hq : noReplyQueuedForChanged lower ettl h ops = true) :
    ∀ o ∈ (RHost.runFrom lower ettl h ops).2, Sent.current lower ettl o = true := by
  induction ops generalizing h with
  | nil => intro o ho; simp [RHost.runFrom] at ho
  | cons op rest ih =>
    simp only [noReplyQueuedForChanged, Bool.and_eq_true] at hq
    obtain ⟨hp1, hout⟩ := host_step_spec lower ettl hp op hq.1
    intro o ho
    simp only [RHost.runFrom, List.mem_append] at ho
    rcases ho with h1 | h1
    · exact hout o h1
    · exact ih hp1 hq.2 o h1

end
end Zc

namespace Zc
theorem RHost.runFrom_append (lower : String → String) (ettl : Nat) (h : RHost) (a b : List HostOp) :
    RHost.runFrom lower ettl h (a ++ b) =
      ((RHost.runFrom lower ettl (RHost.runFrom lower ettl h a).1 b).1,
       (RHost.runFrom lower ettl h a).2 ++ (RHost.runFrom lower ettl (RHost.runFrom lower ettl h a).1 b).2) := by
  induction a generalizing h with
  | nil => simp [RHost.runFrom]
  | cons op r ih => simp [RHost.runFrom, ih, List.append_assoc]
end Zc
