import Zc.Model.RegPending
import Zc.Proofs.History
import Zc.Proofs.Packetize
/-! C03 at the wire: outside the input classes of the recorded findings D20 / D20b / D20c (`changeOk`: a pending record of the
service an update replaces that the new state no longer owns; a pending type-enumeration pointer / shared-host address or NSEC
record that `async_unregister_service` does not purge and no remaining service owns) every datagram is made of records of services
registered when it is sent.  The records `async_unregister_service` *does* purge (`purgeMap`) are shown to be gone. -/
namespace Zc

section
variable (lower : String → String) (ettl : Nat)

/-- `r` is a record of some service of the abstract registry -/
def OwnedIn (spec : List Svc) (r : Rec) : Prop := ∃ s ∈ spec, r ∈ RespSpec.own lower ettl s

theorem RespSpec.own_clear (s : Svc) : RespSpec.own lower ettl s.clearMemo = RespSpec.own lower ettl s := rfl

theorem candidates_sub_own {s : Svc} {q : Question} {a : Rec} (h : a ∈ RespSpec.candidates lower ettl s q) :
    a ∈ RespSpec.own lower ettl s := by
  rw [mem_own]
  rcases (mem_candidates lower ettl s q a).mp h with ⟨_, h1⟩ | ⟨_, h1⟩
  · exact Or.inl h1
  · rcases h1 with ⟨_, _, h2⟩ | ⟨_, _, h2⟩ | ⟨_, _, h2⟩ | ⟨_, _, h2⟩
    · exact Or.inr (Or.inl h2)
    · rcases h2 with ⟨h3, _⟩ | ⟨_, h3⟩
      · exact Or.inr (Or.inr (Or.inr (Or.inr (Or.inl h3))))
      · exact Or.inr (Or.inr (Or.inr (Or.inr (Or.inr h3))))
    · exact Or.inr (Or.inr (Or.inl h2))
    · exact Or.inr (Or.inr (Or.inr (Or.inl h2)))

theorem extras_sub_own {s : Svc} {x : Rec} (h : x ∈ RespSpec.extras s) : x ∈ RespSpec.own lower ettl s := by
  rw [mem_own]
  rcases (mem_extras s x).mp h with h1 | h1 | h1 | h1
  · exact Or.inr (Or.inr (Or.inl h1))
  · exact Or.inr (Or.inr (Or.inr (Or.inl h1)))
  · exact Or.inr (Or.inr (Or.inr (Or.inr (Or.inl h1))))
  · exact Or.inr (Or.inr (Or.inr (Or.inr (Or.inr h1))))

theorem mem_recordsOf {d : DictRS} {r : Rec} : r ∈ recordsOf d ↔ ∃ p ∈ d, r = p.1 ∨ r ∈ p.2 := by
  simp [recordsOf]

theorem ownedIn_of_mem {svcs : List Svc} {s : Svc} (hs : s ∈ svcs) {r : Rec} (hr : r ∈ RespSpec.own lower ettl s) :
    OwnedIn lower ettl (svcs.map Svc.clearMemo) r :=
  ⟨s.clearMemo, List.mem_map.mpr ⟨s, hs, rfl⟩, by rw [RespSpec.own_clear]; exact hr⟩

/-- every record of a fresh reply map is a record of a registered service -/
theorem answerMap_owned {reg : Registry} (hi : IndexInv lower reg) (hm : AllFresh lower reg) (msgs : List Msg) :
    ∀ r ∈ recordsOf (answerMap lower ettl reg msgs), OwnedIn lower ettl (reg.services.map Svc.clearMemo) r := by
  intro r hr
  obtain ⟨p, hp, h⟩ := mem_recordsOf.mp hr
  rcases h with h | h
  · have hk : r ∈ keysOf (answerMap lower ettl reg msgs) := by
      rw [h]; exact List.mem_map.mpr ⟨p, hp, rfl⟩
    obtain ⟨q, _, s, hs, hc, _⟩ := answerMap_sound lower ettl hi hm msgs hk
    exact ownedIn_of_mem lower ettl hs (candidates_sub_own lower ettl hc)
  · rcases answerMap_additionals lower ettl hm msgs p hp with h1 | ⟨s, hs, _, hx⟩
    · rw [h1] at h; simp at h
    · exact ownedIn_of_mem lower ettl hs (extras_sub_own lower ettl (hx r h))

/-- what the pending-reply layer maintains -/
structure PendInv (h : RHost) : Prop where
  hist : HistInv lower h.reg (h.reg.services.map Svc.clearMemo) []
  owned : ∀ d ∈ h.pending, ∀ r ∈ recordsOf d, OwnedIn lower ettl (h.reg.services.map Svc.clearMemo) r

theorem PendInv.init : PendInv lower ettl {} :=
  ⟨⟨IndexInv.empty lower, rfl, fun s hs => by simp at hs⟩, fun d hd => by simp at hd⟩

/-- a registry step that is not an attribute write keeps the history invariant with an empty dirty set -/
theorem hist_step {reg : Registry} (hh : HistInv lower reg (reg.services.map Svc.clearMemo) []) (op : RegOp)
    (hop : dirtyStep lower [] op = []) :
    HistInv lower (reg.step lower ettl op) ((reg.step lower ettl op).services.map Svc.clearMemo) []
    ∧ (reg.step lower ettl op).services.map Svc.clearMemo = RegSpec.step lower (reg.services.map Svc.clearMemo) op := by
  have h := (step_spec lower ettl hh op).2
  rw [hop] at h
  exact ⟨⟨h.inv, rfl, h.fresh⟩, h.refines⟩

theorem recordsOf_purge {W : List Rec} {d : DictRS} {r : Rec} (h : r ∈ recordsOf (purgeMap lower W d)) : r ∈ recordsOf d := by
  obtain ⟨p, hp, hr⟩ := mem_recordsOf.mp h
  unfold purgeMap at hp
  rw [List.mem_filterMap] at hp
  obtain ⟨p0, hp0, he⟩ := hp
  split at he
  · simp at he
  · have : p = (p0.1, p0.2.filter (fun a => !(W.any (fun w => w.beq lower a)))) := by simpa using he.symm
    subst this
    refine mem_recordsOf.mpr ⟨p0, hp0, ?_⟩
    rcases hr with hr | hr
    · exact Or.inl hr
    · exact Or.inr (List.mem_filter.mp hr).1

/-! ### what the purge removes -/

theorem recInsert_covers_old {l : List Rec} {r x : Rec} (h : l.any (fun w => w.beq lower x) = true) :
    (recInsert lower l r).any (fun w => w.beq lower x) = true := by
  unfold recInsert
  split
  · exact h
  · rw [List.any_append, h]; rfl

theorem recInsert_covers_new (l : List Rec) (r : Rec) : (recInsert lower l r).any (fun w => w.beq lower r) = true := by
  unfold recInsert
  split
  · assumption
  · rw [List.any_append, Bool.or_eq_true]; right; simp [beq_refl lower r]

theorem foldInsert_covers (l acc : List Rec) (x : Rec) (h : x ∈ l ∨ acc.any (fun w => w.beq lower x) = true) :
    (l.foldl (recInsert lower) acc).any (fun w => w.beq lower x) = true := by
  induction l generalizing acc with
  | nil =>
    rcases h with h | h
    · simp at h
    · exact h
  | cons a r ih =>
    simp only [List.foldl_cons]
    apply ih
    rcases h with h | h
    · rcases List.mem_cons.mp h with rfl | h1
      · exact Or.inr (recInsert_covers_new lower acc x)
      · exact Or.inl h1
    · exact Or.inr (recInsert_covers_old lower h)

/-- a Python set built from `l` holds a record identical to each element of `l` -/
theorem recSet_covers {l : List Rec} {x : Rec} (h : x ∈ l) : (recSet lower l).any (fun w => w.beq lower x) = true :=
  foldInsert_covers lower l [] x (Or.inl h)

/-- what `_get_address_and_nsec_records` returns holds (up to identity) every address record and the NSEC record of the service -/
theorem freshAN_covers (s : Svc) {x : Rec} (h : x ∈ RespSpec.addrsOf s ∨ x ∈ RespSpec.nsecOf s) :
    (s.freshAN lower).any (fun w => w.beq lower x) = true := by
  rw [Svc.freshAN_eq, Svc.buildAddrs_eq, Svc.missingTypes_eq]
  simp only
  rcases h with h | h
  · split
    · exact recSet_covers lower h
    · exact recInsert_covers_old lower (recSet_covers lower h)
  · by_cases hm : RespSpec.missing s = []
    · simp [RespSpec.nsecOf, hm] at h
    · rw [Svc.buildNsec_eq s hm, List.mem_singleton] at h
      subst h
      have : (RespSpec.missing s).isEmpty = false := by simpa using hm
      simp only [this]
      exact recInsert_covers_new lower _ _

/-- a record that survives `async_remove_answers(W)` is identical to none of `W` -/
theorem recordsOf_purge_not {W : List Rec} {d : DictRS} {r : Rec} (h : r ∈ recordsOf (purgeMap lower W d)) :
    W.any (fun w => w.beq lower r) = false := by
  obtain ⟨p, hp, hr⟩ := mem_recordsOf.mp h
  unfold purgeMap at hp
  rw [List.mem_filterMap] at hp
  obtain ⟨p0, _, he⟩ := hp
  split at he
  · simp at he
  · rename_i hk
    have : p = (p0.1, p0.2.filter (fun a => !(W.any (fun w => w.beq lower a)))) := by simpa using he.symm
    subst this
    rcases hr with hr | hr
    · simp only at hr; subst hr; simpa using hk
    · simpa using (List.mem_filter.mp hr).2

theorem ownedBy_iff {spec : List Svc} {r : Rec} : ownedBy lower ettl spec r = true ↔ OwnedIn lower ettl spec r := by
  unfold ownedBy OwnedIn
  rw [List.any_eq_true]
  constructor
  · rintro ⟨s, hs, hc⟩; exact ⟨s, hs, List.contains_iff_mem.mp hc⟩
  · rintro ⟨s, hs, hc⟩; exact ⟨s, hs, List.contains_iff_mem.mpr hc⟩

/-- the registered object behind an abstract service with key `k` -/
theorem spec_owner {reg : Registry} (hd : KeysDistinct lower reg.services) {o : Svc} (ho : o ∈ reg.services.map Svc.clearMemo) :
    ∃ old, sget lower (lower o.name) reg.services = some old ∧ old.clearMemo = o := by
  obtain ⟨old, hold, rfl⟩ := List.mem_map.mp ho
  exact ⟨old, by rw [Svc.clearMemo_name]; exact sget_of_mem lower hd hold, rfl⟩

/-- `async_unregister_service` for one registered service: outside the input classes of D20b/D20c every pending record stays owned -/
theorem unregisterOne_spec {h : RHost} (hp : PendInv lower ettl h) (k : String) (hc : unregisterOneOk lower ettl h k = true) :
    PendInv lower ettl (h.unregisterOne lower ettl k) := by
  unfold unregisterOneOk at hc
  cases hg : sget lower k h.reg.services with
  | none => unfold RHost.unregisterOne; rw [hg]; exact hp
  | some old =>
    rw [hg] at hc
    simp only at hc
    obtain ⟨hold, hkey⟩ := sget_some_mem lower hg
    have hmemo : MemoOk lower old := hp.hist.fresh old hold (by simp)
    obtain ⟨hh, href⟩ := hist_step lower ettl hp.hist (.unregister [k]) (by simp [dirtyStep])
    have hun : h.unregisterOne lower ettl k =
        { reg := h.reg.step lower ettl (.unregister [k]),
          pending := h.pending.map (purgeMap lower ([old.ptr, old.srv, old.txt] ++
            (if (dget (old.serverKey lower) (h.reg.step lower ettl (.unregister [k])).servers).isSome then [] else old.an lower))) } := by
      unfold RHost.unregisterOne; rw [hg]
    rw [hun] at hc ⊢
    refine ⟨hh, ?_⟩
    intro d hd r hr
    simp only at hd hr ⊢
    obtain ⟨d0, hd0, rfl⟩ := List.mem_map.mp hd
    have hnot := recordsOf_purge_not lower hr
    obtain ⟨o, ho, hown⟩ := hp.owned d0 hd0 r (recordsOf_purge lower hr)
    by_cases hk : lower o.name = k
    · -- `o` is the withdrawn service
      obtain ⟨old', hg', hcl⟩ := spec_owner lower hp.hist.inv.distinct ho
      rw [hk, hg] at hg'
      have : old' = old := (Option.some.inj hg').symm
      subst this
      -- the hypothesis, at this record
      have hcr := hc
      simp only [List.all_eq_true] at hcr
      have hcr2 := hcr _ hd r hr
      rw [Bool.or_eq_true] at hcr2
      have hpurged : ∀ w, w ∈ [old'.ptr, old'.srv, old'.txt] → w.beq lower r = false := by
        intro w hw
        rw [List.any_eq_false] at hnot
        have := hnot w (List.mem_append.mpr (Or.inl hw))
        simpa using this
      rw [← hcl, RespSpec.own_clear, mem_own] at hown
      rcases hown with h1 | h1 | h1 | h1 | h1
      · -- the type-enumeration pointer: D20b's class, covered by the hypothesis
        rcases hcr2 with h2 | h2
        · exfalso
          have : (unpurged lower ettl old'.clearMemo
              (dget (old'.serverKey lower) (h.reg.step lower ettl (.unregister [k])).servers).isSome).contains r = true := by
            rw [List.contains_iff_mem]; unfold unpurged; rw [h1]; exact List.mem_cons_self
          rw [this] at h2
          simp at h2
        · exact (ownedBy_iff lower ettl).mp h2
      · exfalso
        have := hpurged old'.ptr (by simp)
        rw [hmemo.ptr_eq, Svc.buildPtr_eq, ← h1, beq_refl] at this
        exact Bool.noConfusion this
      · exfalso
        have := hpurged old'.srv (by simp)
        rw [hmemo.srv_eq, Svc.buildSrv_eq, ← h1, beq_refl] at this
        exact Bool.noConfusion this
      · exfalso
        have := hpurged old'.txt (by simp)
        rw [hmemo.txt_eq, Svc.buildTxt_eq, ← h1, beq_refl] at this
        exact Bool.noConfusion this
      · -- an address or NSEC record of the withdrawn service
        cases hsh : (dget (old'.serverKey lower) (h.reg.step lower ettl (.unregister [k])).servers).isSome
        · -- host not shared: `get_address_and_nsec_records()` was purged
          exfalso
          rw [hsh] at hnot
          simp only [Bool.false_eq_true, if_false] at hnot
          rw [List.any_append, Bool.or_eq_false_iff] at hnot
          have hcov := freshAN_covers lower old' h1
          rw [← hmemo.an_eq] at hcov
          rw [hnot.2] at hcov
          exact Bool.noConfusion hcov
        · -- host shared: D20c's class, covered by the hypothesis
          rw [hsh] at hcr2
          rcases hcr2 with h2 | h2
          · exfalso
            have : (unpurged lower ettl old'.clearMemo true).contains r = true := by
              rw [List.contains_iff_mem]; unfold unpurged
              simp only [if_true, List.mem_cons, List.mem_append]
              exact Or.inr h1
            rw [this] at h2
            simp at h2
          · exact (ownedBy_iff lower ettl).mp h2
    · -- another service owns the record, and it stays registered
      refine ⟨o, ?_, hown⟩
      rw [href]
      simp only [RegSpec.step, List.mem_filter]
      exact ⟨ho, by simp [hk]⟩

theorem unregisterFold_spec (ks : List String) {h : RHost} (hp : PendInv lower ettl h) (hc : unregisterOk lower ettl h ks = true) :
    PendInv lower ettl (ks.foldl (RHost.unregisterOne lower ettl) h) := by
  induction ks generalizing h with
  | nil => exact hp
  | cons k r ih =>
    simp only [unregisterOk, Bool.and_eq_true] at hc
    simp only [List.foldl_cons]
    exact ih (unregisterOne_spec lower ettl hp k hc.1) hc.2

/-- one host operation keeps the invariant (given the finding's signature does not apply) and sends only current records -/
theorem host_step_spec {h : RHost} (hp : PendInv lower ettl h) (op : HostOp) (hc : changeOk lower ettl h op = true) :
    PendInv lower ettl (h.step lower ettl op).1 ∧ ∀ o ∈ (h.step lower ettl op).2, Sent.current lower ettl o = true := by
  cases op with
  | transmit =>
    refine ⟨⟨hp.hist, fun d hd => by simp [RHost.step] at hd⟩, ?_⟩
    intro o ho
    simp only [RHost.step, List.mem_map, List.mem_filter] at ho
    obtain ⟨d, ⟨hd, _⟩, rfl⟩ := ho
    unfold Sent.current
    rw [List.all_eq_true]
    intro r hr
    have hrd : r ∈ recordsOf d := by
      simp only at hr
      rcases List.mem_append.mp hr with h1 | h1
      · have := (packetize_answers lower d).mem_iff.mp h1
        simp only [keysOf, List.mem_map] at this
        obtain ⟨p, hp1, rfl⟩ := this
        exact mem_recordsOf.mpr ⟨p, hp1, Or.inl rfl⟩
      · obtain ⟨p, hp1, hx⟩ := (packetize_inv lower d).src r h1
        exact mem_recordsOf.mpr ⟨p, hp1, Or.inr hx⟩
    obtain ⟨s, hs, hown⟩ := hp.owned d hd r hrd
    rw [List.any_eq_true]
    exact ⟨s, hs, List.contains_iff_mem.mpr hown⟩
  | api rop =>
    cases rop with
    | register s =>
      obtain ⟨hh, href⟩ := hist_step lower ettl hp.hist (.register s) rfl
      refine ⟨⟨hh, ?_⟩, by simp [RHost.step]⟩
      intro d hd r hr
      obtain ⟨o, ho, hown⟩ := hp.owned d hd r hr
      refine ⟨o, ?_, hown⟩
      simp only [RHost.step]
      rw [href]
      simp only [RegSpec.step]
      split
      · exact ho
      · exact List.mem_append.mpr (Or.inl ho)
    | update s =>
      obtain ⟨hh, href⟩ := hist_step lower ettl hp.hist (.update s) (by simp [dirtyStep])
      refine ⟨⟨hh, ?_⟩, by simp [RHost.step]⟩
      intro d hd r hr
      simp only [RHost.step] at hd ⊢
      rw [href]
      obtain ⟨o, ho, hown⟩ := hp.owned d hd r hr
      by_cases hk : lower o.name = lower s.name
      · -- a record of the service being replaced: D20's class, covered by the hypothesis
        obtain ⟨old, hg, hcl⟩ := spec_owner lower hp.hist.inv.distinct ho
        rw [hk] at hg
        simp only [changeOk, updateOk, hg, List.all_eq_true, Bool.or_eq_true] at hc
        rcases hc d hd r hr with h2 | h2
        · exfalso
          rw [hcl, List.contains_iff_mem.mpr hown] at h2
          simp at h2
        · exact (ownedBy_iff lower ettl).mp h2
      · refine ⟨o, ?_, hown⟩
        simp only [RegSpec.step]
        exact List.mem_append.mpr (Or.inl (List.mem_filter.mpr ⟨ho, by simp [hk]⟩))
    | unregister ks =>
      refine ⟨?_, by simp [RHost.step]⟩
      simp only [RHost.step]
      exact unregisterFold_spec lower ettl ks hp (by simpa [changeOk] using hc)
    | mutate k m => simp [changeOk] at hc
    | query msgs =>
      rcases respond_ok lower ettl hp.hist.inv msgs with ⟨_, hr⟩ | ⟨_, hr⟩
      · simp only [RHost.step, hr]
        exact ⟨hp, by simp⟩
      · have hm : AllFresh lower h.reg := fun s hs => hp.hist.fresh s hs (by simp)
        obtain ⟨hh, _⟩ := hist_step lower ettl hp.hist (.query msgs) rfl
        have hstep : h.reg.step lower ettl (.query msgs) = warmed lower h.reg msgs := by
          simp [Registry.step, Registry.stepE, hr]
        rw [hstep] at hh
        simp only [RHost.step, hr]
        refine ⟨⟨hh, ?_⟩, by simp⟩
        intro d hd r hrd
        simp only
        rw [warmed_fields]
        rcases List.mem_append.mp hd with h1 | h1
        · exact hp.owned d h1 r hrd
        · have : d = answerMap lower ettl h.reg msgs := by simpa using h1
          subst this
          exact answerMap_owned lower ettl hp.hist.inv hm msgs r hrd

theorem runFrom_spec (ops : List HostOp) {h : RHost} (hp : PendInv lower ettl h)
    (hq : noSupersededReplyQueued lower ettl h ops = true) :
    ∀ o ∈ (RHost.runFrom lower ettl h ops).2, Sent.current lower ettl o = true := by
  induction ops generalizing h with
  | nil => intro o ho; simp [RHost.runFrom] at ho
  | cons op rest ih =>
    simp only [noSupersededReplyQueued, Bool.and_eq_true] at hq
    obtain ⟨hp1, hout⟩ := host_step_spec lower ettl hp op hq.1
    intro o ho
    simp only [RHost.runFrom, List.mem_append] at ho
    rcases ho with h1 | h1
    · exact hout o h1
    · exact ih hp1 hq.2 o h1

end
end Zc

namespace Zc
theorem RHost.runFrom_append (lower : String → String) (ettl : Nat) (h : RHost) (a b : List HostOp) :
    RHost.runFrom lower ettl h (a ++ b) =
      ((RHost.runFrom lower ettl (RHost.runFrom lower ettl h a).1 b).1,
       (RHost.runFrom lower ettl h a).2 ++ (RHost.runFrom lower ettl (RHost.runFrom lower ettl h a).1 b).2) := by
  induction a generalizing h with
  | nil => simp [RHost.runFrom]
  | cons op r ih => simp [RHost.runFrom, ih, List.append_assoc]
end Zc
