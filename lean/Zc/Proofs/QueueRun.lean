import Zc.Proofs.Queue
/-! Legal runs of `MulticastOutgoingQueue` (C12): safety and liveness over *all* event sequences that
satisfy the event-loop axioms, by induction over the run with the invariant of `Zc.Proofs.Queue`. -/
namespace Zc.Reply
open GenFacts

/-! ### records are never lost: they stay queued until they are sent -/

theorem Queue.add_keeps (p : QP) (q : Queue) (c now draw : Int) (answers : Dict) {g : Group} {r : RecId}
    (hg : g ∈ q.groups) (hr : r ∈ g.answers.keys) :
    ∃ g' ∈ (q.add p c now draw answers).groups, r ∈ g'.answers.keys ∧ g'.born = g.born := by
  rcases Queue.add_spec p q c now draw answers with ⟨hnil, _⟩ | ⟨init, last, hq, _, heq⟩ | ⟨init, last, _, _, heq⟩
  · rw [hnil] at hg; cases hg
  · rw [heq]
    rw [hq] at hg
    rcases List.mem_append.mp hg with hg | hg
    · exact ⟨g, List.mem_append_left _ hg, hr, rfl⟩
    · simp at hg; subst hg
      exact ⟨_, List.mem_append_right _ (List.mem_singleton.mpr rfl), (Dict.keys_update _ _ _).mpr (Or.inl hr), rfl⟩
  · rw [heq]
    exact ⟨g, List.mem_append_left _ hg, hr, rfl⟩

/-- the records of an `add` are in the queue right after it, in a group created no later than the add -/
theorem Queue.add_has (p : QP) (q : Queue) {clock : Int} {hist : List AddRec} (hI : QInv p hist clock q)
    (c now draw : Int) (hc : clock ≤ c) (answers : Dict) {r : RecId} (hr : r ∈ answers.keys) :
    ∃ g' ∈ (q.add p c now draw answers).groups, r ∈ g'.answers.keys ∧ g'.born ≤ c := by
  rcases Queue.add_spec p q c now draw answers with ⟨_, heq⟩ | ⟨init, last, hq, _, heq⟩ | ⟨init, last, _, _, heq⟩
  · rw [heq]; exact ⟨_, List.mem_singleton.mpr rfl, hr, Int.le_refl _⟩
  · rw [heq]
    have hb := (hI.sk.window last.sk (List.mem_map_of_mem (by rw [hq]; simp))).2.2
    refine ⟨_, List.mem_append_right _ (List.mem_singleton.mpr rfl), (Dict.keys_update _ _ _).mpr (Or.inr hr), ?_⟩
    show last.born ≤ c
    simp only [Group.sk] at hb; omega
  · rw [heq]; exact ⟨_, List.mem_append_right _ (List.mem_singleton.mpr rfl), hr, Int.le_refl _⟩

theorem Dict.isEmpty_false_of_mem {d : Dict} {r : RecId} (h : r ∈ d.keys) : d.isEmpty = false := by
  cases d with
  | nil => simp [Dict.keys] at h
  | cons e es => rfl

theorem mem_removeAnswers_of {gs : List Group} {b : Dict} {g : Group} {r : RecId} (hg : g ∈ gs)
    (hr : r ∈ g.answers.keys) (hnb : r ∉ b.keys) :
    ∃ g' ∈ removeAnswers gs b, r ∈ g'.answers.keys ∧ g'.born = g.born := by
  refine ⟨{ g with answers := b.keys.foldl Dict.erase g.answers }, ?_, ?_, rfl⟩
  · simp only [removeAnswers, List.mem_map]; exact ⟨g, hg, rfl⟩
  · exact (Dict.keys_eraseAll _ _ _).mpr ⟨hr, hnb⟩

/-- at a timer instant a queued record is either in the batch that is sent or still queued afterwards -/
theorem Queue.ready_keeps {p : QP} {hist : List AddRec} {clock : Int} {q : Queue} (hI : QInv p hist clock q)
    {now : Int} (ht : q.timer = some now) {g : Group} {r : RecId} (hg : g ∈ q.groups) (hr : r ∈ g.answers.keys) :
    (now ≤ g.born + p.agg + p.addl) ∧
    ((∃ b, (q.ready now).2 = some b ∧ r ∈ b.keys) ∨
     (∃ g' ∈ (q.ready now).1.groups, r ∈ g'.answers.keys ∧ g'.born = g.born)) := by
  have hd := (hI.sk.timer_le ht g.sk (List.mem_map_of_mem hg)).1
  simp only [Sk.deadline, Group.sk] at hd
  refine ⟨hd, ?_⟩
  rcases Queue.ready_spec q now with ⟨hnil, _⟩ | ⟨g0, gs, hq, hsb, heq⟩ | ⟨rest, batch, hne, hp, heq⟩
  · rw [hnil] at hg; cases hg
  · rw [heq]; exact Or.inr ⟨g, hg, hr, rfl⟩
  · rw [heq]
    obtain ⟨popped, h1, h2, h3, h4, h5⟩ := popReady_spec now _ _ _ _ hp
    rw [h1] at hg
    by_cases hb : r ∈ batch.keys
    · left
      simp only [readyResult, Dict.isEmpty_false_of_mem hb]
      exact ⟨batch, by simp, hb⟩
    · right
      rcases List.mem_append.mp hg with hg | hg
      · exact absurd ((h3 r).mpr (Or.inr ⟨g, hg, hr⟩)) hb
      · simp only [readyResult]
        split
        · exact ⟨g, hg, hr, rfl⟩
        · exact mem_removeAnswers_of hg hr hb

/-- a withdrawal (`async_remove_answers`) keeps every queued record that is not withdrawn, in a group of the same age -/
theorem Queue.remove_keeps (q : Queue) (rm : List RecId) {g : Group} {r : RecId} (hg : g ∈ q.groups) (hr : r ∈ g.answers.keys)
    (hnr : r ∉ rm) : ∃ g' ∈ (q.removeRecords rm).groups, r ∈ g'.answers.keys ∧ g'.born = g.born := by
  refine ⟨{ g with answers := g.answers.withdraw rm }, ?_, (Dict.keys_withdraw _ _ _).mpr ⟨hr, hnr⟩, rfl⟩
  simp only [Queue.removeRecords, List.mem_map]
  exact ⟨g, hg, rfl⟩

/-! ### legal runs -/

inductive QEv where
  /-- `async_add(now, answers)` at loop time `clock`, the library drawing `draw` -/
  | add (clock now draw : Int) (answers : Dict)
  /-- the armed timer fires at loop time `now` -/
  | fire (now : Int)
  /-- `async_remove_answers(records)` at loop time `clock`: a service is unregistered while answers may be queued -/
  | remove (clock : Int) (records : List RecId)

def QEv.time : QEv → Int
  | .add c _ _ _ => c
  | .fire n => n
  | .remove c _ => c

/-- the event-loop axioms: time does not run backwards, a stamp is not in the future, the draw lies
in the interval the code asked for, the clock never passes a due timer, a timer fires exactly when due -/
def QEv.enabled (q : Queue) (clock : Int) : QEv → Prop
  | .add c now draw _ => clock ≤ c ∧ now ≤ c ∧ drawLo ≤ draw ∧ draw ≤ drawHi ∧ (∀ d, q.timer = some d → c ≤ d)
  | .fire now => clock ≤ now ∧ q.timer = some now
  | .remove c _ => clock ≤ c ∧ (∀ d, q.timer = some d → c ≤ d)

def Queue.stepQ (p : QP) (q : Queue) : QEv → Queue × List (Int × Dict)
  | .add c now draw a => (q.add p c now draw a, [])
  | .fire now => ((q.ready now).1, match (q.ready now).2 with | some b => [(now, b)] | none => [])
  | .remove _ rm => (q.removeRecords rm, [])

def addsOf : List QEv → List AddRec
  | [] => []
  | .add c now _ a :: es => ⟨c, now, a.keys⟩ :: addsOf es
  | .fire _ :: es => addsOf es
  | .remove _ _ :: es => addsOf es

/-- record `r` is withdrawn by one of the events (an `async_remove_answers` naming it) **no later than `D`** -/
def withdrawnIn (evs : List QEv) (r : RecId) (D : Int) : Prop := ∃ c rm, QEv.remove c rm ∈ evs ∧ r ∈ rm ∧ c ≤ D

/-- `Run p q clock evs q' clock' outs`: from `q` at time `clock` the events `evs` are all enabled in
turn, lead to `q'` at `clock'`, and `outs` are the multicast batches with their send times -/
inductive Run (p : QP) : Queue → Int → List QEv → Queue → Int → List (Int × Dict) → Prop
  | nil (q : Queue) (c : Int) : Run p q c [] q c []
  | cons {q : Queue} {clock : Int} {e : QEv} {es : List QEv} {q' : Queue} {c' : Int} {outs : List (Int × Dict)} :
      e.enabled q clock → Run p (q.stepQ p e).1 e.time es q' c' outs →
      Run p q clock (e :: es) q' c' ((q.stepQ p e).2 ++ outs)

/-- one step preserves the invariant (history extended by the step's add, if any) and a batch it sends is in its window -/
theorem QInv.step {p : QP} (hp : p.ok) {hist : List AddRec} {clock : Int} {q : Queue} (hI : QInv p hist clock q)
    {e : QEv} (he : e.enabled q clock) :
    QInv p (hist ++ addsOf [e]) e.time (q.stepQ p e).1 ∧
    ∀ o ∈ (q.stepQ p e).2, o.1 = e.time ∧ BatchOk p hist e.time (q.stepQ p e).1 o.2 := by
  cases e with
  | add c now draw a =>
    obtain ⟨h1, h2, h3, h4, h5⟩ := he
    exact ⟨hI.add hp h1 h2 h3 h4 h5, by simp [Queue.stepQ]⟩
  | fire now =>
    obtain ⟨h1, h2⟩ := he
    have := hI.ready h1 h2
    refine ⟨by simpa [addsOf, Queue.stepQ, QEv.time] using this.1, ?_⟩
    intro o ho
    simp only [Queue.stepQ] at ho ⊢
    cases hb : (q.ready now).2 with
    | none => rw [hb] at ho; cases ho
    | some b =>
      rw [hb] at ho
      simp at ho; subst ho
      exact ⟨rfl, this.2 b hb⟩
  | remove c rm =>
    obtain ⟨h1, h2⟩ := he
    exact ⟨by simpa [addsOf, Queue.stepQ, QEv.time] using hI.removeRecords h1 h2 rm, by simp [Queue.stepQ]⟩

theorem addsOf_cons (e : QEv) (es : List QEv) : addsOf (e :: es) = addsOf [e] ++ addsOf es := by
  cases e <;> simp [addsOf]

/-- **safety over all runs**: the invariant holds at the end, and every batch is duplicate free and
lies inside the window of an `add` of each of its records -/
theorem Run.safe {p : QP} (hp : p.ok) {q : Queue} {clock : Int} {evs : List QEv} {q' : Queue} {c' : Int}
    {outs : List (Int × Dict)} (hr : Run p q clock evs q' c' outs) :
    ∀ hist, QInv p hist clock q →
      QInv p (hist ++ addsOf evs) c' q' ∧
      ∀ o ∈ outs, o.2.keys.Nodup ∧ ∀ r ∈ o.2.keys, ∃ a ∈ hist ++ addsOf evs,
        r ∈ a.keys ∧ a.clock ≤ o.1 ∧ a.now + drawLo + p.addl ≤ o.1 ∧ o.1 ≤ a.clock + p.agg + p.addl := by
  induction hr with
  | nil q c => intro hist hI; exact ⟨by simpa [addsOf] using hI, by simp⟩
  | @cons q clock e es q' c' outs he _ ih =>
    intro hist hI
    obtain ⟨hI', hout⟩ := hI.step hp he
    obtain ⟨hI'', hrest⟩ := ih _ hI'
    rw [addsOf_cons, ← List.append_assoc]
    refine ⟨hI'', ?_⟩
    intro o ho
    rcases List.mem_append.mp ho with ho | ho
    · obtain ⟨ht, hn, hw, _⟩ := hout o ho
      refine ⟨hn, fun r hr => ?_⟩
      obtain ⟨a, ha, h1, h2, h3, h4⟩ := hw r hr
      exact ⟨a, List.mem_append_left _ (List.mem_append_left _ ha), h1, by omega, by omega, by omega⟩
    · exact hrest o ho

/-- time only moves forward in a run, and batches carry the time of their step -/
theorem Run.times {p : QP} {q : Queue} {clock : Int} {evs : List QEv} {q' : Queue} {c' : Int}
    {outs : List (Int × Dict)} (hr : Run p q clock evs q' c' outs) :
    clock ≤ c' ∧ ∀ o ∈ outs, clock ≤ o.1 := by
  induction hr with
  | nil q c => simp
  | @cons q clock e es q' c' outs he _ ih =>
    have hle : clock ≤ e.time := by
      cases e with
      | add c now draw a => exact he.1
      | fire now => exact he.1
      | remove c rm => exact he.1
    refine ⟨by omega, ?_⟩
    intro o ho
    rcases List.mem_append.mp ho with ho | ho
    · cases e with
      | add c now draw a => simp [Queue.stepQ] at ho
      | fire now =>
        simp only [Queue.stepQ] at ho
        cases hb : (q.ready now).2 with
        | none => rw [hb] at ho; cases ho
        | some b => rw [hb] at ho; simp at ho; subst ho; exact hle
      | remove c rm => simp [Queue.stepQ] at ho
    · have := ih.2 o ho; omega

theorem withdrawnIn_cons {e : QEv} {es : List QEv} {r : RecId} {D : Int} (h : withdrawnIn es r D) : withdrawnIn (e :: es) r D := by
  obtain ⟨c, rm, h1, h2, h3⟩ := h
  exact ⟨c, rm, List.mem_cons_of_mem _ h1, h2, h3⟩

theorem withdrawnIn_mono {evs : List QEv} {r : RecId} {D D' : Int} (h : withdrawnIn evs r D) (hD : D ≤ D') : withdrawnIn evs r D' := by
  obtain ⟨c, rm, h1, h2, h3⟩ := h
  exact ⟨c, rm, h1, h2, by omega⟩

/-- **liveness over all runs**: a queued record is sent before its group's deadline, or is still queued, or has been
withdrawn — **before that deadline** — by an `async_remove_answers` of the run (the registry changed: the record must no longer be
sent, C08).  The withdrawal that takes the record out of its group necessarily happens before the deadline: the group is still
queued then, its timer is due no later than its deadline, and no block runs after a due timer. -/
theorem Run.live {p : QP} (hp : p.ok) {q : Queue} {clock : Int} {evs : List QEv} {q' : Queue} {c' : Int}
    {outs : List (Int × Dict)} (hr : Run p q clock evs q' c' outs) :
    ∀ hist, QInv p hist clock q → ∀ (r : RecId) (D : Int),
      (∃ g ∈ q.groups, r ∈ g.answers.keys ∧ g.born + p.agg + p.addl ≤ D) →
      (∃ o ∈ outs, r ∈ o.2.keys ∧ o.1 ≤ D) ∨ (∃ g ∈ q'.groups, r ∈ g.answers.keys ∧ g.born + p.agg + p.addl ≤ D) ∨
        withdrawnIn evs r D := by
  induction hr with
  | nil q c => intro hist hI r D h; exact Or.inr (Or.inl h)
  | @cons q clock e es q' c' outs he _ ih =>
    intro hist hI r D ⟨g, hg, hr, hD⟩
    obtain ⟨hI', _⟩ := hI.step hp he
    have cont : (∃ g ∈ ((q.stepQ p e).1).groups, r ∈ g.answers.keys ∧ g.born + p.agg + p.addl ≤ D) →
        (∃ o ∈ (q.stepQ p e).2 ++ outs, r ∈ o.2.keys ∧ o.1 ≤ D) ∨ (∃ g ∈ q'.groups, r ∈ g.answers.keys ∧ g.born + p.agg + p.addl ≤ D) ∨
          withdrawnIn (e :: es) r D := by
      intro hq
      rcases ih _ hI' r D hq with ⟨o, ho, h⟩ | h | h
      · exact Or.inl ⟨o, List.mem_append_right _ ho, h⟩
      · exact Or.inr (Or.inl h)
      · exact Or.inr (Or.inr (withdrawnIn_cons h))
    cases e with
    | add c now draw a =>
      obtain ⟨g', hg', hr', hb⟩ := Queue.add_keeps p q c now draw a hg hr
      exact cont ⟨g', hg', hr', by rw [hb]; exact hD⟩
    | fire now =>
      obtain ⟨hle, hk⟩ := Queue.ready_keeps hI he.2 hg hr
      rcases hk with ⟨b, hb, hrb⟩ | ⟨g', hg', hr', hb⟩
      · refine Or.inl ⟨(now, b), List.mem_append_left _ ?_, hrb, by simp only; omega⟩
        simp [Queue.stepQ, hb]
      · exact cont ⟨g', hg', hr', by rw [hb]; exact hD⟩
    | remove c rm =>
      by_cases hrm : r ∈ rm
      · -- the withdrawal is not later than the armed timer, which is not later than the group's deadline
        have hne : q.groups.map Group.sk ≠ [] := by
          intro hnil; rw [List.map_eq_nil_iff] at hnil; rw [hnil] at hg; cases hg
        obtain ⟨d, hd⟩ := hI.sk.nonempty_timer hne
        have hle := (hI.sk.timer_le hd g.sk (List.mem_map_of_mem hg)).1
        have hcd := he.2 d hd
        simp only [Sk.deadline, Group.sk] at hle
        exact Or.inr (Or.inr ⟨c, rm, List.mem_cons_self, hrm, by omega⟩)
      · obtain ⟨g', hg', hr', hb⟩ := Queue.remove_keeps q rm hg hr hrm
        exact cont ⟨g', hg', hr', by rw [hb]; exact hD⟩

/-- while a group is queued the clock has not passed its deadline -/
theorem QInv.not_late {p : QP} {hist : List AddRec} {clock : Int} {q : Queue} (hI : QInv p hist clock q)
    {g : Group} (hg : g ∈ q.groups) : clock ≤ g.born + p.agg + p.addl := by
  have hne : q.groups.map Group.sk ≠ [] := by
    intro h; rw [List.map_eq_nil_iff] at h; rw [h] at hg; cases hg
  obtain ⟨d, hd⟩ := hI.sk.nonempty_timer hne
  have := hI.sk.timer_le hd g.sk (List.mem_map_of_mem hg)
  simp only [Sk.deadline, Group.sk] at this
  omega

end Zc.Reply
