import Zc.Proofs.LinkBridgeK3
/-! K3b from C10's scheduler model, beyond the main case.

`LinkBridgeK3.lean` proves K3b's two windows for a record that is *new* to the scheduler.  Here:

* `NameOK` / `OneName` — "one instance, one type": an entry of the scheduler keeps the owner name under which the instance was first
  scheduled (`reschedule_ptr_first_refresh` with a kept schedule — `relife` — does not touch `name`; a rescue entry copies it).  If
  every pointer record of the instance in the history names the same type, every entry of the instance asks that type
  (`nameOK_exec`) — residual clause (iii).
* `refresh_two_sends_any` — the 75 % and the 85 % query of **any** record update of an active browser, new *or refreshed*, kept
  schedule or not, learned before or after `start`: from `reschedule_entry` (the one live entry of the instance carries the new TTL
  and expiry and is scheduled within `minDelay` of the new 75 % point, on either side) and `chain_core` / `chain_pre` (the entry is
  served at most `minDelay` late, its follow-up 10 % of the TTL after that pass, again at most `minDelay` late).  Bounds:
  75 % query in `[75 % − minDelay, 75 % + 2·minDelay]`, 85 % query in `[85 % − minDelay, 85 % + 3·minDelay]` — residual clause (i):
  `refreshWin` is 30 s, not 25 s.
* the start-up branch (`K3b_windows_startup`): a browser that started after the record's 75 % point, or so shortly before it that
  the 75 % point falls into its start-up phase, asks in its third and fourth start-up question (K3, from `C10_startup2`), and by
  then the record is past half its life and is not listed (C13, `WireAskWithout`) — residual clauses (ii) and (iv). -/
namespace Zc.Bridge
open Zc Zc.Sched Zc.C10

/-! ### one instance, one type -/

/-- every entry of the instance `a` asks the type `n` -/
def NameOK (a n : String) (heap : List Q) : Prop := ∀ q ∈ heap, (q.alias == a) = true → q.name = n

/-- every pointer record of the instance `a` in the history names the type `n` -/
def OneName (a n : String) (evs : List (Int × Op)) : Prop :=
  ∀ e ∈ evs, ∀ a' n' ttl cr, e.2 = .ptr a' n' ttl cr → (a' == a) = true → n' = n

theorem mem_popReady_sub (e : Int) : ∀ (l : List Q) (q : Q), (q ∈ (popReady e l).1 ∨ q ∈ (popReady e l).2) → q ∈ l := by
  intro l
  induction l with
  | nil => intro q h; simp [popReady] at h
  | cons x t ih =>
    intro q h
    unfold popReady at h
    split at h
    · exact List.mem_cons_of_mem _ (ih q h)
    · split at h
      · rcases h with h | h
        · cases h
        · exact h
      · rcases h with h | h
        · rcases List.mem_cons.mp h with rfl | h
          · exact List.mem_cons_self
          · exact List.mem_cons_of_mem _ (ih q (Or.inl h))
        · exact List.mem_cons_of_mem _ (ih q (Or.inr h))

theorem nameOK_map {a n : String} {heap : List Q} (h : NameOK a n heap) (f : Q → Q)
    (hf : ∀ q, (f q).alias = q.alias ∧ (f q).name = q.name) : NameOK a n (heap.map f) := by
  intro x hx ha
  rw [List.mem_map] at hx
  obtain ⟨y, hy, rfl⟩ := hx
  rw [(hf y).2]
  exact h y hy (by rw [← (hf y).1]; exact ha)

theorem nameOK_insert {a n : String} {heap : List Q} (h : NameOK a n heap) (q : Q) (hq : (q.alias == a) = true → q.name = n) :
    NameOK a n (insert q heap) := by
  intro x hx ha
  rcases mem_insert.mp hx with rfl | hx
  · exact hq ha
  · exact h x hx ha

theorem nameOK_reschedule (c : Cfg) {a n : String} {s : S} (h : NameOK a n s.heap) (a' n' : String) (ttl : Nat) (cr : Int)
    (hn : (a' == a) = true → n' = n) : NameOK a n (reschedule c s a' n' ttl cr).heap := by
  unfold reschedule
  split
  · split
    · exact nameOK_map h _ (fun q => by split <;> exact ⟨rfl, rfl⟩)
    · simp only [schedule_heap]
      exact nameOK_insert (nameOK_map h _ (fun q => by split <;> exact ⟨rfl, rfl⟩)) _ (by simpa using hn)
  · simp only [schedule_heap]
    exact nameOK_insert h _ (by simpa using hn)

theorem nameOK_step (c : Cfg) {a n : String} {s : S} (h : NameOK a n s.heap) {t : Int} {op : Op} {s1 : S} {o1 : List Send}
    (hst : step c s t op = some (s1, o1)) (hop : ∀ a' n' ttl cr, op = .ptr a' n' ttl cr → (a' == a) = true → n' = n) :
    NameOK a n s1.heap := by
  cases op with
  | start d =>
    simp only [step] at hst
    split at hst
    · simp only [Option.some.injEq, Prod.mk.injEq] at hst; rw [← hst.1]; exact h
    · simp at hst
  | stop =>
    simp only [step, Option.some.injEq, Prod.mk.injEq] at hst
    rw [← hst.1]; intro q hq; cases hq
  | ptr a' n' ttl cr =>
    simp only [step, Option.some.injEq, Prod.mk.injEq] at hst
    rw [← hst.1]; exact nameOK_reschedule c h a' n' ttl cr (hop a' n' ttl cr rfl)
  | cancel a' =>
    simp only [step, Option.some.injEq, Prod.mk.injEq] at hst
    rw [← hst.1]
    exact nameOK_map h _ (fun q => by split <;> exact ⟨rfl, rfl⟩)
  | fire d =>
    simp only [step] at hst
    split at hst
    · split at hst
      · simp only [Option.some.injEq] at hst
        have := fireStartup_heap c s t d
        rw [hst] at this
        have e : s1.heap = s.heap := this
        rw [e]; exact h
      · simp at hst
    · split at hst
      · simp only [Option.some.injEq] at hst
        cases d
        · have e : s1.heap = insertAll (popReady t s.heap).2 ((popReady t s.heap).1.filterMap (rescueOf t)) := by
            have := fireReady_heap c s t
            rw [hst] at this; exact this
          rw [e]
          intro x hx ha
          rcases mem_insertAll.mp hx with hx | hx
          · rw [List.mem_filterMap] at hx
            obtain ⟨y, hy, hyx⟩ := hx
            rw [rescueOf_eq] at hyx
            split at hyx
            · cases hyx
            · simp only [Option.some.injEq] at hyx
              subst hyx
              exact h y (mem_popReady_sub t s.heap y (Or.inl hy)) ha
          · exact h x (mem_popReady_sub t s.heap x (Or.inr hx)) ha
        · simp only [fireReady, if_true, Prod.mk.injEq] at hst
          rw [← hst.1]; exact h
      · simp at hst
    · simp at hst

/-- **one instance, one type, along every history**: if every pointer record of the instance names the type `n`, every entry of the
instance asks `n` — also one whose schedule was kept across refreshes, and every rescue entry -/
theorem nameOK_exec (c : Cfg) (a n : String) : ∀ (evs : List (Int × Op)) (s : S) (clk : Int) (s' : S) (outs : List Send),
    NameOK a n s.heap → OneName a n evs → exec c s clk evs = some (s', outs) → NameOK a n s'.heap := by
  intro evs
  induction evs with
  | nil =>
    intro s clk s' outs h _ hex
    simp only [exec, Option.some.injEq, Prod.mk.injEq] at hex
    rw [← hex.1]; exact h
  | cons e es ih =>
    intro s clk s' outs h hone hex
    obtain ⟨t, op⟩ := e
    obtain ⟨_, s1, o1, o2, hst, hex2, _⟩ := exec_cons hex
    exact ih s1 t s' o2 (nameOK_step c h hst (fun a' n' ttl cr hop => hone (t, op) (by simp) a' n' ttl cr hop))
      (fun e he => hone e (List.mem_cons_of_mem _ he)) hex2

theorem OneName.append {a n : String} {e1 e2 : List (Int × Op)} (h1 : OneName a n e1) (h2 : OneName a n e2) : OneName a n (e1 ++ e2) := by
  intro e he
  rcases List.mem_append.mp he with he | he
  · exact h1 e he
  · exact h2 e he

theorem OneName.of_idle_start {a n : String} (tb : Int) (d : Nat) : OneName a n [(tb, Op.start d)] := by
  intro e he a' n' ttl cr hop
  simp only [List.mem_singleton] at he
  subst he
  cases hop

/-- the one live entry of an instance after a pointer update -/
theorem entry_of_cnt_one {a : String} {heap : List Q} (h : cnt a heap = 1) : ∃ q ∈ heap, isEntry a q = true := by
  unfold cnt at h
  have : heap.filter (isEntry a) ≠ [] := by intro e; rw [e] at h; cases h
  obtain ⟨q, hq⟩ := List.exists_mem_of_ne_nil _ this
  exact ⟨q, (List.mem_filter.mp hq).1, (List.mem_filter.mp hq).2⟩

/-! ### the 75 % and the 85 % query of any record update -/

/-- reading two links off a `Chain` whose history goes beyond both deadlines -/
theorem chain_two {c : Cfg} {name : String} {ttl : Nat} {expire H : Int} {outs : List Send} {w : Int}
    (h : Chain c name ttl expire H outs 2 w) (hH : w + 100 * ttl + 2 * c.minDelay < H) (hexp : w + 100 * ttl + 2 * c.minDelay < expire) :
    ∃ o1 ∈ outs, w ≤ o1.t ∧ o1.t ≤ w + c.minDelay ∧ name ∈ o1.types ∧
      ∃ o2 ∈ outs, o1.t + 100 * ttl ≤ o2.t ∧ o2.t ≤ o1.t + 100 * ttl + c.minDelay ∧ name ∈ o2.types := by
  simp only [Chain] at h
  rcases h with h | ⟨o1, ho1, h1, h2, h3, h4⟩
  · omega
  · refine ⟨o1, ho1, h1, h2, h3, ?_⟩
    rcases h4 with h4 | h4 | ⟨o2, ho2, g1, g2, g3, _⟩
    · omega
    · omega
    · exact ⟨o2, ho2, g1, g2, g3⟩

/-- **the 75 % and the 85 % query of any pointer update of a started browser** (scheduler level).  At `t`, after `start`, the browser
is told about a pointer record of instance `a` (type `n`, TTL `ttl`, created `cr`) — new or a refresh, whatever the scheduler held
for the instance before; every earlier record of the instance named the same type (`OneName`); the record is neither refreshed nor
withdrawn in the blocks `evsA` that follow, up to a block at `tn` beyond the second deadline; the earliest possible schedule of its
75 % query (`cr + 75 % − minDelay`) is neither before the record is learned nor inside the start-up phase.  Then the scheduler asks
for `n` at some `o₁ ∈ [cr + 75 % − minDelay, cr + 75 % + 2·minDelay]` and again at `o₂ ∈ [o₁ + 10 %, o₁ + 10 % + minDelay]`. -/
theorem refresh_two_sends_any (types : List String) (minDelay : Nat) (tS : Int) (pre0 : List (Int × Op)) (tb : Int) (d : Nat)
    (pre : List (Int × Op)) (t : Int) (a n : String) (ttl : Nat) (cr : Int) (evsA : List (Int × Op)) (tn : Int) (opn : Op)
    (rest : List (Int × Op)) (s' : Sched2.S2) (outs : List Send)
    (hidle : IdleOps pre0) (hpre : Active pre) (hact : Active evsA) (hun : Untouched a evsA)
    (hname : OneName a n (pre0 ++ pre))
    (hlearn : t + minDelay ≤ cr + 750 * ttl) (hstartup : tb + d + 14000 + minDelay ≤ cr + 750 * ttl)
    (httl : (3 * minDelay : Int) < 150 * ttl) (hbeyond : cr + 850 * ttl + 3 * minDelay < tn)
    (hex : Sched2.exec2 (browserCfg types minDelay none) {} tS
      (pre0 ++ (tb, .start d) :: (pre ++ (t, .ptr a n ttl cr) :: (evsA ++ (tn, opn) :: rest))) = .ok (s', outs)) :
    ∃ o1 ∈ outs, cr + 750 * ttl - minDelay ≤ o1.t ∧ o1.t ≤ cr + 750 * ttl + 2 * minDelay ∧ n ∈ o1.types ∧
      ∃ o2 ∈ outs, o1.t + 100 * ttl ≤ o2.t ∧ o2.t ≤ o1.t + 100 * ttl + minDelay ∧ n ∈ o2.types := by
  have hex1 := (Sched2.exec2_sound _ Sched2.inv2_init hex).1
  have hassoc : pre0 ++ (tb, Op.start d) :: (pre ++ (t, Op.ptr a n ttl cr) :: (evsA ++ (tn, opn) :: rest)) =
      (pre0 ++ (tb, Op.start d) :: (pre ++ (t, Op.ptr a n ttl cr) :: evsA)) ++ (tn, opn) :: rest := by simp
  rw [hassoc] at hex1
  obtain ⟨s'', oA, o2', hexT, rfl⟩ := exec_truncate _ _ tn opn rest _ tS _ outs (a ++ "x") hex1
  have hassoc2 : (pre0 ++ (tb, Op.start d) :: (pre ++ (t, Op.ptr a n ttl cr) :: evsA)) ++ [(tn, Op.cancel (a ++ "x"))] =
      pre0 ++ (tb, Op.start d) :: (pre ++ (t, Op.ptr a n ttl cr) :: (evsA ++ [(tn, Op.cancel (a ++ "x"))])) := by simp
  rw [hassoc2] at hexT
  have hact' : Active (evsA ++ [(tn, Op.cancel (a ++ "x"))]) := by
    intro e he
    rcases List.mem_append.mp he with he | he
    · exact hact e he
    · simp only [List.mem_singleton] at he; subst he; rfl
  have hun' : Untouched a (evsA ++ [(tn, Op.cancel (a ++ "x"))]) := by
    intro e he
    rcases List.mem_append.mp he with he | he
    · exact hun e he
    · simp only [List.mem_singleton] at he; subst he
      simp [Op.touches]
  have hlast : lastTime t (evsA ++ [(tn, Op.cancel (a ++ "x"))]) = tn := by
    rw [lastTime_append]; rfl
  generalize hE : evsA ++ [(tn, Op.cancel (a ++ "x"))] = evs at hexT hact' hun' hlast
  obtain ⟨c, hc⟩ : ∃ c, c = browserCfg types minDelay none := ⟨_, rfl⟩
  rw [← hc] at hexT
  -- the opening, the blocks before the update, the update
  obtain ⟨s0, s1, hex0, _, _, hpre1, _, hheap, hex2⟩ := C10_opening c tS pre0 tb d _ s'' oA hidle hexT
  obtain ⟨s2, p1, p2, hexpre, hexrest, rfl⟩ := exec_append c pre s1 tb _ s'' oA hex2
  have hinv := inv_exec c (tb + d) pre s1 tb s2 p1 (Or.inl hpre1) hpre hexpre
  have hu0 : Uniq s0.heap := uniq_exec c pre0 {} tS s0 [] C10_initial_uniq hex0
  have hu2 : Uniq s2.heap := uniq_exec c pre s1 tb s2 p1 (by rw [hheap]; exact hu0) hexpre
  have hn0 : NameOK a n s0.heap := nameOK_exec c a n pre0 {} tS s0 [] (by intro q hq; cases hq)
    (fun e he => hname e (List.mem_append_left _ he)) hex0
  have hn2 : NameOK a n s2.heap := nameOK_exec c a n pre s1 tb s2 p1 (by rw [hheap]; exact hn0)
    (fun e he => hname e (List.mem_append_right _ he)) hexpre
  obtain ⟨hen, s3, q1, o3, hst3, hex3, rfl⟩ := exec_cons hexrest
  simp only [step, Option.some.injEq, Prod.mk.injEq] at hst3
  obtain ⟨hcnt, hent⟩ := reschedule_entry c hu2 a n ttl cr
  obtain ⟨q, hq, hqe⟩ := entry_of_cnt_one hcnt
  obtain ⟨hqttl, hqexp, hqlo, hqhi⟩ := hent q hq hqe
  have hqn : q.name = n := nameOK_reschedule c hn2 a n ttl cr (fun _ => rfl) q hq (by
    simp only [isEntry, Bool.and_eq_true] at hqe; exact hqe.2)
  have hql : q.cancelled = false := by simp only [isEntry, Bool.and_eq_true, Bool.not_eq_true'] at hqe; exact hqe.1
  have hqa : q.alias = a := by simp only [isEntry, Bool.and_eq_true, beq_iff_eq] at hqe; exact hqe.2
  have hcm : c.minDelay = minDelay := by rw [hc]; rfl
  rw [hcm] at hqlo hqhi
  have hq3 : q ∈ s3.heap := by rw [← hst3.1]; exact hq
  have hactun : ∀ e ∈ evs, e.2.active = true ∧ e.2.touches q.alias = false := fun e he => ⟨hact' e he, by rw [hqa]; exact hun' e he⟩
  rw [← hst3.2]
  have hchain : Chain c n ttl (cr + 1000 * ttl) tn o3 2 q.when := by
    rw [← hlast]
    rcases hinv with hp | ⟨hp, hearl⟩
    · have hp3 : Pre (tb + d) s3 := by rw [← hst3.1]; exact pre_reschedule c hp a n ttl cr
      exact chain_pre c n ttl (cr + 1000 * ttl) (tb + d) evs 2 s3 t s'' o3 q hp3 hq3 hql hqn hqttl hqexp (by omega) (by omega)
        hactun hex3
    · have hp3 : Post s3 := by rw [← hst3.1]; exact post_reschedule c hp a n ttl cr
      have he3 : s3.earliest = s2.earliest := by rw [← hst3.1]; simp
      have hclk2 := (enabled_post hp hen).1
      exact chain_core c n ttl (cr + 1000 * ttl) evs 2 s3 t s'' o3 q hp3 hq3 hql hqn hqttl hqexp
        (by rw [he3]; rw [hcm] at hearl ⊢; omega) (by omega) hactun hex3
  obtain ⟨o1, ho1, h1, h2, h3, o2, ho2, g1, g2, g3⟩ := chain_two hchain (by rw [hcm]; omega) (by rw [hcm]; omega)
  rw [hcm] at h2 g2
  refine ⟨o1, ?_, by omega, by omega, h3, o2, ?_, g1, g2, g3⟩
  · exact List.mem_append_left _ (List.mem_append_right _ (List.mem_append_right _ ho1))
  · exact List.mem_append_left _ (List.mem_append_right _ (List.mem_append_right _ ho2))

/-- **… for a record the scheduler is told about before `start`** (the listener is installed first; this is how the pointer
records of a warm cache arrive at a new browser, with their original creation time): blocks `pre0a` (every earlier record of the
instance naming the same type), the pointer record, more record updates `pre0b` that leave it alone, `start`, then blocks leaving it
alone up to a block beyond the second deadline. -/
theorem refresh_two_sends_before_start (types : List String) (minDelay : Nat) (tS : Int) (pre0a : List (Int × Op)) (t : Int)
    (a n : String) (ttl : Nat) (cr : Int) (pre0b : List (Int × Op)) (tb : Int) (d : Nat) (evsA : List (Int × Op)) (tn : Int)
    (opn : Op) (rest : List (Int × Op)) (s' : Sched2.S2) (outs : List Send)
    (hidlea : IdleOps pre0a) (hidleb : IdleOps pre0b) (hunb : Untouched a pre0b) (hact : Active evsA) (hun : Untouched a evsA)
    (hname : OneName a n pre0a) (hstartup : tb + d + 14000 + minDelay ≤ cr + 750 * ttl)
    (httl : (3 * minDelay : Int) < 150 * ttl) (hbeyond : cr + 850 * ttl + 3 * minDelay < tn)
    (hex : Sched2.exec2 (browserCfg types minDelay none) {} tS
      (pre0a ++ (t, .ptr a n ttl cr) :: (pre0b ++ (tb, .start d) :: (evsA ++ (tn, opn) :: rest))) = .ok (s', outs)) :
    ∃ o1 ∈ outs, cr + 750 * ttl - minDelay ≤ o1.t ∧ o1.t ≤ cr + 750 * ttl + 2 * minDelay ∧ n ∈ o1.types ∧
      ∃ o2 ∈ outs, o1.t + 100 * ttl ≤ o2.t ∧ o2.t ≤ o1.t + 100 * ttl + minDelay ∧ n ∈ o2.types := by
  have hex1 := (Sched2.exec2_sound _ Sched2.inv2_init hex).1
  have hassoc : pre0a ++ (t, Op.ptr a n ttl cr) :: (pre0b ++ (tb, Op.start d) :: (evsA ++ (tn, opn) :: rest)) =
      (pre0a ++ (t, Op.ptr a n ttl cr) :: (pre0b ++ (tb, Op.start d) :: evsA)) ++ (tn, opn) :: rest := by simp
  rw [hassoc] at hex1
  obtain ⟨s'', oA, o2', hexT, rfl⟩ := exec_truncate _ _ tn opn rest _ tS _ outs (a ++ "x") hex1
  have hassoc2 : (pre0a ++ (t, Op.ptr a n ttl cr) :: (pre0b ++ (tb, Op.start d) :: evsA)) ++ [(tn, Op.cancel (a ++ "x"))] =
      pre0a ++ (t, Op.ptr a n ttl cr) :: (pre0b ++ (tb, Op.start d) :: (evsA ++ [(tn, Op.cancel (a ++ "x"))])) := by simp
  rw [hassoc2] at hexT
  have hact' : Active (evsA ++ [(tn, Op.cancel (a ++ "x"))]) := by
    intro e he
    rcases List.mem_append.mp he with he | he
    · exact hact e he
    · simp only [List.mem_singleton] at he; subst he; rfl
  have hun' : Untouched a (evsA ++ [(tn, Op.cancel (a ++ "x"))]) := by
    intro e he
    rcases List.mem_append.mp he with he | he
    · exact hun e he
    · simp only [List.mem_singleton] at he; subst he
      simp [Op.touches]
  have hlast : lastTime tb (evsA ++ [(tn, Op.cancel (a ++ "x"))]) = tn := by
    rw [lastTime_append]; rfl
  generalize hE : evsA ++ [(tn, Op.cancel (a ++ "x"))] = evs at hexT hact' hun' hlast
  obtain ⟨c, hc⟩ : ∃ c, c = browserCfg types minDelay none := ⟨_, rfl⟩
  rw [← hc] at hexT
  have hcm : c.minDelay = minDelay := by rw [hc]; rfl
  obtain ⟨s0, p0, p1, hex0, hex1', rfl⟩ := exec_append c pre0a {} tS _ s'' oA hexT
  have ⟨hi0, _, _⟩ := idle_exec c pre0a {} tS s0 p0 idle_init hidlea hex0
  have hu0 : Uniq s0.heap := uniq_exec c pre0a {} tS s0 p0 C10_initial_uniq hex0
  have hn0 : NameOK a n s0.heap := nameOK_exec c a n pre0a {} tS s0 p0 (by intro q hq; cases hq) hname hex0
  obtain ⟨_, s1, o1', o2'', hst1, hex2, rfl⟩ := exec_cons hex1'
  have ⟨hi1, _⟩ := idle_step c hi0 (op := .ptr a n ttl cr) rfl hst1
  simp only [step, Option.some.injEq, Prod.mk.injEq] at hst1
  obtain ⟨hcnt, hent⟩ := reschedule_entry c hu0 a n ttl cr
  obtain ⟨q, hq, hqe⟩ := entry_of_cnt_one hcnt
  obtain ⟨hqttl, hqexp, hqlo, hqhi⟩ := hent q hq hqe
  have hqn : q.name = n := nameOK_reschedule c hn0 a n ttl cr (fun _ => rfl) q hq (by
    simp only [isEntry, Bool.and_eq_true] at hqe; exact hqe.2)
  have hql : q.cancelled = false := by simp only [isEntry, Bool.and_eq_true, Bool.not_eq_true'] at hqe; exact hqe.1
  have hqa : q.alias = a := by simp only [isEntry, Bool.and_eq_true, beq_iff_eq] at hqe; exact hqe.2
  rw [hcm] at hqlo hqhi
  have hq1 : q ∈ s1.heap := by rw [← hst1.1]; exact hq
  obtain ⟨s2, p2, p3, hexb, hexrest, rfl⟩ := exec_append c pre0b s1 t _ s'' o2'' hex2
  have ⟨hi2, _, hkeep⟩ := idle_exec c pre0b s1 t s2 p2 hi1 hidleb hexb
  have hq2 : q ∈ s2.heap := hkeep _ hq1 (fun e he => by rw [hqa]; exact hunb e he)
  obtain ⟨_, s3, o3, o4, hst3, hex4, rfl⟩ := exec_cons hexrest
  obtain ⟨_, hpre3, _, hheap3, _⟩ := start_from_idle c hi2 hst3
  have hq3 : q ∈ s3.heap := by rw [hheap3]; exact hq2
  have hchain : Chain c n ttl (cr + 1000 * ttl) tn o4 2 q.when := by
    rw [← hlast]
    exact chain_pre c n ttl (cr + 1000 * ttl) (tb + d) evs 2 s3 tb s'' o4 q hpre3 hq3 hql hqn hqttl hqexp (by omega) (by omega)
      (fun e he => ⟨hact' e he, by rw [hqa]; exact hun' e he⟩) hex4
  obtain ⟨o1, ho1, h1, h2, h3, o2, ho2, g1, g2, g3⟩ := chain_two hchain (by rw [hcm]; omega) (by rw [hcm]; omega)
  rw [hcm] at h2 g2
  refine ⟨o1, ?_, by omega, by omega, h3, o2, ?_, g1, g2, g3⟩
  · exact List.mem_append_left _ (List.mem_append_right _ (List.mem_append_right _ (List.mem_append_right _ (List.mem_append_right _ ho1))))
  · exact List.mem_append_left _ (List.mem_append_right _ (List.mem_append_right _ (List.mem_append_right _ (List.mem_append_right _ ho2))))

/-! ### K3b's windows -/

/-- **K3b's two windows, early branch** (`refreshWindow`: the browser had finished its start-up phase 10 s before the record's 75 %
point): from the two sends of `refresh_two_sends_any` / `refresh_two_sends_before_start` and C13's mapping of a scheduler send for a
stale record to the wire (`WireAskWithout`).  The record is the link-level PTR processed at `t` (created `t`) with lifetime `ttl`
seconds. -/
theorem K3b_windows_of_sends (tr : Link.Trace) (b : Link.Br) (s : Link.Svc) (n : String) (outs : List Send) (tb t : Int) (ttl : Nat)
    (hearly : tb + 120 + 14000 + 10000 ≤ t + 750 * ttl)
    (hsends : ∃ o1 ∈ outs, t + 750 * ttl - 10000 ≤ o1.t ∧ o1.t ≤ t + 750 * ttl + 2 * 10000 ∧ n ∈ o1.types ∧
      ∃ o2 ∈ outs, o1.t + 100 * ttl ≤ o2.t ∧ o2.t ≤ o1.t + 100 * ttl + 10000 ∧ n ∈ o2.types)
    (hwire : ∀ o ∈ outs, n ∈ o.types → t + 750 * ttl - 10000 ≤ o.t → WireAskWithout tr b s o) :
    Link.refreshOpp tr b.host b.ty s (Link.refreshWindow Link.Cfg.paper t ttl tb false).1
        (Link.refreshWindow Link.Cfg.paper t ttl tb false).2 = true
    ∧ Link.refreshOpp tr b.host b.ty s (Link.refreshWindow Link.Cfg.paper t ttl tb true).1
        (Link.refreshWindow Link.Cfg.paper t ttl tb true).2 = true := by
  obtain ⟨o1, ho1, h1, h2, h3, o2, ho2, h4, h5, h6⟩ := hsends
  have hw1 := hwire o1 ho1 h3 h1
  have hw2 := hwire o2 ho2 h6 (by omega)
  rw [Link.refreshWindow_early hearly false, Link.refreshWindow_early hearly true]
  simp only [Bool.false_eq_true, if_false, if_true]
  constructor
  · exact refreshOpp_of_wire tr b s o1 _ _ hw1 (by omega) (by omega)
  · exact refreshOpp_of_wire tr b s o2 _ _ hw2 (by omega) (by omega)

/-- **K3b's two windows, start-up branch** (`refreshWindow`: the browser started after the record's 75 % point, or less than a
start-up phase plus 10 s before it): the third and the fourth start-up question of the browser (K3: `startup_send_mem`, from
`C10_startup2`), which C13 puts on the wire without listing the record — by then it is past half its life (`WireAskWithout`). -/
theorem K3b_windows_startup (tr : Link.Trace) (b : Link.Br) (s : Link.Svc) (types : List String) (n : String) (hn : n ∈ types)
    (minDelay : Nat) (tS : Int) (pre0 : List (Int × Op)) (tb : Int) (d : Nat) (evs : List (Int × Op)) (s' : Sched2.S2)
    (outs : List Send) (t : Int) (ttl : Int)
    (hidle : IdleOps pre0) (hact : Active evs)
    (hex : Sched2.exec2 (browserCfg types minDelay none) {} tS (pre0 ++ (tb, .start d) :: evs) = .ok (s', outs))
    (hlast : tb + 120 + 14000 < lastTime tb evs)
    (hlate : ¬ tb + 120 + 14000 + 10000 ≤ t + 750 * ttl)
    (hwire : ∀ o ∈ outs, n ∈ o.types → tb + 5000 ≤ o.t → WireAskWithout tr b s o) :
    Link.refreshOpp tr b.host b.ty s (Link.refreshWindow Link.Cfg.paper t ttl tb false).1
        (Link.refreshWindow Link.Cfg.paper t ttl tb false).2 = true
    ∧ Link.refreshOpp tr b.host b.ty s (Link.refreshWindow Link.Cfg.paper t ttl tb true).1
        (Link.refreshWindow Link.Cfg.paper t ttl tb true).2 = true := by
  obtain ⟨h20, h120, hm2⟩ := startup_send_mem types minDelay tS pre0 tb d evs s' outs hidle hact hex 2 (by omega)
    (by simp only [startupOffset]; omega)
  obtain ⟨_, _, hm3⟩ := startup_send_mem types minDelay tS pre0 tb d evs s' outs hidle hact hex 3 (by omega)
    (by simp only [startupOffset]; omega)
  have hw2 := hwire _ hm2 (by simp [startupSend, browserCfg, hn]) (by simp only [startupSend, startupOffset]; omega)
  have hw3 := hwire _ hm3 (by simp [startupSend, browserCfg, hn]) (by simp only [startupSend, startupOffset]; omega)
  rw [Link.refreshWindow_late hlate false, Link.refreshWindow_late hlate true]
  simp only [Bool.false_eq_true, if_false, if_true]
  constructor
  · exact refreshOpp_of_wire tr b s _ _ _ hw2 (by simp only [startupSend, startupOffset]; omega)
      (by simp only [startupSend, startupOffset]; omega)
  · exact refreshOpp_of_wire tr b s _ _ _ hw3 (by simp only [startupSend, startupOffset]; omega)
      (by simp only [startupSend, startupOffset]; omega)

end Zc.Bridge
