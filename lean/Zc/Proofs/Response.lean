import Zc.Proofs.Host
/-! `async_response` as a whole: every record it hands out is an unsuppressed candidate of one of the
assembled packets' questions, judged against the union of the known answers of all (non-probe) packets. -/
namespace Zc.Reply
open GenFacts

/-- the four sets of a `QR` -/
def QR.mem (qr : QR) (r : RecId) : Prop := r ∈ qr.ucast ∨ r ∈ qr.mcastNow ∨ r ∈ qr.mcastAgg ∨ r ∈ qr.mcastLast

theorem fold_route_sources (us probe : Bool) (seen : SeenMap) (now : Int) (nq q0 : Nat) (known : List (RecId × Nat)) (r : RecId) :
    ∀ (items : List QItem) (qr : QR),
      (items.foldl (fun (qr : QR) it => qr.route us probe seen now nq q0 it.qu (answerSet known it)) qr).mem r →
      qr.mem r ∨ ∃ it ∈ items, r ∈ (answerSet known it).keys := by
  intro items
  induction items with
  | nil => intro qr h; exact Or.inl h
  | cons it items ih =>
    intro qr h
    simp only [List.foldl_cons] at h
    rcases ih _ h with h | ⟨it', hit', hr⟩
    · obtain ⟨s1, s2, s3, s4⟩ := route_subset us probe seen now nq q0 qr it.qu (answerSet known it) r
      have : qr.mem r ∨ r ∈ (answerSet known it).keys := by
        rcases h with h | h | h | h
        · rcases s1 h with h | h; exact Or.inl (Or.inl h); exact Or.inr h
        · rcases s2 h with h | h; exact Or.inl (Or.inr (Or.inl h)); exact Or.inr h
        · rcases s3 h with h | h; exact Or.inl (Or.inr (Or.inr (Or.inl h))); exact Or.inr h
        · rcases s4 h with h | h; exact Or.inl (Or.inr (Or.inr (Or.inr h))); exact Or.inr h
      rcases this with h | h
      · exact Or.inl h
      · exact Or.inr ⟨it, by simp, h⟩
    · exact Or.inr ⟨it', by simp [hit'], hr⟩

theorem answers_keys (qr : QR) :
    qr.answers.ucast.keys = qr.ucast ∧ qr.answers.mcastNow.keys = qr.mcastNow ∧
    qr.answers.mcastAgg.keys = qr.mcastAgg ∧ qr.answers.mcastLast.keys = qr.mcastLast := by
  simp [QR.answers, Dict.keys, Function.comp_def]

/-- the known answers `async_response` suppresses with: those of every packet that is not a probe -/
def unionKnown (pkts : List Pkt) : List (RecId × Nat) := (pkts.filter (fun p => !p.isProbe)).flatMap (·.known)

theorem asyncResponse_sources {pkts : List Pkt} {us : Bool} {seen : SeenMap} {qa : QA}
    (h : asyncResponse pkts us seen = some qa) (r : RecId)
    (hr : r ∈ qa.ucast.keys ∨ r ∈ qa.mcastNow.keys ∨ r ∈ qa.mcastAgg.keys ∨ r ∈ qa.mcastLast.keys) :
    ∃ p ∈ pkts, ∃ it ∈ p.items, ∃ c ∈ it.cands, c.id = r ∧ suppresses (unionKnown pkts) c = false := by
  unfold asyncResponse at h
  simp only at h
  split at h
  · cases h
  · cases hf : pkts.head? with
    | none => rw [hf] at h; cases h
    | some first =>
      cases hl : pkts.getLast? with
      | none => rw [hf, hl] at h; cases h
      | some last =>
        rw [hf, hl] at h
        simp only [Option.some.injEq] at h
        subst h
        obtain ⟨k1, k2, k3, k4⟩ := answers_keys
          (List.foldl (fun (qr : QR) it => qr.route us (pkts.any (·.isProbe)) seen last.now first.nq first.q0type it.qu
            (answerSet (unionKnown pkts) it)) {} (pkts.flatMap (·.items)))
        simp only [unionKnown] at k1 k2 k3 k4
        rw [k1, k2, k3, k4] at hr
        rcases fold_route_sources us _ seen last.now first.nq first.q0type (unionKnown pkts) r _ _ hr with h0 | ⟨it, hit, hk⟩
        · rcases h0 with h0 | h0 | h0 | h0 <;> cases h0
        · obtain ⟨p, hp, hip⟩ := List.mem_flatMap.mp hit
          obtain ⟨c, hc, e, hs⟩ := answerSet_keys _ _ _ hk
          exact ⟨p, hp, it, hip, c, hc, e, hs⟩

end Zc.Reply
