import Zc.Model.Link
/-! Helper lemmas for C07: "the last relevant event decides" over time-sorted traces, and extraction of the
∀/∃ content of the Boolean contract monitors. -/
namespace Zc.Link

/-! ### `lastSome` -/

theorem lastSome_eq_none {α β : Type} (f : α → Option β) (l : List α) :
    lastSome f l = none ↔ ∀ a ∈ l, f a = none := by
  induction l with
  | nil => simp [lastSome]
  | cons a r ih =>
    simp only [lastSome, List.mem_cons, forall_eq_or_imp]
    cases h : lastSome f r with
    | some b =>
      simp only [reduceCtorEq, false_iff, not_and]
      intro _ hall
      rw [ih.mpr hall] at h
      cases h
    | none =>
      have := ih.mp h
      simp only [iff_def]
      exact ⟨fun ha => ⟨ha, this⟩, fun hh => hh.1⟩

theorem lastSome_eq_some {α β : Type} (f : α → Option β) (l : List α) (b : β) (h : lastSome f l = some b) :
    ∃ pre a post, l = pre ++ a :: post ∧ f a = some b ∧ ∀ x ∈ post, f x = none := by
  induction l with
  | nil => simp [lastSome] at h
  | cons a r ih =>
    simp only [lastSome] at h
    cases hr : lastSome f r with
    | some c =>
      rw [hr] at h
      cases h
      obtain ⟨pre, a', post, rfl, ha', hpost⟩ := ih hr
      exact ⟨a :: pre, a', post, rfl, ha', hpost⟩
    | none =>
      rw [hr] at h
      exact ⟨[], a, r, rfl, h, (lastSome_eq_none f r).mp hr⟩

/-! ### sorted traces -/

def Sorted (tr : Trace) : Prop := tr.Pairwise (fun a b => a.t ≤ b.t)

theorem sortedB_sorted : ∀ tr : Trace, sortedB tr = true → Sorted tr
  | [], _ => List.Pairwise.nil
  | [a], _ => by simp [Sorted]
  | a :: b :: r, h => by
    simp only [sortedB, Bool.and_eq_true, decide_eq_true_eq] at h
    have ih := sortedB_sorted (b :: r) h.2
    unfold Sorted at ih ⊢
    rw [List.pairwise_cons]
    refine ⟨?_, ih⟩
    rw [List.pairwise_cons] at ih
    intro x hx
    rcases List.mem_cons.mp hx with rfl | hx
    · exact h.1
    · exact Int.le_trans h.1 (ih.1 x hx)

/-- in a sorted trace the event that decides `lastSome` is at least as late as every other relevant event -/
theorem lastSome_sorted {β : Type} (f : TEv → Option β) (tr : Trace) (b : β) (hs : Sorted tr)
    (h : lastSome f tr = some b) :
    ∃ a ∈ tr, f a = some b ∧ ∀ x ∈ tr, f x ≠ none → x.t ≤ a.t := by
  obtain ⟨pre, a, post, rfl, ha, hpost⟩ := lastSome_eq_some f tr b h
  refine ⟨a, by simp, ha, ?_⟩
  intro x hx hne
  rcases List.mem_append.mp hx with hx | hx
  · exact (List.pairwise_append.mp hs).2.2 x hx a (by simp)
  · rcases List.mem_cons.mp hx with rfl | hx
    · exact Int.le_refl _
    · exact absurd (hpost x hx) hne

end Zc.Link
