import Zc.Model.Link
/-! Helper lemmas for C07: "the last relevant event decides" over time-sorted traces, and extraction of the
∀/∃ content of the Boolean contract monitors. -/
namespace Zc.Link

/-- `decide p = true` whatever the `Decidable` instance looks like (after unfolding `Cfg.paper` inside a monitor the
instance still mentions the un-reduced projection, so `decide_eq_true_eq` does not fire) -/
theorem dec_true {p : Prop} {i : Decidable p} : (@decide p i = true) = p := by
  cases i <;> simp_all

theorem dec_false {p : Prop} {i : Decidable p} : (@decide p i = false) = ¬ p := by
  cases i <;> simp_all

/-! ### `lastSome` -/

theorem lastSome_eq_none {α β : Type} (f : α → Option β) (l : List α) :
    lastSome f l = none ↔ ∀ a ∈ l, f a = none := by
  induction l with
  | nil => simp [lastSome]
  | cons a r ih =>
    simp only [lastSome, List.mem_cons, forall_eq_or_imp]
    cases h : lastSome f r with
    | some b =>
      simp only [reduceCtorEq, false_iff, not_and]
      intro _ hall
      rw [ih.mpr hall] at h
      cases h
    | none =>
      have := ih.mp h
      simp only [iff_def]
      exact ⟨fun ha => ⟨ha, this⟩, fun hh => hh.1⟩

theorem lastSome_eq_some {α β : Type} (f : α → Option β) (l : List α) (b : β) (h : lastSome f l = some b) :
    ∃ pre a post, l = pre ++ a :: post ∧ f a = some b ∧ ∀ x ∈ post, f x = none := by
  induction l with
  | nil => simp [lastSome] at h
  | cons a r ih =>
    simp only [lastSome] at h
    cases hr : lastSome f r with
    | some c =>
      rw [hr] at h
      cases h
      obtain ⟨pre, a', post, rfl, ha', hpost⟩ := ih hr
      exact ⟨a :: pre, a', post, rfl, ha', hpost⟩
    | none =>
      rw [hr] at h
      exact ⟨[], a, r, rfl, h, (lastSome_eq_none f r).mp hr⟩

/-! ### sorted traces -/

def Sorted (tr : Trace) : Prop := tr.Pairwise (fun a b => a.t ≤ b.t)

theorem sortedB_sorted : ∀ tr : Trace, sortedB tr = true → Sorted tr
  | [], _ => List.Pairwise.nil
  | [a], _ => by simp [Sorted]
  | a :: b :: r, h => by
    simp only [sortedB, Bool.and_eq_true, decide_eq_true_eq] at h
    have ih := sortedB_sorted (b :: r) h.2
    unfold Sorted at ih ⊢
    rw [List.pairwise_cons]
    refine ⟨?_, ih⟩
    rw [List.pairwise_cons] at ih
    intro x hx
    rcases List.mem_cons.mp hx with rfl | hx
    · exact h.1
    · exact Int.le_trans h.1 (ih.1 x hx)

/-- in a sorted trace the event that decides `lastSome` is at least as late as every other relevant event -/
theorem lastSome_sorted {β : Type} (f : TEv → Option β) (tr : Trace) (b : β) (hs : Sorted tr)
    (h : lastSome f tr = some b) :
    ∃ a ∈ tr, f a = some b ∧ ∀ x ∈ tr, f x ≠ none → x.t ≤ a.t := by
  obtain ⟨pre, a, post, rfl, ha, hpost⟩ := lastSome_eq_some f tr b h
  refine ⟨a, by simp, ha, ?_⟩
  intro x hx hne
  rcases List.mem_append.mp hx with hx | hx
  · exact (List.pairwise_append.mp hs).2.2 x hx a (by simp)
  · rcases List.mem_cons.mp hx with rfl | hx
    · exact Int.le_refl _
    · exact absurd (hpost x hx) hne

/-- … with the split of the trace at the last such event -/
theorem lastSome_sorted_split {β : Type} (f : TEv → Option β) (tr : Trace) (b : β) (hs : Sorted tr)
    (h : lastSome f tr = some b) :
    ∃ pre a post, tr = pre ++ a :: post ∧ f a = some b ∧ (∀ x ∈ post, f x = none) ∧ ∀ x ∈ tr, f x ≠ none → x.t ≤ a.t := by
  obtain ⟨pre, a, post, rfl, ha, hpost⟩ := lastSome_eq_some f tr b h
  refine ⟨pre, a, post, rfl, ha, hpost, ?_⟩
  intro x hx hne
  rcases List.mem_append.mp hx with hx | hx
  · exact (List.pairwise_append.mp hs).2.2 x hx a (by simp)
  · rcases List.mem_cons.mp hx with rfl | hx
    · exact Int.le_refl _
    · exact absurd (hpost x hx) hne


/-! ### typed views -/

theorem mem_dlvs {tr : Trace} {x : DlvE} : x ∈ dlvs tr ↔ (⟨x.t, .dlv x.d x.src x.h x.mc x.items⟩ : TEv) ∈ tr := by
  unfold dlvs
  rw [List.mem_filterMap]
  constructor
  · rintro ⟨⟨t, e⟩, he, h⟩
    cases e <;> simp at h
    subst h
    exact he
  · intro h
    exact ⟨_, h, rfl⟩

theorem mem_regs {tr : Trace} {t : Int} {s : Svc} : (t, s) ∈ regs tr ↔ (⟨t, .reg s⟩ : TEv) ∈ tr := by
  unfold regs
  rw [List.mem_filterMap]
  constructor
  · rintro ⟨⟨t', e⟩, he, h⟩
    cases e <;> simp at h
    obtain ⟨rfl, rfl⟩ := h
    exact he
  · intro h
    exact ⟨_, h, rfl⟩

theorem mem_upds {tr : Trace} {t : Int} {s : Svc} : (t, s) ∈ upds tr ↔ (⟨t, .upd s⟩ : TEv) ∈ tr := by
  unfold upds
  rw [List.mem_filterMap]
  constructor
  · rintro ⟨⟨t', e⟩, he, h⟩
    cases e <;> simp at h
    obtain ⟨rfl, rfl⟩ := h
    exact he
  · intro h
    exact ⟨_, h, rfl⟩

theorem mem_unregs {tr : Trace} {t : Int} {s : Svc} : (t, s) ∈ unregs tr ↔ (⟨t, .unreg s⟩ : TEv) ∈ tr := by
  unfold unregs
  rw [List.mem_filterMap]
  constructor
  · rintro ⟨⟨t', e⟩, he, h⟩
    cases e <;> simp at h
    obtain ⟨rfl, rfl⟩ := h
    exact he
  · intro h
    exact ⟨_, h, rfl⟩

theorem mem_browses {tr : Trace} {t : Int} {b : Br} : (t, b) ∈ browses tr ↔ (⟨t, .browse b⟩ : TEv) ∈ tr := by
  unfold browses
  rw [List.mem_filterMap]
  constructor
  · rintro ⟨⟨t', e⟩, he, h⟩
    cases e <;> simp at h
    obtain ⟨rfl, rfl⟩ := h
    exact he
  · intro h
    exact ⟨_, h, rfl⟩

/-- a register / update / unregister call of `s` -/
def IsRegEv (s : Svc) (e : TEv) : Prop := e.e = .reg s ∨ e.e = .upd s ∨ e.e = .unreg s

theorem regEv_ne_none {cfg : Cfg} {s : Svc} {e : TEv} : regEv cfg s e ≠ none ↔ IsRegEv s e := by
  obtain ⟨t, e⟩ := e
  cases e <;> simp [regEv, IsRegEv] <;> exact eq_comm

theorem mem_regEvs {tr : Trace} {t : Int} {s : Svc} : (t, s) ∈ regEvs tr ↔ ∃ e ∈ tr, e.t = t ∧ IsRegEv s e := by
  unfold regEvs
  rw [List.mem_filterMap]
  constructor
  · rintro ⟨⟨t', e⟩, he, h⟩
    cases e <;> simp at h <;> obtain ⟨rfl, rfl⟩ := h <;> exact ⟨_, he, rfl, by simp [IsRegEv]⟩
  · rintro ⟨⟨t', e⟩, he, rfl, h | h | h⟩ <;> simp only at h <;> subst h <;> exact ⟨_, he, rfl⟩

/-! ### the last change -/

theorem foldl_max_ge (l : List TEv) (m : Int) :
    m ≤ l.foldl (fun m e => if m < e.t then e.t else m) m
    ∧ ∀ e ∈ l, e.t ≤ l.foldl (fun m e => if m < e.t then e.t else m) m := by
  induction l generalizing m with
  | nil => simp
  | cons a r ih =>
    simp only [List.foldl_cons, List.mem_cons, forall_eq_or_imp]
    have h := ih (if m < a.t then a.t else m)
    refine ⟨?_, ?_, h.2⟩
    · have := h.1; split at this <;> omega
    · have := h.1; split at this <;> omega

theorem le_lastChange {tr : Trace} {e : TEv} (he : e ∈ tr) (hapi : isApi e = true) : e.t ≤ lastChange tr :=
  (foldl_max_ge (tr.filter isApi) 0).2 e (List.mem_filter.mpr ⟨he, hapi⟩)

theorem regEv_le_lastChange {tr : Trace} {s : Svc} {e : TEv} (he : e ∈ tr) (h : IsRegEv s e) : e.t ≤ lastChange tr := by
  apply le_lastChange he
  obtain ⟨t, ev⟩ := e
  rcases h with h | h | h <;> simp only at h <;> subst h <;> rfl

/-! ### items -/

theorem ptrOf_mem {s : Svc} {items : List Item} {v : Nat × Bool} (h : ptrOf s items = some v) : s ∈ ptrSvcs items := by
  induction items with
  | nil => simp [ptrOf] at h
  | cons it r ih =>
    cases it with
    | ptr s' ttl full =>
      simp only [ptrOf] at h
      by_cases hs : s' = s
      · subst hs; simp [ptrSvcs]
      · rw [if_neg hs] at h
        have := ih h
        simp only [ptrSvcs, List.filterMap_cons] at this ⊢
        exact List.mem_cons_of_mem _ this
    | query ty known qu =>
      simp only [ptrOf] at h
      have := ih h
      simp only [ptrSvcs, List.filterMap_cons] at this ⊢
      exact this

theorem pos_mem {s : Svc} {items : List Item} (h : pos s items = true) : s ∈ ptrSvcs items := by
  unfold pos at h
  cases hp : ptrOf s items with
  | none => simp [hp] at h
  | some v => exact ptrOf_mem hp

theorem bye_mem {s : Svc} {items : List Item} (h : bye s items = true) : s ∈ ptrSvcs items := by
  unfold bye at h
  cases hp : ptrOf s items with
  | none => simp [hp] at h
  | some v => exact ptrOf_mem hp

theorem posFull_pos {s : Svc} {items : List Item} (h : posFull s items = true) : pos s items = true := by
  unfold posFull at h
  unfold pos
  cases hp : ptrOf s items with
  | none => simp [hp] at h
  | some v => obtain ⟨ttl, full⟩ := v; simp [hp] at h ⊢; exact h.1

/-! ### `held` -/

theorem heldEv_dlv {h : Nat} {s : Svc} {x : DlvE} (hx : x.h = h) :
    heldEv h s ⟨x.t, .dlv x.d x.src x.h x.mc x.items⟩ = (ptrOf s x.items).map (fun p => (p.1, x.t)) := by
  simp [heldEv, hx]

theorem heldEv_some {h : Nat} {s : Svc} {a : TEv} {ttl : Nat} {t0 : Int} (ha : heldEv h s a = some (ttl, t0)) :
    ∃ x : DlvE, a = ⟨x.t, .dlv x.d x.src x.h x.mc x.items⟩ ∧ x.h = h ∧ x.t = t0 ∧ ∃ full, ptrOf s x.items = some (ttl, full) := by
  obtain ⟨t, e⟩ := a
  cases e <;> try (simp [heldEv] at ha; done)
  rename_i d src h' mc items
  simp only [heldEv] at ha
  by_cases hh : h' = h
  · rw [if_pos hh] at ha
    cases hp : ptrOf s items with
    | none => rw [hp] at ha; cases ha
    | some v =>
      obtain ⟨ttl', full⟩ := v
      rw [hp] at ha
      simp only [Option.map_some, Option.some.injEq, Prod.mk.injEq] at ha
      obtain ⟨rfl, rfl⟩ := ha
      exact ⟨⟨t, d, src, h', mc, items⟩, rfl, hh, rfl, full, hp⟩
  · rw [if_neg hh] at ha; cases ha

theorem pos_iff {s : Svc} {items : List Item} : pos s items = true ↔ ∃ ttl full, ptrOf s items = some (ttl, full) ∧ 0 < ttl := by
  unfold pos
  cases hp : ptrOf s items with
  | none => simp
  | some v => obtain ⟨ttl, full⟩ := v; simp

theorem bye_iff {s : Svc} {items : List Item} : bye s items = true ↔ ∃ full, ptrOf s items = some (0, full) := by
  unfold bye
  cases hp : ptrOf s items with
  | none => simp
  | some v => obtain ⟨ttl, full⟩ := v; simp

/-- some PTR(`s`) with TTL > 0 was processed by `h` later than every goodbye for `s` ⇒ `h` holds `s` -/
theorem held_true {tr : Trace} {h : Nat} {s : Svc} (hs : Sorted tr) {e : DlvE} (he : e ∈ dlvs tr) (heh : e.h = h)
    (hpos : pos s e.items = true)
    (hbye : ∀ g ∈ dlvs tr, g.h = h → bye s g.items = true → g.t < e.t) : held tr h s = true := by
  obtain ⟨ttl, full, hp, httl⟩ := pos_iff.mp hpos
  have hev : heldEv h s ⟨e.t, .dlv e.d e.src e.h e.mc e.items⟩ = some (ttl, e.t) := by rw [heldEv_dlv heh, hp]; rfl
  unfold held
  cases hl : lastSome (heldEv h s) tr with
  | none =>
    have := (lastSome_eq_none _ _).mp hl _ (mem_dlvs.mp he)
    rw [hev] at this; cases this
  | some c =>
    obtain ⟨c, ct⟩ := c
    obtain ⟨a, ha, hac, hmax⟩ := lastSome_sorted _ tr _ hs hl
    obtain ⟨x, rfl, hxh, _, fx, hpx⟩ := heldEv_some hac
    have h1 := hmax _ (mem_dlvs.mp he) (by rw [hev]; simp)
    simp only [decide_eq_true_eq]
    rcases Nat.eq_zero_or_pos c with rfl | hc
    · have := hbye x (mem_dlvs.mpr ha) hxh (bye_iff.mpr ⟨fx, hpx⟩)
      simp only at h1
      omega
    · exact hc

/-- every PTR(`s`) with TTL > 0 processed by `h` is followed by a later goodbye ⇒ `h` does not hold `s` -/
theorem held_false {tr : Trace} {h : Nat} {s : Svc} (hs : Sorted tr)
    (hall : ∀ e ∈ dlvs tr, e.h = h → pos s e.items = true → ∃ g ∈ dlvs tr, g.h = h ∧ bye s g.items = true ∧ e.t < g.t) :
    held tr h s = false := by
  unfold held
  cases hl : lastSome (heldEv h s) tr with
  | none => rfl
  | some c =>
    obtain ⟨c, ct⟩ := c
    obtain ⟨a, ha, hac, hmax⟩ := lastSome_sorted _ tr _ hs hl
    obtain ⟨x, rfl, hxh, _, fx, hpx⟩ := heldEv_some hac
    simp only [decide_eq_false_iff_not, Nat.not_lt, Nat.le_zero_eq]
    rcases Nat.eq_zero_or_pos c with rfl | hc
    · rfl
    · obtain ⟨g, hg, hgh, hgb, hlt⟩ := hall x (mem_dlvs.mpr ha) hxh (pos_iff.mpr ⟨c, fx, hpx, hc⟩)
      obtain ⟨fg, hpg⟩ := bye_iff.mp hgb
      have := hmax _ (mem_dlvs.mp hg) (by rw [heldEv_dlv hgh, hpg]; simp)
      simp only at this
      omega


/-! ### `live` and K5 -/

theorem cbEv_some {b : Br} {s : Svc} {e : TEv} (h : cbEv b s e ≠ none) : s ∈ cbSvcs [e] := by
  obtain ⟨t, ev⟩ := e
  cases ev <;> simp [cbEv, cbSvcs] at h ⊢
  · exact h.2.symm
  · exact h.2.symm

theorem mem_cbSvcs_of {tr : Trace} {b : Br} {s : Svc} {e : TEv} (he : e ∈ tr) (h : cbEv b s e ≠ none) : s ∈ cbSvcs tr := by
  have h1 := cbEv_some h
  unfold cbSvcs at h1 ⊢
  rw [List.mem_filterMap] at h1 ⊢
  obtain ⟨x, hx, hxs⟩ := h1
  rw [List.mem_singleton] at hx
  subst hx
  exact ⟨x, he, hxs⟩

theorem mem_dedupSvc {l : List Svc} {s : Svc} : s ∈ dedupSvc l ↔ s ∈ l := by
  induction l with
  | nil => simp [dedupSvc]
  | cons a r ih =>
    simp only [dedupSvc]
    by_cases hc : r.contains a = true
    · rw [if_pos hc, ih, List.mem_cons]
      have ha : a ∈ r := by simpa using hc
      constructor
      · exact Or.inr
      · rintro (rfl | h)
        · exact ha
        · exact h
    · rw [if_neg hc, List.mem_cons, List.mem_cons, ih]

theorem held_mem_dlvSvcs {tr : Trace} {h : Nat} {s : Svc} (hh : held tr h s = true) : s ∈ dlvSvcs tr := by
  unfold held at hh
  cases hl : lastSome (heldEv h s) tr with
  | none => rw [hl] at hh; cases hh
  | some c =>
    obtain ⟨c, ct⟩ := c
    obtain ⟨pre, a, post, rfl, hac, _⟩ := lastSome_eq_some _ _ _ hl
    obtain ⟨x, rfl, _, _, full, hp⟩ := heldEv_some hac
    unfold dlvSvcs
    rw [List.mem_flatMap]
    exact ⟨x, mem_dlvs.mpr (by simp), ptrOf_mem hp⟩

theorem k5_end {tr : Trace} {endT : Int} (hle : ∀ e ∈ tr, e.t ≤ endT) (h5 : K5 Cfg.paper tr endT = true) :
    k5At Cfg.paper tr endT = true := by
  unfold K5 at h5
  simp only [List.all_cons, Bool.and_eq_true] at h5
  have h := h5.1
  rwa [List.filter_eq_self.mpr (fun a ha => by simpa using hle a ha)] at h

/-- K5 at the end of the observation, first half: what the host holds (unexpired) of the browsed type is reported -/
theorem live_of_heldFresh {tr : Trace} {endT : Int} (hle : ∀ e ∈ tr, e.t ≤ endT) (h5 : K5 Cfg.paper tr endT = true)
    {tb : Int} {b : Br} (hb : (tb, b) ∈ browses tr) (hopen : neverClosed tr b.host = true) {s : Svc}
    (hf : heldFresh Cfg.paper tr b.host s endT = true) (hty : s.ty = b.ty) : live tr b s = true := by
  have hk := k5_end hle h5
  unfold k5At at hk
  rw [List.all_eq_true] at hk
  have h := hk (tb, b) hb
  simp only [hopen, Bool.not_true, Bool.false_or, List.all_eq_true] at h
  have hheld : held tr b.host s = true := by
    unfold heldFresh at hf
    simp only [Bool.and_eq_true] at hf
    exact hf.1
  have := h s (mem_dedupSvc.mpr (List.mem_append.mpr (Or.inr (held_mem_dlvSvcs hheld))))
  simp only [hf, hty, beq_self_eq_true, Bool.and_true, Bool.not_true, Bool.false_or, Bool.and_eq_true] at this
  exact this.1

/-- … second half: nothing is reported that the host does not hold, and nothing of another type -/
theorem not_live_of_not_held {tr : Trace} {endT : Int} (hle : ∀ e ∈ tr, e.t ≤ endT) (h5 : K5 Cfg.paper tr endT = true)
    {tb : Int} {b : Br} (hb : (tb, b) ∈ browses tr) (hopen : neverClosed tr b.host = true) {s : Svc}
    (hn : held tr b.host s = false ∨ s.ty ≠ b.ty) : live tr b s = false := by
  have hk := k5_end hle h5
  unfold k5At at hk
  rw [List.all_eq_true] at hk
  have h := hk (tb, b) hb
  simp only [hopen, Bool.not_true, Bool.false_or, List.all_eq_true] at h
  cases hl : live tr b s with
  | false => rfl
  | true =>
    exfalso
    have hs : s ∈ cbSvcs tr ++ dlvSvcs tr := by
      rw [List.mem_append]
      left
      unfold live at hl
      cases hc : lastSome (cbEv b s) tr with
      | none => rw [hc] at hl; cases hl
      | some v =>
        obtain ⟨pre, a, post, rfl, hac, _⟩ := lastSome_eq_some _ _ _ hc
        exact mem_cbSvcs_of (e := a) (by simp) (by rw [hac]; simp)
    have := h s (mem_dedupSvc.mpr hs)
    simp only [hl, Bool.not_true, Bool.false_or, Bool.and_eq_true, Bool.or_true, Bool.true_and, heldGrace, beq_iff_eq] at this
    rcases hn with hn | hn
    · rw [hn] at this
      simp at this
    · exact hn this.2

/-! ### `registered` -/

theorem regEv_some_some {cfg : Cfg} {s : Svc} {a : TEv} {base : Int} (h : regEv cfg s a = some (some base)) :
    (a.e = .reg s ∧ base = a.t + cfg.regDelay) ∨ (a.e = .upd s ∧ base = a.t) := by
  obtain ⟨t, e⟩ := a
  cases e <;> simp [regEv] at h
  · left; exact ⟨by rw [h.1], h.2.symm⟩
  · right; exact ⟨by rw [h.1], h.2.symm⟩

theorem regEv_some_none {cfg : Cfg} {s : Svc} {a : TEv} (h : regEv cfg s a = some none) : a.e = .unreg s := by
  obtain ⟨t, e⟩ := a
  cases e <;> simp [regEv] at h
  rw [h]

theorem registered_true {cfg : Cfg} {tr : Trace} {s : Svc} (hs : Sorted tr) (h : registered cfg tr s = true) :
    ∃ a ∈ tr, (a.e = .reg s ∨ a.e = .upd s) ∧ ∀ x ∈ tr, IsRegEv s x → x.t ≤ a.t := by
  unfold registered at h
  cases hl : lastSome (regEv cfg s) tr with
  | none => simp [hl] at h
  | some v =>
    cases v with
    | none => simp [hl] at h
    | some base =>
      obtain ⟨a, ha, hab, hmax⟩ := lastSome_sorted _ tr _ hs hl
      refine ⟨a, ha, ?_, fun x hx hr => hmax x hx (regEv_ne_none.mpr hr)⟩
      rcases regEv_some_some hab with h1 | h1
      · exact Or.inl h1.1
      · exact Or.inr h1.1

theorem registered_false {cfg : Cfg} {tr : Trace} {s : Svc} (hs : Sorted tr) (h : registered cfg tr s = false) :
    (∀ x ∈ tr, ¬ IsRegEv s x) ∨ ∃ a ∈ tr, a.e = .unreg s ∧ ∀ x ∈ tr, IsRegEv s x → x.t ≤ a.t := by
  unfold registered at h
  cases hl : lastSome (regEv cfg s) tr with
  | none =>
    left
    intro x hx hr
    exact (regEv_ne_none.mpr hr) ((lastSome_eq_none _ _).mp hl x hx)
  | some v =>
    cases v with
    | some base => simp [hl] at h
    | none =>
      right
      obtain ⟨a, ha, hab, hmax⟩ := lastSome_sorted _ tr _ hs hl
      exact ⟨a, ha, regEv_some_none hab, fun x hx hr => hmax x hx (regEv_ne_none.mpr hr)⟩

/-! ### host status -/

theorem upAt_iff {tr : Trace} {h : Nat} {t : Int} : upAt tr h t = true ↔ ∃ u ∈ ups tr, u.2 = h ∧ u.1 ≤ t := by
  simp [upAt]

theorem upAt_mono {tr : Trace} {h : Nat} {t t' : Int} (h1 : upAt tr h t = true) (hle : t ≤ t') : upAt tr h t' = true := by
  rw [upAt_iff] at h1 ⊢
  obtain ⟨u, hu, h2, h3⟩ := h1
  exact ⟨u, hu, h2, by omega⟩

theorem upBefore_iff {tr : Trace} {h : Nat} {t : Int} : upBefore tr h t = true ↔ ∃ u ∈ ups tr, u.2 = h ∧ u.1 < t := by
  simp [upBefore]

theorem upBefore_of_upAt {tr : Trace} {h : Nat} {t t' : Int} (h1 : upAt tr h t = true) (hlt : t < t') : upBefore tr h t' = true := by
  rw [upAt_iff] at h1
  rw [upBefore_iff]
  obtain ⟨u, hu, h2, h3⟩ := h1
  exact ⟨u, hu, h2, by omega⟩

theorem upBefore_mono {tr : Trace} {h : Nat} {t t' : Int} (h1 : upBefore tr h t = true) (hle : t ≤ t') : upBefore tr h t' = true := by
  rw [upBefore_iff] at h1 ⊢
  obtain ⟨u, hu, h2, h3⟩ := h1
  exact ⟨u, hu, h2, by omega⟩

theorem upAt_of_not_upBefore {tr : Trace} {h : Nat} {t t' : Int} (h0 : upBefore tr h t = false) (h1 : upAt tr h t' = true) : t ≤ t' := by
  by_cases hlt : t ≤ t'
  · exact hlt
  · rw [upBefore_of_upAt h1 (by omega)] at h0
    cases h0

theorem neverClosed_iff {tr : Trace} {h : Nat} : neverClosed tr h = true ↔ ∀ c ∈ closes tr, c.2 ≠ h := by
  simp [neverClosed]

theorem not_closedBy {tr : Trace} {h : Nat} (hn : neverClosed tr h = true) (t : Int) : closedBy tr h t = false := by
  rw [neverClosed_iff] at hn
  unfold closedBy
  rw [Bool.eq_false_iff]
  intro hc
  rw [List.any_eq_true] at hc
  obtain ⟨c, hc, h1⟩ := hc
  simp only [Bool.and_eq_true, beq_iff_eq] at h1
  exact hn c hc h1.1

end Zc.Link
