import Zc.Model.LinkBridge
import Zc.Proofs.Goodbye
import Zc.Proofs.LinkContracts
/-! K6 for every disciplined timed run of the C08 host machine (`Zc.Goodbye.Host`), via C08's invariant `Clean`
(`run_clean` / `step_clean` / `unregister_clean`). -/
namespace Zc.Bridge
open Zc Zc.Goodbye Zc.Register

variable (lower : String → String) (N : Naming)

/-! ### identity of pointer records -/

/-- a well-formed PTR record with target `alias` -/
def WfPtr (r : Rec) (alias : String) : Prop :=
  r.rdata = .ptr alias ∧ r.type = Gen.typePtr ∧ r.class_ = Gen.Dns.class_of Gen.classIn

theorem ptr_beq_iff (a b : Rec) (x y : String) (ha : a.rdata = .ptr x) (hb : b.rdata = .ptr y) :
    a.beq lower b = true ↔ lower x = lower y ∧ lower a.name = lower b.name ∧ a.type = b.type ∧ a.class_ = b.class_ := by
  obtain ⟨an, at_, ac, au, attl, acr, ard⟩ := a
  obtain ⟨bn, bt, bc, bu, bttl, bcr, brd⟩ := b
  simp only at ha hb
  subst ha hb
  simp [Rec.beq, RData.kind, Kind.eqFields, Gen.Ident.pointerEq, Rec.field]

theorem beq_kind (a b : Rec) (h : a.beq lower b = true) : a.rdata.kind = b.rdata.kind := by
  simp only [Rec.beq, Bool.and_eq_true, decide_eq_true_eq] at h
  exact h.1

theorem svc_ptr_wf (s : Register.Svc) (o : Option Nat) :
    (s.ptr o).rdata = .ptr s.name ∧ (s.ptr o).name = s.type ∧ (s.ptr o).type = Gen.typePtr
      ∧ (s.ptr o).class_ = Gen.Dns.class_of Gen.classIn := by
  simp [Svc.ptr, mkRec]

/-- the only pointer-kind record a service defines is its PTR -/
theorem recs_ptr_kind (s : Register.Svc) (x : Rec) (hx : x ∈ recs s) (hk : x.rdata.kind = .ptr) : x = s.ptr none := by
  unfold recs at hx
  rw [List.mem_append] at hx
  rcases hx with hx | hx
  · simp only [List.mem_cons, List.mem_nil_iff, or_false] at hx
    rcases hx with rfl | rfl | rfl
    · rfl
    · simp [Svc.srv, mkRec, RData.kind] at hk
    · simp [Svc.txt, mkRec, RData.kind] at hk
  · rcases mem_addrNsec s none x hx with ⟨a, rfl⟩ | ⟨a, rfl⟩ | rfl
    · simp [mkRec, RData.kind] at hk
    · simp [mkRec, RData.kind] at hk
    · simp [Svc.nsec, mkRec, RData.kind] at hk

def sigR (r : Rec) (alias : String) : Link.Svc := ⟨N.host, N.tyId (lower r.name), N.svcId (lower alias)⟩

/-- F1: a service that defines (a record identical to) the pointer `r` has `r`'s link identity -/
theorem sigma_of_owns (r : Rec) (alias : String) (hr : WfPtr r alias) (s : Register.Svc) (ho : owns lower [r] s) :
    sigma lower N s = sigR lower N r alias := by
  obtain ⟨x, hx, hh⟩ := ho
  simp only [hits, List.any_cons, List.any_nil, Bool.or_false] at hh
  have hk := beq_kind lower x r hh
  rw [hr.1] at hk
  have hxe := recs_ptr_kind s x hx (by simpa [RData.kind] using hk)
  subst hxe
  have hw := svc_ptr_wf s none
  rw [ptr_beq_iff lower _ _ _ _ hw.1 hr.1] at hh
  unfold sigma sigR
  rw [hw.2.1] at hh
  rw [hh.1, hh.2.1]

/-- F2: conversely, with injective numberings, a service with `r`'s link identity defines a record identical to `r` -/
theorem beq_of_sigma (hty : Function.Injective N.tyId) (hsv : Function.Injective N.svcId) (r : Rec) (alias : String)
    (hr : WfPtr r alias) (s : Register.Svc) (o : Option Nat) (hs : sigma lower N s = sigR lower N r alias) :
    (s.ptr o).beq lower r = true := by
  have hw := svc_ptr_wf s o
  rw [ptr_beq_iff lower _ _ _ _ hw.1 hr.1, hw.2.1, hw.2.2.1, hw.2.2.2, hr.2.1, hr.2.2]
  unfold sigma sigR at hs
  simp only [Link.Svc.mk.injEq, true_and] at hs
  exact ⟨hsv hs.2, hty hs.1, rfl, rfl⟩

theorem beq_refl' (r : Rec) : r.beq lower r = true := (C20_equivalence lower).1 r
theorem beq_symm' (a b : Rec) (h : a.beq lower b = true) : b.beq lower a = true := (C20_equivalence lower).2.1 a b h
theorem beq_trans' (a b c : Rec) (h1 : a.beq lower b = true) (h2 : b.beq lower c = true) : a.beq lower c = true :=
  (C20_equivalence lower).2.2 a b c h1 h2

/-! ### `Clean` is monotone in the set of records -/

theorem clean_mono (W W' : List Rec) (h : Host) (hsub : ∀ x, hits lower W x = true → hits lower W' x = true)
    (hc : Clean lower W' h) : Clean lower W h := by
  have hf : ∀ x, hits lower W' x = false → hits lower W x = false := by
    intro x hx
    cases hw : hits lower W x with
    | false => rfl
    | true => rw [hsub x hw] at hx; cases hx
  have hq : ∀ q, QClean lower W' q → QClean lower W q := by
    intro q hq g hg e he
    obtain ⟨h1, h2⟩ := hq g hg e he
    exact ⟨hf _ h1, fun a ha => hf _ (h2 a ha)⟩
  have ho : ∀ s, owns lower W s → owns lower W' s := by
    rintro s ⟨x, hx, hh⟩
    exact ⟨x, hx, hsub x hh⟩
  refine ⟨hq _ hc.outq, hq _ hc.delayq, ?_, ?_, hc.closing⟩
  · intro t ht
    rcases hc.tasks t ht with h0 | ⟨hn, hr⟩
    · exact Or.inl h0
    · exact Or.inr ⟨hn, fun hw => hr (ho _ hw)⟩
  · intro e he hw
    exact hc.reg e he (ho _ hw)

/-- records identical to `r` are among `W'` as soon as one record of `W'` is identical to `r` -/
theorem hits_single_sub (r w : Rec) (W' : List Rec) (hw : w ∈ W') (hb : w.beq lower r = true) :
    ∀ x, hits lower [r] x = true → hits lower W' x = true := by
  intro x hx
  simp only [hits, List.any_cons, List.any_nil, Bool.or_false] at hx
  unfold hits
  rw [List.any_eq_true]
  exact ⟨w, hw, beq_trans' lower x r w hx (beq_symm' lower w r hb)⟩

/-! ### the registry under each block -/

theorem step_reg_other (h h' : Host) (b : Block) (out : List Pkt) (hs : h.step lower b = some (h', out))
    (hb : match b with | .register .. | .update .. | .unregister .. | .unregisterAll .. => False | _ => True) :
    h'.reg = h.reg := by
  cases b with
  | register s oid now => exact absurd hb id
  | update s oid now => exact absurd hb id
  | unregister s oid now => exact absurd hb id
  | unregisterAll now => exact absurd hb id
  | task oid ttl ad due =>
    simp only [Host.step] at hs
    split at hs
    · simp at hs
    generalize Task.step _ _ = st at hs
    obtain ⟨t', p⟩ := st
    simp only [Option.some.injEq, Prod.mk.injEq] at hs
    obtain ⟨rfl, _⟩ := hs
    rfl
  | answer rs =>
    simp only [Host.step] at hs
    split at hs
    · simp only [Option.some.injEq, Prod.mk.injEq] at hs
      obtain ⟨rfl, _⟩ := hs
      rfl
    · simp at hs
  | enqueue delayed now draw answers =>
    simp only [Host.step] at hs
    split at hs
    · split at hs
      · simp only [Option.some.injEq, Prod.mk.injEq] at hs
        obtain ⟨rfl, _⟩ := hs
        rfl
      · simp only [Option.some.injEq, Prod.mk.injEq] at hs
        obtain ⟨rfl, _⟩ := hs
        rfl
    · simp at hs
  | ready delayed now =>
    simp only [Host.step] at hs
    split at hs
    · generalize qready lower _ _ = r at hs
      obtain ⟨q, p⟩ := r
      simp only [Option.some.injEq, Prod.mk.injEq] at hs
      obtain ⟨rfl, _⟩ := hs
      rfl
    · generalize qready lower _ _ = r at hs
      obtain ⟨q, p⟩ := r
      simp only [Option.some.injEq, Prod.mk.injEq] at hs
      obtain ⟨rfl, _⟩ := hs
      rfl
  | allStep due =>
    simp only [Host.step] at hs
    split at hs
    · simp at hs
    simp only [Option.some.injEq, Prod.mk.injEq] at hs
    obtain ⟨rfl, _⟩ := hs
    rfl
  | close =>
    simp only [Host.step, Option.some.injEq, Prod.mk.injEq] at hs
    obtain ⟨rfl, _⟩ := hs
    rfl

/-- `generate_unregister_all_services` establishes `Clean` for the TTL-0 records of everything that was registered -/
theorem unregisterAll_clean (h h' : Host) (now : Int) (out : List Pkt) (hw : WF lower h) (hne : h.reg.isEmpty = false)
    (hs : h.step lower (.unregisterAll now) = some (h', out)) :
    Clean lower (h.reg.flatMap (fun e => broadcastAnswers e.svc (some 0) true)) h' ∧ h'.reg = [] := by
  have h0ttl : ∀ r ∈ h.reg.flatMap (fun e => broadcastAnswers e.svc (some 0) true), r.ttl = 0 := by
    intro r hr
    rw [List.mem_flatMap] at hr
    obtain ⟨e, _, hre⟩ := hr
    exact broadcast_ttl0 e.svc true r hre
  simp only [Host.step, Zc.GenFacts.Goodbye.unregister_all_purges, if_true, hne, Bool.false_eq_true, if_false] at hs
  simp only [Option.some.injEq, Prod.mk.injEq] at hs
  obtain ⟨rfl, _⟩ := hs
  refine ⟨⟨qpurge_clean lower _ _, qpurge_clean lower _ _, ?_, by simp, ?_⟩, rfl⟩
  · intro t ht
    rcases hw.ttl t ht with hn | h0'
    · exact Or.inr ⟨hn, fun _ => by simp [registeredAs, regGet]⟩
    · exact Or.inl h0'
  · intro a ha
    simp only [List.mem_append, List.mem_singleton] at ha
    rcases ha with ha | rfl
    · exact hw.closing a ha
    · exact h0ttl

/-! ### the invariant: the pointer's owner is registered, or nothing can send the pointer with a TTL -/

def J (r : Rec) (alias : String) (h : Host) : Prop :=
  (∃ e ∈ h.reg, sigma lower N e.svc = sigR lower N r alias) ∨ Clean lower [r] h

theorem J_init (r : Rec) (alias : String) : J lower N r alias Host.init :=
  Or.inr ⟨by simp [Host.init, QClean], by simp [Host.init, QClean], by simp [Host.init], by simp [Host.init], by simp [Host.init]⟩

theorem sigma_of_key (s s' : Register.Svc) (hk : key lower s = key lower s') (ht : lower s.type = lower s'.type) :
    sigma lower N s = sigma lower N s' := by
  unfold key at hk
  unfold sigma
  rw [hk, ht]

theorem J_step (hty : Function.Injective N.tyId) (hsv : Function.Injective N.svcId) (r : Rec) (alias : String)
    (hr : WfPtr r alias) (st : Step) (hs : st.pre.step lower st.b = some (st.post, st.out)) (hw : WF lower st.pre)
    (hd : Disc lower st) (hj : J lower N r alias st.pre) : J lower N r alias st.post := by
  obtain ⟨t, b, h, h', out⟩ := st
  simp only at hs hw hj ⊢
  -- the clean case is the same for every block that does not re-register the pointer
  have cleanCase : Clean lower [r] h → ¬ reRegisters lower [r] b → J lower N r alias h' :=
    fun hc hb => Or.inr (step_clean lower [r] h h' b out hc hb hs).1
  cases b with
  | register s oid now =>
    have hreg : h'.reg = h.reg ++ [⟨s, oid⟩] := by
      simp only [Host.step] at hs
      split at hs
      · simp at hs
      split at hs
      · simp at hs
      simp only [Option.some.injEq, Prod.mk.injEq] at hs
      obtain ⟨rfl, _⟩ := hs
      rfl
    rcases hj with ⟨e, he, hes⟩ | hc
    · exact Or.inl ⟨e, by rw [hreg]; exact List.mem_append_left _ he, hes⟩
    · by_cases ho : owns lower [r] s
      · exact Or.inl ⟨⟨s, oid⟩, by rw [hreg]; simp, sigma_of_owns lower N r alias hr s ho⟩
      · exact cleanCase hc ho
  | update s oid now =>
    have hreg : h'.reg = regRemove lower h.reg (key lower s) ++ [⟨s, oid⟩] := by
      simp only [Host.step] at hs
      split at hs
      · simp at hs
      simp only [Option.some.injEq, Prod.mk.injEq] at hs
      obtain ⟨rfl, _⟩ := hs
      rfl
    rcases hj with ⟨e, he, hes⟩ | hc
    · by_cases hk : key lower e.svc = key lower s
      · have hd' : lower e.svc.type = lower s.type := hd e he hk
        refine Or.inl ⟨⟨s, oid⟩, by rw [hreg]; simp, ?_⟩
        rw [← sigma_of_key lower N e.svc s hk hd']
        exact hes
      · refine Or.inl ⟨e, ?_, hes⟩
        rw [hreg]
        apply List.mem_append_left
        unfold regRemove
        rw [List.mem_filter]
        exact ⟨he, by simpa using hk⟩
    · by_cases ho : owns lower [r] s
      · exact Or.inl ⟨⟨s, oid⟩, by rw [hreg]; simp, sigma_of_owns lower N r alias hr s ho⟩
      · exact cleanCase hc ho
  | unregister s oid now =>
    have hreg : h'.reg = regRemove lower h.reg (key lower s) := by
      simp only [Host.step, Option.some.injEq, Prod.mk.injEq] at hs
      obtain ⟨rfl, _⟩ := hs
      rfl
    rcases hj with ⟨e, he, hes⟩ | hc
    · by_cases hk : key lower e.svc = key lower s
      · -- the owner is withdrawn: the queues are purged of its records
        have hd' : lower e.svc.type = lower s.type := hd e he hk
        have hsig : sigma lower N s = sigR lower N r alias := by
          rw [← sigma_of_key lower N e.svc s hk hd']; exact hes
        have hsep : ∀ e' ∈ h'.reg, ¬ owns lower (withdrawn s (hostShared lower h'.reg s)) e'.svc := by
          intro e' he'
          refine separated lower h'.reg s e' he' ?_
          rw [hreg] at he'
          have := (List.mem_filter.1 he').2
          simpa using this
        obtain ⟨hc, _⟩ := unregister_clean lower h h' s oid now out hw hs hsep
        refine Or.inr (clean_mono lower [r] _ h' ?_ hc)
        exact hits_single_sub lower r (s.ptr none) _ (by simp [withdrawn]) (beq_of_sigma lower N hty hsv r alias hr s none hsig)
      · refine Or.inl ⟨e, ?_, hes⟩
        rw [hreg]
        unfold regRemove
        rw [List.mem_filter]
        exact ⟨he, by simpa using hk⟩
    · exact cleanCase hc (by simp [reRegisters])
  | unregisterAll now =>
    rcases hj with ⟨e, he, hes⟩ | hc
    · have hne : h.reg.isEmpty = false := by
        cases hreg : h.reg with
        | nil => rw [hreg] at he; cases he
        | cons a l => rfl
      obtain ⟨hc, _⟩ := unregisterAll_clean lower h h' now out hw hne hs
      refine Or.inr (clean_mono lower [r] _ h' ?_ hc)
      refine hits_single_sub lower r (e.svc.ptr (some 0)) _ ?_ (beq_of_sigma lower N hty hsv r alias hr e.svc (some 0) hes)
      rw [List.mem_flatMap]
      exact ⟨e, he, by simp [broadcastAnswers]⟩
    · exact cleanCase hc (by simp [reRegisters])
  | task oid ttl ad due =>
    rcases hj with ⟨e, he, hes⟩ | hc
    · exact Or.inl ⟨e, by rw [step_reg_other lower h h' _ out hs trivial]; exact he, hes⟩
    · exact cleanCase hc (by simp [reRegisters])
  | answer rs =>
    rcases hj with ⟨e, he, hes⟩ | hc
    · exact Or.inl ⟨e, by rw [step_reg_other lower h h' _ out hs trivial]; exact he, hes⟩
    · exact cleanCase hc (by simp [reRegisters])
  | enqueue delayed now draw answers =>
    rcases hj with ⟨e, he, hes⟩ | hc
    · exact Or.inl ⟨e, by rw [step_reg_other lower h h' _ out hs trivial]; exact he, hes⟩
    · exact cleanCase hc (by simp [reRegisters])
  | ready delayed now =>
    rcases hj with ⟨e, he, hes⟩ | hc
    · exact Or.inl ⟨e, by rw [step_reg_other lower h h' _ out hs trivial]; exact he, hes⟩
    · exact cleanCase hc (by simp [reRegisters])
  | allStep due =>
    rcases hj with ⟨e, he, hes⟩ | hc
    · exact Or.inl ⟨e, by rw [step_reg_other lower h h' _ out hs trivial]; exact he, hes⟩
    · exact cleanCase hc (by simp [reRegisters])
  | close =>
    rcases hj with ⟨e, he, hes⟩ | hc
    · exact Or.inl ⟨e, by rw [step_reg_other lower h h' _ out hs trivial]; exact he, hes⟩
    · exact cleanCase hc (by simp [reRegisters])

/-- a pointer with a TTL leaves the host only while its owner is in the registry -/
theorem J_emit (r : Rec) (alias : String) (h h' : Host) (b : Block) (out : List Pkt)
    (hs : h.step lower b = some (h', out)) (hj : J lower N r alias h) (p : Pkt) (hp : p ∈ out)
    (hrp : r ∈ p.answers ++ p.additionals) (httl : 0 < r.ttl) :
    ∃ e ∈ h.reg, sigma lower N e.svc = sigR lower N r alias := by
  rcases hj with hl | hc
  · exact hl
  exfalso
  have hnot : ¬ reRegisters lower [r] b → False := by
    intro hb
    have := (step_clean lower [r] h h' b out hc hb hs).2 p hp r (by
      rw [List.mem_append] at hrp ⊢
      rcases hrp with h1 | h1
      · exact Or.inl (List.mem_append_left _ h1)
      · exact Or.inr h1)
    rcases this with h0 | hh
    · omega
    · simp [hits, beq_refl' lower r] at hh
  cases b with
  | register s oid now =>
    simp only [Host.step] at hs
    split at hs
    · simp at hs
    split at hs
    · simp at hs
    simp only [Option.some.injEq, Prod.mk.injEq] at hs
    obtain ⟨_, rfl⟩ := hs
    cases hp
  | update s oid now =>
    simp only [Host.step] at hs
    split at hs
    · simp at hs
    simp only [Option.some.injEq, Prod.mk.injEq] at hs
    obtain ⟨_, rfl⟩ := hs
    cases hp
  | unregister s oid now => exact hnot (by simp [reRegisters])
  | unregisterAll now => exact hnot (by simp [reRegisters])
  | task oid ttl ad due => exact hnot (by simp [reRegisters])
  | answer rs => exact hnot (by simp [reRegisters])
  | enqueue delayed now draw answers => exact hnot (by simp [reRegisters])
  | ready delayed now => exact hnot (by simp [reRegisters])
  | allStep due => exact hnot (by simp [reRegisters])
  | close => exact hnot (by simp [reRegisters])

/-! ### the projected events -/

theorem regs_append (a b : Link.Trace) : Link.regs (a ++ b) = Link.regs a ++ Link.regs b := by
  simp [Link.regs, List.filterMap_append]
theorem unregs_append (a b : Link.Trace) : Link.unregs (a ++ b) = Link.unregs a ++ Link.unregs b := by
  simp [Link.unregs, List.filterMap_append]
theorem sends_append (a b : Link.Trace) : Link.sends (a ++ b) = Link.sends a ++ Link.sends b := by
  simp [Link.sends, List.filterMap_append]

theorem filterMap_const_none {α β : Type} (l : List α) : List.filterMap (fun _ => (none : Option β)) l = [] := by
  induction l with
  | nil => rfl
  | cons a r ih => simp [ih]

theorem regs_stepEvents (st : Step) :
    Link.regs (stepEvents lower N st) = (adds lower N st).map (fun s => (st.t - 350, s)) := by
  simp [stepEvents, Link.regs, List.filterMap_append, List.filterMap_map, Function.comp_def, filterMap_const_none]

theorem unregs_stepEvents (st : Step) :
    Link.unregs (stepEvents lower N st) = (removes lower N st).map (fun s => (st.t, s)) := by
  simp [stepEvents, Link.unregs, List.filterMap_append, List.filterMap_map, Function.comp_def, filterMap_const_none]

theorem sends_stepEvents (st : Step) :
    Link.sends (stepEvents lower N st) = st.out.map (fun p => ⟨st.t, N.host, 0, none, itemsOf lower N p⟩) := by
  simp [stepEvents, Link.sends, List.filterMap_append, List.filterMap_map, Function.comp_def, filterMap_const_none]

theorem events_cons (st : Step) (l : List Step) : events lower N (st :: l) = stepEvents lower N st ++ events lower N l := by
  simp [events]

theorem events_append (a b : List Step) : events lower N (a ++ b) = events lower N a ++ events lower N b := by
  simp [events]

theorem events_nil : events lower N [] = [] := rfl

/-! ### the registry as a history of `reg` / `unreg` events -/

/-- every service in the registry has a `reg` event at least 350 ms old that is later than all its `unreg` events -/
def Hist (E : Link.Trace) (h : Host) (T : Int) : Prop :=
  ∀ s ∈ sig lower N h, ∃ r1, (r1, s) ∈ Link.regs E ∧ r1 + 350 ≤ T ∧ ∀ x ∈ Link.unregs E, x.2 = s → x.1 < r1

theorem Hist_step (E : Link.Trace) (st : Step) (T : Int) (hh : Hist lower N E st.pre T) (hT : T ≤ st.t)
    (hsp : ∀ s ∈ adds lower N st, ∀ x ∈ Link.unregs E, x.2 = s → x.1 < st.t - 350) :
    Hist lower N (E ++ stepEvents lower N st) st.post st.t := by
  intro s hs
  by_cases hpre : s ∈ sig lower N st.pre
  · obtain ⟨r1, hr1, hle, hun⟩ := hh s hpre
    refine ⟨r1, ?_, by omega, ?_⟩
    · rw [regs_append]; exact List.mem_append_left _ hr1
    · intro x hx hxs
      rw [unregs_append, List.mem_append] at hx
      rcases hx with hx | hx
      · exact hun x hx hxs
      · exfalso
        rw [unregs_stepEvents, List.mem_map] at hx
        obtain ⟨s', hs', rfl⟩ := hx
        simp only at hxs
        subst hxs
        simp only [removes, List.mem_filter, Bool.not_eq_true', List.contains_eq_mem, decide_eq_false_iff_not] at hs'
        exact hs'.2 hs
  · have hadd : s ∈ adds lower N st := by
      simp only [adds, List.mem_filter, Bool.not_eq_true', List.contains_eq_mem, decide_eq_false_iff_not]
      exact ⟨hs, hpre⟩
    refine ⟨st.t - 350, ?_, by omega, ?_⟩
    · rw [regs_append, regs_stepEvents]
      exact List.mem_append_right _ (List.mem_map.mpr ⟨s, hadd, rfl⟩)
    · intro x hx hxs
      rw [unregs_append, List.mem_append] at hx
      rcases hx with hx | hx
      · exact hsp s hadd x hx hxs
      · exfalso
        rw [unregs_stepEvents, List.mem_map] at hx
        obtain ⟨s', hs', rfl⟩ := hx
        simp only at hxs
        subst hxs
        simp only [removes, List.mem_filter] at hs'
        exact hpre hs'.1

theorem Hist_init (T : Int) : Hist lower N [] Host.init T := by
  intro s hs
  simp [sig, Host.init] at hs

/-! ### along a run -/

theorem run_time_ge : ∀ (steps : List Step) (h : Host) (T : Int), IsRun lower h T steps → ∀ st ∈ steps, T ≤ st.t := by
  intro steps
  induction steps with
  | nil => intro h T _ st hst; cases hst
  | cons s0 rest ih =>
    intro h T hrun st hst
    cases hrun with
    | cons _ h' _ t b out _ hs hT hbt hrest =>
      rcases List.mem_cons.mp hst with rfl | hst
      · exact hT
      · have := ih h' t hrest st hst
        omega

theorem run_split_ge : ∀ (pre : List Step) (st : Step) (post : List Step) (h : Host) (T : Int),
    IsRun lower h T (pre ++ st :: post) → ∀ st' ∈ post, st.t ≤ st'.t := by
  intro pre
  induction pre with
  | nil =>
    intro st post h T hrun st' hst'
    cases hrun with
    | cons _ h' _ t b out _ hs hT hbt hrest => exact run_time_ge lower post h' t hrest st' hst'
  | cons s0 pre' ih =>
    intro st post h T hrun st' hst'
    cases hrun with
    | cons _ h' _ t b out _ hs hT hbt hrest => exact ih st post h' t hrest st' hst'

/-- along a disciplined run every pointer sent with a TTL has, among the events *before* its step, a `reg` of its service
at least 350 ms old that is later than all `unreg`s of that service so far -/
theorem run_sends (hty : Function.Injective N.tyId) (hsv : Function.Injective N.svcId) :
    ∀ (steps : List Step) (h : Host) (T : Int) (E : Link.Trace), IsRun lower h T steps → WF lower h →
      (∀ r alias, WfPtr r alias → J lower N r alias h) → Hist lower N E h T →
      (∀ st ∈ steps, Disc lower st) → Spaced lower N E steps →
      ∀ pre st post, steps = pre ++ st :: post → ∀ p ∈ st.out, ∀ r ∈ p.answers ++ p.additionals, ∀ alias,
        WfPtr r alias → 0 < r.ttl →
        ∃ r1, (r1, sigR lower N r alias) ∈ Link.regs (E ++ events lower N pre) ∧ r1 + 350 ≤ st.t ∧
          ∀ x ∈ Link.unregs (E ++ events lower N pre), x.2 = sigR lower N r alias → x.1 < r1 := by
  intro steps
  induction steps with
  | nil =>
    intro h T E _ _ _ _ _ _ pre st post hsplit
    cases pre <;> simp at hsplit
  | cons s0 rest ih =>
    intro h T E hrun hw hj hh hd hsp pre st post hsplit p hp r hr alias hwf httl
    cases hrun with
    | cons _ h' _ t b out _ hs hT hbt hrest =>
      cases pre with
      | nil =>
        simp only [List.nil_append, List.cons.injEq] at hsplit
        obtain ⟨rfl, _⟩ := hsplit
        obtain ⟨e, he, hes⟩ := J_emit lower N r alias h h' b out hs (hj r alias hwf) p hp hr httl
        have hsmem : sigR lower N r alias ∈ sig lower N h := by
          unfold sig
          rw [List.mem_map]
          exact ⟨e, he, hes⟩
        obtain ⟨r1, hr1, hle, hun⟩ := hh _ hsmem
        refine ⟨r1, by simpa [events_nil] using hr1, by simp only; omega, ?_⟩
        intro x hx
        exact hun x (by simpa [events_nil] using hx)
      | cons p0 pre' =>
        simp only [List.cons_append, List.cons.injEq] at hsplit
        obtain ⟨rfl, hrest'⟩ := hsplit
        have hd0 : Disc lower ⟨t, b, h, h', out⟩ := hd _ (by simp)
        have hsp0 : ∀ s ∈ adds lower N ⟨t, b, h, h', out⟩, ∀ x ∈ Link.unregs E, x.2 = s → x.1 < t - 350 := by
          intro s hs' x hx hxs
          have := hsp [] ⟨t, b, h, h', out⟩ rest rfl s hs' x (by simpa [events_nil] using hx) hxs
          exact this
        have hw' := wf_step lower h h' b out hw hs
        have hj' : ∀ r alias, WfPtr r alias → J lower N r alias h' :=
          fun r alias hwf => J_step lower N hty hsv r alias hwf ⟨t, b, h, h', out⟩ hs hw hd0 (hj r alias hwf)
        have hh' := Hist_step lower N E ⟨t, b, h, h', out⟩ T hh hT hsp0
        have hsp' : Spaced lower N (E ++ stepEvents lower N ⟨t, b, h, h', out⟩) rest := by
          intro pre2 st2 post2 hsplit2 s hs2 x hx hxs
          have := hsp (⟨t, b, h, h', out⟩ :: pre2) st2 post2 (by rw [hsplit2]; rfl) s hs2 x
            (by rw [events_cons, ← List.append_assoc]; exact hx) hxs
          exact this
        obtain ⟨r1, hr1, hle, hun⟩ := ih h' t _ hrest hw' hj' hh' (fun st hst => hd st (by simp [hst])) hsp'
          pre' st post hrest' p hp r hr alias hwf httl
        refine ⟨r1, ?_, hle, ?_⟩
        · rw [events_cons, ← List.append_assoc]; exact hr1
        · intro x hx
          rw [events_cons, ← List.append_assoc] at hx
          exact hun x hx

/-! ### K6 -/

theorem ptrOf_item {s : Link.Svc} {items : List Link.Item} {ttl : Nat} {full : Bool}
    (h : Link.ptrOf s items = some (ttl, full)) : Link.Item.ptr s ttl full ∈ items := by
  induction items with
  | nil => simp [Link.ptrOf] at h
  | cons it r ih =>
    cases it with
    | ptr s' ttl' full' =>
      simp only [Link.ptrOf] at h
      by_cases hs : s' = s
      · rw [if_pos hs] at h
        simp only [Option.some.injEq, Prod.mk.injEq] at h
        obtain ⟨rfl, rfl⟩ := h
        subst hs
        simp
      · rw [if_neg hs] at h
        exact List.mem_cons_of_mem _ (ih h)
    | query ty known qu =>
      simp only [Link.ptrOf] at h
      exact List.mem_cons_of_mem _ (ih h)

theorem ptrItem_some (p : Pkt) (r : Rec) (s : Link.Svc) (ttl : Nat) (full : Bool)
    (h : ptrItem lower N p r = some (.ptr s ttl full)) :
    ∃ alias, WfPtr r alias ∧ s = sigR lower N r alias ∧ ttl = r.ttl := by
  unfold ptrItem at h
  cases hrd : r.rdata with
  | ptr alias =>
    rw [hrd] at h
    simp only at h
    split at h
    · rename_i hc
      simp only [Option.some.injEq, Link.Item.ptr.injEq] at h
      exact ⟨alias, ⟨hrd, hc.1, hc.2⟩, h.1.symm, h.2.1.symm⟩
    · cases h
  | addr a b => rw [hrd] at h; cases h
  | hinfo a b => rw [hrd] at h; cases h
  | txt a => rw [hrd] at h; cases h
  | srv a b c d => rw [hrd] at h; cases h
  | nsec a b => rw [hrd] at h; cases h

theorem mem_sends_events : ∀ (l : List Step) (sd : Link.SendE), sd ∈ Link.sends (events lower N l) →
    ∃ st ∈ l, ∃ p ∈ st.out, sd = ⟨st.t, N.host, 0, none, itemsOf lower N p⟩ := by
  intro l
  induction l with
  | nil => intro sd h; simp [events_nil, Link.sends] at h
  | cons st rest ih =>
    intro sd h
    rw [events_cons, sends_append, List.mem_append] at h
    rcases h with h | h
    · rw [sends_stepEvents, List.mem_map] at h
      obtain ⟨p, hp, rfl⟩ := h
      exact ⟨st, by simp, p, hp, rfl⟩
    · obtain ⟨st', hst', p, hp, hsd⟩ := ih sd h
      exact ⟨st', by simp [hst'], p, hp, hsd⟩

theorem unregs_events_time : ∀ (l : List Step) (x : Int × Link.Svc), x ∈ Link.unregs (events lower N l) →
    ∃ st ∈ l, x.1 = st.t := by
  intro l
  induction l with
  | nil => intro x h; simp [events_nil, Link.unregs] at h
  | cons st rest ih =>
    intro x h
    rw [events_cons, unregs_append, List.mem_append] at h
    rcases h with h | h
    · rw [unregs_stepEvents, List.mem_map] at h
      obtain ⟨s, _, rfl⟩ := h
      exact ⟨st, by simp, rfl⟩
    · obtain ⟨st', hst', hx⟩ := ih x h
      exact ⟨st', by simp [hst'], hx⟩

/-- **K6 from the C08 host machine.**  On the link trace of every timed run of `Zc.Goodbye.Host` from its initial state
that obeys the API discipline (`Disc`: update/unregister with the registered type; `Spaced`: a name is registered again at least
one probing phase after it was withdrawn), a PTR with TTL > 0 is only sent for a service of this host, at least 350 ms after
its `reg`, with no `unreg` in between — the contract K6.  The engine is C08's invariant `Clean` (`step_clean`,
`unregister_clean`): once the owner leaves the registry nothing in the queues or the tasks can put the pointer on the wire. -/
theorem K6_of_run (hty : Function.Injective N.tyId) (hsv : Function.Injective N.svcId) (steps : List Step) (T0 : Int)
    (hrun : IsRun lower Host.init T0 steps) (hd : ∀ st ∈ steps, Disc lower st) (hsp : Spaced lower N [] steps) :
    Link.K6 Link.Cfg.paper (events lower N steps) = true := by
  unfold Link.K6
  rw [List.all_eq_true]
  intro sd hsd
  rw [List.all_eq_true]
  intro s _
  cases hpos : Link.pos s sd.items with
  | false => rfl
  | true =>
    simp only [Bool.not_true, Bool.false_or, Bool.and_eq_true, beq_iff_eq]
    obtain ⟨st, hst, p, hp, rfl⟩ := mem_sends_events lower N steps sd hsd
    simp only at hpos ⊢
    obtain ⟨ttl, full, hptr, httl⟩ := Link.pos_iff.mp hpos
    have hitem := ptrOf_item hptr
    unfold itemsOf at hitem
    rw [List.mem_filterMap] at hitem
    obtain ⟨r, hr, hri⟩ := hitem
    obtain ⟨alias, hwf, rfl, rfl⟩ := ptrItem_some lower N p r s ttl full hri
    obtain ⟨pre, post, hsplit⟩ := List.append_of_mem hst
    obtain ⟨r1, hr1, hle, hun⟩ := run_sends lower N hty hsv steps Host.init T0 [] hrun (wf_init lower)
      (fun r alias _ => J_init lower N r alias) (Hist_init lower N T0) hd hsp pre st post hsplit p hp r hr alias hwf httl
    simp only [List.nil_append] at hr1 hun
    refine ⟨rfl, ?_⟩
    simp only [Link.regAt, List.any_eq_true, Bool.and_eq_true, beq_iff_eq, decide_eq_true_eq, List.all_eq_true,
      Bool.not_eq_true', Bool.and_eq_false_imp, decide_eq_false_iff_not]
    refine ⟨(r1, sigR lower N r alias), ?_, ⟨rfl, hle⟩, ?_⟩
    · rw [hsplit, events_append, regs_append]
      exact List.mem_append_left _ hr1
    · intro x hx hxs
      obtain ⟨hxs, hxle⟩ := hxs
      rw [hsplit, events_append, events_cons, unregs_append, unregs_append, List.mem_append, List.mem_append] at hx
      rcases hx with hx | hx | hx
      · have := hun x hx hxs
        simp only at hxle
        omega
      · rw [unregs_stepEvents, List.mem_map] at hx
        obtain ⟨s', _, rfl⟩ := hx
        simp only
        omega
      · obtain ⟨st', hst', hxt⟩ := unregs_events_time lower N post x hx
        have := run_split_ge lower pre st post Host.init T0 (hsplit ▸ hrun) st' hst'
        omega

theorem mkRun_isRun : ∀ (sched : List (Int × Block)) (h : Host) (T : Int) (steps : List Step),
    mkRun lower h T sched = some steps → IsRun lower h T steps := by
  intro sched
  induction sched with
  | nil =>
    intro h T steps hm
    simp only [mkRun, Option.some.injEq] at hm
    subst hm
    exact IsRun.nil h T
  | cons tb rest ih =>
    intro h T steps hm
    obtain ⟨t, b⟩ := tb
    simp only [mkRun] at hm
    split at hm
    · rename_i hc
      split at hm
      · cases hm
      · rename_i h' out hs
        cases hr : mkRun lower h' t rest with
        | none => rw [hr] at hm; cases hm
        | some l =>
          rw [hr] at hm
          simp only [Option.map_some, Option.some.injEq] at hm
          subst hm
          refine IsRun.cons h h' T t b out l hs hc.1 ?_ (ih h' t l hr)
          intro bt hbt
          rcases hc.2 with hn | hs'
          · rw [hn] at hbt; cases hbt
          · rw [hs'] at hbt; exact (Option.some.inj hbt).symm
    · cases hm

/-! ### from the hosts to the link trace -/

/-- every host's part of the link trace `tr` — its sends (instant and items), the `reg`s and the `unreg`s of its services —
is that of a disciplined timed run of the C08 host machine -/
def GeneratedK6 (tr : Link.Trace) : Prop :=
  ∀ hid : Nat, ∃ (N : Naming) (steps : List Step) (T0 : Int),
    N.host = hid ∧ Function.Injective N.tyId ∧ Function.Injective N.svcId ∧
    IsRun lower Host.init T0 steps ∧ (∀ st ∈ steps, Disc lower st) ∧ Spaced lower N [] steps ∧
    (∀ sd ∈ Link.sends tr, sd.h = hid → ∃ sd' ∈ Link.sends (events lower N steps), sd'.t = sd.t ∧ sd'.items = sd.items) ∧
    (∀ x ∈ Link.regs (events lower N steps), x ∈ Link.regs tr) ∧
    (∀ x ∈ Link.unregs tr, x.2.owner = hid → x ∈ Link.unregs (events lower N steps))

/-- K6 is host-local: it holds on a link trace whose hosts are runs of the machine -/
theorem K6_of_generated (tr : Link.Trace) (hg : GeneratedK6 lower tr) : Link.K6 Link.Cfg.paper tr = true := by
  unfold Link.K6
  rw [List.all_eq_true]
  intro sd hsd
  rw [List.all_eq_true]
  intro s hs
  cases hpos : Link.pos s sd.items with
  | false => rfl
  | true =>
    obtain ⟨N, steps, T0, hN, hty, hsv, hrun, hd, hsp, hsends, hregs, hunregs⟩ := hg sd.h
    obtain ⟨sd', hsd', ht, hit⟩ := hsends sd hsd rfl
    have hk := K6_of_run lower N hty hsv steps T0 hrun hd hsp
    have h1 := List.all_eq_true.mp (List.all_eq_true.mp hk sd' hsd') s (by rw [hit]; exact hs)
    rw [hit, hpos] at h1
    simp only [Bool.not_true, Bool.false_or, Bool.and_eq_true, beq_iff_eq] at h1 ⊢
    obtain ⟨hown, hreg⟩ := h1
    have hsdh : sd'.h = sd.h := by
      obtain ⟨st, _, p, _, rfl⟩ := mem_sends_events lower N steps sd' hsd'
      exact hN
    refine ⟨by rw [hown, hsdh], ?_⟩
    simp only [Link.regAt, List.any_eq_true, Bool.and_eq_true, beq_iff_eq, decide_eq_true_eq, List.all_eq_true,
      Bool.not_eq_true', Bool.and_eq_false_imp, decide_eq_false_iff_not] at hreg ⊢
    obtain ⟨r, hr, ⟨hrs, hrt⟩, hx⟩ := hreg
    refine ⟨r, hregs r hr, ⟨hrs, by rw [← ht]; exact hrt⟩, ?_⟩
    intro x hx' hxs
    have := hx x (hunregs x hx' (by rw [hxs.1, hown, hsdh])) hxs
    rw [← ht]
    exact this

end Zc.Bridge
