import Zc.Model.LinkBridge
import Zc.Proofs.Goodbye
import Zc.Proofs.LinkContracts
import Zc.GenFacts.Link
/-! K6 for every disciplined timed run of the C08 host machine (`Zc.Goodbye.Host`), via C08's invariant `Clean`
(`run_clean` / `step_clean` / `unregister_clean`). -/
namespace Zc.Bridge
open Zc Zc.Goodbye Zc.Register

variable (lower : String → String) (N : Naming)

/-! ### identity of pointer records -/

/-- a well-formed PTR record with target `alias` -/
def WfPtr (r : Rec) (alias : String) : Prop :=
  r.rdata = .ptr alias ∧ r.type = Gen.typePtr ∧ r.class_ = Gen.Dns.class_of Gen.classIn

theorem ptr_beq_iff (a b : Rec) (x y : String) (ha : a.rdata = .ptr x) (hb : b.rdata = .ptr y) :
    a.beq lower b = true ↔ lower x = lower y ∧ lower a.name = lower b.name ∧ a.type = b.type ∧ a.class_ = b.class_ := by
  obtain ⟨an, at_, ac, au, attl, acr, ard⟩ := a
  obtain ⟨bn, bt, bc, bu, bttl, bcr, brd⟩ := b
  simp only at ha hb
  subst ha hb
  simp [Rec.beq, RData.kind, Kind.eqFields, Gen.Ident.pointerEq, Rec.field]

theorem beq_kind (a b : Rec) (h : a.beq lower b = true) : a.rdata.kind = b.rdata.kind := by
  simp only [Rec.beq, Bool.and_eq_true, decide_eq_true_eq] at h
  exact h.1

theorem svc_ptr_wf (s : Register.Svc) (o : Option Nat) :
    (s.ptr o).rdata = .ptr s.name ∧ (s.ptr o).name = s.type ∧ (s.ptr o).type = Gen.typePtr
      ∧ (s.ptr o).class_ = Gen.Dns.class_of Gen.classIn := by
  simp [Svc.ptr, mkRec]

/-- the only pointer-kind record a service defines is its PTR -/
theorem recs_ptr_kind (s : Register.Svc) (x : Rec) (hx : x ∈ recs s) (hk : x.rdata.kind = .ptr) : x = s.ptr none := by
  unfold recs at hx
  rw [List.mem_append] at hx
  rcases hx with hx | hx
  · simp only [List.mem_cons, List.mem_nil_iff, or_false] at hx
    rcases hx with rfl | rfl | rfl
    · rfl
    · simp [Svc.srv, mkRec, RData.kind] at hk
    · simp [Svc.txt, mkRec, RData.kind] at hk
  · rcases mem_addrNsec s none x hx with ⟨a, rfl⟩ | ⟨a, rfl⟩ | rfl
    · simp [mkRec, RData.kind] at hk
    · simp [mkRec, RData.kind] at hk
    · simp [Svc.nsec, mkRec, RData.kind] at hk

def sigR (r : Rec) (alias : String) : Link.Svc := ⟨N.host, N.tyId (lower r.name), N.svcId (lower alias)⟩

/-- F1: a service that defines (a record identical to) the pointer `r` has `r`'s link identity -/
theorem sigma_of_owns (r : Rec) (alias : String) (hr : WfPtr r alias) (s : Register.Svc) (ho : owns lower [r] s) :
    sigma lower N s = sigR lower N r alias := by
  obtain ⟨x, hx, hh⟩ := ho
  simp only [hits, List.any_cons, List.any_nil, Bool.or_false] at hh
  have hk := beq_kind lower x r hh
  rw [hr.1] at hk
  have hxe := recs_ptr_kind s x hx (by simpa [RData.kind] using hk)
  subst hxe
  have hw := svc_ptr_wf s none
  rw [ptr_beq_iff lower _ _ _ _ hw.1 hr.1] at hh
  unfold sigma sigR
  rw [hw.2.1] at hh
  rw [hh.1, hh.2.1]

/-- F2: conversely, with injective numberings, a service with `r`'s link identity defines a record identical to `r` -/
theorem beq_of_sigma (hty : Function.Injective N.tyId) (hsv : Function.Injective N.svcId) (r : Rec) (alias : String)
    (hr : WfPtr r alias) (s : Register.Svc) (o : Option Nat) (hs : sigma lower N s = sigR lower N r alias) :
    (s.ptr o).beq lower r = true := by
  have hw := svc_ptr_wf s o
  rw [ptr_beq_iff lower _ _ _ _ hw.1 hr.1, hw.2.1, hw.2.2.1, hw.2.2.2, hr.2.1, hr.2.2]
  unfold sigma sigR at hs
  simp only [Link.Svc.mk.injEq, true_and] at hs
  exact ⟨hsv hs.2, hty hs.1, rfl, rfl⟩

theorem beq_refl' (r : Rec) : r.beq lower r = true := (C20_equivalence lower).1 r
theorem beq_symm' (a b : Rec) (h : a.beq lower b = true) : b.beq lower a = true := (C20_equivalence lower).2.1 a b h
theorem beq_trans' (a b c : Rec) (h1 : a.beq lower b = true) (h2 : b.beq lower c = true) : a.beq lower c = true :=
  (C20_equivalence lower).2.2 a b c h1 h2

/-! ### `Clean` is monotone in the set of records -/

theorem clean_mono (W W' : List Rec) (h : Host) (hsub : ∀ x, hits lower W x = true → hits lower W' x = true)
    (hc : Clean lower W' h) : Clean lower W h := by
  have hf : ∀ x, hits lower W' x = false → hits lower W x = false := by
    intro x hx
    cases hw : hits lower W x with
    | false => rfl
    | true => rw [hsub x hw] at hx; cases hx
  have hq : ∀ q, QClean lower W' q → QClean lower W q := by
    intro q hq g hg e he
    obtain ⟨h1, h2⟩ := hq g hg e he
    exact ⟨hf _ h1, fun a ha => hf _ (h2 a ha)⟩
  have ho : ∀ s, owns lower W s → owns lower W' s := by
    rintro s ⟨x, hx, hh⟩
    exact ⟨x, hx, hsub x hh⟩
  refine ⟨hq _ hc.outq, hq _ hc.delayq, ?_, ?_, hc.closing⟩
  · intro t ht
    rcases hc.tasks t ht with h0 | ⟨hn, hr⟩
    · exact Or.inl h0
    · exact Or.inr ⟨hn, fun hw => hr (ho _ hw)⟩
  · intro e he hw
    exact hc.reg e he (ho _ hw)

/-- records identical to `r` are among `W'` as soon as one record of `W'` is identical to `r` -/
theorem hits_single_sub (r w : Rec) (W' : List Rec) (hw : w ∈ W') (hb : w.beq lower r = true) :
    ∀ x, hits lower [r] x = true → hits lower W' x = true := by
  intro x hx
  simp only [hits, List.any_cons, List.any_nil, Bool.or_false] at hx
  unfold hits
  rw [List.any_eq_true]
  exact ⟨w, hw, beq_trans' lower x r w hx (beq_symm' lower w r hb)⟩

/-! ### the registry under each block -/

theorem step_reg_other (h h' : Host) (b : Block) (out : List Pkt) (hs : h.step lower b = some (h', out))
    (hb : match b with | .register .. | .update .. | .unregister .. | .unregisterAll .. => False | _ => True) :
    h'.reg = h.reg := by
  cases b with
  | register s oid now => exact absurd hb id
  | update s oid now => exact absurd hb id
  | unregister s oid now => exact absurd hb id
  | unregisterAll now => exact absurd hb id
  | task oid ttl ad due =>
    simp only [Host.step] at hs
    split at hs
    · simp at hs
    generalize Task.step _ _ = st at hs
    obtain ⟨t', p⟩ := st
    simp only [Option.some.injEq, Prod.mk.injEq] at hs
    obtain ⟨rfl, _⟩ := hs
    rfl
  | answer rs =>
    simp only [Host.step] at hs
    split at hs
    · simp only [Option.some.injEq, Prod.mk.injEq] at hs
      obtain ⟨rfl, _⟩ := hs
      rfl
    · simp at hs
  | enqueue delayed now draw answers =>
    simp only [Host.step] at hs
    split at hs
    · split at hs
      · simp only [Option.some.injEq, Prod.mk.injEq] at hs
        obtain ⟨rfl, _⟩ := hs
        rfl
      · simp only [Option.some.injEq, Prod.mk.injEq] at hs
        obtain ⟨rfl, _⟩ := hs
        rfl
    · simp at hs
  | ready delayed now =>
    simp only [Host.step] at hs
    split at hs
    · generalize qready lower _ _ = r at hs
      obtain ⟨q, p⟩ := r
      simp only [Option.some.injEq, Prod.mk.injEq] at hs
      obtain ⟨rfl, _⟩ := hs
      rfl
    · generalize qready lower _ _ = r at hs
      obtain ⟨q, p⟩ := r
      simp only [Option.some.injEq, Prod.mk.injEq] at hs
      obtain ⟨rfl, _⟩ := hs
      rfl
  | allStep due =>
    simp only [Host.step] at hs
    split at hs
    · simp at hs
    simp only [Option.some.injEq, Prod.mk.injEq] at hs
    obtain ⟨rfl, _⟩ := hs
    rfl
  | close =>
    simp only [Host.step, Option.some.injEq, Prod.mk.injEq] at hs
    obtain ⟨rfl, _⟩ := hs
    rfl

/-- `generate_unregister_all_services` establishes `Clean` for the TTL-0 records of everything that was registered -/
theorem unregisterAll_clean (h h' : Host) (now : Int) (out : List Pkt) (hw : WF lower h) (hne : h.reg.isEmpty = false)
    (hs : h.step lower (.unregisterAll now) = some (h', out)) :
    Clean lower (h.reg.flatMap (fun e => broadcastAnswers e.svc (some 0) true)) h' ∧ h'.reg = [] := by
  have h0ttl : ∀ r ∈ h.reg.flatMap (fun e => broadcastAnswers e.svc (some 0) true), r.ttl = 0 := by
    intro r hr
    rw [List.mem_flatMap] at hr
    obtain ⟨e, _, hre⟩ := hr
    exact broadcast_ttl0 e.svc true r hre
  simp only [Host.step, Zc.GenFacts.Goodbye.unregister_all_purges, if_true, hne, Bool.false_eq_true, if_false] at hs
  simp only [Option.some.injEq, Prod.mk.injEq] at hs
  obtain ⟨rfl, _⟩ := hs
  refine ⟨⟨qpurge_clean lower _ _, qpurge_clean lower _ _, ?_, by simp, ?_⟩, rfl⟩
  · intro t ht
    rcases hw.ttl t ht with hn | h0'
    · exact Or.inr ⟨hn, fun _ => by simp [registeredAs, regGet]⟩
    · exact Or.inl h0'
  · intro a ha
    simp only [List.mem_append, List.mem_singleton] at ha
    rcases ha with ha | rfl
    · exact hw.closing a ha
    · exact h0ttl

/-! ### the invariant: the pointer's owner is registered, or nothing can send the pointer with a TTL -/

def J (r : Rec) (alias : String) (h : Host) : Prop :=
  (∃ e ∈ h.reg, sigma lower N e.svc = sigR lower N r alias) ∨ Clean lower [r] h

theorem J_init (r : Rec) (alias : String) : J lower N r alias Host.init :=
  Or.inr ⟨by simp [Host.init, QClean], by simp [Host.init, QClean], by simp [Host.init], by simp [Host.init], by simp [Host.init]⟩

theorem sigma_of_key (s s' : Register.Svc) (hk : key lower s = key lower s') (ht : lower s.type = lower s'.type) :
    sigma lower N s = sigma lower N s' := by
  unfold key at hk
  unfold sigma
  rw [hk, ht]

theorem J_step (hty : Function.Injective N.tyId) (hsv : Function.Injective N.svcId) (r : Rec) (alias : String)
    (hr : WfPtr r alias) (st : Step) (hs : st.pre.step lower st.b = some (st.post, st.out)) (hw : WF lower st.pre)
    (hd : Disc lower st) (hj : J lower N r alias st.pre) : J lower N r alias st.post := by
  obtain ⟨t, b, h, h', out, ad⟩ := st
  simp only at hs hw hj ⊢
  -- the clean case is the same for every block that does not re-register the pointer
  have cleanCase : Clean lower [r] h → ¬ reRegisters lower [r] b → J lower N r alias h' :=
    fun hc hb => Or.inr (step_clean lower [r] h h' b out hc hb hs).1
  cases b with
  | register s oid now =>
    have hreg : h'.reg = h.reg ++ [⟨s, oid⟩] := by
      simp only [Host.step] at hs
      split at hs
      · simp at hs
      split at hs
      · simp at hs
      simp only [Option.some.injEq, Prod.mk.injEq] at hs
      obtain ⟨rfl, _⟩ := hs
      rfl
    rcases hj with ⟨e, he, hes⟩ | hc
    · exact Or.inl ⟨e, by rw [hreg]; exact List.mem_append_left _ he, hes⟩
    · by_cases ho : owns lower [r] s
      · exact Or.inl ⟨⟨s, oid⟩, by rw [hreg]; simp, sigma_of_owns lower N r alias hr s ho⟩
      · exact cleanCase hc ho
  | update s oid now =>
    have hreg : h'.reg = regRemove lower h.reg (key lower s) ++ [⟨s, oid⟩] := by
      simp only [Host.step] at hs
      split at hs
      · simp at hs
      simp only [Option.some.injEq, Prod.mk.injEq] at hs
      obtain ⟨rfl, _⟩ := hs
      rfl
    rcases hj with ⟨e, he, hes⟩ | hc
    · by_cases hk : key lower e.svc = key lower s
      · have hd' : lower e.svc.type = lower s.type := hd e he hk
        refine Or.inl ⟨⟨s, oid⟩, by rw [hreg]; simp, ?_⟩
        rw [← sigma_of_key lower N e.svc s hk hd']
        exact hes
      · refine Or.inl ⟨e, ?_, hes⟩
        rw [hreg]
        apply List.mem_append_left
        unfold regRemove
        rw [List.mem_filter]
        exact ⟨he, by simpa using hk⟩
    · by_cases ho : owns lower [r] s
      · exact Or.inl ⟨⟨s, oid⟩, by rw [hreg]; simp, sigma_of_owns lower N r alias hr s ho⟩
      · exact cleanCase hc ho
  | unregister s oid now =>
    have hreg : h'.reg = regRemove lower h.reg (key lower s) := by
      simp only [Host.step, unregRemove_eq, Option.some.injEq, Prod.mk.injEq] at hs
      obtain ⟨rfl, _⟩ := hs
      rfl
    rcases hj with ⟨e, he, hes⟩ | hc
    · by_cases hk : key lower e.svc = key lower s
      · -- the owner is withdrawn: the queues are purged of its records
        have hd' : lower e.svc.type = lower s.type := hd e he hk
        have hsig : sigma lower N s = sigR lower N r alias := by
          rw [← sigma_of_key lower N e.svc s hk hd']; exact hes
        have hsep : ∀ e' ∈ h'.reg, ¬ owns lower (withdrawn s (hostShared lower h'.reg s)) e'.svc := by
          intro e' he'
          refine separated lower h'.reg s e' he' ?_
          rw [hreg] at he'
          have := (List.mem_filter.1 he').2
          simpa using this
        obtain ⟨hc, _⟩ := unregister_clean lower h h' s oid now out hw hs hsep
        refine Or.inr (clean_mono lower [r] _ h' ?_ hc)
        exact hits_single_sub lower r (s.ptr none) _ (by simp [withdrawn]) (beq_of_sigma lower N hty hsv r alias hr s none hsig)
      · refine Or.inl ⟨e, ?_, hes⟩
        rw [hreg]
        unfold regRemove
        rw [List.mem_filter]
        exact ⟨he, by simpa using hk⟩
    · exact cleanCase hc (by simp [reRegisters])
  | unregisterAll now =>
    rcases hj with ⟨e, he, hes⟩ | hc
    · have hne : h.reg.isEmpty = false := by
        cases hreg : h.reg with
        | nil => rw [hreg] at he; cases he
        | cons a l => rfl
      obtain ⟨hc, _⟩ := unregisterAll_clean lower h h' now out hw hne hs
      refine Or.inr (clean_mono lower [r] _ h' ?_ hc)
      refine hits_single_sub lower r (e.svc.ptr (some 0)) _ ?_ (beq_of_sigma lower N hty hsv r alias hr e.svc (some 0) hes)
      rw [List.mem_flatMap]
      exact ⟨e, he, by simp [broadcastAnswers]⟩
    · exact cleanCase hc (by simp [reRegisters])
  | task oid ttl ad due =>
    rcases hj with ⟨e, he, hes⟩ | hc
    · exact Or.inl ⟨e, by rw [step_reg_other lower h h' _ out hs trivial]; exact he, hes⟩
    · exact cleanCase hc (by simp [reRegisters])
  | answer rs =>
    rcases hj with ⟨e, he, hes⟩ | hc
    · exact Or.inl ⟨e, by rw [step_reg_other lower h h' _ out hs trivial]; exact he, hes⟩
    · exact cleanCase hc (by simp [reRegisters])
  | enqueue delayed now draw answers =>
    rcases hj with ⟨e, he, hes⟩ | hc
    · exact Or.inl ⟨e, by rw [step_reg_other lower h h' _ out hs trivial]; exact he, hes⟩
    · exact cleanCase hc (by simp [reRegisters])
  | ready delayed now =>
    rcases hj with ⟨e, he, hes⟩ | hc
    · exact Or.inl ⟨e, by rw [step_reg_other lower h h' _ out hs trivial]; exact he, hes⟩
    · exact cleanCase hc (by simp [reRegisters])
  | allStep due =>
    rcases hj with ⟨e, he, hes⟩ | hc
    · exact Or.inl ⟨e, by rw [step_reg_other lower h h' _ out hs trivial]; exact he, hes⟩
    · exact cleanCase hc (by simp [reRegisters])
  | close =>
    rcases hj with ⟨e, he, hes⟩ | hc
    · exact Or.inl ⟨e, by rw [step_reg_other lower h h' _ out hs trivial]; exact he, hes⟩
    · exact cleanCase hc (by simp [reRegisters])

/-- a pointer with a TTL leaves the host only while its owner is in the registry -/
theorem J_emit (r : Rec) (alias : String) (h h' : Host) (b : Block) (out : List Pkt)
    (hs : h.step lower b = some (h', out)) (hj : J lower N r alias h) (p : Pkt) (hp : p ∈ out)
    (hrp : r ∈ p.answers ++ p.additionals) (httl : 0 < r.ttl) :
    ∃ e ∈ h.reg, sigma lower N e.svc = sigR lower N r alias := by
  rcases hj with hl | hc
  · exact hl
  exfalso
  have hnot : ¬ reRegisters lower [r] b → False := by
    intro hb
    have := (step_clean lower [r] h h' b out hc hb hs).2 p hp r (by
      rw [List.mem_append] at hrp ⊢
      rcases hrp with h1 | h1
      · exact Or.inl (List.mem_append_left _ h1)
      · exact Or.inr h1)
    rcases this with h0 | hh
    · omega
    · simp [hits, beq_refl' lower r] at hh
  cases b with
  | register s oid now =>
    simp only [Host.step] at hs
    split at hs
    · simp at hs
    split at hs
    · simp at hs
    simp only [Option.some.injEq, Prod.mk.injEq] at hs
    obtain ⟨_, rfl⟩ := hs
    cases hp
  | update s oid now =>
    simp only [Host.step] at hs
    split at hs
    · simp at hs
    simp only [Option.some.injEq, Prod.mk.injEq] at hs
    obtain ⟨_, rfl⟩ := hs
    cases hp
  | unregister s oid now => exact hnot (by simp [reRegisters])
  | unregisterAll now => exact hnot (by simp [reRegisters])
  | task oid ttl ad due => exact hnot (by simp [reRegisters])
  | answer rs => exact hnot (by simp [reRegisters])
  | enqueue delayed now draw answers => exact hnot (by simp [reRegisters])
  | ready delayed now => exact hnot (by simp [reRegisters])
  | allStep due => exact hnot (by simp [reRegisters])
  | close => exact hnot (by simp [reRegisters])

/-! ### the projected events -/

theorem regs_append (a b : Link.Trace) : Link.regs (a ++ b) = Link.regs a ++ Link.regs b := by
  simp [Link.regs, List.filterMap_append]
theorem unregs_append (a b : Link.Trace) : Link.unregs (a ++ b) = Link.unregs a ++ Link.unregs b := by
  simp [Link.unregs, List.filterMap_append]
theorem sends_append (a b : Link.Trace) : Link.sends (a ++ b) = Link.sends a ++ Link.sends b := by
  simp [Link.sends, List.filterMap_append]

theorem filterMap_const_none {α β : Type} (l : List α) : List.filterMap (fun _ => (none : Option β)) l = [] := by
  induction l with
  | nil => rfl
  | cons a r ih => simp [ih]

theorem regs_stepEvents (st : Step) :
    Link.regs (stepEvents lower N st) = (adds lower N st).map (fun s => (st.t - 350, s)) := by
  simp [stepEvents, Link.regs, List.filterMap_append, List.filterMap_map, Function.comp_def, filterMap_const_none]

theorem unregs_stepEvents (st : Step) :
    Link.unregs (stepEvents lower N st) = (removes lower N st).map (fun s => (st.t, s)) := by
  simp [stepEvents, Link.unregs, List.filterMap_append, List.filterMap_map, Function.comp_def, filterMap_const_none]

theorem sends_stepEvents (st : Step) :
    Link.sends (stepEvents lower N st) = st.out.map (fun p => ⟨st.t, N.host, 0, dstOf st.b st.adst, itemsOf lower N p⟩) := by
  simp [stepEvents, Link.sends, List.filterMap_append, List.filterMap_map, Function.comp_def, filterMap_const_none]

theorem upds_append (a b : Link.Trace) : Link.upds (a ++ b) = Link.upds a ++ Link.upds b := by
  simp [Link.upds, List.filterMap_append]

theorem upds_stepEvents (st : Step) :
    Link.upds (stepEvents lower N st) = (updSvcs lower N st).map (fun s => (st.t, s)) := by
  simp [stepEvents, Link.upds, List.filterMap_append, List.filterMap_map, Function.comp_def, filterMap_const_none]

theorem events_cons (st : Step) (l : List Step) : events lower N (st :: l) = stepEvents lower N st ++ events lower N l := by
  simp [events]

theorem events_append (a b : List Step) : events lower N (a ++ b) = events lower N a ++ events lower N b := by
  simp [events]

theorem events_nil : events lower N [] = [] := rfl

/-! ### the registry as a history of `reg` / `unreg` events -/

/-- every service in the registry has a `reg` event at least 350 ms old that is later than all its `unreg` events -/
def Hist (E : Link.Trace) (h : Host) (T : Int) : Prop :=
  ∀ s ∈ sig lower N h, ∃ r1, (r1, s) ∈ Link.regs E ∧ r1 + 350 ≤ T ∧ ∀ x ∈ Link.unregs E, x.2 = s → x.1 < r1

theorem Hist_step (E : Link.Trace) (st : Step) (T : Int) (hh : Hist lower N E st.pre T) (hT : T ≤ st.t)
    (hsp : ∀ s ∈ adds lower N st, ∀ x ∈ Link.unregs E, x.2 = s → x.1 < st.t - 350) :
    Hist lower N (E ++ stepEvents lower N st) st.post st.t := by
  intro s hs
  by_cases hpre : s ∈ sig lower N st.pre
  · obtain ⟨r1, hr1, hle, hun⟩ := hh s hpre
    refine ⟨r1, ?_, by omega, ?_⟩
    · rw [regs_append]; exact List.mem_append_left _ hr1
    · intro x hx hxs
      rw [unregs_append, List.mem_append] at hx
      rcases hx with hx | hx
      · exact hun x hx hxs
      · exfalso
        rw [unregs_stepEvents, List.mem_map] at hx
        obtain ⟨s', hs', rfl⟩ := hx
        simp only at hxs
        subst hxs
        simp only [removes, List.mem_filter, Bool.not_eq_true', List.contains_eq_mem, decide_eq_false_iff_not] at hs'
        exact hs'.2 hs
  · have hadd : s ∈ adds lower N st := by
      simp only [adds, List.mem_filter, Bool.not_eq_true', List.contains_eq_mem, decide_eq_false_iff_not]
      exact ⟨hs, hpre⟩
    refine ⟨st.t - 350, ?_, by omega, ?_⟩
    · rw [regs_append, regs_stepEvents]
      exact List.mem_append_right _ (List.mem_map.mpr ⟨s, hadd, rfl⟩)
    · intro x hx hxs
      rw [unregs_append, List.mem_append] at hx
      rcases hx with hx | hx
      · exact hsp s hadd x hx hxs
      · exfalso
        rw [unregs_stepEvents, List.mem_map] at hx
        obtain ⟨s', hs', rfl⟩ := hx
        simp only at hxs
        subst hxs
        simp only [removes, List.mem_filter] at hs'
        exact hpre hs'.1

theorem Hist_init (T : Int) : Hist lower N [] Host.init T := by
  intro s hs
  simp [sig, Host.init] at hs

/-! ### along a run -/

theorem run_time_ge : ∀ (steps : List Step) (h : Host) (T : Int), IsRun lower h T steps → ∀ st ∈ steps, T ≤ st.t := by
  intro steps
  induction steps with
  | nil => intro h T _ st hst; cases hst
  | cons s0 rest ih =>
    intro h T hrun st hst
    cases hrun with
    | cons _ h' _ t b out ad _ hs hT hbt hrest =>
      rcases List.mem_cons.mp hst with rfl | hst
      · exact hT
      · have := ih h' t hrest st hst
        omega

theorem run_split_ge : ∀ (pre : List Step) (st : Step) (post : List Step) (h : Host) (T : Int),
    IsRun lower h T (pre ++ st :: post) → ∀ st' ∈ post, st.t ≤ st'.t := by
  intro pre
  induction pre with
  | nil =>
    intro st post h T hrun st' hst'
    cases hrun with
    | cons _ h' _ t b out ad _ hs hT hbt hrest => exact run_time_ge lower post h' t hrest st' hst'
  | cons s0 pre' ih =>
    intro st post h T hrun st' hst'
    cases hrun with
    | cons _ h' _ t b out ad _ hs hT hbt hrest => exact ih st post h' t hrest st' hst'

/-- along a disciplined run every pointer sent with a TTL has, among the events *before* its step, a `reg` of its service
at least 350 ms old that is later than all `unreg`s of that service so far -/
theorem run_sends (hty : Function.Injective N.tyId) (hsv : Function.Injective N.svcId) :
    ∀ (steps : List Step) (h : Host) (T : Int) (E : Link.Trace), IsRun lower h T steps → WF lower h →
      (∀ r alias, WfPtr r alias → J lower N r alias h) → Hist lower N E h T →
      (∀ st ∈ steps, Disc lower st) → Spaced lower N E steps →
      ∀ pre st post, steps = pre ++ st :: post → ∀ p ∈ st.out, ∀ r ∈ p.answers ++ p.additionals, ∀ alias,
        WfPtr r alias → 0 < r.ttl →
        ∃ r1, (r1, sigR lower N r alias) ∈ Link.regs (E ++ events lower N pre) ∧ r1 + 350 ≤ st.t ∧
          ∀ x ∈ Link.unregs (E ++ events lower N pre), x.2 = sigR lower N r alias → x.1 < r1 := by
  intro steps
  induction steps with
  | nil =>
    intro h T E _ _ _ _ _ _ pre st post hsplit
    cases pre <;> simp at hsplit
  | cons s0 rest ih =>
    intro h T E hrun hw hj hh hd hsp pre st post hsplit p hp r hr alias hwf httl
    cases hrun with
    | cons _ h' _ t b out ad _ hs hT hbt hrest =>
      cases pre with
      | nil =>
        simp only [List.nil_append, List.cons.injEq] at hsplit
        obtain ⟨rfl, _⟩ := hsplit
        obtain ⟨e, he, hes⟩ := J_emit lower N r alias h h' b out hs (hj r alias hwf) p hp hr httl
        have hsmem : sigR lower N r alias ∈ sig lower N h := by
          unfold sig
          rw [List.mem_map]
          exact ⟨e, he, hes⟩
        obtain ⟨r1, hr1, hle, hun⟩ := hh _ hsmem
        refine ⟨r1, by simpa [events_nil] using hr1, by simp only; omega, ?_⟩
        intro x hx
        exact hun x (by simpa [events_nil] using hx)
      | cons p0 pre' =>
        simp only [List.cons_append, List.cons.injEq] at hsplit
        obtain ⟨rfl, hrest'⟩ := hsplit
        have hd0 : Disc lower ⟨t, b, h, h', out, ad⟩ := hd _ (by simp)
        have hsp0 : ∀ s ∈ adds lower N ⟨t, b, h, h', out, ad⟩, ∀ x ∈ Link.unregs E, x.2 = s → x.1 < t - 350 := by
          intro s hs' x hx hxs
          have := hsp [] ⟨t, b, h, h', out, ad⟩ rest rfl s hs' x (by simpa [events_nil] using hx) hxs
          exact this
        have hw' := wf_step lower h h' b out hw hs
        have hj' : ∀ r alias, WfPtr r alias → J lower N r alias h' :=
          fun r alias hwf => J_step lower N hty hsv r alias hwf ⟨t, b, h, h', out, ad⟩ hs hw hd0 (hj r alias hwf)
        have hh' := Hist_step lower N E ⟨t, b, h, h', out, ad⟩ T hh hT hsp0
        have hsp' : Spaced lower N (E ++ stepEvents lower N ⟨t, b, h, h', out, ad⟩) rest := by
          intro pre2 st2 post2 hsplit2 s hs2 x hx hxs
          have := hsp (⟨t, b, h, h', out, ad⟩ :: pre2) st2 post2 (by rw [hsplit2]; rfl) s hs2 x
            (by rw [events_cons, ← List.append_assoc]; exact hx) hxs
          exact this
        obtain ⟨r1, hr1, hle, hun⟩ := ih h' t _ hrest hw' hj' hh' (fun st hst => hd st (by simp [hst])) hsp'
          pre' st post hrest' p hp r hr alias hwf httl
        refine ⟨r1, ?_, hle, ?_⟩
        · rw [events_cons, ← List.append_assoc]; exact hr1
        · intro x hx
          rw [events_cons, ← List.append_assoc] at hx
          exact hun x hx

/-! ### K6 -/

theorem ptrOf_item {s : Link.Svc} {items : List Link.Item} {ttl : Nat} {full : Bool}
    (h : Link.ptrOf s items = some (ttl, full)) : Link.Item.ptr s ttl full ∈ items := by
  induction items with
  | nil => simp [Link.ptrOf] at h
  | cons it r ih =>
    cases it with
    | ptr s' ttl' full' =>
      simp only [Link.ptrOf] at h
      by_cases hs : s' = s
      · rw [if_pos hs] at h
        simp only [Option.some.injEq, Prod.mk.injEq] at h
        obtain ⟨rfl, rfl⟩ := h
        subst hs
        simp
      · rw [if_neg hs] at h
        exact List.mem_cons_of_mem _ (ih h)
    | query ty known qu =>
      simp only [Link.ptrOf] at h
      exact List.mem_cons_of_mem _ (ih h)

theorem ptrItem_some (p : Pkt) (r : Rec) (s : Link.Svc) (ttl : Nat) (full : Bool)
    (h : ptrItem lower N p r = some (.ptr s ttl full)) :
    ∃ alias, WfPtr r alias ∧ s = sigR lower N r alias ∧ ttl = r.ttl := by
  unfold ptrItem at h
  cases hrd : r.rdata with
  | ptr alias =>
    rw [hrd] at h
    simp only at h
    split at h
    · rename_i hc
      simp only [Option.some.injEq, Link.Item.ptr.injEq] at h
      exact ⟨alias, ⟨hrd, hc.1, hc.2⟩, h.1.symm, h.2.1.symm⟩
    · cases h
  | addr a b => rw [hrd] at h; cases h
  | hinfo a b => rw [hrd] at h; cases h
  | txt a => rw [hrd] at h; cases h
  | srv a b c d => rw [hrd] at h; cases h
  | nsec a b => rw [hrd] at h; cases h

theorem mem_sends_events : ∀ (l : List Step) (sd : Link.SendE), sd ∈ Link.sends (events lower N l) →
    ∃ st ∈ l, ∃ p ∈ st.out, sd = ⟨st.t, N.host, 0, dstOf st.b st.adst, itemsOf lower N p⟩ := by
  intro l
  induction l with
  | nil => intro sd h; simp [events_nil, Link.sends] at h
  | cons st rest ih =>
    intro sd h
    rw [events_cons, sends_append, List.mem_append] at h
    rcases h with h | h
    · rw [sends_stepEvents, List.mem_map] at h
      obtain ⟨p, hp, rfl⟩ := h
      exact ⟨st, by simp, p, hp, rfl⟩
    · obtain ⟨st', hst', p, hp, hsd⟩ := ih sd h
      exact ⟨st', by simp [hst'], p, hp, hsd⟩

theorem unregs_events_time : ∀ (l : List Step) (x : Int × Link.Svc), x ∈ Link.unregs (events lower N l) →
    ∃ st ∈ l, x.1 = st.t := by
  intro l
  induction l with
  | nil => intro x h; simp [events_nil, Link.unregs] at h
  | cons st rest ih =>
    intro x h
    rw [events_cons, unregs_append, List.mem_append] at h
    rcases h with h | h
    · rw [unregs_stepEvents, List.mem_map] at h
      obtain ⟨s, _, rfl⟩ := h
      exact ⟨st, by simp, rfl⟩
    · obtain ⟨st', hst', hx⟩ := ih x h
      exact ⟨st', by simp [hst'], hx⟩

/-- **K6 from the C08 host machine.**  On the link trace of every timed run of `Zc.Goodbye.Host` from its initial state
that obeys the API discipline (`Disc`: update/unregister with the registered type; `Spaced`: a name is registered again at least
one probing phase after it was withdrawn), a PTR with TTL > 0 is only sent for a service of this host, at least 350 ms after
its `reg`, with no `unreg` in between — the contract K6.  The engine is C08's invariant `Clean` (`step_clean`,
`unregister_clean`): once the owner leaves the registry nothing in the queues or the tasks can put the pointer on the wire. -/
theorem K6_of_run (hty : Function.Injective N.tyId) (hsv : Function.Injective N.svcId) (steps : List Step) (T0 : Int)
    (hrun : IsRun lower Host.init T0 steps) (hd : ∀ st ∈ steps, Disc lower st) (hsp : Spaced lower N [] steps) :
    Link.K6 Link.Cfg.paper (events lower N steps) = true := by
  unfold Link.K6
  rw [List.all_eq_true]
  intro sd hsd
  rw [List.all_eq_true]
  intro s _
  cases hpos : Link.pos s sd.items with
  | false => rfl
  | true =>
    simp only [Bool.not_true, Bool.false_or, Bool.and_eq_true, beq_iff_eq]
    obtain ⟨st, hst, p, hp, rfl⟩ := mem_sends_events lower N steps sd hsd
    simp only at hpos ⊢
    obtain ⟨ttl, full, hptr, httl⟩ := Link.pos_iff.mp hpos
    have hitem := ptrOf_item hptr
    unfold itemsOf at hitem
    rw [List.mem_filterMap] at hitem
    obtain ⟨r, hr, hri⟩ := hitem
    obtain ⟨alias, hwf, rfl, rfl⟩ := ptrItem_some lower N p r s ttl full hri
    obtain ⟨pre, post, hsplit⟩ := List.append_of_mem hst
    obtain ⟨r1, hr1, hle, hun⟩ := run_sends lower N hty hsv steps Host.init T0 [] hrun (wf_init lower)
      (fun r alias _ => J_init lower N r alias) (Hist_init lower N T0) hd hsp pre st post hsplit p hp r hr alias hwf httl
    simp only [List.nil_append] at hr1 hun
    refine ⟨rfl, ?_⟩
    simp only [Link.regAt, List.any_eq_true, Bool.and_eq_true, beq_iff_eq, decide_eq_true_eq, List.all_eq_true,
      Bool.not_eq_true', Bool.and_eq_false_imp, decide_eq_false_iff_not]
    refine ⟨(r1, sigR lower N r alias), ?_, ⟨rfl, hle⟩, ?_⟩
    · rw [hsplit, events_append, regs_append]
      exact List.mem_append_left _ hr1
    · intro x hx hxs
      obtain ⟨hxs, hxle⟩ := hxs
      rw [hsplit, events_append, events_cons, unregs_append, unregs_append, List.mem_append, List.mem_append] at hx
      rcases hx with hx | hx | hx
      · have := hun x hx hxs
        simp only at hxle
        omega
      · rw [unregs_stepEvents, List.mem_map] at hx
        obtain ⟨s', _, rfl⟩ := hx
        simp only
        omega
      · obtain ⟨st', hst', hxt⟩ := unregs_events_time lower N post x hx
        have := run_split_ge lower pre st post Host.init T0 (hsplit ▸ hrun) st' hst'
        omega

theorem mkRun_isRun : ∀ (sched : List (Int × Block)) (h : Host) (T : Int) (steps : List Step),
    mkRun lower h T sched = some steps → IsRun lower h T steps := by
  intro sched
  induction sched with
  | nil =>
    intro h T steps hm
    simp only [mkRun, Option.some.injEq] at hm
    subst hm
    exact IsRun.nil h T
  | cons tb rest ih =>
    intro h T steps hm
    obtain ⟨t, b⟩ := tb
    simp only [mkRun] at hm
    split at hm
    · rename_i hc
      split at hm
      · cases hm
      · rename_i h' out hs
        cases hr : mkRun lower h' t rest with
        | none => rw [hr] at hm; cases hm
        | some l =>
          rw [hr] at hm
          simp only [Option.map_some, Option.some.injEq] at hm
          subst hm
          refine IsRun.cons h h' T t b out none l hs hc.1 ?_ (ih h' t l hr)
          intro bt hbt
          rcases hc.2 with hn | hs'
          · rw [hn] at hbt; cases hbt
          · rw [hs'] at hbt; exact (Option.some.inj hbt).symm
    · cases hm

/-! ### from the hosts to the link trace -/

/-- every host's part of the link trace `tr` that the C08 host machine owns — its sends **that carry a pointer record** (instant and
items; the questions a host sends — browser queries, probes — are the browser scheduler's and the registration's, not this
machine's), the `reg`s and the `unreg`s of its services — is that of a disciplined timed run of the machine -/
def GeneratedK6 (tr : Link.Trace) : Prop :=
  ∀ hid : Nat, ∃ (N : Naming) (steps : List Step) (T0 : Int),
    N.host = hid ∧ Function.Injective N.tyId ∧ Function.Injective N.svcId ∧
    IsRun lower Host.init T0 steps ∧ (∀ st ∈ steps, Disc lower st) ∧ Spaced lower N [] steps ∧
    (∀ sd ∈ Link.sends tr, sd.h = hid → Link.ptrSvcs sd.items ≠ [] →
      ∃ sd' ∈ Link.sends (events lower N steps), sd'.t = sd.t ∧ sd'.items = sd.items) ∧
    (∀ x ∈ Link.regs (events lower N steps), x ∈ Link.regs tr) ∧
    (∀ x ∈ Link.unregs tr, x.2.owner = hid → x ∈ Link.unregs (events lower N steps))

/-- K6 is host-local: it holds on a link trace whose hosts are runs of the machine -/
theorem K6_of_generated (tr : Link.Trace) (hg : GeneratedK6 lower tr) : Link.K6 Link.Cfg.paper tr = true := by
  unfold Link.K6
  rw [List.all_eq_true]
  intro sd hsd
  rw [List.all_eq_true]
  intro s hs
  cases hpos : Link.pos s sd.items with
  | false => rfl
  | true =>
    obtain ⟨N, steps, T0, hN, hty, hsv, hrun, hd, hsp, hsends, hregs, hunregs⟩ := hg sd.h
    obtain ⟨sd', hsd', ht, hit⟩ := hsends sd hsd rfl (List.ne_nil_of_mem hs)
    have hk := K6_of_run lower N hty hsv steps T0 hrun hd hsp
    have h1 := List.all_eq_true.mp (List.all_eq_true.mp hk sd' hsd') s (by rw [hit]; exact hs)
    rw [hit, hpos] at h1
    simp only [Bool.not_true, Bool.false_or, Bool.and_eq_true, beq_iff_eq] at h1 ⊢
    obtain ⟨hown, hreg⟩ := h1
    have hsdh : sd'.h = sd.h := by
      obtain ⟨st, _, p, _, rfl⟩ := mem_sends_events lower N steps sd' hsd'
      exact hN
    refine ⟨by rw [hown, hsdh], ?_⟩
    simp only [Link.regAt, List.any_eq_true, Bool.and_eq_true, beq_iff_eq, decide_eq_true_eq, List.all_eq_true,
      Bool.not_eq_true', Bool.and_eq_false_imp, decide_eq_false_iff_not] at hreg ⊢
    obtain ⟨r, hr, ⟨hrs, hrt⟩, hx⟩ := hreg
    refine ⟨r, hregs r hr, ⟨hrs, by rw [← ht]; exact hrt⟩, ?_⟩
    intro x hx' hxs
    have := hx x (hunregs x hx' (by rw [hxs.1, hown, hsdh])) hxs
    rw [← ht]
    exact this

/-! ### K2 (liveness): three goodbyes after every `unreg`, under the event-loop axiom `Fair` -/

theorem run_step_of_mem : ∀ (steps : List Step) (h : Host) (T : Int), IsRun lower h T steps → ∀ st ∈ steps,
    st.pre.step lower st.b = some (st.post, st.out) ∧ ∀ bt, blockTime st.b = some bt → bt = st.t := by
  intro steps
  induction steps with
  | nil => intro h T _ st hst; cases hst
  | cons s0 rest ih =>
    intro h T hrun st hst
    cases hrun with
    | cons _ h' _ t b out ad _ hs hT hbt hrest =>
      rcases List.mem_cons.mp hst with rfl | hst
      · exact ⟨hs, hbt⟩
      · exact ih h' t hrest st hst

/-- all PTR items of a datagram whose records all have TTL 0 are goodbyes -/
theorem bye_itemsOf (p : Pkt) (hz : ∀ r ∈ p.answers ++ p.additionals, r.ttl = 0) (r0 : Rec) (alias : String)
    (hr0 : r0 ∈ p.answers ++ p.additionals) (hwf : WfPtr r0 alias) :
    Link.bye (sigR lower N r0 alias) (itemsOf lower N p) = true := by
  have hmem : Link.Item.ptr (sigR lower N r0 alias) r0.ttl (fullFor lower p alias) ∈ itemsOf lower N p := by
    unfold itemsOf
    rw [List.mem_filterMap]
    refine ⟨r0, hr0, ?_⟩
    unfold ptrItem
    rw [hwf.1]
    simp only [hwf.2.1, hwf.2.2, and_self, if_true]
    rfl
  have hs : sigR lower N r0 alias ∈ Link.ptrSvcs (itemsOf lower N p) := by
    unfold Link.ptrSvcs
    rw [List.mem_filterMap]
    exact ⟨_, hmem, rfl⟩
  unfold Link.bye
  cases hp : Link.ptrOf (sigR lower N r0 alias) (itemsOf lower N p) with
  | none =>
    exfalso
    -- the first pointer item exists
    have : ∀ (items : List Link.Item) (s : Link.Svc), s ∈ Link.ptrSvcs items → Link.ptrOf s items ≠ none := by
      intro items
      induction items with
      | nil => intro s h; simp [Link.ptrSvcs] at h
      | cons it rest ih =>
        intro s h
        cases it with
        | ptr s' ttl full =>
          simp only [Link.ptrOf]
          by_cases hs' : s' = s
          · simp [hs']
          · rw [if_neg hs']
            apply ih
            simp only [Link.ptrSvcs, List.filterMap_cons, List.mem_cons] at h
            rcases h with h | h
            · exact absurd h.symm hs'
            · exact h
        | query ty known qu =>
          simp only [Link.ptrOf]
          apply ih
          simpa [Link.ptrSvcs, List.filterMap_cons] using h
    exact this _ _ hs hp
  | some v =>
    obtain ⟨ttl, full⟩ := v
    have hitem := ptrOf_item hp
    unfold itemsOf at hitem
    rw [List.mem_filterMap] at hitem
    obtain ⟨r, hr, hri⟩ := hitem
    obtain ⟨alias', _, _, rfl⟩ := ptrItem_some lower N p r _ ttl full hri
    simp [hz r hr]

theorem broadcastPkt_bye (s : Register.Svc) (ad : Bool) :
    Link.bye (sigma lower N s) (itemsOf lower N (broadcastPkt s (some 0) ad)) = true := by
  have hw := svc_ptr_wf s (some 0)
  have := bye_itemsOf lower N (broadcastPkt s (some 0) ad)
    (by intro r hr; simp only [broadcastPkt, List.append_nil] at hr; exact broadcast_ttl0 s ad r hr)
    (s.ptr (some 0)) s.name (by simp [broadcastPkt, broadcastAnswers]) ⟨hw.1, hw.2.2.1, hw.2.2.2⟩
  simpa [sigR, sigma, hw.2.1] using this

/-- executing a goodbye task: the datagram leaves, and the continuation (if any) is pending -/
theorem exec_goodbye (st : Step) (τ : Register.Task) (hs : st.pre.step lower st.b = some (st.post, st.out))
    (hb : st.b = .task τ.oid τ.ttl τ.addresses τ.due)
    (hf : findTask st.pre.tasks τ.oid τ.ttl τ.addresses τ.due = some τ) (httl : τ.ttl = some 0) (hopen : st.pre.done = false) :
    st.out = [broadcastPkt τ.svc (some 0) τ.addresses] ∧
    (τ.i + 1 < 3 → ({ τ with i := τ.i + 1, due := τ.due + τ.interval } : Register.Task) ∈ st.post.tasks) := by
  rw [hb] at hs
  simp only [Host.step, hf] at hs
  simp only [Task.step, httl, Option.isNone_some, Zc.GenFacts.Goodbye.announce_stops_eq, Bool.false_and, Bool.false_eq_true,
    if_false, Zc.GenFacts.Register.broadcast_count_eq] at hs
  by_cases hi : τ.i + 1 < 3
  · simp only [hi, if_true, Option.some.injEq, Prod.mk.injEq] at hs
    obtain ⟨hpost, hout⟩ := hs
    refine ⟨?_, fun _ => ?_⟩
    · rw [← hout]; simp [emit, Zc.GenFacts.Goodbye.send_is_noop_eq, hopen]
    · rw [← hpost]; simp [httl]
  · simp only [hi, if_false, Option.some.injEq, Prod.mk.injEq] at hs
    obtain ⟨_, hout⟩ := hs
    exact ⟨by rw [← hout]; simp [emit, Zc.GenFacts.Goodbye.send_is_noop_eq, hopen], fun h => absurd h hi⟩

/-- executing a step of a close sequence -/
theorem exec_allStep (st : Step) (a : AllTask) (hs : st.pre.step lower st.b = some (st.post, st.out))
    (hb : st.b = .allStep a.due) (hf : st.pre.closing.find? (fun x => x.due == a.due) = some a) (hopen : st.pre.done = false) :
    st.out = [allPkt a.answers] ∧
    (a.i + 1 < 3 → ({ a with i := a.i + 1, due := a.due + Gen.unregisterTime } : AllTask) ∈ st.post.closing) := by
  rw [hb] at hs
  simp only [Host.step, hf, Zc.GenFacts.Register.broadcast_count_eq, Option.some.injEq, Prod.mk.injEq] at hs
  obtain ⟨hpost, hout⟩ := hs
  refine ⟨by rw [← hout]; simp [emit, Zc.GenFacts.Goodbye.send_is_noop_eq, hopen], fun hi => ?_⟩
  rw [← hpost]
  simp [hi]

theorem mcastAt_of_out (steps : List Step) (st : Step) (hst : st ∈ steps) (hdst : dstOf st.b st.adst = none) (p : Pkt)
    (hp : p ∈ st.out) (s : Link.Svc) (hs : s.owner = N.host) (hb : Link.bye s (itemsOf lower N p) = true) :
    Link.mcastAt (events lower N steps) s.owner st.t (Link.bye s) = true := by
  rw [Link.mcastAt_iff]
  refine ⟨⟨st.t, N.host, 0, none, itemsOf lower N p⟩, ?_, hs.symm, rfl, rfl, hb⟩
  obtain ⟨pre, post, rfl⟩ := List.append_of_mem hst
  rw [events_append, events_cons, sends_append, sends_append, sends_stepEvents]
  exact List.mem_append_right _ (List.mem_append_left _ (List.mem_map.mpr ⟨p, hp, by rw [hdst]⟩))

/-- which blocks take a service out of the registry -/
theorem removes_cases (st : Step) (hs : st.pre.step lower st.b = some (st.post, st.out)) (hd : Disc lower st) (s : Link.Svc)
    (hr : s ∈ removes lower N st) :
    (∃ s' oid now, st.b = .unregister s' oid now ∧ s = sigma lower N s') ∨
    (∃ now, st.b = .unregisterAll now ∧ st.pre.reg.isEmpty = false ∧ ∃ e ∈ st.pre.reg, sigma lower N e.svc = s) := by
  obtain ⟨t, b, h, h', out, ad⟩ := st
  simp only [removes, List.mem_filter, Bool.not_eq_true', List.contains_eq_mem, decide_eq_false_iff_not, sig, List.mem_map] at hr
  obtain ⟨⟨e, he, hes⟩, hnot⟩ := hr
  simp only at hs hd he hnot ⊢
  have keep : h'.reg = h.reg → False := fun hreg => hnot ⟨e, by rw [hreg]; exact he, hes⟩
  cases b with
  | register s' oid now =>
    exfalso
    simp only [Host.step] at hs
    split at hs
    · simp at hs
    split at hs
    · simp at hs
    simp only [Option.some.injEq, Prod.mk.injEq] at hs
    obtain ⟨rfl, _⟩ := hs
    exact hnot ⟨e, List.mem_append_left _ he, hes⟩
  | update s' oid now =>
    exfalso
    simp only [Host.step] at hs
    split at hs
    · simp at hs
    simp only [Option.some.injEq, Prod.mk.injEq] at hs
    obtain ⟨rfl, _⟩ := hs
    by_cases hk : key lower e.svc = key lower s'
    · have hd' : lower e.svc.type = lower s'.type := hd e he hk
      exact hnot ⟨⟨s', oid⟩, by simp, by rw [← sigma_of_key lower N e.svc s' hk hd']; exact hes⟩
    · refine hnot ⟨e, List.mem_append_left _ ?_, hes⟩
      unfold regRemove
      rw [List.mem_filter]
      exact ⟨he, by simpa using hk⟩
  | unregister s' oid now =>
    left
    refine ⟨s', oid, now, rfl, ?_⟩
    simp only [Host.step, unregRemove_eq, Option.some.injEq, Prod.mk.injEq] at hs
    obtain ⟨rfl, _⟩ := hs
    by_cases hk : key lower e.svc = key lower s'
    · have hd' : lower e.svc.type = lower s'.type := hd e he hk
      rw [← hes]; exact sigma_of_key lower N e.svc s' hk hd'
    · exfalso
      refine hnot ⟨e, ?_, hes⟩
      unfold regRemove
      rw [List.mem_filter]
      exact ⟨he, by simpa using hk⟩
  | unregisterAll now =>
    right
    refine ⟨now, rfl, ?_, e, he, hes⟩
    cases hreg : h.reg with
    | nil => rw [hreg] at he; cases he
    | cons a l => rfl
  | task oid ttl ad due => exact (keep (step_reg_other lower h h' _ out hs trivial)).elim
  | answer rs => exact (keep (step_reg_other lower h h' _ out hs trivial)).elim
  | enqueue delayed now draw answers => exact (keep (step_reg_other lower h h' _ out hs trivial)).elim
  | ready delayed now => exact (keep (step_reg_other lower h h' _ out hs trivial)).elim
  | allStep due => exact (keep (step_reg_other lower h h' _ out hs trivial)).elim
  | close => exact (keep (step_reg_other lower h h' _ out hs trivial)).elim

/-- **K2 (liveness half) from the C08 host machine, under the event-loop axiom.**  On the link trace of a timed, disciplined run
in which pending task / close-sequence steps are executed at their due times (`Fair`) and the instance is not yet closed
(`Open`), every `unreg` at `t` is followed by multicast goodbyes for that service at `t`, `t + 125`, `t + 250` (those due within
the window): `C08_goodbyes` / `C08_goodbyes_all` executed. -/
theorem K2l_of_run (steps : List Step) (T0 endT : Int) (hrun : IsRun lower Host.init T0 steps)
    (hd : ∀ st ∈ steps, Disc lower st) (hfair : Fair steps endT) (hopen : Open steps) :
    Link.K2l Link.Cfg.paper (events lower N steps) endT = true := by
  unfold Link.K2l
  rw [List.all_eq_true]
  intro u hu
  -- the step that removed the service
  have : ∃ st ∈ steps, u.2 ∈ removes lower N st ∧ u.1 = st.t := by
    clear hfair hopen hd hrun
    induction steps with
    | nil => simp [events_nil, Link.unregs] at hu
    | cons s0 rest ih =>
      rw [events_cons, unregs_append, List.mem_append] at hu
      rcases hu with hu | hu
      · rw [unregs_stepEvents, List.mem_map] at hu
        obtain ⟨s, hs, rfl⟩ := hu
        exact ⟨s0, by simp, hs, rfl⟩
      · obtain ⟨st, hst, h1, h2⟩ := ih hu
        exact ⟨st, by simp [hst], h1, h2⟩
  obtain ⟨st, hst, hrem, hut⟩ := this
  obtain ⟨pre, post, hsplit⟩ := List.append_of_mem hst
  have hstep := run_step_of_mem lower steps Host.init T0 hrun
  have howner : u.2.owner = N.host := by
    simp only [removes, List.mem_filter, sig, List.mem_map] at hrem
    obtain ⟨⟨e, _, hes⟩, _⟩ := hrem
    rw [← hes]; rfl
  simp only [List.all_cons, List.all_nil, Bool.and_true, Bool.and_eq_true, Bool.or_eq_true, Bool.not_eq_true',
    decide_eq_false_iff_not]
  rcases removes_cases lower N st (hstep st hst).1 (hd st hst) u.2 hrem with ⟨s', oid, now, hb, hsig⟩ | ⟨now, hb, hne, e, he, hes⟩
  · -- async_unregister_service: a goodbye task with three steps
    have hnow : now = st.t := (hstep st hst).2 now (by rw [hb]; rfl)
    have hpost : Register.Task.mk s' oid Gen.unregisterTime (some 0)
        (Gen.Register.goodbye_addresses (hostShared lower (regRemove lower st.pre.reg (key lower s')) s')) 0 now
        ∈ st.post.tasks := by
      have h1 := (hstep st hst).1
      rw [hb] at h1
      simp only [Host.step, unregRemove_eq, Option.some.injEq, Prod.mk.injEq] at h1
      rw [← h1.1]
      simp
    -- one link of the chain
    have link : ∀ (pre1 : List Step) (st1 : Step) (post1 : List Step) (τ : Register.Task), steps = pre1 ++ st1 :: post1 → τ ∈ st1.post.tasks →
        τ.ttl = some 0 → τ.svc = s' → τ.interval = Gen.unregisterTime → τ.due ≤ endT →
        Link.mcastAt (events lower N steps) u.2.owner τ.due (Link.bye u.2) = true ∧
        (τ.i + 1 < 3 → ∃ pre2 st2 post2 τ', steps = pre2 ++ st2 :: post2 ∧ τ' ∈ st2.post.tasks ∧ τ'.ttl = some 0 ∧ τ'.svc = s' ∧
          τ'.interval = Gen.unregisterTime ∧ τ'.due = τ.due + 125 ∧ τ'.i = τ.i + 1) := by
      intro pre1 st1 post1 τ hsp1 hτ httl hsvc hint hdue
      obtain ⟨p1, st2, p2, hpost1, hb2, hf2⟩ := hfair.1 pre1 st1 post1 hsp1 τ hτ hdue
      have hst2 : st2 ∈ steps := by rw [hsp1, hpost1]; simp
      have hex := exec_goodbye lower st2 τ (hstep st2 hst2).1 hb2 hf2 httl (hopen st2 hst2)
      have ht2 : τ.due = st2.t := (hstep st2 hst2).2 τ.due (by rw [hb2]; rfl)
      refine ⟨?_, fun hi => ⟨pre1 ++ st1 :: p1, st2, p2, _, ?_, hex.2 hi, httl, hsvc, hint, ?_, rfl⟩⟩
      · rw [ht2]
        refine mcastAt_of_out lower N steps st2 hst2 (by rw [hb2]; exact Zc.GenFacts.Link.dstOf_task _ _ _ _ _)
          (broadcastPkt τ.svc (some 0) τ.addresses) (by rw [hex.1]; simp) u.2 howner ?_
        rw [hsig, hsvc]
        exact broadcastPkt_bye lower N s' τ.addresses
      · rw [hsp1, hpost1]; simp
      · simp only [hint, Zc.GenFacts.Goodbye.unregisterTime_eq]; rfl
    refine ⟨?_, ?_, ?_⟩
    · by_cases h0 : u.1 + 0 ≤ endT
      · right
        have := (link pre st post _ hsplit hpost rfl rfl rfl (by simp only; omega)).1
        simpa [hut, hnow] using this
      · left; exact h0
    · by_cases h1 : u.1 + 125 ≤ endT
      · right
        obtain ⟨_, hnext⟩ := link pre st post _ hsplit hpost rfl rfl rfl (by simp only; omega)
        obtain ⟨pre2, st2, post2, τ', hsp2, hτ', httl', hsvc', hint', hdue', _⟩ := hnext (by simp)
        have := (link pre2 st2 post2 τ' hsp2 hτ' httl' hsvc' hint' (by rw [hdue']; simp only; omega)).1
        rw [hdue'] at this
        simpa [hut, hnow] using this
      · left; exact h1
    · by_cases h2 : u.1 + 250 ≤ endT
      · right
        obtain ⟨_, hnext⟩ := link pre st post _ hsplit hpost rfl rfl rfl (by simp only; omega)
        obtain ⟨pre2, st2, post2, τ', hsp2, hτ', httl', hsvc', hint', hdue', hi'⟩ := hnext (by simp)
        obtain ⟨_, hnext2⟩ := link pre2 st2 post2 τ' hsp2 hτ' httl' hsvc' hint' (by rw [hdue']; simp only; omega)
        obtain ⟨pre3, st3, post3, τ'', hsp3, hτ'', httl'', hsvc'', hint'', hdue'', _⟩ := hnext2 (by rw [hi']; simp)
        have := (link pre3 st3 post3 τ'' hsp3 hτ'' httl'' hsvc'' hint'' (by rw [hdue'', hdue']; simp only; omega)).1
        rw [hdue'', hdue'] at this
        have e : now + 125 + 125 = st.t + 250 := by omega
        simp only at this
        rw [e] at this
        simpa [hut] using this
      · left; exact h2
  · -- async_unregister_all_services: the datagram now, and a close sequence with two more steps
    have hnow : now = st.t := (hstep st hst).2 now (by rw [hb]; rfl)
    let A := st.pre.reg.flatMap (fun e => broadcastAnswers e.svc (some 0) true)
    have hA0 : ∀ r ∈ A, r.ttl = 0 := by
      intro r hr
      rw [List.mem_flatMap] at hr
      obtain ⟨e', _, hre⟩ := hr
      exact broadcast_ttl0 e'.svc true r hre
    have hbyeA : Link.bye u.2 (itemsOf lower N (allPkt A)) = true := by
      have hw := svc_ptr_wf e.svc (some 0)
      have := bye_itemsOf lower N (allPkt A) (by intro r hr; simp only [allPkt, List.append_nil] at hr; exact hA0 r hr)
        (e.svc.ptr (some 0)) e.svc.name
        (by simp only [allPkt, List.append_nil]; rw [List.mem_flatMap]; exact ⟨e, he, by simp [broadcastAnswers]⟩)
        ⟨hw.1, hw.2.2.1, hw.2.2.2⟩
      rw [← hes]
      simpa [sigR, sigma, hw.2.1] using this
    have h1 := (hstep st hst).1
    rw [hb] at h1
    simp only [Host.step, hne, Bool.false_eq_true, if_false, Option.some.injEq, Prod.mk.injEq] at h1
    obtain ⟨hpost, hout⟩ := h1
    have hclosing : ({ answers := A, i := 1, due := now + Gen.unregisterTime } : AllTask) ∈ st.post.closing := by
      rw [← hpost]; simp [A]
    have link : ∀ (pre1 : List Step) (st1 : Step) (post1 : List Step) (a : AllTask), steps = pre1 ++ st1 :: post1 → a ∈ st1.post.closing →
        a.answers = A → a.due ≤ endT →
        Link.mcastAt (events lower N steps) u.2.owner a.due (Link.bye u.2) = true ∧
        (a.i + 1 < 3 → ∃ pre2 st2 post2 a', steps = pre2 ++ st2 :: post2 ∧ a' ∈ st2.post.closing ∧ a'.answers = A ∧
          a'.due = a.due + 125 ∧ a'.i = a.i + 1) := by
      intro pre1 st1 post1 a hsp1 ha hans hdue
      obtain ⟨p1, st2, p2, hpost1, hb2, hf2⟩ := hfair.2 pre1 st1 post1 hsp1 a ha hdue
      have hst2 : st2 ∈ steps := by rw [hsp1, hpost1]; simp
      have hex := exec_allStep lower st2 a (hstep st2 hst2).1 hb2 hf2 (hopen st2 hst2)
      have ht2 : a.due = st2.t := (hstep st2 hst2).2 a.due (by rw [hb2]; rfl)
      refine ⟨?_, fun hi => ⟨pre1 ++ st1 :: p1, st2, p2, _, ?_, hex.2 hi, hans, ?_, rfl⟩⟩
      · rw [ht2]
        exact mcastAt_of_out lower N steps st2 hst2 (by rw [hb2]; exact Zc.GenFacts.Link.dstOf_allStep _ _) (allPkt a.answers)
          (by rw [hex.1]; simp) u.2 howner (by rw [hans]; exact hbyeA)
      · rw [hsp1, hpost1]; simp
      · simp only [Zc.GenFacts.Goodbye.unregisterTime_eq]; rfl
    refine ⟨?_, ?_, ?_⟩
    · by_cases h0 : u.1 + 0 ≤ endT
      · right
        have := mcastAt_of_out lower N steps st hst (by rw [hb]; exact Zc.GenFacts.Link.dstOf_unregisterAll _ _) (allPkt A)
          (by rw [← hout]; simp [emit, Zc.GenFacts.Goodbye.send_is_noop_eq, hopen st hst, A]) u.2 howner hbyeA
        simpa [hut] using this
      · left; exact h0
    · by_cases h1' : u.1 + 125 ≤ endT
      · right
        have := (link pre st post _ hsplit hclosing rfl
          (by simp only [Zc.GenFacts.Goodbye.unregisterTime_eq]; omega)).1
        simp only [Zc.GenFacts.Goodbye.unregisterTime_eq] at this
        simpa [hut, hnow] using this
      · left; exact h1'
    · by_cases h2 : u.1 + 250 ≤ endT
      · right
        obtain ⟨_, hnext⟩ := link pre st post _ hsplit hclosing rfl
          (by simp only [Zc.GenFacts.Goodbye.unregisterTime_eq]; omega)
        obtain ⟨pre2, st2, post2, a', hsp2, ha', hans', hdue', _⟩ := hnext (by simp)
        have := (link pre2 st2 post2 a' hsp2 ha' hans'
          (by rw [hdue']; simp only [Zc.GenFacts.Goodbye.unregisterTime_eq]; omega)).1
        rw [hdue'] at this
        simp only [Zc.GenFacts.Goodbye.unregisterTime_eq] at this
        have e : now + (125 : Nat) + 125 = st.t + 250 := by omega
        rw [e] at this
        simpa [hut] using this
      · left; exact h2

end Zc.Bridge
