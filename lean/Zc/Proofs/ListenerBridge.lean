import Zc.Proofs.ListenerInv
import Zc.Proofs.SurviveHost
/-! The bridge between C16's `TimerInv` (listener over an arbitrary handler) and the `timer` half of C15's `LInv`
(`Zc.Survive`, the concrete host): one predicate, read through the forgetful map. -/
namespace Zc.Listener

variable {σ : Type}

/-- forget the decoder products: a `Survive` listener state as a C16 listener state -/
def forget (s : Zc.Survive.State σ) : State σ :=
  { data := s.data, lastTime := s.lastTime,
    lastMsg := s.lastMsg.map (fun m => { valid := true, isQuery := m.1, truncated := false, hasQU := m.2 }),
    deferred := s.deferred.map (fun p => (p.1, p.2.map (fun k => { data := k.data, now := k.now }))),
    timers := s.timers, down := s.down }

theorem alGet_map {α γ} (f : α → γ) (k : Addr) (l : List (Addr × α)) :
    alGet k (l.map (fun p => (p.1, f p.2))) = (alGet k l).map f := by
  induction l with
  | nil => simp [alGet]
  | cons p r ih =>
    obtain ⟨k', v⟩ := p
    by_cases h : k' = k <;> simp [alGet, h, ih]

/-- C15's `LInv.timer` (`Survive.TimerInv`) and C16's `TimerInv` are the same predicate -/
theorem timerInv_forget (s : Zc.Survive.State σ) : TimerInv (forget s) ↔ Zc.Survive.TimerInv s := by
  unfold TimerInv Zc.Survive.TimerInv
  constructor
  · intro h a t ht
    obtain ⟨p, ps, hp⟩ := h a t ht
    simp only [forget, alGet_map] at hp
    cases hg : alGet a s.deferred with
    | none => simp [hg] at hp
    | some l =>
      cases l with
      | nil => simp [hg] at hp
      | cons x xs => exact ⟨x, xs, rfl⟩
  · intro h a t ht
    obtain ⟨p, ps, hp⟩ := h a t ht
    simp only [forget, alGet_map, hp]
    exact ⟨_, _, rfl⟩

/-- C15's invariant implies C16's on the forgotten state -/
theorem timerInv_of_LInv (s : Zc.Survive.State σ) (hL : Zc.Survive.LInv s) : TimerInv (forget s) :=
  (timerInv_forget s).mpr hL.timer

end Zc.Listener
