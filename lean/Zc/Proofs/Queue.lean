import Zc.GenFacts.Reply
/-! Invariants of `MulticastOutgoingQueue` as a timed state machine (C12).

The invariant is history based: every record of a queued group comes from an `add` whose window
contains the group's; groups are strictly ordered by `send_after`; the one armed timer is due
inside the head group's window.  "Window" is taken with respect to the loop time at which the
group was created (`born`), because the truncated-query path calls `async_add` with a stamp
(`first_packet.now`) that lies in the past. -/
namespace Zc.Reply
open GenFacts

/-! ### dictionaries -/

theorem Dict.has_iff (d : Dict) (k : RecId) : d.has k = true ↔ k ∈ d.keys := by
  simp [Dict.has, Dict.keys, List.any_eq_true]

theorem Dict.map_fst_replace (d : Dict) (k : RecId) (v : List RecId) :
    (List.map (fun e : RecId × List RecId => if (e.1 == k) = true then (k, v) else e) d).map (·.1) = d.map (·.1) := by
  rw [List.map_map]; apply List.map_congr_left; intro e _
  simp only [Function.comp]
  split
  · rename_i he; exact (beq_iff_eq.mp he).symm
  · rfl

theorem Dict.keys_set (d : Dict) (k : RecId) (v : List RecId) (x : RecId) :
    x ∈ (d.set k v).keys ↔ x ∈ d.keys ∨ x = k := by
  unfold Dict.set
  split
  · rename_i h
    rw [Dict.has_iff] at h
    have := Dict.map_fst_replace d k v
    simp only [Dict.keys] at h ⊢
    rw [this]
    constructor
    · exact Or.inl
    · rintro (h' | rfl); exact h'; exact h
  · simp [Dict.keys]

theorem Dict.keys_update (d o : Dict) (x : RecId) :
    x ∈ (d.update o).keys ↔ x ∈ d.keys ∨ x ∈ o.keys := by
  unfold Dict.update
  induction o generalizing d with
  | nil => simp [Dict.keys]
  | cons e o ih =>
    simp only [List.foldl_cons]
    rw [ih, Dict.keys_set]
    simp only [Dict.keys, List.map_cons, List.mem_cons]
    constructor
    · rintro ((h | h) | h); exact Or.inl h; exact Or.inr (Or.inl h); exact Or.inr (Or.inr h)
    · rintro (h | h | h); exact Or.inl (Or.inl h); exact Or.inl (Or.inr h); exact Or.inr h

theorem Dict.nodup_set (d : Dict) (k : RecId) (v : List RecId) (h : d.keys.Nodup) : (d.set k v).keys.Nodup := by
  unfold Dict.set
  split
  · have := Dict.map_fst_replace d k v
    simp only [Dict.keys] at h ⊢
    rw [this]; exact h
  · rename_i hk
    have hk' : k ∉ d.keys := by rw [← Dict.has_iff]; simpa using hk
    simp only [Dict.keys, List.map_append, List.map_cons, List.map_nil] at hk' ⊢
    rw [List.nodup_append]
    refine ⟨h, by simp, ?_⟩
    intro a ha b hb
    simp at hb
    rintro rfl
    exact hk' (hb ▸ ha)

theorem Dict.nodup_update (d o : Dict) (h : d.keys.Nodup) : (d.update o).keys.Nodup := by
  unfold Dict.update
  induction o generalizing d with
  | nil => simpa using h
  | cons e o ih => simp only [List.foldl_cons]; exact ih _ (Dict.nodup_set d e.1 e.2 h)

theorem Dict.keys_erase (d : Dict) (k x : RecId) : x ∈ (d.erase k).keys ↔ x ∈ d.keys ∧ x ≠ k := by
  simp only [Dict.erase, Dict.keys, List.mem_map, List.mem_filter, Bool.not_eq_true', beq_eq_false_iff_ne]
  constructor
  · rintro ⟨e, ⟨he, hne⟩, rfl⟩; exact ⟨⟨e, he, rfl⟩, hne⟩
  · rintro ⟨⟨e, he, rfl⟩, hne⟩; exact ⟨e, ⟨he, hne⟩, rfl⟩

theorem Dict.keys_eraseAll (ks : List RecId) (d : Dict) (x : RecId) :
    x ∈ (ks.foldl Dict.erase d).keys ↔ x ∈ d.keys ∧ x ∉ ks := by
  induction ks generalizing d with
  | nil => simp
  | cons k ks ih =>
    simp only [List.foldl_cons]
    rw [ih, Dict.keys_erase]
    simp only [List.mem_cons, not_or]
    constructor
    · rintro ⟨⟨h1, h2⟩, h3⟩; exact ⟨h1, h2, h3⟩
    · rintro ⟨h1, h2, h3⟩; exact ⟨⟨h1, h2⟩, h3⟩

/-! ### the history-based invariant -/

/-- one `async_add` call: loop time, the stamp it was given, the records -/
structure AddRec where
  clock : Int
  now : Int
  keys : List RecId

/-- what the invariant says about one group apart from its records -/
structure Sk where
  sa : Int
  sb : Int
  born : Int

def Group.sk (g : Group) : Sk := ⟨g.sa, g.sb, g.born⟩

/-- the queue parameters the proofs need: no negative extra delay, and the largest random delay
fits into the aggregation window (120 ≤ 500 and 120 ≤ 200 today) -/
def QP.ok (p : QP) : Prop := 0 ≤ p.addl ∧ drawHi ≤ p.agg

theorem outQP_ok : outQP.ok := by unfold QP.ok; decide
theorem delayQP_ok : delayQP.ok := by unfold QP.ok; decide

/-- the latest instant at which a group created at `born` may still be unsent -/
def Sk.deadline (p : QP) (g : Sk) : Int := g.born + p.agg + p.addl

/-- exactly one timer iff the queue is non-empty, due inside the head group's window and not in the past -/
def timerOk (p : QP) (clock : Int) : List Sk → Option Int → Prop
  | [], t => t = none
  | g :: _, t => ∃ d, t = some d ∧ g.sa ≤ d ∧ d ≤ g.deadline p ∧ clock ≤ d

theorem timerOk_append {p : QP} {clock : Int} {sks : List Sk} (l : List Sk) {t : Option Int} (hne : sks ≠ []) :
    timerOk p clock (sks ++ l) t ↔ timerOk p clock sks t := by
  cases sks with
  | nil => exact absurd rfl hne
  | cons g gs => simp [timerOk]

structure SkInv (p : QP) (clock : Int) (sks : List Sk) (timer : Option Int) : Prop where
  sorted : sks.Pairwise (fun a b => a.sa < b.sa ∧ a.born ≤ b.born)
  window : ∀ g ∈ sks, g.sa ≤ g.sb ∧ g.sb ≤ g.deadline p ∧ g.born ≤ clock
  timer : timerOk p clock sks timer

/-- every record of a group was put there by an `add` whose lower bound the group respects and
which happened no earlier than the group's creation -/
def Origin (p : QP) (hist : List AddRec) (g : Group) (r : RecId) : Prop :=
  ∃ a ∈ hist, r ∈ a.keys ∧ a.now + drawLo + p.addl ≤ g.sa ∧ g.born ≤ a.clock

structure QInv (p : QP) (hist : List AddRec) (clock : Int) (q : Queue) : Prop where
  sk : SkInv p clock (q.groups.map Group.sk) q.timer
  origin : ∀ g ∈ q.groups, ∀ r ∈ g.answers.keys, Origin p hist g r
  hist : ∀ a ∈ hist, a.clock ≤ clock

theorem QInv.init (p : QP) (clock : Int) : QInv p [] clock {} :=
  ⟨{ sorted := List.Pairwise.nil, window := (by intro g hg; cases hg), timer := rfl }, (by intro g hg; cases hg), (by intro a ha; cases ha)⟩

/-- the armed timer is due no later than the deadline of *every* queued group -/
theorem SkInv.timer_le {p : QP} {clock : Int} {sks : List Sk} {t : Option Int} (h : SkInv p clock sks t)
    {d : Int} (hd : t = some d) : ∀ g ∈ sks, d ≤ g.deadline p ∧ clock ≤ d := by
  intro g hg
  cases sks with
  | nil => simp at hg
  | cons g0 gs =>
    obtain ⟨d', hd', _, h2, h3⟩ := h.timer
    rw [hd] at hd'
    have : d = d' := by simpa using hd'
    subst this
    simp at hg
    rcases hg with rfl | hg
    · exact ⟨h2, h3⟩
    · have := (List.pairwise_cons.mp h.sorted).1 g hg
      unfold Sk.deadline at h2 ⊢
      exact ⟨by omega, h3⟩

theorem SkInv.nonempty_timer {p : QP} {clock : Int} {sks : List Sk} {t : Option Int} (h : SkInv p clock sks t)
    (hne : sks ≠ []) : ∃ d, t = some d := by
  cases sks with
  | nil => exact absurd rfl hne
  | cons g gs => obtain ⟨d, hd, _⟩ := h.timer; exact ⟨d, hd⟩

/-! ### `async_add` -/

/-- the three things `async_add` can do -/
theorem Queue.add_spec (p : QP) (q : Queue) (clock now draw : Int) (answers : Dict) :
    (q.groups = [] ∧ q.add p clock now draw answers =
        { groups := [{ sa := now + (draw + p.addl), sb := now + p.agg + p.addl, answers := answers, born := clock }],
          timer := some (clock + (draw + p.addl)) }) ∨
    (∃ init last, q.groups = init ++ [last] ∧ now + (draw + p.addl) ≤ last.sa ∧
        q.add p clock now draw answers = { q with groups := init ++ [{ last with answers := last.answers.update answers }] }) ∨
    (∃ init last, q.groups = init ++ [last] ∧ last.sa < now + (draw + p.addl) ∧
        q.add p clock now draw answers =
          { q with groups := q.groups ++ [{ sa := now + (draw + p.addl), sb := now + p.agg + p.addl, answers := answers, born := clock }] }) := by
  unfold Queue.add
  simp only [GenFacts.q_random_delay, GenFacts.q_send_after, GenFacts.q_send_before, GenFacts.q_add_timer_delay]
  cases hl : q.groups.getLast? with
  | none =>
    have hnil : q.groups = [] := List.getLast?_eq_none_iff.mp hl
    left
    refine ⟨hnil, ?_⟩
    have hb : ¬ (Gen.Reply.q_add_nonempty (q.groups.length : Int) = true) := by
      rw [GenFacts.q_add_nonempty, hnil]; simp
    rw [if_neg hb, hnil]; rfl
  | some last =>
    obtain ⟨ys, hys⟩ := List.getLast?_eq_some_iff.mp hl
    have hdl : q.groups.dropLast = ys := by rw [hys]; exact List.dropLast_concat
    have happ : q.groups.dropLast ++ [last] = q.groups := by rw [hdl]; exact hys.symm
    have hne : q.groups ≠ [] := by intro h; rw [h] at hl; simp at hl
    have hb : Gen.Reply.q_add_nonempty (q.groups.length : Int) = true := by
      rw [GenFacts.q_add_nonempty]
      have : 0 < q.groups.length := List.length_pos_iff.mpr hne
      omega
    rw [if_pos hb]
    right
    by_cases hm : Gen.Reply.q_add_merge (now + (draw + p.addl)) last.sa = true
    · left
      refine ⟨q.groups.dropLast, last, happ.symm, (GenFacts.q_add_merge _ _).mp hm, ?_⟩
      simp only [hm, if_true]
    · right
      refine ⟨q.groups.dropLast, last, happ.symm, ?_, ?_⟩
      · have := (not_congr (GenFacts.q_add_merge (now + (draw + p.addl)) last.sa)).mp hm; omega
      · simp only [hm]; rfl

theorem Origin.mono {p : QP} {hist hist' : List AddRec} {g : Group} {r : RecId} (h : Origin p hist g r)
    (hs : ∀ a ∈ hist, a ∈ hist') : Origin p hist' g r := by
  obtain ⟨a, ha, h2⟩ := h
  exact ⟨a, hs a ha, h2⟩

/-- time may pass as long as it does not pass the armed timer -/
theorem SkInv.mono {p : QP} {clock c : Int} {sks : List Sk} {t : Option Int} (h : SkInv p clock sks t)
    (hc : clock ≤ c) (hdue : ∀ d, t = some d → c ≤ d) : SkInv p c sks t := by
  refine ⟨h.sorted, ?_, ?_⟩
  · intro g hg
    have := h.window g hg
    exact ⟨this.1, this.2.1, by omega⟩
  · cases sks with
    | nil => exact h.timer
    | cons g gs =>
      obtain ⟨d, hd, h1, h2, _⟩ := h.timer
      exact ⟨d, hd, h1, h2, hdue d hd⟩

theorem QInv.add {p : QP} (hp : p.ok) {hist : List AddRec} {clock : Int} {q : Queue} (hI : QInv p hist clock q)
    {c now draw : Int} {answers : Dict}
    (hc : clock ≤ c) (hnow : now ≤ c) (hlo : drawLo ≤ draw) (hhi : draw ≤ drawHi)
    (hdue : ∀ d, q.timer = some d → c ≤ d) :
    QInv p (hist ++ [⟨c, now, answers.keys⟩]) c (q.add p c now draw answers) := by
  obtain ⟨hp0, hp1⟩ := hp
  have hlo' : (20 : Int) ≤ draw := by have := drawLo_eq; omega
  have hsub : ∀ a ∈ hist, a ∈ hist ++ [(⟨c, now, answers.keys⟩ : AddRec)] := fun a ha => List.mem_append_left _ ha
  have hnew : (⟨c, now, answers.keys⟩ : AddRec) ∈ hist ++ [(⟨c, now, answers.keys⟩ : AddRec)] := by simp
  have hhist : ∀ a ∈ hist ++ [(⟨c, now, answers.keys⟩ : AddRec)], a.clock ≤ c := by
    intro a ha
    rcases List.mem_append.mp ha with ha | ha
    · have := hI.hist a ha; omega
    · simp at ha; subst ha; exact Int.le_refl _
  rcases Queue.add_spec p q c now draw answers with ⟨hnil, heq⟩ | ⟨init, last, hg, hle, heq⟩ | ⟨init, last, hg, hlt, heq⟩
  · -- empty queue: one new group, timer armed
    rw [heq]
    refine ⟨⟨?_, ?_, ?_⟩, ?_, hhist⟩
    · simp
    · intro g hg
      simp [Group.sk] at hg
      subst hg
      simp only [Sk.deadline]
      refine ⟨by omega, by omega, Int.le_refl _⟩
    · refine ⟨c + (draw + p.addl), rfl, ?_, ?_, ?_⟩ <;> (try simp only [Group.sk, Sk.deadline]) <;> omega
    · intro g hg r hr
      simp at hg
      subst hg
      exact ⟨_, hnew, hr, by simp only; omega, by simp⟩
  · -- merged into the last group: the skeleton is unchanged
    rw [heq]
    have hsk : (init ++ [{ last with answers := last.answers.update answers }]).map Group.sk = q.groups.map Group.sk := by
      rw [hg]; simp [Group.sk]
    refine ⟨?_, ?_, hhist⟩
    · show SkInv p c ((init ++ [{ last with answers := last.answers.update answers }]).map Group.sk) q.timer
      rw [hsk]; exact hI.sk.mono hc hdue
    · intro g hg' r hr
      rcases List.mem_append.mp hg' with hgi | hgl
      · exact (hI.origin g (by rw [hg]; exact List.mem_append_left _ hgi) r hr).mono hsub
      · simp at hgl
        subst hgl
        have hlast : last ∈ q.groups := by rw [hg]; simp
        rcases (Dict.keys_update _ _ _).mp hr with hr | hr
        · obtain ⟨a, ha, h1, h2, h3⟩ := hI.origin last hlast r hr
          exact ⟨a, hsub a ha, h1, h2, h3⟩
        · have hb := (hI.sk.window last.sk (List.mem_map_of_mem hlast)).2.2
          refine ⟨_, hnew, hr, ?_, ?_⟩
          · show now + drawLo + p.addl ≤ last.sa; omega
          · show last.born ≤ c
            simp only [Group.sk] at hb; omega
  · -- appended behind the last group, no timer
    rw [heq]
    have hsk : (q.groups ++ [({ sa := now + (draw + p.addl), sb := now + p.agg + p.addl, answers := answers, born := c } : Group)]).map Group.sk
        = q.groups.map Group.sk ++ [⟨now + (draw + p.addl), now + p.agg + p.addl, c⟩] := by simp [Group.sk]
    have hold := hI.sk.mono hc hdue
    refine ⟨?_, ?_, hhist⟩
    · show SkInv p c ((q.groups ++ [_]).map Group.sk) q.timer
      rw [hsk]
      refine ⟨?_, ?_, ?_⟩
      · rw [List.pairwise_append]
        refine ⟨hold.sorted, by simp, ?_⟩
        intro a ha b hb
        simp at hb; subst hb
        have hab := hold.window a ha
        refine ⟨?_, hab.2.2⟩
        -- a.sa ≤ last.sa < new sa
        have hs := hold.sorted
        rw [hg] at hs ha
        simp only [List.map_append, List.map_cons, List.map_nil] at hs ha
        rcases List.mem_append.mp ha with ha | ha
        · have := (List.pairwise_append.mp hs).2.2 a ha last.sk (by simp)
          simp only [Group.sk] at this ⊢; omega
        · simp at ha; subst ha; simp only [Group.sk]; omega
      · intro g hg'
        rcases List.mem_append.mp hg' with hg' | hg'
        · exact hold.window g hg'
        · simp at hg'; subst hg'
          simp only [Sk.deadline]
          exact ⟨by omega, by omega, Int.le_refl _⟩
      · rw [timerOk_append]
        · exact hold.timer
        · rw [hg]; simp
    · intro g hg' r hr
      rcases List.mem_append.mp hg' with hgi | hgl
      · exact (hI.origin g hgi r hr).mono hsub
      · simp at hgl
        subst hgl
        exact ⟨_, hnew, hr, by simp only; omega, by simp⟩

/-! ### `async_remove_answers` -/

theorem Dict.keys_withdraw (d : Dict) (rm : List RecId) (x : RecId) : x ∈ (d.withdraw rm).keys ↔ x ∈ d.keys ∧ x ∉ rm := by
  simp only [Dict.withdraw, Dict.keys, List.map_map, List.mem_map, List.mem_filter, GenFacts.q_remove_keep, Function.comp,
    Bool.not_eq_true', List.contains_eq_mem, decide_eq_false_iff_not]
  constructor
  · rintro ⟨e, ⟨he, hne⟩, rfl⟩; exact ⟨⟨e, he, rfl⟩, hne⟩
  · rintro ⟨⟨e, he, rfl⟩, hne⟩; exact ⟨e, ⟨he, hne⟩, rfl⟩

theorem map_sk_removeRecords (q : Queue) (rm : List RecId) : (q.removeRecords rm).groups.map Group.sk = q.groups.map Group.sk := by
  simp [Queue.removeRecords, Group.sk, Function.comp_def]

theorem mem_removeRecords {q : Queue} {rm : List RecId} {g' : Group} (h : g' ∈ (q.removeRecords rm).groups) :
    ∃ g ∈ q.groups, g'.sa = g.sa ∧ g'.born = g.born ∧ ∀ r, r ∈ g'.answers.keys ↔ r ∈ g.answers.keys ∧ r ∉ rm := by
  simp only [Queue.removeRecords, List.mem_map] at h
  obtain ⟨g, hg, rfl⟩ := h
  exact ⟨g, hg, rfl, rfl, fun r => Dict.keys_withdraw _ _ _⟩

/-- a withdrawal (at a time that has not passed the armed timer) keeps the invariant: the skeleton and the timer are
untouched, the records that stay have the origin they had -/
theorem QInv.removeRecords {p : QP} {hist : List AddRec} {clock : Int} {q : Queue} (hI : QInv p hist clock q)
    {c : Int} (hc : clock ≤ c) (hdue : ∀ d, q.timer = some d → c ≤ d) (rm : List RecId) :
    QInv p hist c (q.removeRecords rm) := by
  refine ⟨?_, ?_, fun a ha => by have := hI.hist a ha; omega⟩
  · show SkInv p c ((q.removeRecords rm).groups.map Group.sk) q.timer
    rw [map_sk_removeRecords]; exact hI.sk.mono hc hdue
  · intro g' hg' r hr
    obtain ⟨g, hg, e1, e2, e3⟩ := mem_removeRecords hg'
    obtain ⟨a, ha, f1, f2, f3⟩ := hI.origin g hg r ((e3 r).mp hr).1
    exact ⟨a, ha, f1, by rw [e1]; exact f2, by rw [e2]; exact f3⟩

/-! ### `async_ready` -/

/-- what the `while` loop of `async_ready` returns -/
theorem popReady_spec (now : Int) : ∀ (gs : List Group) (acc : Dict) (rest : List Group) (batch : Dict),
    popReady now gs acc = (rest, batch) →
    ∃ popped, gs = popped ++ rest ∧ (∀ g ∈ popped, g.sa ≤ now) ∧
      (∀ r, r ∈ batch.keys ↔ r ∈ acc.keys ∨ ∃ g ∈ popped, r ∈ g.answers.keys) ∧
      (acc.keys.Nodup → batch.keys.Nodup) ∧
      (∀ h, rest.head? = some h → now < h.sa) := by
  intro gs
  induction gs with
  | nil =>
    intro acc rest batch h
    simp only [popReady, Prod.mk.injEq] at h
    obtain ⟨rfl, rfl⟩ := h
    exact ⟨[], by simp, by simp, by simp, id, by simp⟩
  | cons g gs ih =>
    intro acc rest batch h
    simp only [popReady] at h
    split at h
    · rename_i hg
      have hg' := ((GenFacts.q_ready_pop _ _ _).mp hg).2
      obtain ⟨popped, h1, h2, h3, h4, h5⟩ := ih _ _ _ h
      refine ⟨g :: popped, by simp [h1], ?_, ?_, ?_, h5⟩
      · intro x hx
        simp at hx
        rcases hx with rfl | hx
        · exact hg'
        · exact h2 _ hx
      · intro r
        rw [h3 r, Dict.keys_update]
        simp only [List.mem_cons, exists_eq_or_imp]
        constructor
        · rintro ((h | h) | h)
          · exact Or.inl h
          · exact Or.inr (Or.inl h)
          · exact Or.inr (Or.inr h)
        · rintro (h | h | h)
          · exact Or.inl (Or.inl h)
          · exact Or.inl (Or.inr h)
          · exact Or.inr h
      · intro hn; exact h4 (Dict.nodup_update _ _ hn)
    · rename_i hg
      simp only [Prod.mk.injEq] at h
      obtain ⟨rfl, rfl⟩ := h
      refine ⟨[], by simp, by simp, by simp, id, ?_⟩
      intro h hh
      simp at hh; subst hh
      have := (not_congr (GenFacts.q_ready_pop ((gs.length : Int) + 1) g.sa now)).mp hg
      have hlen : ((gs.length : Int) + 1) ≠ 0 := by omega
      by_cases hle : g.sa ≤ now
      · exact absurd ⟨hlen, hle⟩ this
      · omega

/-- the result of `async_ready`, in arithmetic terms -/
def readyResult (rest : List Group) (batch : Dict) : Queue × Option Dict :=
  if batch.isEmpty then ({ groups := rest, timer := rest.head?.map (·.sa) }, none)
  else ({ groups := removeAnswers rest batch, timer := rest.head?.map (·.sa) }, some batch)

theorem Queue.ready_spec (q : Queue) (now : Int) :
    (q.groups = [] ∧ q.ready now = ({ q with timer := none }, none)) ∨
    (∃ g gs, q.groups = g :: gs ∧ now < g.sb ∧ q.ready now = ({ q with timer := some g.sb }, none)) ∨
    (∃ rest batch, q.groups ≠ [] ∧ popReady now q.groups [] = (rest, batch) ∧ q.ready now = readyResult rest batch) := by
  unfold Queue.ready
  cases hq : q.groups with
  | nil => left; simp
  | cons g gs =>
    right
    simp only
    split
    · rename_i hw
      left
      have hw' := (GenFacts.q_ready_wait _ _ _).mp hw
      refine ⟨g, gs, rfl, hw'.2, ?_⟩
      rw [GenFacts.q_ready_wait_delay]
    · right
      cases hp : popReady now (g :: gs) [] with
      | mk rest batch =>
        refine ⟨rest, batch, by simp, rfl, ?_⟩
        simp only [readyResult]
        cases rest with
        | nil => simp
        | cons h hs => simp [GenFacts.q_ready_rearm_delay]

theorem map_sk_removeAnswers (gs : List Group) (b : Dict) : (removeAnswers gs b).map Group.sk = gs.map Group.sk := by
  simp [removeAnswers, Group.sk, Function.comp_def]

theorem mem_removeAnswers {gs : List Group} {b : Dict} {g' : Group} (h : g' ∈ removeAnswers gs b) :
    ∃ g ∈ gs, g'.sa = g.sa ∧ g'.born = g.born ∧ ∀ r, r ∈ g'.answers.keys ↔ r ∈ g.answers.keys ∧ r ∉ b.keys := by
  simp only [removeAnswers, List.mem_map] at h
  obtain ⟨g, hg, rfl⟩ := h
  exact ⟨g, hg, rfl, rfl, fun r => Dict.keys_eraseAll _ _ _⟩

/-- what a batch sent at the timer instant `now` contains -/
def BatchOk (p : QP) (hist : List AddRec) (now : Int) (q' : Queue) (b : Dict) : Prop :=
  b.keys.Nodup ∧
  (∀ r ∈ b.keys, ∃ a ∈ hist, r ∈ a.keys ∧ a.clock ≤ now ∧ a.now + drawLo + p.addl ≤ now ∧ now ≤ a.clock + p.agg + p.addl) ∧
  (∀ g ∈ q'.groups, ∀ r ∈ b.keys, r ∉ g.answers.keys)

theorem QInv.ready {p : QP} {hist : List AddRec} {clock : Int} {q : Queue} (hI : QInv p hist clock q)
    {now : Int} (hc : clock ≤ now) (ht : q.timer = some now) :
    QInv p hist now (q.ready now).1 ∧ ∀ b, (q.ready now).2 = some b → BatchOk p hist now (q.ready now).1 b := by
  have hhist : ∀ a ∈ hist, a.clock ≤ now := fun a ha => by have := hI.hist a ha; omega
  rcases Queue.ready_spec q now with ⟨hnil, _⟩ | ⟨g, gs, hq, hsb, heq⟩ | ⟨rest, batch, hne, hp, heq⟩
  · have := hI.sk.timer
    rw [hnil] at this
    simp [timerOk, ht] at this
  · rw [heq]
    refine ⟨⟨⟨hI.sk.sorted, ?_, ?_⟩, hI.origin, hhist⟩, by simp⟩
    · intro x hx
      have := hI.sk.window x hx
      exact ⟨this.1, this.2.1, by omega⟩
    · show timerOk p now (q.groups.map Group.sk) (some g.sb)
      have hw := hI.sk.window g.sk (List.mem_map_of_mem (by rw [hq]; simp))
      rw [hq]
      exact ⟨g.sb, rfl, hw.1, hw.2.1, by omega⟩
  · rw [heq]
    obtain ⟨popped, h1, h2, h3, h4, h5⟩ := popReady_spec now _ _ _ _ hp
    have hrest : ∀ g ∈ rest, g ∈ q.groups := fun g hg => by rw [h1]; exact List.mem_append_right _ hg
    -- invariant of the remaining groups (before the batch's records are struck out)
    have hskrest : SkInv p now (rest.map Group.sk) (rest.head?.map (·.sa)) := by
      have hs := hI.sk.sorted
      rw [h1, List.map_append] at hs
      refine ⟨(List.pairwise_append.mp hs).2.1, ?_, ?_⟩
      · intro x hx
        obtain ⟨g, hg, rfl⟩ := List.mem_map.mp hx
        have := hI.sk.window g.sk (List.mem_map_of_mem (hrest g hg))
        exact ⟨this.1, this.2.1, by omega⟩
      · cases rest with
        | nil => simp [timerOk]
        | cons h hs' =>
          have hw := hI.sk.window h.sk (List.mem_map_of_mem (hrest h (by simp)))
          have := h5 h (by simp)
          exact ⟨h.sa, by simp, Int.le_refl _, by simp only [Group.sk, Sk.deadline] at hw ⊢; omega, by omega⟩
    -- the batch lies inside the window of the adds it came from
    have hbatch : ∀ r ∈ batch.keys, ∃ a ∈ hist, r ∈ a.keys ∧ a.clock ≤ now ∧ a.now + drawLo + p.addl ≤ now ∧ now ≤ a.clock + p.agg + p.addl := by
      intro r hr
      rcases (h3 r).mp hr with hr | ⟨g, hg, hr⟩
      · simp [Dict.keys] at hr
      · have hgq : g ∈ q.groups := by rw [h1]; exact List.mem_append_left _ hg
        obtain ⟨a, ha, e1, e2, e3⟩ := hI.origin g hgq r hr
        have hd := (hI.sk.timer_le ht g.sk (List.mem_map_of_mem hgq)).1
        simp only [Sk.deadline, Group.sk] at hd
        exact ⟨a, ha, e1, hhist a ha, by have := h2 g hg; omega, by omega⟩
    simp only [readyResult]
    split
    · refine ⟨⟨hskrest, fun g hg => hI.origin g (hrest g hg), hhist⟩, by simp⟩
    · refine ⟨⟨?_, ?_, hhist⟩, ?_⟩
      · show SkInv p now ((removeAnswers rest batch).map Group.sk) _
        rw [map_sk_removeAnswers]; exact hskrest
      · intro g' hg' r hr
        obtain ⟨g, hg, e1, e2, e3⟩ := mem_removeAnswers hg'
        obtain ⟨a, ha, f1, f2, f3⟩ := hI.origin g (hrest g hg) r ((e3 r).mp hr).1
        exact ⟨a, ha, f1, by rw [e1]; exact f2, by rw [e2]; exact f3⟩
      · intro b hb
        simp at hb; subst hb
        refine ⟨h4 (by simp [Dict.keys]), hbatch, ?_⟩
        intro g' hg' r hr hr'
        obtain ⟨g, _, _, _, e3⟩ := mem_removeAnswers hg'
        exact ((e3 r).mp hr').2 hr

end Zc.Reply
