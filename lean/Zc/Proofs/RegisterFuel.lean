import Zc.Proofs.RegisterRename
import Std.Data.String.ToNat
import Mathlib.Data.List.Perm.Subperm
/-! The rename loop of the model never runs out of fuel: a bucket of `L` records cannot hold `L+1`
different `-N` names (pigeonhole; candidate names are injective in `N`). -/
namespace Zc.Register
open Zc

theorem mkName_inj (inst type : String) (m n : Nat) (h : mkName inst m type = mkName inst n type) : m = n := by
  unfold mkName at h
  have h1 := congrArg String.toList h
  simp only [String.toList_append] at h1
  have h2 := List.append_cancel_right h1
  simp only [List.append_assoc] at h2
  have h3 := List.append_cancel_left h2
  have h4 := List.append_cancel_left h3
  have h5 : toString m = toString n := String.toList_inj.mp (List.append_cancel_right h4)
  exact Nat.repr_inj.mp h5

/-- a candidate is never the un-suffixed name -/
theorem mkName_ne_base (inst type : String) (n : Nat) : mkName inst n type ≠ inst ++ "." ++ type := by
  intro h
  unfold mkName at h
  have h1 := congrArg (fun s => s.toList.length) h
  simp only [String.toList_append, List.length_append] at h1
  have : ("-" : String).toList.length = 1 := by decide
  omega

/-- the PTR aliases of a bucket -/
def aliases (bucket : List Rec) : List String :=
  bucket.filterMap (fun r => match r.rdata with | .ptr a => some a | _ => none)

theorem aliases_length (bucket : List Rec) : (aliases bucket).length ≤ bucket.length :=
  List.length_filterMap_le _ _

theorem conflict_mem (bucket : List Rec) (now : Int) (name : String) (h : conflict bucket now name = true) :
    name ∈ aliases bucket := by
  unfold conflict at h
  rw [List.any_eq_true] at h
  obtain ⟨r, hr, hc⟩ := h
  rw [Zc.GenFacts.Register.cache_conflict_iff] at hc
  obtain ⟨_, _, ha⟩ := hc
  unfold aliases
  rw [List.mem_filterMap]
  refine ⟨r, hr, ?_⟩
  cases hrd : r.rdata <;> simp [hrd] at ha ⊢
  exact ha

theorem rename_stuck_head (env : Env) (f : Nat) (st st' : PState) (h : rename env (f + 1) st = (st', some .stuck)) :
    conflict env.bucket st.now st.svc.name = true := by
  by_cases hc : conflict env.bucket st.now st.svc.name = true
  · exact hc
  · rw [rename_free env f st (by simpa using hc)] at h
    simp at h

/-- running out of fuel means that every candidate tried was taken -/
theorem rename_stuck_chain (env : Env) : ∀ (f : Nat) (st st' : PState), rename env f st = (st', some .stuck) →
    ∀ j, j + 1 < f → conflict env.bucket st.now (mkName st.inst (st.nextInst + j) st.svc.type) = true := by
  intro f
  induction f with
  | zero => intro st st' _ j hj; omega
  | succ f ih =>
    intro st st' h j hj
    have hhead := rename_stuck_head env f st st' h
    unfold rename at h
    simp only [hhead, if_true] at h
    by_cases ha : env.allow = true
    · simp only [ha, Bool.not_true, Bool.false_eq_true, if_false] at h
      by_cases hv : env.valid (mkName st.inst st.nextInst st.svc.type) = true
      · simp only [hv, Bool.not_true, Bool.false_eq_true, if_false] at h
        cases j with
        | zero =>
          cases f with
          | zero => omega
          | succ f =>
            have := rename_stuck_head env f _ st' h
            simpa using this
        | succ j =>
          have := ih _ st' h j (by omega)
          simp only at this
          rw [show st.nextInst + (j + 1) = st.nextInst + 1 + j by omega]
          exact this
      · have hv' : env.valid (mkName st.inst st.nextInst st.svc.type) = false := by simpa using hv
        simp [hv'] at h
    · have ha' : env.allow = false := by simpa using ha
      simp [ha'] at h

/-- with `length + 2` units of fuel the rename loop always terminates by itself -/
theorem rename_not_stuck (env : Env) (st st' : PState) : rename env (env.bucket.length + 2) st ≠ (st', some .stuck) := by
  intro h
  have hch := rename_stuck_chain env _ st st' h
  let cands := (List.range (env.bucket.length + 1)).map (fun j => mkName st.inst (st.nextInst + j) st.svc.type)
  have hnd : cands.Nodup := by
    apply List.Pairwise.map _ _ (List.nodup_range (n := env.bucket.length + 1))
    intro a b hab h
    have := mkName_inj _ _ _ _ h
    omega
  have hsub : cands ⊆ aliases env.bucket := by
    intro x hx
    simp only [cands, List.mem_map, List.mem_range] at hx
    obtain ⟨j, hj, rfl⟩ := hx
    exact conflict_mem _ _ _ (hch j (by omega))
  have h1 := (hnd.subperm hsub).length_le
  have h2 := aliases_length env.bucket
  simp only [cands, List.length_map, List.length_range] at h1
  omega

end Zc.Register
