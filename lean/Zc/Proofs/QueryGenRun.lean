import Zc.Proofs.QueryGen
import Zc.Props.C20
/-! Helper lemmas for the run-level C13 theorems (`Props/C13Run.lean`): whole heard queries, sequences of sightings. -/
namespace Zc.QueryGen
open Zc Zc.GenFacts.History

variable (lower : String → String)

/-! ### question identity is an equivalence -/

theorem qbeq_symm {p q : Question} (h : p.beq lower q = true) : q.beq lower p = true :=
  (question_beq_iff lower q p).2 ((question_beq_iff lower p q).1 h).symm

theorem qbeq_trans {p q r : Question} (h1 : p.beq lower q = true) (h2 : q.beq lower r = true) : p.beq lower r = true :=
  (question_beq_iff lower p r).2 (((question_beq_iff lower p q).1 h1).trans ((question_beq_iff lower q r).1 h2))

theorem qbeq_congr_left {p q : Question} (h : p.beq lower q = true) (e : Question) : e.beq lower p = e.beq lower q := by
  cases h1 : e.beq lower p <;> cases h2 : e.beq lower q <;> try rfl
  · have := qbeq_trans lower h2 (qbeq_symm lower h); rw [h1] at this; cases this
  · have := qbeq_trans lower h1 h; rw [h2] at this; cases this

/-- `get` only looks at the key -/
theorem get_congr (h : History) {p q : Question} (hpq : p.beq lower q = true) : h.get lower p = h.get lower q := by
  unfold History.get
  congr 1
  funext e
  exact qbeq_congr_left lower hpq e.q

/-! ### `add` and `get` -/

theorem find_filter_ne (q q2 : Question) (hne : q2.beq lower q = false) :
    ∀ (h : History), (h.filter (fun e => !(e.q.beq lower q2))).find? (fun e => e.q.beq lower q) = h.find? (fun e => e.q.beq lower q)
  | [] => rfl
  | x :: rest => by
    by_cases hx : x.q.beq lower q = true
    · have hx2 : x.q.beq lower q2 = false := by
        cases hb : x.q.beq lower q2
        · rfl
        · have := qbeq_trans lower (qbeq_symm lower hb) hx
          rw [hne] at this; cases this
      simp [hx2, hx]
    · have hx' : x.q.beq lower q = false := by simpa using hx
      by_cases hx2 : x.q.beq lower q2 = true
      · simp [hx2, hx', find_filter_ne q q2 hne rest]
      · have hx2' : x.q.beq lower q2 = false := by simpa using hx2
        simp [hx2', hx', find_filter_ne q q2 hne rest]

/-- recording another question does not touch the entry of `q` -/
theorem get_add_ne (h : History) (q q2 : Question) (now : Int) (known : List Rec) (hne : q2.beq lower q = false) :
    (h.add lower q2 now known).get lower q = h.get lower q := by
  simp only [History.add, History.get, List.find?_cons, hne]
  exact find_filter_ne lower q q2 hne h

/-- recording a question with the same key replaces the entry of `q` -/
theorem get_add_eq (h : History) (q q2 : Question) (now : Int) (known : List Rec) (heq : q2.beq lower q = true) :
    (h.add lower q2 now known).get lower q = some { q := q2, time := now, known } := by
  simp [History.add, History.get, heq]

/-! ### a whole heard query -/

theorem mem_dedupRecs {x : Rec} : ∀ {l : List Rec}, x ∈ dedupRecs lower l → x ∈ l
  | [], h => by simp [dedupRecs] at h
  | r :: rs, h => by
    simp only [dedupRecs, List.mem_cons, List.mem_filter] at h
    rcases h with rfl | ⟨h, -⟩
    · simp
    · exact List.mem_cons_of_mem _ (mem_dedupRecs h)

/-- every record of the list has an equal one (C20) in the set -/
theorem dedupRecs_complete {x : Rec} : ∀ {l : List Rec}, x ∈ l → ∃ y ∈ dedupRecs lower l, y.beq lower x = true
  | [], h => by simp at h
  | r :: rs, h => by
    by_cases hr : r.beq lower x = true
    · exact ⟨r, by simp [dedupRecs], hr⟩
    · rcases List.mem_cons.1 h with rfl | h
      · exact absurd ((C20_equivalence lower).1 x) hr
      · obtain ⟨y, hy, hyx⟩ := dedupRecs_complete h
        refine ⟨y, ?_, hyx⟩
        simp only [dedupRecs, List.mem_cons, List.mem_filter]
        right
        refine ⟨hy, ?_⟩
        cases hry : r.beq lower y
        · rfl
        · exact absurd ((C20_equivalence lower).2.2 r y x hry hyx) hr

/-- the fold of `hearQuery` over a list of (question, canAnswer) pairs -/
def hearFold (known : List Rec) (now : Int) (h : History) (qs : List (Question × Bool)) : History :=
  qs.foldl (fun h qc => responderHears lower qc.2 h qc.1 now known) h

theorem hearQuery_eq (h : History) (pkts : List HeardPacket) (now : Int) :
    hearQuery lower h pkts now = hearFold lower (heardKnown lower pkts) now h (pkts.flatMap (·.questions)) := rfl

/-- a question of the same key that is answerable and QM -/
def Recorded (q : Question) (qc : Question × Bool) : Prop := qc.1.beq lower q = true ∧ qc.2 = true ∧ qc.1.unique = false

theorem responderHears_other (can : Bool) (h : History) (q q2 : Question) (now : Int) (known : List Rec)
    (hn : ¬ Recorded lower q (q2, can)) : (responderHears lower can h q2 now known).get lower q = h.get lower q := by
  unfold responderHears
  split
  · rename_i hc
    simp only [Bool.and_eq_true, Bool.not_eq_true'] at hc
    have hne : q2.beq lower q = false := by
      cases hb : q2.beq lower q
      · rfl
      · exact absurd ⟨hb, hc.1, hc.2⟩ hn
    exact get_add_ne lower h q q2 now known hne
  · rfl

theorem hearFold_none (known : List Rec) (now : Int) (q : Question) : ∀ (qs : List (Question × Bool)) (h : History),
    (∀ qc ∈ qs, ¬ Recorded lower q qc) → (hearFold lower known now h qs).get lower q = h.get lower q
  | [], _, _ => rfl
  | qc :: rest, h, hn => by
    simp only [hearFold, List.foldl_cons]
    have := hearFold_none known now q rest (responderHears lower qc.2 h qc.1 now known) (fun x hx => hn x (List.mem_cons_of_mem _ hx))
    simp only [hearFold] at this
    rw [this]
    exact responderHears_other lower qc.2 h q qc.1 now known (hn qc (by simp))

/-- once an entry `(now, known)` is there for `q`, the rest of the fold keeps it (it may be re-written with the same time and list) -/
theorem hearFold_keeps (known : List Rec) (now : Int) (q : Question) : ∀ (qs : List (Question × Bool)) (h : History),
    (∃ e, h.get lower q = some e ∧ e.time = now ∧ e.known = known) →
    ∃ e, (hearFold lower known now h qs).get lower q = some e ∧ e.time = now ∧ e.known = known
  | [], _, he => he
  | qc :: rest, h, he => by
    simp only [hearFold, List.foldl_cons]
    apply hearFold_keeps known now q rest
    by_cases hr : Recorded lower q qc
    · refine ⟨{ q := qc.1, time := now, known }, ?_, rfl, rfl⟩
      simp only [responderHears, hr.2.1, hr.2.2, Bool.not_false, Bool.and_self, if_true]
      exact get_add_eq lower h q qc.1 now known hr.1
    · rw [responderHears_other lower qc.2 h q qc.1 now known hr]
      exact he

theorem hearFold_records (known : List Rec) (now : Int) (q : Question) : ∀ (qs : List (Question × Bool)) (h : History),
    (∃ qc ∈ qs, Recorded lower q qc) →
    ∃ e, (hearFold lower known now h qs).get lower q = some e ∧ e.time = now ∧ e.known = known
  | [], _, ⟨_, hm, _⟩ => by simp at hm
  | qc :: rest, h, hex => by
    by_cases hr : Recorded lower q qc
    · simp only [hearFold, List.foldl_cons]
      apply hearFold_keeps lower known now q rest
      refine ⟨{ q := qc.1, time := now, known }, ?_, rfl, rfl⟩
      simp only [responderHears, hr.2.1, hr.2.2, Bool.not_false, Bool.and_self, if_true]
      exact get_add_eq lower h q qc.1 now known hr.1
    · obtain ⟨x, hx, hrx⟩ := hex
      rcases List.mem_cons.1 hx with rfl | hx
      · exact absurd hrx hr
      · simp only [hearFold, List.foldl_cons]
        exact hearFold_records known now q rest _ ⟨x, hx, hrx⟩

end Zc.QueryGen
