import Zc.Proofs.QueryGen
import Zc.Props.C20
/-! Helper lemmas for the run-level C13 theorems (`Props/C13Run.lean`): whole heard queries, sequences of sightings. -/
namespace Zc.QueryGen
open Zc Zc.GenFacts.History

variable (lower : String → String)

/-! ### question identity is an equivalence -/

theorem qbeq_symm {p q : Question} (h : p.beq lower q = true) : q.beq lower p = true :=
  (question_beq_iff lower q p).2 ((question_beq_iff lower p q).1 h).symm

theorem qbeq_trans {p q r : Question} (h1 : p.beq lower q = true) (h2 : q.beq lower r = true) : p.beq lower r = true :=
  (question_beq_iff lower p r).2 (((question_beq_iff lower p q).1 h1).trans ((question_beq_iff lower q r).1 h2))

theorem qbeq_congr_left {p q : Question} (h : p.beq lower q = true) (e : Question) : e.beq lower p = e.beq lower q := by
  cases h1 : e.beq lower p <;> cases h2 : e.beq lower q <;> try rfl
  · have := qbeq_trans lower h2 (qbeq_symm lower h); rw [h1] at this; cases this
  · have := qbeq_trans lower h1 h; rw [h2] at this; cases this

/-- `get` only looks at the key -/
theorem get_congr (h : History) {p q : Question} (hpq : p.beq lower q = true) : h.get lower p = h.get lower q := by
  unfold History.get
  congr 1
  funext e
  exact qbeq_congr_left lower hpq e.q

/-! ### `add` and `get` -/

theorem find_filter_ne (q q2 : Question) (hne : q2.beq lower q = false) :
    ∀ (h : History), (h.filter (fun e => !(e.q.beq lower q2))).find? (fun e => e.q.beq lower q) = h.find? (fun e => e.q.beq lower q)
  | [] => rfl
  | x :: rest => by
    by_cases hx : x.q.beq lower q = true
    · have hx2 : x.q.beq lower q2 = false := by
        cases hb : x.q.beq lower q2
        · rfl
        · have := qbeq_trans lower (qbeq_symm lower hb) hx
          rw [hne] at this; cases this
      simp [hx2, hx]
    · have hx' : x.q.beq lower q = false := by simpa using hx
      by_cases hx2 : x.q.beq lower q2 = true
      · simp [hx2, hx', find_filter_ne q q2 hne rest]
      · have hx2' : x.q.beq lower q2 = false := by simpa using hx2
        simp [hx2', hx', find_filter_ne q q2 hne rest]

/-- recording another question does not touch the entry of `q` -/
theorem get_add_ne (h : History) (q q2 : Question) (now : Int) (known : List Rec) (hne : q2.beq lower q = false) :
    (h.add lower q2 now known).get lower q = h.get lower q := by
  simp only [History.add, History.get, List.find?_cons, hne]
  exact find_filter_ne lower q q2 hne h

/-- recording a question with the same key replaces the entry of `q` -/
theorem get_add_eq (h : History) (q q2 : Question) (now : Int) (known : List Rec) (heq : q2.beq lower q = true) :
    (h.add lower q2 now known).get lower q = some { q := q2, time := now, known } := by
  simp [History.add, History.get, heq]

/-! ### a whole heard query -/

theorem mem_dedupRecs {x : Rec} : ∀ {l : List Rec}, x ∈ dedupRecs lower l → x ∈ l
  | [], h => by simp [dedupRecs] at h
  | r :: rs, h => by
    simp only [dedupRecs, List.mem_cons, List.mem_filter] at h
    rcases h with rfl | ⟨h, -⟩
    · simp
    · exact List.mem_cons_of_mem _ (mem_dedupRecs h)

/-- every record of the list has an equal one (C20) in the set -/
theorem dedupRecs_complete {x : Rec} : ∀ {l : List Rec}, x ∈ l → ∃ y ∈ dedupRecs lower l, y.beq lower x = true
  | [], h => by simp at h
  | r :: rs, h => by
    by_cases hr : r.beq lower x = true
    · exact ⟨r, by simp [dedupRecs], hr⟩
    · rcases List.mem_cons.1 h with rfl | h
      · exact absurd ((C20_equivalence lower).1 x) hr
      · obtain ⟨y, hy, hyx⟩ := dedupRecs_complete h
        refine ⟨y, ?_, hyx⟩
        simp only [dedupRecs, List.mem_cons, List.mem_filter]
        right
        refine ⟨hy, ?_⟩
        cases hry : r.beq lower y
        · rfl
        · exact absurd ((C20_equivalence lower).2.2 r y x hry hyx) hr

/-- the fold of `hearQuery` over a list of (question, canAnswer) pairs -/
def hearFold (known : List Rec) (now : Int) (h : History) (qs : List (Question × Bool)) : History :=
  qs.foldl (fun h qc => responderHears lower qc.2 h qc.1 now known) h

theorem hearQuery_eq (h : History) (pkts : List HeardPacket) (now : Int) :
    hearQuery lower h pkts now = hearFold lower (heardKnown lower pkts) now h (pkts.flatMap (·.questions)) := rfl

/-- a question of the same key that is answerable and QM -/
def Recorded (q : Question) (qc : Question × Bool) : Prop := qc.1.beq lower q = true ∧ qc.2 = true ∧ qc.1.unique = false

theorem responderHears_other (can : Bool) (h : History) (q q2 : Question) (now : Int) (known : List Rec)
    (hn : ¬ Recorded lower q (q2, can)) : (responderHears lower can h q2 now known).get lower q = h.get lower q := by
  unfold responderHears
  split
  · rename_i hc
    simp only [Bool.and_eq_true, Bool.not_eq_true'] at hc
    have hne : q2.beq lower q = false := by
      cases hb : q2.beq lower q
      · rfl
      · exact absurd ⟨hb, hc.1, hc.2⟩ hn
    exact get_add_ne lower h q q2 now known hne
  · rfl

theorem hearFold_none (known : List Rec) (now : Int) (q : Question) : ∀ (qs : List (Question × Bool)) (h : History),
    (∀ qc ∈ qs, ¬ Recorded lower q qc) → (hearFold lower known now h qs).get lower q = h.get lower q
  | [], _, _ => rfl
  | qc :: rest, h, hn => by
    simp only [hearFold, List.foldl_cons]
    have := hearFold_none known now q rest (responderHears lower qc.2 h qc.1 now known) (fun x hx => hn x (List.mem_cons_of_mem _ hx))
    simp only [hearFold] at this
    rw [this]
    exact responderHears_other lower qc.2 h q qc.1 now known (hn qc (by simp))

/-- once an entry `(now, known)` is there for `q`, the rest of the fold keeps it (it may be re-written with the same time and list) -/
theorem hearFold_keeps (known : List Rec) (now : Int) (q : Question) : ∀ (qs : List (Question × Bool)) (h : History),
    (∃ e, h.get lower q = some e ∧ e.time = now ∧ e.known = known) →
    ∃ e, (hearFold lower known now h qs).get lower q = some e ∧ e.time = now ∧ e.known = known
  | [], _, he => he
  | qc :: rest, h, he => by
    simp only [hearFold, List.foldl_cons]
    apply hearFold_keeps known now q rest
    by_cases hr : Recorded lower q qc
    · refine ⟨{ q := qc.1, time := now, known }, ?_, rfl, rfl⟩
      simp only [responderHears, hr.2.1, hr.2.2, Bool.not_false, Bool.and_self, if_true]
      exact get_add_eq lower h q qc.1 now known hr.1
    · rw [responderHears_other lower qc.2 h q qc.1 now known hr]
      exact he

theorem hearFold_records (known : List Rec) (now : Int) (q : Question) : ∀ (qs : List (Question × Bool)) (h : History),
    (∃ qc ∈ qs, Recorded lower q qc) →
    ∃ e, (hearFold lower known now h qs).get lower q = some e ∧ e.time = now ∧ e.known = known
  | [], _, ⟨_, hm, _⟩ => by simp at hm
  | qc :: rest, h, hex => by
    by_cases hr : Recorded lower q qc
    · simp only [hearFold, List.foldl_cons]
      apply hearFold_keeps lower known now q rest
      refine ⟨{ q := qc.1, time := now, known }, ?_, rfl, rfl⟩
      simp only [responderHears, hr.2.1, hr.2.2, Bool.not_false, Bool.and_self, if_true]
      exact get_add_eq lower h q qc.1 now known hr.1
    · obtain ⟨x, hx, hrx⟩ := hex
      rcases List.mem_cons.1 hx with rfl | hx
      · exact absurd hrx hr
      · simp only [hearFold, List.foldl_cons]
        exact hearFold_records known now q rest _ ⟨x, hx, hrx⟩


/-! ### sightings: what "asked it, or heard it as an authoritative responder" refers to -/

/-- one sighting of a QM question: this instance transmitted it, or heard it as a responder that can answer it -/
structure Sighting where
  q : Question
  time : Int
  known : List Rec
  deriving DecidableEq, Repr, Inhabited

/-- `add_question_at_time(question, now, known_answers)` -/
def History.see (h : History) (s : Sighting) : History := h.add lower s.q s.time s.known

def History.seeAll (h : History) (ss : List Sighting) : History := ss.foldl (History.see lower) h

/-- the last sighting (in list order) of the question key of `q` -/
def lastSighting (ss : List Sighting) (q : Question) : Option Sighting := ss.reverse.find? (fun s => s.q.beq lower q)

/-- every record of the sighting's known-answer list is among `known` -/
def Covers (s : Sighting) (known : List Rec) : Prop := ∀ r ∈ s.known, ∃ k ∈ known, r.beq lower k = true

theorem seeAll_cons (h : History) (s : Sighting) (ss : List Sighting) :
    h.seeAll lower (s :: ss) = (h.see lower s).seeAll lower ss := rfl

theorem seeAll_append (h : History) (l1 l2 : List Sighting) :
    h.seeAll lower (l1 ++ l2) = (h.seeAll lower l1).seeAll lower l2 := by
  simp [History.seeAll, List.foldl_append]

theorem get_see (h : History) (s : Sighting) (q : Question) :
    (h.see lower s).get lower q = if s.q.beq lower q = true then some { q := s.q, time := s.time, known := s.known } else h.get lower q := by
  unfold History.see
  split
  · rename_i hb; exact get_add_eq lower h q s.q s.time s.known hb
  · rename_i hb; exact get_add_ne lower h q s.q s.time s.known (by simpa using hb)

theorem lastSighting_cons (s : Sighting) (ss : List Sighting) (q : Question) :
    lastSighting lower (s :: ss) q = (lastSighting lower ss q).or (if s.q.beq lower q = true then some s else none) := by
  unfold lastSighting
  rw [List.reverse_cons, List.find?_append]
  congr 1
  simp only [List.find?_cons, List.find?_nil]
  split <;> simp_all

/-- the history after a sequence of sightings holds, for every question, its **last** sighting -/
theorem get_seeAll (q : Question) : ∀ (ss : List Sighting) (h : History),
    (h.seeAll lower ss).get lower q =
      match lastSighting lower ss q with
      | some s => some { q := s.q, time := s.time, known := s.known }
      | none => h.get lower q
  | [], h => by simp [History.seeAll, lastSighting]
  | s :: ss, h => by
    rw [seeAll_cons, get_seeAll q ss, lastSighting_cons]
    cases hl : lastSighting lower ss q with
    | some s' => simp
    | none =>
      simp only [Option.none_or]
      rw [get_see]
      split <;> rfl

theorem suppresses_of_get {h h' : History} {q : Question} (hg : h.get lower q = h'.get lower q) (now : Int) (known : List Rec) :
    h.suppresses lower q now known = h'.suppresses lower q now known := by
  unfold History.suppresses; rw [hg]

/-- the decision of `suppresses` after a sequence of sightings from the empty history: the **last** sighting of the question is at
most 999 ms old and its list is covered -/
theorem suppresses_seeAll (ss : List Sighting) (q : Question) (now : Int) (known : List Rec) :
    (History.seeAll lower [] ss).suppresses lower q now known = true ↔
      ∃ s, lastSighting lower ss q = some s ∧ now - s.time ≤ 999 ∧ Covers lower s known := by
  rw [suppresses_iff, get_seeAll]
  cases hl : lastSighting lower ss q with
  | none => simp [History.get]
  | some s =>
    simp only [Option.some.injEq]
    constructor
    · rintro ⟨e, he, h1, h2⟩
      subst he
      exact ⟨s, rfl, h1, h2⟩
    · rintro ⟨s', hs', h1, h2⟩
      subst hs'
      exact ⟨_, rfl, h1, h2⟩

theorem lastSighting_some {ss : List Sighting} {q : Question} {s : Sighting} (h : lastSighting lower ss q = some s) :
    s ∈ ss ∧ s.q.beq lower q = true := by
  unfold lastSighting at h
  exact ⟨List.mem_reverse.1 (List.mem_of_find?_eq_some h), by simpa using List.find?_some h⟩

theorem lastSighting_isSome {ss : List Sighting} {q : Question} {s0 : Sighting} (hm : s0 ∈ ss) (hk : s0.q.beq lower q = true) :
    ∃ s, lastSighting lower ss q = some s := by
  unfold lastSighting
  cases hf : ss.reverse.find? (fun s => s.q.beq lower q) with
  | some s => exact ⟨s, rfl⟩
  | none =>
    rw [List.find?_eq_none] at hf
    exact absurd hk (by simpa using hf s0 (List.mem_reverse.2 hm))

/-- in a chronological list the last sighting of a question is not older than any other sighting of it -/
theorem lastSighting_latest {ss : List Sighting} (hc : ss.Pairwise (fun a b => a.time ≤ b.time)) {q : Question} {s : Sighting}
    (h : lastSighting lower ss q = some s) : ∀ s0 ∈ ss, s0.q.beq lower q = true → s0.time ≤ s.time := by
  unfold lastSighting at h
  obtain ⟨-, l1, l2, hrev, hno⟩ := List.find?_eq_some_iff_append.1 h
  have hss : ss = l2.reverse ++ s :: l1.reverse := by
    have := congrArg List.reverse hrev
    simpa using this
  intro s0 hs0 hk
  rw [hss] at hs0 hc
  rcases List.mem_append.1 hs0 with hm | hm
  · exact (List.pairwise_append.1 hc).2.2 s0 hm s (by simp)
  · rcases List.mem_cons.1 hm with rfl | hm
    · exact Int.le_refl _
    · have := hno s0 (List.mem_reverse.1 hm)
      simp [hk] at this

/-! ### equivalence of histories at a fixed time -/

/-- the two histories take the same suppression decisions at time `now` -/
def FutEqAt (now : Int) (h h' : History) : Prop := ∀ q known, h.suppresses lower q now known = h'.suppresses lower q now known

theorem futEqAt_see {now : Int} {h h' : History} (he : FutEqAt lower now h h') (s : Sighting) :
    FutEqAt lower now (h.see lower s) (h'.see lower s) := by
  intro q known
  by_cases hb : s.q.beq lower q = true
  · apply suppresses_of_get
    rw [get_see, get_see, if_pos hb, if_pos hb]
  · have h1 : (h.see lower s).suppresses lower q now known = h.suppresses lower q now known :=
      suppresses_of_get lower (by rw [get_see, if_neg hb]) now known
    have h2 : (h'.see lower s).suppresses lower q now known = h'.suppresses lower q now known :=
      suppresses_of_get lower (by rw [get_see, if_neg hb]) now known
    rw [h1, h2]; exact he q known

theorem futEqAt_seeAll {now : Int} : ∀ (ss : List Sighting) {h h' : History}, FutEqAt lower now h h' →
    FutEqAt lower now (h.seeAll lower ss) (h'.seeAll lower ss)
  | [], _, _, he => he
  | s :: ss, _, _, he => by
    rw [seeAll_cons, seeAll_cons]
    exact futEqAt_seeAll ss (futEqAt_see lower he s)

theorem futEqAt_expire {now t : Int} {h h' : History} (hk : History.Keyed lower h) (ht : t ≤ now) (he : FutEqAt lower now h h') :
    FutEqAt lower now (h.expire t) h' := by
  intro q known
  rw [suppresses_expire lower hk t now ht]
  exact he q known

theorem keyed_seeAll : ∀ (ss : List Sighting) {h : History}, History.Keyed lower h → History.Keyed lower (h.seeAll lower ss)
  | [], _, hk => hk
  | s :: ss, _, hk => by
    rw [seeAll_cons]
    exact keyed_seeAll ss (keyed_add lower hk s.q s.time s.known)


/-! ### what one operation of the instance does to the history -/

/-- the QM questions among emitted questions, as sightings at `now` -/
def sightingsOf (now : Int) (outs : List QOut) : List Sighting :=
  (outs.filter (fun o => !o.q.unique)).map (fun o => { q := o.q, time := now, known := o.known })

theorem sightingsOf_cons (now : Int) (o : QOut) (outs : List QOut) :
    sightingsOf now (o :: outs) = (if o.q.unique then [] else [{ q := o.q, time := now, known := o.known }]) ++ sightingsOf now outs := by
  unfold sightingsOf
  cases h : o.q.unique <;> simp [h]

theorem sightingsOf_time {now : Int} {outs : List QOut} {s : Sighting} (h : s ∈ sightingsOf now outs) : s.time = now := by
  unfold sightingsOf at h
  obtain ⟨o, -, rfl⟩ := List.mem_map.1 h
  rfl

theorem askType_none {cache : List Rec} {h h1 : History} {now : Int} {qu : Bool} {ty : String}
    (hr : askType lower cache h now qu ty = (none, h1)) : h1 = h := by
  unfold askType at hr
  simp only at hr
  split at hr
  · exact (Prod.mk.inj hr).2.symm
  · exact absurd (Prod.mk.inj hr).1 (by simp)

theorem askType_some {cache : List Rec} {h h1 : History} {now : Int} {qu : Bool} {ty : String} {o : QOut}
    (hr : askType lower cache h now qu ty = (some o, h1)) :
    o.q.unique = qu ∧ h1 = (if qu then h else h.add lower o.q now o.known) := by
  unfold askType at hr
  simp only at hr
  split at hr
  · exact absurd (Prod.mk.inj hr).1 (by simp)
  · obtain ⟨h1', h2'⟩ := Prod.mk.inj hr
    simp only [Option.some.injEq] at h1'
    subst h1'
    refine ⟨rfl, ?_⟩
    rw [← h2']
    cases qu <;> simp

/-- `generate_service_query` leaves the history as if exactly the QM questions it emitted had been remembered at `now`, in order -/
theorem serviceQuery_history (cache : List Rec) (now : Int) (qu : Bool) : ∀ (tys : List String) (h : History),
    (serviceQuery lower cache now qu tys h).2 = h.seeAll lower (sightingsOf now (serviceQuery lower cache now qu tys h).1)
  | [], h => rfl
  | ty :: rest, h => by
    rw [serviceQuery]
    generalize hr : askType lower cache h now qu ty = r
    obtain ⟨ro, h1⟩ := r
    cases ro with
    | none =>
      simp only
      rw [askType_none lower hr]
      exact serviceQuery_history cache now qu rest h
    | some o =>
      simp only
      obtain ⟨hq, hh⟩ := askType_some lower hr
      rw [sightingsOf_cons, seeAll_append, serviceQuery_history cache now qu rest h1]
      congr 1
      rw [hh, hq]
      cases qu <;> simp [History.seeAll, History.see]

theorem addQuestion_none {cache : List Rec} {h h1 : History} {now : Int} {qu : Bool} {name : String} {ty cls : Nat} {skip : Bool}
    (hr : addQuestion lower cache h now qu name ty cls skip = (none, h1)) : h1 = h := by
  unfold addQuestion at hr
  simp only at hr
  split at hr
  · exact (Prod.mk.inj hr).2.symm
  · split at hr
    · exact absurd (Prod.mk.inj hr).1 (by simp)
    · split at hr
      · exact (Prod.mk.inj hr).2.symm
      · exact absurd (Prod.mk.inj hr).1 (by simp)

theorem addQuestion_some {cache : List Rec} {h h1 : History} {now : Int} {qu : Bool} {name : String} {ty cls : Nat} {skip : Bool} {o : QOut}
    (hr : addQuestion lower cache h now qu name ty cls skip = (some o, h1)) :
    o.q.unique = qu ∧ h1 = (if qu then h else h.add lower o.q now o.known) := by
  unfold addQuestion at hr
  simp only at hr
  split at hr
  · exact absurd (Prod.mk.inj hr).1 (by simp)
  · split at hr
    · rename_i hqu
      obtain ⟨h1', h2'⟩ := Prod.mk.inj hr
      simp only [Option.some.injEq] at h1'
      subst h1'
      exact ⟨hqu.symm ▸ rfl, by rw [← h2', hqu]; rfl⟩
    · rename_i hqu
      have hqu' : qu = false := by simpa using hqu
      split at hr
      · exact absurd (Prod.mk.inj hr).1 (by simp)
      · obtain ⟨h1', h2'⟩ := Prod.mk.inj hr
        simp only [Option.some.injEq] at h1'
        subst h1'
        exact ⟨rfl, by rw [← h2', hqu']; rfl⟩

/-- one `_add_question_with_known_answers`: the history afterwards = the history before plus the sighting of the question, if a QM
question was emitted -/
theorem addQuestion_history (cache : List Rec) (h : History) (now : Int) (qu : Bool) (name : String) (ty cls : Nat) (skip : Bool) :
    (addQuestion lower cache h now qu name ty cls skip).2 =
      h.seeAll lower (sightingsOf now ((addQuestion lower cache h now qu name ty cls skip).1.toList)) := by
  generalize hr : addQuestion lower cache h now qu name ty cls skip = r
  obtain ⟨ro, h1⟩ := r
  cases ro with
  | none => simp only [Option.toList]; rw [addQuestion_none lower hr]; rfl
  | some o =>
    obtain ⟨hq, hh⟩ := addQuestion_some lower hr
    simp only [Option.toList]
    rw [sightingsOf_cons, hh, hq]
    cases qu <;> simp [History.seeAll, History.see, sightingsOf]

theorem filterMap_id_eq_flatMap_toList {α : Type} : ∀ (l : List (Option α)), l.filterMap id = l.flatMap Option.toList
  | [] => rfl
  | none :: t => by simp [filterMap_id_eq_flatMap_toList t]
  | some a :: t => by simp [filterMap_id_eq_flatMap_toList t]

theorem sightingsOf_append (now : Int) (l1 l2 : List QOut) : sightingsOf now (l1 ++ l2) = sightingsOf now l1 ++ sightingsOf now l2 := by
  simp [sightingsOf]

/-- `_generate_request_query` leaves the history as if exactly the QM questions it emitted had been remembered at `now`, in order -/
theorem requestQuery_history (cache : List Rec) (h : History) (now : Int) (qu : Bool) (name server : String) :
    (requestQuery lower cache h now qu name server).2 = h.seeAll lower (sightingsOf now (requestQuery lower cache h now qu name server).1) := by
  unfold requestQuery
  simp only
  rw [filterMap_id_eq_flatMap_toList]
  simp only [List.flatMap_cons, List.flatMap_nil, List.append_nil, sightingsOf_append, seeAll_append]
  rw [addQuestion_history lower cache _ now qu server Gen.typeAaaa Gen.classIn false,
    addQuestion_history lower cache _ now qu server Gen.typeA Gen.classIn false,
    addQuestion_history lower cache _ now qu name Gen.typeTxt Gen.classIn true,
    addQuestion_history lower cache h now qu name Gen.typeSrv Gen.classIn true]

/-- the sightings a heard query amounts to: its QM questions the host can answer, each with the query's known answers -/
def heardSightings (pkts : List HeardPacket) (now : Int) : List Sighting :=
  ((pkts.flatMap (·.questions)).filter (fun qc => qc.2 && !qc.1.unique)).map
    (fun qc => { q := qc.1, time := now, known := heardKnown lower pkts })

theorem hearFold_seeAll (known : List Rec) (now : Int) : ∀ (qs : List (Question × Bool)) (h : History),
    hearFold lower known now h qs =
      h.seeAll lower ((qs.filter (fun qc => qc.2 && !qc.1.unique)).map (fun qc => { q := qc.1, time := now, known := known }))
  | [], _ => rfl
  | qc :: rest, h => by
    simp only [hearFold, List.foldl_cons]
    have := hearFold_seeAll known now rest (responderHears lower qc.2 h qc.1 now known)
    simp only [hearFold] at this
    rw [this]
    by_cases hc : (qc.2 && !qc.1.unique) = true
    · simp [hc, History.seeAll, History.see, responderHears]
    · simp [hc, responderHears]

theorem hearQuery_history (h : History) (pkts : List HeardPacket) (now : Int) :
    hearQuery lower h pkts now = h.seeAll lower (heardSightings lower pkts now) := by
  rw [hearQuery_eq, hearFold_seeAll]; rfl

/-! ### runs of an instance -/

/-- the operations of one instance that read or write its question history: any browser's `generate_service_query`, any lookup's
`_generate_request_query`, `async_response` on an assembled query, the clean-up tick.  Caches, clocks, types and names are arbitrary
per operation (several browsers and lookups share the one history). -/
/- The list handed to `runOps` is the order of **execution**.  `Op.hear pkts now` is the execution of `async_response` on an assembled
query; `now` is the time it is stamped with (`msgs[-1].now`, the arrival of its last packet).  For a query that ends with a non-TC packet
the two coincide; a truncated query whose train is incomplete is held back by the listener and executes 400–500 ms after that arrival. -/
inductive Op where
  | browse (cache : List Rec) (now : Int) (qu : Bool) (types : List String)
  | lookup (cache : List Rec) (now : Int) (qu : Bool) (name server : String)
  | hear (pkts : List HeardPacket) (now : Int)
  | tick (now : Int)

def Op.time : Op → Int
  | .browse _ now _ _ => now
  | .lookup _ now _ _ _ => now
  | .hear _ now => now
  | .tick now => now

/-- the questions the operation transmits and the history afterwards -/
def Op.run (h : History) : Op → List QOut × History
  | .browse cache now qu types => serviceQuery lower cache now qu types h
  | .lookup cache now qu name server => requestQuery lower cache h now qu name server
  | .hear pkts now => ([], hearQuery lower h pkts now)
  | .tick now => ([], h.cleanupTick now)

/-- what the operation adds to "asked it, or heard it as an authoritative responder": the QM questions it transmitted, resp. the QM
questions of the heard query the host can answer -/
def Op.sightings (h : History) : Op → List Sighting
  | .browse cache now qu types => sightingsOf now (serviceQuery lower cache now qu types h).1
  | .lookup cache now qu name server => sightingsOf now (requestQuery lower cache h now qu name server).1
  | .hear pkts now => heardSightings lower pkts now
  | .tick _ => []

/-- run a list of operations: the final history and all sightings, in order -/
def runOps (h : History) : List Op → History × List Sighting
  | [] => (h, [])
  | op :: rest => ((runOps (op.run lower h).2 rest).1, op.sightings lower h ++ (runOps (op.run lower h).2 rest).2)

theorem op_sightings_time {h : History} {op : Op} {s : Sighting} (hs : s ∈ op.sightings lower h) : s.time = op.time := by
  cases op with
  | browse cache now qu types => exact sightingsOf_time hs
  | lookup cache now qu name server => exact sightingsOf_time hs
  | hear pkts now =>
    simp only [Op.sightings, heardSightings] at hs
    obtain ⟨qc, -, rfl⟩ := List.mem_map.1 hs
    rfl
  | tick now => simp [Op.sightings] at hs

/-- **the history of a run is the history of its sightings**, as far as any decision at a time `now` not before the run's clean-up
ticks goes.  The list is the order in which the operations *execute*; nothing is assumed about the times they carry except that the
ticks lie in the past of `now` (a heard query that the listener deferred executes later than the time it is stamped with). -/
theorem runOps_futEqAt (now : Int) : ∀ (ops : List Op) (h h' : History), History.Keyed lower h → (∀ t, Op.tick t ∈ ops → t ≤ now) →
    FutEqAt lower now h h' → FutEqAt lower now (runOps lower h ops).1 (h'.seeAll lower (runOps lower h ops).2)
  | [], _, _, _, _, he => he
  | op :: rest, h, h', hk, ht, he => by
    simp only [runOps]
    rw [seeAll_append]
    have htr : ∀ t, Op.tick t ∈ rest → t ≤ now := fun t ho => ht t (List.mem_cons_of_mem _ ho)
    cases op with
    | browse cache t qu types =>
      have hh : (Op.run lower h (.browse cache t qu types)).2 = h.seeAll lower (Op.sightings lower h (.browse cache t qu types)) :=
        serviceQuery_history lower cache t qu types h
      rw [hh]
      exact runOps_futEqAt now rest _ _ (keyed_seeAll lower _ hk) htr (futEqAt_seeAll lower _ he)
    | lookup cache t qu name server =>
      have hh : (Op.run lower h (.lookup cache t qu name server)).2 = h.seeAll lower (Op.sightings lower h (.lookup cache t qu name server)) :=
        requestQuery_history lower cache h t qu name server
      rw [hh]
      exact runOps_futEqAt now rest _ _ (keyed_seeAll lower _ hk) htr (futEqAt_seeAll lower _ he)
    | hear pkts t =>
      have hh : (Op.run lower h (.hear pkts t)).2 = h.seeAll lower (Op.sightings lower h (.hear pkts t)) :=
        hearQuery_history lower h pkts t
      rw [hh]
      exact runOps_futEqAt now rest _ _ (keyed_seeAll lower _ hk) htr (futEqAt_seeAll lower _ he)
    | tick t =>
      have hh : (Op.run lower h (.tick t)).2 = h.expire t := by
        simp only [Op.run, History.cleanupTick, cleanup_expire_time_eq]
      rw [hh]
      simp only [Op.sightings, History.seeAll, List.foldl_nil]
      have ht' : t ≤ now := ht t (by simp)
      exact runOps_futEqAt now rest _ _ (keyed_expire lower hk t) htr (futEqAt_expire lower hk ht' he)

/-- the sightings of a chronological run are chronological -/
theorem runOps_chrono : ∀ (ops : List Op) (h : History), ops.Pairwise (fun a b => a.time ≤ b.time) →
    (runOps lower h ops).2.Pairwise (fun a b => a.time ≤ b.time) ∧ ∀ s ∈ (runOps lower h ops).2, ∃ op ∈ ops, s.time = op.time
  | [], _, _ => by simp [runOps]
  | op :: rest, h, hp => by
    simp only [runOps]
    obtain ⟨hp1, hp2⟩ := List.pairwise_cons.1 hp
    obtain ⟨ih1, ih2⟩ := runOps_chrono rest (op.run lower h).2 hp2
    refine ⟨List.pairwise_append.2 ⟨?_, ih1, ?_⟩, ?_⟩
    · rw [List.pairwise_iff_forall_sublist]
      intro a b hab
      have ha := op_sightings_time lower (hab.subset (by simp : a ∈ [a, b]))
      have hb := op_sightings_time lower (hab.subset (by simp : b ∈ [a, b]))
      rw [ha, hb]; exact Int.le_refl _
    · intro a ha b hb
      obtain ⟨op', hop', hbt⟩ := ih2 b hb
      rw [op_sightings_time lower ha, hbt]
      exact hp1 op' hop'
    · intro s hs
      rcases List.mem_append.1 hs with hs | hs
      · exact ⟨op, by simp, op_sightings_time lower hs⟩
      · obtain ⟨op', hop', hst⟩ := ih2 s hs
        exact ⟨op', List.mem_cons_of_mem _ hop', hst⟩

/-! ### the questions one `generate_service_query` call emits -/

theorem knownAnswers_congr (cache : List Rec) (a b : String) (ty cls : Nat) (now : Int) (h : lower a = lower b) :
    knownAnswers lower cache a ty cls now = knownAnswers lower cache b ty cls now := by
  unfold knownAnswers matching
  rw [h]

/-- every entry of the per-type loop's output is what `askType` emits for one of the types on some history -/
theorem serviceQuery_mem (cache : List Rec) (now : Int) (qu : Bool) : ∀ (tys : List String) (h : History) (o : QOut),
    o ∈ (serviceQuery lower cache now qu tys h).1 → ∃ ty ∈ tys, ∃ h', (askType lower cache h' now qu ty).1 = some o
  | [], _, o, ho => by simp [serviceQuery] at ho
  | ty :: rest, h, o, ho => by
    rw [serviceQuery] at ho
    generalize hr : askType lower cache h now qu ty = r at ho
    obtain ⟨ro, h1⟩ := r
    cases ro with
    | none =>
      simp only at ho
      obtain ⟨ty', hm, h', hh⟩ := serviceQuery_mem cache now qu rest h1 o ho
      exact ⟨ty', List.mem_cons_of_mem _ hm, h', hh⟩
    | some o1 =>
      simp only [List.mem_cons] at ho
      rcases ho with rfl | ho
      · exact ⟨ty, by simp, h, by rw [hr]⟩
      · obtain ⟨ty', hm, h', hh⟩ := serviceQuery_mem cache now qu rest h1 o ho
        exact ⟨ty', List.mem_cons_of_mem _ hm, h', hh⟩

/-- the dict's keys are pairwise different questions -/
def DistinctKeys (d : List QOut) : Prop := d.Pairwise (fun a b => a.q.beq lower b.q = false)

theorem dictPut_q (d : List QOut) (o : QOut) : ∀ x ∈ dictPut lower d o, x.q = o.q ∨ ∃ y ∈ d, x.q = y.q := by
  intro x hx
  unfold dictPut at hx
  split at hx
  · obtain ⟨y, hy, rfl⟩ := List.mem_map.1 hx
    right
    refine ⟨y, hy, ?_⟩
    split <;> rfl
  · rcases List.mem_append.1 hx with hx | hx
    · exact Or.inr ⟨x, hx, rfl⟩
    · left; simp only [List.mem_singleton] at hx; rw [hx]

theorem dictPut_distinct {d : List QOut} (hd : DistinctKeys lower d) (o : QOut) : DistinctKeys lower (dictPut lower d o) := by
  unfold dictPut
  split
  · unfold DistinctKeys
    rw [List.pairwise_map]
    refine hd.imp ?_
    intro a b hab
    have ha : (if a.q.beq lower o.q = true then { a with known := o.known, wire := o.wire } else a).q = a.q := by split <;> rfl
    have hb : (if b.q.beq lower o.q = true then { b with known := o.known, wire := o.wire } else b).q = b.q := by split <;> rfl
    rw [ha, hb]; exact hab
  · rename_i hany
    unfold DistinctKeys
    rw [List.pairwise_append]
    refine ⟨hd, by simp, ?_⟩
    intro a ha b hb
    simp only [List.mem_singleton] at hb
    subst hb
    cases hab : a.q.beq lower b.q
    · rfl
    · exact absurd (List.any_eq_true.2 ⟨a, ha, hab⟩) hany

theorem foldl_dictPut_distinct : ∀ (outs d : List QOut), DistinctKeys lower d → DistinctKeys lower (outs.foldl (dictPut lower) d)
  | [], _, hd => hd
  | o :: rest, d, hd => foldl_dictPut_distinct rest _ (dictPut_distinct lower hd o)

/-- an entry of the dict: its key is the question of one loop entry, its value (known answers, wire form) that of a loop entry of the
same key -/
def FromLoop (outs : List QOut) (x : QOut) : Prop :=
  ∃ o1 ∈ outs, ∃ o2 ∈ outs, x.q = o1.q ∧ x.known = o2.known ∧ x.wire = o2.wire ∧ o1.q.beq lower o2.q = true

theorem dictPut_fromLoop (outs : List QOut) {d : List QOut} (hd : ∀ x ∈ d, FromLoop lower outs x) {o : QOut} (ho : o ∈ outs) :
    ∀ x ∈ dictPut lower d o, FromLoop lower outs x := by
  intro x hx
  unfold dictPut at hx
  split at hx
  · obtain ⟨y, hy, rfl⟩ := List.mem_map.1 hx
    obtain ⟨o1, h1, o2, h2, e1, e2, e3, e4⟩ := hd y hy
    split
    · rename_i hb
      refine ⟨o1, h1, o, ho, e1, rfl, rfl, ?_⟩
      rw [← e1]; exact hb
    · exact ⟨o1, h1, o2, h2, e1, e2, e3, e4⟩
  · rcases List.mem_append.1 hx with hx | hx
    · exact hd x hx
    · simp only [List.mem_singleton] at hx
      subst hx
      exact ⟨x, ho, x, ho, rfl, rfl, rfl, question_beq_refl lower x.q⟩

theorem foldl_dictPut_fromLoop (outs : List QOut) : ∀ (l d : List QOut), (∀ o ∈ l, o ∈ outs) → (∀ x ∈ d, FromLoop lower outs x) →
    ∀ x ∈ l.foldl (dictPut lower) d, FromLoop lower outs x
  | [], _, _, hd => hd
  | o :: rest, d, hl, hd =>
    foldl_dictPut_fromLoop outs rest _ (fun o' ho' => hl o' (List.mem_cons_of_mem _ ho'))
      (dictPut_fromLoop lower outs hd (hl o (by simp)))

/-- every loop entry's key is in the dict -/
theorem foldl_dictPut_complete : ∀ (l d : List QOut) (o : QOut), (o ∈ l ∨ ∃ y ∈ d, y.q.beq lower o.q = true) →
    ∃ y ∈ l.foldl (dictPut lower) d, y.q.beq lower o.q = true
  | [], d, o, h => by
    rcases h with h | h
    · simp at h
    · exact h
  | o1 :: rest, d, o, h => by
    apply foldl_dictPut_complete rest (dictPut lower d o1) o
    rcases h with h | ⟨y, hy, hyo⟩
    · rcases List.mem_cons.1 h with rfl | h
      · right
        unfold dictPut
        split
        · rename_i hany
          obtain ⟨y, hy, hyo⟩ := List.any_eq_true.1 hany
          refine ⟨_, List.mem_map.2 ⟨y, hy, rfl⟩, ?_⟩
          simp only [hyo, if_true]
        · exact ⟨o, by simp, question_beq_refl lower o.q⟩
      · exact Or.inl h
    · right
      unfold dictPut
      split
      · refine ⟨_, List.mem_map.2 ⟨y, hy, rfl⟩, ?_⟩
        have : (if y.q.beq lower o1.q = true then { y with known := o1.known, wire := o1.wire } else y).q = y.q := by split <;> rfl
        rw [this]; exact hyo
      · exact ⟨y, by simp [hy], hyo⟩

end Zc.QueryGen
